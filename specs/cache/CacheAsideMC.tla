---------------------------- MODULE CacheAsideMC ----------------------------
(* Bounded model checking of the cache-aside store (CacheAside.tla, property C06) and
   generation of operation histories for replay on the real cache.Cache / sqlc.CachedConn.

   Model checking (Emit = FALSE): every sequence of cached reads (Take, QueryRowIndex), Get,
   explicit Set, database writes with invalidation (row insert/update/delete, index link /
   unlink), explicit Del, cleaner retries, clock advances chosen around the expiry of the
   entries, cache-store outages (also toggled inside a query) and database errors, of any
   length: the state is viewed relative to the clock, so the quotient is finite.  The
   clauses of C06 are checked as action properties: the variable last carries what the
   caller of the last operation was told, the unprimed variables are the state it ran in.

   Generation (Emit = TRUE): the same machine with a history variable hidden by the VIEW;
   one shortest history is printed per distinct (state, last operation) ("TRACE <json>").  *)
EXTENDS CacheAside, TLC, Json

CONSTANTS
  NP, NI,      \* number of primary / index keys
  Vals,        \* row versions the harness writes
  ExpDs, NfDs, \* configured expiry / not-found expiry, deciseconds
  SetExpDs,    \* explicit expiries used by SetWithExpire, deciseconds
  AllowKF,     \* TRUE: the known deviation (stale read of a pendingDel key) is a behaviour
  Taint,       \* TRUE: explicit Set may write a value the database does not hold
  Flips,       \* TRUE: the harness may toggle the store inside a query
  Cuts,        \* positions at which an outage may begin inside an operation (1: before its first store access,
               \* n: after its (n-1)-th); {}: outages begin between operations only
  CutTail,     \* generation only: an outage begins inside an operation only in the last CutTail operations of a history
  MaxOps,      \* generation only: longest history
  Emit         \* TRUE: print histories

VARIABLES
  tasks,       \* keys whose deletion the cleaner still has to retry
  last,        \* the last operation: inputs and answers (n: running number)
  hist         \* generation: operation history (hidden by the VIEW)

mvars == <<now, db, cache, down, pendingDel, tainted, cfg, cl, calls, running, qres, tasks, last, hist>>

Base(op, k) == [op |-> op, k |-> k, v |-> 0, dbf |-> FALSE, dbf2 |-> FALSE, flip |-> FALSE, cut |-> 0, d |-> 0, e |-> 0,
                ks |-> <<>>, upd |-> <<>>, r |-> "", rv |-> 0, nq |-> 0, kf |-> FALSE, n |-> 0]

MInit == CInit(NP, NI, ExpDs, NfDs) /\ tasks = {} /\ last = Base("none", 0) /\ hist = <<>>

IKeys == NP .. (NP + NI - 1)
TTLs(e, g) == {Lo(e), Hi(e) + g}
Fn1(k, v) == [x \in {k} |-> v]
Nth(S, j) == CHOOSE x \in S : Cardinality({y \in S : y < x}) = j - 1
Pairs(f) == [j \in 1 .. Cardinality(DOMAIN f) |-> <<Nth(DOMAIN f, j), f[Nth(DOMAIN f, j)]>>]
SetSeq(S) == [j \in 1 .. Cardinality(S) |-> Nth(S, j)]

Log(rec) == /\ last' = [rec EXCEPT !.n = last.n + 1]
            /\ hist' = IF Emit THEN Append(hist, rec) ELSE hist

\* ---- cached reads
\* an outage that begins inside the operation, before its cut-th store access (the accesses: Stages)
\* (generation: only as one of the last CutTail operations of a history - what the operation leaves in the store is
\* judged at once, what the cleaner owes shortly after)
CutsHere == IF Emit /\ Len(hist) < MaxOps - CutTail THEN {} ELSE Cuts
CutChoices(stages) == {0} \cup {c \in CutsHere : c = 1 \/ (stages >= 2 /\ c <= stages + 1)}

MTake(k) ==
  \E dbf, flip \in BOOLEAN : \E t \in TTLs(IF db[k] = Absent THEN NfDs ELSE ExpDs, 0) :
    \E cut \in CutChoices(IF ~Present(k) /\ ~dbf THEN 2 ELSE 1) :
    LET o == DoTake(cache, down \/ cut = 1, IF cut = 0 THEN down # flip ELSE cut <= 2, k, ExpDs, dbf, t)
        kf == o.hit /\ Stale(k) IN
      /\ cut > 0 => ~down /\ ~flip /\ ~dbf
      /\ (dbf \/ flip) => (o.nq = 1)                 \* inputs that cannot matter are not enumerated
      /\ flip => Flips
      /\ (o.nq = 0 \/ dbf \/ o.c = cache) => t = Lo(IF db[k] = Absent THEN NfDs ELSE ExpDs)
      /\ kf => AllowKF
      /\ Take(k, o.r, o.v, o.nq, dbf, flip, cut, 0, t, kf)
      /\ cache' = o.c
      /\ Log([Base("take", k) EXCEPT !.dbf = dbf, !.flip = flip, !.cut = cut, !.r = o.r, !.rv = o.v, !.nq = o.nq, !.kf = kf])
      /\ UNCHANGED tasks

IdxStages(i, dbfi, dbfp) ==
  IF down THEN 1
  ELSE IF IdxHitPath(i) THEN (IF ~Present(cache[i].v) /\ ~dbfp THEN 3 ELSE 2)
  ELSE IF Present(i) \/ dbfi THEN 1
  ELSE IF db[i] = Absent THEN 2 ELSE 3

MIndex(i) ==
  \E dbfi, dbfp, flip \in BOOLEAN : \E ti \in TTLs(IF db[i] = Absent THEN NfDs ELSE ExpDs, 0) :
    \E tp \in TTLs(ExpDs, 0) \cup TTLs(ExpDs, Gap) \cup TTLs(NfDs, 0) :
    \E cut \in CutChoices(IdxStages(i, dbfi, dbfp)) :
      LET pt == IF cut = 0 THEN CHOOSE x \in IdxPatterns(i, flip, 0) : TRUE ELSE <<cut <= 1, cut <= 2, cut <= 3>>
          o == DoIndex(i, dbfi, dbfp, pt[1], pt[2], pt[3], ti, tp)
          kf == \E k \in o.hits : Stale(k) IN
        /\ cut > 0 => ~down /\ ~flip
        /\ flip => Flips
        /\ kf => AllowKF
        \* inputs that cannot matter are not enumerated
        /\ dbfi => o.qi = 1
        /\ dbfp => o.qp = 1
        /\ flip => o.qi + o.qp = 1
        /\ o.c[i] = cache[i] => ti = Lo(IF db[i] = Absent THEN NfDs ELSE ExpDs)
        /\ (\A p \in PKeys : o.c[p] = cache[p]) => tp = Lo(ExpDs)
        /\ Index(i, o.r, o.v, o.qi, o.qp, dbfi, dbfp, flip, cut, 0, ti, tp, kf)
        /\ cache' = o.c
        /\ Log([Base("index", i) EXCEPT !.dbf = dbfi, !.dbf2 = dbfp, !.flip = flip, !.cut = cut, !.r = o.r, !.rv = o.v,
                  !.nq = o.qi + o.qp, !.kf = kf])
        /\ UNCHANGED tasks

MGet(k) ==
  LET r == IF down THEN "cerr" ELSE IF ~Present(k) \/ cache[k].v = PH THEN "nf" ELSE "ok"
      v == IF r = "ok" THEN cache[k].v ELSE 0 IN
    /\ Get(k, r, v)
    /\ Log([Base("get", k) EXCEPT !.r = r, !.rv = v])
    /\ UNCHANGED tasks

\* ---- explicit cache writes
MSet(k) ==
  \E v \in (IF IsIndex(k) THEN {p \in PKeys : db[p] # Absent} ELSE Vals) : \E e \in {ExpDs} \cup SetExpDs : \E t \in TTLs(e, 0) :
    \E cut \in {0} \cup {c \in CutsHere : c <= 2} :               \* 1: refused, 2: the outage begins when the write is complete
    /\ (v # Want(k)) => Taint
    /\ cut > 0 => ~down /\ e = ExpDs
    /\ (down \/ cut = 1) => (t = Lo(e) /\ e = ExpDs)
    /\ Set(k, v, e, IF down \/ cut = 1 THEN "cerr" ELSE "ok", t, FALSE, cut)
    /\ cut = 2 => cache'[k] # cache[k] \/ cache'[k] = Entry(v, t)
    /\ Log([Base("set", k) EXCEPT !.v = v, !.cut = cut, !.e = IF e = ExpDs THEN 0 ELSE e,
              !.r = IF down \/ cut = 1 THEN "cerr" ELSE "ok"])
    /\ UNCHANGED tasks

\* ---- database writes with invalidation (the premise: the keys cover what changes)
Updates ==
       {Fn1(p, v) : p \in PKeys, v \in Vals}                                            \* insert / update a row
  \cup {[k \in {p} \cup {i \in IKeys : db[i] = p} |-> Absent] : p \in PKeys}            \* delete a row and its index entries
  \cup {Fn1(i, p) : i \in IKeys, p \in {x \in PKeys : db[x] # Absent}}                  \* the unique column of row p takes value i
  \cup {Fn1(i, Absent) : i \in IKeys}
Effective(u) == \E k \in DOMAIN u : u[k] # db[k]

\* goctl-generated models invalidate the primary key and every index key of the row they touch
Extras(u) == {{}} \cup {{i \in IKeys : db[i] \in DOMAIN u}}

MWrite ==
  \E u \in Updates : \E dbf \in BOOLEAN : \E extra \in Extras(u) :
    /\ Effective(u)
    /\ \A k \in DOMAIN u : u[k] # db[k] \/ u[k] = Absent
    /\ LET ks == DOMAIN u \cup extra IN
       \E cut \in {0} \cup {c \in CutsHere : c <= Cardinality(ks)} :
         LET gone == IF cut = 0 THEN {} ELSE {k \in ks : Present(k) /\ Cardinality({y \in ks : y < k}) < cut - 1}
             failedDel == ~dbf /\ (down \/ cut > 0) IN
         /\ cut > 0 => ~down /\ ~dbf
         /\ Write(u, ks, dbf, IF dbf THEN "dberr" ELSE "ok", gone, cut)
         /\ tasks' = IF failedDel THEN tasks \cup (ks \ gone) ELSE tasks
         /\ Log([Base("write", 0) EXCEPT !.dbf = dbf, !.cut = cut, !.upd = Pairs(u), !.ks = SetSeq(ks),
                   !.r = IF dbf THEN "dberr" ELSE "ok"])

MDel(k) ==
  /\ Write(<<>>, {k}, FALSE, "ok", {}, 0)
  /\ tasks' = IF down THEN tasks \cup {k} ELSE tasks
  /\ Log([Base("del", k) EXCEPT !.ks = <<k>>, !.r = "ok"])

\* ---- environment: cleaner, clock, faults
MCleaner ==
  \E ks \in {{k} : k \in tasks} \cup {tasks} :
    /\ ks # {}
    /\ Cleaner(ks, ~down)
    /\ tasks' = IF down THEN tasks ELSE tasks \ ks
    /\ Log([Base("cleaner", 0) EXCEPT !.ks = SetSeq(ks), !.r = IF down THEN "fail" ELSE "ok"])
\* the cleaner gives up after its last delay (cleaner.go: nextDelay)
MGiveUp ==
  \E k \in tasks :
    /\ down /\ tasks' = tasks \ {k}
    /\ UNCHANGED cvars /\ UNCHANGED <<last, hist>>

Rems == {cache[k].exp - now : k \in {x \in Keys : Present(x)}}
AdvChoices == {d \in {1} \cup Rems \cup {r - 1 : r \in Rems} : d >= 1}
MAdvance ==
  \E d \in AdvChoices :
    /\ Advance(d)
    /\ Log([Base("advance", 0) EXCEPT !.d = d])
    /\ UNCHANGED tasks

MFault ==
  /\ Fault(~down)
  /\ Log([Base("fault", 0) EXCEPT !.v = IF down THEN 0 ELSE 1])
  /\ UNCHANGED tasks

MNext ==
  /\ Emit => Len(hist) < MaxOps
  /\ \/ \E k \in Keys : (IF IsIndex(k) THEN MIndex(k) ELSE MTake(k)) \/ MGet(k) \/ MSet(k) \/ MDel(k)
     \/ MWrite \/ MCleaner \/ MGiveUp \/ MAdvance \/ MFault

MSpec == MInit /\ [][MNext]_mvars

\* ---- the state relative to the clock
RelCache == [k \in Keys |-> IF Present(k) THEN [v |-> cache[k].v, rem |-> cache[k].exp - now] ELSE NoEntry]
StateView == <<db, RelCache, down, pendingDel, tainted, tasks>>
View == StateView                                           \* model checking: the clauses are action properties
ViewGen == <<StateView, [last EXCEPT !.n = 0]>>             \* generation: one history per (state, operation, answer)

\* ------------------------------------------------------------------ the clauses of C06
\* (unprimed: the state the operation ran in; last': what its caller was told)
Op(o)   == last'.n # last.n /\ last'.op = o
IsRead  == last'.n # last.n /\ last'.op \in {"take", "index"}
Told    == [r |-> last'.r, v |-> last'.rv]
Truth(k) == IF db[k] = Absent THEN [r |-> "nf", v |-> 0] ELSE [r |-> "ok", v |-> db[k]]
TruthIdx(i) == IF db[i] = Absent THEN [r |-> "nf", v |-> 0] ELSE Truth(db[i])
\* keys whose entries an index read may serve
Served(i) == {i} \cup (IF Present(i) /\ cache[i].v # PH THEN {cache[i].v} ELSE {})

\* coherent reads: what a cached read returns is what the database holds (outside the two premise sets)
ReadsTrue ==
  /\ Op("take") /\ last'.r \in {"ok", "nf"} /\ ~last'.kf /\ last'.k \notin tainted => Told = Truth(last'.k)
  /\ Op("index") /\ last'.r \in {"ok", "nf"} /\ ~last'.kf /\ Served(last'.k) \cap tainted = {} => Told = TruthIdx(last'.k)
\* ... the deviation is the only other way, and it needs a failed invalidation that has not been made good
StaleOnlyKnown ==
  IsRead /\ last'.kf => AllowKF /\ \E k \in (IF last'.op = "take" THEN {last'.k} ELSE Served(last'.k)) : k \in pendingDel
\* a cached entry is served without touching the database
ServedFromCache ==
  /\ Op("take") /\ Present(last'.k) /\ ~down => last'.nq = 0
  /\ Op("index") /\ ~down /\ (\A k \in Served(last'.k) : Present(k)) => last'.nq = 0
\* database errors are returned and never cached
ErrorsNotCached == IsRead /\ (last'.dbf \/ last'.dbf2) => last'.r = "dberr" /\ cache' = cache
\* a failing store is reported without querying the database
FailFast == IsRead /\ (down \/ last'.cut = 1) => last'.r = "cerr" /\ last'.nq = 0 /\ cache' = cache
\* after the cleaner has succeeded nothing is left of its keys
CleanerRestores == Op("cleaner") /\ last'.r = "ok" => \A j \in DOMAIN last'.ks : cache'[last'.ks[j]] = NoEntry
\* a write leaves no entry behind that differs from the database, unless its invalidation failed
WriteInvalidates == Op("write") /\ ~down /\ ~last'.dbf /\ last'.cut = 0 => \A j \in DOMAIN last'.ks : cache'[last'.ks[j]] = NoEntry
\* ... and then every key of the write that keeps an entry is owed to the cleaner (which has a task for it)
WriteOwes == Op("write") /\ ~last'.dbf /\ (down \/ last'.cut > 0) =>
               \A j \in DOMAIN last'.ks : cache'[last'.ks[j]] # NoEntry => last'.ks[j] \in pendingDel' \cap tasks'
\* an outage that begins inside an operation leaves the store down and never a half-written entry
CutClean == last'.n # last.n /\ last'.cut > 0 =>
              /\ down'
              /\ \A k \in Keys : cache'[k] # cache[k] /\ cache'[k] # NoEntry =>
                    cache'[k].exp > now /\ (last'.op \in {"take", "index"} => cache'[k].v = Want(k))

PropReadsTrue        == [][ReadsTrue]_mvars
PropStaleOnlyKnown   == [][StaleOnlyKnown]_mvars
PropServedFromCache  == [][ServedFromCache]_mvars
PropErrorsNotCached  == [][ErrorsNotCached]_mvars
PropFailFast         == [][FailFast]_mvars
PropCleanerRestores  == [][CleanerRestores]_mvars
PropWriteInvalidates == [][WriteInvalidates]_mvars
PropWriteOwes        == [][WriteOwes]_mvars
PropCutClean         == [][CutClean]_mvars

\* every entry carries a finite TTL derived from an expiry in use
MaxTTL == LET es == {ExpDs, NfDs} \cup SetExpDs
              ms == {Hi(e) + Gap : e \in es} IN
            CHOOSE m \in ms : \A x \in ms : x <= m
FiniteTTL == \A k \in Keys : Present(k) => cache[k].exp - now >= 1 /\ cache[k].exp - now <= MaxTTL

PrintHist == (Emit /\ Len(hist) > 0) =>
  PrintT("TRACE " \o ToJson([j \in DOMAIN hist |->
     [op |-> hist[j].op, k |-> hist[j].k, v |-> hist[j].v, dbf |-> hist[j].dbf, dbf2 |-> hist[j].dbf2,
      flip |-> hist[j].flip, cut |-> hist[j].cut, d |-> hist[j].d, e |-> hist[j].e, ks |-> hist[j].ks, upd |-> hist[j].upd]]))
=============================================================================
