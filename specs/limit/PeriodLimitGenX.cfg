SPECIFICATION MSpec
CONSTANTS
  KeySet = {0, 1}
  PQ <- PQB
  Aligns = {FALSE, TRUE}
  Phases = {0, 1400}
  MaxOps = 7
  Emit = TRUE
  ErrEffects = FALSE
INVARIANTS PrintHist
VIEW View
CHECK_DEADLOCK FALSE
