SPECIFICATION TSpec
CONSTRAINT HW
INVARIANTS PTypeOK PCanonical
POSTCONDITION Accepted
CHECK_DEADLOCK FALSE
