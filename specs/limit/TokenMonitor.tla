---------------------------- MODULE TokenMonitor ----------------------------
(* Layer I for property C03, REAL time: the recovery machinery of core/limit/tokenlimit.go
   (startMonitor / waitForRedis) of one TokenLimiter instance, checked step by step against the
   abstract limiter (TokenBucket.tla: StoreFail, Linger, Recover).

   One step of real time (Tick) is pingInterval = UnitMs.  In every unit the monitor goroutine,
   if it runs, probes the store once (the real-time assumption: it misses at most MaxSkip
   consecutive units - scheduling); a probe succeeds iff the store is reachable AND the probe
   itself is a fresh attempt.  PingLife = 0: every probe is an attempt of its own
   (store.Ping()).  PingLife = d > 0 is the mistake of giving ALL probes of one monitor one
   common deadline d units after the monitor started (one context.WithTimeout before the
   loop): after d units every probe fails at once whatever the store does, so an outage longer
   than d leaves the instance in fallback mode for ever.

   reach = units for which the store has been reachable without interruption (capped),
   monAge = units since the monitor started (capped): no absolute clock, so the model is finite
   without a horizon and outages of EVERY length (0, 1, ..., longer than any cap) are covered.

   Checked: Conforms (every step is one the abstract limiter allows; in particular whenever the
   instance is in fallback mode with the store up, Linger(reach x UnitMs) is enabled - it is
   back within RecoverBound), NeverStuck (fallback mode always has a probing monitor).       *)
EXTENDS TokenBucket, TLC

CONSTANTS
  UnitMs,     \* pingInterval, ms
  MaxSkip,    \* consecutive units a running monitor may miss
  PingLife,   \* 0, or the common deadline of all probes of one monitor (units) - seeded mistake
  EarlyClear  \* seeded mistake: startMonitor clears redisAlive before it looks at monitorStarted

VARIABLES storeUp, reach, aliveF, monStarted, monRun, monAge, skipped, bad
mvars == <<storeUp, reach, aliveF, monStarted, monRun, monAge, skipped, bad>>
vars == <<bvars, mvars>>

ReachCap == RecoverBound \div UnitMs + 2
AgeCap == PingLife + 1
Cap(x, c) == IF x > c THEN c ELSE x

MInit ==
  /\ BInit({0}, 1, 1)
  /\ storeUp = TRUE /\ reach = 0
  /\ aliveF = TRUE /\ monStarted = FALSE /\ monRun = "none" /\ monAge = 0 /\ skipped = 0 /\ bad = ""

Abstract(pre, eff, what) ==
  IF bad = "" /\ pre THEN eff /\ bad' = bad
  ELSE UNCHANGED bvars /\ bad' = IF bad = "" THEN what ELSE bad

\* a call of the instance whose store access failed: startMonitor (under rescueLock)
CallFails ==
  /\ aliveF /\ ~storeUp
  /\ IF monStarted
       THEN /\ UNCHANGED <<monStarted, monRun, monAge, skipped>>
            /\ aliveF' = IF EarlyClear THEN FALSE ELSE aliveF
       ELSE /\ monStarted' = TRUE /\ aliveF' = FALSE /\ monRun' = "wait" /\ monAge' = 0 /\ skipped' = 0
  /\ Abstract(StoreFailPre(0), StoreFailEff(0), "store failure although the store is reachable")
  /\ UNCHANGED <<storeUp, reach>>

ProbeFresh == PingLife = 0 \/ monAge < PingLife

\* one unit of real time; the monitor's ticker fires
Tick ==
  /\ reach' = IF storeUp THEN Cap(reach + 1, ReachCap) ELSE 0
  /\ IF monRun = "wait"
       THEN \/ /\ skipped < MaxSkip                           \* the goroutine did not get to run
               /\ skipped' = skipped + 1 /\ monAge' = Cap(monAge + 1, AgeCap)
               /\ UNCHANGED <<aliveF, monRun>>
            \/ /\ skipped' = 0 /\ monAge' = Cap(monAge + 1, AgeCap)
               /\ IF storeUp /\ ProbeFresh
                    THEN aliveF' = TRUE /\ monRun' = "exit"     \* PONG: redisAlive = 1, return
                    ELSE UNCHANGED <<aliveF, monRun>>
       ELSE UNCHANGED <<aliveF, monRun, monAge, skipped>>
  /\ UNCHANGED <<bvars, storeUp, monStarted, bad>>

\* the deferred monitorStarted = false
MonExit ==
  /\ monRun = "exit"
  /\ monStarted' = FALSE /\ monRun' = "none"
  /\ UNCHANGED <<bvars, storeUp, reach, aliveF, monAge, skipped, bad>>

\* the observer sees the instance back on the store
Observe ==
  /\ aliveF /\ ~monStarted /\ ~alive[0] /\ bad = ""
  /\ Recover(0)
  /\ UNCHANGED mvars

Outage ==
  /\ bad = ""
  /\ storeUp' = ~storeUp /\ reach' = 0
  /\ Fault(IF storeUp THEN "down" ELSE "up")
  /\ UNCHANGED <<aliveF, monStarted, monRun, monAge, skipped, bad>>

MNext == CallFails \/ Tick \/ MonExit \/ Observe \/ Outage
MSpec == MInit /\ [][MNext]_vars

Conforms == bad = ""
\* what an observer would log at this moment is something the abstract limiter accepts
BackInTime == (bad = "" /\ ~aliveF /\ storeUp) => ENABLED Linger(0, reach * UnitMs)
NeverStuck == ~aliveF => monStarted /\ monRun = "wait"
FallbackIsAbstract == (bad = "" /\ ~aliveF) => ~alive[0]
MTypeOK ==
  /\ TypeOK /\ storeUp \in BOOLEAN /\ reach \in 0..ReachCap /\ aliveF \in BOOLEAN
  /\ monStarted \in BOOLEAN /\ monRun \in {"none", "wait", "exit"} /\ monAge \in 0..AgeCap
  /\ skipped \in 0..MaxSkip
=============================================================================
