SPECIFICATION MSpec
CONSTANTS
  UnitMs = 100
  MaxSkip = 5
  PingLife = 10
  EarlyClear = FALSE
INVARIANTS MTypeOK Conforms BackInTime NeverStuck FallbackIsAbstract
CHECK_DEADLOCK FALSE
