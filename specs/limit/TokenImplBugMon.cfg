SPECIFICATION ISpec
CONSTANTS
  NProc = 2
  NInst = 1
  IParams <- IParamsC
  AdvSet = {1000, 3000}
  Lags = {0}
  MaxCalls = 2
  MaxAdv = 2
  MaxFaults = 2
  ClampTtl = TRUE
  MonoTs = TRUE
  NilIsError = FALSE
  EarlyClear = TRUE
INVARIANTS ITypeOK Conforms KeysAreTheBucket NeverStuck RescueWithinBound
CHECK_DEADLOCK FALSE
