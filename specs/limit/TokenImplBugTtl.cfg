SPECIFICATION ISpec
CONSTANTS
  NProc = 2
  NInst = 2
  IParams <- IParamsC
  AdvSet = {1000, 3000}
  Lags = {0}
  MaxCalls = 3
  MaxAdv = 2
  MaxFaults = 2
  ClampTtl = FALSE
  MonoTs = TRUE
  NilIsError = FALSE
  EarlyClear = FALSE
INVARIANTS ITypeOK Conforms KeysAreTheBucket NeverStuck RescueWithinBound
CHECK_DEADLOCK FALSE
