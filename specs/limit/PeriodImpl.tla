------------------------------ MODULE PeriodImpl ------------------------------
(* Layer I for property C03 (period limiter): periodscript.lua / PeriodLimit.TakeCtx as steps,
   checked step by step against PeriodLimit.tla (one key).

   The store holds the counter key (val, 0 = absent) and its expiry (kexp, 0 = none - a key
   that never expires).  A Take by goroutine p:
     Atomic = TRUE   Run: INCRBY + (EXPIRE if the result is 1) + the comparison, one atomic
                     script run - or an error if the store is down (nothing happens)
     Atomic = FALSE  (the classic mistake) Incr: INCRBY as one command; Expire: EXPIRE as a
                     second command which fails if the store went down in between
   then the mapping of the script's number to the code (Map).  An outage can begin or end
   between any two steps; the clock moves between any two steps.

   Align() (constant Align): the limiter object is built at clock 0; the wall clock is the store's
   clock plus `phase`.  A Take first computes the script's window argument from the wall clock
   (Args: calcExpireSeconds, `period - localSecond mod period`), then the script runs - the clock
   may move in between.  FreezeWindow = TRUE is the mistake of computing that argument once, when
   the object is built (a cached argument list): every later period is cut as if it had begun at
   the object's birth.

   The abstract limiter's variables are part of this module; the step that is the abstract
   Take performs it with the code the implementation is going to answer; if the abstract
   limiter does not allow that answer the step sets `bad` (invariant Conforms).            *)
EXTENDS PeriodLimit, TLC

CONSTANTS NProc, PQs, Atomic, MaxTakes, MaxAdv, MaxFaults,
  Align,         \* the limiter was built with Align()
  IPhases,       \* wall clock minus store clock, ms
  FreezeWindow   \* seeded mistake: the window argument is computed when the object is built

VARIABLES clk, storeUp, val, kexp, pc, cur, res, takes, advs, faults, bad,
  phase,  \* wall clock = clk + phase
  wsec    \* goroutine |-> the local second its clock read showed (Args)
ivars == <<clk, storeUp, val, kexp, pc, cur, res, takes, advs, faults, bad, phase, wsec>>
vars == <<pvars, ivars>>

Procs == 0..(NProc - 1)
PQsA == {<<2, 1>>, <<1, 2>>}
PQsB == {<<3, 1>>, <<2, 2>>}

LocalSec == (clk + phase) \div 1000
\* the script's window argument for a Take that read the clock at local second s
WindowArg(s) == IF ~Align THEN period
                ELSE IF FreezeWindow THEN period - ((phase \div 1000) % period)    \* as at clock 0
                ELSE period - (s % period)

IInit ==
  /\ \E q \in PQs : PInit({0}, q[1], q[2], Align)
  /\ phase \in IPhases /\ wsec = [p \in Procs |-> 0]
  /\ clk = 0 /\ storeUp = TRUE /\ val = 0 /\ kexp = 0
  /\ pc = [p \in Procs |-> "idle"] /\ cur = [p \in Procs |-> 0] /\ res = [p \in Procs |-> 0]
  /\ takes = 0 /\ advs = 0 /\ faults = 0 /\ bad = ""

Abstract(A, what) ==
  IF bad = "" /\ ENABLED A THEN A /\ bad' = bad
  ELSE UNCHANGED pvars /\ bad' = IF bad = "" THEN what ELSE bad

ScriptCode(c) == IF c < quota THEN Allowed ELSE IF c = quota THEN HitQuota ELSE OverQuota

Start(p) ==
  /\ pc[p] = "idle" /\ takes < MaxTakes
  /\ takes' = takes + 1
  /\ pc' = [pc EXCEPT ![p] = IF Atomic THEN "run" ELSE "incr"]
  /\ wsec' = [wsec EXCEPT ![p] = IF Align THEN LocalSec ELSE 0]       \* Args: calcExpireSeconds reads the wall clock
  /\ UNCHANGED <<pvars, clk, storeUp, val, kexp, cur, res, advs, faults, bad, phase>>

\* the atomic script
Run(p) ==
  /\ pc[p] = "run"
  /\ IF storeUp
       THEN /\ val' = val + 1
            /\ kexp' = IF val = 0 THEN clk + WindowArg(wsec[p]) * 1000 ELSE kexp
            /\ res' = [res EXCEPT ![p] = ScriptCode(val + 1)]
            /\ Abstract(TakeOk(0, ScriptCode(val + 1), {wsec[p]}), "answer differs from the abstract period limiter")
       ELSE /\ UNCHANGED <<val, kexp>>
            /\ res' = [res EXCEPT ![p] = Unknown]
            /\ Abstract(TakeErr(0, Unknown, {wsec[p]}) /\ UNCHANGED <<cnt, exp>>, "error although the store is reachable")
  /\ pc' = [pc EXCEPT ![p] = "idle"]
  /\ UNCHANGED <<clk, storeUp, cur, takes, advs, faults, phase, wsec>>

\* the same as two commands
Incr(p) ==
  /\ pc[p] = "incr"
  /\ IF storeUp
       THEN /\ val' = val + 1
            /\ cur' = [cur EXCEPT ![p] = val + 1]
            /\ res' = [res EXCEPT ![p] = ScriptCode(val + 1)]
            /\ pc' = [pc EXCEPT ![p] = IF val = 0 THEN "expire" ELSE "idle"]
            /\ Abstract(TakeOk(0, ScriptCode(val + 1), {wsec[p]}), "answer differs from the abstract period limiter")
       ELSE /\ UNCHANGED <<val, cur>>
            /\ res' = [res EXCEPT ![p] = Unknown]
            /\ pc' = [pc EXCEPT ![p] = "idle"]
            /\ Abstract(TakeErr(0, Unknown, {wsec[p]}) /\ UNCHANGED <<cnt, exp>>, "error although the store is reachable")
  /\ UNCHANGED <<clk, storeUp, kexp, takes, advs, faults, phase, wsec>>

Expire(p) ==
  /\ pc[p] = "expire"
  /\ kexp' = IF storeUp /\ val > 0 THEN clk + WindowArg(wsec[p]) * 1000 ELSE kexp
  /\ pc' = [pc EXCEPT ![p] = "idle"]
  /\ UNCHANGED <<pvars, clk, storeUp, val, cur, res, takes, advs, faults, bad, phase, wsec>>

Advance(d) ==
  /\ advs < MaxAdv /\ bad = ""
  /\ advs' = advs + 1
  /\ clk' = clk + d
  /\ IF kexp > 0 /\ clk + d >= kexp THEN val' = 0 /\ kexp' = 0 ELSE UNCHANGED <<val, kexp>>
  /\ PAdvance(d)
  /\ UNCHANGED <<storeUp, pc, cur, res, takes, faults, bad, phase, wsec>>

Outage ==
  /\ faults < MaxFaults /\ bad = ""
  /\ faults' = faults + 1
  /\ storeUp' = ~storeUp
  /\ PFault(IF storeUp THEN "down" ELSE "up")
  /\ UNCHANGED <<clk, val, kexp, pc, cur, res, takes, advs, bad, phase, wsec>>

INext ==
  \/ \E p \in Procs : Start(p) \/ Run(p) \/ Incr(p) \/ Expire(p)
  \/ \E d \in {1000, period * 1000} \cup (IF Align THEN {400} ELSE {}) : Advance(d)
  \/ Outage
ISpec == IInit /\ [][INext]_vars

Conforms == bad = ""
\* the stored counter is the abstract counter and always carries its period's end
CounterIsTheCount ==
  (bad = "" /\ \A p \in Procs : pc[p] # "expire") => val = cnt[0] /\ kexp = exp[0]
=============================================================================
