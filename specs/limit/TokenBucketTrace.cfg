SPECIFICATION TSpec
CONSTRAINT HW
INVARIANTS TypeOK
POSTCONDITION Accepted
CHECK_DEADLOCK FALSE
