SPECIFICATION ISpec
CONSTANTS
  NProc = 2
  NInst = 2
  IParams <- IParamsD
  AdvSet = {1000}
  Lags = {0, 1000}
  MaxCalls = 3
  MaxAdv = 2
  MaxFaults = 2
  ClampTtl = TRUE
  MonoTs = TRUE
  NilIsError = FALSE
  EarlyClear = FALSE
INVARIANTS ITypeOK Conforms KeysAreTheBucket NeverStuck RescueWithinBound
CHECK_DEADLOCK FALSE
