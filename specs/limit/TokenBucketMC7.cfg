SPECIFICATION MSpec
CONSTANTS
  Inst = {0, 1}
  Params <- ParamsA
  AdvSet = {400, 1000}
  MaxOps = 7
  Emit = FALSE
  LocalDeny = TRUE
INVARIANTS TypeOK JointBound LocalBound
PROPERTIES FallbackNeedsOutage
CHECK_DEADLOCK FALSE
