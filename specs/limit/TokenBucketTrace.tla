-------------------------- MODULE TokenBucketTrace --------------------------
(* Trace validation for C03 (token limiter): events recorded from real TokenLimiter instances
   sharing one key of a miniredis store must be a behaviour of TokenBucket.tla.

   Sequential events, one abstract step each:
     reset{rate,burst,n}   n fresh instances 0..n-1 on a fresh key
     fault{mode}           the harness switches the store: "flaky" is logged BEFORE the switch
                           is made and "up"/"down" AFTER it took effect
     adv{d}                the clock (miniredis FastForward and the `now` the callers pass) moved
     allow{i,t,n,ok,path}  AllowN(now = t ms, n) by instance i answered ok.  path is what a
                           go-redis hook on the instance's client saw during the call:
                             "store"  the token script ran and was answered
                             "fail"   the script command came back with an error
                             "local"  no store command at all, and the instance's flag said
                                      fallback just before the call
                             "nostore" no store command although the flag said store just before
                                      the call: the client refused before the wire (open circuit
                                      breaker, no connection) - a failed store access - or a
                                      concurrent call of the instance had just failed
                             "ctx"    the call was made with a cancelled context and erred
     recover{i}            the driver saw (white-box, at a moment with no call in flight) that the
                           instance's monitor switched it back to the store (carries `waited`, the
                           real ms the driver waited for that: informative, not read here)
     fallback{i,ms}        the driver found (white-box, store up, no call in flight) instance i still in
                           fallback mode while its OWN client - not the limiter's - had been answered
                           every PING for at least ms of real time without a gap (only the time between
                           two successful probes at most 150 ms apart is counted, so a stalled test
                           process earns nothing).  Accepted while ms < RecoverBound (Linger); for
                           ms >= RecoverBound no action accepts it: the trace is rejected.
     stuck{i}              the driver saw (white-box, under rescueLock, store up, no call in flight)
                           instance i in fallback mode WITHOUT a monitor: nothing can switch it
                           back any more, it will answer locally for ever although the store is
                           reachable.  No action accepts this event: the trace is rejected.
   Concurrent calls are logged as callStart{c,i,t,n} before AllowN is invoked and
   callEnd{c,ok,path} after it returned.  The atomic steps of call c are silent actions which
   TLC places between the two (it finds the linearisation, if there is one):
     store:  Lin(c)                    the script's run inside the store
     local:  Lin(c)                    the local limiter's critical section
     fail:   LinFail(c) then Lin(c)    the failed store access, later the local answer
     nostore: as fail, or as local
   The answer and path a call will log are known from the trace (EndIdx), so only they are tried. *)
EXTENDS TokenBucket, TraceKit

VARIABLES
  l,      \* cursor into Trace
  clk,    \* sum of the adv events (informative)
  pend    \* call id |-> [i, t, n, stage] for calls that started and have not returned;
          \* stage: 0 nothing happened yet, 1 store access failed, 2 answered
tvars == <<rate, burst, tokens, ts, up, alive, lv, llast, l, clk, pend>>

E == Trace[l]
IsEvent(e) == l <= Len(Trace) /\ E.e = e /\ l' = l + 1
Quiet == UNCHANGED <<clk, pend>>

TReset ==
  /\ IsEvent("reset")
  /\ rate' = E.rate /\ burst' = E.burst
  /\ tokens' = E.burst /\ ts' = 0 /\ up' = "up"
  /\ alive' = [i \in 0..(E.n - 1) |-> TRUE]
  /\ lv' = [i \in 0..(E.n - 1) |-> E.burst * 1000]
  /\ llast' = [i \in 0..(E.n - 1) |-> 0]
  /\ clk' = 0 /\ pend' = <<>>

(* Known-finding deviation (enabled only if the runner lists it in OpenFindings, i.e. after the
   trace was rejected without it): tokenscript.lua stores the caller's second as the refill
   time even when the bucket has already seen a later second.  A store-answered call that
   carries an older second than the bucket's refills nothing (as it should) but moves the
   refill time BACK to its own second, so the next caller with the current second refills the
   same second again.  Enabled only in that situation: Sec(t) < ts.                          *)
KF_TokenTsRegress(i, t, n, ok) ==
  /\ "KF_TokenTsRegress" \in OpenFindings
  /\ up # "down" /\ n >= 0
  /\ Sec(t) < ts
  /\ ok = (tokens >= n)
  /\ tokens' = tokens - (IF ok THEN n ELSE 0)
  /\ ts' = Sec(t)
  /\ UNCHANGED <<rate, burst, up, alive, lv, llast>>

Answer(path, i, t, n, ok) ==
  CASE path = "store" -> StoreAllow(i, t, n, ok) \/ KF_TokenTsRegress(i, t, n, ok)
    [] path = "fail"  -> FailAllow(i, t, n, ok)
    [] path = "local" -> LocalAllow(i, t, n, ok)
    [] path = "nostore" -> FailAllow(i, t, n, ok) \/ LocalAllow(i, t, n, ok)
    [] path = "ctx"   -> CtxAllow(i, t, n, ok)

TAllow   == IsEvent("allow") /\ Answer(E.path, E.i, E.t, E.n, E.ok) /\ Quiet
TRecover == IsEvent("recover") /\ Recover(E.i) /\ Quiet
TFallback == IsEvent("fallback") /\ Linger(E.i, E.ms) /\ Quiet
TFault   == IsEvent("fault") /\ Fault(E.mode) /\ Quiet
TAdv     == IsEvent("adv") /\ E.d >= 0 /\ clk' = clk + E.d /\ UNCHANGED <<bvars, pend>>

\* ---- concurrent calls
Window == 40    \* a call returns within this many log lines of any point at which it is pending
EndIdx(c) ==
  LET hi == IF l + Window < Len(Trace) THEN l + Window ELSE Len(Trace)
      S  == {j \in l..hi : Trace[j].e = "callEnd" /\ Trace[j].c = c}
  IN IF S = {} THEN 0 ELSE CHOOSE j \in S : \A k \in S : j <= k

TCallStart ==
  /\ IsEvent("callStart")
  /\ E.c \notin DOMAIN pend
  /\ pend' = [c \in DOMAIN pend \cup {E.c} |->
                IF c = E.c THEN [i |-> E.i, t |-> E.t, n |-> E.n, stage |-> 0] ELSE pend[c]]
  /\ UNCHANGED <<bvars, clk>>

\* silent: the failed store access of a call that will log path "fail"
LinFail(c) ==
  /\ pend[c].stage = 0
  /\ LET j == EndIdx(c) IN j # 0 /\ Trace[j].path \in {"fail", "nostore"}
  /\ StoreFail(pend[c].i)
  /\ pend' = [pend EXCEPT ![c].stage = 1]
  /\ UNCHANGED <<l, clk>>

\* silent: the step of a pending call that produces its answer
Lin(c) ==
  /\ LET j == EndIdx(c)
         p == pend[c]
     IN /\ j # 0
        /\ CASE Trace[j].path = "fail" -> p.stage = 1 /\ LocalAnswer(p.i, p.t, p.n, Trace[j].ok)
             [] Trace[j].path = "nostore" ->
                  \/ p.stage = 1 /\ LocalAnswer(p.i, p.t, p.n, Trace[j].ok)
                  \/ p.stage = 0 /\ LocalAllow(p.i, p.t, p.n, Trace[j].ok)
             [] OTHER -> p.stage = 0 /\ Answer(Trace[j].path, p.i, p.t, p.n, Trace[j].ok)
  /\ pend' = [pend EXCEPT ![c].stage = 2]
  /\ UNCHANGED <<l, clk>>

TCallEnd ==
  /\ IsEvent("callEnd")
  /\ E.c \in DOMAIN pend /\ pend[E.c].stage = 2
  /\ pend' = [c \in DOMAIN pend \ {E.c} |-> pend[c]]
  /\ UNCHANGED <<bvars, clk>>

\* Search reduction (sound): silent steps commute with callStart, which only adds a pending
\* call - while the next logged event is a callStart it is simply consumed.
Passive == l <= Len(Trace) /\ E.e = "callStart"

TInit == BInit({}, 1, 1) /\ l = 1 /\ clk = 0 /\ pend = <<>>
TNext ==
  IF Passive THEN TCallStart
  ELSE \/ TReset \/ TAllow \/ TRecover \/ TFallback \/ TFault \/ TAdv \/ TCallEnd
       \/ \E c \in DOMAIN pend : Lin(c) \/ LinFail(c)
TSpec == TInit /\ [][TNext]_tvars

\* CONSTRAINT: remember the largest cursor reached; once some path has consumed every line the
\* trace is accepted and nothing else needs to be explored (with the depth-first queue that path
\* is found long before the other linearisations are enumerated)
HW == HighWater(l) /\ TLCGet(1) <= Len(Trace)
=============================================================================
