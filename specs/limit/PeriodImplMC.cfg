SPECIFICATION ISpec
CONSTANTS
  NProc = 3
  PQs <- PQsA
  Atomic = TRUE
  MaxTakes = 5
  MaxAdv = 3
  Align = FALSE
  IPhases = {0}
  FreezeWindow = FALSE
  MaxFaults = 2
INVARIANTS PTypeOK PCanonical Conforms CounterIsTheCount
CHECK_DEADLOCK FALSE
