SPECIFICATION ISpec
CONSTANTS
  NProc = 3
  PQs <- PQsA
  Atomic = TRUE
  MaxTakes = 5
  MaxAdv = 3
  MaxFaults = 2
INVARIANTS PTypeOK PCanonical Conforms CounterIsTheCount
CHECK_DEADLOCK FALSE
