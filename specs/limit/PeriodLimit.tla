----------------------------- MODULE PeriodLimit -----------------------------
(* Layer P for property C03, first half: what PeriodLimit objects with one (period, quota)
   on one store are, in terms of what callers of Take(key) can observe.

   Per key the store counts the requests of the current period.  The first request of a
   period opens it: the counter lives `period` seconds from that moment.  With Align() periods
   are the ALIGNED ones of the local wall clock (unix seconds + zone offset): a period ends at
   the next multiple of `period`, so a counter opened by a request whose clock read showed the
   local second s lives AlignedWindow(s) = period - (s mod period) seconds - the time left in
   the aligned period, computed from the clock AT THAT REQUEST (not when the limiter object was
   built, not cached) and at whole-second granularity (the store's ttl is in seconds, so the
   counter ends less than a second after the aligned boundary).  Every Take therefore carries
   S, the set of local wall-clock seconds its clock read may have shown (one value, or the few
   seconds the call lasted); request number c of the period is answered
   Allowed if c < quota, HitQuota if c = quota and OverQuota if c > quota, so within one
   period exactly the first `quota` requests are granted and the quota-th is flagged.
   A store error is answered (Unknown, error) - never a grant - and is legal only while the
   store is unreachable; the property does not say whether the script ran before the error
   (it may have counted the request).

   Time is an explicit clock in ms (miniredis FastForward on the Go side).
   No constants: period, quota and the key set are set by the initial condition / reset.   *)
EXTENDS Integers, FiniteSets

Unknown == 0  Allowed == 1  HitQuota == 2  OverQuota == 3   \* periodlimit.go

VARIABLES
  \* @type: Int;
  period,   \* seconds
  \* @type: Int;
  quota,
  \* @type: Bool;
  align,    \* BOOLEAN: limiter created with Align()
  \* @type: Int;
  pnow,     \* clock, ms
  \* @type: Str;
  pup,      \* "up" | "flaky" | "down": reachability of the store ("flaky": the harness is switching)
  \* @type: Int -> Int;
  cnt,      \* key |-> requests counted in the current period (0: no counter)
  \* @type: Int -> Int;
  exp       \* key |-> absolute time at which the counter disappears (0 iff cnt = 0)
pvars == <<period, quota, align, pnow, pup, cnt, exp>>

Keys == DOMAIN cnt

\* @type: (Set(Int), Int, Int, Bool) => Bool;
PInit(K, p, q, a) ==
  /\ period = p /\ quota = q /\ align = a
  /\ pnow = 0 /\ pup = "up"
  /\ cnt = [k \in K |-> 0] /\ exp = [k \in K |-> 0]

Code(c) == IF c < quota THEN Allowed ELSE IF c = quota THEN HitQuota ELSE OverQuota
\* seconds left in the aligned period for a request made at local wall-clock second s
AlignedWindow(s) == period - (s % period)
\* the life of a counter opened by a request whose clock read showed one of the seconds in S
Windows(S) == IF align THEN {AlignedWindow(s) : s \in S} ELSE {period}

\* the script ran: request number cnt[k]+1 of the period; the first one opens a period of w seconds
Count(k, w) ==
  /\ cnt' = [cnt EXCEPT ![k] = @ + 1]
  /\ exp' = IF cnt[k] = 0 THEN [exp EXCEPT ![k] = pnow + w * 1000] ELSE exp

TakeOk(k, code, S) ==
  /\ pup # "down"
  /\ code = Code(cnt[k] + 1)
  /\ \E w \in Windows(S) : Count(k, w)
  /\ UNCHANGED <<period, quota, align, pnow, pup>>

TakeErr(k, code, S) ==
  /\ pup # "up"
  /\ code = Unknown
  /\ \/ UNCHANGED <<cnt, exp>>
     \/ \E w \in Windows(S) : Count(k, w)
  /\ UNCHANGED <<period, quota, align, pnow, pup>>

\* a Take whose context was already cancelled: an error whatever the state of the store
TakeCtx(k, code, S) ==
  /\ code = Unknown
  /\ \/ UNCHANGED <<cnt, exp>>
     \/ pup # "down" /\ \E w \in Windows(S) : Count(k, w)
  /\ UNCHANGED <<period, quota, align, pnow, pup>>

Take(k, code, err, S) == IF err THEN TakeErr(k, code, S) ELSE TakeOk(k, code, S)

\* the clock moves by d ms; a counter whose time has come is gone
PAdvance(d) ==
  /\ d >= 0
  /\ pnow' = pnow + d
  /\ cnt' = [k \in Keys |-> IF cnt[k] > 0 /\ pnow + d >= exp[k] THEN 0 ELSE cnt[k]]
  /\ exp' = [k \in Keys |-> IF cnt[k] > 0 /\ pnow + d >= exp[k] THEN 0 ELSE exp[k]]
  /\ UNCHANGED <<period, quota, align, pup>>

PFault(m) ==
  /\ m \in {"up", "flaky", "down"}
  /\ pup' = m
  /\ UNCHANGED <<period, quota, align, pnow, cnt, exp>>

PTypeOK ==
  /\ period \in Nat \ {0} /\ quota \in Nat /\ align \in BOOLEAN /\ pnow \in Nat
  /\ pup \in {"up", "flaky", "down"}
  /\ \A k \in Keys : cnt[k] \in Nat /\ exp[k] \in Nat

\* a counter exists exactly while its period has not ended, and a period is never longer than `period`
PCanonical == \A k \in Keys : /\ (cnt[k] = 0) <=> (exp[k] = 0)
                              /\ cnt[k] > 0 => pnow < exp[k] /\ exp[k] <= pnow + period * 1000
=============================================================================
