SPECIFICATION ISpec
CONSTANTS
  NProc = 2
  PQs <- PQsA
  Atomic = FALSE
  MaxTakes = 5
  MaxAdv = 3
  MaxFaults = 2
INVARIANTS PTypeOK PCanonical Conforms CounterIsTheCount
CHECK_DEADLOCK FALSE
