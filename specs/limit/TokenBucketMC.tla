---------------------------- MODULE TokenBucketMC ----------------------------
(* Bounded model checking of the abstract limiter (TokenBucket.tla) and generation of call
   histories for replay on real TokenLimiter instances (property C03).

   Every history of at most MaxOps operations over: AllowN by any instance with any size in
   Sizes(burst), clock advances from AdvSet, store outage begin/end at every position, and the
   monitor's recovery.  The consequences the property statement draws are checked as invariants
   over an explicit log of grants:
     JointBound  the tokens granted by store-answered calls of all instances never exceed
                 burst + rate x elapsed (whole seconds) over ANY interval of the history
     LocalBound  the tokens an instance granted locally during one outage never exceed
                 burst + rate x elapsed (ms) over any interval
   Generation (Emit = TRUE): hist is hidden by the VIEW; one shortest history is printed per
   distinct (state, last operation) ("TRACE <json>").                                        *)
EXTENDS TokenBucket, Sequences, TLC, Json

CONSTANTS
  Inst,      \* instance numbers
  Params,    \* set of <<rate, burst>>
  AdvSet,    \* clock advances in ms
  MaxOps,    \* longest history
  Emit,      \* TRUE: print histories
  LocalDeny  \* TRUE: local answers may also deny although the bound would allow a grant

VARIABLES
  clk,       \* the clock (ms): every call carries the current clock
  glog,      \* store grants: sequence of [s |-> second, n |-> tokens]
  llog,      \* instance |-> local grants of its current outage: sequence of [t |-> ms, n |-> tokens]
  hist,      \* operation history (hidden by the VIEW)
  ops        \* Len(hist), also when Emit = FALSE

mvars == <<rate, burst, tokens, ts, up, alive, lv, llast, clk, glog, llog, hist, ops>>

Sizes == {0, 1, 2, burst, burst + 1}

\* parameter sets for the cfg files (burst < rate/2 included: <<5, 2>>, <<3, 1>>)
ParamsA == {<<2, 1>>, <<2, 3>>, <<5, 2>>}
ParamsB == {<<1, 1>>, <<3, 1>>, <<1, 2>>, <<3, 4>>, <<7, 3>>}

MInit ==
  /\ \E p \in Params : BInit(Inst, p[1], p[2])
  /\ clk = 0 /\ glog = <<>> /\ llog = [i \in Inst |-> <<>>] /\ hist = <<>> /\ ops = 0

Log(r) == /\ hist' = IF Emit THEN Append(hist, r) ELSE hist
          /\ ops' = ops + 1
Op(op, i, v) == [op |-> op, i |-> i, v |-> v]

\* the path of a call follows from the state; the answer from the bucket (store) or from the
\* bound (local: a grant needs room, a denial is always possible if LocalDeny)
MAllow(i, n) ==
  /\ UNCHANGED clk
  /\ Log(Op("allow", i, n))
  /\ IF alive[i] /\ up = "up" THEN
       /\ StoreAllow(i, clk, n, Holds(clk, n))
       /\ glog' = IF Holds(clk, n) /\ n > 0 THEN Append(glog, [s |-> Eff(clk), n |-> n]) ELSE glog
       /\ UNCHANGED llog
     ELSE \E ok \in BOOLEAN :
       /\ LocalDeny \/ ok = (IF alive[i] THEN burst >= n ELSE LocalFill(i, clk) >= n * 1000)
       /\ IF alive[i] THEN FailAllow(i, clk, n, ok) ELSE LocalAllow(i, clk, n, ok)
       /\ llog' = [llog EXCEPT ![i] = LET base == IF alive[i] THEN <<>> ELSE @
                                      IN IF ok /\ n > 0 THEN Append(base, [t |-> clk, n |-> n]) ELSE base]
       /\ UNCHANGED glog

MAdvance(d) ==
  /\ clk' = clk + d
  /\ Log(Op("advance", 0, d))
  /\ UNCHANGED <<bvars, glog, llog>>

MFault ==
  /\ Fault(IF up = "up" THEN "down" ELSE "up")
  /\ Log(Op("fault", 0, IF up = "up" THEN 1 ELSE 0))
  /\ UNCHANGED <<clk, glog, llog>>

\* the monitor can only succeed while the store is up
MRecover(i) ==
  /\ up = "up" /\ Recover(i)
  /\ Log(Op("recover", i, 0))
  /\ UNCHANGED <<clk, glog, llog>>

MNext ==
  /\ ops < MaxOps
  /\ \/ \E i \in Inst : \E n \in Sizes : MAllow(i, n)
     \/ \E d \in AdvSet : MAdvance(d)
     \/ MFault
     \/ \E i \in Inst : MRecover(i)

MSpec == MInit /\ [][MNext]_mvars

\* ------------------------------------------------------------------ the statement's bounds
RECURSIVE SumN(_, _, _)
SumN(s, a, b) == IF a > b THEN 0 ELSE s[a].n + SumN(s, a + 1, b)

JointBound ==
  \A a \in DOMAIN glog : \A b \in a..Len(glog) :
    SumN(glog, a, b) <= burst + rate * (glog[b].s - glog[a].s)

LocalBound ==
  \A i \in Inst : \A a \in DOMAIN llog[i] : \A b \in a..Len(llog[i]) :
    1000 * SumN(llog[i], a, b) <= 1000 * burst + rate * (llog[i][b].t - llog[i][a].t)

\* fallback mode is entered only through a store failure, which needs an outage
FallbackNeedsOutage == [][\A i \in Inst : alive[i] /\ ~alive'[i] => up = "down"]_mvars

\* ------------------------------------------------------------------ generation
LastOp == IF Len(hist) = 0 THEN <<>> ELSE <<hist[Len(hist)]>>
\* (generation only: the state relative to the clock, plus the operation that led to it)
View == <<rate, burst, tokens, clk - ts * 1000, clk % 1000, up, alive, lv,
          [i \in Inst |-> clk - llast[i]], LastOp>>
PrintHist == (Emit /\ Len(hist) > 0) => PrintT("TRACE " \o ToJson([rate |-> rate, burst |-> burst, ops |-> hist]))
=============================================================================
