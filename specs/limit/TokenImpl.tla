------------------------------ MODULE TokenImpl ------------------------------
(* Layer I for property C03: an implementation-shaped model of core/limit/tokenlimit.go and
   tokenscript.lua, checked step by step against the abstract limiter (TokenBucket.tla).

   The store:  the two keys {key}.tokens / {key}.ts (tokKey, tsKey; -1 = absent) with one
   expiry time (both are written by SETEX with the same ttl in one script run), the store's
   clock clk (ms) and whether the store answers (storeUp).
   Every instance:  the redisAlive flag (aliveF), monitorStarted (monStarted), its monitor
   goroutine (monRun: none / wait = ticking and pinging / exit = has set redisAlive, has not yet
   cleared monitorStarted), and the rescue limiter (resc milli-tokens, rescLast ms; continuous
   refill, golang.org/x/time/rate with an explicit now).
   Every caller goroutine p (instance p % NInst) runs reserveN as separate atomic steps:
     Call    pick n, read the clock (the `now` argument)
     Read    load redisAlive: 0 -> Rescue (path local)
     Script  the script's run inside the store (atomic), or the failed store access
     OnErr   startMonitor under rescueLock
     Rescue  rescueLimiter.AllowN(now, n)
   The monitor's tick (ping, set redisAlive) and its exit (clear monitorStarted) are steps too.

   Link to Layer P: the variables of TokenBucket are part of this module; each step that is
   one of the abstract limiter's actions performs it with the answer the implementation
   computed.  If the abstract action is not enabled for that answer the step sets `bad`
   (invariant Conforms) - so TLC reports the implementation step that the property forbids.
   Recover is performed where the driver logs it: at a quiescent moment at which the flag is
   up and the monitor gone (Observe).

   Switches (cfg): ClampTtl - the script clamps its ttl to >= 1 (proposed fix; FALSE = the
   original floor(2*burst/rate)); MonoTs - the script never moves the stored second backwards
   (proposed fix; FALSE = original); NilIsError - a refused request treated as a store error
   (a seeded bug); EarlyClear - startMonitor clears redisAlive before it looks at
   monitorStarted (a seeded bug: meeting a monitor that is just leaving, the instance is left in
   fallback mode without a monitor); Lags - how far behind the store's clock a caller's `now`
   may be.                                                                                   *)
EXTENDS TokenBucket, Sequences, TLC

CONSTANTS
  NProc, NInst,
  IParams,     \* set of <<rate, burst>>
  AdvSet,      \* clock advances (ms), only between calls
  Lags,        \* subset of {0, 1000}
  MaxCalls, MaxAdv, MaxFaults,
  ClampTtl, MonoTs, NilIsError,
  EarlyClear   \* seeded bug: startMonitor clears redisAlive before it looks at monitorStarted

VARIABLES
  clk, storeUp, tokKey, tsKey, keyExp,
  aliveF, monStarted, monRun, resc, rescLast,
  pc, pnow, pn, ppath,
  calls, advs, faults,
  bad

ivars == <<clk, storeUp, tokKey, tsKey, keyExp, aliveF, monStarted, monRun, resc, rescLast,
           pc, pnow, pn, ppath, calls, advs, faults, bad>>
vars == <<bvars, ivars>>

Procs == 0..(NProc - 1)
IInsts == 0..(NInst - 1)
InstOf(p) == p % NInst

IParamsA == {<<2, 1>>, <<2, 3>>, <<5, 2>>}
IParamsB == {<<2, 2>>, <<1, 2>>}
IParamsC == {<<5, 2>>}
IParamsD == {<<2, 3>>, <<5, 2>>}

Ttl == LET raw == (2 * burst) \div rate IN IF ClampTtl THEN Max(1, raw) ELSE raw

IInit ==
  /\ \E p \in IParams : BInit(IInsts, p[1], p[2])
  /\ clk = 0 /\ storeUp = TRUE /\ tokKey = -1 /\ tsKey = -1 /\ keyExp = 0
  /\ aliveF = [i \in IInsts |-> TRUE] /\ monStarted = [i \in IInsts |-> FALSE]
  /\ monRun = [i \in IInsts |-> "none"]
  /\ resc = [i \in IInsts |-> burst * 1000] /\ rescLast = [i \in IInsts |-> 0]
  /\ pc = [p \in Procs |-> "idle"] /\ pnow = [p \in Procs |-> 0] /\ pn = [p \in Procs |-> 0]
  /\ ppath = [p \in Procs |-> "none"]
  /\ calls = 0 /\ advs = 0 /\ faults = 0 /\ bad = ""

\* perform the abstract action (pre, eff) or flag the step
Abstract(pre, eff, what) ==
  IF bad = "" /\ pre THEN eff /\ bad' = bad
  ELSE /\ UNCHANGED bvars
       /\ bad' = IF bad = "" THEN what ELSE bad

Quiescent == \A p \in Procs : pc[p] = "idle"
\* the keys were written at the store's current time (no expiry can hide behind a lagging caller)
FreshKeys == keyExp > 0 /\ keyExp = clk + Ttl * 1000

Call(p, n, lag) ==
  /\ pc[p] = "idle" /\ calls < MaxCalls
  \* a lagging caller: only on the store path (the rescue limiter, golang.org/x/time/rate, moves
  \* its own `last` backwards on a grant with an older now - a library matter left out here)
  /\ lag = 0 \/ (clk >= lag /\ FreshKeys /\ storeUp /\ aliveF[InstOf(p)])
  /\ pc' = [pc EXCEPT ![p] = "read"]
  /\ pnow' = [pnow EXCEPT ![p] = clk - lag]
  /\ pn' = [pn EXCEPT ![p] = n]
  /\ calls' = calls + 1
  /\ UNCHANGED <<bvars, clk, storeUp, tokKey, tsKey, keyExp, aliveF, monStarted, monRun, resc, rescLast,
                 ppath, advs, faults, bad>>

Read(p) ==
  LET i == InstOf(p) IN
  /\ pc[p] = "read"
  /\ IF aliveF[i]
       THEN /\ pc' = [pc EXCEPT ![p] = "script"]
            /\ UNCHANGED <<bvars, ppath, bad>>
       ELSE /\ pc' = [pc EXCEPT ![p] = "rescue"]
            /\ ppath' = [ppath EXCEPT ![p] = "local"]
            \* a call that does not contact the store is legal only in fallback mode
            /\ Abstract(~alive[i], UNCHANGED bvars, "local answer of an instance that is not in fallback mode")
  /\ UNCHANGED <<clk, storeUp, tokKey, tsKey, keyExp, aliveF, monStarted, monRun, resc, rescLast,
                 pnow, pn, calls, advs, faults>>

Script(p) ==
  LET i == InstOf(p)
      n == pn[p]
      sec == Sec(pnow[p])
      lastTok == IF tokKey = -1 THEN burst ELSE tokKey
      lastRef == IF tsKey = -1 THEN 0 ELSE tsKey
      delta == Max(0, sec - lastRef)
      filled == Min(burst, lastTok + delta * rate)
      allowed == filled >= n
  IN
  /\ pc[p] = "script"
  /\ IF ~storeUp \/ Ttl = 0 THEN
       \* the store does not answer, or SETEX with ttl 0 makes the script fail (nothing is written)
       /\ pc' = [pc EXCEPT ![p] = "onerr"]
       /\ Abstract(StoreFailPre(i), StoreFailEff(i), "store failure although the store is reachable")
       /\ UNCHANGED <<tokKey, tsKey, keyExp>>
     ELSE
       /\ tokKey' = IF allowed THEN filled - n ELSE filled
       /\ tsKey' = IF MonoTs THEN Max(sec, lastRef) ELSE sec
       /\ keyExp' = clk + Ttl * 1000
       /\ IF ~allowed /\ NilIsError
            THEN /\ pc' = [pc EXCEPT ![p] = "onerr"]
                 /\ Abstract(FALSE, UNCHANGED bvars, "refused request handled as a store failure")
            ELSE /\ pc' = [pc EXCEPT ![p] = "idle"]
                 /\ Abstract(StoreAllowPre(i, pnow[p], n, allowed), StoreAllowEff(i, pnow[p], n, allowed),
                             "store answer differs from the one token bucket")
  /\ UNCHANGED <<clk, storeUp, aliveF, monStarted, monRun, resc, rescLast, pnow, pn, ppath, calls, advs, faults>>

\* startMonitor (under rescueLock)
OnErr(p) ==
  LET i == InstOf(p) IN
  /\ pc[p] = "onerr"
  /\ IF monStarted[i]
       THEN /\ UNCHANGED <<monStarted, monRun>>
            /\ aliveF' = IF EarlyClear THEN [aliveF EXCEPT ![i] = FALSE] ELSE aliveF
       ELSE /\ monStarted' = [monStarted EXCEPT ![i] = TRUE]
            /\ aliveF' = [aliveF EXCEPT ![i] = FALSE]
            /\ monRun' = [monRun EXCEPT ![i] = "wait"]
  /\ pc' = [pc EXCEPT ![p] = "rescue"]
  /\ ppath' = [ppath EXCEPT ![p] = "fail"]
  /\ UNCHANGED <<bvars, clk, storeUp, tokKey, tsKey, keyExp, resc, rescLast, pnow, pn, calls, advs, faults, bad>>

\* rescueLimiter.AllowN(now, n) (its own mutex)
Rescue(p) ==
  LET i == InstOf(p)
      n == pn[p]
      t == pnow[p]
      fill == Min(burst * 1000, resc[i] + rate * Max(0, t - rescLast[i]))
      ok == n <= burst /\ fill >= n * 1000
  IN
  /\ pc[p] = "rescue"
  /\ resc' = IF ok THEN [resc EXCEPT ![i] = fill - n * 1000] ELSE resc
  /\ rescLast' = IF ok THEN [rescLast EXCEPT ![i] = t] ELSE rescLast
  /\ pc' = [pc EXCEPT ![p] = "idle"]
  /\ Abstract(LocalAnswerPre(i, t, n, ok), LocalAnswerEff(i, t, n, ok), "local grant beyond burst + rate x elapsed")
  /\ UNCHANGED <<clk, storeUp, tokKey, tsKey, keyExp, aliveF, monStarted, monRun, pnow, pn, ppath, calls, advs, faults>>

\* waitForRedis: a tick with a successful ping
MonTick(i) ==
  /\ monRun[i] = "wait" /\ storeUp
  /\ aliveF' = [aliveF EXCEPT ![i] = TRUE]
  /\ monRun' = [monRun EXCEPT ![i] = "exit"]
  /\ UNCHANGED <<bvars, clk, storeUp, tokKey, tsKey, keyExp, monStarted, resc, rescLast, pc, pnow, pn, ppath,
                 calls, advs, faults, bad>>

\* the deferred monitorStarted = false
MonExit(i) ==
  /\ monRun[i] = "exit"
  /\ monStarted' = [monStarted EXCEPT ![i] = FALSE]
  /\ monRun' = [monRun EXCEPT ![i] = "none"]
  /\ UNCHANGED <<bvars, clk, storeUp, tokKey, tsKey, keyExp, aliveF, resc, rescLast, pc, pnow, pn, ppath,
                 calls, advs, faults, bad>>

\* the driver's observation of a recovered instance (no call in flight)
Observe(i) ==
  /\ Quiescent /\ aliveF[i] /\ ~monStarted[i] /\ ~alive[i] /\ bad = ""
  /\ Recover(i)
  /\ UNCHANGED ivars

Advance(d) ==
  /\ Quiescent /\ advs < MaxAdv
  /\ clk' = clk + d
  /\ advs' = advs + 1
  /\ IF keyExp > 0 /\ clk + d >= keyExp
       THEN tokKey' = -1 /\ tsKey' = -1 /\ keyExp' = 0
       ELSE UNCHANGED <<tokKey, tsKey, keyExp>>
  /\ UNCHANGED <<bvars, storeUp, aliveF, monStarted, monRun, resc, rescLast, pc, pnow, pn, ppath, calls, faults, bad>>

Outage ==
  /\ faults < MaxFaults /\ bad = ""
  /\ \A p \in Procs : pc[p] # "idle" => pnow[p] = clk     \* no lagging call in flight
  /\ storeUp' = ~storeUp
  /\ faults' = faults + 1
  /\ Fault(IF storeUp THEN "down" ELSE "up")
  /\ UNCHANGED <<clk, tokKey, tsKey, keyExp, aliveF, monStarted, monRun, resc, rescLast, pc, pnow, pn, ppath,
                 calls, advs, bad>>

ISizes == {1, burst, burst + 1}

INext ==
  \/ \E p \in Procs : \/ \E n \in ISizes : \E lag \in Lags : Call(p, n, lag)
                      \/ Read(p) \/ Script(p) \/ OnErr(p) \/ Rescue(p)
  \/ \E i \in IInsts : MonTick(i) \/ MonExit(i) \/ Observe(i)
  \/ \E d \in AdvSet : Advance(d)
  \/ Outage

ISpec == IInit /\ [][INext]_vars

\* ------------------------------------------------------------------ what is checked
\* every step that is an action of the abstract limiter was one the abstract limiter allows
Conforms == bad = ""

\* the stored bucket is the abstract bucket (absent keys: the abstract bucket would be refilled
\* to the brim by any call that can still come)
KeysAreTheBucket ==
  bad = "" =>
    IF tokKey = -1 THEN tsKey = -1 /\ keyExp = 0
    ELSE /\ tokKey = tokens /\ tokKey \in 0..burst /\ keyExp > clk
         /\ MonoTs => tsKey = ts

\* fallback mode always has a monitor that can end it
NeverStuck == \A i \in IInsts : ~aliveF[i] => monStarted[i] /\ monRun[i] = "wait"

\* the rescue limiter never holds more than the abstract local bound allows
RescueWithinBound == bad = "" => \A i \in IInsts : ~alive[i] => resc[i] <= burst * 1000

ITypeOK ==
  /\ TypeOK
  /\ clk \in Nat /\ storeUp \in BOOLEAN /\ keyExp \in Nat
  /\ \A i \in IInsts : aliveF[i] \in BOOLEAN /\ monStarted[i] \in BOOLEAN
                       /\ monRun[i] \in {"none", "wait", "exit"} /\ resc[i] \in 0..(burst * 1000)
  /\ \A p \in Procs : pc[p] \in {"idle", "read", "script", "onerr", "rescue"}
=============================================================================
