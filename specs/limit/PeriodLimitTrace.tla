-------------------------- MODULE PeriodLimitTrace --------------------------
(* Trace validation for C03 (period limiter): events recorded from real PeriodLimit objects on
   one miniredis store (clock = FastForward) must be a behaviour of PeriodLimit.tla.

   Sequential events, one abstract step each:
     reset{period,quota,align,keys}   fresh limiter objects, `keys` fresh keys 0..keys-1
     take{k,code,err,cx,s0,s1}  Take / TakeCtx on key k answered (code, err != nil); cx: the call was
                           made with an already cancelled context; s0 / s1: the local wall-clock
                           second (unix + zone offset, minus a per-trace base that is a multiple of
                           `period`) the driver read just before / just after the call - the call's
                           own clock read (Align(): the time left in the aligned period) showed one of
                           s0..s1
     adv{d}                FastForward by d ms
     fault{mode}           "flaky" is logged BEFORE the harness switches the store, "up"/"down"
                           AFTER the switch took effect
   Concurrent Takes are logged as callStart{c,k,s0} before the call and callEnd{c,code,err,s1}
   after it returned; a concurrent clock jump as callStart{c,k=-1,d} / callEnd.  The atomic step of
   call c (the run of the Lua script inside the store, or the jump) is the silent action
   Lin(c), which TLC places between the two - it finds the linearisation, if there is one.  *)
EXTENDS PeriodLimit, TraceKit

VARIABLES l, pend
tvars == <<period, quota, align, pnow, pup, cnt, exp, l, pend>>

E == Trace[l]
IsEvent(e) == l <= Len(Trace) /\ E.e = e /\ l' = l + 1

\* the seconds a call's clock read may have shown, from the driver's reads before and after it
Secs(a, b) == IF a <= b THEN a..b ELSE b..a

TReset ==
  /\ IsEvent("reset")
  /\ period' = E.period /\ quota' = E.quota /\ align' = E.align
  /\ pnow' = 0 /\ pup' = "up"
  /\ cnt' = [k \in 0..(E.keys - 1) |-> 0] /\ exp' = [k \in 0..(E.keys - 1) |-> 0]
  /\ pend' = <<>>

TTake  == /\ IsEvent("take")
          /\ IF E.cx THEN E.err /\ TakeCtx(E.k, E.code, Secs(E.s0, E.s1))
                     ELSE Take(E.k, E.code, E.err, Secs(E.s0, E.s1))
          /\ UNCHANGED pend
TAdv   == IsEvent("adv") /\ PAdvance(E.d) /\ UNCHANGED pend
TFault == IsEvent("fault") /\ PFault(E.mode) /\ UNCHANGED pend

Window == 40
EndIdx(c) ==
  LET hi == IF l + Window < Len(Trace) THEN l + Window ELSE Len(Trace)
      S  == {j \in l..hi : Trace[j].e = "callEnd" /\ Trace[j].c = c}
  IN IF S = {} THEN 0 ELSE CHOOSE j \in S : \A k \in S : j <= k

TCallStart ==
  /\ IsEvent("callStart")
  /\ E.c \notin DOMAIN pend
  /\ pend' = [c \in DOMAIN pend \cup {E.c} |->
                IF c = E.c THEN [k |-> E.k, d |-> E.d, s0 |-> E.s0, done |-> FALSE] ELSE pend[c]]
  /\ UNCHANGED pvars

Lin(c) ==
  /\ ~pend[c].done
  /\ LET j == EndIdx(c) IN
       /\ j # 0
       /\ IF pend[c].k < 0 THEN PAdvance(pend[c].d)
                           ELSE Take(pend[c].k, Trace[j].code, Trace[j].err, Secs(pend[c].s0, Trace[j].s1))
  /\ pend' = [pend EXCEPT ![c].done = TRUE]
  /\ UNCHANGED l

TCallEnd ==
  /\ IsEvent("callEnd")
  /\ E.c \in DOMAIN pend /\ pend[E.c].done
  /\ pend' = [c \in DOMAIN pend \ {E.c} |-> pend[c]]
  /\ UNCHANGED pvars

Passive == l <= Len(Trace) /\ E.e = "callStart"

TInit == PInit({}, 1, 1, FALSE) /\ l = 1 /\ pend = <<>>
TNext ==
  IF Passive THEN TCallStart
  ELSE \/ TReset \/ TTake \/ TAdv \/ TFault \/ TCallEnd
       \/ \E c \in DOMAIN pend : Lin(c)
TSpec == TInit /\ [][TNext]_tvars

\* CONSTRAINT: remember the largest cursor reached; once some path has consumed every line the
\* trace is accepted and nothing else needs to be explored (with the depth-first queue that path
\* is found long before the other linearisations are enumerated)
HW == HighWater(l) /\ TLCGet(1) <= Len(Trace)
=============================================================================
