SPECIFICATION MSpec
CONSTANTS
  Inst = {0, 1}
  Params <- ParamsA
  AdvSet = {400, 1000}
  MaxOps = 4
  Emit = TRUE
  LocalDeny = FALSE
INVARIANTS PrintHist
VIEW View
CHECK_DEADLOCK FALSE
