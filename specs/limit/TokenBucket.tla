----------------------------- MODULE TokenBucket -----------------------------
(* Layer P for property C03, second half: what all TokenLimiter instances that share
   one key of one store are, in terms of what callers of AllowN(now, n) can observe.

     * Calls that the store answered behave, jointly over all instances, as ONE token
       bucket of size `burst` refilled with `rate` tokens per whole second of the `now`
       the callers pass: a request for n tokens is granted iff the bucket holds n.
     * A call whose store access failed (store unreachable) is answered from the
       instance's local bucket and puts the instance into fallback mode; calls of an
       instance in fallback mode do not contact the store.  The property constrains
       local answers by a bound only: the tokens an instance grants locally during one
       outage never exceed burst + rate x elapsed over any interval.  That is equivalent
       to: a virtual bucket that is full when the outage begins for the instance and
       is refilled continuously never goes negative (lv, in milli-tokens, times in ms).
       Denying locally is always allowed (the statement gives an upper bound only).
     * A store failure is legal only while the store really is unreachable; a call that
       does not contact the store is legal only for an instance in fallback mode.
     * "Sharing a key and a reachable store": fallback mode is for outages.  An instance must be
       back on the shared bucket once the store has been reachable again for RecoverBound of
       REAL time (its monitor probes the store every 100 ms), however long the outage lasted.
       Until then an observer may still find it in fallback mode (Linger); an instance found
       in fallback mode although the store has provably been reachable for RecoverBound or
       longer is not allowed by any action: it would answer from a private bucket for ever,
       and N such instances jointly grant N x (burst + rate x elapsed).

   Time: every call carries t = its `now` argument in ms (relative to the start of the
   trace); the shared bucket only sees whole seconds, Sec(t).  A bucket's refill time
   never moves backwards: a call carrying an older second than the bucket has already
   seen refills nothing (Eff).

   No constants: rate and burst are variables set by the initial condition / the reset
   event, so that one trace file can hold traces with different parameters.           *)
EXTENDS Integers, FiniteSets

VARIABLES
  rate,     \* tokens per second
  burst,    \* bucket size
  tokens,   \* shared bucket: tokens left after the last store-answered call
  ts,       \* shared bucket: second of the last refill
  up,       \* "up" | "flaky" | "down": reachability of the store (environment).  "flaky" is the
            \* moment while the harness is switching: both outcomes are possible
  alive,    \* instance |-> FALSE while the instance is in fallback mode (after a store failure
            \* and until its monitor has been observed to switch it back)
  lv,       \* instance |-> virtual local bucket of the current outage, milli-tokens
  llast     \* instance |-> time (ms) of the newest local answer
bvars == <<rate, burst, tokens, ts, up, alive, lv, llast>>

Insts == DOMAIN alive
Max(a, b) == IF a >= b THEN a ELSE b
Min(a, b) == IF a <= b THEN a ELSE b
Sec(t) == t \div 1000

BInit(I, r, b) ==
  /\ rate = r /\ burst = b
  /\ tokens = b /\ ts = 0 /\ up = "up"
  /\ alive = [i \in I |-> TRUE]
  /\ lv = [i \in I |-> b * 1000]
  /\ llast = [i \in I |-> 0]

\* ------------------------------------------------------------------ the shared bucket
Eff(t)      == Max(Sec(t), ts)                              \* refill time never regresses
Filled(t)   == Min(burst, tokens + (Eff(t) - ts) * rate)    \* content at the moment of a call
Holds(t, n) == Filled(t) >= n

\* instance i asked the store for n tokens at time t and the store answered ok
StoreAllowPre(i, t, n, ok) == up # "down" /\ n >= 0 /\ ok = Holds(t, n)
StoreAllowEff(i, t, n, ok) ==
  /\ tokens' = Filled(t) - (IF ok THEN n ELSE 0)
  /\ ts' = Eff(t)
  /\ UNCHANGED <<rate, burst, up, alive, lv, llast>>
StoreAllow(i, t, n, ok) == StoreAllowPre(i, t, n, ok) /\ StoreAllowEff(i, t, n, ok)

\* ------------------------------------------------------------------ outages
\* the store access of a call by instance i failed: legal only if the store is not reachable.
\* The instance is in fallback mode from now on; if it was not before, a new outage begins
\* for it and its bound starts afresh.
StoreFailPre(i) == up # "up"
StoreFailEff(i) ==
  /\ alive' = [alive EXCEPT ![i] = FALSE]
  /\ lv' = IF alive[i] THEN [lv EXCEPT ![i] = burst * 1000] ELSE lv
  /\ UNCHANGED <<rate, burst, tokens, ts, up, llast>>
StoreFail(i) == StoreFailPre(i) /\ StoreFailEff(i)

\* a local answer of instance i (the tail of a failed call, or a call in fallback mode)
LocalFill(i, t) == Min(burst * 1000, lv[i] + rate * Max(0, t - llast[i]))
LocalAnswerPre(i, t, n, ok) == n >= 0 /\ (ok => LocalFill(i, t) >= n * 1000)
LocalAnswerEff(i, t, n, ok) ==
  /\ lv' = [lv EXCEPT ![i] = LocalFill(i, t) - (IF ok THEN n * 1000 ELSE 0)]
  /\ llast' = [llast EXCEPT ![i] = Max(@, t)]
  /\ UNCHANGED <<rate, burst, tokens, ts, up, alive>>
LocalAnswer(i, t, n, ok) == LocalAnswerPre(i, t, n, ok) /\ LocalAnswerEff(i, t, n, ok)

\* a call that did not contact the store at all
LocalAllowPre(i, t, n, ok) == ~alive[i] /\ LocalAnswerPre(i, t, n, ok)
LocalAllow(i, t, n, ok) == LocalAllowPre(i, t, n, ok) /\ LocalAnswerEff(i, t, n, ok)

\* a failed call as one step (sequential traces): store failure, then the local answer
FailAllow(i, t, n, ok) ==
  /\ StoreFailPre(i) /\ n >= 0
  /\ LET base == IF alive[i] THEN burst * 1000 ELSE LocalFill(i, t)
     IN /\ ok => base >= n * 1000
        /\ lv' = [lv EXCEPT ![i] = base - (IF ok THEN n * 1000 ELSE 0)]
  /\ alive' = [alive EXCEPT ![i] = FALSE]
  /\ llast' = [llast EXCEPT ![i] = Max(@, t)]
  /\ UNCHANGED <<rate, burst, tokens, ts, up>>

\* a call whose context was already cancelled: an error inside the limiter, never a grant; the
\* property does not say whether the script ran (it can only have consumed tokens, legally)
CtxAllow(i, t, n, ok) ==
  /\ ok = FALSE
  /\ \/ UNCHANGED bvars
     \/ up # "down" /\ StoreAllowEff(i, t, n, Holds(t, n))

\* the instance's monitor reached the store again and switched the instance back
Recover(i) ==
  /\ ~alive[i]
  /\ alive' = [alive EXCEPT ![i] = TRUE]
  /\ UNCHANGED <<rate, burst, tokens, ts, up, lv, llast>>

\* Real time (ms) a reachable store may still find an instance in fallback mode: generous - one
\* hundred probes of the monitor (pingInterval = 100 ms); the only real-time quantity of this spec.
RecoverBound == 10000

\* an observer found instance i still in fallback mode while the store had been reachable, without
\* interruption and as proven by the observer's own probes, for at least ms of real time
Linger(i, ms) ==
  /\ ~alive[i] /\ up = "up"
  /\ ms >= 0 /\ ms < RecoverBound
  /\ UNCHANGED bvars

Fault(m) ==
  /\ m \in {"up", "flaky", "down"}
  /\ up' = m
  /\ UNCHANGED <<rate, burst, tokens, ts, alive, lv, llast>>

\* ------------------------------------------------------------------ properties of the state
TypeOK ==
  /\ rate \in Nat \ {0} /\ burst \in Nat \ {0}
  /\ tokens \in 0..burst /\ ts \in Nat
  /\ up \in {"up", "flaky", "down"}
  /\ \A i \in Insts : alive[i] \in BOOLEAN /\ lv[i] \in 0..(burst * 1000) /\ llast[i] \in Nat
=============================================================================
