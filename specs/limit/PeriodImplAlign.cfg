SPECIFICATION ISpec
CONSTANTS
  NProc = 2
  PQs <- PQsB
  Atomic = TRUE
  MaxTakes = 3
  MaxAdv = 2
  Align = TRUE
  IPhases = {0, 1400}
  FreezeWindow = FALSE
  MaxFaults = 0
INVARIANTS PTypeOK PCanonical Conforms CounterIsTheCount
CHECK_DEADLOCK FALSE
