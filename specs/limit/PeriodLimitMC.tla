---------------------------- MODULE PeriodLimitMC ----------------------------
(* Bounded model checking of the abstract period limiter and generation of Take histories
   for replay on real PeriodLimit objects (property C03).

   Every history of at most MaxOps operations over Take on any key, clock advances aimed at
   the end of the period (remaining-1, remaining, remaining+1 ms, one second, a whole period)
   and store outage begin/end at every position.  The statement is checked on an explicit
   log: per key and period, `granted` counts the answers Allowed/HitQuota and `hits` the
   answers HitQuota of the period, `over` the answers OverQuota:
     ExactlyQuota   granted = min(requests of the period, quota); hits = 1 iff the quota was
                    reached (quota >= 1); every request beyond is OverQuota
     ErrorNoGrant   an error never carries a grant (action property)
   Align(): the wall clock is the store's clock plus a constant `phase` (ms, chosen from Phases:
   where in an aligned period the history starts), so a Take at pnow reads the local second
   (pnow + phase) div 1000.  Checked in addition:
     AlignedEnd     a counter of an Align() limiter ends with its aligned period (less than one
                    second - the ttl's granularity - after the boundary), whenever it was opened
     AlignedQuota   from one second after an aligned boundary up to the next boundary a key is
                    granted at most `quota` requests (one counter covers that whole stretch)   *)
EXTENDS PeriodLimit, Sequences, TLC, Json

CONSTANTS
  KeySet,    \* keys
  PQ,        \* set of <<period, quota>>
  Aligns,    \* subset of BOOLEAN
  Phases,    \* wall clock minus store clock, ms (only varied for Align() limiters)
  MaxOps,
  Emit,
  ErrEffects \* TRUE: a failed Take may still have been counted (lost reply)

VARIABLES granted, hits, over, hist, ops,
  phase,     \* wall clock = pnow + phase
  agr        \* key |-> grants since one second after the last aligned boundary (Align() only)
mvars == <<period, quota, align, pnow, pup, cnt, exp, granted, hits, over, hist, ops, phase, agr>>

PQA == {<<3, 2>>, <<2, 1>>, <<1, 3>>}
PQB == {<<3, 2>>, <<2, 1>>, <<1, 3>>, <<2, 0>>, <<4, 4>>}

Wall == pnow + phase
WallSec == Wall \div 1000
\* position inside the aligned period, ms
InPeriod(w) == w % (period * 1000)

MInit ==
  /\ \E p \in PQ : \E a \in Aligns : PInit(KeySet, p[1], p[2], a)
  /\ phase \in (IF align THEN Phases ELSE {0})
  /\ agr = [k \in KeySet |-> 0]
  /\ granted = [k \in KeySet |-> 0] /\ hits = [k \in KeySet |-> 0] /\ over = [k \in KeySet |-> 0]
  /\ hist = <<>> /\ ops = 0

Log(r) == /\ hist' = IF Emit THEN Append(hist, r) ELSE hist
          /\ ops' = ops + 1
Op(op, k, v) == [op |-> op, k |-> k, v |-> v]

MTake(k) ==
  /\ Log(Op("take", k, 0))
  /\ UNCHANGED phase
  /\ IF pup = "up"
       THEN \E code \in {Allowed, HitQuota, OverQuota} :
              /\ TakeOk(k, code, {WallSec})
              /\ agr' = [agr EXCEPT ![k] = IF align /\ code \in {Allowed, HitQuota} /\ InPeriod(Wall) >= 1000
                                           THEN @ + 1 ELSE @]
              /\ granted' = [granted EXCEPT ![k] = IF code \in {Allowed, HitQuota} THEN @ + 1 ELSE @]
              /\ hits' = [hits EXCEPT ![k] = IF code = HitQuota THEN @ + 1 ELSE @]
              /\ over' = [over EXCEPT ![k] = IF code = OverQuota THEN @ + 1 ELSE @]
       ELSE /\ TakeErr(k, Unknown, {WallSec})
            /\ ErrEffects \/ UNCHANGED <<cnt, exp>>
            /\ UNCHANGED <<granted, hits, over, agr>>

Rems == {exp[k] - pnow : k \in {x \in KeySet : cnt[x] > 0}}
\* (Align(): also to the aligned boundary itself and to one second after it)
ToBoundary == period * 1000 - InPeriod(Wall)
AdvChoices == {d \in {1000, period * 1000} \cup UNION {{r - 1, r, r + 1} : r \in Rems}
                     \cup (IF align THEN {ToBoundary, ToBoundary + 1000} ELSE {}) : d >= 1}

MAdvance(d) ==
  /\ PAdvance(d)
  /\ Log(Op("advance", 0, d))
  /\ granted' = [k \in KeySet |-> IF cnt'[k] = 0 THEN 0 ELSE granted[k]]
  /\ hits' = [k \in KeySet |-> IF cnt'[k] = 0 THEN 0 ELSE hits[k]]
  /\ over' = [k \in KeySet |-> IF cnt'[k] = 0 THEN 0 ELSE over[k]]
  /\ UNCHANGED phase
  \* a new aligned period began on the way: its grants are counted from its second second on
  /\ agr' = IF (Wall + d) \div (period * 1000) # Wall \div (period * 1000)
              THEN [k \in KeySet |-> 0] ELSE agr

MFault ==
  /\ PFault(IF pup = "up" THEN "down" ELSE "up")
  /\ Log(Op("fault", 0, IF pup = "up" THEN 1 ELSE 0))
  /\ UNCHANGED <<granted, hits, over, phase, agr>>

MNext ==
  /\ ops < MaxOps
  /\ \/ \E k \in KeySet : MTake(k)
     \/ \E d \in AdvChoices : MAdvance(d)
     \/ MFault
MSpec == MInit /\ [][MNext]_mvars

PMin(a, b) == IF a <= b THEN a ELSE b
\* requests of the period that were answered (a failed Take that was counted got no answer)
ExactlyQuota ==
  \A k \in KeySet :
    /\ granted[k] <= quota
    /\ granted[k] + over[k] <= cnt[k]
    /\ over[k] > 0 => cnt[k] > quota
    /\ hits[k] <= 1
    /\ hits[k] = 1 => cnt[k] >= quota /\ quota >= 1
    /\ ~ErrEffects => /\ granted[k] = PMin(cnt[k], quota)
                      /\ over[k] = cnt[k] - granted[k]
                      /\ hits[k] = (IF quota >= 1 /\ cnt[k] >= quota THEN 1 ELSE 0)

\* Align(): the counter ends with the aligned period of the wall clock, at the ttl's granularity
AlignedEnd == align => \A k \in KeySet : cnt[k] > 0 => InPeriod(exp[k] + phase) < 1000
\* ... hence one quota per aligned period, its first second (the old counter's tail) apart
AlignedQuota == align => \A k \in KeySet : agr[k] <= quota

\* the clock-relative state (generation: one history per (state, last operation))
LastOp == IF Len(hist) = 0 THEN <<>> ELSE <<hist[Len(hist)]>>
View == <<period, quota, align, pup, cnt, [k \in KeySet |-> IF cnt[k] > 0 THEN exp[k] - pnow ELSE 0],
          IF align THEN InPeriod(Wall) ELSE 0, LastOp>>
PrintHist == (Emit /\ Len(hist) > 0) =>
  PrintT("TRACE " \o ToJson([period |-> period, quota |-> quota, align |-> align, ops |-> hist]))
=============================================================================
