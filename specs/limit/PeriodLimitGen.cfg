SPECIFICATION MSpec
CONSTANTS
  KeySet = {0, 1}
  PQ <- PQA
  Aligns = {FALSE}
  Phases = {0}
  MaxOps = 6
  Emit = TRUE
  ErrEffects = FALSE
INVARIANTS PrintHist
VIEW View
CHECK_DEADLOCK FALSE
