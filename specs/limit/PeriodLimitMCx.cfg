SPECIFICATION MSpec
CONSTANTS
  KeySet = {0, 1}
  PQ <- PQB
  Aligns = {FALSE}
  Phases = {0}
  MaxOps = 9
  Emit = FALSE
  ErrEffects = FALSE
INVARIANTS PTypeOK PCanonical ExactlyQuota
CHECK_DEADLOCK FALSE
