--------------------------- MODULE PeriodLimitInd ---------------------------
(* Bonus for C03 (thorough tier, never the verdict): with Apalache, "per key and period exactly
   the first `quota` requests are granted, the quota-th flagged" is an inductive invariant of
   the abstract period limiter for EVERY period, quota, clock value and advance - not only for
   the small values TLC enumerates (2 keys, no lost replies):
     apalache-mc check --init=IndInit --inv=IndInv --length=0 --next=IndNext PeriodLimitInd.tla
     apalache-mc check --init=IndInv  --inv=IndInv --length=1 --next=IndNext PeriodLimitInd.tla
     apalache-mc check --init=IndInv  --inv=ExactlyQuota --length=0 --next=IndNext PeriodLimitInd.tla *)
EXTENDS PeriodLimit

VARIABLES
  \* @type: Int -> Int;
  granted,   \* key |-> answers Allowed/HitQuota in the current period
  \* @type: Int -> Int;
  hits,      \* key |-> answers HitQuota in the current period
  \* @type: Int -> Int;
  over       \* key |-> answers OverQuota in the current period

Ks == {0, 1}

IndInit ==
  /\ \E p \in Nat \ {0} : \E q \in Nat : \E a \in BOOLEAN : PInit(Ks, p, q, a)
  /\ granted = [k \in Ks |-> 0] /\ hits = [k \in Ks |-> 0] /\ over = [k \in Ks |-> 0]

\* TakeOk with the window quantified over all naturals (Apalache needs constant ranges)
ITake(k) ==
  \E code \in {Allowed, HitQuota, OverQuota} :
    /\ pup # "down"
    /\ code = Code(cnt[k] + 1)
    /\ \E w \in Nat : w >= 1 /\ w <= period /\ (align \/ w = period) /\ Count(k, w)
    /\ UNCHANGED <<period, quota, align, pnow, pup>>
    /\ granted' = [granted EXCEPT ![k] = IF code \in {Allowed, HitQuota} THEN @ + 1 ELSE @]
    /\ hits' = [hits EXCEPT ![k] = IF code = HitQuota THEN @ + 1 ELSE @]
    /\ over' = [over EXCEPT ![k] = IF code = OverQuota THEN @ + 1 ELSE @]

\* a failed Take that was not counted (the lost-reply branch of TakeErr is left out here)
IErr(k) == pup # "up" /\ UNCHANGED <<period, quota, align, pnow, pup, cnt, exp, granted, hits, over>>

IAdvance(d) ==
  /\ PAdvance(d)
  /\ granted' = [k \in Ks |-> IF cnt'[k] = 0 THEN 0 ELSE granted[k]]
  /\ hits' = [k \in Ks |-> IF cnt'[k] = 0 THEN 0 ELSE hits[k]]
  /\ over' = [k \in Ks |-> IF cnt'[k] = 0 THEN 0 ELSE over[k]]

IFault == \E m \in {"up", "flaky", "down"} : PFault(m) /\ UNCHANGED <<granted, hits, over>>

IndNext ==
  \/ \E k \in Ks : ITake(k) \/ IErr(k)
  \/ \E d \in Nat : IAdvance(d)
  \/ IFault

IMin(a, b) == IF a <= b THEN a ELSE b
ExactlyQuota ==
  \A k \in Ks :
    /\ granted[k] = IMin(cnt[k], quota)
    /\ over[k] = cnt[k] - granted[k]
    /\ hits[k] = (IF quota >= 1 /\ cnt[k] >= quota THEN 1 ELSE 0)

IndInv ==
  /\ period \in Nat \ {0} /\ quota \in Nat /\ align \in BOOLEAN /\ pnow \in Nat
  /\ pup \in {"up", "flaky", "down"}
  /\ cnt \in [Ks -> Nat] /\ exp \in [Ks -> Nat]
  /\ granted \in [Ks -> Nat] /\ hits \in [Ks -> Nat] /\ over \in [Ks -> Nat]
  /\ PCanonical
  /\ ExactlyQuota
=============================================================================
