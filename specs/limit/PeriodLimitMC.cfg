SPECIFICATION MSpec
CONSTANTS
  KeySet = {0, 1}
  PQ <- PQA
  Aligns = {FALSE, TRUE}
  MaxOps = 7
  Emit = FALSE
  ErrEffects = TRUE
INVARIANTS PTypeOK PCanonical ExactlyQuota
CHECK_DEADLOCK FALSE
