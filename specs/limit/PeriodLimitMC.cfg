SPECIFICATION MSpec
CONSTANTS
  KeySet = {0, 1}
  PQ <- PQA
  Aligns = {FALSE, TRUE}
  Phases = {0, 400, 1000, 2600}
  MaxOps = 7
  Emit = FALSE
  ErrEffects = TRUE
INVARIANTS PTypeOK PCanonical ExactlyQuota AlignedEnd AlignedQuota
CHECK_DEADLOCK FALSE
