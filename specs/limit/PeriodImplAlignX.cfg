SPECIFICATION ISpec
CONSTANTS
  NProc = 2
  PQs <- PQsB
  Atomic = TRUE
  MaxTakes = 4
  MaxAdv = 3
  Align = TRUE
  IPhases = {0, 1400, 2600}
  FreezeWindow = FALSE
  MaxFaults = 0
INVARIANTS PTypeOK PCanonical Conforms CounterIsTheCount
CHECK_DEADLOCK FALSE
