SPECIFICATION ISpec
CONSTANTS
  NProc = 3
  NInst = 2
  IParams <- IParamsC
  AdvSet = {1000}
  Lags = {0, 1000}
  MaxCalls = 3
  MaxAdv = 1
  MaxFaults = 2
  ClampTtl = TRUE
  MonoTs = TRUE
  NilIsError = FALSE
  EarlyClear = FALSE
INVARIANTS ITypeOK Conforms KeysAreTheBucket NeverStuck RescueWithinBound
CHECK_DEADLOCK FALSE
