SPECIFICATION GSpec
CONSTANTS
  NCalls = 2
  MaxPre = 1
  MaxLate = 1
  MaxLen = 7
  Chunks = {1, 2}
  Codes = {201}
  Ends = {"cancel", "expire"}
  Fins = {"ret", "panic"}
  Trailing = TRUE
  Emit = TRUE
INVARIANTS PrintHist
VIEW View
CHECK_DEADLOCK FALSE
