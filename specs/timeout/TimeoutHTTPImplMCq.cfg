SPECIFICATION Spec
CONSTANTS
  MaxOps = 3
  Chunks = {1}
  Codes = {201}
  HVals = {1}
  Tmo = 5
  Variant = "ok"
INVARIANTS Property TypeOK LateWritesDropped
PROPERTIES EventuallyReturns EventuallyFinal
