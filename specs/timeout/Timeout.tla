------------------------------ MODULE Timeout ------------------------------
(* Layer P for property C04: what a timeout wrapper owes its caller, phrased over
   observable events of ONE wrapped call (REST timeout middleware, zRPC server
   interceptor, zRPC client interceptor, fx.DoWithTimeout).

   The specification is a monitor: a state record `m` and one named operator per
   event kind.  The same operators are driven
     * by TimeoutHTTPImpl.tla (Layer I, PlusCal model of timeoutWriter + the select),
       where TLC explores every interleaving of worker, wrapper and expiry, and
     * by TimeoutTrace.tla, where the events were recorded from the real go-zero code.
   `m.bad` names the first clause of the property that was broken; the property is
   the invariant  m.bad = "".

   Time: integers (microseconds relative to a per-call base in real traces, abstract
   ticks in Layer I).  tmo = 0 means "no timeout configured", pdl = -1 "caller has no
   deadline".  The wrapper is free wherever the property is silent: which of two racing
   outcomes wins, what a late Write returns, the text of the timeout body, whether a
   header set after the status was committed is still delivered.                     *)
EXTENDS Integers, Sequences, FiniteSets

\* ---- header maps as sets of <<key, value>> pairs (values >= 1; 0 = absent) ----
HGet(S, k)    == IF \E p \in S : p[1] = k THEN (CHOOSE p \in S : p[1] = k)[2] ELSE 0
HSet(S, k, v) == {p \in S : p[1] # k} \cup {<<k, v>>}
HKeys(S)      == {p[1] : p \in S}

Kinds == {"rest", "rpcs", "rpcc", "fx"}

\* per-call parameters arrive with the reset event.  MInitX: the same with the two facts the
\* property derives from the call's SETTINGS and REQUEST (below: TmoChoices, ExemptChoices)
\* supplied by the caller of the operator instead of being read from the event.
MInitX(ev, tmo, exempt) ==
  [ kind |-> ev.kind, tmo |-> tmo, pdl |-> ev.pdl, exempt |-> exempt, s0 |-> ev.s0,
    cancelled |-> FALSE,          \* the caller's cancellation was requested
    wk |-> "run",                 \* worker: run | ret | panic | ignore (blocked, ignores ctx)
    committed |-> FALSE, code |-> 200,   \* the worker's own result so far ...
    hreq |-> {}, hall |-> {},     \* ... headers at commit time / latest
    body |-> <<>>,                \* ... chunk ids written, in order
    val |-> -1, err |-> "nil",    \* ... (resp, err) of an rpc handler / fx fn
    phase |-> "call",             \* call | returned | final | stuck
    snap |-> [code |-> 0, hdr |-> {}, bt |-> <<>>, n |-> 0],   \* what the client had at return
    bad |-> "" ]
MInit(ev) == MInitX(ev, ev.tmo, ev.exempt)

\* ---------------------------------------------------------------- which timeout applies
\* "for all timeout settings (global, per-route, per-method, per-call)": a call that arrives with
\* its settings in layers -- glob: the server / client / engine-wide value, ov: the more specific
\* one (<<>> when not given, <<d>> when given: rest.WithTimeout(d) of the route group, the
\* MethodTimeouts entry of the called method, zrpc.WithCallTimeout(d) of this call), mw: the
\* timeout middleware is switched on -- is owed the timeout the MOST SPECIFIC layer names,
\* whatever the other layers say.  Values <= 0 mean "no timeout" (0 in m.tmo); for a route,
\* WithTimeout(d <= 0) is how "not given" is spelled.  Where the statement is silent the set has
\* two elements: middleware switched off (nothing is promised; applying the timeout anyway only
\* shrinks deadlines), and a per-method timeout on a zRPC server whose own timeout is 0
\* (documented as "setting 0 means no timeout" for the whole server).
Pos(x) == IF x > 0 THEN x ELSE 0
Layered(ev) == "glob" \in DOMAIN ev
Specific(ev) ==
  IF ev.ov = <<>> THEN Pos(ev.glob)
  ELSE IF ev.kind = "rest" THEN (IF ev.ov[1] > 0 THEN ev.ov[1] ELSE Pos(ev.glob))
  ELSE Pos(ev.ov[1])
TmoChoices(ev) ==
  IF ~Layered(ev) THEN {ev.tmo}
  ELSE IF ~ev.mw THEN {0, Specific(ev)}
  ELSE IF ev.kind = "rpcs" /\ ev.ov # <<>> /\ ev.glob <= 0 THEN {0, Specific(ev)}
  ELSE {Specific(ev)}

\* ---------------------------------------------------------------- which requests are exempt
\* "websocket-upgrade and event-stream requests are exempt" -- and no others.  A REST request
\* arrives with what it offers: up / acc = the protocol names of its Upgrade header(s) / the
\* media types of its Accept header(s), lower-cased, without version or parameters, in order
\* (<<>>: no such header); upx / accx: the header is literally the single value `websocket` /
\* `text/event-stream`; conn: a Connection header names `upgrade`.
\*   must be exempt     the canonical forms: Upgrade: websocket with Connection: Upgrade,
\*                      Accept: text/event-stream
\*   may be exempt      websocket / event-stream is among the offers, spelled or combined some
\*                      other way (WebSocket, "websocket, h2c", "text/event-stream, */*", a
\*                      websocket upgrade without the Connection header): the statement does not
\*                      say how the request is recognised
\*   must NOT be exempt everything else, in particular a request that merely offers some other
\*                      upgrade (h2c, TLS/1.0) or accepts other media types: it is owed the
\*                      deadline and the timeout result like any request.
Offered(ev) == "up" \in DOMAIN ev
SeqRange(s) == {s[i] : i \in DOMAIN s}
WsToken  == "websocket"
SseToken == "text/event-stream"
MustExempt(ev) == (ev.upx /\ ev.conn) \/ ev.accx
MayExempt(ev)  == WsToken \in SeqRange(ev.up) \/ SseToken \in SeqRange(ev.acc)
ExemptChoices(ev) ==
  IF ~Offered(ev) THEN {ev.exempt}
  ELSE IF MustExempt(ev) THEN {TRUE}
  ELSE IF MayExempt(ev) THEN {TRUE, FALSE}
  ELSE {FALSE}

Fail(m, clause) == IF m.bad = "" THEN [m EXCEPT !.bad = clause] ELSE m

\* wrappers that run the work inline: the client interceptor, TimeoutHandler(d <= 0), a zRPC
\* server without a timeout, and the exempt (websocket upgrade / event-stream) REST requests
Inline(m) == m.kind = "rpcc" \/ m.exempt \/ (m.kind \in {"rest", "rpcs"} /\ m.tmo = 0)

\* ---------------------------------------------------------------- DeadlineShrinks
\* ev.has/ev.dl: ctx.Deadline() inside the work; ev.now: a clock reading taken by the
\* work at that moment (so the wrapper's own "now" was not later).
OnCtx(m, ev) ==
  IF m.exempt \/ m.tmo = 0
  THEN IF (ev.has <=> m.pdl # -1) /\ (ev.has => ev.dl <= m.pdl) THEN m
       ELSE Fail(m, IF m.exempt THEN "ExemptPassThrough" ELSE "DeadlineShrinks")
  ELSE IF ev.has /\ ev.dl <= ev.now + m.tmo /\ (m.pdl # -1 => ev.dl <= m.pdl) THEN m
       ELSE Fail(m, "DeadlineShrinks")

\* ---------------------------------------------------------------- the work's own result
OnSetHeader(m, ev) ==
  [m EXCEPT !.hall = HSet(@, ev.k, ev.v),
            !.hreq = IF m.committed THEN @ ELSE HSet(@, ev.k, ev.v)]
OnWriteHeader(m, ev) ==
  IF m.committed THEN m ELSE [m EXCEPT !.committed = TRUE, !.code = ev.code]
\* a Write that reported an error delivered nothing; the property does not say whether a
\* late Write must fail
OnWrite(m, ev) ==
  IF ev.err THEN m
  ELSE [m EXCEPT !.committed = TRUE, !.body = Append(@, ev.c)]
OnCancel(m, ev) == [m EXCEPT !.cancelled = TRUE]
OnAwait(m, ev)  == m
OnRet(m, ev)    == [m EXCEPT !.wk = "ret", !.val = ev.val, !.err = ev.err]
OnPanic(m, ev)  == [m EXCEPT !.wk = "panic"]
OnIgnore(m, ev) == [m EXCEPT !.wk = "ignore"]

\* ---------------------------------------------------------------- outcomes
SnapOf(ev) == [code |-> ev.code, hdr |-> ev.hdr, bt |-> ev.bt, n |-> ev.n]

HdrOK(m, H) ==
  \A k \in HKeys(H) \cup HKeys(m.hreq) \cup HKeys(m.hall) :
     HGet(H, k) = HGet(m.hreq, k) \/ HGet(H, k) = HGet(m.hall, k)

\* the client has exactly what the work produced: status, headers, whole body in order
HttpMatches(m, s) ==
  /\ (IF s.code = 0 THEN 200 ELSE s.code) = (IF m.committed THEN m.code ELSE 200)
  /\ s.bt = m.body
  /\ HdrOK(m, s.hdr)
Untouched(s) == s.n = 0 /\ s.code = 0 /\ s.bt = <<>> /\ s.hdr = {}

\* a timeout result is only legal once the deadline has really passed (s1: clock reading
\* after the wrapper returned) resp. the caller's cancellation was requested
Due(m) ==
  LET own == m.s0 + m.tmo
  IN IF m.tmo = 0 THEN m.pdl
     ELSE IF m.pdl # -1 /\ m.pdl < own THEN m.pdl ELSE own
Expired(m, ev) ==
  /\ Due(m) # -1 /\ ev.s1 >= Due(m)
  /\ m.kind = "fx" \/ ev.ctxerr = "deadline"
Cancelled(m, ev) ==
  /\ m.cancelled
  /\ m.kind = "fx" \/ ev.ctxerr = "canceled"

HttpTimeout(m, ev) ==
  /\ ~ev.pan /\ ev.hdr = {} /\ \A i \in DOMAIN ev.bt : ev.bt[i] = 0
  /\ \/ ev.code = 503 /\ Expired(m, ev)
     \/ ev.code = 499 /\ Cancelled(m, ev)
HttpComplete(m, ev) == ~ev.pan /\ m.wk = "ret" /\ HttpMatches(m, SnapOf(ev))
HttpPanic(m, ev)    == ev.pan /\ m.wk = "panic" /\ Untouched(SnapOf(ev))
\* inline (exempt) work writes straight to the client; a panic simply propagates
HttpInline(m, ev) ==
  /\ m.wk \in {"ret", "panic"} /\ (ev.pan <=> m.wk = "panic")
  /\ HttpMatches(m, SnapOf(ev))

ValComplete(m, ev) == ~ev.pan /\ m.wk = "ret" /\ ev.val = m.val /\ ev.err = m.err
ValPanic(m, ev)    == ev.pan /\ m.wk = "panic"
ValTimeout(m, ev) ==
  /\ ~ev.pan /\ ev.val = -1
  /\ \/ ev.err = "deadline" /\ Expired(m, ev)
     \/ ev.err = "canceled" /\ Cancelled(m, ev)

\* AllOrNothing (and ExemptPassThrough for the inline REST cases)
OnReturned(m, ev) ==
  LET ok == IF m.kind = "rest"
            THEN IF Inline(m) THEN HttpInline(m, ev)
                 ELSE HttpComplete(m, ev) \/ HttpPanic(m, ev) \/ HttpTimeout(m, ev)
            ELSE IF Inline(m) THEN ValComplete(m, ev) \/ ValPanic(m, ev)
                 ELSE ValComplete(m, ev) \/ ValPanic(m, ev) \/ ValTimeout(m, ev)
      m1 == [m EXCEPT !.phase = "returned", !.snap = SnapOf(ev)]
  IN IF m.phase # "call" THEN Fail(m, "Protocol")
     ELSE IF ok THEN m1
     ELSE Fail(m1, IF m.exempt THEN "ExemptPassThrough" ELSE "AllOrNothing")

\* NothingAfter: the blocked work has been released and has finished; the client-visible
\* response is what it was when the wrapper returned
OnFinal(m, ev) ==
  IF m.phase # "returned" THEN Fail(m, "Protocol")
  ELSE IF m.kind = "rest" /\ SnapOf(ev) # m.snap THEN Fail([m EXCEPT !.phase = "final"], "NothingAfter")
  ELSE [m EXCEPT !.phase = "final"]

\* ReturnsWithoutWorker: the driver releases a context-ignoring worker only after the
\* wrapper returned; "stuck" is recorded when the wrapper had not returned long after the
\* deadline although only the worker was in its way (ev.el, where recorded: a clock reading
\* taken when the driver gave up -- a wrapper is only overdue once the deadline the property
\* names has passed; a call that has no such deadline may wait for its work for ever)
Overdue(m, ev) == "el" \notin DOMAIN ev \/ (Due(m) # -1 /\ ev.el > Due(m))
OnStuck(m, ev) ==
  IF Inline(m) \/ ~Overdue(m, ev) THEN [m EXCEPT !.phase = "stuck"]
  ELSE Fail([m EXCEPT !.phase = "stuck"], "ReturnsWithoutWorker")

Mon(m, ev) ==
  CASE ev.e = "ctx"      -> OnCtx(m, ev)
    [] ev.e = "sh"       -> OnSetHeader(m, ev)
    [] ev.e = "wh"       -> OnWriteHeader(m, ev)
    [] ev.e = "wr"       -> OnWrite(m, ev)
    [] ev.e = "cancel"   -> OnCancel(m, ev)
    [] ev.e = "await"    -> OnAwait(m, ev)
    [] ev.e = "ret"      -> OnRet(m, ev)
    [] ev.e = "panic"    -> OnPanic(m, ev)
    [] ev.e = "ignore"   -> OnIgnore(m, ev)
    [] ev.e = "returned" -> OnReturned(m, ev)
    [] ev.e = "final"    -> OnFinal(m, ev)
    [] ev.e = "stuck"    -> OnStuck(m, ev)

\* ---- the property ----
Holds(m)               == m.bad = ""
DeadlineShrinks(m)     == m.bad # "DeadlineShrinks"
ReturnsWithoutWorker(m) == m.bad # "ReturnsWithoutWorker"
AllOrNothing(m)        == m.bad # "AllOrNothing"
NothingAfter(m)        == m.bad # "NothingAfter"
ExemptPassThrough(m)   == m.bad # "ExemptPassThrough"
=============================================================================
