SPECIFICATION GSpec
CONSTANTS
  Mode = "http"
  MaxOps = 4
  HKeySet = {"a", "b"}
  Chunks = {1, 2, 3}
  Codes = {201, 404}
  MaxWr = 2
  MaxWh = 2
  MaxSh = 2
  Emit = TRUE
INVARIANTS PrintHist
VIEW View
CHECK_DEADLOCK FALSE
