------------------------- MODULE TimeoutDeadlineImpl -------------------------
(* Layer I for the deadline clauses of C04 with a CALLER-SUPPLIED PARENT CONTEXT: how a
   wrapper derives the context the work runs under from (parent deadline, parent
   cancellation, timeout), and when it returns while the work ignores that context --
   composed with the Layer-P monitor of Timeout.tla.  The parent's deadline ranges over
   "none", earlier than, equal to, later than now+timeout and "beyond the horizon" (a request
   context with a generous deadline around a short timeout); all four wrappers:
     rest / rpcs   ctx, cancel := context.WithTimeout(callerCtx, d); select on done/ctx.Done()
     rpcc          the same derivation, the invoker runs inline
     fx            ctx := context.WithTimeout(WithContext-parent or Background, d); fn sees no
                   context, so the deadline clause shows only in WHEN DoWithTimeout returns
   Time is exact here (Tick is not enabled while a return or an expiry is due), which lets the
   model state "returns at that deadline" literally (PromptReturn); real traces can only
   witness its consequence: a wrapper that has not returned long after Due although only
   blocked work is in its way ("stuck", ReturnsWithoutWorker).

   Variant: "ok"          context.WithTimeout(parent, d): deadline = min(parent, now+d)
            "keepparent"  counterexample: a parent that already has a deadline is used as it is
            "background"  counterexample: derived from context.Background(): caller's deadline
                          and cancellation are lost
            "inlinetight" counterexample: the work is called inline when the caller's deadline
                          is the tighter one (correct deadline, but the wrapper waits for it) *)
EXTENDS Timeout, TLC

CONSTANTS KindSet, Tmos, Pdls, MaxClock, Variant
\* the caller's deadline: one of Pdls, or none (-1)
PdlSet == Pdls \cup {-1}

VARIABLES m, clock, par, eff, follow, inline, cerr, pcan, wst, wk, released, retAt, retHow
vars == <<m, clock, par, eff, follow, inline, cerr, pcan, wst, wk, released, retAt, retHow>>

Init ==
  /\ \E k \in KindSet, t \in Tmos, p \in PdlSet :
       /\ par = [kind |-> k, tmo |-> t, pdl |-> p]
       /\ m = MInit([kind |-> k, tmo |-> t, pdl |-> p, exempt |-> FALSE, s0 |-> 0])
  /\ clock = 0 /\ eff = -1 /\ follow = TRUE /\ inline = FALSE /\ cerr = "none" /\ pcan = FALSE
  /\ wst = "init" /\ wk = "new" /\ released = FALSE /\ retAt = -1 /\ retHow = ""

\* the wrapper is entered at s0 = 0 and derives the context of the work
Derive ==
  /\ wst = "init"
  /\ LET own == clock + par.tmo
         hasP == par.pdl # -1
         mn == IF hasP /\ par.pdl < own THEN par.pdl ELSE own
     IN CASE Variant = "ok"          -> eff' = mn /\ follow' = TRUE /\ inline' = (par.kind = "rpcc")
          [] Variant = "keepparent"  -> eff' = (IF hasP THEN par.pdl ELSE own) /\ follow' = TRUE
                                        /\ inline' = (par.kind = "rpcc")
          [] Variant = "background"  -> eff' = own /\ follow' = FALSE /\ inline' = (par.kind = "rpcc")
          [] Variant = "inlinetight" -> eff' = mn /\ follow' = TRUE
                                        /\ inline' = (par.kind = "rpcc" \/ (hasP /\ par.pdl <= own))
  /\ wst' = "wait"
  /\ UNCHANGED <<m, clock, par, cerr, pcan, wk, released, retAt, retHow>>

\* the deadline of the derived context passes
Expire ==
  /\ wst # "init" /\ cerr = "none" /\ clock >= eff
  /\ cerr' = "deadline"
  /\ UNCHANGED <<m, clock, par, eff, follow, inline, pcan, wst, wk, released, retAt, retHow>>

ReturnDue == wst = "wait" /\ ((~inline /\ cerr # "none") \/ wk = "done")
ExpireDue == wst # "init" /\ cerr = "none" /\ clock >= eff
Tick ==
  /\ clock < MaxClock /\ wst # "init" /\ ~ReturnDue /\ ~ExpireDue
  /\ clock' = clock + 1
  /\ UNCHANGED <<m, par, eff, follow, inline, cerr, pcan, wst, wk, released, retAt, retHow>>

\* ---- the work ----
Observe ==                       \* ctx.Deadline() inside the work (fx: fn has no context)
  /\ wst # "init" /\ wk = "new" /\ wk' = "run"
  /\ m' = IF par.kind = "fx" THEN m
          ELSE Mon(m, [e |-> "ctx", has |-> TRUE, dl |-> eff, now |-> clock])
  /\ UNCHANGED <<clock, par, eff, follow, inline, cerr, pcan, wst, released, retAt, retHow>>
WReturn ==
  /\ wk = "run" /\ wk' = "done"
  /\ m' = Mon(m, [e |-> "ret", val |-> IF par.kind = "rest" THEN -1 ELSE 5, err |-> "nil"])
  /\ UNCHANGED <<clock, par, eff, follow, inline, cerr, pcan, wst, released, retAt, retHow>>
WIgnore ==
  /\ wk = "run" /\ wk' = "blocked"
  /\ m' = Mon(m, [e |-> "ignore"])
  /\ UNCHANGED <<clock, par, eff, follow, inline, cerr, pcan, wst, released, retAt, retHow>>
WCancel ==                       \* the caller goes away
  /\ wk = "run" /\ ~pcan /\ pcan' = TRUE
  /\ m' = Mon(m, [e |-> "cancel"])
  /\ cerr' = IF follow /\ cerr = "none" THEN "canceled" ELSE cerr
  /\ UNCHANGED <<clock, par, eff, follow, inline, wst, wk, released, retAt, retHow>>
WReleased ==
  /\ wk = "blocked" /\ released /\ wk' = "done"
  /\ m' = Mon(m, [e |-> "ret", val |-> -1, err |-> "nil"])
  /\ UNCHANGED <<clock, par, eff, follow, inline, cerr, pcan, wst, released, retAt, retHow>>

\* ---- the wrapper's outcomes ----
RetEv(timeout) ==
  LET http == par.kind = "rest" IN
  [e |-> "returned", pan |-> FALSE,
   code |-> IF http /\ timeout THEN (IF cerr = "canceled" THEN 499 ELSE 503) ELSE 0,
   hdr |-> {}, bt |-> IF http /\ timeout THEN <<0>> ELSE <<>>, n |-> IF http /\ timeout THEN 2 ELSE 0,
   val |-> IF timeout THEN -1 ELSE m.val, err |-> IF timeout THEN cerr ELSE m.err,
   ctxerr |-> IF cerr = "none" THEN "canceled" ELSE cerr, s1 |-> clock]
RetTimeout ==
  /\ wst = "wait" /\ cerr # "none" /\ (~inline \/ (Variant = "inlinetight" /\ wk = "done"))
  /\ m' = Mon(m, RetEv(TRUE))
  /\ wst' = "returned" /\ released' = TRUE /\ retAt' = clock /\ retHow' = "timeout"
  /\ UNCHANGED <<clock, par, eff, follow, inline, cerr, pcan, wk>>
RetComplete ==
  /\ wst = "wait" /\ wk = "done" /\ ~(Variant = "inlinetight" /\ inline /\ par.kind # "rpcc" /\ cerr # "none")
  /\ m' = Mon(m, RetEv(FALSE))
  /\ wst' = "returned" /\ released' = TRUE /\ retAt' = clock /\ retHow' = "complete"
  /\ UNCHANGED <<clock, par, eff, follow, inline, cerr, pcan, wk>>
Final ==
  /\ wst = "returned" /\ wk = "done"
  /\ m' = Mon(m, [e |-> "final", code |-> m.snap.code, hdr |-> m.snap.hdr, bt |-> m.snap.bt, n |-> m.snap.n])
  /\ wst' = "final"
  /\ UNCHANGED <<clock, par, eff, follow, inline, cerr, pcan, wk, released, retAt, retHow>>
\* the driver's watchdog: long after the deadline the property names, the wrapper has not
\* returned and cannot, with only blocked work in its way
Stuck ==
  /\ wst = "wait" /\ wk = "blocked" /\ clock = MaxClock /\ ~ENABLED RetTimeout /\ ~ENABLED Expire
  /\ Due(m) # -1 /\ clock > Due(m)
  /\ m' = Mon(m, [e |-> "stuck"])
  /\ wst' = "stuck" /\ released' = TRUE
  /\ UNCHANGED <<clock, par, eff, follow, inline, cerr, pcan, wk, retAt, retHow>>

Next == Derive \/ Expire \/ Tick \/ Observe \/ WReturn \/ WIgnore \/ WCancel \/ WReleased
        \/ RetTimeout \/ RetComplete \/ Final \/ Stuck
Spec == Init /\ [][Next]_vars

\* ---- checked by TLC ----
Property == Holds(m)
\* "return at that deadline": a deadline result is handed back the moment the earlier of
\* caller deadline and s0+timeout passes (not inline wrappers)
PromptReturn ==
  (retHow = "timeout" /\ cerr = "deadline" /\ ~Inline(m)) => retAt <= Due(m)
\* the context of the work never outlives what the property allows
EffShrinks == wst # "init" => (eff <= par.tmo /\ (par.pdl # -1 => eff <= par.pdl))
=============================================================================
