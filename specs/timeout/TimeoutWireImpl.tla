-------------------------- MODULE TimeoutWireImpl --------------------------
(* Layer I for the part of C04 that lies BEFORE a timeout wrapper runs: the wiring.  The
   property is quantified over "all timeout settings (global, per-route, per-method, per-call)"
   and exempts exactly "websocket-upgrade and event-stream requests"; which timeout a call is
   owed and whether its request is exempt is decided by Layer P (TmoChoices / ExemptChoices of
   Timeout.tla) from the call's settings and from what the request offers.  This module models
   how go-zero gets from the same inputs to "which wrapper, with which timeout, or none":

     rest   rest/engine.go bindRoute: Middlewares.Timeout ? TimeoutHandler(checkedTimeout(route
            timeout)) : nothing; checkedTimeout(d) = d > 0 ? d : RestConf.Timeout;
            TimeoutHandler(d <= 0) = the handler itself; timeoutHandler.ServeHTTP passes the
            request straight through when Header.Get("Upgrade") == "websocket" or
            Header.Get("Accept") == "text/event-stream" (the first header line, compared
            literally)
     rpcc   zrpc/client.go: Timeout > 0 ? WithTimeout(Timeout) : (ClientOptions.Timeout = 0);
            zrpc/internal/client.go buildUnaryInterceptors: Middlewares.Timeout ?
            TimeoutInterceptor(ClientOptions.Timeout) : nothing; the interceptor takes the
            WithCallTimeout(d) option of the call if there is one, else its default; <= 0: the
            invoker is called with the caller's context
     rpcs   zrpc/server.go setupUnaryInterceptors: Timeout > 0 ? UnaryTimeoutInterceptor(Timeout,
            MethodTimeouts...) : nothing; the interceptor takes the called method's entry if
            there is one, else its default

   composed with the Layer-P monitor through what a call can observe of the decision: the
   deadline the work sees (ctx), and, for work that ignores its context, whether the wrapper
   hands back the timeout result at the deadline or is still waiting long after it (stuck).
   Every (settings, request) case is an initial state; TLC checks all of them.  The same module
   GENERATES the cases the wiring drivers replay against the real code (Emit = TRUE: one JSON
   record per case, with two steering hints computed from Layer P: inl = the statement allows
   this call to wait for its work, fin = every timeout the statement allows ends the call soon).

   Header values are modelled as header LINES, each a sequence of raw elements (a line with two
   elements is a comma-separated list): <<>> no header, << <<"h2c">> >>, << <<"websocket", "h2c">> >>,
   << <<"h2c">>, <<"websocket">> >>.

   Variant: "ok"          as above
            "tokens"      an alternative the statement admits: any websocket / event-stream
                          element, in any spelling, position or list, makes the request exempt
            "anyupgrade"  counterexample: every request that carries an Upgrade header is exempt
            "skipzero"    counterexample: the client interceptor is not installed when the
                          client-level timeout is 0, so the per-call timeout is never read
            "maxroute"    counterexample: a route group without its own timeout gets the largest
                          timeout any group asked for instead of the configured one            *)
EXTENDS Timeout, TLC, Json

CONSTANTS KindSet,    \* subset of {"rest", "rpcc", "rpcs"}
          Globs,      \* server / client / engine-wide timeouts (<= 0: none; -1 is always included)
          Overs,      \* values of the more specific layer
          Pdls,       \* caller deadlines (none = -1 is always included)
          UpVals, AccVals,   \* raw elements of Upgrade / Accept headers
          MaxElems,   \* at most this many header elements per request (Upgrade + Accept)
          Cross,      \* TRUE: settings x requests; FALSE: requests vary under one setting (DefGlob) only
          DefGlob,
          Late,       \* the moment the driver's watchdog gives up on a blocked call
          Variant, Emit

VARIABLES par, m, pc
vars == <<par, m, pc>>

\* ---- requests ----
Lower(s) == CASE s = "WebSocket"         -> "websocket"
              [] s = "websocket/13"      -> "websocket"
              [] s = "Text/Event-Stream" -> "text/event-stream"
              [] s = "TLS/1.0"           -> "tls"
              [] OTHER                   -> s
Flat(lines) == IF lines = <<>> THEN <<>>
               ELSE IF Len(lines) = 1 THEN lines[1] ELSE lines[1] \o lines[2]
Tokens(lines) == [i \in DOMAIN Flat(lines) |-> Lower(Flat(lines)[i])]
Literal(lines, v) == lines = << <<v>> >>           \* one header line, exactly this value
FirstLine(lines, v) == Len(lines) >= 1 /\ lines[1] = <<v>>     \* what Header.Get compares
HeaderShapes(V) ==
  {<<>>} \cup {<< <<a>> >> : a \in V}
         \cup {<< <<a, b>> >> : a \in V, b \in V}
         \cup {<< <<a>>, <<b>> >> : a \in V, b \in V}
NElems(lines) == Len(Flat(lines))

\* ---- the cases ----
\* (a configuration file cannot spell a negative number: -1 is added here)
GlobSet == Globs \cup {-1}
PdlSet  == Pdls \cup {-1}
OverSet(k) == {<<>>} \cup {<<o>> : o \in IF k = "rpcs" THEN {o \in Overs : o > 0} ELSE Overs \cup {-1}}
Plain(p) == p.up = <<>> /\ p.acc = <<>> /\ ~p.conn
DefaultSettings(p) == p.ov = <<>> /\ p.mw /\ p.glob = DefGlob
Admissible(p) ==
  /\ p.ov \in OverSet(p.kind)
  /\ p.kind = "rpcs" => p.mw
  /\ p.kind # "rest" => Plain(p)
  /\ NElems(p.up) + NElems(p.acc) <= MaxElems
  /\ Cross \/ Plain(p) \/ DefaultSettings(p)

\* the reset event Layer P reads
LP(p) ==
  IF p.kind = "rest"
  THEN [kind |-> p.kind, glob |-> p.glob, ov |-> p.ov, mw |-> p.mw, pdl |-> p.pdl, s0 |-> 0,
        up |-> Tokens(p.up), upx |-> Literal(p.up, "websocket"),
        acc |-> Tokens(p.acc), accx |-> Literal(p.acc, "text/event-stream"), conn |-> p.conn]
  ELSE [kind |-> p.kind, glob |-> p.glob, ov |-> p.ov, mw |-> p.mw, pdl |-> p.pdl, s0 |-> 0,
        exempt |-> FALSE]

\* ---- what the implementation decides ----
ImplExempt(p) ==
  /\ p.kind = "rest"
  /\ CASE Variant = "anyupgrade" -> p.up # <<>> \/ FirstLine(p.acc, "text/event-stream")
       [] Variant = "tokens"     -> WsToken \in SeqRange(Tokens(p.up)) \/ SseToken \in SeqRange(Tokens(p.acc))
       [] OTHER                  -> FirstLine(p.up, "websocket") \/ FirstLine(p.acc, "text/event-stream")
MaxGlob == CHOOSE g \in GlobSet : \A h \in GlobSet : h <= g
ImplTmo(p) ==
  CASE p.kind = "rest" ->
         IF ~p.mw THEN 0
         ELSE IF p.ov # <<>> /\ p.ov[1] > 0 THEN p.ov[1]
         ELSE IF Variant = "maxroute" THEN Pos(MaxGlob)      \* some other group asked for the largest
         ELSE Pos(p.glob)
    [] p.kind = "rpcc" ->
         IF ~p.mw \/ (Variant = "skipzero" /\ p.glob <= 0) THEN 0
         ELSE Pos(IF p.ov # <<>> THEN p.ov[1] ELSE p.glob)
    [] p.kind = "rpcs" ->
         IF p.glob <= 0 THEN 0 ELSE IF p.ov # <<>> THEN p.ov[1] ELSE p.glob

\* Layer P's reading of the case: the implementation's decision where the statement admits it,
\* else what the statement demands
Owed(S, x) == IF x \in S THEN x ELSE CHOOSE y \in S : TRUE
MOf(p) == MInitX(LP(p), Owed(TmoChoices(LP(p)), ImplTmo(p)), Owed(ExemptChoices(LP(p)), ImplExempt(p)))

Init ==
  /\ \E k \in KindSet, g \in GlobSet, w \in BOOLEAN, d \in PdlSet :
       \E o \in OverSet(k) :
         \E u \in (IF k = "rest" THEN HeaderShapes(UpVals) ELSE {<<>>}) :
           \E a \in (IF k = "rest" THEN {x \in HeaderShapes(AccVals) : NElems(u) + NElems(x) <= MaxElems} ELSE {<<>>}),
              c \in (IF k = "rest" THEN BOOLEAN ELSE {FALSE}) :
             /\ par = [kind |-> k, glob |-> g, ov |-> o, mw |-> w, pdl |-> d, up |-> u, acc |-> a, conn |-> c]
             /\ Admissible(par)
  /\ m = MOf(par)
  /\ pc = "ctx"

ImplInline == ImplExempt(par) \/ ImplTmo(par) = 0
EffDeadline ==           \* deadline of the context the work runs under (-1: none)
  IF ImplInline THEN par.pdl
  ELSE IF par.pdl # -1 /\ par.pdl < ImplTmo(par) THEN par.pdl ELSE ImplTmo(par)

Observe ==
  /\ pc = "ctx" /\ pc' = "work"
  /\ m' = Mon(m, [e |-> "ctx", has |-> EffDeadline # -1, dl |-> IF EffDeadline = -1 THEN 0 ELSE EffDeadline,
                  now |-> 0])
  /\ UNCHANGED par

Http == par.kind = "rest"
Complete == [e |-> "returned", pan |-> FALSE, code |-> 0, hdr |-> {}, bt |-> <<>>, n |-> 0,
             val |-> IF Http THEN -1 ELSE 5, err |-> "nil", ctxerr |-> "none", s1 |-> 0]
TimedOut == [e |-> "returned", pan |-> FALSE, code |-> IF Http THEN 503 ELSE 0, hdr |-> {},
             bt |-> IF Http THEN <<0>> ELSE <<>>, n |-> IF Http THEN 2 ELSE 0,
             val |-> -1, err |-> IF Http THEN "nil" ELSE "deadline", ctxerr |-> "deadline", s1 |-> EffDeadline]

\* work that finishes at once
WorkReturns ==
  /\ pc = "work" /\ pc' = "done"
  /\ m' = Mon(Mon(m, [e |-> "ret", val |-> IF Http THEN -1 ELSE 5, err |-> "nil"]), Complete)
  /\ UNCHANGED par
\* work that ignores its context: a wrapper hands back the timeout result at the deadline of the
\* context it derived; where the implementation put no wrapper (or the client interceptor, which
\* runs the invoker inline) the call is still waiting when the driver gives up
WorkIgnores ==
  /\ pc = "work" /\ pc' = "done"
  /\ LET m1 == Mon(m, [e |-> "ignore"]) IN
     m' = IF ~ImplInline /\ par.kind # "rpcc" /\ EffDeadline < Late
          THEN Mon(m1, TimedOut)
          ELSE Mon(m1, [e |-> "stuck", el |-> Late])
  /\ UNCHANGED par

Next == Observe \/ WorkReturns \/ WorkIgnores
Spec == Init /\ [][Next]_vars

\* ---- checked by TLC ----
Property == Holds(m)
\* the decision itself is one the statement admits
WireRefines == /\ ImplTmo(par) \in TmoChoices(LP(par))
               /\ ImplExempt(par) \in ExemptChoices(LP(par))

\* ---- generation: one record per case ----
MayWait(p) == p.kind = "rpcc" \/ TRUE \in ExemptChoices(LP(p)) \/ 0 \in TmoChoices(LP(p))
EndsSoon(p) == (p.pdl # -1 /\ p.pdl < Late) \/ \A t \in TmoChoices(LP(p)) : t # 0 /\ t < Late
CaseOf(p) == [kind |-> p.kind, glob |-> p.glob, ov |-> p.ov, mw |-> p.mw, pdl |-> p.pdl,
              up |-> p.up, acc |-> p.acc, conn |-> p.conn, inl |-> MayWait(p), fin |-> EndsSoon(p)]
PrintCase == (Emit /\ pc = "ctx") => PrintT("TRACE " \o ToJson(CaseOf(par)))
=============================================================================
