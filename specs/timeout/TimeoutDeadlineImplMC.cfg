SPECIFICATION Spec
CONSTANTS
  KindSet = {"rest", "rpcs", "rpcc", "fx"}
  Tmos = {5, 100}
  Pdls = {0, 3, 5, 8, 100}
  MaxClock = 10
  Variant = "ok"
INVARIANTS Property PromptReturn EffShrinks
CHECK_DEADLOCK FALSE
