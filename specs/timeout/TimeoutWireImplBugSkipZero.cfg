SPECIFICATION Spec
CONSTANTS
  KindSet = {"rpcc"}
  Globs = {0, 3, 100}
  Overs = {0, 3, 7, 100}
  Pdls = {5}
  UpVals = {"websocket", "WebSocket", "h2c", "TLS/1.0"}
  AccVals = {"text/event-stream", "Text/Event-Stream", "text/html", "application/json", "*/*"}
  MaxElems = 2
  Cross = FALSE
  DefGlob = 3
  Late = 50
  Variant = "skipzero"
  Emit = FALSE
INVARIANTS Property
CHECK_DEADLOCK FALSE
