SPECIFICATION Spec
CONSTANTS
  KindSet = {"fx"}
  Tmos = {5, 100}
  Pdls = {0, 3, 5, 8, 100}
  MaxClock = 10
  Variant = "keepparent"
INVARIANTS Property
CHECK_DEADLOCK FALSE
