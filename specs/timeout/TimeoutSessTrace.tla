-------------------------- MODULE TimeoutSessTrace --------------------------
(* Trace validation for C04 sessions: several calls through one wrapper value, recorded
   from the real code by the session drivers (zz_verif_c04_sess_test.go), fed to the
   per-call monitors of TimeoutSess.tla.  A trace starts with {"e":"reset"}; every other
   event carries the index q of the call it belongs to; {"e":"start","q":..} carries the
   call's parameters.  An event after which a clause of the property is broken for any
   call of the session is not accepted. *)
EXTENDS TimeoutSess, TraceKit

VARIABLES ms, l
tvars == <<ms, l>>

E == Trace[l]
IsEvent(e) == l <= Len(Trace) /\ E.e = e /\ l' = l + 1
\* committed test headers arrive as a JSON array of [key, value] pairs
Ev == IF E.e \in {"returned", "final"} THEN [E EXCEPT !.hdr = SeqToSet(E.hdr)] ELSE E

TReset == IsEvent("reset") /\ ms' = SInit
TCall  == /\ l <= Len(Trace) /\ E.e # "reset" /\ l' = l + 1
          /\ E.e \in {"start", "ctx", "sh", "wh", "wr", "cancel", "await", "ret", "panic", "ignore",
                      "returned", "final", "stuck"}
          /\ SKnown(ms, E)
          /\ ms' = SMon(ms, Ev)

TInit == ms = SInit /\ l = 1
Check == SHolds(ms') \/ Print(<<"C04 clause violated (session)", SBad(ms')>>, FALSE)
TNext == (TReset \/ TCall) /\ Check
TSpec == TInit /\ [][TNext]_tvars

Property == SHolds(ms)
HW == HighWater(l)
=============================================================================
