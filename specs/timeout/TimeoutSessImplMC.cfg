SPECIFICATION Spec
CONSTANTS
  NCalls = 2
  MaxPre = 2
  MaxLate = 2
  Chunks = {1}
  Codes = {201}
  Tmo = 5
  Variant = "fresh"
INVARIANTS Property NoLeak Frozen ExclusiveWriters
CHECK_DEADLOCK FALSE
