SPECIFICATION Spec
CONSTANTS
  MaxOps = 3
  Chunks = {1, 2}
  Codes = {201, 404}
  HVals = {1, 2}
  Tmo = 5
  Variant = "nolock"
INVARIANTS Property TypeOK LateWritesDropped
PROPERTIES EventuallyReturns EventuallyFinal
