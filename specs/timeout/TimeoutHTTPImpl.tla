-------------------------- MODULE TimeoutHTTPImpl --------------------------
(* Layer I for C04: PlusCal model of rest/handler/timeouthandler.go -- the buffered
   timeoutWriter {h, wbuf, code, timedOut, wroteHeader, mu}, the handler goroutine, and
   timeoutHandler.ServeHTTP's select on panicChan / done / ctx.Done() -- composed with the
   Layer-P monitor of Timeout.tla.  Every step that the Go driver can observe emits the
   same event record the driver writes, and feeds it to Mon; TLC checks  m.bad = ""  for
   every worker script (SetHeader, WriteHeader, Write chunk, Cancel, AwaitCtx, then
   Return | Panic | Ignore) of at most MaxOps operations and every interleaving with the
   wrapper's branches and with the expiry of the deadline.

   One label per critical section / channel operation; mu is sync.Mutex; closing `done`
   and the buffered send on panicChan are booleans; cl is the real http.ResponseWriter
   (headers are frozen at the first WriteHeader/Write, as net/http does).

   Variant: "ok"          the code as it is
            "hdrleak"     counterexample: handler headers copied before the select result is known
            "waitworker"  counterexample: wrapper joins the handler goroutine after a timeout
            "flushpanic"  counterexample: buffered output flushed before a panic is re-raised
            "nolock"      timeout branch without tw.mu (still satisfies Layer P: the lock is
                          not what protects the client-visible result)                     *)
EXTENDS Timeout, TLC

CONSTANTS MaxOps, Chunks, Codes, HVals, Tmo, Variant

Merge(dst, src) == {p \in dst : p[1] \notin HKeys(src)} \cup src
ClWriteHeader(c, code) ==
  IF c.code # 0 THEN [c EXCEPT !.n = @ + 1]
  ELSE [c EXCEPT !.code = code, !.hdr = c.live, !.n = @ + 1]
ClWrite(c, toks) ==
  LET c1 == IF c.code = 0 THEN [c EXCEPT !.code = 200, !.hdr = c.live] ELSE c
  IN [c1 EXCEPT !.bt = @ \o toks, !.n = @ + 1]

\* headers the client has / would get with an implicit 200
CHdr(c) == IF c.code = 0 THEN c.live ELSE c.hdr

(* --fair algorithm TimeoutHTTP {
variables
  m = MInit([kind |-> "rest", tmo |-> Tmo, pdl |-> -1, exempt |-> FALSE, s0 |-> 0]),
  clock = 0,
  ctxDone = FALSE, ctxErr = "none",
  mu = "free",
  tw = [h |-> {}, wbuf |-> <<>>, code |-> 200, timedOut |-> FALSE, wroteHeader |-> FALSE],
  cl = [live |-> {}, hdr |-> {}, code |-> 0, bt |-> <<>>, n |-> 0],
  done = FALSE, panicked = FALSE, returned = FALSE, released = FALSE,
  nops = 0;

define {
  RetEv(pan) == [e |-> "returned", pan |-> pan, code |-> cl.code, hdr |-> CHdr(cl), bt |-> cl.bt,
                 n |-> cl.n, val |-> -1, err |-> "nil",
                 ctxerr |-> IF ctxDone THEN ctxErr ELSE "canceled",   \* deferred cancelCtx()
                 s1 |-> clock]
  FinEv == [e |-> "final", code |-> cl.code, hdr |-> CHdr(cl), bt |-> cl.bt, n |-> cl.n]
}

\* the deadline of context.WithTimeout (or of the caller) passes at an arbitrary moment
fair process (timer = "timer")
{
EXP: if (~ctxDone) { ctxDone := TRUE; ctxErr := "deadline"; clock := Tmo };
}

\* the wrapped handler, running in its own goroutine with the timeoutWriter
fair process (worker = "worker")
variables arg = 0, werr = FALSE;
{
W0: m := Mon(m, [e |-> "ctx", has |-> TRUE, dl |-> Tmo, now |-> 0]);
WL: either { await nops < MaxOps; nops := nops + 1;
             with (v \in HVals) {                       \* w.Header().Set: no lock, own map
               tw := [tw EXCEPT !.h = HSet(@, "a", v)];
               m := Mon(m, [e |-> "sh", k |-> "a", v |-> v]) };
             goto WL }
    or     { await nops < MaxOps; nops := nops + 1;
             with (c \in Codes) { arg := c };
             goto WH1 }
    or     { await nops < MaxOps; nops := nops + 1;
             with (c \in Chunks) { arg := c };
             goto WR1 }
    or     { await nops < MaxOps; nops := nops + 1; goto AW }
    or     { await nops < MaxOps /\ ~m.cancelled; nops := nops + 1; goto CA1 }
    or     { goto RT1 }
    or     { goto PN1 }
    or     { goto IG1 };
\* timeoutWriter.WriteHeader
WH1: await mu = "free"; mu := "worker";
WH2: if (~tw.wroteHeader /\ ~tw.timedOut) { tw := [tw EXCEPT !.wroteHeader = TRUE, !.code = arg] };
     mu := "free";
WH3: m := Mon(m, [e |-> "wh", code |-> arg]); goto WL;
\* timeoutWriter.Write
WR1: await mu = "free"; mu := "worker";
WR2: if (tw.timedOut) { werr := TRUE }
     else { werr := FALSE;
            tw := [tw EXCEPT !.code = IF tw.wroteHeader THEN @ ELSE 200,
                             !.wroteHeader = TRUE, !.wbuf = Append(@, arg)] };
     mu := "free";
WR3: m := Mon(m, [e |-> "wr", c |-> arg, err |-> werr]); goto WL;
\* <-r.Context().Done()
AW:  await ctxDone; m := Mon(m, [e |-> "await"]); goto WL;
\* the caller goes away while the handler runs (event first, then the cancel itself)
CA1: m := Mon(m, [e |-> "cancel"]);
CA2: if (~ctxDone) { ctxDone := TRUE; ctxErr := "canceled" }; goto WL;
\* handler returns: close(done)
RT1: m := Mon(m, [e |-> "ret", val |-> -1, err |-> "nil"]);
RT2: done := TRUE; goto WEND;
\* handler panics: recovered, sent to panicChan (buffered)
PN1: m := Mon(m, [e |-> "panic"]);
PN2: panicked := TRUE; goto WEND;
\* handler ignores its context; the driver lets it go on only after the wrapper returned
IG1: m := Mon(m, [e |-> "ignore"]);
IG2: await released; m := Mon(m, [e |-> "ret", val |-> -1, err |-> "nil"]);
IG3: done := TRUE;
WEND: skip;
}

\* timeoutHandler.ServeHTTP after `go func(){...}()`
fair process (wrapper = "wrapper")
{
SEL: if (Variant = "hdrleak") { cl := [cl EXCEPT !.live = Merge(@, tw.h)] };
SE2: either { await panicked; goto RP }
     or     { await done; goto D1 }
     or     { await ctxDone; goto T1 };
RP:  if (Variant = "flushpanic" /\ Len(tw.wbuf) > 0) { cl := ClWrite(cl, tw.wbuf) };
RP2: m := Mon(m, RetEv(TRUE)); returned := TRUE; goto REL;
\* case <-done: copy the buffered result under tw.mu
D1:  await mu = "free"; mu := "wrapper";
D2:  cl := [cl EXCEPT !.live = Merge(@, tw.h)];
D3:  if (tw.code # 200) { cl := ClWriteHeader(cl, tw.code) };
D4:  cl := ClWrite(cl, tw.wbuf); mu := "free";
D5:  m := Mon(m, RetEv(FALSE)); returned := TRUE; goto REL;
\* case <-ctx.Done(): write the timeout result under tw.mu, then set timedOut
T1:  if (Variant # "nolock") { await mu = "free"; mu := "wrapper" };
T1h: if (Variant = "hdrleak") { cl := [cl EXCEPT !.live = Merge(@, tw.h)] };
T2:  cl := ClWriteHeader(cl, IF ctxErr = "canceled" THEN 499 ELSE 503);
T3:  cl := ClWrite(cl, <<0>>);
T4:  tw := [tw EXCEPT !.timedOut = TRUE];
     if (Variant # "nolock") { mu := "free" };
TW:  if (Variant = "waitworker") { await done \/ panicked };
T5:  m := Mon(m, RetEv(FALSE)); returned := TRUE;
\* the driver: release a blocked worker only now, wait for it, take the final snapshot
REL: released := TRUE;
FIN: await pc["worker"] = "Done"; m := Mon(m, FinEv);
}

\* the driver's watchdog: the wrapper waits for a worker that ignores its context
fair process (dog = "dog")
{
DG:  await returned \/ (pc["wrapper"] = "TW" /\ pc["worker"] = "IG2" /\ ~ENABLED wrapper);
     if (~returned) { m := Mon(m, [e |-> "stuck"]); released := TRUE };
}
} *)
\* BEGIN TRANSLATION (chksum(pcal) = "7c28162a" /\ chksum(tla) = "5104fa60")
VARIABLES pc, m, clock, ctxDone, ctxErr, mu, tw, cl, done, panicked, returned, 
          released, nops

(* define statement *)
RetEv(pan) == [e |-> "returned", pan |-> pan, code |-> cl.code, hdr |-> CHdr(cl), bt |-> cl.bt,
               n |-> cl.n, val |-> -1, err |-> "nil",
               ctxerr |-> IF ctxDone THEN ctxErr ELSE "canceled",
               s1 |-> clock]
FinEv == [e |-> "final", code |-> cl.code, hdr |-> CHdr(cl), bt |-> cl.bt, n |-> cl.n]

VARIABLES arg, werr

vars == << pc, m, clock, ctxDone, ctxErr, mu, tw, cl, done, panicked, 
           returned, released, nops, arg, werr >>

ProcSet == {"timer"} \cup {"worker"} \cup {"wrapper"} \cup {"dog"}

Init == (* Global variables *)
        /\ m = MInit([kind |-> "rest", tmo |-> Tmo, pdl |-> -1, exempt |-> FALSE, s0 |-> 0])
        /\ clock = 0
        /\ ctxDone = FALSE
        /\ ctxErr = "none"
        /\ mu = "free"
        /\ tw = [h |-> {}, wbuf |-> <<>>, code |-> 200, timedOut |-> FALSE, wroteHeader |-> FALSE]
        /\ cl = [live |-> {}, hdr |-> {}, code |-> 0, bt |-> <<>>, n |-> 0]
        /\ done = FALSE
        /\ panicked = FALSE
        /\ returned = FALSE
        /\ released = FALSE
        /\ nops = 0
        (* Process worker *)
        /\ arg = 0
        /\ werr = FALSE
        /\ pc = [self \in ProcSet |-> CASE self = "timer" -> "EXP"
                                        [] self = "worker" -> "W0"
                                        [] self = "wrapper" -> "SEL"
                                        [] self = "dog" -> "DG"]

EXP == /\ pc["timer"] = "EXP"
       /\ IF ~ctxDone
             THEN /\ ctxDone' = TRUE
                  /\ ctxErr' = "deadline"
                  /\ clock' = Tmo
             ELSE /\ TRUE
                  /\ UNCHANGED << clock, ctxDone, ctxErr >>
       /\ pc' = [pc EXCEPT !["timer"] = "Done"]
       /\ UNCHANGED << m, mu, tw, cl, done, panicked, returned, released, nops, 
                       arg, werr >>

timer == EXP

W0 == /\ pc["worker"] = "W0"
      /\ m' = Mon(m, [e |-> "ctx", has |-> TRUE, dl |-> Tmo, now |-> 0])
      /\ pc' = [pc EXCEPT !["worker"] = "WL"]
      /\ UNCHANGED << clock, ctxDone, ctxErr, mu, tw, cl, done, panicked, 
                      returned, released, nops, arg, werr >>

WL == /\ pc["worker"] = "WL"
      /\ \/ /\ nops < MaxOps
            /\ nops' = nops + 1
            /\ \E v \in HVals:
                 /\ tw' = [tw EXCEPT !.h = HSet(@, "a", v)]
                 /\ m' = Mon(m, [e |-> "sh", k |-> "a", v |-> v])
            /\ pc' = [pc EXCEPT !["worker"] = "WL"]
            /\ arg' = arg
         \/ /\ nops < MaxOps
            /\ nops' = nops + 1
            /\ \E c \in Codes:
                 arg' = c
            /\ pc' = [pc EXCEPT !["worker"] = "WH1"]
            /\ UNCHANGED <<m, tw>>
         \/ /\ nops < MaxOps
            /\ nops' = nops + 1
            /\ \E c \in Chunks:
                 arg' = c
            /\ pc' = [pc EXCEPT !["worker"] = "WR1"]
            /\ UNCHANGED <<m, tw>>
         \/ /\ nops < MaxOps
            /\ nops' = nops + 1
            /\ pc' = [pc EXCEPT !["worker"] = "AW"]
            /\ UNCHANGED <<m, tw, arg>>
         \/ /\ nops < MaxOps /\ ~m.cancelled
            /\ nops' = nops + 1
            /\ pc' = [pc EXCEPT !["worker"] = "CA1"]
            /\ UNCHANGED <<m, tw, arg>>
         \/ /\ pc' = [pc EXCEPT !["worker"] = "RT1"]
            /\ UNCHANGED <<m, tw, nops, arg>>
         \/ /\ pc' = [pc EXCEPT !["worker"] = "PN1"]
            /\ UNCHANGED <<m, tw, nops, arg>>
         \/ /\ pc' = [pc EXCEPT !["worker"] = "IG1"]
            /\ UNCHANGED <<m, tw, nops, arg>>
      /\ UNCHANGED << clock, ctxDone, ctxErr, mu, cl, done, panicked, returned, 
                      released, werr >>

WH1 == /\ pc["worker"] = "WH1"
       /\ mu = "free"
       /\ mu' = "worker"
       /\ pc' = [pc EXCEPT !["worker"] = "WH2"]
       /\ UNCHANGED << m, clock, ctxDone, ctxErr, tw, cl, done, panicked, 
                       returned, released, nops, arg, werr >>

WH2 == /\ pc["worker"] = "WH2"
       /\ IF ~tw.wroteHeader /\ ~tw.timedOut
             THEN /\ tw' = [tw EXCEPT !.wroteHeader = TRUE, !.code = arg]
             ELSE /\ TRUE
                  /\ tw' = tw
       /\ mu' = "free"
       /\ pc' = [pc EXCEPT !["worker"] = "WH3"]
       /\ UNCHANGED << m, clock, ctxDone, ctxErr, cl, done, panicked, returned, 
                       released, nops, arg, werr >>

WH3 == /\ pc["worker"] = "WH3"
       /\ m' = Mon(m, [e |-> "wh", code |-> arg])
       /\ pc' = [pc EXCEPT !["worker"] = "WL"]
       /\ UNCHANGED << clock, ctxDone, ctxErr, mu, tw, cl, done, panicked, 
                       returned, released, nops, arg, werr >>

WR1 == /\ pc["worker"] = "WR1"
       /\ mu = "free"
       /\ mu' = "worker"
       /\ pc' = [pc EXCEPT !["worker"] = "WR2"]
       /\ UNCHANGED << m, clock, ctxDone, ctxErr, tw, cl, done, panicked, 
                       returned, released, nops, arg, werr >>

WR2 == /\ pc["worker"] = "WR2"
       /\ IF tw.timedOut
             THEN /\ werr' = TRUE
                  /\ tw' = tw
             ELSE /\ werr' = FALSE
                  /\ tw' = [tw EXCEPT !.code = IF tw.wroteHeader THEN @ ELSE 200,
                                      !.wroteHeader = TRUE, !.wbuf = Append(@, arg)]
       /\ mu' = "free"
       /\ pc' = [pc EXCEPT !["worker"] = "WR3"]
       /\ UNCHANGED << m, clock, ctxDone, ctxErr, cl, done, panicked, returned, 
                       released, nops, arg >>

WR3 == /\ pc["worker"] = "WR3"
       /\ m' = Mon(m, [e |-> "wr", c |-> arg, err |-> werr])
       /\ pc' = [pc EXCEPT !["worker"] = "WL"]
       /\ UNCHANGED << clock, ctxDone, ctxErr, mu, tw, cl, done, panicked, 
                       returned, released, nops, arg, werr >>

AW == /\ pc["worker"] = "AW"
      /\ ctxDone
      /\ m' = Mon(m, [e |-> "await"])
      /\ pc' = [pc EXCEPT !["worker"] = "WL"]
      /\ UNCHANGED << clock, ctxDone, ctxErr, mu, tw, cl, done, panicked, 
                      returned, released, nops, arg, werr >>

CA1 == /\ pc["worker"] = "CA1"
       /\ m' = Mon(m, [e |-> "cancel"])
       /\ pc' = [pc EXCEPT !["worker"] = "CA2"]
       /\ UNCHANGED << clock, ctxDone, ctxErr, mu, tw, cl, done, panicked, 
                       returned, released, nops, arg, werr >>

CA2 == /\ pc["worker"] = "CA2"
       /\ IF ~ctxDone
             THEN /\ ctxDone' = TRUE
                  /\ ctxErr' = "canceled"
             ELSE /\ TRUE
                  /\ UNCHANGED << ctxDone, ctxErr >>
       /\ pc' = [pc EXCEPT !["worker"] = "WL"]
       /\ UNCHANGED << m, clock, mu, tw, cl, done, panicked, returned, 
                       released, nops, arg, werr >>

RT1 == /\ pc["worker"] = "RT1"
       /\ m' = Mon(m, [e |-> "ret", val |-> -1, err |-> "nil"])
       /\ pc' = [pc EXCEPT !["worker"] = "RT2"]
       /\ UNCHANGED << clock, ctxDone, ctxErr, mu, tw, cl, done, panicked, 
                       returned, released, nops, arg, werr >>

RT2 == /\ pc["worker"] = "RT2"
       /\ done' = TRUE
       /\ pc' = [pc EXCEPT !["worker"] = "WEND"]
       /\ UNCHANGED << m, clock, ctxDone, ctxErr, mu, tw, cl, panicked, 
                       returned, released, nops, arg, werr >>

PN1 == /\ pc["worker"] = "PN1"
       /\ m' = Mon(m, [e |-> "panic"])
       /\ pc' = [pc EXCEPT !["worker"] = "PN2"]
       /\ UNCHANGED << clock, ctxDone, ctxErr, mu, tw, cl, done, panicked, 
                       returned, released, nops, arg, werr >>

PN2 == /\ pc["worker"] = "PN2"
       /\ panicked' = TRUE
       /\ pc' = [pc EXCEPT !["worker"] = "WEND"]
       /\ UNCHANGED << m, clock, ctxDone, ctxErr, mu, tw, cl, done, returned, 
                       released, nops, arg, werr >>

IG1 == /\ pc["worker"] = "IG1"
       /\ m' = Mon(m, [e |-> "ignore"])
       /\ pc' = [pc EXCEPT !["worker"] = "IG2"]
       /\ UNCHANGED << clock, ctxDone, ctxErr, mu, tw, cl, done, panicked, 
                       returned, released, nops, arg, werr >>

IG2 == /\ pc["worker"] = "IG2"
       /\ released
       /\ m' = Mon(m, [e |-> "ret", val |-> -1, err |-> "nil"])
       /\ pc' = [pc EXCEPT !["worker"] = "IG3"]
       /\ UNCHANGED << clock, ctxDone, ctxErr, mu, tw, cl, done, panicked, 
                       returned, released, nops, arg, werr >>

IG3 == /\ pc["worker"] = "IG3"
       /\ done' = TRUE
       /\ pc' = [pc EXCEPT !["worker"] = "WEND"]
       /\ UNCHANGED << m, clock, ctxDone, ctxErr, mu, tw, cl, panicked, 
                       returned, released, nops, arg, werr >>

WEND == /\ pc["worker"] = "WEND"
        /\ TRUE
        /\ pc' = [pc EXCEPT !["worker"] = "Done"]
        /\ UNCHANGED << m, clock, ctxDone, ctxErr, mu, tw, cl, done, panicked, 
                        returned, released, nops, arg, werr >>

worker == W0 \/ WL \/ WH1 \/ WH2 \/ WH3 \/ WR1 \/ WR2 \/ WR3 \/ AW \/ CA1
             \/ CA2 \/ RT1 \/ RT2 \/ PN1 \/ PN2 \/ IG1 \/ IG2 \/ IG3
             \/ WEND

SEL == /\ pc["wrapper"] = "SEL"
       /\ IF Variant = "hdrleak"
             THEN /\ cl' = [cl EXCEPT !.live = Merge(@, tw.h)]
             ELSE /\ TRUE
                  /\ cl' = cl
       /\ pc' = [pc EXCEPT !["wrapper"] = "SE2"]
       /\ UNCHANGED << m, clock, ctxDone, ctxErr, mu, tw, done, panicked, 
                       returned, released, nops, arg, werr >>

SE2 == /\ pc["wrapper"] = "SE2"
       /\ \/ /\ panicked
             /\ pc' = [pc EXCEPT !["wrapper"] = "RP"]
          \/ /\ done
             /\ pc' = [pc EXCEPT !["wrapper"] = "D1"]
          \/ /\ ctxDone
             /\ pc' = [pc EXCEPT !["wrapper"] = "T1"]
       /\ UNCHANGED << m, clock, ctxDone, ctxErr, mu, tw, cl, done, panicked, 
                       returned, released, nops, arg, werr >>

RP == /\ pc["wrapper"] = "RP"
      /\ IF Variant = "flushpanic" /\ Len(tw.wbuf) > 0
            THEN /\ cl' = ClWrite(cl, tw.wbuf)
            ELSE /\ TRUE
                 /\ cl' = cl
      /\ pc' = [pc EXCEPT !["wrapper"] = "RP2"]
      /\ UNCHANGED << m, clock, ctxDone, ctxErr, mu, tw, done, panicked, 
                      returned, released, nops, arg, werr >>

RP2 == /\ pc["wrapper"] = "RP2"
       /\ m' = Mon(m, RetEv(TRUE))
       /\ returned' = TRUE
       /\ pc' = [pc EXCEPT !["wrapper"] = "REL"]
       /\ UNCHANGED << clock, ctxDone, ctxErr, mu, tw, cl, done, panicked, 
                       released, nops, arg, werr >>

D1 == /\ pc["wrapper"] = "D1"
      /\ mu = "free"
      /\ mu' = "wrapper"
      /\ pc' = [pc EXCEPT !["wrapper"] = "D2"]
      /\ UNCHANGED << m, clock, ctxDone, ctxErr, tw, cl, done, panicked, 
                      returned, released, nops, arg, werr >>

D2 == /\ pc["wrapper"] = "D2"
      /\ cl' = [cl EXCEPT !.live = Merge(@, tw.h)]
      /\ pc' = [pc EXCEPT !["wrapper"] = "D3"]
      /\ UNCHANGED << m, clock, ctxDone, ctxErr, mu, tw, done, panicked, 
                      returned, released, nops, arg, werr >>

D3 == /\ pc["wrapper"] = "D3"
      /\ IF tw.code # 200
            THEN /\ cl' = ClWriteHeader(cl, tw.code)
            ELSE /\ TRUE
                 /\ cl' = cl
      /\ pc' = [pc EXCEPT !["wrapper"] = "D4"]
      /\ UNCHANGED << m, clock, ctxDone, ctxErr, mu, tw, done, panicked, 
                      returned, released, nops, arg, werr >>

D4 == /\ pc["wrapper"] = "D4"
      /\ cl' = ClWrite(cl, tw.wbuf)
      /\ mu' = "free"
      /\ pc' = [pc EXCEPT !["wrapper"] = "D5"]
      /\ UNCHANGED << m, clock, ctxDone, ctxErr, tw, done, panicked, returned, 
                      released, nops, arg, werr >>

D5 == /\ pc["wrapper"] = "D5"
      /\ m' = Mon(m, RetEv(FALSE))
      /\ returned' = TRUE
      /\ pc' = [pc EXCEPT !["wrapper"] = "REL"]
      /\ UNCHANGED << clock, ctxDone, ctxErr, mu, tw, cl, done, panicked, 
                      released, nops, arg, werr >>

T1 == /\ pc["wrapper"] = "T1"
      /\ IF Variant # "nolock"
            THEN /\ mu = "free"
                 /\ mu' = "wrapper"
            ELSE /\ TRUE
                 /\ mu' = mu
      /\ pc' = [pc EXCEPT !["wrapper"] = "T1h"]
      /\ UNCHANGED << m, clock, ctxDone, ctxErr, tw, cl, done, panicked, 
                      returned, released, nops, arg, werr >>

T1h == /\ pc["wrapper"] = "T1h"
       /\ IF Variant = "hdrleak"
             THEN /\ cl' = [cl EXCEPT !.live = Merge(@, tw.h)]
             ELSE /\ TRUE
                  /\ cl' = cl
       /\ pc' = [pc EXCEPT !["wrapper"] = "T2"]
       /\ UNCHANGED << m, clock, ctxDone, ctxErr, mu, tw, done, panicked, 
                       returned, released, nops, arg, werr >>

T2 == /\ pc["wrapper"] = "T2"
      /\ cl' = ClWriteHeader(cl, IF ctxErr = "canceled" THEN 499 ELSE 503)
      /\ pc' = [pc EXCEPT !["wrapper"] = "T3"]
      /\ UNCHANGED << m, clock, ctxDone, ctxErr, mu, tw, done, panicked, 
                      returned, released, nops, arg, werr >>

T3 == /\ pc["wrapper"] = "T3"
      /\ cl' = ClWrite(cl, <<0>>)
      /\ pc' = [pc EXCEPT !["wrapper"] = "T4"]
      /\ UNCHANGED << m, clock, ctxDone, ctxErr, mu, tw, done, panicked, 
                      returned, released, nops, arg, werr >>

T4 == /\ pc["wrapper"] = "T4"
      /\ tw' = [tw EXCEPT !.timedOut = TRUE]
      /\ IF Variant # "nolock"
            THEN /\ mu' = "free"
            ELSE /\ TRUE
                 /\ mu' = mu
      /\ pc' = [pc EXCEPT !["wrapper"] = "TW"]
      /\ UNCHANGED << m, clock, ctxDone, ctxErr, cl, done, panicked, returned, 
                      released, nops, arg, werr >>

TW == /\ pc["wrapper"] = "TW"
      /\ IF Variant = "waitworker"
            THEN /\ done \/ panicked
            ELSE /\ TRUE
      /\ pc' = [pc EXCEPT !["wrapper"] = "T5"]
      /\ UNCHANGED << m, clock, ctxDone, ctxErr, mu, tw, cl, done, panicked, 
                      returned, released, nops, arg, werr >>

T5 == /\ pc["wrapper"] = "T5"
      /\ m' = Mon(m, RetEv(FALSE))
      /\ returned' = TRUE
      /\ pc' = [pc EXCEPT !["wrapper"] = "REL"]
      /\ UNCHANGED << clock, ctxDone, ctxErr, mu, tw, cl, done, panicked, 
                      released, nops, arg, werr >>

REL == /\ pc["wrapper"] = "REL"
       /\ released' = TRUE
       /\ pc' = [pc EXCEPT !["wrapper"] = "FIN"]
       /\ UNCHANGED << m, clock, ctxDone, ctxErr, mu, tw, cl, done, panicked, 
                       returned, nops, arg, werr >>

FIN == /\ pc["wrapper"] = "FIN"
       /\ pc["worker"] = "Done"
       /\ m' = Mon(m, FinEv)
       /\ pc' = [pc EXCEPT !["wrapper"] = "Done"]
       /\ UNCHANGED << clock, ctxDone, ctxErr, mu, tw, cl, done, panicked, 
                       returned, released, nops, arg, werr >>

wrapper == SEL \/ SE2 \/ RP \/ RP2 \/ D1 \/ D2 \/ D3 \/ D4 \/ D5 \/ T1
              \/ T1h \/ T2 \/ T3 \/ T4 \/ TW \/ T5 \/ REL \/ FIN

DG == /\ pc["dog"] = "DG"
      /\ returned \/ (pc["wrapper"] = "TW" /\ pc["worker"] = "IG2" /\ ~ENABLED wrapper)
      /\ IF ~returned
            THEN /\ m' = Mon(m, [e |-> "stuck"])
                 /\ released' = TRUE
            ELSE /\ TRUE
                 /\ UNCHANGED << m, released >>
      /\ pc' = [pc EXCEPT !["dog"] = "Done"]
      /\ UNCHANGED << clock, ctxDone, ctxErr, mu, tw, cl, done, panicked, 
                      returned, nops, arg, werr >>

dog == DG

(* Allow infinite stuttering to prevent deadlock on termination. *)
Terminating == /\ \A self \in ProcSet: pc[self] = "Done"
               /\ UNCHANGED vars

Next == timer \/ worker \/ wrapper \/ dog
           \/ Terminating

Spec == /\ Init /\ [][Next]_vars
        /\ WF_vars(Next)
        /\ WF_vars(timer)
        /\ WF_vars(worker)
        /\ WF_vars(wrapper)
        /\ WF_vars(dog)

Termination == <>(\A self \in ProcSet: pc[self] = "Done")

\* END TRANSLATION 


\* ---- checked by TLC ----
Property        == Holds(m)
\* the lock protocol: tw.mu is never taken twice
TypeOK          == mu \in {"free", "worker", "wrapper"} /\ m.bad \in STRING
\* design-level ReturnsWithoutWorker: with a deadline that eventually passes the wrapper
\* returns and the driver reaches its final snapshot, whatever the worker does
EventuallyReturns == <>returned
EventuallyFinal   == <>(m.phase = "final")
\* a late Write (after the wrapper set timedOut) never grows the client's body
LateWritesDropped == returned => (cl.bt = m.snap.bt /\ cl.n = m.snap.n)
=============================================================================
