SPECIFICATION Spec
CONSTANTS
  NCalls = 2
  MaxPre = 1
  MaxLate = 1
  Chunks = {1}
  Codes = {201}
  Tmo = 5
  Variant = "fresh"
INVARIANTS Property NoLeak Frozen ExclusiveWriters
CHECK_DEADLOCK FALSE
