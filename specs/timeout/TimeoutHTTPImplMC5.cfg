SPECIFICATION Spec
CONSTANTS
  MaxOps = 5
  Chunks = {1, 2}
  Codes = {201}
  HVals = {1}
  Tmo = 5
  Variant = "ok"
INVARIANTS Property TypeOK LateWritesDropped
PROPERTIES EventuallyReturns EventuallyFinal
