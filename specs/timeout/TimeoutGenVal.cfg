SPECIFICATION GSpec
CONSTANTS
  Mode = "val"
  MaxOps = 2
  HKeySet = {"a"}
  Chunks = {1}
  Codes = {201, 404}
  MaxWr = 2
  MaxWh = 1
  MaxSh = 2
  Emit = TRUE
INVARIANTS PrintHist
VIEW View
CHECK_DEADLOCK FALSE
