SPECIFICATION GSpec
CONSTANTS
  NCalls = 3
  MaxPre = 0
  MaxLate = 1
  MaxLen = 8
  Chunks = {1}
  Codes = {201}
  Ends = {"cancel", "expire"}
  Fins = {"ret"}
  Trailing = FALSE
  Emit = TRUE
INVARIANTS PrintHist
VIEW View
CHECK_DEADLOCK FALSE
