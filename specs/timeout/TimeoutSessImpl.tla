-------------------------- MODULE TimeoutSessImpl --------------------------
(* Layer I for C04 over a session: NCalls requests served by ONE timeoutHandler value
   (rest/handler/timeouthandler.go), sequentially or overlapping, composed with the
   per-call monitors of TimeoutSess.tla.  What this model adds to TimeoutHTTPImpl (which
   explores the mutex/flag protocol of a single call at statement granularity) is the
   LIFETIME of the per-request timeoutWriter across calls: the handler goroutine of a call
   that timed out keeps its writer and may use it (Header().Set / WriteHeader / Write) at
   any later moment, also while later calls are being served.

   Granularity: every timeoutWriter method and every branch of ServeHTTP's select is one
   atomic step (they are critical sections of tw.mu; their internal interleavings are
   TimeoutHTTPImpl's subject).  A call is:  Start ; pre-ops* ; ( End(cancel|expire) ;
   late-ops* ; Fin  |  Fin ) where End is "the context ends and the wrapper takes the
   timeout branch and returns" and a Fin of a live call is "the handler returns/panics and
   the wrapper takes the done/panic branch and returns".

   Variant: "fresh"      the code as it is: a new timeoutWriter per call
            "pooled"     counterexample: writers recycled through a pool, put back whenever
                         ServeHTTP returns (also on the timeout path, where the handler
                         goroutine still holds the writer), reset on Get
            "pooledsafe" writers recycled only on the done/panic paths, i.e. when the handler
                         goroutine has finished: satisfies Layer P (the specification does not
                         forbid recycling, only leaking)                                       *)
EXTENDS TimeoutSess, TLC

CONSTANTS NCalls, MaxPre, MaxLate, Chunks, Codes, Tmo, Variant

VARIABLES ms,      \* per-call monitors (Layer P)
          wrt,     \* timeoutWriter objects by id: [h, wbuf, code, timedOut, wroteHeader]
          pool,    \* ids of writers sitting in the pool
          cs,      \* per call: [st, tw, wk, pre, late, nv]
          cl,      \* per call: the real ResponseWriter [live, hdr, code, bt, n]
          finq     \* per call: final snapshot taken
vars == <<ms, wrt, pool, cs, cl, finq>>

Calls == 1..NCalls
FreshW == [h |-> {}, wbuf |-> <<>>, code |-> 200, timedOut |-> FALSE, wroteHeader |-> FALSE]
FreshC == [live |-> {}, hdr |-> {}, code |-> 0, bt |-> <<>>, n |-> 0]

Merge(dst, src) == {p \in dst : p[1] \notin HKeys(src)} \cup src
ClWriteHeader(c, code) ==
  IF c.code # 0 THEN [c EXCEPT !.n = @ + 1]
  ELSE [c EXCEPT !.code = code, !.hdr = c.live, !.n = @ + 1]
ClWrite(c, toks) ==
  LET c1 == IF c.code = 0 THEN [c EXCEPT !.code = 200, !.hdr = c.live] ELSE c
  IN [c1 EXCEPT !.bt = @ \o toks, !.n = @ + 1]
CHdr(c) == IF c.code = 0 THEN c.live ELSE c.hdr

RetEv(q, c, pan, ctxerr, s1) ==
  [e |-> "returned", q |-> q, pan |-> pan, code |-> c.code, hdr |-> CHdr(c), bt |-> c.bt, n |-> c.n,
   val |-> -1, err |-> "nil", ctxerr |-> ctxerr, s1 |-> s1]
FinEv(q, c) == [e |-> "final", q |-> q, code |-> c.code, hdr |-> CHdr(c), bt |-> c.bt, n |-> c.n]

Init ==
  /\ ms = SInit
  /\ wrt = [i \in Calls |-> FreshW]
  /\ pool = {}
  /\ cs = [q \in Calls |-> [st |-> "idle", tw |-> 0, wk |-> "run", pre |-> 0, late |-> 0, nv |-> 0]]
  /\ cl = [q \in Calls |-> FreshC]
  /\ finq = [q \in Calls |-> FALSE]

\* ServeHTTP up to `go func(){...}()`: obtain a writer; the handler sees ctx
Start(q) ==
  /\ cs[q].st = "idle" /\ (IF q = 1 THEN TRUE ELSE cs[q - 1].st # "idle")
  /\ \E id \in (IF Variant = "fresh" THEN {} ELSE pool) \cup {q} :   \* a pool may also return a new object
       /\ pool' = pool \ {id}
       /\ wrt' = [wrt EXCEPT ![id] = FreshW]                          \* &timeoutWriter{...} resp. reset()
       /\ cs' = [cs EXCEPT ![q].st = "live", ![q].tw = id]
  /\ ms' = SMon(SMon(ms, [e |-> "start", q |-> q, kind |-> "rest", tmo |-> Tmo, pdl |-> -1,
                          exempt |-> FALSE, s0 |-> 0]),
                [e |-> "ctx", q |-> q, has |-> TRUE, dl |-> Tmo, now |-> 0])
  /\ UNCHANGED <<cl, finq>>

CanOp(q) ==
  /\ cs[q].st # "idle" /\ cs[q].wk = "run"
  /\ IF cs[q].st = "live" THEN cs[q].pre < MaxPre ELSE cs[q].late < MaxLate
Count(q) == [cs EXCEPT ![q].pre = IF cs[q].st = "live" THEN @ + 1 ELSE @,
                       ![q].late = IF cs[q].st = "live" THEN @ ELSE @ + 1,
                       ![q].nv = @ + 1]

\* the handler of call q uses the writer it was given, whoever else has it by now
SetHeader(q) ==
  /\ CanOp(q)
  /\ LET v == q * Stride + cs[q].nv + 1 IN
       /\ wrt' = [wrt EXCEPT ![cs[q].tw].h = HSet(@, "a", v)]
       /\ ms' = SMon(ms, [e |-> "sh", q |-> q, k |-> "a", v |-> v])
  /\ cs' = Count(q)
  /\ UNCHANGED <<pool, cl, finq>>

WriteHeader(q) ==
  /\ CanOp(q)
  /\ \E code \in Codes :
       LET w == wrt[cs[q].tw] IN
       /\ wrt' = IF ~w.wroteHeader /\ ~w.timedOut
                 THEN [wrt EXCEPT ![cs[q].tw].wroteHeader = TRUE, ![cs[q].tw].code = code] ELSE wrt
       /\ ms' = SMon(ms, [e |-> "wh", q |-> q, code |-> code])
  /\ cs' = Count(q)
  /\ UNCHANGED <<pool, cl, finq>>

Write(q) ==
  /\ CanOp(q)
  /\ \E c \in Chunks :
       LET w == wrt[cs[q].tw]  tok == q * Stride + c IN
       /\ wrt' = IF w.timedOut THEN wrt
                 ELSE [wrt EXCEPT ![cs[q].tw].code = IF w.wroteHeader THEN @ ELSE 200,
                                  ![cs[q].tw].wroteHeader = TRUE,
                                  ![cs[q].tw].wbuf = Append(@, tok)]
       /\ ms' = SMon(ms, [e |-> "wr", q |-> q, c |-> tok, err |-> w.timedOut])
  /\ cs' = Count(q)
  /\ UNCHANGED <<pool, cl, finq>>

\* the context of call q ends (the caller goes away / the deadline passes): case <-ctx.Done()
End(q) ==
  /\ cs[q].st = "live" /\ cs[q].wk = "run"
  /\ \E how \in {"cancel", "expire"} :
       LET ms1 == IF how = "cancel" THEN SMon(ms, [e |-> "cancel", q |-> q]) ELSE ms
           c1  == ClWrite(ClWriteHeader(cl[q], IF how = "cancel" THEN 499 ELSE 503), <<0>>)
       IN /\ cl' = [cl EXCEPT ![q] = c1]
          /\ ms' = SMon(ms1, RetEv(q, c1, FALSE, IF how = "cancel" THEN "canceled" ELSE "deadline",
                                   IF how = "cancel" THEN 0 ELSE Tmo))
  /\ wrt' = [wrt EXCEPT ![cs[q].tw].timedOut = TRUE]
  /\ cs' = [cs EXCEPT ![q].st = "returned"]
  /\ pool' = IF Variant = "pooled" THEN pool \cup {cs[q].tw} ELSE pool   \* defer pool.Put(tw)
  /\ UNCHANGED finq

\* the handler of call q returns or panics; if its wrapper is still there it takes the
\* done / panic branch and returns
Fin(q) ==
  /\ cs[q].st # "idle" /\ cs[q].wk = "run"
  /\ \E how \in {"ret", "panic"} :
       LET ev  == IF how = "ret" THEN [e |-> "ret", q |-> q, val |-> -1, err |-> "nil"]
                  ELSE [e |-> "panic", q |-> q]
           ms1 == SMon(ms, ev)
           w   == wrt[cs[q].tw]
           c0  == cl[q]
           c1  == [c0 EXCEPT !.live = Merge(@, w.h)]
           c2  == IF w.code # 200 THEN ClWriteHeader(c1, w.code) ELSE c1
           c3  == ClWrite(c2, w.wbuf)
           cn  == IF how = "ret" THEN c3 ELSE c0
       IN IF cs[q].st = "live"
          THEN /\ cl' = [cl EXCEPT ![q] = cn]
               /\ ms' = SMon(ms1, RetEv(q, cn, how = "panic", "canceled", 0))
               /\ cs' = [cs EXCEPT ![q].st = "returned", ![q].wk = "fin"]
               /\ pool' = IF Variant \in {"pooled", "pooledsafe"} THEN pool \cup {cs[q].tw} ELSE pool
          ELSE /\ ms' = ms1
               /\ cs' = [cs EXCEPT ![q].wk = "fin"]
               /\ UNCHANGED <<cl, pool>>
  /\ UNCHANGED <<wrt, finq>>

\* the driver's last look at every client once everything has finished
Final(q) ==
  /\ ~finq[q] /\ \A c \in Calls : cs[c].st = "returned" /\ cs[c].wk = "fin"
  /\ ms' = SMon(ms, FinEv(q, cl[q]))
  /\ finq' = [finq EXCEPT ![q] = TRUE]
  /\ UNCHANGED <<wrt, pool, cs, cl>>

Next == \E q \in Calls : Start(q) \/ SetHeader(q) \/ WriteHeader(q) \/ Write(q) \/ End(q) \/ Fin(q) \/ Final(q)
Spec == Init /\ [][Next]_vars

\* ---- checked by TLC ----
Property    == SHolds(ms)
NoLeak      == Isolation(ms)
\* a response the wrapper has handed back never changes again, whoever is still running
Frozen      == \A q \in DOMAIN ms :
                 cs[q].st = "returned" =>
                   ms[q].snap = [code |-> cl[q].code, hdr |-> CHdr(cl[q]), bt |-> cl[q].bt, n |-> cl[q].n]
\* a writer is never used by the handlers of two calls whose wrappers are both gone or both
\* live at once unless one of them is a finished handler (what "pooledsafe" guarantees)
ExclusiveWriters ==
  \A p, q \in Calls :
     (p # q /\ cs[p].st # "idle" /\ cs[q].st # "idle" /\ cs[p].tw = cs[q].tw)
        => (cs[p].wk = "fin" \/ cs[q].wk = "fin")
=============================================================================
