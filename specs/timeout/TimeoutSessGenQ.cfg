SPECIFICATION GSpec
CONSTANTS
  NCalls = 2
  MaxPre = 1
  MaxLate = 1
  MaxLen = 6
  Chunks = {1}
  Codes = {201}
  Ends = {"cancel", "expire"}
  Fins = {"ret"}
  Trailing = FALSE
  Emit = TRUE
INVARIANTS PrintHist
VIEW View
CHECK_DEADLOCK FALSE
