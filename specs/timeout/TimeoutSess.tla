---------------------------- MODULE TimeoutSess ----------------------------
(* Layer P for property C04 over a SESSION: several calls that go through the same
   wrapper instance (the same TimeoutHandler / interceptor value), one after the other
   or overlapping, where the work of an earlier call may still be running -- and writing --
   long after its wrapper returned a timeout result.

   The property statement quantifies over every call and says "nothing the work writes after
   the timeout reaches the client": not the client of the call that timed out, and not the
   client of any other call either.  A session is therefore monitored by one Timeout.tla
   monitor per call (ms[q]); every payload the work of call q produces is owned by q
   (chunk ids and header values are q * Stride + small), so that a response which carries
   anything owned by another call is recognisable:

     Isolation     the client of call q never holds a body chunk or a header value that the
                   work of another call produced (named separately; with owned payloads it is
                   the cross-call face of AllOrNothing / NothingAfter, which keep being checked
                   per call by Mon).

   Events are the ones of Timeout.tla plus the call index `q`; "start" carries the per-call
   parameters the single-call reset event carries.                                          *)
EXTENDS Timeout

Stride == 16
Owner(x) == x \div Stride

\* something in the client-visible response of call q is owned by another call
Foreign(q, ev) ==
  \/ \E i \in DOMAIN ev.bt : ev.bt[i] # 0 /\ Owner(ev.bt[i]) # q
  \/ \E p \in ev.hdr : Owner(p[2]) # q

SInit == [q \in {} |-> MInit([kind |-> "rest", tmo |-> 0, pdl |-> -1, exempt |-> FALSE, s0 |-> 0])]

SStart(ms, ev) ==
  [c \in (DOMAIN ms) \cup {ev.q} |->
     IF c = ev.q
     THEN IF c \in DOMAIN ms THEN Fail(ms[c], "Protocol") ELSE MInit(ev)
     ELSE ms[c]]

SMon(ms, ev) ==
  IF ev.e = "start" THEN SStart(ms, ev)
  ELSE IF ev.q \notin DOMAIN ms THEN ms           \* rejected by SKnown below
  ELSE LET m0 == ms[ev.q]
           m1 == IF ev.e \in {"returned", "final"} /\ Foreign(ev.q, ev)
                 THEN Fail(m0, "Isolation") ELSE m0
       IN [ms EXCEPT ![ev.q] = Mon(m1, ev)]

SKnown(ms, ev) == ev.e = "start" \/ ev.q \in DOMAIN ms

\* ---- the property, for every call of the session ----
SHolds(ms)    == \A q \in DOMAIN ms : Holds(ms[q])
SBad(ms)      == {ms[q].bad : q \in DOMAIN ms} \ {""}
Isolation(ms) == "Isolation" \notin SBad(ms)
=============================================================================
