--------------------------- MODULE TimeoutSessGen ---------------------------
(* Session schedules for C04, enumerated by TLC: NCalls calls through one wrapper value.
   A schedule is a total order of driver steps; each step names the call it belongs to:
     start q                      the driver issues call q (calls are issued in index order)
     sh / wh / wr q               the work of call q does one operation -- before its wrapper
                                  returned (at most MaxPre) or after it (late, at most MaxLate)
     end q (cancel | expire)      the context of call q ends; the driver then waits for the
                                  wrapper of q to return (it must: ReturnsWithoutWorker)
     fin q (ret | panic)          the work of call q finishes; if its wrapper is still there the
                                  driver waits for it to return
   The same lifecycle as TimeoutSessImpl.  One schedule per distinct history (VIEW); a
   schedule is printed when every call has returned and the last step was either such a
   return or a late operation (Trailing = TRUE) -- work still running at the end is
   finished by the driver.  The drivers execute a schedule step by step, strictly in this
   order, so the multi-step histories "A times out, B is issued, A's work writes, B
   completes" are reached deterministically, without timing.                               *)
EXTENDS Integers, Sequences, FiniteSets, TLC, Json

CONSTANTS NCalls, MaxPre, MaxLate, MaxLen, Chunks, Codes, Ends, Fins, Trailing, Emit

VARIABLES hist, cs
vars == <<hist, cs>>
Calls == 1..NCalls

Step(r) == hist' = Append(hist, r)

Start(q) ==
  /\ cs[q].st = "idle" /\ (IF q = 1 THEN TRUE ELSE cs[q - 1].st # "idle")
  /\ cs' = [cs EXCEPT ![q].st = "live"]
  /\ Step([op |-> "start", q |-> q])

CanOp(q) ==
  /\ cs[q].st # "idle" /\ cs[q].wk = "run"
  /\ IF cs[q].st = "live" THEN cs[q].pre < MaxPre ELSE cs[q].late < MaxLate
Count(q) == [cs EXCEPT ![q].pre = IF cs[q].st = "live" THEN @ + 1 ELSE @,
                       ![q].late = IF cs[q].st = "live" THEN @ ELSE @ + 1]
Op(q) ==
  /\ CanOp(q) /\ cs' = Count(q)
  /\ \/ Step([op |-> "sh", q |-> q, k |-> "a", v |-> Len(hist) + 1])
     \/ \E c \in Codes : Step([op |-> "wh", q |-> q, code |-> c])
     \/ \E c \in Chunks : Step([op |-> "wr", q |-> q, c |-> c])

End(q) ==
  /\ cs[q].st = "live" /\ cs[q].wk = "run"
  /\ cs' = [cs EXCEPT ![q].st = "returned"]
  /\ \E how \in Ends : Step([op |-> "end", q |-> q, how |-> how])

Fin(q) ==
  /\ cs[q].st # "idle" /\ cs[q].wk = "run"
  /\ cs' = [cs EXCEPT ![q].st = "returned", ![q].wk = "fin"]
  /\ \E how \in Fins : Step([op |-> "fin", q |-> q, how |-> how])

GInit == hist = <<>> /\ cs = [q \in Calls |-> [st |-> "idle", wk |-> "run", pre |-> 0, late |-> 0]]
GNext == Len(hist) < MaxLen /\ \E q \in Calls : Start(q) \/ Op(q) \/ End(q) \/ Fin(q)
GSpec == GInit /\ [][GNext]_vars

AllReturned == \A q \in Calls : cs[q].st = "returned"
LastOK == LET r == hist[Len(hist)] IN
            \/ r.op \in {"end", "fin"}
            \/ Trailing /\ r.op \in {"sh", "wh", "wr"}
View == hist
PrintHist == (Emit /\ AllReturned /\ LastOK) => PrintT("TRACE " \o ToJson(hist))
=============================================================================
