SPECIFICATION Spec
CONSTANTS
  NCalls = 3
  MaxPre = 0
  MaxLate = 2
  Chunks = {1}
  Codes = {201}
  Tmo = 5
  Variant = "fresh"
INVARIANTS Property NoLeak Frozen ExclusiveWriters
CHECK_DEADLOCK FALSE
