SPECIFICATION TSpec
CONSTRAINT HW
INVARIANTS Property
POSTCONDITION Accepted
CHECK_DEADLOCK FALSE
