SPECIFICATION Spec
CONSTANTS
  KindSet = {"rpcs"}
  Tmos = {5, 100}
  Pdls = {0, 3, 5, 8, 100}
  MaxClock = 10
  Variant = "inlinetight"
INVARIANTS Property
CHECK_DEADLOCK FALSE
