---------------------------- MODULE TimeoutTrace ----------------------------
(* Trace validation for C04: the events recorded from the real wrappers
   (rest/handler.TimeoutHandler, rest engine routes, zrpc server/client timeout
   interceptors, fx.DoWithTimeout) are fed to the Layer-P monitor of Timeout.tla.
   One T-action per event kind; an event after which a clause of the property is broken
   (m.bad # "") is not accepted.
   reset events come in two shapes: {tmo, exempt} (the driver drives one wrapper value whose
   timeout it passed itself) or, from the wiring drivers, the call's SETTINGS {glob, ov, mw} and
   what the REQUEST offers {up, upx, acc, accx, conn}; either part may be given the old way. *)
EXTENDS Timeout, TraceKit

VARIABLES m, l
tvars == <<m, l>>

E == Trace[l]
IsEvent(e) == l <= Len(Trace) /\ E.e = e /\ l' = l + 1
\* committed test headers arrive as a JSON array of [key, value] pairs
Ev == IF E.e \in {"returned", "final"} THEN [E EXCEPT !.hdr = SeqToSet(E.hdr)] ELSE E

\* the call's settings and request are in the reset event; which timeout applies and whether the
\* request is exempt is decided by Layer P (TmoChoices / ExemptChoices of Timeout.tla: one choice
\* where the statement decides, two where it leaves the wrapper free -- the trace is accepted if
\* what the real code did fits one of them)
TReset     == /\ IsEvent("reset")
              /\ \E t \in TmoChoices(E), x \in ExemptChoices(E) : m' = MInitX(E, t, x)
TCtx       == IsEvent("ctx")      /\ m' = OnCtx(m, E)
TSetHeader == IsEvent("sh")       /\ m' = OnSetHeader(m, E)
TWriteHdr  == IsEvent("wh")       /\ m' = OnWriteHeader(m, E)
TWrite     == IsEvent("wr")       /\ m' = OnWrite(m, E)
TCancel    == IsEvent("cancel")   /\ m' = OnCancel(m, E)
TAwait     == IsEvent("await")    /\ m' = OnAwait(m, E)
TRet       == IsEvent("ret")      /\ m' = OnRet(m, E)
TPanic     == IsEvent("panic")    /\ m' = OnPanic(m, E)
TIgnore    == IsEvent("ignore")   /\ m' = OnIgnore(m, E)
TReturned  == IsEvent("returned") /\ m' = OnReturned(m, Ev)
TFinal     == IsEvent("final")    /\ m' = OnFinal(m, Ev)
TStuck     == IsEvent("stuck")    /\ m' = OnStuck(m, E)

NoCall == [kind |-> "rest", tmo |-> 0, pdl |-> -1, exempt |-> FALSE, s0 |-> 0]
TInit == m = MInit(NoCall) /\ l = 1
\* an event that breaks a clause is not accepted: the cursor stops at it and the clause is named
Check == Holds(m') \/ Print(<<"C04 clause violated", m'.bad>>, FALSE)
TNext == /\ \/ TReset \/ TCtx \/ TSetHeader \/ TWriteHdr \/ TWrite \/ TCancel \/ TAwait
            \/ TRet \/ TPanic \/ TIgnore \/ TReturned \/ TFinal \/ TStuck
         /\ Check
TSpec == TInit /\ [][TNext]_tvars

Property == Holds(m)
HW == HighWater(l)
=============================================================================
