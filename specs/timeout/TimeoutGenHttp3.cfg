SPECIFICATION GSpec
CONSTANTS
  Mode = "http"
  MaxOps = 3
  HKeySet = {"a"}
  Chunks = {1, 2}
  Codes = {201, 404}
  MaxWr = 2
  MaxWh = 1
  MaxSh = 2
  Emit = TRUE
INVARIANTS PrintHist
VIEW View
CHECK_DEADLOCK FALSE
