SPECIFICATION Spec
CONSTANTS
  MaxOps = 4
  Chunks = {1, 2}
  Codes = {201, 404}
  HVals = {1, 2}
  Tmo = 5
  Variant = "ok"
INVARIANTS Property TypeOK LateWritesDropped
PROPERTIES EventuallyReturns EventuallyFinal
