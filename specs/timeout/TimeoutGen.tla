----------------------------- MODULE TimeoutGen -----------------------------
(* Worker scripts for C04, enumerated by TLC: every sequence of at most MaxOps
   operations of the worker alphabet followed by a terminal operation.  One script
   per distinct state (VIEW = the script itself); the Go drivers run each script as
   the wrapped handler / rpc handler / fx function under several timeout / caller
   deadline / cancellation configurations.  The alphabet is the one TimeoutHTTPImpl
   explores; "await" (wait for the context, then go on at once) places the rest of the
   script at the moment of expiry.
   Mode = "http": SetHeader, WriteHeader, Write, Cancel, AwaitCtx ; Return | Panic | Ignore
   Mode = "val" : Cancel, AwaitCtx ; Return(resp, err) | Panic | Ignore                   *)
EXTENDS Integers, Sequences, FiniteSets, TLC, Json

CONSTANTS Mode, MaxOps, HKeySet, Chunks, Codes, MaxWr, MaxWh, MaxSh, Emit

VARIABLES hist, fin
vars == <<hist, fin>>

Count(op) == Cardinality({i \in DOMAIN hist : hist[i].op = op})

Step(r) == hist' = Append(hist, r) /\ fin' = FALSE
Term(r) == hist' = Append(hist, r) /\ fin' = TRUE

SetHeader   == Mode = "http" /\ Count("sh") < MaxSh /\ \E k \in HKeySet : Step([op |-> "sh", k |-> k, v |-> Len(hist) + 1])
WriteHeader == Mode = "http" /\ Count("wh") < MaxWh /\ \E c \in Codes : Step([op |-> "wh", code |-> c])
Write       == Mode = "http" /\ Count("wr") < MaxWr /\ \E c \in Chunks : Step([op |-> "wr", c |-> c])
AwaitCtx    == Count("await") < 1 /\ Step([op |-> "await"])
Cancel      == Count("cancel") < 1 /\ Step([op |-> "cancel"])
Return      == IF Mode = "http" THEN Term([op |-> "ret", val |-> -1, err |-> "nil"])
               ELSE \E r \in {<<5, "nil">>, <<-1, "w7">>, <<5, "w7">>} : Term([op |-> "ret", val |-> r[1], err |-> r[2]])
Panic       == Term([op |-> "panic"])
Ignore      == Term([op |-> "ignore"])

GInit == hist = <<>> /\ fin = FALSE
GNext == /\ ~fin
         /\ \/ Len(hist) < MaxOps /\ (SetHeader \/ WriteHeader \/ Write \/ AwaitCtx \/ Cancel)
            \/ Return \/ Panic \/ Ignore
GSpec == GInit /\ [][GNext]_vars

View == hist
PrintHist == (Emit /\ fin) => PrintT("TRACE " \o ToJson(hist))
=============================================================================
