------------------------------ MODULE PETrace ------------------------------
(* Trace validation for C11: events recorded from real PeriodicalExecutor /
   BulkExecutor / ChunkExecutor objects (and sqlx.BulkInserter) must be a
   behaviour of PE.tla.  One action per event kind = Layer-P guard /\ effect.
   Events of producer calls are logged before the call (…Start) and after it
   returned (…End); callback events inside the callback; `take` by the container
   wrapper while pe.lock is held.                                              *)
EXTENDS PE, TraceKit

VARIABLE l
tvars == <<pvars, l>>

E == Trace[l]
IsEvent(e) == l <= Len(Trace) /\ E.e = e /\ l' = l + 1
S(x) == SeqToSet(x)

TReset      == IsEvent("reset")      /\ PReset
TAddStart   == IsEvent("addStart")   /\ AddStartOK(E.p, E.t) /\ AddStartEff(E.p, E.t)
TAddEnd     == IsEvent("addEnd")     /\ AddEndOK(E.p, E.t)   /\ AddEndEff(E.p, E.t)
TFlushStart == IsEvent("flushStart") /\ PSkip
TFlushEnd   == IsEvent("flushEnd")   /\ PSkip
TWaitStart  == IsEvent("waitStart")  /\ WaitStartOK(E.p)     /\ WaitStartEff(E.p)
TWaitEnd    == IsEvent("waitEnd")    /\ WaitEndOK(E.p)       /\ WaitEndEff(E.p)
TExecStart  == IsEvent("execStart")  /\ ExecStartOK(E.b, S(E.ts)) /\ ExecStartEff(E.b, S(E.ts))
TExecEnd    == IsEvent("execEnd")    /\ ExecEndOK(E.b)       /\ ExecEndEff(E.b)
TTake       == IsEvent("take")       /\ TakeEff(S(E.ts), E.thr)
TInfo       == IsEvent("info")       /\ PSkip
\* quiescence: the driver saw every call return (pending = none) and its final Wait return
TEnd        == IsEvent("end")        /\ E.pending = <<>> /\ QuiescentOK /\ PSkip

\* known finding (genuine defect, see PE.tla WaitEndKF): only tried by the runner on a rejected trace
KF_WaitMissesHandover ==
  /\ "KF_WaitMissesHandover" \in OpenFindings
  /\ IsEvent("waitEnd") /\ WaitEndKF(E.p) /\ WaitEndEff(E.p)

\* there is deliberately no action for "callPanic" (an API call that panicked): such a trace is rejected

TInit == PInit /\ l = 1
TNext == \/ TReset \/ TAddStart \/ TAddEnd \/ TFlushStart \/ TFlushEnd \/ TWaitStart \/ TWaitEnd
         \/ TExecStart \/ TExecEnd \/ TTake \/ TInfo \/ TEnd \/ KF_WaitMissesHandover
TSpec == TInit /\ [][TNext]_tvars

HW == HighWater(l)
=============================================================================
