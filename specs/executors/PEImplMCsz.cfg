SPECIFICATION ISpec
CONSTANTS
  NP = 2
  Gens = 2
  Thr = 2
  NT = 2
  MaxFlush = 0
  MaxWait = 1
  MaxTick = 1
  MaxAdv = 1
  MaxPanic = 0
  Fix = "inflight"
  Routed = FALSE
  Hook = FALSE
  Steer = FALSE
  Emit = FALSE
  Sizes = {0, 1}
  Targets = {}
  Canon = FALSE
INVARIANTS PTypeOK AtMostOnce WaitCovers ExactlyOnceAtQuiescence AddOK Counters NoStranded InflightGuard InflightMeaning Conservation NoStuck
VIEW View
CHECK_DEADLOCK FALSE
