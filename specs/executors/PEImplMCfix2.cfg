SPECIFICATION ISpec
CONSTANTS
  NP = 3
  Gens = 1
  Thr = 1
  NT = 3
  MaxFlush = 0
  MaxWait = 1
  MaxTick = 0
  MaxAdv = 0
  MaxPanic = 0
  Fix = "inflight"
  Routed = FALSE
  Hook = FALSE
  Steer = FALSE
  Emit = FALSE
  Sizes = {1}
  Targets = {}
  Canon = FALSE
INVARIANTS PTypeOK AtMostOnce WaitCovers ExactlyOnceAtQuiescence AddOK Counters NoStranded InflightGuard InflightMeaning Conservation NoStuck
VIEW View
CHECK_DEADLOCK FALSE
