SPECIFICATION ISpec
CONSTANTS
  NP = 2
  Gens = 2
  Thr = 2
  NT = 2
  MaxFlush = 1
  MaxWait = 1
  MaxTick = 1
  MaxAdv = 1
  MaxPanic = 0
  Fix = "inflight"
  Routed = FALSE
  Hook = FALSE
  Steer = TRUE
  Emit = TRUE
  Sizes = {0, 2}
  Targets = {"zeroOnly"}
  Canon = TRUE
INVARIANTS PrintHits
VIEW View
CHECK_DEADLOCK FALSE
