SPECIFICATION ISpec
CONSTANTS
  NP = 2
  Gens = 1
  Thr = 1
  NT = 2
  MaxFlush = 0
  MaxWait = 1
  MaxTick = 0
  MaxAdv = 0
  MaxPanic = 0
  Fix = "none"
  Routed = FALSE
  Hook = TRUE
  Steer = TRUE
  Emit = TRUE
  Sizes = {1}
  Targets = {}
  Canon = FALSE
INVARIANTS PrintBad
VIEW View
CHECK_DEADLOCK FALSE
