SPECIFICATION ISpec
CONSTANTS
  NP = 3
  Gens = 2
  Thr = 2
  NT = 3
  MaxFlush = 1
  MaxWait = 1
  MaxTick = 1
  MaxAdv = 1
  MaxPanic = 0
  Fix = "inflight"
  Routed = FALSE
  Hook = FALSE
  Steer = TRUE
  Emit = TRUE
  Sizes = {1}
  Targets = {"quitRefused", "addWhileOut", "enterBlocked", "tickSkipped", "quitFlush", "waitSpin"}
  Canon = TRUE
INVARIANTS PrintHits
VIEW View
CHECK_DEADLOCK FALSE
