SPECIFICATION ISpec
CONSTANTS
  NP = 2
  Gens = 1
  Thr = 1
  NT = 3
  MaxFlush = 0
  MaxWait = 1
  MaxTick = 1
  MaxAdv = 0
  MaxPanic = 0
  Fix = "none"
  Routed = FALSE
  Hook = TRUE
  Steer = TRUE
  Emit = TRUE
  Sizes = {1}
  Targets = {}
  Canon = FALSE
INVARIANTS PrintFinal
VIEW View
CHECK_DEADLOCK FALSE
