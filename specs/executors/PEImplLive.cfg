SPECIFICATION FairSpec
CONSTANTS
  NP = 2
  Gens = 2
  Thr = 2
  NT = 2
  MaxFlush = 0
  MaxWait = 1
  MaxTick = 1
  MaxAdv = 1
  MaxPanic = 0
  Fix = "inflight"
  Routed = FALSE
  Hook = FALSE
  Steer = FALSE
  Emit = FALSE
  Sizes = {1}
  Targets = {}
  Canon = FALSE
PROPERTIES CallsReturn
CHECK_DEADLOCK FALSE
