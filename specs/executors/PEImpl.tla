------------------------------- MODULE PEImpl -------------------------------
(* Layer I: the hand-off protocol of core/executors/periodicalexecutor.go, one
   action per critical section / channel operation, running on top of the
   Layer-P bookkeeping of PE.tla.  TLC checks that every observable event the
   implementation produces satisfies the Layer-P guard of that event (AtMostOnce,
   WaitCovers, ExactlyOnceAtQuiescence), that nobody gets stuck, that tasks are
   never stranded without a flusher, and (fair) that every call returns.

   Processes: producers 1..NP (each performs Add / Flush / Wait calls one after the
   other) and flusher generations NP+1..NP+Gens (backgroundFlush goroutines; a new
   one is spawned by the first Add after the previous one decided to quit, so two
   can be alive at once: the old one in its deferred final Flush).

   Go objects: pe.lock is only ever held across non-blocking code, so each locked
   section is one atomic action (ALock = addAndCheck, FlTake = RemoveAll in Flush,
   FT2 = shallQuit).  wgBarrier IS held across a blocking wg.Wait(), so it is a
   variable.  commander = 1-slot buffer `cmd`, confirmChan = rendezvous (FC3 moves
   SOME producer waiting at a_conf: the channel is shared), ticker = 1-slot buffer
   per generation, idle detection = virtual clock `now` against `last`.

   Variants (constants):
     Fix    "none"      the code as it is: commander branch does inflight--, then enterExecution
            "inflight"  candidate repair: enterExecution BEFORE inflight--, and Wait() waits for
                        inflight = 0 between its Flush and the barrier-guarded wg.Wait
     Routed TRUE = hypothetical per-producer confirmation (isolates defect 1 from defect 2)
     Hook   TRUE = gate point "pe.add.sent" between `commander <- vals` and `<-confirmChan`
     Steer  FALSE = model checking: every interleaving.
            TRUE  = schedule generation for the Go driver: environment steps (start a call, release
                    a gated callback / hook gate, tick, advance the clock) happen only when no internal
                    step is enabled ("run to quiescence"), which is what the driver can realise; `hist`
                    records the environment steps.
     Sizes  the sizes a task may be added with.  The container's threshold is on the ACCUMULATED size
            (chunkContainer: size += ck.size; size >= maxChunkSize); {1} makes it the count threshold of
            bulkContainer / sqlx.dbInserter.  ChunkExecutor.Add(task, size) accepts any int, so 0 (a task
            that never moves the size) and negative sizes (sizes that cancel out) are legal inputs: such
            tasks can only leave by tick / Flush / Wait / quit, and "is there anything to execute" must be
            a question about the tasks (cont # {}), never about the size.
     Targets / Canon   schedule generation through named protocol situations, see Sit below.          *)
(* Measured (TLC 1.8.0, distinct states):
     PEImplBug1   Fix=none, Routed, Thr=2        WaitCovers violated after ~500 states (11-step trace)
     PEImplBug2   Fix=none, Thr=1                WaitCovers violated after ~1 800 states (20-step trace)
     PEImplMCkf   Fix=none, 2 prod, Thr=2, NT=2, 1 Wait, 1 tick, 1 idle period, 2 generations:  28 494, all
                  invariants with WaitCoversOrKF (every violation is the known-finding situation)
     PEImplMCfix  Fix=inflight, same bounds:      31 420, all invariants incl. WaitCovers
     PEImplLive   Fix=inflight, FairSpec:         31 420, CallsReturn (Wait/Add/Flush terminate)
     PEImplMCfix2 3 producers, Thr=1, NT=3:      287 809
     PEImplMCfixL 2 prod, Thr=2, NT=3, Flush, Wait, 2 ticks, quit/restart:  2 380 964
     (2 prod, NT=3, Flush, 2 Waits, 2 ticks: 11 262 184, 7 min - not part of a tier)
     steering mode: PEImplGenQ 16 682 states / 264 final schedules, PEImplGenA 246 460 / 2 304,
     PEImplGenB 28 562 / 192, PEImplGenH (hook gate) 7 687 / 24, PEImplGenBad1 54 and PEImplGenBad2 28
     schedules ending in an uncovered Wait.
     sizes:       PEImplMCsz  Fix=inflight, Sizes={0,1}, bounds of MCfix:  92 852 (superset of MCfix's behaviours)
                  PEImplMCszN Sizes={-1,0,1,2}: 443 710   (Sizes={0,1,2} + explicit Flush: 1 288 724, not in a tier)
     situations (steering, Fix=inflight, Canon):
                  PEImplGenZ  zeroOnly, Sizes={0,2}, 2 tasks:        39 518 states / 484 schedules
                  PEImplGenZL zeroOnly, Sizes={-1,0,1,2}:           164 342 / 2 312
                  PEImplGenR  quitRefused, 3 producers, Sizes={1,2}, 2 tasks:  10 315 / 3  (76 801 without
                              the CONSTRAINT GoalDirected, same 3 schedules)
                  PEImplGenO  addWhileOut, threshold 1, 3 tasks, no ticks:      3 909 / 6
                  PEImplGenP  all situations, 3 producers, 3 tasks, Sizes={1}: 133 098 / 1 152          *)
EXTENDS PE, Json

CONSTANTS NP, Gens, Thr, NT, MaxFlush, MaxWait, MaxTick, MaxAdv, MaxPanic,
          Fix, Routed, Hook, Steer, Emit,
          Sizes,      \* sizes a task may be added with: {1} = count threshold (Bulk, user containers);
                      \* ChunkExecutor.Add(task, size) takes any int, 0 and negative included
          Targets,    \* names of the protocol situations (see Sit) whose schedules are wanted; {} = none
          Canon       \* TRUE = producers are interchangeable: a producer that has not called yet may
                      \* only start when all lower-numbered ones have (generation only)

VARIABLES
  cont,       \* container: set of tasks                      (guarded by pe.lock)
  guarded,    \* pe.guarded
  inflight,   \* pe.inflight
  wg,         \* pe.waitGroup counter
  barrier,    \* 0 or the producer holding pe.wgBarrier across wg.Wait()
  cmd,        \* pe.commander: sequence (length <= 1) of [ts, by]
  pc, ret,    \* per process: label, continuation label of the Flush/executeTasks "subroutine"
  batch,      \* per process: local `vals` / `tasks`
  ok,         \* per process: result of executeTasks (hasTasks)
  commanded,  \* per flusher
  last,       \* per flusher
  tickq,      \* per flusher: ticker channel content 0..1
  arg,        \* per producer: task being added
  sz,         \* per task: the size it was added with (0 until added)
  hits,       \* the situations of Targets this behaviour has passed through
  gen,        \* flusher generations spawned so far
  now,        \* virtual clock in units of "more than idleRound intervals"
  cnt,        \* environment budget counters
  hist        \* environment steps so far (generation only; hidden by the VIEW)

ivars == <<cont, guarded, inflight, wg, barrier, cmd, pc, ret, batch, ok, commanded, last, tickq, arg, sz, gen, now, cnt>>
vars == <<ivars, pvars, hits, hist>>

Prod == 1..NP
Fl == (NP + 1)..(NP + Gens)
All == 1..(NP + Gens)
NoBatch == [ts |-> {}, by |-> 0]

Upd(f, x, v) == [f EXCEPT ![x] = v]
Log(r) == hist' = IF Emit THEN Append(hist, r) ELSE hist
Bump(c) == cnt' = [cnt EXCEPT ![c] = @ + 1]
\* symmetry breaking between producers (Canon): cnt.used = highest producer that has made a call
Fresh(p) == Canon => p <= cnt.used + 1
Use(p) == IF Canon /\ p > cnt.used THEN p ELSE cnt.used
BumpBy(c, p) == cnt' = [cnt EXCEPT ![c] = @ + 1, !.used = Use(p)]

\* size sets with negative members (a cfg file cannot write -1): used as `Sizes <- SzNeg`
SzNeg == {-1, 1, 2}
SzAll == {-1, 0, 1, 2}

\* accumulated size of a set of tasks (chunkContainer.size; with Sizes = {1} the number of tasks)
RECURSIVE SumSz(_)
SumSz(S) == IF S = {} THEN 0 ELSE LET x == CHOOSE y \in S : TRUE IN sz[x] + SumSz(S \ {x})

IInit ==
  /\ PInit
  /\ cont = {} /\ guarded = FALSE /\ inflight = 0 /\ wg = 0 /\ barrier = 0 /\ cmd = <<>>
  /\ pc = [s \in All |-> IF s \in Prod THEN "idle" ELSE "f_none"]
  /\ ret = [s \in All |-> "idle"]
  /\ batch = [s \in All |-> NoBatch]
  /\ ok = [s \in All |-> FALSE]
  /\ commanded = [f \in Fl |-> FALSE]
  /\ last = [f \in Fl |-> 0]
  /\ tickq = [f \in Fl |-> 0]
  /\ arg = [p \in Prod |-> 0]
  /\ sz = [t \in 1..NT |-> 0]
  /\ hits = {}
  /\ gen = 0 /\ now = 0
  /\ cnt = [t |-> 0, flush |-> 0, wait |-> 0, tick |-> 0, adv |-> 0, panic |-> 0, used |-> 0]
  /\ hist = <<>>

-----------------------------------------------------------------------------
(* environment steps: calls start *)

StartAdd(p) ==
  /\ pc[p] = "idle" /\ cnt.t < NT /\ Fresh(p)
  /\ LET t == cnt.t + 1 IN
       /\ AddStartEff(p, t)
       /\ arg' = Upd(arg, p, t)
       /\ \E z \in Sizes :
            /\ sz' = Upd(sz, t, z)
            /\ Log([op |-> "add", p |-> p, t |-> t, z |-> z])
  /\ pc' = Upd(pc, p, "a_lock")
  /\ cnt' = [cnt EXCEPT !.t = @ + 1, !.used = Use(p)]
  /\ UNCHANGED <<cont, guarded, inflight, wg, barrier, cmd, ret, batch, ok, commanded, last, tickq, gen, now>>

StartFlush(p) ==
  /\ pc[p] = "idle" /\ cnt.flush < MaxFlush /\ Fresh(p)
  /\ pc' = Upd(pc, p, "fl_enter") /\ ret' = Upd(ret, p, "idle")
  /\ BumpBy("flush", p) /\ Log([op |-> "flush", p |-> p]) /\ PSkip
  /\ UNCHANGED <<cont, guarded, inflight, wg, barrier, cmd, batch, ok, commanded, last, tickq, arg, sz, gen, now>>

StartWait(p) ==
  /\ pc[p] = "idle" /\ cnt.wait < MaxWait /\ Fresh(p)
  /\ WaitStartEff(p)
  /\ pc' = Upd(pc, p, "fl_enter")
  /\ ret' = Upd(ret, p, IF Fix = "inflight" THEN "w_spin" ELSE "w_bar")
  /\ BumpBy("wait", p) /\ Log([op |-> "wait", p |-> p])
  /\ UNCHANGED <<cont, guarded, inflight, wg, barrier, cmd, batch, ok, commanded, last, tickq, arg, sz, gen, now>>

-----------------------------------------------------------------------------
(* Add *)

\* addAndCheck, entirely under pe.lock; the deferred backgroundFlush() is folded in (the new
\* goroutine starts at f_init at an arbitrary later time, which covers the later spawn)
ALock(p) ==
  /\ pc[p] = "a_lock"
  /\ LET c2 == cont \cup {arg[p]}
         full == SumSz(c2) >= Thr       \* AddTask's verdict: accumulated size (count when Sizes = {1})
         spawn == ~guarded
         f == NP + gen + 1
     IN /\ spawn => gen < Gens
        /\ guarded' = TRUE
        /\ gen' = IF spawn THEN gen + 1 ELSE gen
        /\ IF full
             THEN /\ inflight' = inflight + 1
                  /\ batch' = Upd(batch, p, [ts |-> c2, by |-> p])
                  /\ cont' = {}
                  /\ TakeEff(c2, TRUE)
             ELSE /\ cont' = c2
                  /\ UNCHANGED <<inflight, batch>>
                  /\ PSkip
        /\ pc' = [s \in All |-> IF s = p THEN (IF full THEN "a_send" ELSE "a_ret")
                                ELSE IF spawn /\ s = f THEN "f_init" ELSE pc[s]]
  /\ UNCHANGED <<wg, barrier, cmd, ret, ok, commanded, last, tickq, arg, sz, now, cnt, hist>>

\* pe.commander <- vals   (buffer of one)
ASend(p) ==
  /\ pc[p] = "a_send" /\ cmd = <<>>
  /\ cmd' = <<batch[p]>>
  /\ batch' = Upd(batch, p, NoBatch)
  /\ pc' = Upd(pc, p, IF Hook THEN "a_hook" ELSE "a_conf")
  /\ PSkip
  /\ UNCHANGED <<cont, guarded, inflight, wg, barrier, ret, ok, commanded, last, tickq, arg, sz, gen, now, cnt, hist>>

\* the gate point between the send and `<-pe.confirmChan` (environment step when steering)
AHook(p) ==
  /\ pc[p] = "a_hook"
  /\ pc' = Upd(pc, p, "a_conf")
  /\ Log([op |-> "hook", p |-> p]) /\ PSkip
  /\ UNCHANGED <<cont, guarded, inflight, wg, barrier, cmd, ret, batch, ok, commanded, last, tickq, arg, sz, gen, now, cnt>>

\* Add returns
ARet(p) ==
  /\ pc[p] = "a_ret"
  /\ AddEndEff(p, arg[p])
  /\ pc' = Upd(pc, p, "idle")
  /\ UNCHANGED <<cont, guarded, inflight, wg, barrier, cmd, ret, batch, ok, commanded, last, tickq, arg, sz, gen, now, cnt, hist>>

-----------------------------------------------------------------------------
(* Flush = enterExecution; RemoveAll under the lock; executeTasks  (any process) *)

FlEnter(s) ==
  /\ pc[s] = "fl_enter" /\ barrier = 0
  /\ wg' = wg + 1
  /\ pc' = Upd(pc, s, "fl_take")
  /\ PSkip
  /\ UNCHANGED <<cont, guarded, inflight, barrier, cmd, ret, batch, ok, commanded, last, tickq, arg, sz, gen, now, cnt, hist>>

FlTake(s) ==
  /\ pc[s] = "fl_take"
  /\ IF cont = {}
       THEN /\ wg' = wg - 1                      \* executeTasks: no tasks, deferred doneExecution
            /\ ok' = Upd(ok, s, FALSE)
            /\ pc' = Upd(pc, s, ret[s])
            /\ UNCHANGED <<cont, batch>> /\ PSkip
       ELSE /\ batch' = Upd(batch, s, [ts |-> cont, by |-> 0])
            /\ cont' = {}
            /\ ok' = Upd(ok, s, TRUE)
            /\ pc' = Upd(pc, s, "ex_start")
            /\ TakeEff(cont, FALSE)
            /\ UNCHANGED wg
  /\ UNCHANGED <<guarded, inflight, barrier, cmd, ret, commanded, last, tickq, arg, sz, gen, now, cnt, hist>>

\* container.Execute(tasks) is entered: observable execStart
ExStart(s) ==
  /\ pc[s] = "ex_start"
  /\ ExecStartEff(s, batch[s].ts)
  /\ pc' = Upd(pc, s, "ex_run")
  /\ UNCHANGED <<cont, guarded, inflight, wg, barrier, cmd, ret, batch, ok, commanded, last, tickq, arg, sz, gen, now, cnt, hist>>

\* the callback returns or panics (RunSafe recovers), then the deferred doneExecution
\* (environment step when steering: the driver's gate)
ExRun(s) ==
  /\ pc[s] = "ex_run"
  /\ \E pn \in {FALSE} \cup (IF cnt.panic < MaxPanic THEN {TRUE} ELSE {}) :
       /\ cnt' = IF pn THEN [cnt EXCEPT !.panic = @ + 1] ELSE cnt
       /\ Log([op |-> "rel", ts |-> batch[s].ts, panic |-> pn])
  /\ ExecEndEff(s)
  /\ wg' = wg - 1
  /\ batch' = Upd(batch, s, NoBatch)
  /\ pc' = Upd(pc, s, ret[s])
  /\ UNCHANGED <<cont, guarded, inflight, barrier, cmd, ret, ok, commanded, last, tickq, arg, sz, gen, now>>

-----------------------------------------------------------------------------
(* Wait = Flush; [repair: until inflight = 0]; wgBarrier.Guard(waitGroup.Wait) *)

WSpin(p) ==
  /\ pc[p] = "w_spin" /\ inflight = 0
  /\ pc' = Upd(pc, p, "w_bar") /\ PSkip
  /\ UNCHANGED <<cont, guarded, inflight, wg, barrier, cmd, ret, batch, ok, commanded, last, tickq, arg, sz, gen, now, cnt, hist>>

WBar(p) ==
  /\ pc[p] = "w_bar" /\ barrier = 0
  /\ barrier' = p
  /\ pc' = Upd(pc, p, "w_wg") /\ PSkip
  /\ UNCHANGED <<cont, guarded, inflight, wg, cmd, ret, batch, ok, commanded, last, tickq, arg, sz, gen, now, cnt, hist>>

WWg(p) ==
  /\ pc[p] = "w_wg" /\ wg = 0
  /\ barrier' = 0
  /\ pc' = Upd(pc, p, "w_ret") /\ PSkip
  /\ UNCHANGED <<cont, guarded, inflight, wg, cmd, ret, batch, ok, commanded, last, tickq, arg, sz, gen, now, cnt, hist>>

\* Wait returns: observable waitEnd
WRet(p) ==
  /\ pc[p] = "w_ret"
  /\ WaitEndEff(p)
  /\ pc' = Upd(pc, p, "idle")
  /\ UNCHANGED <<cont, guarded, inflight, wg, barrier, cmd, ret, batch, ok, commanded, last, tickq, arg, sz, gen, now, cnt, hist>>

-----------------------------------------------------------------------------
(* backgroundFlush goroutine *)

FInit(f) ==
  /\ pc[f] = "f_init"
  /\ last' = Upd(last, f, now)
  /\ pc' = Upd(pc, f, "f_loop") /\ PSkip
  /\ UNCHANGED <<cont, guarded, inflight, wg, barrier, cmd, ret, batch, ok, commanded, tickq, arg, sz, gen, now, cnt, hist>>

\* case vals := <-pe.commander: commanded = true
FRecv(f) ==
  /\ pc[f] = "f_loop" /\ cmd # <<>>
  /\ batch' = Upd(batch, f, cmd[1])
  /\ cmd' = <<>>
  /\ commanded' = Upd(commanded, f, TRUE)
  /\ pc' = Upd(pc, f, "f_c1") /\ PSkip
  /\ UNCHANGED <<cont, guarded, inflight, wg, barrier, ret, ok, last, tickq, arg, sz, gen, now, cnt, hist>>

Dec == inflight' = inflight - 1 /\ UNCHANGED wg
Enter == barrier = 0 /\ wg' = wg + 1 /\ UNCHANGED inflight

FC1(f) ==
  /\ pc[f] = "f_c1"
  /\ IF Fix = "inflight" THEN Enter ELSE Dec
  /\ pc' = Upd(pc, f, "f_c2") /\ PSkip
  /\ UNCHANGED <<cont, guarded, barrier, cmd, ret, batch, ok, commanded, last, tickq, arg, sz, gen, now, cnt, hist>>

FC2(f) ==
  /\ pc[f] = "f_c2"
  /\ IF Fix = "inflight" THEN Dec ELSE Enter
  /\ pc' = Upd(pc, f, "f_c3") /\ PSkip
  /\ UNCHANGED <<cont, guarded, barrier, cmd, ret, batch, ok, commanded, last, tickq, arg, sz, gen, now, cnt, hist>>

\* pe.confirmChan <- Placeholder: rendezvous with SOME producer blocked in <-pe.confirmChan
FC3(f) ==
  /\ pc[f] = "f_c3"
  /\ \E q \in Prod :
       /\ pc[q] = "a_conf"
       /\ Routed => q = batch[f].by
       /\ pc' = [pc EXCEPT ![q] = "a_ret", ![f] = "ex_start"]
  /\ ret' = Upd(ret, f, "f_c4")
  /\ ok' = Upd(ok, f, TRUE)
  /\ PSkip
  /\ UNCHANGED <<cont, guarded, inflight, wg, barrier, cmd, batch, commanded, last, tickq, arg, sz, gen, now, cnt, hist>>

FC4(f) ==
  /\ pc[f] = "f_c4"
  /\ last' = Upd(last, f, now)
  /\ pc' = Upd(pc, f, "f_loop") /\ PSkip
  /\ UNCHANGED <<cont, guarded, inflight, wg, barrier, cmd, ret, batch, ok, commanded, tickq, arg, sz, gen, now, cnt, hist>>

\* case <-ticker.Chan()
FTick(f) ==
  /\ pc[f] = "f_loop" /\ tickq[f] = 1
  /\ tickq' = Upd(tickq, f, 0)
  /\ IF commanded[f]
       THEN commanded' = Upd(commanded, f, FALSE) /\ UNCHANGED <<pc, ret>>
       ELSE pc' = Upd(pc, f, "fl_enter") /\ ret' = Upd(ret, f, "f_t2") /\ UNCHANGED commanded
  /\ PSkip
  /\ UNCHANGED <<cont, guarded, inflight, wg, barrier, cmd, batch, ok, last, arg, sz, gen, now, cnt, hist>>

\* after the tick's Flush: flushed something -> last = now; else shallQuit(last): idle long enough and,
\* under the lock, inflight = 0 -> guarded = false, return (deferred: ticker.Stop(), final Flush)
\* (the last generation the model has never quits: bound)
FT2(f) ==
  /\ pc[f] = "f_t2"
  /\ IF ok[f]
       THEN /\ last' = Upd(last, f, now) /\ pc' = Upd(pc, f, "f_loop")
            /\ UNCHANGED <<guarded, tickq, ret>>
       ELSE IF now > last[f] /\ inflight = 0 /\ f < NP + Gens
         THEN /\ guarded' = FALSE
              /\ tickq' = Upd(tickq, f, 0)
              /\ pc' = Upd(pc, f, "fl_enter") /\ ret' = Upd(ret, f, "f_dead")
              /\ UNCHANGED last
         ELSE /\ pc' = Upd(pc, f, "f_loop")
              /\ UNCHANGED <<guarded, tickq, ret, last>>
  /\ PSkip
  /\ UNCHANGED <<cont, inflight, wg, barrier, cmd, batch, ok, commanded, arg, sz, gen, now, cnt, hist>>

-----------------------------------------------------------------------------
(* environment: ticker and clock *)

Cur == NP + gen      \* the generation owning the live ticker
Tick ==
  /\ gen > 0 /\ cnt.tick < MaxTick
  /\ pc[Cur] \notin {"f_init", "f_dead"} /\ ret[Cur] # "f_dead"
  /\ tickq[Cur] = 0
  /\ tickq' = Upd(tickq, Cur, 1)
  /\ Bump("tick") /\ Log([op |-> "tick"]) /\ PSkip
  /\ UNCHANGED <<cont, guarded, inflight, wg, barrier, cmd, pc, ret, batch, ok, commanded, last, arg, sz, gen, now>>

Adv ==
  /\ cnt.adv < MaxAdv
  /\ now' = now + 1
  /\ Bump("adv") /\ Log([op |-> "adv"]) /\ PSkip
  /\ UNCHANGED <<cont, guarded, inflight, wg, barrier, cmd, pc, ret, batch, ok, commanded, last, tickq, arg, sz, gen>>

-----------------------------------------------------------------------------
Gate == \/ \E s \in All : ExRun(s)
        \/ \E p \in Prod : AHook(p)

Proto == \/ \E p \in Prod : ALock(p) \/ ASend(p) \/ ARet(p) \/ WSpin(p) \/ WBar(p) \/ WWg(p) \/ WRet(p)
         \/ \E s \in All : FlEnter(s) \/ FlTake(s) \/ ExStart(s)
         \/ \E f \in Fl : FInit(f) \/ FRecv(f) \/ FC1(f) \/ FC2(f) \/ FC3(f) \/ FC4(f) \/ FTick(f) \/ FT2(f)

Calls == \E p \in Prod : StartAdd(p) \/ StartFlush(p) \/ StartWait(p)

\* model checking: all interleavings
MNext == Proto \/ Gate \/ Calls \/ Tick \/ Adv
\* steering: the environment (driver) moves only when the library is quiescent
SNext == Proto \/ (~ENABLED Proto /\ (Gate \/ Calls \/ Tick \/ Adv))

-----------------------------------------------------------------------------
(* Protocol situations: the places where one conjunct of the hand-off protocol is what decides.  A
   situation is a predicate on a step (unprimed = before, primed = after).  `hits` collects the
   situations of Targets a behaviour has passed through; in steering mode TLC prints the environment
   schedules that lead the REAL code through them (PrintHits), so that every such decision of the
   implementation is exercised by a replayed schedule, not only met by chance in stress runs.

     quitRefused   an idle flusher, idle for long enough, may not quit because a batch is on its way to
                   it (shallQuit's inflight check is what keeps the batch from being stranded)
     addWhileOut   a task enters the container while a batch that has left it has not yet reached the
                   callback (parked in the commander, held by a producer that cannot send, held by the
                   flusher in front of the barrier): RemoveAll must have handed over an isolated batch
     enterBlocked  somebody must not enter the wait group because a Wait holds the barrier
     tickSkipped   a tick that does not flush because the flusher was commanded since the last one
     quitFlush     the deferred Flush of a flusher that quits picks up tasks added after its decision
     waitSpin      a Wait that has flushed finds a batch in flight (the repair's extra wait decides)
     zeroOnly      a flush (tick / Flush / Wait / quit) meets a container whose tasks weigh nothing:
                   only `cont # {}`, not the accumulated size, says there is something to execute    *)
OutBatch == cmd # <<>> \/ \E s \in All : batch[s].ts # {} /\ pc[s] # "ex_run"
Sit(n) ==
  CASE n = "quitRefused"  -> \E f \in Fl : /\ pc[f] = "f_t2" /\ pc'[f] = "f_loop" /\ ~ok[f]
                                           /\ now > last[f] /\ inflight > 0 /\ f < NP + Gens
    [] n = "addWhileOut"  -> \E p \in Prod : pc[p] = "a_lock" /\ pc'[p] # "a_lock" /\ OutBatch
    [] n = "enterBlocked" -> barrier # 0 /\ (\E s \in All : pc[s] = "fl_enter" \/ (Fix = "inflight" /\ pc[s] = "f_c1"))
                             /\ ~ENABLED Proto
    [] n = "tickSkipped"  -> \E f \in Fl : pc[f] = "f_loop" /\ tickq[f] = 1 /\ tickq'[f] = 0 /\ commanded[f]
    [] n = "quitFlush"    -> \E f \in Fl : pc[f] = "fl_take" /\ ret[f] = "f_dead" /\ pc'[f] = "ex_start"
    [] n = "waitSpin"     -> \E p \in Prod : pc[p] = "w_spin" /\ inflight > 0 /\ ~ENABLED Proto
    [] n = "zeroOnly"     -> \E s \in All : pc[s] = "fl_take" /\ pc'[s] = "ex_start" /\ SumSz(cont) <= 0
    [] OTHER -> FALSE
\* generation only (CONSTRAINT): do not extend a behaviour that has hit nothing and cannot hit any more -
\* a necessary condition per situation, from the environment budget that is left (TRUE = no pruning)
InTickBranch(f) == ret[f] = "f_t2" /\ pc[f] \in {"fl_enter", "fl_take", "ex_start", "ex_run", "f_t2"}
CanStill(n) ==
  CASE n = "quitRefused" ->
         /\ (inflight > 0 \/ cnt.t < NT \/ \E p \in Prod : pc[p] = "a_lock")
         /\ \E f \in Fl : /\ (now > last[f] \/ cnt.adv < MaxAdv)
                          /\ (InTickBranch(f) \/ tickq[f] = 1 \/ cnt.tick < MaxTick)
    [] OTHER -> TRUE
GoalDirected == hits # {} \/ \E n \in Targets : CanStill(n)

HitsUpd == hits' = hits \cup {n \in Targets : Sit(n)}

INext == (IF Steer THEN SNext ELSE MNext) /\ HitsUpd
ISpec == IInit /\ [][INext]_vars

StepOf(s) == \/ (s \in Prod /\ (ALock(s) \/ ASend(s) \/ ARet(s) \/ WSpin(s) \/ WBar(s) \/ WWg(s) \/ WRet(s) \/ AHook(s)))
             \/ FlEnter(s) \/ FlTake(s) \/ ExStart(s) \/ ExRun(s)
             \/ (s \in Fl /\ (FInit(s) \/ FRecv(s) \/ FC1(s) \/ FC2(s) \/ FC3(s) \/ FC4(s) \/ FTick(s) \/ FT2(s)))
\* every process keeps taking its library steps, every callback eventually returns, every gate is
\* eventually opened; the environment (new calls, ticks, clock) owes nothing
FairSpec == ISpec /\ \A s \in All : WF_vars(StepOf(s) /\ HitsUpd)

-----------------------------------------------------------------------------
(* Layer-P guards as invariants of the implementation (refinement I => P) *)

AtMostOnce == \A s \in All : pc[s] = "ex_start" => ExecStartOK(s, batch[s].ts)
WaitCovers == \A p \in Prod : pc[p] = "w_ret" => WaitEndOK(p)
\* the code as it is violates WaitCovers only in the situation the known finding describes
WaitCoversOrKF == \A p \in Prod : pc[p] = "w_ret" => (WaitEndOK(p) \/ WaitEndKF(p))
\* a Wait that no Add overlapped leaves every accepted task executed exactly once
ExactlyOnceAtQuiescence ==
  \A p \in Prod : (pc[p] = "w_ret" /\ cover[p] = called) => (started = called /\ finished = called)
AddOK == \A p \in Prod : (pc[p] = "a_ret" => AddEndOK(p, arg[p]))

(* protocol invariants *)
Counters == wg >= 0 /\ inflight >= 0 /\ Len(cmd) <= 1
\* tasks in the container always have somebody who will flush them without further calls
NoStranded ==
  cont # {} => \/ guarded
               \/ \E f \in Fl : ret[f] = "f_dead" /\ pc[f] \in {"fl_enter", "fl_take"}
\* a batch on its way to the flusher always has a flusher to go to (shallQuit's inflight check)
InflightGuard == (inflight > 0 \/ cmd # <<>> \/ \E p \in Prod : pc[p] \in {"a_send", "a_hook", "a_conf"}) => guarded
\* inflight > 0  <=>  some batch that left the container is not yet in the wait group (repair's meaning)
InflightMeaning ==
  Fix = "inflight" =>
    inflight = Cardinality({p \in Prod : pc[p] = "a_send"}) + Len(cmd)
               + Cardinality({f \in Fl : pc[f] \in {"f_c1", "f_c2"}})
\* no tasks are lost or invented inside the protocol
InCmd == IF cmd = <<>> THEN {} ELSE cmd[1].ts
Conservation ==
  called \ {arg[p] : p \in {q \in Prod : pc[q] = "a_lock"}}
    = cont \cup InCmd \cup UNION {batch[s].ts : s \in All} \cup finished
\* nobody is stuck: when the library cannot move (and, when steering, no gate is closed),
\* every call has returned and nothing is in flight
NoStuck ==
  (~ENABLED Proto /\ ~ENABLED Gate) =>
     /\ \A p \in Prod : pc[p] = "idle"
     /\ cmd = <<>> /\ inflight = 0 /\ wg = 0 /\ barrier = 0
     /\ \A f \in Fl : pc[f] \in {"f_none", "f_loop", "f_dead"}

\* liveness (FairSpec): every call returns
CallsReturn == \A p \in Prod : (pc[p] # "idle") ~> (pc[p] = "idle")

-----------------------------------------------------------------------------
(* schedule generation *)
View == <<ivars, pvars, hits>>
Quiet == ~ENABLED Proto
\* one environment schedule per distinct quiescent state (shortest, BFS)
PrintHist == (Emit /\ Len(hist) > 0 /\ Quiet) => PrintT("TRACE " \o ToJson(hist))
\* only complete schedules: the environment's budget is used up as well
PrintFinal == (Emit /\ Quiet /\ ~ENABLED (Gate \/ Calls \/ Tick \/ Adv)) => PrintT("TRACE " \o ToJson(hist))
\* complete schedules that passed through at least one wanted situation (one per final state and set of situations)
PrintHits == (Emit /\ Quiet /\ hits # {} /\ ~ENABLED (Gate \/ Calls \/ Tick \/ Adv))
               => PrintT("TRACE " \o ToJson([hits |-> hits, steps |-> hist]))
\* the schedules at whose end a Wait is about to return uncovered (design-level counterexamples to reproduce)
PrintBad  == (Emit /\ \E p \in Prod : pc[p] = "w_ret" /\ ~WaitEndOK(p)) => PrintT("TRACE " \o ToJson(hist))
=============================================================================
