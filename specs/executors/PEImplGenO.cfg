SPECIFICATION ISpec
CONSTANTS
  NP = 2
  Gens = 1
  Thr = 1
  NT = 3
  MaxFlush = 1
  MaxWait = 1
  MaxTick = 0
  MaxAdv = 0
  MaxPanic = 0
  Fix = "inflight"
  Routed = FALSE
  Hook = FALSE
  Steer = TRUE
  Emit = TRUE
  Sizes = {1}
  Targets = {"addWhileOut"}
  Canon = TRUE
INVARIANTS PrintHits
VIEW View
CHECK_DEADLOCK FALSE
