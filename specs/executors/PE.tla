--------------------------------- MODULE PE ---------------------------------
(* Layer P (property C11): what a periodical / bulk / chunk executor owes its
   callers, phrased over observable events only.

     addStart(p,t) / addEnd(p,t)     producer p calls Add(t) / Add(t) returned     (tasks are unique)
                                     (the size z that ChunkExecutor.Add(t, z) is called with - any int, 0 and
                                     negative included - is logged but read by no guard: what is owed to a
                                     task does not depend on its size)
     waitStart(p)  / waitEnd(p)      p calls Wait() / Wait() returned
     execStart(b,ts) / execEnd(b)    the execute callback received batch ts / returned (or panicked)
     take(ts,thr)                    auxiliary: ts left the container (thr: by the size threshold inside Add);
                                     constrains nothing, only feeds the known-finding guard
     end                             quiescence: every call returned, a final Wait returned after them

   Every event is Guard /\ Effect: <Ev>OK is what the property demands at that
   event, <Ev>Eff the bookkeeping.  PEImpl (Layer I) performs the effects and TLC
   checks the guards as invariants there; PETrace conjoins both on recorded traces.

   Nothing here mentions locks, channels, tickers, the flusher goroutine or how
   tasks are batched: batching, who executes, and when (threshold, tick, Flush,
   Wait) are the implementation's freedom.                                          *)
EXTENDS Integers, Sequences, FiniteSets, TLC

VARIABLES
  called,    \* tasks whose Add was called                       ("accepted by Add")
  returned,  \* tasks whose Add returned
  started,   \* tasks the execute callback has received
  finished,  \* tasks whose execute callback returned (normally or by panicking)
  running,   \* batch id |-> set of tasks, callbacks in progress
  cover,     \* producer in Wait() |-> tasks whose Add had returned when Wait was called
  handed,    \* aux: tasks taken by a threshold hand-over and not yet received by a callback
  kfok       \* aux: producer in Wait() |-> handed at the call, plus later threshold hand-overs

pvars == <<called, returned, started, finished, running, cover, handed, kfok>>

Drop(f, x) == [y \in DOMAIN f \ {x} |-> f[y]]
EmptyFn == [x \in {} |-> {}]

PInit ==
  /\ called = {} /\ returned = {} /\ started = {} /\ finished = {}
  /\ running = EmptyFn /\ cover = EmptyFn /\ handed = {} /\ kfok = EmptyFn

\* a new history on a new executor (trace validation: many traces per TLC run)
PReset ==
  /\ called' = {} /\ returned' = {} /\ started' = {} /\ finished' = {}
  /\ running' = EmptyFn /\ cover' = EmptyFn /\ handed' = {} /\ kfok' = EmptyFn

\* ---------------------------------------------------------------- Add
AddStartOK(p, t) == t \notin called
AddStartEff(p, t) ==
  /\ called' = called \cup {t}
  /\ UNCHANGED <<returned, started, finished, running, cover, handed, kfok>>

AddEndOK(p, t) == t \in called /\ t \notin returned
AddEndEff(p, t) ==
  /\ returned' = returned \cup {t}
  /\ UNCHANGED <<called, started, finished, running, cover, handed, kfok>>

\* ---------------------------------------------------------------- callback
\* AtMostOnce + nothing invented: a task is handed to the callback once, and only after Add(t) was called
ExecStartOK(b, ts) ==
  /\ b \notin DOMAIN running
  /\ ts \subseteq called
  /\ ts \cap started = {}
ExecStartEff(b, ts) ==
  /\ started' = started \cup ts
  /\ running' = (b :> ts) @@ running
  /\ handed' = handed \ ts
  /\ UNCHANGED <<called, returned, finished, cover, kfok>>

\* a panicking callback is a callback that has returned: it costs its own batch and nothing else
ExecEndOK(b) == b \in DOMAIN running
ExecEndEff(b) ==
  /\ finished' = finished \cup running[b]
  /\ running' = Drop(running, b)
  /\ UNCHANGED <<called, returned, started, cover, handed, kfok>>

\* ---------------------------------------------------------------- Wait
WaitStartOK(p) == p \notin DOMAIN cover
WaitStartEff(p) ==
  /\ cover' = (p :> returned) @@ cover
  /\ kfok' = (p :> handed) @@ kfok
  /\ UNCHANGED <<called, returned, started, finished, running, handed>>

\* WaitCovers: every task whose Add returned before Wait was called has had its callback return
Missed(p) == cover[p] \ finished
WaitEndOK(p) == p \in DOMAIN cover /\ Missed(p) = {}
\* the situation of known finding KF_WaitMissesHandover (genuine go-zero defect): every uncovered task
\* belongs to a batch that left the container by a threshold hand-over inside somebody's Add and had not
\* reached the callback when Wait was called (or was handed over while Wait was running)
WaitEndKF(p) == p \in DOMAIN cover /\ Missed(p) # {} /\ Missed(p) \subseteq kfok[p]
WaitEndEff(p) ==
  /\ cover' = Drop(cover, p)
  /\ kfok' = Drop(kfok, p)
  /\ UNCHANGED <<called, returned, started, finished, running, handed>>

\* ---------------------------------------------------------------- aux: container take
TakeEff(ts, thr) ==
  /\ handed' = IF thr THEN handed \cup ts ELSE handed
  /\ kfok' = [p \in DOMAIN kfok |-> IF thr THEN kfok[p] \cup ts ELSE kfok[p]]
  /\ UNCHANGED <<called, returned, started, finished, running, cover>>

\* ---------------------------------------------------------------- quiescence
\* ExactlyOnceAtQuiescence: no call in progress, a Wait has returned after the last Add => every
\* accepted task went through the callback exactly once (AtMostOnce is enforced at execStart)
QuiescentOK ==
  /\ called = returned
  /\ DOMAIN cover = {}
  /\ DOMAIN running = {}
  /\ started = called
  /\ finished = called

PSkip == UNCHANGED pvars

\* ---- sanity invariants of the bookkeeping (hold by construction) ----
PTypeOK ==
  /\ returned \subseteq called
  /\ finished \subseteq started
  /\ started \subseteq called
  /\ \A b \in DOMAIN running : running[b] \subseteq started /\ running[b] \cap finished = {}
=============================================================================
