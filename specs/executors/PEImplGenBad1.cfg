SPECIFICATION ISpec
CONSTANTS
  NP = 2
  Gens = 1
  Thr = 2
  NT = 3
  MaxFlush = 0
  MaxWait = 1
  MaxTick = 1
  MaxAdv = 0
  MaxPanic = 0
  Fix = "none"
  Routed = FALSE
  Hook = FALSE
  Steer = TRUE
  Emit = TRUE
  Sizes = {1}
  Targets = {}
  Canon = FALSE
INVARIANTS PrintBad
VIEW View
CHECK_DEADLOCK FALSE
