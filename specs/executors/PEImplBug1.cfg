SPECIFICATION ISpec
CONSTANTS
  NP = 2
  Gens = 1
  Thr = 2
  NT = 3
  MaxFlush = 0
  MaxWait = 1
  MaxTick = 0
  MaxAdv = 0
  MaxPanic = 0
  Fix = "none"
  Routed = TRUE
  Hook = FALSE
  Steer = FALSE
  Emit = FALSE
  Sizes = {1}
  Targets = {}
  Canon = FALSE
INVARIANTS PTypeOK AtMostOnce WaitCovers ExactlyOnceAtQuiescence AddOK Counters NoStranded InflightGuard InflightMeaning Conservation NoStuck
VIEW View
CHECK_DEADLOCK FALSE
