SPECIFICATION ISpec
CONSTANTS
  NP = 2
  Gens = 2
  Thr = 2
  NT = 3
  MaxFlush = 1
  MaxWait = 1
  MaxTick = 2
  MaxAdv = 1
  MaxPanic = 1
  Fix = "none"
  Routed = FALSE
  Hook = FALSE
  Steer = TRUE
  Emit = TRUE
  Sizes = {1}
  Targets = {}
  Canon = FALSE
INVARIANTS PrintFinal
VIEW View
CHECK_DEADLOCK FALSE
