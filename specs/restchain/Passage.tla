------------------------------ MODULE Passage ------------------------------
(* Extension "restchain" (host C09), shared part: how ONE request passes a pipeline of
   nested HTTP middlewares.

   A pipeline is a sequence of layers, outermost first; its last element is the
   terminal handler.  Every layer either calls the next one exactly once or answers
   itself (then nothing further in is entered).  A request therefore performs a
   fixed walk:   enter pipe[1], enter pipe[2], ... enter pipe[stop]   (pipe[stop]
   answers)   leave pipe[stop], ... leave pipe[2], leave pipe[1].
   The walk is kept as the number of steps taken (prog); the call stack, the
   direction and the per-layer enter/leave counts are derived from it.

   Several requests may be in flight; they share nothing (reqs is a function from
   request ids to their walks), so any interleaving of their steps is allowed.     *)
EXTENDS Integers, Sequences, FiniteSets, TLC

VARIABLE reqs     \* request id |-> [pipe, stop, prog, ...]  (extra fields belong to the importer)

Live == DOMAIN reqs

Min(S) == CHOOSE x \in S : \A y \in S : x <= y
Reverse(s) == [i \in 1..Len(s) |-> s[Len(s) + 1 - i]]
IsPrefix(s, t) == Len(s) <= Len(t) /\ SubSeq(t, 1, Len(s)) = s

\* ---- the walk of one request r = [pipe, stop, prog] --------------------------------
Steps(r)        == 2 * r.stop                               \* total number of steps
DepthAt(r, p)   == IF p <= r.stop THEN p ELSE 2 * r.stop - p \* layers on the stack after p steps
StackAt(r, p)   == SubSeq(r.pipe, 1, DepthAt(r, p))
Depth(r)        == DepthAt(r, r.prog)
Stack(r)        == StackAt(r, r.prog)
Dir(r)          == IF r.prog < r.stop THEN "down" ELSE "up"
\* step k (1..Steps) enters or leaves the layer with this index
StepIdx(r, k)   == IF k <= r.stop THEN k ELSE 2 * r.stop - k + 1
StepKind(r, k)  == IF k <= r.stop THEN "enter" ELSE "leave"
Finished(r)     == r.prog = Steps(r)
\* how often layer i has been entered / left so far
Entered(r, i)   == IF i <= r.stop /\ r.prog >= i THEN 1 ELSE 0
Left(r, i)      == IF i <= r.stop /\ r.prog >= 2 * r.stop - i + 1 THEN 1 ELSE 0

\* ---- actions -------------------------------------------------------------------------
\* a request arrives; rec carries pipe, stop (1..Len(pipe)) and whatever else the importer keeps
PBegin(q, rec) ==
  /\ q \notin Live
  /\ Len(rec.pipe) >= 1 /\ rec.stop \in 1..Len(rec.pipe) /\ rec.prog = 0
  /\ reqs' = [x \in Live \cup {q} |-> IF x = q THEN rec ELSE reqs[x]]

\* the next layer is entered (it either calls on, or -- at index stop -- answers)
PEnter(q) ==
  /\ q \in Live /\ reqs[q].prog < reqs[q].stop
  /\ reqs' = [reqs EXCEPT ![q].prog = @ + 1]

\* the innermost active layer returns to its caller
PLeave(q) ==
  /\ q \in Live /\ reqs[q].prog >= reqs[q].stop /\ ~Finished(reqs[q])
  /\ reqs' = [reqs EXCEPT ![q].prog = @ + 1]

\* the outermost layer has returned: the request is over
PEnd(q) ==
  /\ q \in Live /\ Finished(reqs[q])
  /\ reqs' = [x \in Live \ {q} |-> reqs[x]]

\* several consecutive PEnter/PLeave steps of q at once: q proceeds to step k, and every
\* step strictly before k is one the observer cannot see (Silent(r, j)).  Used by the
\* trace modules, where only harness layers write events.
PJump(q, k, Silent(_, _)) ==
  /\ q \in Live
  /\ LET r == reqs[q] IN
       /\ k \in (r.prog + 1)..Steps(r)
       /\ \A j \in (r.prog + 1)..(k - 1) : Silent(r, j)
  /\ reqs' = [reqs EXCEPT ![q].prog = k]

\* ---- properties of the walk (they hold by construction; TLC checks them on the models) ----
WalkOK ==
  \A q \in Live : LET r == reqs[q] IN
    /\ r.prog \in 0..Steps(r)
    /\ IsPrefix(Stack(r), r.pipe)                                   \* nesting = listed order
    /\ Depth(r) <= r.stop                                           \* nothing beyond the answering layer
    /\ \A i \in 1..Len(r.pipe) : Entered(r, i) <= 1 /\ Left(r, i) <= Entered(r, i)
    /\ \A i \in 1..Len(r.pipe) : (i > r.stop) => Entered(r, i) = 0
    \* LIFO: a layer has left only if every layer further in has left
    /\ \A i, j \in 1..r.stop : (i < j /\ Left(r, i) = 1) => Left(r, j) = 1
    /\ Finished(r) => \A i \in 1..r.stop : Entered(r, i) = 1 /\ Left(r, i) = 1
=============================================================================
