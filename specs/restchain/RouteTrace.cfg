SPECIFICATION TSpec
CONSTRAINT HW
INVARIANTS TableLaw WrapsLaw WalkOK ServesOwnRoute
POSTCONDITION Accepted
CHECK_DEADLOCK FALSE
