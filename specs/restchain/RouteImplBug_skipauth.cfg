SPECIFICATION ISpec
CONSTANTS
  Tags = {"a", "b"}
  MwSets <- MwSmall
  CustomChains <- CcOne
  Tmos = {TRUE}
  MaxUses = 2
  MaxGroups = 1
  MaxMids = 2
  MaxTerms = 1
  SigChoices = {"off", "strict"}
  TrigNames <- TrNone
  MaxReqs = 0
  Variant = "skipauth"
  Emit = FALSE
INVARIANTS Refines TableLaw WrapsLaw WalkOK ServesOwnRoute
PROPERTIES ChainsImmutable FrozenP
VIEW View
CHECK_DEADLOCK FALSE
