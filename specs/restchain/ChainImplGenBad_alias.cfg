SPECIFICATION ISpec
CONSTANTS
  Tags = {"a", "b"}
  Terms = {"h"}
  MaxArg = 2
  MaxLen = 4
  MaxChains = 4
  MaxHands = 0
  MaxOps = 4
  MaxReqs = 0
  Variant = "alias"
  Emit = TRUE
  EmitFrom = 1
INVARIANTS PrintBad
VIEW View
CHECK_DEADLOCK FALSE
