SPECIFICATION ISpec
CONSTANTS
  Tags = {"a", "b"}
  Terms = {"h"}
  MaxArg = 2
  MaxLen = 4
  MaxChains = 4
  MaxHands = 1
  MaxOps = 5
  MaxReqs = 0
  Variant = "alias"
  Emit = FALSE
  EmitFrom = 1
INVARIANTS Refines WalkOK WalksOwnHandler
PROPERTIES ImmutableP
VIEW View
CHECK_DEADLOCK FALSE
