SPECIFICATION ISpec
CONSTANTS
  Tags = {"a"}
  MwSets <- MwSmall
  CustomChains <- CcOne
  Tmos = {TRUE}
  MaxUses = 1
  MaxGroups = 2
  MaxMids = 1
  MaxTerms = 1
  SigChoices = {"off", "strict", "bad"}
  TrigNames <- TrNone
  MaxReqs = 0
  Variant = "bindmore"
  Emit = FALSE
INVARIANTS Refines TableLaw WrapsLaw WalkOK ServesOwnRoute
PROPERTIES ChainsImmutable FrozenP
VIEW View
CHECK_DEADLOCK FALSE
