SPECIFICATION ISpec
CONSTANTS
  Tags = {"a", "b"}
  MwSets <- MwMix
  CustomChains <- CcMix
  Tmos = {TRUE, FALSE}
  MaxUses = 2
  MaxGroups = 1
  MaxMids = 2
  MaxTerms = 2
  SigChoices = {"off", "strict", "lax", "nokeys", "bad"}
  TrigNames <- TrNone
  MaxReqs = 0
  Variant = "asis"
  Emit = FALSE
INVARIANTS Refines TableLaw WrapsLaw WalkOK ServesOwnRoute
PROPERTIES ChainsImmutable FrozenP
VIEW View
CHECK_DEADLOCK FALSE
