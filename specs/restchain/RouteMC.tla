------------------------------- MODULE RouteMC -------------------------------
(* Constant values for the RouteImpl configurations (sets of sets and sequences cannot be
   written in a .cfg file).                                                          *)
EXTENDS RouteImpl

AllBuiltins == BuiltinSet
MwNone   == {{}}
MwSmall  == {{}, {"recover", "maxbytes", "gunzip"}}
MwMix    == {{}, {"recover", "maxbytes", "gunzip"}, {"log", "timeout", "recover"}, AllBuiltins}
MwGen    == {{"recover", "maxbytes", "gunzip"}, AllBuiltins \ {"recover"}}
MwAll    == {AllBuiltins}
CcNone   == {}
CcOne    == {<<"a">>}
CcSmall  == {<<>>, <<"a">>}
CcMix    == {<<>>, <<"a">>, <<"b", "a">>}
TrNone   == {}
TrGates  == {"maxbytes", "gunzip", "auth", "sig"}
TrAll    == {"maxbytes", "gunzip", "auth", "sig", "a", "b"}
TrTags   == {"auth", "a", "b"}
TrAB     == {"a", "b"}
=============================================================================
