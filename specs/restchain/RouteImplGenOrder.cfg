SPECIFICATION ISpec
CONSTANTS
  Tags = {"a", "b"}
  MwSets <- MwAll
  CustomChains <- CcOne
  Tmos = {FALSE}
  MaxUses = 2
  MaxGroups = 1
  MaxMids = 2
  MaxTerms = 2
  SigChoices = {"off"}
  TrigNames <- TrAB
  MaxReqs = 1
  Variant = "asis"
  Emit = TRUE
INVARIANTS Refines PrintHist
VIEW View
CHECK_DEADLOCK FALSE
