----------------------------- MODULE ChainImpl -----------------------------
(* Extension "restchain", Layer I for rest/chain/chain.go: chains as Go slices (backing array,
   length, capacity), run in lock-step with the abstract Chain.tla.

     New      append(([]Middleware)(nil), ms...)     a private array
     join     make(0, len(a)+len(b)) + two appends     a fresh array of exact capacity
     Then     for i := range mids { h = mids[len-1-i](h) }

   TLC checks that what a chain's slice shows always equals the abstract chain (Refines), so
   that Chain!Immutable carries over: no later Append/Prepend and no write through a slice the
   caller still holds can change a chain.  The same run prints one operation history per
   distinct implementation state (test generation).

   Variant = "copy"     the code as it is
             "alias"    Append/Prepend with a bare append(a, b...) (the classic alice bug: two
                        Appends to one chain with spare capacity share the tail)
             "share"    New keeps the caller's slice instead of copying it
             "forward"  Then applies the constructors first-to-last (m_n outermost)       *)
EXTENDS Chain, Json

CONSTANTS Tags, Terms, MaxArg, MaxLen, MaxChains, MaxHands, MaxOps, MaxReqs, Variant,
          Emit, EmitFrom      \* generation: print the history of every state reached by >= EmitFrom operations

VARIABLES
  arrs,    \* backing arrays: arrs[a] is a sequence of length cap; unused slots hold "_"
  cs,      \* cs[c] = [a |-> array (0 = nil slice), n |-> length] : the slice of chain c
  args,    \* args[c] = the array the caller passed when chain c was created (0 = none): still the caller's
  ih,      \* ih[h] = [nest, term]: the nesting Then built, outermost first
  iwraps,  \* constructor calls of the last operation
  hist     \* operation history (test generation; hidden by the VIEW)

ivars == <<arrs, cs, args, ih, iwraps>>
vars == <<chains, hands, wraps, reqs, arrs, cs, args, ih, iwraps, hist>>

Show(s) == IF s.a = 0 THEN <<>> ELSE SubSeq(arrs[s.a], 1, s.n)
Cap(s)  == IF s.a = 0 THEN 0 ELSE Len(arrs[s.a])
Pad(s, cap) == [i \in 1..cap |-> IF i <= Len(s) THEN s[i] ELSE "_"]
Grow(cap, need) == IF need > 2 * cap THEN need ELSE 2 * cap

\* all non-empty argument lists up to MaxArg, and the empty one
ArgLists == UNION {[1..n -> Tags] : n \in 0..MaxArg}

\* the caller's own slice holding ms (a literal: exact capacity); "as" = arrays after allocating it
CallerArg(ms) == IF Len(ms) = 0 THEN [as |-> arrs, a |-> 0]
                 ELSE [as |-> Append(arrs, ms), a |-> Len(arrs) + 1]

\* append(dst, src...) with Go's semantics on the arrays `as`; result [as, s]
GoAppend(as, dst, src) ==
  LET need == dst.n + Len(src)
      cap  == IF dst.a = 0 THEN 0 ELSE Len(as[dst.a])
      cur  == IF dst.a = 0 THEN <<>> ELSE SubSeq(as[dst.a], 1, dst.n)
  IN IF Len(src) = 0 THEN [as |-> as, s |-> dst]
     ELSE IF need <= cap
       THEN [as |-> [as EXCEPT ![dst.a] = [i \in 1..cap |-> IF i > dst.n /\ i <= need THEN src[i - dst.n] ELSE @[i]]],
             s  |-> [a |-> dst.a, n |-> need]]
       ELSE [as |-> Append(as, Pad(cur \o src, Grow(cap, need))), s |-> [a |-> Len(as) + 1, n |-> need]]

\* join(a, b) of chain.go: a fresh array of exact capacity
GoJoin(as, x, y) == [as |-> Append(as, x \o y), s |-> [a |-> Len(as) + 1, n |-> Len(x) + Len(y)]]

IInit == CInit /\ arrs = <<>> /\ cs = <<>> /\ args = <<>> /\ ih = <<>> /\ iwraps = <<>> /\ hist = <<>>

INew(ms) ==
  /\ Len(chains) < MaxChains
  /\ CNew(ms)
  /\ LET ca == CallerArg(ms)
         r  == IF Variant = "share" THEN [as |-> ca.as, s |-> [a |-> ca.a, n |-> Len(ms)]]
               ELSE GoAppend(ca.as, [a |-> 0, n |-> 0], ms)
     IN arrs' = r.as /\ cs' = Append(cs, r.s) /\ args' = Append(args, ca.a)
  /\ iwraps' = <<>> /\ UNCHANGED ih
  /\ hist' = Append(hist, [op |-> "new", ms |-> ms])

IAppend(c, ms) ==
  /\ Len(chains) < MaxChains /\ c \in DOMAIN chains /\ Len(chains[c]) + Len(ms) <= MaxLen
  /\ CAppend(c, ms)
  /\ LET ca == CallerArg(ms)
         r  == IF Variant = "alias" THEN GoAppend(ca.as, cs[c], ms)
               ELSE GoJoin(ca.as, Show(cs[c]), ms)
     IN arrs' = r.as /\ cs' = Append(cs, r.s) /\ args' = Append(args, ca.a)
  /\ iwraps' = <<>> /\ UNCHANGED ih
  /\ hist' = Append(hist, [op |-> "append", c |-> c, ms |-> ms])

IPrepend(c, ms) ==
  /\ Len(chains) < MaxChains /\ c \in DOMAIN chains /\ Len(chains[c]) + Len(ms) <= MaxLen
  /\ CPrepend(c, ms)
  /\ LET ca == CallerArg(ms)
         r  == IF Variant = "alias" THEN GoAppend(ca.as, [a |-> ca.a, n |-> Len(ms)], Show(cs[c]))
               ELSE GoJoin(ca.as, ms, Show(cs[c]))
     IN arrs' = r.as /\ cs' = Append(cs, r.s) /\ args' = Append(args, ca.a)
  /\ iwraps' = <<>> /\ UNCHANGED ih
  /\ hist' = Append(hist, [op |-> "prepend", c |-> c, ms |-> ms])

\* the caller writes tag t into slot j of the slice it passed when chain k was created
IScribble(k, j, t) ==
  /\ k \in DOMAIN args /\ args[k] # 0
  /\ j \in 1..Len(chains[k]) /\ j \in DOMAIN arrs[args[k]] /\ arrs[args[k]][j] \notin {t, "_"}
  /\ CScribble
  /\ arrs' = [arrs EXCEPT ![args[k]][j] = t]
  /\ iwraps' = <<>> /\ UNCHANGED <<cs, args, ih>>
  /\ hist' = Append(hist, [op |-> "scribble", k |-> k, j |-> j, t |-> t])

\* Then's loop: after i iterations, [nest, w] = nesting built so far (outermost first) and constructor calls
ThenLoop(mids) ==
  LET n == Len(mids)
      pick(i) == IF Variant = "forward" THEN i ELSE n + 1 - i      \* mids[len-1-i], 1-based
      F[i \in 0..n] == IF i = 0 THEN [nest |-> <<>>, w |-> <<>>]
                       ELSE [nest |-> <<mids[pick(i)]>> \o F[i - 1].nest, w |-> Append(F[i - 1].w, mids[pick(i)])]
  IN F[n]

IThen(c, t) ==
  /\ Len(hands) < MaxHands /\ c \in DOMAIN chains
  /\ CThen(c, t)
  /\ LET r == ThenLoop(Show(cs[c])) IN
       /\ ih' = Append(ih, [nest |-> r.nest, term |-> t])
       /\ iwraps' = r.w
  /\ UNCHANGED <<arrs, cs, args>>
  /\ hist' = Append(hist, [op |-> "then", c |-> c, t |-> t])

\* one named disjunct per API entry point (TLC's coverage then shows that none is dead)
Budget == Len(hist) < MaxOps
DoNew      == Budget /\ \E ms \in ArgLists : INew(ms)
DoAppend   == Budget /\ \E c \in DOMAIN chains, ms \in ArgLists : IAppend(c, ms)
DoPrepend  == Budget /\ \E c \in DOMAIN chains, ms \in ArgLists : IPrepend(c, ms)
DoScribble == Budget /\ \E k \in DOMAIN args, j \in 1..MaxArg, t \in Tags : IScribble(k, j, t)
DoThen     == Budget /\ \E c \in DOMAIN chains, t \in Terms \cup {"mux"} : IThen(c, t)
DoBegin    == MaxReqs > 0 /\ UNCHANGED <<ivars, hist>>
              /\ \E q \in 1..MaxReqs, h \in DOMAIN hands, blk \in Tags \cup {""} : CBegin(q, h, blk)
DoEnter    == UNCHANGED <<ivars, hist>> /\ \E q \in Live : CEnter(q)
DoLeave    == UNCHANGED <<ivars, hist>> /\ \E q \in Live : CLeave(q)
DoEnd      == UNCHANGED <<ivars, hist>> /\ \E q \in Live : CEnd(q)

INext == DoNew \/ DoAppend \/ DoPrepend \/ DoScribble \/ DoThen \/ DoBegin \/ DoEnter \/ DoLeave \/ DoEnd

ISpec == IInit /\ [][INext]_vars

\* ---- refinement ----------------------------------------------------------------------
Refines ==
  /\ DOMAIN cs = DOMAIN chains /\ DOMAIN ih = DOMAIN hands
  /\ \A c \in DOMAIN chains : Show(cs[c]) = chains[c]
  /\ \A h \in DOMAIN hands : ih[h].nest = hands[h].mids /\ ih[h].term = hands[h].term
  /\ iwraps = wraps
\* the abstract chains never change (Chain!Immutable) -- with Refines: neither do the slices' views
ImmutableP == Immutable

\* ---- test generation -----------------------------------------------------------------
View == <<chains, hands, wraps, reqs, arrs, cs, args, ih, iwraps>>     \* everything but hist
PrintHist == (Emit /\ Len(hist) >= EmitFrom) => PrintT("TRACE " \o ToJson(hist))
\* with a wrong Variant: the histories on which that variant goes wrong (they are replayed on the real
\* code, which must not)
PrintBad == (Emit /\ ~Refines) => PrintT("TRACE " \o ToJson(hist))
=============================================================================
