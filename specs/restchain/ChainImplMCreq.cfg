SPECIFICATION ISpec
CONSTANTS
  Tags = {"a", "b"}
  Terms = {"h"}
  MaxArg = 2
  MaxLen = 3
  MaxChains = 2
  MaxHands = 2
  MaxOps = 2
  MaxReqs = 2
  Variant = "copy"
  Emit = FALSE
  EmitFrom = 1
INVARIANTS Refines WalkOK WalksOwnHandler
PROPERTIES ImmutableP
VIEW View
CHECK_DEADLOCK FALSE
