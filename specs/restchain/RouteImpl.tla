----------------------------- MODULE RouteImpl -----------------------------
(* Extension "restchain", Layer I for rest/engine.go + rest/server.go: the start of a server
   written the way the code is -- a loop over groups and routes that derives, for every route, a
   chain from the engine's base chain through the chain library (Chain.tla: New / Append / Then
   on immutable chains) and hands the result to the router -- run in lock-step with the
   declarative pipeline law of Route.tla.

     WithMiddlewares    for i := len(ms)-1 .. 0 { rs = WithMiddleware(ms[i], rs...) }
     bindRoutes         for each group: signatureVerifier (may fail) ; for each route: bindRoute
     bindRoute          chn := ng.chain, or buildChainWithNativeMiddlewares: New() and one Append
                        per enabled built-in ; appendAuthHandler: Append(Authorize) if jwt, then
                        the signature verifier's Append ; one Append per Use middleware ;
                        ThenFunc(route.Handler)

   TLC checks that what reaches the router is the table of Route.tla (Refines), that the
   constructor calls are the ones Route.tla demands, and that a chain given with WithChain is
   never changed although every route derives its own chain from it (Chain!Immutable).

   Variant = "asis"       the code as it is
             "usefirst"   the Use middlewares appended before the auth / signature handlers
             "skipauth"   a custom chain (WithChain) does not get the auth / signature handlers
             "mwforward"  WithMiddlewares walking the list first-to-last (ms[n] outermost)
             "bindmore"   a rejected signature setting skips its group instead of stopping the start *)
EXTENDS Route, Json

CONSTANTS Tags, MwSets, CustomChains, Tmos, MaxUses, MaxGroups, MaxMids, MaxTerms, SigChoices,
          TrigNames, MaxReqs, Variant,
          Emit          \* generation: print the history of every state in which a request has just arrived
                        \* (or the start has just failed)

VARIABLES
  chains, hands, cwraps, creqs,   \* the chain library (Chain.tla)
  pc, gi, ri, bi, ui, si,         \* where the start is: group, route, built-in, Use middleware, stage
  cur,                            \* the chain being derived for the current route
  nests,                          \* nests[g][r]: route.Handler after WithMiddlewares, outermost first
  itable, iw,                     \* what was handed to the router so far / harness constructors called so far
  hist

Ch == INSTANCE Chain WITH wraps <- cwraps, reqs <- creqs

ivars == <<chains, hands, cwraps, creqs, pc, gi, ri, bi, ui, si, cur, nests, itable, iw>>
vars  == <<conf, uses, groups, phase, table, lastop, wraps, reqs,
           chains, hands, cwraps, creqs, pc, gi, ri, bi, ui, si, cur, nests, itable, iw, hist>>
pvars == <<conf, uses, groups, phase, table, lastop, wraps, reqs>>
cvars == <<chains, hands, cwraps, creqs>>
bvars == <<gi, ri, bi, ui, si, cur, itable, iw>>

TagLists(n) == UNION {[1..k -> Tags] : k \in 0..n}
Confs == {[mw |-> m, tmo |-> t, shed |-> FALSE, custom |-> FALSE, cms |-> <<>>] : m \in MwSets, t \in Tmos}
         \cup {[mw |-> {}, tmo |-> FALSE, shed |-> FALSE, custom |-> TRUE, cms |-> c] : c \in CustomChains}
GroupChoices == {[jwt |-> j, sig |-> s, mids |-> m, terms |-> [i \in 1..n |-> "h"]] :
                   j \in BOOLEAN, s \in SigChoices, m \in TagLists(MaxMids), n \in 1..MaxTerms}

Stages == IF Variant = "usefirst" THEN <<"use", "auth", "sig", "then">> ELSE <<"auth", "sig", "use", "then">>

IInit ==
  /\ \E cf \in Confs :
       /\ RInit(cf)
       /\ chains = IF cf.custom THEN <<cf.cms>> ELSE <<>>      \* the user's chain.New(cms...)
       /\ hist = <<[op |-> "new", mw |-> cf.mw, tmo |-> cf.tmo, shed |-> cf.shed, custom |-> cf.custom, cms |-> cf.cms]>>
  /\ hands = <<>> /\ cwraps = <<>> /\ creqs = <<>>
  /\ pc = "setup" /\ gi = 0 /\ ri = 0 /\ bi = 0 /\ ui = 0 /\ si = 0 /\ cur = 0
  /\ nests = <<>> /\ itable = <<>> /\ iw = <<>>

IUse(t) ==
  /\ pc = "setup" /\ Len(uses) < MaxUses
  /\ RUse(t)
  /\ hist' = Append(hist, [op |-> "use", t |-> t])
  /\ UNCHANGED ivars

\* WithMiddlewares' two loops: after i rounds, the handlers of the k routes and the constructor calls
WithMws(ms, terms) ==
  LET n == Len(ms)
      k == Len(terms)
      pick(i) == IF Variant = "mwforward" THEN i ELSE n + 1 - i
      F[i \in 0..n] ==
        IF i = 0 THEN [nest |-> [j \in 1..k |-> <<terms[j]>>], w |-> <<>>]
        ELSE [nest |-> [j \in 1..k |-> <<ms[pick(i)]>> \o F[i - 1].nest[j]],
              w    |-> F[i - 1].w \o [j \in 1..k |-> ms[pick(i)]]]
  IN F[n]

IAdd(g) ==
  /\ pc = "setup" /\ Len(groups) < MaxGroups
  /\ LET r == WithMws(g.mids, g.terms) IN
       /\ RAdd(g, r.w)
       /\ nests' = Append(nests, r.nest)
  /\ hist' = Append(hist, [op |-> "add", jwt |-> g.jwt, sig |-> g.sig, mids |-> g.mids, terms |-> g.terms])
  /\ UNCHANGED <<chains, hands, cwraps, creqs, pc, gi, ri, bi, ui, si, cur, itable, iw>>

\* ---- start ------------------------------------------------------------------------------
Quiet == UNCHANGED pvars      \* Layer P does not move while the loop runs

IStart ==
  /\ pc = "setup"
  /\ pc' = "group" /\ gi' = 1
  /\ hist' = Append(hist, [op |-> "bind"])
  /\ Quiet /\ UNCHANGED <<cvars, ri, bi, ui, si, cur, nests, itable, iw>>

\* bindFeaturedRoutes: the verifier first
IGroup ==
  /\ pc = "group"
  /\ IF gi > Len(groups) \/ (groups[gi].sig = "bad" /\ Variant # "bindmore")
       THEN RBind /\ pc' = "done" /\ UNCHANGED <<gi, ri>>                  \* bindRoutes returns (nil or the error)
       ELSE IF groups[gi].sig = "bad"
         THEN Quiet /\ pc' = "group" /\ gi' = gi + 1 /\ UNCHANGED ri
         ELSE Quiet /\ pc' = "route" /\ ri' = 1 /\ UNCHANGED gi
  /\ UNCHANGED <<cvars, bi, ui, si, cur, nests, itable, iw, hist>>

\* bindRoute, first statement: chn := ng.chain ; if chn == nil { build the native chain }
IRoute ==
  /\ pc = "route" /\ Quiet
  /\ IF ri > Len(groups[gi].terms)
       THEN pc' = "group" /\ gi' = gi + 1 /\ UNCHANGED <<cvars, ri, bi, si, cur>>
       ELSE IF conf.custom
         THEN pc' = "stage" /\ si' = 1 /\ cur' = 1 /\ UNCHANGED <<cvars, gi, ri, bi>>
         ELSE /\ Ch!CNew(<<>>) /\ cur' = Len(chains')
              /\ pc' = "native" /\ bi' = 1 /\ UNCHANGED <<gi, ri, si>>
  /\ ui' = 1
  /\ UNCHANGED <<nests, itable, iw, hist>>

\* buildChainWithNativeMiddlewares: one Append per enabled built-in, in the order of the if-statements
NextOn(b) == LET S == {i \in b..Len(Builtins) : Builtins[i] \in conf.mw}
             IN IF S = {} THEN Len(Builtins) + 1 ELSE Min(S)
INative ==
  /\ pc = "native" /\ Quiet
  /\ LET b == NextOn(bi) IN
       IF b > Len(Builtins)
         THEN pc' = "stage" /\ si' = 1 /\ UNCHANGED <<cvars, bi, cur>>
         ELSE /\ Ch!CAppend(cur, <<Builtins[b]>>) /\ cur' = Len(chains')
              /\ bi' = b + 1 /\ UNCHANGED <<pc, si>>
  /\ UNCHANGED <<gi, ri, ui, nests, itable, iw, hist>>

\* one Append to the chain being derived (or none)
Derive(ms) == IF Len(ms) = 0 THEN UNCHANGED <<cvars, cur>>
              ELSE Ch!CAppend(cur, ms) /\ cur' = Len(chains')

\* a constructor that hands back `next` unchanged leaves no layer
Effective(mids) == SelectSeq(mids, LAMBDA x : Real(conf, x))
Visible(w) == SelectSeq(w, LAMBDA x : ~Hidden(x))

IStage ==
  /\ pc = "stage" /\ Quiet
  /\ LET g == groups[gi]
         st == Stages[si]
         skip == Variant = "skipauth" /\ conf.custom IN
     CASE st = "auth" -> /\ Derive(IF skip THEN <<>> ELSE AuthPart(g))
                         /\ si' = si + 1 /\ UNCHANGED <<pc, gi, ri, ui, itable, iw>>
       [] st = "sig"  -> /\ Derive(IF skip THEN <<>> ELSE SigPart(g))
                         /\ si' = si + 1 /\ UNCHANGED <<pc, gi, ri, ui, itable, iw>>
       [] st = "use"  -> IF ui > Len(uses)
                           THEN si' = si + 1 /\ UNCHANGED <<cvars, cur, pc, gi, ri, ui, itable, iw>>
                           ELSE Derive(<<uses[ui]>>) /\ ui' = ui + 1 /\ UNCHANGED <<pc, gi, ri, si, itable, iw>>
       [] st = "then" -> /\ Ch!CThen(cur, "route")           \* chn.ThenFunc(route.Handler); router.Handle
                         /\ itable' = Append(itable, Effective(chains[cur]) \o nests[gi][ri])
                         /\ iw' = iw \o Visible(cwraps')
                         /\ ri' = ri + 1 /\ pc' = "route" /\ UNCHANGED <<gi, ui, si, cur>>
  /\ UNCHANGED <<bi, nests, hist>>

\* ---- requests on the bound routes -------------------------------------------------------
IBegin ==
  /\ pc = "done" /\ MaxReqs > 0
  /\ \E q \in 1..MaxReqs, r \in DOMAIN table, trig \in SUBSET TrigNames, boom \in BOOLEAN :
       /\ RBegin(q, r, trig, boom)
       /\ hist' = Append(hist, [op |-> "req", r |-> r, trig |-> trig, boom |-> boom])
  /\ UNCHANGED ivars
IEnter == (\E q \in Live : REnter(q)) /\ UNCHANGED <<ivars, hist>>
ILeave == (\E q \in Live : RLeave(q)) /\ UNCHANGED <<ivars, hist>>
IEnd   == (\E q \in Live : REnd(q))   /\ UNCHANGED <<ivars, hist>>

DoUse == \E t \in Tags : IUse(t)
DoAdd == \E g \in GroupChoices : IAdd(g)
INext == DoUse \/ DoAdd \/ IStart \/ IGroup \/ IRoute \/ INative \/ IStage
         \/ IBegin \/ IEnter \/ ILeave \/ IEnd
ISpec == IInit /\ [][INext]_vars

\* ---- refinement ---------------------------------------------------------------------------
Refines ==
  /\ \A g \in DOMAIN groups : \A r \in DOMAIN groups[g].terms :
        nests[g][r] = groups[g].mids \o <<groups[g].terms[r]>>
  /\ pc = "done" => itable = table /\ iw = wraps
  /\ pc # "done" => phase = "setup"
  /\ conf.custom => chains[1] = conf.cms                 \* the user's chain is still what it was
ChainsImmutable == Ch!Immutable
FrozenP == Frozen

\* ---- test generation -----------------------------------------------------------------------
\* a request that has just arrived is told apart only by its pipeline, the layers of it that would
\* answer, and whether the handler panics: one printed history per distinct such request
View == IF pc = "done" /\ Live # {}
          THEN <<"req", {<<reqs[q].pipe, {x \in reqs[q].trig : Has(reqs[q].pipe, x) /\ CanAnswer(x)}, reqs[q].boom /\ reqs[q].stop = Len(reqs[q].pipe), reqs[q].prog>> : q \in Live}>>
          ELSE <<conf, uses, groups, phase, table, lastop, wraps, reqs,
                 chains, hands, cwraps, creqs, pc, gi, ri, bi, ui, si, cur, nests, itable, iw>>
JustArrived == hist[Len(hist)].op = "req" /\ \A q \in Live : reqs[q].prog = 0
JustFailed  == hist[Len(hist)].op = "bind" /\ phase = "failed"
PrintHist == (Emit /\ pc = "done" /\ (JustArrived \/ JustFailed)) => PrintT("TRACE " \o ToJson(hist))
=============================================================================
