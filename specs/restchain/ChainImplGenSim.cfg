SPECIFICATION ISpec
CONSTANTS
  Tags = {"a", "b", "c"}
  Terms = {"h"}
  MaxArg = 3
  MaxLen = 8
  MaxChains = 7
  MaxHands = 2
  MaxOps = 7
  MaxReqs = 0
  Variant = "copy"
  Emit = TRUE
  EmitFrom = 7
INVARIANTS Refines PrintHist
CHECK_DEADLOCK FALSE
