----------------------------- MODULE RouteTrace -----------------------------
(* Extension "restchain" (host C09): trace validation for the pipelines rest/engine.go builds.
   Events recorded from a real rest.Server (NewServer, WithChain, Use, WithMiddlewares, AddRoutes
   with WithJwt / WithSignature, engine.bindRoutes onto a recording router) and from requests
   served by the handlers the engine handed to the router must be a behaviour of Route.tla.

     reset    mw, tmo, shed, custom, cms   NewServer with these built-ins switched on [and WithChain(cms)]
     use      t, w                     svr.Use(harness middleware t)
     add      jwt, sig, mids, terms, w WithMiddlewares(mids, routes...) ; AddRoutes(routes, options)
     bind     ok, n, w                 bindRoutes returned nil / an error after n router.Handle calls
     begin    q, r, trig, boom         request q goes to the handler of the r-th Handle call
     enter    q, tag, caps, stk        a harness layer is entered; caps = built-ins in effect around it,
                                       stk = built-ins and gates on its call stack, outermost first
     leave    q, tag
     end      q, code                  ServeHTTP returned (code 0: it panicked)
     fin      w

   The built-in handlers and the auth / signature gates do not write events: their steps of the
   walk are taken silently (Passage!PJump); that they are there, and where, shows in caps, in
   which layer answers, and in the status code.  w = harness constructors called since the
   previous event that carries a w.                                                        *)
EXTENDS Route, TraceKit

VARIABLE l
tvars == <<conf, uses, groups, phase, table, lastop, wraps, reqs, l>>

E == Trace[l]
IsEvent(e) == l <= Len(Trace) /\ E.e = e /\ l' = l + 1

TReset ==
  /\ IsEvent("reset")
  /\ conf' = [mw |-> SeqToSet(E.mw), tmo |-> E.tmo, shed |-> E.shed, custom |-> E.custom, cms |-> E.cms]
  /\ uses' = <<>> /\ groups' = <<>> /\ phase' = "setup" /\ table' = <<>>
  /\ lastop' = "new" /\ wraps' = <<>> /\ reqs' = <<>>

TUse == IsEvent("use") /\ RUse(E.t) /\ E.w = wraps'

TAdd == /\ IsEvent("add")
        /\ LET g == [jwt |-> E.jwt, sig |-> E.sig, mids |-> E.mids, terms |-> E.terms] IN
             AddWrapsOK(g, E.w) /\ RAdd(g, E.w)

TBind == /\ IsEvent("bind") /\ RBind
         /\ E.ok = (phase' = "bound") /\ E.n = Len(table') /\ E.w = wraps'

TBegin == IsEvent("begin") /\ RBegin(E.q, E.r, SeqToSet(E.trig), E.boom)

Silent(r, j) == Hidden(r.pipe[StepIdx(r, j)])
Same == UNCHANGED <<conf, uses, groups, phase, table, lastop, wraps>>

\* the next step of q that a harness layer can see is this one
TEnter == /\ IsEvent("enter") /\ Same
          /\ \E k \in 1..(2 * Len(table[reqs[E.q].r])) :
               /\ PJump(E.q, k, Silent)
               /\ LET r == reqs[E.q] IN
                    /\ StepKind(r, k) = "enter" /\ r.pipe[StepIdx(r, k)] = E.tag
                    /\ SeqToSet(E.caps) = CapsAt(r.pipe, StepIdx(r, k))
                    /\ E.stk = SeenAt(r.pipe, StepIdx(r, k))
TLeave == /\ IsEvent("leave") /\ Same
          /\ \E k \in 1..(2 * Len(table[reqs[E.q].r])) :
               /\ PJump(E.q, k, Silent)
               /\ LET r == reqs[E.q] IN StepKind(r, k) = "leave" /\ r.pipe[StepIdx(r, k)] = E.tag
\* ServeHTTP returned: whatever is left of the walk is invisible
TEnd == /\ IsEvent("end") /\ Same /\ E.q \in Live
        /\ LET r == reqs[E.q] IN
             /\ \A j \in (r.prog + 1)..Steps(r) : Silent(r, j)
             /\ E.code = CodeOf(r)
        /\ reqs' = [x \in Live \ {E.q} |-> reqs[x]]

TFin == IsEvent("fin") /\ Live = {} /\ E.w = <<>> /\ UNCHANGED <<conf, uses, groups, phase, table, lastop, wraps, reqs>>

TInit == RInit([mw |-> {}, tmo |-> FALSE, shed |-> FALSE, custom |-> FALSE, cms |-> <<>>]) /\ l = 1
TNext == TReset \/ TUse \/ TAdd \/ TBind \/ TBegin \/ TEnter \/ TLeave \/ TEnd \/ TFin
TSpec == TInit /\ [][TNext]_tvars

HW == HighWater(l)
=============================================================================
