SPECIFICATION ISpec
CONSTANTS
  Tags = {"a"}
  MwSets <- MwNone
  CustomChains <- CcNone
  Tmos = {TRUE}
  MaxUses = 1
  MaxGroups = 2
  MaxMids = 1
  MaxTerms = 1
  SigChoices = {"off", "bad"}
  TrigNames <- TrNone
  MaxReqs = 1
  Variant = "asis"
  Emit = TRUE
INVARIANTS Refines PrintHist
VIEW View
CHECK_DEADLOCK FALSE
