----------------------------- MODULE ChainTrace -----------------------------
(* Extension "restchain" (host C09): trace validation for package rest/chain.  Events recorded
   from the real chain.New / Append / Prepend / Then / ThenFunc and from requests served by the
   handlers they return must be a behaviour of Chain.tla.

     new      ms, c          New(ms...) is the c-th chain created
     append   c, ms, r       chains[c].Append(ms...) is the r-th chain created
     prepend  c, ms, r       chains[c].Prepend(ms...)
     scribble                the caller overwrote a slice it had passed in earlier
     then     c, t, h        chains[c].Then / ThenFunc (t = "mux" for nil) returned the h-th handler
     begin    q, h, blk      request q is handed to handler h; middlewares tagged blk answer themselves
     enter / leave  q, tag   a harness middleware / the terminal handler is entered / returns
     end      q, code        ServeHTTP returned to the driver
     fin                     end of the history

   Every structural event and "fin" carries w: the middleware constructors the harness saw called
   since the previous such event, in call order ("middlewares are only called upon a call to
   Then() or ThenFunc()", once each, innermost first; none while requests are served: such a call
   would show up in the next structural event).                                   *)
EXTENDS Chain, TraceKit

VARIABLE l
tvars == <<chains, hands, wraps, reqs, l>>

E == Trace[l]
IsEvent(e) == l <= Len(Trace) /\ E.e = e /\ l' = l + 1

TReset    == IsEvent("reset") /\ chains' = <<>> /\ hands' = <<>> /\ wraps' = <<>> /\ reqs' = <<>>
TNew      == IsEvent("new")      /\ CNew(E.ms)          /\ E.c = Len(chains') /\ E.w = wraps'
TAppend   == IsEvent("append")   /\ CAppend(E.c, E.ms)  /\ E.r = Len(chains') /\ E.w = wraps'
TPrepend  == IsEvent("prepend")  /\ CPrepend(E.c, E.ms) /\ E.r = Len(chains') /\ E.w = wraps'
TScribble == IsEvent("scribble") /\ CScribble           /\ E.w = wraps'
TThen     == IsEvent("then")     /\ CThen(E.c, E.t)     /\ E.h = Len(hands')  /\ E.w = wraps'
TBegin    == IsEvent("begin")    /\ CBegin(E.q, E.h, E.blk)
\* the layer entered / left is the one the walk says
TEnter    == IsEvent("enter") /\ CEnter(E.q)
             /\ LET r == reqs'[E.q] IN StepKind(r, r.prog) = "enter" /\ r.pipe[StepIdx(r, r.prog)] = E.tag
TLeave    == IsEvent("leave") /\ CLeave(E.q)
             /\ LET r == reqs'[E.q] IN StepKind(r, r.prog) = "leave" /\ r.pipe[StepIdx(r, r.prog)] = E.tag
TEnd      == IsEvent("end") /\ E.q \in Live /\ E.code = CodeOf(reqs[E.q]) /\ CEnd(E.q)
TFin      == IsEvent("fin") /\ Live = {} /\ E.w = <<>> /\ UNCHANGED <<chains, hands, wraps, reqs>>

TInit == CInit /\ l = 1
TNext == TReset \/ TNew \/ TAppend \/ TPrepend \/ TScribble \/ TThen
         \/ TBegin \/ TEnter \/ TLeave \/ TEnd \/ TFin
TSpec == TInit /\ [][TNext]_tvars

HW == HighWater(l)
=============================================================================
