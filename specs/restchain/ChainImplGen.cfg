SPECIFICATION ISpec
CONSTANTS
  Tags = {"a", "b"}
  Terms = {"h"}
  MaxArg = 2
  MaxLen = 3
  MaxChains = 3
  MaxHands = 0
  MaxOps = 3
  MaxReqs = 0
  Variant = "copy"
  Emit = TRUE
  EmitFrom = 1
INVARIANTS Refines PrintHist
PROPERTIES ImmutableP
VIEW View
CHECK_DEADLOCK FALSE
