------------------------------- MODULE Chain -------------------------------
(* Extension "restchain" (host C09), Layer P for package rest/chain (a modified alice):

     New(ms...)            a chain holding ms (a private copy of the argument)
     c.Append(ms...)       a NEW chain  c ++ ms ; c itself is unchanged
     c.Prepend(ms...)      a NEW chain  ms ++ c ; c itself is unchanged
     c.Then(h)/ThenFunc(f) the handler m1(m2(...mn(h))): every middleware constructor of c
                           is called exactly once per Then, innermost first; nil stands for
                           http.DefaultServeMux ("mux"); New/Append/Prepend call no constructor
     serving a handler     the request passes m1 .. mn and then h, each once, in that order,
                           and unwinds in reverse (module Passage); a middleware that answers
                           itself cuts the walk short

   "chain is effectively immutable: once created, it will always hold the same set of
   middlewares in the same order" (chain.go): the value of a chain never changes, whatever
   is done with other chains or with the slices that were passed in (Immutable below).

   Chains and handlers are numbered in order of creation.                              *)
EXTENDS Passage

VARIABLES
  chains,   \* chains[i]: sequence of middleware tags of the i-th chain created, outermost first
  hands,    \* hands[i]: [mids, term] of the i-th handler built by Then / ThenFunc
  wraps     \* middleware constructors invoked by the last operation, in call order

cvars == <<chains, hands, wraps, reqs>>

CInit == chains = <<>> /\ hands = <<>> /\ wraps = <<>> /\ reqs = <<>>

CNew(ms) ==
  /\ chains' = Append(chains, ms)
  /\ wraps' = <<>> /\ UNCHANGED <<hands, reqs>>

CAppend(c, ms) ==
  /\ c \in DOMAIN chains
  /\ chains' = Append(chains, chains[c] \o ms)
  /\ wraps' = <<>> /\ UNCHANGED <<hands, reqs>>

CPrepend(c, ms) ==
  /\ c \in DOMAIN chains
  /\ chains' = Append(chains, ms \o chains[c])
  /\ wraps' = <<>> /\ UNCHANGED <<hands, reqs>>

\* the caller overwrites a slice it once passed to New/Append/Prepend: nothing happens
CScribble ==
  /\ wraps' = <<>> /\ UNCHANGED <<chains, hands, reqs>>

\* t = "mux" when the argument was nil
CThen(c, t) ==
  /\ c \in DOMAIN chains
  /\ hands' = Append(hands, [mids |-> chains[c], term |-> t])
  /\ wraps' = Reverse(chains[c])
  /\ UNCHANGED <<chains, reqs>>

\* the pipeline of handler h, and where a request stops when the middlewares tagged blk
\* answer themselves ("" = none does)
PipeOf(h) == hands[h].mids \o <<hands[h].term>>
StopOf(h, blk) ==
  LET S == {i \in 1..Len(hands[h].mids) : hands[h].mids[i] = blk}
  IN IF S = {} THEN Len(hands[h].mids) + 1 ELSE Min(S)

CBegin(q, h, blk) ==
  /\ h \in DOMAIN hands
  /\ PBegin(q, [pipe |-> PipeOf(h), stop |-> StopOf(h, blk), prog |-> 0, h |-> h])
  /\ UNCHANGED <<chains, hands, wraps>>
CEnter(q) == PEnter(q) /\ UNCHANGED <<chains, hands, wraps>>
CLeave(q) == PLeave(q) /\ UNCHANGED <<chains, hands, wraps>>
CEnd(q)   == PEnd(q)   /\ UNCHANGED <<chains, hands, wraps>>

\* status the client sees: a middleware that answers itself says 418 (harness convention)
CodeOf(r) == IF r.stop < Len(r.pipe) THEN 418 ELSE 200

\* ---- properties ---------------------------------------------------------------------
\* (action property) no operation changes an existing chain or handler
ImmutableStep ==
  /\ \A i \in DOMAIN chains : i \in DOMAIN chains' /\ chains'[i] = chains[i]
  /\ \A i \in DOMAIN hands  : i \in DOMAIN hands'  /\ hands'[i] = hands[i]
Immutable == [][ImmutableStep]_cvars
\* a request in flight walks the pipeline its handler had when it was built
WalksOwnHandler == \A q \in Live : reqs[q].pipe = PipeOf(reqs[q].h)
=============================================================================
