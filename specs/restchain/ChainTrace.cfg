SPECIFICATION TSpec
CONSTRAINT HW
INVARIANTS WalkOK WalksOwnHandler
POSTCONDITION Accepted
CHECK_DEADLOCK FALSE
