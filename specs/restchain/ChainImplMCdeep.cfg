SPECIFICATION ISpec
CONSTANTS
  Tags = {"a", "b"}
  Terms = {"h"}
  MaxArg = 1
  MaxLen = 4
  MaxChains = 5
  MaxHands = 1
  MaxOps = 5
  MaxReqs = 0
  Variant = "copy"
  Emit = FALSE
  EmitFrom = 1
INVARIANTS Refines WalkOK WalksOwnHandler
PROPERTIES ImmutableP
VIEW View
CHECK_DEADLOCK FALSE
