------------------------------- MODULE Route -------------------------------
(* Extension "restchain" (host C09), Layer P for the per-route middleware pipeline that
   rest/engine.go builds when the server starts (bindRoutes):

     NewServer(conf [, WithChain(c)])   conf.Middlewares switches the built-in handlers on/off
     svr.Use(m)                         global middlewares, in the order of the Use calls
     WithMiddlewares(ms, routes...)     per-route middlewares, ms[1] outermost (server_test.go
                                        TestMultiMiddlewares); constructors run right here
     svr.AddRoutes(routes, WithJwt, WithSignature)     a group of routes with its options
     start (bindRoutes)                 every route of every group gets the pipeline

        base ++ [auth] ++ [signature] ++ Use middlewares ++ route middlewares ++ <<handler>>

   where base = the enabled built-in handlers in the fixed order of
   buildChainWithNativeMiddlewares, or -- with WithChain(c) -- the middlewares of c instead
   ("uses the given chain to replace the default chain.  JWT auth middleware and the
   middlewares that added by svr.Use() will be appended", server.go).  A group whose
   signature setting is strict but has no private keys stops the start with
   ErrSignatureConfig: the groups before it are bound, it and the later ones are not.

   A request passes its route's pipeline as in Passage.tla.  Which layer answers is decided by
   what the request carries (trig): an oversized body is answered by maxbytes (413), a broken
   gzip body by gunzip (400), a missing token by auth (401), a missing signature by a strict
   signature layer (403), a harness middleware told to answer says 418 -- the FIRST such
   layer of the pipeline wins, which is how the order of the layers is observed.  A handler
   that panics gives 500 when the recover handler is in the pipeline, else the panic reaches
   the caller (code 0).  The harness layers also report which of trace / log / timeout is in
   effect around them (caps) and which built-in handlers and gates are on their call stack (stk):
   that is how the presence and the order of the layers that never answer are observed.                                                            *)
EXTENDS Passage

Builtins == <<"trace", "log", "prometheus", "maxconns", "breaker", "shedding", "timeout",
              "recover", "metrics", "maxbytes", "gunzip">>
BuiltinSet == {Builtins[i] : i \in DOMAIN Builtins}
Gates      == {"auth", "sig", "siglax"}
CapNames   == {"trace", "log", "timeout"}
SigKinds   == {"off", "strict", "lax", "nokeys", "bad"}
   \* nokeys: signature enabled, not strict, no private keys (no layer)
   \* bad:    signature enabled, strict, no private keys (start fails)

VARIABLES
  conf,     \* [mw: enabled built-ins, tmo: conf.Timeout > 0, shed: conf.CpuThreshold > 0,
            \*  custom: WithChain given, cms: its middlewares]
  uses,     \* tags of the Use middlewares, in call order
  groups,   \* AddRoutes calls: [jwt, sig, mids, terms]; mids = WithMiddlewares list, terms = handler names
  phase,    \* "setup" | "bound" | "failed"
  table,    \* table[i] = pipeline (layer names, outermost first, handler last) of the i-th route bound
  lastop,   \* the API call that produced this state
  wraps     \* harness middleware constructors called by that call, in call order

rvars == <<conf, uses, groups, phase, table, lastop, wraps, reqs>>

\* ---- the pipeline law ------------------------------------------------------------------
RECURSIVE Flat(_)
Flat(ss) == IF Len(ss) = 0 THEN <<>> ELSE Head(ss) \o Flat(Tail(ss))
Filter(s, S) == SelectSeq(s, LAMBDA x : x \in S)

\* a timeout of 0 makes TimeoutHandler hand back the next handler unchanged, and so does
\* SheddingHandler when there is no shedder (CpuThreshold 0)
Real(cf, b) == ((b = "timeout") => cf.tmo) /\ ((b = "shedding") => cf.shed)
Native(cf) == Filter(Builtins, {b \in cf.mw : Real(cf, b)})
Base(cf)   == IF cf.custom THEN cf.cms ELSE Native(cf)
AuthPart(g) == IF g.jwt THEN <<"auth">> ELSE <<>>
SigPart(g)  == CASE g.sig = "strict" -> <<"sig">> [] g.sig = "lax" -> <<"siglax">> [] OTHER -> <<>>
Pipeline(cf, us, g, i) ==
  Base(cf) \o AuthPart(g) \o SigPart(g) \o us \o g.mids \o <<g.terms[i]>>

FirstBad(gs) == LET B == {i \in DOMAIN gs : gs[i].sig = "bad"}
                IN IF B = {} THEN Len(gs) + 1 ELSE Min(B)
TableOf(cf, us, gs) ==
  Flat([i \in 1..(FirstBad(gs) - 1) |-> [j \in 1..Len(gs[i].terms) |-> Pipeline(cf, us, gs[i], j)]])

\* harness middlewares whose constructors run at start, per route: innermost first
BuiltAtBind(cf, us) == Reverse((IF cf.custom THEN cf.cms ELSE <<>>) \o us)
BindWraps(cf, us, gs) == Flat([i \in 1..Len(TableOf(cf, us, gs)) |-> BuiltAtBind(cf, us)])

\* w interleaves k copies of s (WithMiddlewares wraps k routes with the same list; per route
\* the constructors necessarily run innermost first, across routes any order will do)
ShuffleOK(s, k, w) ==
  LET L == Len(s)
      Start == [p \in 0..L |-> IF p = 0 THEN k ELSE 0]
      R[n \in 0..Len(w)] ==
        IF n = 0 THEN {Start}
        ELSE {[v EXCEPT ![p] = @ - 1, ![p + 1] = @ + 1] :
                <<v, p>> \in {x \in R[n - 1] \X (0..(L - 1)) : x[1][x[2]] > 0 /\ s[x[2] + 1] = w[n]}}
  IN Len(w) = k * L /\ R[Len(w)] # {}
AddWrapsOK(g, w) == ShuffleOK(Reverse(g.mids), Len(g.terms), w)

\* ---- actions ---------------------------------------------------------------------------
RInit(cf) ==
  /\ conf = cf /\ uses = <<>> /\ groups = <<>> /\ phase = "setup" /\ table = <<>>
  /\ lastop = "new" /\ wraps = <<>> /\ reqs = <<>>

RUse(t) ==
  /\ phase = "setup"
  /\ uses' = Append(uses, t)
  /\ lastop' = "use" /\ wraps' = <<>>
  /\ UNCHANGED <<conf, groups, phase, table, reqs>>

\* WithMiddlewares(g.mids, routes...) + AddRoutes(routes, options): w = constructor calls seen
RAdd(g, w) ==
  /\ phase = "setup"
  /\ Len(g.terms) >= 1 /\ g.sig \in SigKinds
  /\ groups' = Append(groups, g)
  /\ lastop' = "add" /\ wraps' = w
  /\ UNCHANGED <<conf, uses, phase, table, reqs>>

RBind ==
  /\ phase = "setup"
  /\ table' = TableOf(conf, uses, groups)
  /\ phase' = IF FirstBad(groups) > Len(groups) THEN "bound" ELSE "failed"
  /\ lastop' = "bind" /\ wraps' = BindWraps(conf, uses, groups)
  /\ UNCHANGED <<conf, uses, groups, reqs>>

\* layers that can answer a request themselves
CanAnswer(x) == x \notin (BuiltinSet \ {"maxbytes", "gunzip"}) /\ x # "siglax"
StopOf(pipe, trig) ==
  LET S == {i \in 1..(Len(pipe) - 1) : pipe[i] \in trig /\ CanAnswer(pipe[i])}
  IN IF S = {} THEN Len(pipe) ELSE Min(S)

RBegin(q, r, trig, boom) ==
  /\ phase # "setup" /\ r \in DOMAIN table
  /\ PBegin(q, [pipe |-> table[r], stop |-> StopOf(table[r], trig), prog |-> 0, r |-> r, trig |-> trig, boom |-> boom])
  /\ UNCHANGED <<conf, uses, groups, phase, table, lastop, wraps>>
REnter(q) == PEnter(q) /\ UNCHANGED <<conf, uses, groups, phase, table, lastop, wraps>>
RLeave(q) == PLeave(q) /\ UNCHANGED <<conf, uses, groups, phase, table, lastop, wraps>>
REnd(q)   == PEnd(q)   /\ UNCHANGED <<conf, uses, groups, phase, table, lastop, wraps>>

\* ---- what the client and the harness layers see ------------------------------------------
LayerCode(x) == CASE x = "maxbytes" -> 413 [] x = "gunzip" -> 400 [] x = "auth" -> 401
                  [] x = "sig" -> 403 [] OTHER -> 418
Has(pipe, x) == \E i \in 1..Len(pipe) : pipe[i] = x
CodeOf(r) == IF r.stop < Len(r.pipe) THEN LayerCode(r.pipe[r.stop])
             ELSE IF r.boom THEN (IF Has(r.pipe, "recover") THEN 500 ELSE 0)
             ELSE 200
CapsAt(pipe, i) == {b \in CapNames : \E j \in 1..(i - 1) : pipe[j] = b}
\* layers the harness cannot see entering / leaving
Hidden(x) == x \in BuiltinSet \cup Gates
\* ... but a harness layer sees them on its call stack, outermost first, back to where its goroutine
\* started: the timeout handler runs everything inside it in a goroutine of its own.  (A lax
\* signature layer is the same function as a strict one.)
Max(S) == CHOOSE x \in S : \A y \in S : x >= y
StackName(x) == IF x = "siglax" THEN "sig" ELSE x
SeenAt(pipe, i) ==
  LET T    == {j \in 1..(i - 1) : pipe[j] = "timeout"}
      from == IF T = {} THEN 1 ELSE Max(T)
      s    == SelectSeq(SubSeq(pipe, from, i - 1), Hidden)
  IN [k \in 1..Len(s) |-> StackName(s[k])]

\* ---- properties --------------------------------------------------------------------------
\* the table is the pipeline law applied to what was configured, and is never rebuilt
TableLaw == phase # "setup" => table = TableOf(conf, uses, groups)
Frozen == [][phase # "setup" => UNCHANGED <<conf, uses, groups, phase, table>>]_rvars
\* constructor calls: none by New/Use, per route innermost first by WithMiddlewares, every
\* harness middleware of the chain once per bound route at start
WrapsLaw == CASE lastop = "add"  -> AddWrapsOK(groups[Len(groups)], wraps)
              [] lastop = "bind" -> wraps = BindWraps(conf, uses, groups)
              [] OTHER -> wraps = <<>>
ServesOwnRoute == \A q \in Live : reqs[q].pipe = table[reqs[q].r]
=============================================================================
