SPECIFICATION ISpec
CONSTANTS
  Tags = {"a", "b"}
  MwSets <- MwGen
  CustomChains <- CcSmall
  Tmos = {TRUE}
  MaxUses = 1
  MaxGroups = 1
  MaxMids = 1
  MaxTerms = 1
  SigChoices = {"off", "strict"}
  TrigNames <- TrAll
  MaxReqs = 1
  Variant = "asis"
  Emit = TRUE
INVARIANTS Refines PrintHist
VIEW View
CHECK_DEADLOCK FALSE
