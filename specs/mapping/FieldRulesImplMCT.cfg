\* Layer I => Layer P: the decision procedure of core/mapping (both repairs in) satisfies Judge on every vector (thorough: all sources)
SPECIFICATION ISpec
CONSTANTS
  Sources = {"json", "yaml", "toml", "conf", "confyaml", "conftoml", "body", "map", "form", "formpost", "path", "header"}
  Wraps = {"flat"}
  Kinds = {"int", "float64", "string", "bool"}
  AOpts = {"none", "plain", "dep", "notdep"}
  Defs = {"none", "in", "out"}
  Rngs = {"none", "cc", "oc", "frac"}
  Opts = {"none", "bar"}
  FSs = {FALSE, TRUE}
  Ptrs = {FALSE}
  BIds = {"nob", "opt", "mutual"}
  XKs = {"", "b"}
  Rich = TRUE
  Edges = FALSE
  KSps = {"lower"}
  MKs = {"k"}
  Unit = 2
  Multi = FALSE
  XVs = {"one"}
  Depth = 1
  Emit = FALSE
  DropOnRebuild = FALSE
  CanonBang = FALSE
  WideParse = FALSE
  MapAsStruct = FALSE
  RoundFirst = FALSE
  IndexFirst = FALSE
INVARIANTS InvNoPanic InvCompleteness InvSoundness InvValues InvHistoryIndependent InvClassesDisjoint
VIEW GView
CHECK_DEADLOCK FALSE
