\* Layer I => Layer P on the parameter multimaps: keys without a value, keys with two values, list fields of form and header
SPECIFICATION ISpec
CONSTANTS
  Sources = {"form", "formpost", "header"}
  Wraps = {"flat"}
  Kinds = {"int", "string", "bool", "strs", "ints"}
  AOpts = {"none", "plain", "dep", "notdep"}
  Defs = {"none", "in"}
  Rngs = {"none", "cc"}
  Opts = {"none", "bar"}
  FSs = {FALSE}
  Ptrs = {FALSE}
  BIds = {"nob"}
  XKs = {"", "b", "zz"}
  Rich = FALSE
  Edges = FALSE
  KSps = {"lower"}
  MKs = {"k"}
  Unit = 2
  Multi = TRUE
  XVs = {"one", "none", "two"}
  Depth = 1
  Emit = FALSE
  DropOnRebuild = FALSE
  CanonBang = FALSE
  WideParse = FALSE
  MapAsStruct = FALSE
  RoundFirst = FALSE
  IndexFirst = FALSE
INVARIANTS InvNoPanic InvCompleteness InvSoundness InvValues InvHistoryIndependent InvClassesDisjoint
VIEW GView
CHECK_DEADLOCK FALSE
