\* design level: go-zero's way of filling list fields (a new array per call) keeps every target isolated:
\* exact values for every call, history independence, held targets change only by their holder
SPECIFICATION ASpec
CONSTANTS
  Share = FALSE
  MaxT = 3
  MaxOps = 7
  Emit = FALSE
INVARIANTS InvNoPanic InvCompleteness InvSoundness InvValues InvHistoryIndependent InvIsolated InvView
VIEW AView
CHECK_DEADLOCK FALSE
