--------------------------- MODULE FieldRulesAlias ---------------------------
(* Layer I for the "targets" part of FieldRules (C08 clause (d) over *sequences* of
   calls): a memory model of how core/mapping fills a list field.

   The unmarshaller owns process-wide caches: optionsCache (the parsed tag, including the
   text of the default) and defaultCache (the *parsed* default of a slice field, a []any
   keyed by the default text - fillSliceWithDefault).  A target handed to a caller holds
   its list by reference (a Go slice = address of a backing array).  The caller may write
   into its own target.  Memory is modelled explicitly:

     arr      address |-> array contents (sequence of words)
     cacheAt  address of the parsed default kept in defaultCache (0: not parsed yet)
     ref      target id |-> address of the array behind its list field
     view     target id |-> what its holder believes the list holds (ghost)

   The field is  a []string `json:"a,default=[p,q],optional"` ; a call supplies either
   nothing (the default is filled) or the list [x,y].

     Share = FALSE  go-zero: fillSlice builds a new array for every call (copying the
                    elements of the cached default)                     -> all invariants hold
     Share = TRUE   seeded defect class: the cached default itself is handed out when it
                    already has the wanted type                          -> counterexample

   Every action is the Layer-P action of the same name (Record0 + held, Mutate, Drop); the
   property is stated by the FieldRules invariants on the last outcome (InvValues: exactly
   the supplied values / the declared default; InvHistoryIndependent) and by InvIsolated
   (= FieldRules!Look would succeed for every held target in every reachable state).

   The module also generates the scripts (sequences of u/m/d operations, one shortest
   script per reachable memory state) that the Go driver TestVerifRulesAlias replays on
   the real unmarshallers for every vector with reference-typed content.            *)
EXTENDS FieldRules, Json

CONSTANTS
  Share,    \* BOOLEAN, see above
  MaxT,     \* number of targets a caller holds at a time
  MaxOps,   \* length of a script
  Emit      \* BOOLEAN: print the scripts

VARIABLES arr, cacheAt, ref, view, next, hist

avars == <<seen, cur, res, memo, held, arr, cacheAt, ref, view, next, hist>>

\* ---------------------------------------------------------------- the one type
FldA == [nm |-> "a", k |-> "strs", u |-> 2, ptr |-> FALSE, opt |-> "plain", dep |-> "",
         hd |-> TRUE, dn |-> 2, ds |-> "p,q",
         hr |-> FALSE, lo |-> 0, hi |-> 0, li |-> FALSE, ri |-> FALSE, hlo |-> FALSE, hhi |-> FALSE,
         ho |-> FALSE, on |-> <<>>, os |-> <<>>, osyn |-> "bar", fs |-> FALSE]
Inputs == <<VAbsent, VList(2, "x,y")>>            \* input 1: nothing supplied, input 2: [x,y]
Words(j) == IF j = 1 THEN <<"p", "q">> ELSE <<"x", "y">>   \* what input j must leave in the target
VecA(j) == [src |-> "json", wrap |-> "flat", wabs |-> FALSE, f |-> <<FldA>>, in |-> <<Inputs[j]>>,
            xk |-> <<>>, xv |-> <<>>, ksp |-> "lower", mk |-> "k"]

Join(s) == IF Len(s) = 0 THEN "" ELSE IF Len(s) = 1 THEN s[1] ELSE s[1] \o "," \o s[2]
ListVal(s) == VList(Len(s), Join(s))

\* ---------------------------------------------------------------- memory
Alloc(a, content) == Append(a, content)          \* the new address is Len(a) + 1

AInit ==
  /\ FInit
  /\ arr = <<>> /\ cacheAt = 0 /\ ref = <<>> /\ view = <<>> /\ next = 1 /\ hist = <<>>

\* one unmarshal call with input j; the caller keeps the target as `next`
Unm(j) ==
  /\ Cardinality(DOMAIN held) < MaxT
  /\ LET \* fillSliceWithDefault: parse the default once, keep it in defaultCache
         arr1   == IF j = 1 /\ cacheAt = 0 THEN Alloc(arr, <<"p", "q">>) ELSE arr
         cache1 == IF j = 1 /\ cacheAt = 0 THEN Len(arr1) ELSE cacheAt
         \* fillSlice: a new array, the elements copied from the source
         source == IF j = 1 THEN arr1[cache1] ELSE <<"x", "y">>
         shared == j = 1 /\ Share
         arr2   == IF shared THEN arr1 ELSE Alloc(arr1, source)
         addr   == IF shared THEN cache1 ELSE Len(arr2)
         o      == [acc |-> TRUE, pan |-> FALSE, out |-> <<ListVal(arr2[addr])>>, mk |-> <<>>]
     IN /\ arr' = arr2 /\ cacheAt' = cache1
        /\ ref' = ref @@ (next :> addr)
        /\ view' = view @@ (next :> arr2[addr])
        /\ Record0(VecA(j), VecA(j), o)
        /\ held' = held @@ (next :> o.out)
  /\ next' = next + 1
  /\ hist' = Append(hist, <<"u", j>>)

\* the holder of tg overwrites element i of its list in place
Mut(tg, i, w) ==
  /\ tg \in DOMAIN held
  /\ i \in DOMAIN view[tg]
  /\ view[tg][i] # w
  /\ arr' = [arr EXCEPT ![ref[tg]][i] = w]
  /\ view' = [view EXCEPT ![tg][i] = w]
  /\ Mutate(tg, <<ListVal(view'[tg])>>)
  /\ UNCHANGED <<cacheAt, ref, next>>
  /\ hist' = Append(hist, <<"m", tg>>)

Forget(tg) ==
  /\ Drop(tg)
  /\ ref' = [t \in DOMAIN ref \ {tg} |-> ref[t]]
  /\ view' = [t \in DOMAIN view \ {tg} |-> view[t]]
  /\ UNCHANGED <<arr, cacheAt, next>>
  /\ hist' = Append(hist, <<"d", tg>>)

ANext ==
  /\ Len(hist) < MaxOps
  /\ \/ \E j \in {1, 2} : Unm(j)
     \/ \E tg \in DOMAIN held, i \in {1, 2} : Mut(tg, i, "z")
     \/ \E tg \in DOMAIN held : Forget(tg)
ASpec == AInit /\ [][ANext]_avars

\* ---------------------------------------------------------------- the property
\* what FieldRules!Look demands, in every state and for every held target
InvIsolated == \A tg \in DOMAIN held : TargetsAreIsolated(tg, <<ListVal(arr[ref[tg]])>>)
\* the ghost is consistent with Layer P
InvView == \A tg \in DOMAIN held : held[tg] = <<ListVal(view[tg])>>

\* one script per reachable memory state (the history is hidden from the state space)
AView == <<arr, cacheAt, ref, view, held, cur, res>>
PrintScript == (Emit /\ Len(hist) > 1) => PrintT("TRACE " \o ToJson([ops |-> hist]))
=============================================================================
