\* Layer I => Layer P on the widths of the integer kinds, list fields, key spellings and map keys
SPECIFICATION ISpec
CONSTANTS
  Sources = {"json", "form", "conf"}
  Wraps = {"flat", "map"}
  Kinds = {"int8", "uint8", "uint16", "strs"}
  AOpts = {"none", "plain"}
  Defs = {"none", "in"}
  Rngs = {"none", "big"}
  Opts = {"none"}
  FSs = {FALSE, TRUE}
  Ptrs = {FALSE}
  BIds = {"nob"}
  XKs = {""}
  Rich = TRUE
  Edges = TRUE
  KSps = {"lower", "cap"}
  MKs = {"k", "a", "A"}
  Unit = 2
  Multi = FALSE
  XVs = {"one"}
  Depth = 1
  Emit = FALSE
  DropOnRebuild = FALSE
  CanonBang = FALSE
  WideParse = FALSE
  MapAsStruct = FALSE
  RoundFirst = FALSE
  IndexFirst = FALSE
INVARIANTS InvNoPanic InvCompleteness InvSoundness InvValues InvHistoryIndependent InvClassesDisjoint
VIEW GView
CHECK_DEADLOCK FALSE
