\* quick: every source (documents, typed map, form, path, header, config loaders)
SPECIFICATION GSpec
CONSTANTS
  Sources = {"json", "yaml", "toml", "conf", "confyaml", "conftoml", "body", "map", "form", "formpost", "path", "header"}
  Wraps = {"flat"}
  Kinds = {"int", "string"}
  AOpts = {"none", "dep", "notdep"}
  Defs = {"none", "out"}
  Rngs = {"none", "oc"}
  Opts = {"none", "bar"}
  FSs = {FALSE, TRUE}
  Ptrs = {FALSE, TRUE}
  BIds = {"nob"}
  XKs = {"", "b"}
  Rich = FALSE
  Edges = FALSE
  KSps = {"lower"}
  MKs = {"k"}
  Unit = 2
  Multi = FALSE
  XVs = {"one"}
  Depth = 1
  Emit = TRUE
INVARIANTS InvNoPanic InvCompleteness InvSoundness InvValues InvHistoryIndependent InvClassesDisjoint PrintVec
VIEW GView
CHECK_DEADLOCK FALSE
