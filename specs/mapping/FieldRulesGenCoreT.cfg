\* thorough: one field, JSON document and typed map, full product
SPECIFICATION GSpec
CONSTANTS
  Sources = {"json", "map"}
  Wraps = {"flat"}
  Kinds = {"int", "uint8", "float64", "string", "bool"}
  AOpts = {"none", "plain"}
  Defs = {"none", "in", "out"}
  Rngs = {"none", "cc", "oc", "co", "oo", "ge", "lt", "frac", "pt"}
  Opts = {"none", "bar", "list", "wide", "frac"}
  FSs = {FALSE, TRUE}
  Ptrs = {FALSE}
  BIds = {"nob"}
  XKs = {""}
  Rich = TRUE
  Edges = FALSE
  KSps = {"lower"}
  MKs = {"k"}
  Unit = 2
  Multi = FALSE
  XVs = {"one"}
  Depth = 1
  Emit = TRUE
INVARIANTS InvNoPanic InvCompleteness InvSoundness InvValues InvHistoryIndependent InvClassesDisjoint PrintVec
VIEW GView
CHECK_DEADLOCK FALSE
