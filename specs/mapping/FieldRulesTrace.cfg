SPECIFICATION TSpec
CONSTRAINT HW
POSTCONDITION AcceptedC08
CHECK_DEADLOCK FALSE
