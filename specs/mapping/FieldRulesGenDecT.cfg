\* thorough: decimal families - float and int fields, numbers in twentieths, every source with a text
SPECIFICATION GSpec
CONSTANTS
  Sources = {"json", "yaml", "toml", "conf", "confyaml", "conftoml", "body", "form", "formpost", "path", "header"}
  Wraps = {"flat"}
  Kinds = {"float32", "float64", "int"}
  AOpts = {"plain"}
  Defs = {"none", "in"}
  Rngs = {"none", "d1", "d7", "d1c", "d7c", "d37"}
  Opts = {"none", "dec"}
  FSs = {FALSE, TRUE}
  Ptrs = {FALSE, TRUE}
  BIds = {"nob"}
  XKs = {""}
  Rich = FALSE
  Edges = FALSE
  KSps = {"lower"}
  MKs = {"k"}
  Unit = 20
  Multi = FALSE
  XVs = {"one"}
  Depth = 1
  Emit = TRUE
INVARIANTS InvNoPanic InvCompleteness InvSoundness InvValues InvHistoryIndependent InvClassesDisjoint PrintVec
VIEW GView
CHECK_DEADLOCK FALSE
