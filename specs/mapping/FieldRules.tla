----------------------------- MODULE FieldRules -----------------------------
(* Property C08 - declarative validation of go-zero's unmarshaller.

   This module is a transcription of the *constraint semantics of the property
   statement*, not of core/mapping/unmarshaler.go:

     Unmarshalling succeeds only if
       (a) every scalar field that is neither optional nor defaulted was supplied,
       (b) every supplied numeric field lies inside its declared range
           (respecting open/closed ends),
       (c) every supplied field with declared options holds one of them,
     regardless of how optional/default/dependency options are combined on that or
     other fields, and then
       (d) the target holds exactly the supplied values, defaults filled for the
           absent ones.
     Conversely (e) input meeting all declared constraints with correctly typed
     values is accepted, and (f) no input makes the unmarshaller panic.

   A *vector* is (source, wrapper, type = sequence of field specs, input = one
   value class per field + extra keys).  Judge(v, o) says whether an observed
   outcome o = (accepted?, panicked?, resulting value per field) is allowed for v.
   Where the statement is silent (null, an empty form value, wrongly typed values,
   a supplied field whose optional=dep / optional=!dep partner makes it
   "superfluous") Judge allows acceptance as well as rejection - but clauses
   (a)-(c) are demanded of *every* accepted outcome, on the resulting values.

   Numbers are carried as integers in *units*: every field spec names its unit f.u and
   the number n of that field stands for n / f.u (TLC has no reals and the JSON traces
   carry no floats).  Most families use halves (u = 2, 1.5 is the integer 3); the decimal
   families use twentieths (u = 20: 0.1 = 2, 0.25 = 5, 0.7 = 14), which contain decimals
   that no binary floating-point format holds exactly.  The clauses compare the numbers
   *as supplied* (exact rationals): the declared range binds the number in the document
   or parameter, not what is left of it after rounding into the field's kind.  A float
   field "holds" a supplied number when it holds the value of its kind nearest to it.

   Parameter maps: the form and header sources are multimaps (name |-> list of texts).
   The ordinary value classes are lists of exactly one text; "novals" is a key present
   with an empty list (what r.Header[k] = r.Header[k][:0] leaves behind), "num2"/"str2"
   a key with two texts.  Whether a key without values counts as supplied, and which of
   two values a scalar field takes, the statement does not say: either verdict, but no
   panic, and (a)-(d) bind whatever is accepted.

   The only real state of the subsystem is its caches (optionsCache keyed by the
   tag text, cacheKeys, defaultCache, structRequiredCache keyed by type): `seen`
   is the history of tags used so far, `memo` remembers the first outcome of every
   vector, and VerdictIsHistoryIndependent demands that a vector's outcome never
   changes with the history.  The history includes what callers did with the
   targets earlier calls handed to them: `held` are the targets still in a caller's
   hands, Mutate is a caller writing into its own target in place, Look demands
   that a held target holds what its holder left there (TargetsAreIsolated).

   Widths: a number supplied for a numeric field and accepted is held exactly, so a
   number outside the width of the kind (Fits) can only be rejected.  Keys: the
   configuration sources match document keys case-insensitively (v.ksp is not read
   by any clause), the keys of a map are data and held verbatim (MapKeysVerbatim). *)
EXTENDS Integers, Sequences, FiniteSets, TLC

VARIABLES
  seen,   \* set of field specs (= tag texts) the unmarshaller has been shown so far
  cur,    \* the vector evaluated by the last step (NoVec initially)
  res,    \* its observed outcome
  memo,   \* key |-> [v, o]: first outcome observed for each vector key
  held    \* target id |-> the values of a target the caller still holds (see "targets")

fvars == <<seen, cur, res, memo, held>>

\* ------------------------------------------------------------------ values
V(t, n, s) == [t |-> t, n |-> n, s |-> s]
VAbsent    == V("absent", 0, "")      \* key not in the input
VNull      == V("null", 0, "")        \* JSON null / nil map value
VNum(n)    == V("num", n, "")         \* a number (document: bare number; string sources: its text)
VNumStr(n) == V("numstr", n, "")      \* a number spelled inside a string ("3")
VStr(s)    == V("str", 0, s)          \* a word
VBool(b)   == V("bool", b, "")        \* b in {0,1}
VNil       == V("nil", 0, "")         \* result only: nil pointer
VList(c, s) == V("list", c, s)        \* a list of c scalars, s = their texts joined by ","
VNoVals    == V("novals", 0, "")      \* multimap sources: the key is present, its list of values is empty
VNum2(n)   == V("num2", n, "")        \* multimap sources: two values, the numbers n and n + 1 (n + f.u units)
VStr2(s)   == V("str2", 0, s)         \* multimap sources: two values, the words s and Second
Second     == "z"

SeqSet(s) == {s[i] : i \in DOMAIN s}

DocSources  == {"json", "yaml", "toml", "conf", "confyaml", "conftoml", "body"}
ConfSources == {"conf", "confyaml", "conftoml"}   \* core/conf: keys are matched case-insensitively
MapSources  == {"map"}
StrSources  == {"form", "formpost", "path", "header"}
FormSources == {"form", "formpost"}    \* httpx.GetFormValues drops empty values
MultiSources == {"form", "formpost", "header"}   \* name |-> *list* of texts (url.Values, http.Header)

IntKinds     == {"int", "int8", "int16", "int32", "int64", "uint", "uint8", "uint16", "uint32", "uint64"}
UnsignedKinds == {"uint", "uint8", "uint16", "uint32", "uint64"}
FloatKinds   == {"float32", "float64"}
NumericKinds == IntKinds \cup FloatKinds
ListKinds    == {"strs", "ints"}       \* []string, []int (no range / options / string option)

\* the width of the integer kinds, in halves.  Kinds of 32 bits and more have no end the
\* model can name (TLC integers and the integers of the JSON traces are 32 bits wide).
HasMax(k) == k \in {"int8", "int16", "uint8", "uint16"}
MaxH(k) == CASE k = "int8" -> 254 [] k = "int16" -> 65534 [] k = "uint8" -> 510 [] k = "uint16" -> 131070 [] OTHER -> 0
HasMin(k) == k \in UnsignedKinds \cup {"int8", "int16"}
MinH(k) == CASE k = "int8" -> 0 - 256 [] k = "int16" -> 0 - 65536 [] OTHER -> 0
\* the same ends in the units of field f
MaxU(f) == (MaxH(f.k) \div 2) * f.u
MinU(f) == (MinH(f.k) \div 2) * f.u

NoVec == [src |-> "none"]
NoRes == [acc |-> FALSE, pan |-> FALSE, out |-> <<>>, mk |-> <<>>]

\* ------------------------------------------------------------------ supplied?
\* "supplied" is unambiguous for a present non-null value and for a missing key.
\* null, and an empty string in a form (dropped by GetFormValues), are ambiguous:
\* and a key of a multimap whose list of values is empty ("novals") are ambiguous:
\* the statement does not say whether they count, so they are neither
\* "definitely supplied" nor "definitely absent".
Ambiguous(src, x) == x.t = "null" \/ x.t = "novals" \/ (src \in FormSources /\ x.t = "str" /\ x.s = "")
DefAbsentV(x)     == x.t = "absent"
DefSuppliedV(src, x) == ~DefAbsentV(x) /\ ~Ambiguous(src, x)

\* by key name, for optional=dep / optional=!dep (the key may be an extra key of
\* the input that no field of the type binds)
\* (v.xv[j] is the value the extra key v.xk[j] carries)
DefSupplied(v, nm) ==
  \/ \E i \in DOMAIN v.f : v.f[i].nm = nm /\ DefSuppliedV(v.src, v.in[i])
  \/ \E j \in DOMAIN v.xk : v.xk[j] = nm /\ DefSuppliedV(v.src, v.xv[j])
DefAbsent(v, nm) ==
  /\ \A i \in DOMAIN v.f : v.f[i].nm = nm => DefAbsentV(v.in[i])
  /\ nm \notin SeqSet(v.xk)

\* is the field optional / required for this input?
DefOptional(v, f) ==
  \/ f.opt = "plain"
  \/ f.opt = "dep"    /\ DefAbsent(v, f.dep)
  \/ f.opt = "notdep" /\ DefSupplied(v, f.dep)
DefRequired(v, f) ==
  \/ f.opt = "none"
  \/ f.opt = "dep"    /\ DefSupplied(v, f.dep)
  \/ f.opt = "notdep" /\ DefAbsent(v, f.dep)

\* ------------------------------------------------------------------ constraints
InRange(f, n) ==
  /\ f.hlo => IF f.li THEN n >= f.lo ELSE n > f.lo
  /\ f.hhi => IF f.ri THEN n <= f.hi ELSE n < f.hi

\* r is a value record (input or result)
ValInRange(f, r) == r.t \in {"num", "numstr"} /\ InRange(f, r.n)
ValInOptions(f, r) ==
  IF f.k \in NumericKinds THEN r.t \in {"num", "numstr"} /\ r.n \in SeqSet(f.on)
  ELSE r.t = "str" /\ r.s \in SeqSet(f.os)

\* "correctly typed" for the source the value arrives through
Fits(f, n) ==
  f.k \in IntKinds => /\ n % f.u = 0
                      /\ HasMin(f.k) => n >= MinU(f)
                      /\ HasMax(f.k) => n <= MaxU(f)
WellTyped(src, f, x) ==
  CASE f.k \in NumericKinds ->
         /\ Fits(f, x.n)
         /\ IF src \in StrSources THEN x.t = "num"
            ELSE IF f.fs THEN x.t = "numstr" ELSE x.t = "num"
    [] f.k = "string" -> x.t = "str"
    [] f.k = "bool"   -> x.t = "bool"
    [] f.k \in ListKinds -> x.t = "list"      \* vectors carry lists of the element kind only
    [] OTHER -> FALSE

\* ------------------------------------------------------------------ resulting values
Zero(f) ==
  IF f.ptr THEN VNil
  ELSE IF f.k \in NumericKinds THEN VNum(0)
  ELSE IF f.k \in ListKinds THEN VList(0, "")     \* nil and empty slices are both "the empty list"
  ELSE IF f.k = "string" THEN VStr("") ELSE VBool(0)
ZeroVal(f) ==   \* the zero value itself (a pointer field may also point at it)
  IF f.k \in NumericKinds THEN VNum(0)
  ELSE IF f.k \in ListKinds THEN VList(0, "")
  ELSE IF f.k = "string" THEN VStr("") ELSE VBool(0)
Default(f) ==
  IF f.k \in NumericKinds THEN VNum(f.dn)
  ELSE IF f.k \in ListKinds THEN VList(f.dn, f.ds)
  ELSE IF f.k = "string" THEN VStr(f.ds) ELSE VBool(f.dn)
DefaultOrZero(f) == IF f.hd THEN Default(f) ELSE Zero(f)
Expected(f, x) ==
  IF f.k \in NumericKinds THEN VNum(x.n)
  ELSE IF f.k \in ListKinds THEN VList(x.n, x.s)
  ELSE IF f.k = "string" THEN VStr(x.s) ELSE VBool(x.n)

\* ------------------------------------------------------------------ the clauses
\* (a) a required, undefaulted *scalar* field is missing (the statement does not say
\* whether a required list may be left out: either verdict is allowed there)
MissingRequired(v, i) ==
  LET f == v.f[i] IN DefAbsentV(v.in[i]) /\ ~f.hd /\ DefRequired(v, f) /\ f.k \notin ListKinds

\* (b) (c) on the *resulting* value of an accepted outcome
RangeHolds(v, i, r) ==
  LET f == v.f[i] IN
  (DefSuppliedV(v.src, v.in[i]) /\ f.hr /\ f.k \in NumericKinds) => ValInRange(f, r)
OptionsHold(v, i, r) ==
  LET f == v.f[i] IN
  (DefSuppliedV(v.src, v.in[i]) /\ f.ho) => ValInOptions(f, r)

\* (d) exactly the supplied values, defaults for the absent ones
ValueHolds(v, i, r) ==
  LET f == v.f[i]  x == v.in[i] IN
  IF DefAbsentV(x) THEN r = DefaultOrZero(f)
  ELSE IF Ambiguous(v.src, x) THEN r \in {Zero(f), ZeroVal(f), DefaultOrZero(f)}
  ELSE IF WellTyped(v.src, f, x) THEN r = Expected(f, x)
  \* a number supplied for a numeric field that is taken is held *exactly*: a number the
  \* kind cannot hold (too wide for 8/16 bits, negative for unsigned, fractional for an
  \* integer kind) can therefore not be accepted - no wrap-around, no rounding
  ELSE IF f.k \in NumericKinds /\ x.t \in {"num", "numstr"} THEN r = VNum(x.n)
  \* two values for one scalar: the statement does not say which one is taken, but the target
  \* holds one of the supplied ones (and (b), (c) bind it)
  ELSE IF f.k \in NumericKinds /\ x.t = "num2" THEN r \in {VNum(x.n), VNum(x.n + f.u)}
  ELSE IF f.k = "string" /\ x.t = "str2" THEN r \in {VStr(x.s), VStr(Second)}
  ELSE TRUE   \* another wrongly typed value that was nevertheless taken: only (b),(c) bind

\* (e) the input meets every declared constraint with correctly typed values
FieldFine(v, i) ==
  LET f == v.f[i]  x == v.in[i] IN
  IF DefAbsentV(x) THEN
       CASE f.opt = "none"   -> f.hd
         [] f.opt = "plain"  -> TRUE
         [] f.opt = "dep"    -> DefAbsent(v, f.dep)       \* both absent
         [] f.opt = "notdep" -> DefSupplied(v, f.dep)     \* exactly one: the other one
  ELSE IF Ambiguous(v.src, x) THEN FALSE
  ELSE /\ WellTyped(v.src, f, x)
       /\ (f.hr /\ f.k \in NumericKinds) => ValInRange(f, x)
       /\ f.ho => ValInOptions(f, x)
       /\ CASE f.opt = "dep"    -> DefSupplied(v, f.dep)  \* both supplied
            [] f.opt = "notdep" -> DefAbsent(v, f.dep)    \* exactly one: this one
            [] OTHER -> TRUE
MustAccept(v) == \A i \in DOMAIN v.f : FieldFine(v, i)

\* a determinate violation of (a)-(c) by the input itself (used for classification
\* and by the design-level checks; the verdict on traces is Judge)
MustReject(v) ==
  \E i \in DOMAIN v.f :
    LET f == v.f[i]  x == v.in[i] IN
    \/ MissingRequired(v, i)
    \/ /\ DefSuppliedV(v.src, x) /\ WellTyped(v.src, f, x)
       /\ \/ f.hr /\ f.k \in NumericKinds /\ ~ValInRange(f, x)
          \/ f.ho /\ ~ValInOptions(f, x)

Class(v) == IF MustAccept(v) THEN "accept" ELSE IF MustReject(v) THEN "reject" ELSE "either"

\* ------------------------------------------------------------------ the verdict
NoPanic(v, o)            == ~o.pan
AcceptsWhatItMust(v, o)  == MustAccept(v) => o.acc
NothingRequiredMissing(v, o) == o.acc => \A i \in DOMAIN v.f : ~MissingRequired(v, i)
AcceptedInRange(v, o)    == o.acc => \A i \in DOMAIN v.f : RangeHolds(v, i, o.out[i])
AcceptedInOptions(v, o)  == o.acc => \A i \in DOMAIN v.f : OptionsHold(v, i, o.out[i])
AcceptedHoldsValues(v, o) == o.acc => \A i \in DOMAIN v.f : ValueHolds(v, i, o.out[i])
\* (d) for a map[string]Struct: the keys of a map are data supplied by the user, the target
\* holds exactly those keys - however a key is spelled (v.mk may equal the name of a field
\* of the element or of the map field itself, in any capitalisation)
MapKeysVerbatim(v, o)    == (o.acc /\ v.wrap = "map") => (Len(o.mk) = 2 /\ SeqSet(o.mk) = {v.mk, "k2"})

\* Chk prints which clause failed (TLC output ends up in the replay header)
Chk(name, v, cond) == IF cond THEN TRUE ELSE Print(<<"C08 clause failed", name, v.src, v.in>>, FALSE)

\* waiveCompleteness is TRUE only inside a known-finding deviation action (see
\* FieldRulesTrace): every other clause is still demanded.
\* v.ksp (spelling of the document keys: "lower" as in the tags, "cap" capitalised - legal
\* for the configuration sources only, which match keys case-insensitively) is deliberately
\* not read by any clause: the verdict does not depend on it.
JudgeW(v, o, waiveCompleteness) ==
  /\ Chk("NoPanic", v, NoPanic(v, o))
  /\ Chk("AcceptsWhatItMust", v, waiveCompleteness \/ AcceptsWhatItMust(v, o))
  /\ Chk("ShapeOfOutcome", v, o.acc => Len(o.out) = Len(v.f))
  /\ Chk("NothingRequiredMissing", v, NothingRequiredMissing(v, o))
  /\ Chk("AcceptedInRange", v, AcceptedInRange(v, o))
  /\ Chk("AcceptedInOptions", v, AcceptedInOptions(v, o))
  /\ Chk("AcceptedHoldsValues", v, AcceptedHoldsValues(v, o))
  /\ Chk("MapKeysVerbatim", v, MapKeysVerbatim(v, o))
Judge(v, o) == JudgeW(v, o, FALSE)

\* the same vector always has the same outcome, whatever was unmarshalled before and
\* whatever the callers did with the targets they were handed
Norm(o) == IF o.acc THEN o ELSE [acc |-> FALSE, pan |-> o.pan, out |-> <<>>, mk |-> <<>>]
VerdictIsHistoryIndependent(key, v, o) ==
  key \in DOMAIN memo => memo[key] = [v |-> v, o |-> Norm(o)]

\* ------------------------------------------------------------------ the state machine
FInit == seen = {} /\ cur = NoVec /\ res = NoRes /\ memo = <<>> /\ held = <<>>

\* bookkeeping of one unmarshal call: vector v (identified by key) had outcome o
Record0(key, v, o) ==
  /\ cur' = v
  /\ res' = o
  /\ seen' = seen \cup SeqSet(v.f)
  /\ memo' = IF key \in DOMAIN memo THEN memo ELSE memo @@ (key :> [v |-> v, o |-> Norm(o)])
Record(key, v, o) == Record0(key, v, o) /\ UNCHANGED held

\* ---- targets.  An accepted call hands a filled target to its caller.  The target is the
\* caller's: it may keep it (held[tg] = the values it holds), overwrite any part of it in
\* place - the elements of a slice, the variable behind a pointer, the entries of a map -
\* (Mutate), look at it again (Look) and forget it (Drop).  Clause (d) quantifies over
\* every call: what one caller does with its target is invisible to every other target
\*   - a later call still delivers exactly the supplied values / the declared defaults
\*     (Judge and VerdictIsHistoryIndependent of the later Step), and
\*   - a held target changes only by its holder's Mutate (TargetsAreIsolated),
\* i.e. nothing reachable from a target is shared with the unmarshaller's caches
\* (optionsCache, defaultCache) or with another target.
TargetsAreIsolated(tg, out) == out = held[tg]

\* one unmarshal call that the property allows (trace validation: a recorded call that
\* is not such a step is a violation); keep: the caller holds on to the target as tg
StepW(key, v, o, tg, keep, waiveCompleteness) ==
  /\ JudgeW(v, o, waiveCompleteness)
  /\ Chk("VerdictIsHistoryIndependent", v, VerdictIsHistoryIndependent(key, v, o))
  /\ Record0(key, v, o)
  /\ held' = IF keep /\ o.acc /\ tg \notin DOMAIN held THEN held @@ (tg :> o.out) ELSE held
Step(key, v, o, tg, keep) == StepW(key, v, o, tg, keep, FALSE)

\* the holder of tg wrote into its target; `out` is what the target holds afterwards
\* (the caller's free choice - nothing is demanded of it)
Mutate(tg, out) ==
  /\ tg \in DOMAIN held
  /\ held' = [held EXCEPT ![tg] = out]
  /\ UNCHANGED <<seen, cur, res, memo>>

\* the holder of tg reads its target: it holds what the holder left there
Look(tg, out) ==
  /\ tg \in DOMAIN held
  /\ IF TargetsAreIsolated(tg, out) THEN TRUE
     ELSE Print(<<"C08 clause failed", "TargetsAreIsolated", tg, held[tg], out>>, FALSE)
  /\ UNCHANGED fvars

Drop(tg) ==
  /\ tg \in DOMAIN held
  /\ held' = [t \in DOMAIN held \ {tg} |-> held[t]]
  /\ UNCHANGED <<seen, cur, res, memo>>

\* state invariants (used by the design-level model checking, where states are small and
\* the next-state relation is the unguarded Record of some unmarshaller's outcome)
InvNoPanic        == cur # NoVec => NoPanic(cur, res)
InvCompleteness   == cur # NoVec => AcceptsWhatItMust(cur, res)
InvSoundness      == cur # NoVec => /\ NothingRequiredMissing(cur, res)
                                    /\ AcceptedInRange(cur, res)
                                    /\ AcceptedInOptions(cur, res)
InvValues         == cur # NoVec => AcceptedHoldsValues(cur, res) /\ MapKeysVerbatim(cur, res)
InvHistoryIndependent == cur # NoVec => memo[cur].o = Norm(res)   \* design level: key = vector
InvClassesDisjoint == cur # NoVec => ~(MustAccept(cur) /\ MustReject(cur))
=============================================================================
