\* documented counterexample: a float32 field range-checked after rounding to float32 (seeded defect class): 0.1 passes (0.1:1], 0.7 passes [0:0.7), 0.1 fails [0:0.1]
SPECIFICATION ISpec
CONSTANTS
  Sources = {"json", "form"}
  Wraps = {"flat"}
  Kinds = {"float32"}
  AOpts = {"plain"}
  Defs = {"none"}
  Rngs = {"d1", "d7", "d1c", "d7c"}
  Opts = {"none"}
  FSs = {FALSE}
  Ptrs = {FALSE}
  BIds = {"nob"}
  XKs = {""}
  Rich = FALSE
  Edges = FALSE
  KSps = {"lower"}
  MKs = {"k"}
  Unit = 20
  Multi = FALSE
  XVs = {"one"}
  Depth = 1
  Emit = FALSE
  DropOnRebuild = FALSE
  CanonBang = FALSE
  WideParse = FALSE
  MapAsStruct = FALSE
  RoundFirst = TRUE
  IndexFirst = FALSE
INVARIANTS InvNoPanic InvCompleteness InvSoundness InvValues InvHistoryIndependent InvClassesDisjoint
VIEW GView
CHECK_DEADLOCK FALSE
