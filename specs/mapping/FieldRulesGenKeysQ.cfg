\* quick: configuration sources, document keys lower-case / capitalised, map keys spelled like fields of the element or like the map field
SPECIFICATION GSpec
CONSTANTS
  Sources = {"conf", "confyaml", "conftoml"}
  Wraps = {"flat", "slice", "map"}
  Kinds = {"int"}
  AOpts = {"none", "plain"}
  Defs = {"none", "in"}
  Rngs = {"cc"}
  Opts = {"none"}
  FSs = {FALSE}
  Ptrs = {FALSE}
  BIds = {"nob", "opt"}
  XKs = {""}
  Rich = FALSE
  Edges = FALSE
  KSps = {"lower", "cap"}
  MKs = {"k", "a", "A", "b", "B", "m", "M"}
  Unit = 2
  Multi = FALSE
  XVs = {"one"}
  Depth = 1
  Emit = TRUE
INVARIANTS InvNoPanic InvCompleteness InvSoundness InvValues InvHistoryIndependent InvClassesDisjoint PrintVec
VIEW GView
CHECK_DEADLOCK FALSE
