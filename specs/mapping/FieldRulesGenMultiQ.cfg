\* quick: parameter multimaps (form, header) - a key with no value at all / with two values, for scalar and list fields, for the dependency of optional=dep and for keys no field binds
SPECIFICATION GSpec
CONSTANTS
  Sources = {"form", "formpost", "header"}
  Wraps = {"flat"}
  Kinds = {"int", "string", "strs", "ints"}
  AOpts = {"none", "plain", "dep"}
  Defs = {"none", "in"}
  Rngs = {"none", "cc"}
  Opts = {"none"}
  FSs = {FALSE}
  Ptrs = {FALSE}
  BIds = {"nob"}
  XKs = {"", "b", "zz"}
  Rich = FALSE
  Edges = FALSE
  KSps = {"lower"}
  MKs = {"k"}
  Unit = 2
  Multi = TRUE
  XVs = {"one", "none", "two"}
  Depth = 1
  Emit = TRUE
INVARIANTS InvNoPanic InvCompleteness InvSoundness InvValues InvHistoryIndependent InvClassesDisjoint PrintVec
VIEW GView
CHECK_DEADLOCK FALSE
