\* thorough: dependency options x range x default x options x string, six shapes of b
SPECIFICATION GSpec
CONSTANTS
  Sources = {"json"}
  Wraps = {"flat"}
  Kinds = {"int", "float64"}
  AOpts = {"dep", "notdep"}
  Defs = {"none", "in", "out"}
  Rngs = {"none", "cc", "oc", "co", "oo", "frac"}
  Opts = {"none", "bar"}
  FSs = {FALSE, TRUE}
  Ptrs = {FALSE}
  BIds = {"nob", "req", "opt", "defrng", "mutual", "notmutual"}
  XKs = {"", "b"}
  Rich = FALSE
  Edges = FALSE
  KSps = {"lower"}
  MKs = {"k"}
  Unit = 2
  Multi = FALSE
  XVs = {"one"}
  Depth = 1
  Emit = TRUE
INVARIANTS InvNoPanic InvCompleteness InvSoundness InvValues InvHistoryIndependent InvClassesDisjoint PrintVec
VIEW GView
CHECK_DEADLOCK FALSE
