\* quick: what a target shares by reference: list fields ([]string, []int) with and without defaults, pointer fields, every wrapper
SPECIFICATION GSpec
CONSTANTS
  Sources = {"json", "confyaml", "map"}
  Wraps = {"flat", "nested", "pnested", "slice", "map"}
  Kinds = {"strs", "ints", "int", "string"}
  AOpts = {"none", "plain"}
  Defs = {"none", "in"}
  Rngs = {"none"}
  Opts = {"none"}
  FSs = {FALSE}
  Ptrs = {FALSE, TRUE}
  BIds = {"nob", "defrng"}
  XKs = {""}
  Rich = FALSE
  Edges = FALSE
  KSps = {"lower"}
  MKs = {"k"}
  Unit = 2
  Multi = FALSE
  XVs = {"one"}
  Depth = 1
  Emit = TRUE
INVARIANTS InvNoPanic InvCompleteness InvSoundness InvValues InvHistoryIndependent InvClassesDisjoint PrintVec
VIEW GView
CHECK_DEADLOCK FALSE
