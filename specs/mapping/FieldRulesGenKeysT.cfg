\* thorough: configuration sources, key spellings, map keys; dependency options, pointers, options
SPECIFICATION GSpec
CONSTANTS
  Sources = {"json", "conf", "confyaml", "conftoml"}
  Wraps = {"flat", "nested", "pnested", "slice", "map"}
  Kinds = {"int", "string"}
  AOpts = {"none", "plain", "dep"}
  Defs = {"none", "in"}
  Rngs = {"cc"}
  Opts = {"none"}
  FSs = {FALSE}
  Ptrs = {FALSE, TRUE}
  BIds = {"nob", "opt", "mutual"}
  XKs = {""}
  Rich = FALSE
  Edges = FALSE
  KSps = {"lower", "cap"}
  MKs = {"k", "a", "A", "b", "B", "m", "M"}
  Unit = 2
  Multi = FALSE
  XVs = {"one"}
  Depth = 1
  Emit = TRUE
INVARIANTS InvNoPanic InvCompleteness InvSoundness InvValues InvHistoryIndependent InvClassesDisjoint PrintVec
VIEW GView
CHECK_DEADLOCK FALSE
