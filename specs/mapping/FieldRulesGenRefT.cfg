\* thorough: list fields and pointer fields x every document source x every wrapper, rich inputs
SPECIFICATION GSpec
CONSTANTS
  Sources = {"json", "yaml", "toml", "confyaml", "body", "map"}
  Wraps = {"flat", "nested", "pnested", "slice", "map"}
  Kinds = {"strs", "ints", "int", "string"}
  AOpts = {"none", "plain", "dep"}
  Defs = {"none", "in"}
  Rngs = {"none"}
  Opts = {"none"}
  FSs = {FALSE}
  Ptrs = {FALSE, TRUE}
  BIds = {"nob", "opt", "defrng"}
  XKs = {""}
  Rich = FALSE
  Edges = FALSE
  KSps = {"lower"}
  MKs = {"k"}
  Unit = 2
  Multi = FALSE
  XVs = {"one"}
  Depth = 1
  Emit = TRUE
INVARIANTS InvNoPanic InvCompleteness InvSoundness InvValues InvHistoryIndependent InvClassesDisjoint PrintVec
VIEW GView
CHECK_DEADLOCK FALSE
