\* Layer I => Layer P: the decision procedure of core/mapping (both repairs in) satisfies Judge on every vector
SPECIFICATION ISpec
CONSTANTS
  Sources = {"json", "form", "header"}
  Wraps = {"flat"}
  Kinds = {"int", "float64", "string", "bool"}
  AOpts = {"none", "plain", "dep", "notdep"}
  Defs = {"none", "out"}
  Rngs = {"none", "oc"}
  Opts = {"none", "bar"}
  FSs = {FALSE, TRUE}
  Ptrs = {FALSE}
  BIds = {"nob", "opt", "mutual"}
  XKs = {"", "b"}
  Rich = TRUE
  Edges = FALSE
  KSps = {"lower"}
  MKs = {"k"}
  Unit = 2
  Multi = FALSE
  XVs = {"one"}
  Depth = 1
  Emit = FALSE
  DropOnRebuild = FALSE
  CanonBang = FALSE
  WideParse = FALSE
  MapAsStruct = FALSE
  RoundFirst = FALSE
  IndexFirst = FALSE
INVARIANTS InvNoPanic InvCompleteness InvSoundness InvValues InvHistoryIndependent InvClassesDisjoint
VIEW GView
CHECK_DEADLOCK FALSE
