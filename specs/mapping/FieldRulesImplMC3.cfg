\* Layer I => Layer P on the decimal families: the range is checked on the number as supplied (float32 and float64 fields, JSON-number path, string path, string option)
SPECIFICATION ISpec
CONSTANTS
  Sources = {"json", "yaml", "form", "header"}
  Wraps = {"flat"}
  Kinds = {"float32", "float64", "int"}
  AOpts = {"none", "plain"}
  Defs = {"none", "in"}
  Rngs = {"none", "d1", "d7", "d1c", "d7c", "d37"}
  Opts = {"none", "dec"}
  FSs = {FALSE, TRUE}
  Ptrs = {FALSE}
  BIds = {"nob"}
  XKs = {""}
  Rich = FALSE
  Edges = FALSE
  KSps = {"lower"}
  MKs = {"k"}
  Unit = 20
  Multi = FALSE
  XVs = {"one"}
  Depth = 1
  Emit = FALSE
  DropOnRebuild = FALSE
  CanonBang = FALSE
  WideParse = FALSE
  MapAsStruct = FALSE
  RoundFirst = FALSE
  IndexFirst = FALSE
INVARIANTS InvNoPanic InvCompleteness InvSoundness InvValues InvHistoryIndependent InvClassesDisjoint
VIEW GView
CHECK_DEADLOCK FALSE
