\* thorough: every integer kind x the numbers around the ends of its width x every source x pointer x default
SPECIFICATION GSpec
CONSTANTS
  Sources = {"json", "yaml", "toml", "conf", "confyaml", "conftoml", "body", "map", "form", "formpost", "path", "header"}
  Wraps = {"flat"}
  Kinds = {"int", "int8", "int16", "int32", "int64", "uint8", "uint16", "uint32", "uint", "uint64"}
  AOpts = {"none", "plain"}
  Defs = {"none", "in"}
  Rngs = {"none", "big"}
  Opts = {"none"}
  FSs = {FALSE, TRUE}
  Ptrs = {FALSE, TRUE}
  BIds = {"nob"}
  XKs = {""}
  Rich = FALSE
  Edges = TRUE
  KSps = {"lower"}
  MKs = {"k"}
  Unit = 2
  Multi = FALSE
  XVs = {"one"}
  Depth = 1
  Emit = TRUE
INVARIANTS InvNoPanic InvCompleteness InvSoundness InvValues InvHistoryIndependent InvClassesDisjoint PrintVec
VIEW GView
CHECK_DEADLOCK FALSE
