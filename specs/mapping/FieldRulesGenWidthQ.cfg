\* quick: every integer kind x the numbers around the ends of its width, through documents, typed map and string sources
SPECIFICATION GSpec
CONSTANTS
  Sources = {"json", "toml", "confyaml", "map", "form", "path", "header"}
  Wraps = {"flat"}
  Kinds = {"int8", "int16", "int32", "uint8", "uint16", "uint32", "uint", "uint64"}
  AOpts = {"plain"}
  Defs = {"none"}
  Rngs = {"none", "big"}
  Opts = {"none"}
  FSs = {FALSE, TRUE}
  Ptrs = {FALSE}
  BIds = {"nob"}
  XKs = {""}
  Rich = FALSE
  Edges = TRUE
  KSps = {"lower"}
  MKs = {"k"}
  Unit = 2
  Multi = FALSE
  XVs = {"one"}
  Depth = 1
  Emit = TRUE
INVARIANTS InvNoPanic InvCompleteness InvSoundness InvValues InvHistoryIndependent InvClassesDisjoint PrintVec
VIEW GView
CHECK_DEADLOCK FALSE
