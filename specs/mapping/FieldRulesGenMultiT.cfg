\* thorough: parameter multimaps (form, header) - a key with no value at all / with two values, every kind, pointer fields, optional=dep / optional=!dep
SPECIFICATION GSpec
CONSTANTS
  Sources = {"form", "formpost", "header"}
  Wraps = {"flat"}
  Kinds = {"int", "float64", "string", "bool", "strs", "ints"}
  AOpts = {"none", "plain", "dep", "notdep"}
  Defs = {"none", "in"}
  Rngs = {"none", "cc"}
  Opts = {"none", "bar"}
  FSs = {FALSE}
  Ptrs = {FALSE}
  BIds = {"nob"}
  XKs = {"", "b", "zz"}
  Rich = FALSE
  Edges = FALSE
  KSps = {"lower"}
  MKs = {"k"}
  Unit = 2
  Multi = TRUE
  XVs = {"one", "none", "two"}
  Depth = 1
  Emit = TRUE
INVARIANTS InvNoPanic InvCompleteness InvSoundness InvValues InvHistoryIndependent InvClassesDisjoint PrintVec
VIEW GView
CHECK_DEADLOCK FALSE
