\* thorough: every source x every kind x all optional forms, rich input classes
SPECIFICATION GSpec
CONSTANTS
  Sources = {"json", "yaml", "toml", "conf", "confyaml", "conftoml", "body", "map", "form", "formpost", "path", "header"}
  Wraps = {"flat"}
  Kinds = {"int", "int64", "uint8", "float32", "float64", "string", "bool"}
  AOpts = {"none", "plain", "dep", "notdep"}
  Defs = {"none", "out"}
  Rngs = {"none", "oc"}
  Opts = {"none", "bar"}
  FSs = {FALSE, TRUE}
  Ptrs = {FALSE}
  BIds = {"nob"}
  XKs = {"", "b", "zz"}
  Rich = TRUE
  Edges = FALSE
  KSps = {"lower"}
  MKs = {"k"}
  Depth = 1
  Emit = TRUE
INVARIANTS InvNoPanic InvCompleteness InvSoundness InvValues InvHistoryIndependent InvClassesDisjoint PrintVec
VIEW GView
CHECK_DEADLOCK FALSE
