\* thorough: wrappers x pointer fields x dependency options, document and map sources
SPECIFICATION GSpec
CONSTANTS
  Sources = {"json", "yaml", "toml", "conf", "conftoml", "map"}
  Wraps = {"nested", "pnested", "slice", "map"}
  Kinds = {"int", "string"}
  AOpts = {"none", "plain", "dep", "notdep"}
  Defs = {"none", "in"}
  Rngs = {"none", "cc"}
  Opts = {"none", "list"}
  FSs = {FALSE}
  Ptrs = {FALSE, TRUE}
  BIds = {"nob", "mutual"}
  XKs = {""}
  Rich = FALSE
  Edges = FALSE
  KSps = {"lower"}
  MKs = {"k"}
  Unit = 2
  Multi = FALSE
  XVs = {"one"}
  Depth = 1
  Emit = TRUE
INVARIANTS InvNoPanic InvCompleteness InvSoundness InvValues InvHistoryIndependent InvClassesDisjoint PrintVec
VIEW GView
CHECK_DEADLOCK FALSE
