\* quick: optional=b / optional=!b on field a, second field b in several shapes (JSON)
SPECIFICATION GSpec
CONSTANTS
  Sources = {"json"}
  Wraps = {"flat"}
  Kinds = {"int", "float64"}
  AOpts = {"dep", "notdep"}
  Defs = {"none", "in", "out"}
  Rngs = {"none", "cc", "oo"}
  Opts = {"none", "bar"}
  FSs = {FALSE}
  Ptrs = {FALSE}
  BIds = {"nob", "req", "defrng", "mutual"}
  XKs = {"", "b"}
  Rich = FALSE
  Edges = FALSE
  KSps = {"lower"}
  MKs = {"k"}
  Unit = 2
  Multi = FALSE
  XVs = {"one"}
  Depth = 1
  Emit = TRUE
INVARIANTS InvNoPanic InvCompleteness InvSoundness InvValues InvHistoryIndependent InvClassesDisjoint PrintVec
VIEW GView
CHECK_DEADLOCK FALSE
