-------------------------- MODULE FieldRulesTrace --------------------------
(* Trace validation for C08.  The Go driver (harness/overlay/rest/httpx) builds every
   vector's struct type with reflect.StructOf (tags included), renders the input for
   the vector's source, calls the real unmarshaller (mapping.UnmarshalJsonBytes /
   UnmarshalKey / UnmarshalYamlBytes / UnmarshalTomlBytes, conf.LoadFrom*Bytes,
   httpx.Parse / ParseForm / ParsePath / ParseHeaders) and records one event

     {"e":"vec","id":..,  src, wrap, wabs, f:[field specs], in:[values], xk:[names],
      "acc":bool, "pan":bool, "out":[resulting value per field]}

   Every event must be a Step of FieldRules: the outcome satisfies Judge for its
   vector, and equals the outcome recorded the first time the same vector (id) was
   evaluated in this trace - the driver evaluates each chunk of vectors twice, in
   different orders and therefore against different cache contents.               *)
EXTENDS FieldRules, TraceKit

VARIABLE l
tvars == <<seen, cur, res, memo, l>>

E == Trace[l]
IsEvent(e) == l <= Len(Trace) /\ E.e = e /\ l' = l + 1

EVec == [src |-> E.src, wrap |-> E.wrap, wabs |-> E.wabs, f |-> E.f, in |-> E.in, xk |-> E.xk]
EOut == [acc |-> E.acc, pan |-> E.pan, out |-> E.out]

TReset == IsEvent("reset") /\ seen' = {} /\ cur' = NoVec /\ res' = NoRes /\ memo' = <<>>
TVec   == IsEvent("vec") /\ Step(E.id, EVec, EOut)

\* Known finding (genuine go-zero defect, see props/c08.py): with the header source the
\* dependency name of `optional=!dep` is canonicalised together with its '!' prefix
\* ("!b" stays "!b", the header map key is "B"), so the dependency is never seen and a
\* request that supplies only the dependency is rejected ("set value for either ...").
\* The deviation is enabled only in exactly that situation and waives only clause (e).
KFHeaderNotDepSituation(v, o) ==
  /\ v.src = "header" /\ ~o.acc /\ ~o.pan
  /\ \E i \in DOMAIN v.f :
       /\ v.f[i].opt = "notdep"
       /\ DefAbsentV(v.in[i])
       /\ DefSupplied(v, v.f[i].dep)
TVecKFHeaderNotDep ==
  /\ "KF_HeaderNotDepCanonical" \in OpenFindings
  /\ IsEvent("vec")
  /\ KFHeaderNotDepSituation(EVec, EOut)
  /\ StepW(E.id, EVec, EOut, TRUE)

TInit == FInit /\ l = 1
TNext == TReset \/ TVec \/ TVecKFHeaderNotDep
TSpec == TInit /\ [][TNext]_tvars

HW == HighWater(l)

\* TraceKit's Accepted prints the offending event next to the high-water mark; our events
\* are wide records, TLC's pretty printer then breaks the tuple over several lines and the
\* runner cannot find the mark.  Print the mark alone (the runner shows the event itself).
AcceptedC08 ==
  IF TLCGet(1) > Len(Trace) THEN TRUE
  ELSE Print(<<"HW", TLCGet(1)>>, FALSE)
=============================================================================
