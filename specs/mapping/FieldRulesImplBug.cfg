\* documented counterexample: options rebuilt without Range (go-zero before the C08 fix)
SPECIFICATION ISpec
CONSTANTS
  Sources = {"json"}
  Wraps = {"flat"}
  Kinds = {"int"}
  AOpts = {"none", "plain", "dep", "notdep"}
  Defs = {"none", "in", "out"}
  Rngs = {"none", "cc", "oc", "frac"}
  Opts = {"none", "bar"}
  FSs = {FALSE, TRUE}
  Ptrs = {FALSE}
  BIds = {"nob", "opt", "mutual"}
  XKs = {"", "b"}
  Rich = FALSE
  Edges = FALSE
  KSps = {"lower"}
  MKs = {"k"}
  Depth = 1
  Emit = FALSE
  DropOnRebuild = TRUE
  CanonBang = FALSE
  WideParse = FALSE
  MapAsStruct = FALSE
INVARIANTS InvNoPanic InvCompleteness InvSoundness InvValues InvHistoryIndependent InvClassesDisjoint
VIEW GView
CHECK_DEADLOCK FALSE
