\* quick: one field, JSON document, every tag-option combination x every input class
SPECIFICATION GSpec
CONSTANTS
  Sources = {"json"}
  Wraps = {"flat"}
  Kinds = {"int", "uint8", "float64", "string", "bool"}
  AOpts = {"none", "plain"}
  Defs = {"none", "in", "out"}
  Rngs = {"none", "cc", "oc", "frac", "ge"}
  Opts = {"none", "bar", "list"}
  FSs = {FALSE, TRUE}
  Ptrs = {FALSE}
  BIds = {"nob"}
  XKs = {""}
  Rich = TRUE
  Edges = FALSE
  KSps = {"lower"}
  MKs = {"k"}
  Unit = 2
  Multi = FALSE
  XVs = {"one"}
  Depth = 1
  Emit = TRUE
INVARIANTS InvNoPanic InvCompleteness InvSoundness InvValues InvHistoryIndependent InvClassesDisjoint PrintVec
VIEW GView
CHECK_DEADLOCK FALSE
