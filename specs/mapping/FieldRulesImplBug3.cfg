\* documented counterexample: 8/16-bit kinds parsed with bitSize 32 and truncated by reflect (seeded defect class)
SPECIFICATION ISpec
CONSTANTS
  Sources = {"json", "form"}
  Wraps = {"flat"}
  Kinds = {"int8", "uint8", "int16", "uint16"}
  AOpts = {"plain"}
  Defs = {"none"}
  Rngs = {"none", "big"}
  Opts = {"none"}
  FSs = {FALSE, TRUE}
  Ptrs = {FALSE}
  BIds = {"nob"}
  XKs = {""}
  Rich = FALSE
  Edges = TRUE
  KSps = {"lower"}
  MKs = {"k"}
  Unit = 2
  Multi = FALSE
  XVs = {"one"}
  Depth = 1
  Emit = FALSE
  DropOnRebuild = FALSE
  CanonBang = FALSE
  WideParse = TRUE
  MapAsStruct = FALSE
  RoundFirst = FALSE
  IndexFirst = FALSE
INVARIANTS InvNoPanic InvCompleteness InvSoundness InvValues InvHistoryIndependent InvClassesDisjoint
VIEW GView
CHECK_DEADLOCK FALSE
