\* quick: nested struct / pointer to struct / slice element / map element, pointer fields
SPECIFICATION GSpec
CONSTANTS
  Sources = {"json", "yaml", "conftoml", "map"}
  Wraps = {"nested", "pnested", "slice", "map"}
  Kinds = {"int"}
  AOpts = {"none", "plain", "dep"}
  Defs = {"none", "in"}
  Rngs = {"none", "cc"}
  Opts = {"none"}
  FSs = {FALSE}
  Ptrs = {FALSE, TRUE}
  BIds = {"nob", "opt"}
  XKs = {""}
  Rich = FALSE
  Edges = FALSE
  KSps = {"lower"}
  MKs = {"k"}
  Unit = 2
  Multi = FALSE
  XVs = {"one"}
  Depth = 1
  Emit = TRUE
INVARIANTS InvNoPanic InvCompleteness InvSoundness InvValues InvHistoryIndependent InvClassesDisjoint PrintVec
VIEW GView
CHECK_DEADLOCK FALSE
