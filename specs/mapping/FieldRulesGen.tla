---------------------------- MODULE FieldRulesGen ----------------------------
(* The case analysis of C08 as a TLC state space: every reachable state is one
   vector (source x wrapper x type x input).  Used
     - for generation: one "TRACE <json>" line per distinct vector, replayed on the
       real unmarshallers by the Go driver;
     - at design level (the next-state relation is the unguarded Record of the outcome
       of some unmarshaller, the clauses are state invariants): the specification is
       implementable and not contradictory (the ideal unmarshaller below satisfies every
       clause on every vector; MustAccept and MustReject never overlap), with Depth = 2
       the verdict does not depend on what was unmarshalled before, and FieldRulesImpl
       plugs in a model of go-zero's decision procedure.
   The constants carve families out of the full product (see the *.cfg files).  *)
EXTENDS FieldRules, Json

CONSTANTS
  Sources,   \* subset of DocSources \cup MapSources \cup StrSources
  Wraps,     \* subset of {"flat","nested","pnested","slice","map"}
  Kinds,     \* kinds of the subject field a (NumericKinds, "string", "bool", ListKinds)
  AOpts,     \* subset of {"none","plain","dep","notdep"}
  Defs,      \* subset of {"none","in","out"}      default inside / outside range+options
  Rngs,      \* subset of RangeIds
  Opts,      \* subset of {"none","bar","list","wide","frac"} (Unit = 20: {"none","dec"}, dec = 0.1|0.3)
  FSs,       \* subset of BOOLEAN: the `string` tag option
  Ptrs,      \* subset of BOOLEAN: a is a pointer field
  BIds,      \* second field b: subset of {"nob","req","opt","defrng","mutual","notmutual"}
  XKs,       \* extra input key: subset of {"", "b", "zz"} ("" = none; "b" only without a field b)
  Rich,      \* BOOLEAN: add wrongly typed / overflowing input classes
  Edges,     \* BOOLEAN: add the numbers around the ends of the kind's width (8/16-bit kinds)
  KSps,      \* spellings of the document keys: subset of {"lower", "cap"} ("cap": conf sources only)
  MKs,       \* first key of the map wrapper: subset of {"k", "a", "A", "b", "B", "m", "M"}
  Unit,      \* unit of the numbers of field a: 2 (halves) or 20 (twentieths: the decimal families)
  Multi,     \* BOOLEAN: add the value lists of the multimap sources (no value / two values per key)
  XVs,       \* values of the extra key: subset of {"one", "none", "two"} ("none"/"two": multimap sources)
  Depth,     \* number of vectors per behaviour (1 for generation)
  Emit       \* BOOLEAN: print the vectors

\* ------------------------------------------------------------------ field specs
\* ranges in twentieths whose ends no binary float holds exactly.  Rounding to float32 moves
\* 0.1 and 0.3 up and 0.7 down: an open end is crossed inwards, a closed one outwards.
DecRanges == {"d1", "d7", "d1c", "d7c", "d37"}
RangeIds == {"none", "cc", "oc", "co", "oo", "ge", "lt", "frac", "pt", "big"} \cup DecRanges
R(lo, hi, li, ri, hlo, hhi) == [lo |-> lo, hi |-> hi, li |-> li, ri |-> ri, hlo |-> hlo, hhi |-> hhi]
RangeRec(c) ==
  CASE c = "none" -> R(0, 0, FALSE, FALSE, FALSE, FALSE)
    [] c = "cc"   -> R(2, 10, TRUE, TRUE, TRUE, TRUE)      \* [1:5]
    [] c = "oc"   -> R(2, 10, FALSE, TRUE, TRUE, TRUE)     \* (1:5]
    [] c = "co"   -> R(2, 10, TRUE, FALSE, TRUE, TRUE)     \* [1:5)
    [] c = "oo"   -> R(2, 10, FALSE, FALSE, TRUE, TRUE)    \* (1:5)
    [] c = "ge"   -> R(2, 0, TRUE, TRUE, TRUE, FALSE)      \* [1:]
    [] c = "lt"   -> R(0, 10, FALSE, FALSE, FALSE, TRUE)   \* (:5)
    [] c = "frac" -> R(3, 9, FALSE, TRUE, TRUE, TRUE)      \* (1.5:4.5]
    [] c = "pt"   -> R(6, 6, TRUE, TRUE, TRUE, TRUE)       \* [3:3]
    [] c = "big"  -> R(0, 2000, TRUE, TRUE, TRUE, TRUE)    \* [0:1000]: wider than an 8-bit kind
    \* Unit = 20
    [] c = "d1"   -> R(2, 20, FALSE, TRUE, TRUE, TRUE)     \* (0.1:1]
    [] c = "d7"   -> R(0, 14, TRUE, FALSE, TRUE, TRUE)     \* [0:0.7)
    [] c = "d1c"  -> R(0, 2, TRUE, TRUE, TRUE, TRUE)       \* [0:0.1]
    [] c = "d7c"  -> R(14, 20, TRUE, TRUE, TRUE, TRUE)     \* [0.7:1]
    [] c = "d37"  -> R(6, 14, FALSE, FALSE, TRUE, TRUE)    \* (0.3:0.7)

FldU(u, nm, k, ptr, opt, dep, defc, rngc, optc, fs) ==
  LET num == k \in NumericKinds
      rg  == RangeRec(rngc)
  IN [nm |-> nm, k |-> k, u |-> u, ptr |-> ptr, opt |-> opt, dep |-> dep,
      hd |-> defc # "none",
      dn |-> IF defc = "none" THEN 0 ELSE IF k = "bool" THEN 1
             ELSE IF k \in ListKinds THEN 2
             ELSE IF ~num THEN 0
             ELSE IF u = 2 THEN (IF defc = "in" THEN 6 ELSE 14)       \* 3 / 7
             ELSE IF k \in IntKinds THEN (IF defc = "in" THEN u ELSE 2 * u)   \* 1 / 2 (a default the kind can hold)
             ELSE (IF defc = "in" THEN 10 ELSE 40),                  \* 0.5 / 2
      ds |-> IF defc = "none" THEN ""
             ELSE IF k = "string" THEN (IF defc = "in" THEN "x" ELSE "w")
             ELSE IF k = "strs" THEN "p,q" ELSE IF k = "ints" THEN "1,2" ELSE "",
      hr |-> rngc # "none", lo |-> rg.lo, hi |-> rg.hi, li |-> rg.li, ri |-> rg.ri,
      hlo |-> rg.hlo, hhi |-> rg.hhi,
      ho |-> optc # "none",
      on |-> IF ~num \/ optc = "none" THEN <<>>
             ELSE IF optc = "wide" THEN <<2, 6, 12>>
             ELSE IF optc = "frac" THEN <<3, 6>> ELSE <<2, 6>>,     \* "dec" (Unit = 20): 0.1|0.3
      os |-> IF k = "string" /\ optc # "none" THEN <<"x", "y">> ELSE <<>>,
      osyn |-> IF optc = "list" THEN "list" ELSE "bar",
      fs |-> fs]
Fld(nm, k, ptr, opt, dep, defc, rngc, optc, fs) == FldU(2, nm, k, ptr, opt, dep, defc, rngc, optc, fs)

BField(id) ==
  CASE id = "req"       -> Fld("b", "string", FALSE, "none", "", "none", "none", "none", FALSE)
    [] id = "opt"       -> Fld("b", "int", FALSE, "plain", "", "none", "none", "none", FALSE)
    [] id = "defrng"    -> Fld("b", "int", FALSE, "none", "", "in", "cc", "none", FALSE)
    [] id = "mutual"    -> Fld("b", "int", FALSE, "dep", "a", "none", "cc", "none", FALSE)
    [] id = "notmutual" -> Fld("b", "int", FALSE, "notdep", "a", "none", "cc", "none", FALSE)

\* ------------------------------------------------------------------ input classes
Nullable(src) == src \in {"json", "yaml", "conf", "confyaml", "body", "map"}
Nulls(src) == IF Nullable(src) THEN {VNull} ELSE {}

NumProbe(k) ==
  IF Unit = 2 THEN (IF k \in FloatKinds THEN {0, 1, 2, 3, 6, 9, 10, 11, 12} ELSE {0, 2, 3, 6, 10, 12})
  \* twentieths: 0, 0.05, 0.1, 0.15, 0.25, 0.3, 0.5, 0.65, 0.7, 0.75, 1, 1.05, 2
  ELSE (IF k \in FloatKinds THEN {0, 1, 2, 3, 5, 6, 10, 13, 14, 15, 20, 21, 40} ELSE {0, 2, 20, 40})

\* the ends of the kind's width, one step outside them, and numbers further out that still
\* fit 32 bits (one of them a multiple of the kind's modulus: it would wrap around to 0)
EdgeProbe(k) ==
  IF HasMax(k)
  THEN {MinH(k) - 2, MinH(k), MaxH(k), MaxH(k) + 2, MaxH(k) + 90, 2 * MaxH(k) + 4, 4 * MaxH(k)}
  ELSE IF HasMin(k) THEN {0 - 2, 0} ELSE {}

\* value lists of the multimap sources: no value at all, two values
Lists(f, src) ==
  IF ~(Multi /\ src \in MultiSources) THEN {}
  ELSE CASE f.k \in NumericKinds -> {VNoVals} \cup {VNum2(n) : n \in {2, 6, 10}}
         [] f.k = "string"       -> {VNoVals, VStr2("x"), VStr2("w")}
         [] OTHER                -> {VNoVals}

InputsFor(f, src) ==
  LET str == src \in StrSources IN
  CASE f.k \in ListKinds /\ str ->
         \* a list field of a multimap source takes the list of values of its key.  (A header with
         \* exactly one value is handed on as a plain text, not as a list of one: not enumerated.)
         {VAbsent, VNoVals}
         \cup (IF f.k = "strs" THEN {VList(2, "x,y")} ELSE {VList(2, "3,4")})
         \cup (IF src \in FormSources THEN (IF f.k = "strs" THEN {VList(1, "x")} ELSE {VList(1, "3")}) ELSE {})
    [] f.k \in ListKinds ->
         {VAbsent} \cup Nulls(src)
         \cup (IF f.k = "strs" THEN {VList(2, "x,y"), VList(1, "x"), VList(0, "")}
                               ELSE {VList(2, "3,4"), VList(1, "3"), VList(0, "")})
         \cup (IF Rich THEN {VStr("x"), VNum(6)} ELSE {})
    [] f.k \in NumericKinds ->
         {VAbsent} \cup Nulls(src)
         \cup (IF f.fs /\ ~str
               THEN {VNumStr(n) : n \in NumProbe(f.k)} \cup (IF Rich THEN {VNum(6), VNum(12)} ELSE {})
               ELSE {VNum(n) : n \in NumProbe(f.k)}
                    \cup (IF Rich /\ ~str THEN {VNumStr(6), VNumStr(12)} ELSE {}))
         \cup (IF Rich THEN {VNum(600), VNum(0 - 2), VStr("x"), VBool(1)} ELSE {})
         \cup (IF Rich /\ str THEN {VStr("")} ELSE {})
         \cup (IF Edges /\ f.k \in IntKinds
               THEN {IF f.fs /\ ~str THEN VNumStr(n) ELSE VNum(n) : n \in EdgeProbe(f.k)} ELSE {})
         \cup Lists(f, src)
    [] f.k = "string" ->
         {VAbsent} \cup Nulls(src) \cup {VStr("x"), VStr("z"), VStr("")}
         \cup (IF Rich /\ ~str THEN {VNum(6), VBool(1)} ELSE {})
         \cup Lists(f, src)
    [] f.k = "bool" ->
         {VAbsent} \cup Nulls(src) \cup {VBool(0), VBool(1)}
         \cup (IF Rich THEN {VStr("x"), VNum(4)} ELSE {})
         \cup Lists(f, src)

BInputs(id, src) ==
  IF id = "req" THEN {VAbsent, VStr("x")} \cup (IF Rich THEN Nulls(src) ELSE {})
  ELSE {VAbsent, VNum(6), VNum(12)} \cup (IF Rich THEN Nulls(src) ELSE {})

\* ------------------------------------------------------------------ the vectors
WrapOK(src, w) == src \in StrSources => w = "flat"
RngOK(k, r)    == k \notin NumericKinds => r = "none"
OptOK(k, o)    == /\ k \in {"bool"} \cup ListKinds => o = "none"
                  /\ k = "string" => o \in {"none", "bar", "list"}
FsOK(k, src, fs) == fs => (k \in NumericKinds /\ src \notin StrSources)
ListOK(k, src, ptr, defc) ==
  k \in ListKinds => ((src \notin StrSources \/ (Multi /\ src \in MultiSources)) /\ ~ptr /\ defc # "out")
\* the decimal families: numbers in twentieths, ranges and options with decimal ends, no typed
\* Go values (a float32 Go value *is* its rounded number: there is no decimal text to speak of)
DecOK(src, k, rngc, optc) ==
  IF Unit = 2 THEN rngc \notin DecRanges /\ optc # "dec"
  ELSE /\ rngc \in DecRanges \cup {"none"} /\ optc \in {"none", "dec"} /\ src \notin MapSources
       /\ optc = "dec" => k \in FloatKinds        \* options are values of the field's kind
XvOK(src, xk, xv) == xv # "one" => (src \in MultiSources /\ xk # <<>>)
XVal(xv) == CASE xv = "none" -> VNoVals [] xv = "two" -> VStr2("q") [] OTHER -> VStr("q")
KspOK(src, ksp) == ksp = "cap" => src \in ConfSources
MkOK(w, mk)     == w # "map" => mk = "k"
BOK(opt, bid, xk) ==
  /\ "b" \in SeqSet(xk) => bid = "nob"
  /\ "a" \notin SeqSet(xk)

Vec(src, w, wabs, fs, in, xk, xv, ksp, mk) ==
  [src |-> src, wrap |-> w, wabs |-> wabs, f |-> fs, in |-> in, xk |-> xk, xv |-> xv, ksp |-> ksp, mk |-> mk]

AllAbsent(in) == \A i \in DOMAIN in : in[i] = VAbsent

\* ideal unmarshaller: accepts exactly what it must, delivers the expected values
Ideal(v) ==
  IF MustAccept(v)
  THEN [acc |-> TRUE, pan |-> FALSE,
        out |-> [i \in DOMAIN v.f |->
                   IF DefAbsentV(v.in[i]) THEN DefaultOrZero(v.f[i]) ELSE Expected(v.f[i], v.in[i])],
        mk |-> IF v.wrap = "map" THEN <<v.mk, "k2">> ELSE <<>>]
  ELSE NoRes

\* Out(v): the outcome the unmarshaller under consideration produces for v
GNextWith(Out(_)) ==
  /\ Cardinality(DOMAIN memo) < Depth
  /\ \E src \in Sources, w \in Wraps, k \in Kinds, ptr \in Ptrs :
     \E opt \in AOpts, defc \in Defs, rngc \in Rngs, optc \in Opts, fs \in FSs :
     \E bid \in BIds, xkid \in XKs, xvid \in XVs, ksp \in KSps, mk \in MKs :
       LET xk == IF xkid = "" THEN <<>> ELSE <<xkid>>
           xv == IF xkid = "" THEN <<>> ELSE <<XVal(xvid)>> IN
       /\ WrapOK(src, w) /\ RngOK(k, rngc) /\ OptOK(k, optc) /\ FsOK(k, src, fs) /\ BOK(opt, bid, xk)
       /\ ListOK(k, src, ptr, defc) /\ KspOK(src, ksp) /\ MkOK(w, mk)
       /\ DecOK(src, k, rngc, optc) /\ XvOK(src, xk, xvid)
       /\ LET a  == FldU(Unit, "a", k, ptr, opt, IF opt \in {"dep", "notdep"} THEN "b" ELSE "", defc, rngc, optc, fs)
              ty == IF bid = "nob" THEN <<a>> ELSE <<a, BField(bid)>>
          IN \E x \in InputsFor(a, src) :
             \E y \in (IF bid = "nob" THEN {VAbsent} ELSE BInputs(bid, src)) :
               LET in == IF bid = "nob" THEN <<x>> ELSE <<x, y>> IN
               \E wabs \in (IF w \in {"nested", "pnested"} /\ AllAbsent(in) /\ xk = <<>>
                            THEN BOOLEAN ELSE {FALSE}) :
                 LET v == Vec(src, w, wabs, ty, in, xk, xv, ksp, mk) IN Record(v, v, Out(v))

GNext == GNextWith(Ideal)
GSpec == FInit /\ [][GNext]_fvars

\* history hidden: one state per vector (generation) / per (vector, tags seen) (history MC)
GView  == cur
GView2 == <<cur, seen>>

PrintVec == (Emit /\ cur # NoVec) => PrintT("TRACE " \o ToJson([cls |-> Class(cur)] @@ cur))
\* cls (accept / reject / either) is informative only: the runner counts the classes for the
\* evidence file, the trace specification never reads it.
=============================================================================
