\* documented counterexample: "!dep" canonicalised with its prefix (header source)
SPECIFICATION ISpec
CONSTANTS
  Sources = {"header"}
  Wraps = {"flat"}
  Kinds = {"int"}
  AOpts = {"none", "plain", "dep", "notdep"}
  Defs = {"none", "in", "out"}
  Rngs = {"none", "cc", "oc", "frac"}
  Opts = {"none", "bar"}
  FSs = {FALSE, TRUE}
  Ptrs = {FALSE}
  BIds = {"nob", "opt", "mutual"}
  XKs = {"", "b"}
  Rich = FALSE
  Edges = FALSE
  KSps = {"lower"}
  MKs = {"k"}
  Unit = 2
  Multi = FALSE
  XVs = {"one"}
  Depth = 1
  Emit = FALSE
  DropOnRebuild = FALSE
  CanonBang = TRUE
  WideParse = FALSE
  MapAsStruct = FALSE
  RoundFirst = FALSE
  IndexFirst = FALSE
INVARIANTS InvNoPanic InvCompleteness InvSoundness InvValues InvHistoryIndependent InvClassesDisjoint
VIEW GView
CHECK_DEADLOCK FALSE
