\* generation (thorough): one shortest script of u/m/d operations per reachable memory state
SPECIFICATION ASpec
CONSTANTS
  Share = FALSE
  MaxT = 3
  MaxOps = 6
  Emit = TRUE
INVARIANTS InvNoPanic InvCompleteness InvSoundness InvValues InvHistoryIndependent InvIsolated InvView PrintScript
VIEW AView
CHECK_DEADLOCK FALSE
