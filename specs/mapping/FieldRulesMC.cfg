\* design level: all behaviours of two vectors; the ideal unmarshaller satisfies every clause,
\* classes are disjoint, and the verdict for a vector does not depend on the history
SPECIFICATION GSpec
CONSTANTS
  Sources = {"json"}
  Wraps = {"flat"}
  Kinds = {"int"}
  AOpts = {"plain", "dep", "notdep"}
  Defs = {"none"}
  Rngs = {"none", "oc"}
  Opts = {"none"}
  FSs = {FALSE}
  Ptrs = {FALSE}
  BIds = {"nob", "opt"}
  XKs = {""}
  Rich = FALSE
  Edges = FALSE
  KSps = {"lower"}
  MKs = {"k"}
  Unit = 2
  Multi = FALSE
  XVs = {"one"}
  Depth = 2
  Emit = FALSE
INVARIANTS InvNoPanic InvCompleteness InvSoundness InvValues InvHistoryIndependent InvClassesDisjoint
VIEW GView2
CHECK_DEADLOCK FALSE
