\* generation (quick) and design-level check at this bound: one shortest script of u/m/d operations per reachable
\* memory state; every invariant of FieldRulesAliasMC.cfg is checked on the way
SPECIFICATION ASpec
CONSTANTS
  Share = FALSE
  MaxT = 3
  MaxOps = 5
  Emit = TRUE
INVARIANTS InvNoPanic InvCompleteness InvSoundness InvValues InvHistoryIndependent InvIsolated InvView PrintScript
VIEW AView
CHECK_DEADLOCK FALSE
