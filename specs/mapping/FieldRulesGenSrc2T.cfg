\* thorough: every source with a real second field (plain optional / mutual dependency)
SPECIFICATION GSpec
CONSTANTS
  Sources = {"json", "yaml", "toml", "conf", "confyaml", "conftoml", "body", "map", "form", "formpost", "path", "header"}
  Wraps = {"flat"}
  Kinds = {"int", "string"}
  AOpts = {"none", "dep", "notdep"}
  Defs = {"none", "out"}
  Rngs = {"none", "oc"}
  Opts = {"none", "bar"}
  FSs = {FALSE, TRUE}
  Ptrs = {FALSE, TRUE}
  BIds = {"opt", "mutual"}
  XKs = {""}
  Rich = FALSE
  Edges = FALSE
  KSps = {"lower"}
  MKs = {"k"}
  Unit = 2
  Multi = FALSE
  XVs = {"one"}
  Depth = 1
  Emit = TRUE
INVARIANTS InvNoPanic InvCompleteness InvSoundness InvValues InvHistoryIndependent InvClassesDisjoint PrintVec
VIEW GView
CHECK_DEADLOCK FALSE
