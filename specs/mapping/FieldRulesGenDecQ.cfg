\* quick: decimal families - float fields, numbers in twentieths, range ends / options that no binary float holds exactly (0.1, 0.3, 0.7), through the JSON-number path (documents, conf), the string path (form, path, header) and the string option
SPECIFICATION GSpec
CONSTANTS
  Sources = {"json", "yaml", "conf", "form", "header"}
  Wraps = {"flat"}
  Kinds = {"float32", "float64"}
  AOpts = {"plain"}
  Defs = {"none"}
  Rngs = {"d1", "d7", "d1c", "d7c"}
  Opts = {"none", "dec"}
  FSs = {FALSE, TRUE}
  Ptrs = {FALSE, TRUE}
  BIds = {"nob"}
  XKs = {""}
  Rich = FALSE
  Edges = FALSE
  KSps = {"lower"}
  MKs = {"k"}
  Unit = 20
  Multi = FALSE
  XVs = {"one"}
  Depth = 1
  Emit = TRUE
INVARIANTS InvNoPanic InvCompleteness InvSoundness InvValues InvHistoryIndependent InvClassesDisjoint PrintVec
VIEW GView
CHECK_DEADLOCK FALSE
