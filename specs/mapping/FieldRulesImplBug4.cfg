\* documented counterexample: core/conf describing a map[string]Struct by its element field table (seeded defect class)
SPECIFICATION ISpec
CONSTANTS
  Sources = {"conf"}
  Wraps = {"map"}
  Kinds = {"int"}
  AOpts = {"none", "plain"}
  Defs = {"none", "in"}
  Rngs = {"none"}
  Opts = {"none"}
  FSs = {FALSE}
  Ptrs = {FALSE}
  BIds = {"nob"}
  XKs = {""}
  Rich = FALSE
  Edges = FALSE
  KSps = {"lower", "cap"}
  MKs = {"k", "a", "A", "M"}
  Depth = 1
  Emit = FALSE
  DropOnRebuild = FALSE
  CanonBang = FALSE
  WideParse = FALSE
  MapAsStruct = TRUE
INVARIANTS InvNoPanic InvCompleteness InvSoundness InvValues InvHistoryIndependent InvClassesDisjoint
VIEW GView
CHECK_DEADLOCK FALSE
