\* documented counterexample: ParseHeaders indexing the first value of a header whose list of values is empty (seeded defect class) violates InvNoPanic
SPECIFICATION ISpec
CONSTANTS
  Sources = {"form", "header"}
  Wraps = {"flat"}
  Kinds = {"int", "strs"}
  AOpts = {"plain"}
  Defs = {"none"}
  Rngs = {"none"}
  Opts = {"none"}
  FSs = {FALSE}
  Ptrs = {FALSE}
  BIds = {"nob"}
  XKs = {"", "zz"}
  Rich = FALSE
  Edges = FALSE
  KSps = {"lower"}
  MKs = {"k"}
  Unit = 2
  Multi = TRUE
  XVs = {"one", "none"}
  Depth = 1
  Emit = FALSE
  DropOnRebuild = FALSE
  CanonBang = FALSE
  WideParse = FALSE
  MapAsStruct = FALSE
  RoundFirst = FALSE
  IndexFirst = TRUE
INVARIANTS InvNoPanic InvCompleteness InvSoundness InvValues InvHistoryIndependent InvClassesDisjoint
VIEW GView
CHECK_DEADLOCK FALSE
