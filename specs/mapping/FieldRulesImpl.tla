---------------------------- MODULE FieldRulesImpl ----------------------------
(* Layer I for C08: the decision procedure of core/mapping as read from the code
   (parseOption -> toOptionsWithContext -> processNamedField -> processNamedFieldWithValue
   / WithoutValue -> processFieldPrimitive(WithJSONNumber) | processNamedFieldWithValueFromString
   -> fillPrimitive / fillWithSameType -> validateXxx), over the abstract vectors of
   FieldRulesGen.  TLC checks that its outcome satisfies Judge on every vector
   (Layer I => Layer P).  Two switches reproduce the defects found in go-zero:

     DropOnRebuild  toOptionsWithContext rebuilds the option set without Range when the
                    resolved optional flag differs from the declared one (pre-fix)
     CanonBang      WithCanonicalKeyFunc canonicalises "!dep" as a whole; with the header
                    canonicaliser the dependency key is then never found
   and two more reproduce classes of defects seeded by reviewers (documented
   counterexamples, not present in go-zero):
     WideParse      convertTypeFromString parses the 8/16-bit kinds with bitSize 32 and
                    reflect.SetInt/SetUint truncate: numbers too wide wrap around
     MapAsStruct    core/conf describes a map[string]Struct field by the field table of its
                    element: a map key spelled like a field of the element is lower-cased
                    and the keys below it are left as written
     RoundFirst     the number of a float32 field is range-checked after it has been rounded
                    to float32 (convert first, validate the converted value): a decimal range
                    end that float32 does not hold exactly is crossed by the number equal to it
     IndexFirst     rest/internal/encoding.ParseHeaders takes v[0] of every header whose list
                    of values is not longer than one: a key with an empty list panics       *)
EXTENDS FieldRulesGen

CONSTANTS DropOnRebuild, CanonBang, WideParse, MapAsStruct, RoundFirst, IndexFirst

\* ---- core/conf: toLowerCaseKeyMap.  Keys are lower-cased wherever the field table knows
\* them; the keys of a map field are data and kept.  LowerS: the spellings the vectors use.
LowerS(s) == CASE s = "A" -> "a" [] s = "B" -> "b" [] s = "M" -> "m" [] s = "K" -> "k" [] OTHER -> s
FieldNames(v) == {v.f[i].nm : i \in DOMAIN v.f}
\* the map key of the reported entry is taken for a field of the element
KeyTakenForField(v) ==
  MapAsStruct /\ v.src \in ConfSources /\ v.wrap = "map" /\ LowerS(v.mk) \in FieldNames(v)
\* the unmarshaller finds the field keys of the reported entry (it looks for the tag names)
KeysReach(v) == v.ksp = "lower" \/ (v.src \in ConfSources /\ ~KeyTakenForField(v))
StoredMk(v) == IF KeyTakenForField(v) THEN LowerS(v.mk) ELSE v.mk

\* ---- what the unmarshaller sees in its input map
\* httpx.GetFormValues drops the empty texts of a key and a key that has no text left;
\* encoding.ParseHeaders hands on a key with its list of values unless that has exactly one
PresentV(src, x) == /\ x.t # "absent"
                    /\ ~(src \in FormSources /\ x.t = "str" /\ x.s = "")
                    /\ ~(src \in FormSources /\ x.t = "novals")
PresentName(v, nm, reach) ==
  \/ reach /\ \E i \in DOMAIN v.f : v.f[i].nm = nm /\ PresentV(v.src, v.in[i])
  \/ \E j \in DOMAIN v.xk : v.xk[j] = nm /\ PresentV(v.src, v.xv[j])
\* internal/encoding turns a YAML null into the empty string; the form unmarshaller
\* (WithFromArray) gives a scalar field the first value of its key
Seen(src, x) == IF src \in {"yaml", "confyaml"} /\ x.t = "null" THEN VStr("")
                ELSE IF src \in FormSources /\ x.t = "num2" THEN VNum(x.n)
                ELSE IF src \in FormSources /\ x.t = "str2" THEN VStr(x.s)
                ELSE x
\* a scalar field that meets a list of values (header with no or several values): "the value
\* in map is not string, but slice"
SliceForScalar(src, x) == x.t \in {"novals", "num2", "str2"}

\* ---- float32: in which direction rounding to float32 moves n / 20 (facts of binary
\* arithmetic for the probe values; multiples of 0.25 are exact)
F32Dir(f, n) ==
  IF f.k # "float32" \/ f.u # 20 \/ n % 5 = 0 THEN 0
  ELSE CASE n \in {1, 2, 3, 4, 6, 8, 11, 12, 16, 17, 21, 22} -> 1     \* 0.05 0.1 0.15 0.2 0.3 0.4 0.55 0.6 0.8 0.85 1.05 1.1
         [] n \in {7, 9, 13, 14, 18, 19} -> 0 - 1                      \* 0.35 0.45 0.65 0.7 0.9 0.95
         [] OTHER -> 0
\* InRange on the rounded number: compare 2n + dir with the doubled ends
InRangeRounded(f, n) ==
  LET m == 2 * n + F32Dir(f, n) IN
  /\ f.hlo => IF f.li THEN m >= 2 * f.lo ELSE m > 2 * f.lo
  /\ f.hhi => IF f.ri THEN m <= 2 * f.hi ELSE m < 2 * f.hi

\* ---- fieldoptions.go: toOptionsWithContext
Resolve(v, i, reach) ==
  LET f      == v.f[i]
      selfOn == reach /\ PresentV(v.src, v.in[i])
      baseOn == IF f.opt = "notdep" /\ v.src = "header" /\ CanonBang THEN FALSE
                ELSE PresentName(v, f.dep, reach)
      opt    == CASE f.opt = "none"   -> FALSE
                  [] f.opt = "plain"  -> TRUE
                  [] f.opt = "notdep" -> baseOn
                  [] f.opt = "dep"    -> ~baseOn
      err    == \/ f.opt = "notdep" /\ baseOn = selfOn
                \/ f.opt = "dep" /\ baseOn # selfOn
      rebuilt == (f.opt # "none") # opt
  IN [err |-> err, optional |-> opt, range |-> f.hr /\ ~(rebuilt /\ DropOnRebuild)]

\* ---- conversions
Bad == [ok |-> FALSE, val |-> VNil]
Good(r) == [ok |-> TRUE, val |-> r]

\* convertTypeFromString(kind, text of x)
\* what SetInt/SetUint leave in an 8/16-bit variable (n in halves, a whole number)
Modulus(k) == IF k \in {"int8", "uint8"} THEN 256 ELSE 65536
Wrapped(k, n) ==
  LET m == ((n \div 2) % Modulus(k)) IN
  IF k \in {"int8", "int16"} /\ m >= Modulus(k) \div 2 THEN 2 * (m - Modulus(k)) ELSE 2 * m
FromText(f, x) ==
  CASE f.k \in IntKinds   -> IF x.t \in {"num", "numstr"} /\ Fits(f, x.n) THEN Good(VNum(x.n))
                             ELSE IF /\ WideParse /\ HasMax(f.k) /\ x.t \in {"num", "numstr"} /\ x.n % 2 = 0
                                     /\ (f.k \in UnsignedKinds => x.n >= 0)
                                  THEN Good(VNum(Wrapped(f.k, x.n))) ELSE Bad
    [] f.k \in FloatKinds -> IF x.t \in {"num", "numstr"} THEN Good(VNum(x.n)) ELSE Bad
    [] f.k = "string"     -> IF x.t = "str" THEN Good(VStr(x.s)) ELSE Good(V("other", 0, ""))
    [] f.k = "bool"       -> IF x.t = "bool" THEN Good(VBool(x.n))
                             ELSE IF x.t \in {"num", "numstr"} /\ x.n \in {0, 2} THEN Good(VBool(x.n \div 2))
                             ELSE Bad

OptTextOK(f, x) == ~f.ho \/ ValInOptions(f, x)
RangeOK(f, rng, r) == ~rng \/ (r.t = "num" /\ IF RoundFirst THEN InRangeRounded(f, r.n) ELSE InRange(f, r.n))

\* u.opts.fromString or the `string` tag option: processNamedFieldWithValueFromString
ViaString(f, rng, x) ==
  IF ~OptTextOK(f, x) THEN Bad
  ELSE LET c == FromText(f, x) IN
       IF c.ok /\ RangeOK(f, rng, c.val) THEN c ELSE Bad

\* documents: json.Number / string / bool
ViaDoc(f, rng, x) ==
  IF f.fs THEN (IF x.t = "bool" THEN Bad ELSE ViaString(f, rng, x))
  ELSE CASE x.t = "num" ->
              IF ~RangeOK(f, rng, VNum(x.n)) \/ ~OptTextOK(f, x) THEN Bad
              ELSE IF f.k \in NumericKinds THEN FromText(f, x) ELSE Bad
         [] x.t \in {"str", "numstr"} ->
              IF f.k = "string" /\ OptTextOK(f, x)
              THEN (IF x.t = "str" THEN Good(VStr(x.s)) ELSE Good(V("other", 0, ""))) ELSE Bad
         [] x.t = "bool" -> IF f.k = "bool" THEN Good(VBool(x.n)) ELSE Bad
         [] OTHER -> Bad

\* typed Go values (UnmarshalKey): the driver passes the exact Go type when the number fits it
ViaMap(f, rng, x) ==
  IF f.fs THEN (IF x.t \in {"str", "numstr"} THEN ViaString(f, rng, x) ELSE Bad)
  ELSE CASE x.t = "num" ->
              IF f.k \in NumericKinds /\ Fits(f, x.n) /\ OptTextOK(f, x) /\ RangeOK(f, rng, VNum(x.n))
              THEN Good(VNum(x.n)) ELSE Bad
         [] x.t \in {"str", "numstr"} ->
              IF f.k = "string" /\ OptTextOK(f, x)
              THEN (IF x.t = "str" THEN Good(VStr(x.s)) ELSE Good(V("other", 0, ""))) ELSE Bad
         [] x.t = "bool" -> IF f.k = "bool" THEN Good(VBool(x.n)) ELSE Bad
         [] OTHER -> Bad

\* ---- unmarshaler.go: processNamedField for field i
\* lists: fillSlice / fillSliceWithDefault (every call builds a new slice, see FieldRulesAlias)
ListField(v, f, x, r) ==
  IF ~PresentV(v.src, x) THEN (IF f.hd THEN Good(Default(f)) ELSE IF r.optional THEN Good(Zero(f)) ELSE Bad)
  ELSE IF x.t = "null" THEN (IF r.optional THEN Good(Zero(f)) ELSE Bad)
  ELSE IF x.t = "novals" THEN Good(Zero(f))                     \* header: an empty list of values fills an empty list
  ELSE IF v.src = "header" /\ x.t = "list" /\ x.n = 1 THEN Bad    \* one value arrives as a text, not as a list
  ELSE IF x.t = "list" THEN Good(x) ELSE Bad

\* reach: the keys of the entry reach the unmarshaller in the spelling it looks for
Field(v, i, reach) ==
  LET f == v.f[i]
      x == IF reach THEN Seen(v.src, v.in[i]) ELSE VAbsent
      r == Resolve(v, i, reach)
  IN IF r.err THEN Bad
     ELSE IF f.k \in ListKinds THEN ListField(v, f, x, r)
     ELSE IF ~PresentV(v.src, x) THEN
            (IF f.hd THEN Good(Default(f)) ELSE IF r.optional THEN Good(Zero(f)) ELSE Bad)
     ELSE IF x.t = "null" THEN (IF r.optional THEN Good(Zero(f)) ELSE Bad)
     ELSE IF SliceForScalar(v.src, x) THEN Bad
     ELSE IF v.src \in StrSources THEN ViaString(f, r.range, x)
     ELSE IF v.src \in MapSources THEN ViaMap(f, r.range, x)
     ELSE ViaDoc(f, r.range, x)

\* the map wrapper holds two entries with the same content: v.mk (reported) and "k2"
HasNoVals(v) == \/ \E i \in DOMAIN v.in : v.in[i].t = "novals"
                \/ \E j \in DOMAIN v.xv : v.xv[j].t = "novals"
Impl(v) ==
  LET reach == KeysReach(v) IN
  IF IndexFirst /\ v.src = "header" /\ HasNoVals(v) THEN [acc |-> FALSE, pan |-> TRUE, out |-> <<>>, mk |-> <<>>]
  ELSE
  IF /\ \A i \in DOMAIN v.f : Field(v, i, reach).ok
     /\ v.wrap = "map" => \A i \in DOMAIN v.f : Field(v, i, TRUE).ok
  THEN [acc |-> TRUE, pan |-> FALSE,
        out |-> [i \in DOMAIN v.f |-> IF v.wrap = "map" /\ StoredMk(v) # v.mk
                                      THEN V("nowrapper", 0, "") ELSE Field(v, i, reach).val],
        mk |-> IF v.wrap = "map" THEN <<StoredMk(v), "k2">> ELSE <<>>]
  ELSE NoRes

INext == GNextWith(Impl)
ISpec == FInit /\ [][INext]_fvars
=============================================================================
