---------------------------- MODULE FieldRulesImpl ----------------------------
(* Layer I for C08: the decision procedure of core/mapping as read from the code
   (parseOption -> toOptionsWithContext -> processNamedField -> processNamedFieldWithValue
   / WithoutValue -> processFieldPrimitive(WithJSONNumber) | processNamedFieldWithValueFromString
   -> fillPrimitive / fillWithSameType -> validateXxx), over the abstract vectors of
   FieldRulesGen.  TLC checks that its outcome satisfies Judge on every vector
   (Layer I => Layer P).  Two switches reproduce the defects found in go-zero:

     DropOnRebuild  toOptionsWithContext rebuilds the option set without Range when the
                    resolved optional flag differs from the declared one (pre-fix)
     CanonBang      WithCanonicalKeyFunc canonicalises "!dep" as a whole; with the header
                    canonicaliser the dependency key is then never found            *)
EXTENDS FieldRulesGen

CONSTANTS DropOnRebuild, CanonBang

\* ---- what the unmarshaller sees in its input map
PresentV(src, x) == x.t # "absent" /\ ~(src \in FormSources /\ x.t = "str" /\ x.s = "")
PresentName(v, nm) ==
  \/ \E i \in DOMAIN v.f : v.f[i].nm = nm /\ PresentV(v.src, v.in[i])
  \/ nm \in SeqSet(v.xk)
\* internal/encoding turns a YAML null into the empty string
Seen(src, x) == IF src \in {"yaml", "confyaml"} /\ x.t = "null" THEN VStr("") ELSE x

\* ---- fieldoptions.go: toOptionsWithContext
Resolve(v, i) ==
  LET f      == v.f[i]
      selfOn == PresentV(v.src, v.in[i])
      baseOn == IF f.opt = "notdep" /\ v.src = "header" /\ CanonBang THEN FALSE
                ELSE PresentName(v, f.dep)
      opt    == CASE f.opt = "none"   -> FALSE
                  [] f.opt = "plain"  -> TRUE
                  [] f.opt = "notdep" -> baseOn
                  [] f.opt = "dep"    -> ~baseOn
      err    == \/ f.opt = "notdep" /\ baseOn = selfOn
                \/ f.opt = "dep" /\ baseOn # selfOn
      rebuilt == (f.opt # "none") # opt
  IN [err |-> err, optional |-> opt, range |-> f.hr /\ ~(rebuilt /\ DropOnRebuild)]

\* ---- conversions
Bad == [ok |-> FALSE, val |-> VNil]
Good(r) == [ok |-> TRUE, val |-> r]

\* convertTypeFromString(kind, text of x)
FromText(f, x) ==
  CASE f.k \in IntKinds   -> IF x.t \in {"num", "numstr"} /\ Fits(f, x.n) THEN Good(VNum(x.n)) ELSE Bad
    [] f.k \in FloatKinds -> IF x.t \in {"num", "numstr"} THEN Good(VNum(x.n)) ELSE Bad
    [] f.k = "string"     -> IF x.t = "str" THEN Good(VStr(x.s)) ELSE Good(V("other", 0, ""))
    [] f.k = "bool"       -> IF x.t = "bool" THEN Good(VBool(x.n))
                             ELSE IF x.t \in {"num", "numstr"} /\ x.n \in {0, 2} THEN Good(VBool(x.n \div 2))
                             ELSE Bad

OptTextOK(f, x) == ~f.ho \/ ValInOptions(f, x)
RangeOK(f, rng, r) == ~rng \/ (r.t = "num" /\ InRange(f, r.n))

\* u.opts.fromString or the `string` tag option: processNamedFieldWithValueFromString
ViaString(f, rng, x) ==
  IF ~OptTextOK(f, x) THEN Bad
  ELSE LET c == FromText(f, x) IN
       IF c.ok /\ RangeOK(f, rng, c.val) THEN c ELSE Bad

\* documents: json.Number / string / bool
ViaDoc(f, rng, x) ==
  IF f.fs THEN (IF x.t = "bool" THEN Bad ELSE ViaString(f, rng, x))
  ELSE CASE x.t = "num" ->
              IF ~RangeOK(f, rng, VNum(x.n)) \/ ~OptTextOK(f, x) THEN Bad
              ELSE IF f.k \in NumericKinds THEN FromText(f, x) ELSE Bad
         [] x.t \in {"str", "numstr"} ->
              IF f.k = "string" /\ OptTextOK(f, x)
              THEN (IF x.t = "str" THEN Good(VStr(x.s)) ELSE Good(V("other", 0, ""))) ELSE Bad
         [] x.t = "bool" -> IF f.k = "bool" THEN Good(VBool(x.n)) ELSE Bad
         [] OTHER -> Bad

\* typed Go values (UnmarshalKey): the driver passes the exact Go type when the number fits it
ViaMap(f, rng, x) ==
  IF f.fs THEN (IF x.t \in {"str", "numstr"} THEN ViaString(f, rng, x) ELSE Bad)
  ELSE CASE x.t = "num" ->
              IF f.k \in NumericKinds /\ Fits(f, x.n) /\ OptTextOK(f, x) /\ RangeOK(f, rng, VNum(x.n))
              THEN Good(VNum(x.n)) ELSE Bad
         [] x.t \in {"str", "numstr"} ->
              IF f.k = "string" /\ OptTextOK(f, x)
              THEN (IF x.t = "str" THEN Good(VStr(x.s)) ELSE Good(V("other", 0, ""))) ELSE Bad
         [] x.t = "bool" -> IF f.k = "bool" THEN Good(VBool(x.n)) ELSE Bad
         [] OTHER -> Bad

\* ---- unmarshaler.go: processNamedField for field i
Field(v, i) ==
  LET f == v.f[i]
      x == Seen(v.src, v.in[i])
      r == Resolve(v, i)
  IN IF r.err THEN Bad
     ELSE IF ~PresentV(v.src, x) THEN
            (IF f.hd THEN Good(Default(f)) ELSE IF r.optional THEN Good(Zero(f)) ELSE Bad)
     ELSE IF x.t = "null" THEN (IF r.optional THEN Good(Zero(f)) ELSE Bad)
     ELSE IF v.src \in StrSources THEN ViaString(f, r.range, x)
     ELSE IF v.src \in MapSources THEN ViaMap(f, r.range, x)
     ELSE ViaDoc(f, r.range, x)

Impl(v) ==
  IF \A i \in DOMAIN v.f : Field(v, i).ok
  THEN [acc |-> TRUE, pan |-> FALSE, out |-> [i \in DOMAIN v.f |-> Field(v, i).val]]
  ELSE [acc |-> FALSE, pan |-> FALSE, out |-> <<>>]

INext == GNextWith(Impl)
ISpec == FInit /\ [][INext]_fvars
=============================================================================
