\* documented counterexample: handing out the cached parsed default itself (seeded defect class) breaks
\* InvValues / InvHistoryIndependent / InvIsolated after a caller wrote into its target
SPECIFICATION ASpec
CONSTANTS
  Share = TRUE
  MaxT = 2
  MaxOps = 4
  Emit = FALSE
INVARIANTS InvNoPanic InvCompleteness InvSoundness InvValues InvHistoryIndependent InvIsolated InvView
VIEW AView
CHECK_DEADLOCK FALSE
