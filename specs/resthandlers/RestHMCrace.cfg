\* exhaustive: two exchanges in flight, registrations between the registry read and the call
SPECIFICATION ISpec
CONSTANTS
  CfgSet <- CfgHttpx
  ReqSet <- ReqRace
  ErrSet <- ErrRace
  OkSet <- OkRace
  MaxReqs = 2
  MaxInflight = 2
  MaxSets = 2
  Variant = "asis"
  Emit = FALSE
INVARIANTS Refines TypeOK RegRefines Explained EnteredAdmitted RegistryOK NoCredentialsWithStar GrantOnlyAllowed PreflightNotRouted OverLimitNotEntered WithinLimitEntered BadGzipRefused PanicContained PanicIs500 CorsOnEveryAnswer
VIEW View
CHECK_DEADLOCK FALSE
