\* exhaustive: CORS middleware / not-allowed handler / origin matching over 58 configurations
SPECIFICATION ISpec
CONSTANTS
  CfgSet <- CfgCors
  ReqSet <- ReqCors
  ErrSet <- ErrRace
  OkSet <- OkRace
  MaxReqs = 1
  MaxInflight = 1
  MaxSets = 0
  Variant = "asis"
  Emit = FALSE
INVARIANTS Refines TypeOK RegRefines Explained EnteredAdmitted RegistryOK NoCredentialsWithStar GrantOnlyAllowed PreflightNotRouted OverLimitNotEntered WithinLimitEntered BadGzipRefused PanicContained PanicIs500 CorsOnEveryAnswer
VIEW View
CHECK_DEADLOCK FALSE
