\* wrong variant (expect a violation): per-call error functions run although a handler is registered
SPECIFICATION ISpec
CONSTANTS
  CfgSet <- CfgHttpx
  ReqSet <- ReqBugHttpx
  ErrSet <- ErrRace
  OkSet <- OkRace
  MaxReqs = 1
  MaxInflight = 1
  MaxSets = 1
  Variant = "fnsalways"
  Emit = FALSE
INVARIANTS Refines
VIEW View
CHECK_DEADLOCK FALSE
