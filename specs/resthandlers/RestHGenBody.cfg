\* generation: one (configuration, request) case per line, body limits / gunzip / recover
SPECIFICATION ISpec
CONSTANTS
  CfgSet <- CfgGenBody
  ReqSet <- ReqGenBody
  ErrSet <- ErrRace
  OkSet <- OkRace
  MaxReqs = 1
  MaxInflight = 1
  MaxSets = 0
  Variant = "asis"
  Emit = TRUE
INVARIANTS Refines PrintHist
VIEW View
CHECK_DEADLOCK FALSE
