----------------------------- MODULE RestHImpl -----------------------------
(* Extension "resthandlers" (host C04).  Layer I: the code path of a request through a go-zero
   REST server, written like the code --

     server.go  corsRouter.ServeHTTP  =  cors.Middleware(fn, origins...)(router.ServeHTTP)
     cors/handlers.go  Middleware / NotAllowedHandler / checkAndSetHeaders / isOriginAllowed /
                       setHeader / setVaryHeaders, on a response.HeaderOnceResponseWriter
     router            found -> the route's chain; unknown path -> engine.notFoundHandler;
                       known path, other method -> the not-allowed handler (405 + Allow without CORS)
     engine.go         chain order  RecoverHandler -> MaxBytesHandler(checkedMaxBytes) -> GunzipHandler -> handler
     handler/*.go      the three middlewares
     httpx/responses.go  Ok, WriteJson (doWriteJson), OkJson (handler read under okLock), Error
                       (buildErrorHandler: handler read under errorLock; doHandleError)

   -- one action per middleware / per step of the harness handler, the registry read (load) and the
   use of what was read (call) as two steps, so that SetErrorHandler / SetOkHandler calls of another
   goroutine can fall between them.  Every observable step is taken together with the Layer-P action
   of RestH.tla; when P's guard is false the step sets  bad  (Refines == ~bad).

   Variant selects documented wrong variants (the Bug_* configurations expect a violation):
     "asis"        the code as it is
     "credstar"    setHeader sends Allow-Credentials also with "*"
     "suffix"      isOriginAllowed compares the suffix without the dot (not-safe.com passes for safe.com)
     "corsinside"  the CORS middleware is applied per route instead of around the router
     "mbge"        MaxBytesHandler rejects ContentLength >= n
     "gzpass"      GunzipHandler passes a body that is no gzip stream on to the handler
     "norecover"   RecoverHandler recovers but writes no status
     "fnsalways"   doHandleError runs the per-call functions although a handler is registered
     "reread"      Error reads the registered handler a second time when it calls it        *)
EXTENDS RestH, Json

CONSTANTS CfgSet, ReqSet, ErrSet, OkSet, MaxReqs, MaxInflight, MaxSets, Variant, Emit

VARIABLES
  reg,    \* the registry of rest/httpx: [eh, ok]
  ix,     \* exchange id |-> the implementation's view of it
  nreq, nset,
  bad,    \* an implementation step that Layer P does not allow was taken
  last,   \* the exchange that finished last: [q, ent, obs]
  fin,    \* the last step finished an exchange
  hist    \* operations so far (for generation; hidden by the VIEW)

ivars == <<reg, ix, nreq, nset, last, fin>>
vars == <<cfg, eh, okh, ex, reg, ix, nreq, nset, bad, last, fin, hist>>

Ids == <<"q1", "q2", "q3", "q4">>
GzOver == 20
WireSize(r) == CASE r.bk = "plain" -> r.psz [] r.bk = "empty" -> 0
                 [] r.bk = "gztrunc" -> r.psz + GzOver - 3 [] OTHER -> r.psz + GzOver
\* what the client sends for the abstract request r
Concrete(r, id) == LET sz == WireSize(r) IN
  [id |-> id, m |-> r.m, p |-> r.p, o |-> r.o, cl |-> IF r.ch /\ sz > 0 THEN -1 ELSE sz, sz |-> sz,
   psz |-> IF r.bk = "empty" THEN 0 ELSE r.psz, bk |-> r.bk, enc |-> r.enc, script |-> r.script]

ACRM == "Access-Control-Request-Method"
ACRH == "Access-Control-Request-Headers"

\* ---------------------------------------------------------------- cors/handlers.go
IAllowed(list, o) ==
  \E i \in 1..Len(list) :
     \/ list[i] = Star
     \/ Lower(o) = Lower(list[i])
     \/ EndsWith(Lower(o), (IF Variant = "suffix" THEN <<>> ELSE <<".">>) \o Lower(list[i]))

ISetHeader(w, origin) ==
  LET w1 == HSetSeq(HSet(HSet(HSet(HSet(w, "acao", origin), "acam", MethodsVal), "aceh", ExposeVal),
                         "acma", MaxAgeVal), "acah", BaseAllowHeaders)
  IN IF origin # Star \/ Variant = "credstar" THEN HSet(w1, "acac", "true") ELSE w1

ICheckAndSet(w, q, origins) ==
  LET w1 == HAddSeq(w, "vary", <<"Origin">> \o (IF q.m = "OPTIONS" THEN <<ACRM, ACRH>> ELSE <<>>)) IN
  IF origins = <<>> THEN ISetHeader(w1, Star)
  ELSE IF IAllowed(origins, q.o) THEN ISetHeader(w1, q.o)
  ELSE w1

OriginsArg == IF cfg.cors = "hdrs" THEN <<Star>> ELSE cfg.origins
\* the fn of cors.Middleware: WithCorsHeaders adds its headers, WithCustomCors calls the user's function
IHeaderFn(w) == CASE cfg.cors = "hdrs" -> HAddSeq(w, "acah", cfg.xh)
                  [] cfg.cors = "custom" /\ cfg.mfn -> HSet(w, "xm", "m")
                  [] OTHER -> w
\* NotAllowedHandler(fn, origins...): the writer is a HeaderOnceResponseWriter -- with "first commit
\* wins" of the writer below it, its own flag changes nothing that can be observed
INotAllowed(w, q) ==
  LET w1 == ICheckAndSet(w, q, OriginsArg)
      w2 == CASE cfg.cors = "custom" /\ cfg.nfn = "hdr"   -> HSet(w1, "xn", "n")
              [] cfg.cors = "custom" /\ cfg.nfn = "code"  -> WHeader(w1, 418)
              [] cfg.cors = "custom" /\ cfg.nfn = "write" -> WWrite(w1, "n")
              [] OTHER -> w1
  IN WHeader(w2, IF q.m = "OPTIONS" THEN 204 ELSE 404)

\* ---------------------------------------------------------------- httpx/responses.go
IWriteJson(w, c, j) ==      \* doWriteJson
  IF ~j.ok THEN HttpError(w, 500, MarshalMsg)
  ELSE WWrite(WHeader(HSet(w, "ct", JsonCT), c), j.s)

IRunFns(w, s, msg) == LET w1 == IF s.fns > 0 THEN HttpError(HSet(w, "xh", "f"), 499, msg) ELSE w IN
                      IF s.fns > 1 THEN WWrite(w1, "f2") ELSE w1
\* doHandleError with the handler h that buildErrorHandler produced
IHandleError(w, h, s, id) ==
  LET msg == ErrMsg(s.err, id) IN
  IF h = "none" THEN
       IF s.fns > 0 THEN IRunFns(w, s, msg)
       ELSE IF s.err # "plain" THEN HttpError(w, Grpc[s.err].http, msg)
       ELSE HttpError(w, 400, msg)
  ELSE LET r  == EH[h]
           w0 == IF Variant = "fnsalways" THEN IRunFns(w, s, msg) ELSE w IN
       IF r.b = "nil" THEN WHeader(w0, r.c)
       ELSE IF r.b = "err" THEN HttpError(w0, r.c, msg)
       ELSE IWriteJson(w0, r.c, CASE r.b = "str" -> J(Quote(msg))
                                  [] r.b = "map" -> J("{\"msg\":" \o Quote(msg) \o "}")
                                  [] r.b = "arr" -> J("[" \o Quote(msg) \o "]")
                                  [] OTHER -> JBad)

\* ---------------------------------------------------------------- lock-step with Layer P
Sync(G, A) == IF G THEN A /\ UNCHANGED bad ELSE bad' = TRUE /\ UNCHANGED pvars
PSame == UNCHANGED pvars
Upd(id, r) == ix' = [ix EXCEPT ![id] = r]

NoObs == [st |-> 0, body |-> "", ct |-> <<>>, acao |-> <<>>, acam |-> <<>>, acah |-> <<>>, acac |-> <<>>,
          aceh |-> <<>>, acma |-> <<>>, vary |-> <<>>, allow |-> <<>>, xh |-> <<>>, xm |-> <<>>, xn |-> <<>>]
ObsOf(x) == IF x.pan # "none" THEN NoObs
            ELSE LET w == WClose(x.w) IN
                 [st |-> w.code, body |-> IF BodyAllowed(w.code) THEN w.body ELSE "", ct |-> w.sent.ct,
                  acao |-> w.sent.acao, acam |-> w.sent.acam, acah |-> w.sent.acah, acac |-> w.sent.acac,
                  aceh |-> w.sent.aceh, acma |-> w.sent.acma, vary |-> w.sent.vary, allow |-> w.sent.allow,
                  xh |-> w.sent.xh, xm |-> w.sent.xm, xn |-> w.sent.xn]

\* ---------------------------------------------------------------- actions
IInit == /\ cfg \in CfgSet /\ eh = {"none"} /\ okh = {"none"} /\ ex = <<>>
         /\ reg = [err |-> "none", ok |-> "none"] /\ ix = <<>> /\ nreq = 0 /\ nset = 0
         /\ bad = FALSE /\ last = <<>> /\ fin = FALSE /\ hist = <<>>

PlanOf(r) == [m |-> r.m, p |-> r.p, o |-> r.o, ch |-> r.ch, psz |-> r.psz, bk |-> r.bk, enc |-> r.enc,
              encv |-> IF r.sub THEN 1 ELSE 0, cut |-> 3, script |-> r.script]

\* the client sends a request
IReq ==
  /\ nreq < MaxReqs /\ Cardinality(DOMAIN ix) < MaxInflight
  /\ \E r \in ReqSet :
       LET id == Ids[nreq + 1]
           q  == Concrete(r, id) IN
       /\ ix' = Put(ix, id, [q |-> q, sub |-> r.sub, pc |-> IF Variant = "corsinside" THEN "route" ELSE "cors",
                             w |-> W0, rec |-> FALSE, rd |-> "raw", nrd |-> 0, rerr |-> FALSE, pos |-> 1,
                             pan |-> "none", ld |-> "-", ent |-> FALSE])
       /\ Sync(PReqG(id, q), PReq(id, q))
       /\ hist' = Append(hist, [op |-> "req", h |-> "", req |-> PlanOf(r)])
  /\ nreq' = nreq + 1 /\ fin' = FALSE /\ UNCHANGED <<reg, nset, last>>

\* another goroutine registers a handler: Lock; write; Unlock -- one step
ISetErr ==
  /\ nset < MaxSets
  /\ \E h \in ErrSet :
       /\ reg' = [reg EXCEPT !.err = h]
       /\ eh' = {h}
       /\ ex' = [i \in Live |-> IF ex[i].hc = "error" THEN [ex[i] EXCEPT !.hcand = @ \cup {h}] ELSE ex[i]]
       /\ hist' = Append(hist, [op |-> "seteh", h |-> h])
  /\ nset' = nset + 1 /\ fin' = FALSE /\ UNCHANGED <<cfg, okh, ix, nreq, bad, last>>
ISetOk ==
  /\ nset < MaxSets
  /\ \E h \in OkSet :
       /\ reg' = [reg EXCEPT !.ok = h]
       /\ okh' = {h}
       /\ ex' = [i \in Live |-> IF ex[i].hc = "okjson" THEN [ex[i] EXCEPT !.hcand = @ \cup {h}] ELSE ex[i]]
       /\ hist' = Append(hist, [op |-> "setok", h |-> h])
  /\ nset' = nset + 1 /\ fin' = FALSE /\ UNCHANGED <<cfg, eh, ix, nreq, bad, last>>

Quiet == UNCHANGED <<reg, nreq, nset, last, hist>> /\ fin' = FALSE

\* corsRouter.ServeHTTP: cors.Middleware around the router
ICors(id) ==
  LET x == ix[id] IN
  /\ x.pc = "cors"
  /\ IF ~CorsOn(cfg) THEN Upd(id, [x EXCEPT !.pc = IF Variant = "corsinside" THEN "recover" ELSE "route"])
     ELSE LET w1 == IHeaderFn(ICheckAndSet(x.w, x.q, OriginsArg)) IN
          IF x.q.m = "OPTIONS" THEN Upd(id, [x EXCEPT !.w = WHeader(w1, 204), !.pc = "fin"])
          ELSE Upd(id, [x EXCEPT !.w = w1, !.pc = IF Variant = "corsinside" THEN "recover" ELSE "route"])
  /\ PSame /\ UNCHANGED bad /\ Quiet

\* patRouter.ServeHTTP
IRoute(id) ==
  LET x == ix[id] IN
  /\ x.pc = "route"
  /\ CASE Class(x.q) = "ok" -> Upd(id, [x EXCEPT !.pc = IF Variant = "corsinside" THEN "cors" ELSE "recover"])
       [] Class(x.q) = "nf" -> Upd(id, [x EXCEPT !.w = HttpError(@, 404, "404 page not found"), !.pc = "fin"])
       [] OTHER -> IF CorsOn(cfg)
                     THEN Upd(id, [x EXCEPT !.w = INotAllowed(@, x.q), !.pc = "fin"])
                     ELSE Upd(id, [x EXCEPT !.w = WHeader(HSetSeq(@, "allow", SetToSeq(AllowOf(x.q.p))), 405), !.pc = "fin"])
  /\ PSame /\ UNCHANGED bad /\ Quiet

\* RecoverHandler: defer func() { recover() ... }()
IRecover(id) ==
  LET x == ix[id] IN
  /\ x.pc = "recover"
  /\ Upd(id, [x EXCEPT !.rec = cfg.rec, !.pc = "maxbytes"])
  /\ PSame /\ UNCHANGED bad /\ Quiet

\* MaxBytesHandler(checkedMaxBytes(route's maxBytes))
IMaxBytes(id) ==
  LET x == ix[id]
      n == IF x.q.p = "a" /\ cfg.rmb > 0 THEN cfg.rmb ELSE cfg.n
      over == IF Variant = "mbge" THEN x.q.cl >= n ELSE x.q.cl > n IN
  /\ x.pc = "maxbytes"
  /\ IF cfg.mb /\ n > 0 /\ over THEN Upd(id, [x EXCEPT !.w = WHeader(@, 413), !.pc = "unwind"])
     ELSE Upd(id, [x EXCEPT !.pc = "gunzip"])
  /\ PSame /\ UNCHANGED bad /\ Quiet

\* GunzipHandler, then the route's handler is entered
IGunzip(id) ==
  LET x == ix[id]
      says == x.q.enc = "gzip" \/ (x.q.enc = "fuzzy" /\ x.sub)       \* strings.Contains(header, "gzip")
      isgz == x.q.bk \in {"gz", "gztrunc", "gzcrc"} IN                 \* gzip.NewReader accepts the header
  /\ x.pc = "gunzip"
  /\ IF cfg.gz /\ says /\ ~isgz /\ Variant # "gzpass"
       THEN Upd(id, [x EXCEPT !.w = WHeader(@, 400), !.pc = "unwind"]) /\ PSame /\ UNCHANGED bad
       ELSE /\ Upd(id, [x EXCEPT !.rd = IF cfg.gz /\ says /\ isgz THEN "gz" ELSE "raw", !.pc = "handler", !.ent = TRUE])
            /\ Sync(PEnterG(id), PEnter(id))
  /\ Quiet

IReadObs(x) ==
  IF x.nrd > 0 THEN [n |-> 0, eqp |-> TRUE, eqw |-> TRUE, err |-> x.rerr]
  ELSE IF x.rd = "gz" THEN [n |-> x.q.psz, eqp |-> TRUE, eqw |-> FALSE, err |-> x.q.bk # "gz"]
  ELSE [n |-> x.q.sz, eqp |-> x.q.bk \in {"plain", "empty"}, eqw |-> TRUE, err |-> FALSE]

\* one step of the harness handler
IStep(id) ==
  LET x == ix[id] IN
  /\ x.pc = "handler"
  /\ IF x.pos > Len(x.q.script) THEN Upd(id, [x EXCEPT !.pc = "unwind"]) /\ PSame /\ UNCHANGED bad
     ELSE LET s == x.q.script[x.pos] IN
       CASE s.op = "read" ->
              LET o == IReadObs(x) IN
              /\ Upd(id, [x EXCEPT !.nrd = @ + 1, !.rerr = IF x.nrd = 0 THEN o.err ELSE @, !.pos = @ + 1])
              /\ Sync(PReadG(id, o), PRead(id, o))
         [] s.op = "panic" -> Upd(id, [x EXCEPT !.pan = s.w, !.pc = "unwind"]) /\ PSame /\ UNCHANGED bad
         [] IsHelper(s) /\ x.ld = "-" ->       \* RLock; handler := registered; RUnlock
              /\ Upd(id, [x EXCEPT !.ld = IF s.op = "error" THEN reg.err ELSE reg.ok])
              /\ Sync(PHelpSG(id, s.op), PHelpS(id, s.op))
         [] IsHelper(s) /\ x.ld # "-" ->       \* the call with what was read
              LET h == IF Variant = "reread" /\ s.op = "error" /\ x.ld # "none" THEN reg.err ELSE x.ld IN
              IF h = "none" /\ x.ld # "none"
                THEN Upd(id, [x EXCEPT !.pan = "nilcall", !.pc = "unwind"]) /\ PSame /\ UNCHANGED bad
                ELSE LET u == [used |-> h, n |-> IF h = "none" THEN 0 ELSE 1, ctxok |-> CtxSeen(s, h)] IN
                     /\ Upd(id, [x EXCEPT !.w = IF s.op = "error" THEN IHandleError(@, h, s, id)
                                                  ELSE IWriteJson(@, 200, OkApply(h, s.v, id)),
                                          !.ld = "-", !.pos = @ + 1])
                     /\ Sync(PHelpEG(id, u), PHelpE(id, u))
         [] OTHER ->
              /\ Upd(id, [x EXCEPT !.pos = @ + 1,
                                   !.w = CASE s.op = "hdr"   -> HSet(@, "xh", "1")
                                           [] s.op = "code"  -> WHeader(@, s.c)
                                           [] s.op = "write" -> WWrite(@, s.s)
                                           [] s.op = "ok"    -> WHeader(@, 200)
                                           [] OTHER          -> IWriteJson(@, s.c, ValJson(s.v, id))])
              /\ PSame /\ UNCHANGED bad
  /\ Quiet

\* back through the chain: the deferred function of RecoverHandler
IUnwind(id) ==
  LET x == ix[id] IN
  /\ x.pc = "unwind"
  /\ IF x.pan # "none" /\ x.rec
       THEN Upd(id, [x EXCEPT !.w = IF Variant = "norecover" THEN @ ELSE WHeader(@, 500), !.pan = "none", !.pc = "fin"])
       ELSE Upd(id, [x EXCEPT !.pc = "fin"])
  /\ PSame /\ UNCHANGED bad /\ Quiet

\* net/http finishes the response (or, after a panic nobody recovered, drops the connection)
IFin(id) ==
  LET x == ix[id]
      o == ObsOf(x) IN
  /\ x.pc = "fin"
  /\ ix' = Drop(ix, id)
  /\ Sync(PRespG(id, o), PResp(id, o))
  /\ last' = [q |-> x.q, ent |-> x.ent, obs |-> o]
  /\ fin' = TRUE /\ UNCHANGED <<reg, nreq, nset, hist>>

\* (one named disjunct per action, so that TLC's -coverage reports each of them)
DoReq      == ~bad /\ IReq
DoSetErr   == ~bad /\ ISetErr
DoSetOk    == ~bad /\ ISetOk
DoCors     == ~bad /\ \E id \in DOMAIN ix : ICors(id)
DoRoute    == ~bad /\ \E id \in DOMAIN ix : IRoute(id)
DoRecover  == ~bad /\ \E id \in DOMAIN ix : IRecover(id)
DoMaxBytes == ~bad /\ \E id \in DOMAIN ix : IMaxBytes(id)
DoGunzip   == ~bad /\ \E id \in DOMAIN ix : IGunzip(id)
DoStep     == ~bad /\ \E id \in DOMAIN ix : IStep(id)
DoUnwind   == ~bad /\ \E id \in DOMAIN ix : IUnwind(id)
DoFin      == ~bad /\ \E id \in DOMAIN ix : IFin(id)
INext == DoReq \/ DoSetErr \/ DoSetOk \/ DoCors \/ DoRoute \/ DoRecover \/ DoMaxBytes \/ DoGunzip \/ DoStep \/ DoUnwind \/ DoFin
ISpec == IInit /\ [][INext]_vars

\* ---------------------------------------------------------------- what TLC checks
Refines == ~bad
TypeOK == /\ reg.err \in ErrIds /\ reg.ok \in OkIds
          /\ \A id \in DOMAIN ix : ix[id].pc \in {"cors", "route", "recover", "maxbytes", "gunzip", "handler", "unwind", "fin"}
\* the registry the implementation holds is one the law considers current
RegRefines == reg.err \in eh /\ reg.ok \in okh

\* the laws, stated on the exchange that finished last
Done == last # <<>>
NoCredentialsWithStar == Done => (last.obs.acao = <<Star>> => last.obs.acac = <<>>)
GrantOnlyAllowed ==
  Done /\ last.obs.acao # <<>> /\ last.obs.acao # <<Star>> /\ last.q.o # <<>> =>
     last.obs.acao = <<last.q.o>> /\ Allowed(OriginList(cfg), last.q.o)
PreflightNotRouted == Done /\ Preflight(cfg, last.q) => last.obs.st = 204 /\ ~last.ent
OverLimitNotEntered == Done /\ ~Preflight(cfg, last.q) /\ Class(last.q) = "ok" /\ TooLarge(cfg, last.q) =>
                         last.obs.st = 413 /\ ~last.ent
WithinLimitEntered == Done /\ ~Preflight(cfg, last.q) /\ Class(last.q) = "ok" /\ ~TooLarge(cfg, last.q)
                         /\ ~(cfg.gz /\ last.q.enc \in {"gzip", "fuzzy"}) => last.ent
BadGzipRefused == Done /\ last.ent /\ cfg.gz /\ last.q.enc = "gzip" => last.q.bk # "plain"
PanicContained == Done /\ cfg.rec /\ last.ent /\ (\A i \in 1..Len(last.q.script) : last.q.script[i].op = "panic" => last.q.script[i].w # "abort")
                    => last.obs.st # 0
\* a recovered panic is a 500 unless the handler had committed something
PanicIs500 == Done /\ cfg.rec /\ last.ent /\ Len(last.q.script) = 1 /\ last.q.script[1].op = "panic" => last.obs.st \in {0, 500}
CorsOnEveryAnswer == Done /\ CorsOn(cfg) /\ last.obs.st # 0 => "Origin" \in SeqToSetW(last.obs.vary)

\* ---------------------------------------------------------------- generation
View == <<cfg, eh, okh, ex, reg, ix, nreq, nset, bad, last, fin>>
PrintHist == (Emit /\ fin) => PrintT("TRACE " \o ToJson([cfg |-> cfg, ops |-> hist]))
=============================================================================
