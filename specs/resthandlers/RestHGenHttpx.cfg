\* generation: httpx cases (one registration, one request)
SPECIFICATION ISpec
CONSTANTS
  CfgSet <- CfgHttpx
  ReqSet <- ReqHttpx
  ErrSet <- ErrAll
  OkSet <- OkAll
  MaxReqs = 1
  MaxInflight = 1
  MaxSets = 1
  Variant = "asis"
  Emit = TRUE
INVARIANTS Refines PrintHist
VIEW View
CHECK_DEADLOCK FALSE
