SPECIFICATION TSpec
CONSTRAINT HW
INVARIANTS Explained EnteredAdmitted RegistryOK
POSTCONDITION Accepted
CHECK_DEADLOCK FALSE
