\* wrong variant (expect a violation): ContentLength >= n rejected
SPECIFICATION ISpec
CONSTANTS
  CfgSet <- CfgBugBody
  ReqSet <- ReqBugBody
  ErrSet <- ErrRace
  OkSet <- OkRace
  MaxReqs = 1
  MaxInflight = 1
  MaxSets = 0
  Variant = "mbge"
  Emit = FALSE
INVARIANTS Refines
VIEW View
CHECK_DEADLOCK FALSE
