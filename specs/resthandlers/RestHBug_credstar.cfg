\* wrong variant (expect a violation): Allow-Credentials sent together with Allow-Origin: *
SPECIFICATION ISpec
CONSTANTS
  CfgSet <- CfgBugCors
  ReqSet <- ReqBugCors
  ErrSet <- ErrRace
  OkSet <- OkRace
  MaxReqs = 1
  MaxInflight = 1
  MaxSets = 0
  Variant = "credstar"
  Emit = FALSE
INVARIANTS NoCredentialsWithStar Refines
VIEW View
CHECK_DEADLOCK FALSE
