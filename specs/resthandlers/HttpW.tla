------------------------------- MODULE HttpW -------------------------------
(* Extension "resthandlers" (host C04), environment part: the response side of net/http as
   a handler sees it, and the pieces of net/http the REST helpers are built from.

   A response writer is  [code, live, sent, body]:
     code  0 while nothing is committed, else the status the client gets
     live  the header map handlers read and write  (header name |-> sequence of values)
     sent  the snapshot of live taken when the status was committed
     body  what was written
   The first WriteHeader (or the first Write, as 200) commits; every later WriteHeader is
   ignored ("superfluous WriteHeader"), header changes after the commit are not sent.
   Only the headers the specification talks about are kept; values are strings, except
   acao (Access-Control-Allow-Origin), whose values are sequences of characters so that
   they can be compared with the request's Origin, and acah / vary / allow, which are kept
   as sequences of comma-separated tokens.                                            *)
EXTENDS Integers, Sequences, FiniteSets

HdrNames == {"ct", "acao", "acam", "acah", "acac", "aceh", "acma", "vary", "allow", "xh", "xm", "xn"}
NoHdr == [h \in HdrNames |-> <<>>]
W0 == [code |-> 0, live |-> NoHdr, sent |-> NoHdr, body |-> ""]

Committed(w) == w.code # 0
HSet(w, h, v)     == [w EXCEPT !.live[h] = <<v>>]          \* Header().Set
HSetSeq(w, h, vs) == [w EXCEPT !.live[h] = vs]             \* Set of a comma-joined token list
HAdd(w, h, v)     == [w EXCEPT !.live[h] = Append(@, v)]   \* Header().Add
HAddSeq(w, h, vs) == [w EXCEPT !.live[h] = @ \o vs]
WHeader(w, c) == IF Committed(w) THEN w ELSE [w EXCEPT !.code = c, !.sent = w.live]
WWrite(w, s)  == LET x == WHeader(w, 200) IN [x EXCEPT !.body = @ \o s]
\* what the server does when the outermost handler has returned
WClose(w) == WHeader(w, 200)
\* statuses whose responses carry no body
BodyAllowed(c) == c >= 200 /\ c # 204 /\ c # 304

JsonCT == "application/json; charset=utf-8"
TextCT == "text/plain; charset=utf-8"
\* net/http.Error
HttpError(w, c, msg) == WWrite(WHeader(HSet(w, "ct", TextCT), c), msg \o "\n")

SeqToSetW(s) == {s[i] : i \in DOMAIN s}
=============================================================================
