------------------------------- MODULE RestHMC -------------------------------
(* Constant values for the RestHImpl configurations (sets of records and sequences cannot be
   written in a .cfg file): server configurations, abstract requests, handler scripts.     *)
EXTENDS RestHImpl

\* ---- script steps
St(op) == [op |-> op, c |-> 0, s |-> "", v |-> "", ctx |-> FALSE, err |-> "", fns |-> 0, w |-> ""]
Rd == St("read")
Hd == St("hdr")
Okk == St("ok")
Cd(c) == [St("code") EXCEPT !.c = c]
Wr(s) == [St("write") EXCEPT !.s = s]
WJ(c, v, ctx) == [St("wjson") EXCEPT !.c = c, !.v = v, !.ctx = ctx]
OJ(v, ctx) == [St("okjson") EXCEPT !.v = v, !.ctx = ctx]
Er(e, ctx, fns) == [St("error") EXCEPT !.err = e, !.ctx = ctx, !.fns = fns]
Pn(w) == [St("panic") EXCEPT !.w = w]

R(m, p, o, ch, psz, bk, enc, sub, script) ==
  [m |-> m, p |-> p, o |-> o, ch |-> ch, psz |-> psz, bk |-> bk, enc |-> enc, sub |-> sub, script |-> script]

\* ---- origins (sequences of characters)
Oab  == <<"a", ".", "b">>
OAb  == <<"A", ".", "b">>
Oxab == <<"x", ".", "a", ".", "b">>
Oxa  == <<"x", "a", ".", "b">>          \* "xa.b": not a sub-domain of a.b
Ob   == <<"b">>
Ocd  == <<"c", ".", "D">>
Ocdl == <<"c", ".", "d">>
Oq   == <<"q">>
ReqOrigins  == {<<>>, Oab, OAb, Oxab, Oxa, Ob, Ocdl, Oq}
OriginLists == {<<>>, <<Oab>>, <<Oab, Ocd>>, <<Ocd, Star>>, <<Star>>, <<Ob>>}

\* ---- bodies: maxbytes / gunzip / recover
Bodies == {<<"plain", 3>>, <<"plain", 4>>, <<"plain", 5>>, <<"gz", 4>>, <<"gz", 5>>, <<"gztrunc", 4>>,
           <<"gzcrc", 4>>, <<"empty", 0>>}
Encs == {<<"none", FALSE>>, <<"gzip", FALSE>>, <<"other", FALSE>>, <<"fuzzy", TRUE>>, <<"fuzzy", FALSE>>}
ScriptsBody == {<<>>, <<Rd>>, <<Rd, Rd>>, <<Rd, Pn("str")>>, <<Pn("abort")>>, <<Cd(201), Wr("x"), Pn("err")>>,
                <<Wr("hi")>>}
ScriptsBodyCore == {<<Rd, Rd>>, <<Rd, Pn("str")>>, <<Pn("abort")>>}
CfgBody == {[Cfg0 EXCEPT !.rec = r, !.mb = lim[1], !.n = lim[2], !.rmb = lim[3], !.gz = gz, !.cors = cors] :
              r \in BOOLEAN, gz \in BOOLEAN, cors \in {"off", "plain"},
              lim \in {<<FALSE, 4, 2>>, <<TRUE, 0, 0>>, <<TRUE, 4, 0>>, <<TRUE, 24, 2>>, <<TRUE, 0, 24>>}}
ReqBody == {R("POST", p, <<>>, ch, b[2], b[1], e[1], e[2], s) :
              p \in {"a", "b"}, ch \in BOOLEAN, b \in Bodies, e \in Encs, s \in ScriptsBodyCore}
           \cup {R("POST", "b", <<>>, FALSE, b[2], b[1], e[1], e[2], s) :
                   b \in {<<"plain", 4>>, <<"plain", 5>>, <<"gz", 4>>}, e \in {<<"none", FALSE>>, <<"gzip", FALSE>>}, s \in ScriptsBody}
           \cup {R("OPTIONS", "a", <<>>, FALSE, 5, "plain", "gzip", FALSE, <<Rd>>),
                 R("GET", "a", <<>>, FALSE, 0, "empty", "none", FALSE, <<Rd>>),
                 R("GET", "a", <<>>, FALSE, 0, "empty", "gzip", FALSE, <<Rd>>)}

\* ---- CORS
CfgCors == {[Cfg0 EXCEPT !.rec = TRUE, !.mb = TRUE, !.n = 4, !.cors = "plain", !.origins = l] : l \in OriginLists}
           \cup {[Cfg0 EXCEPT !.rec = TRUE, !.mb = TRUE, !.n = 4, !.cors = "custom", !.origins = l, !.mfn = m, !.nfn = nf] :
                   l \in OriginLists, m \in BOOLEAN, nf \in {"none", "hdr", "code", "write"}}
           \cup {[Cfg0 EXCEPT !.rec = TRUE, !.mb = TRUE, !.n = 4, !.cors = "hdrs", !.xh = x] :
                   x \in {<<>>, <<"X-A">>, <<"X-A", "X-B">>}}
           \cup {[Cfg0 EXCEPT !.rec = TRUE, !.mb = TRUE, !.n = 4]}
ScriptsCors == {<<Hd, Wr("hi")>>, <<Pn("str")>>}
ReqCors == {R(m, p, o, FALSE, 3, "plain", "none", FALSE, s) :
              m \in {"GET", "POST", "OPTIONS", "PUT"}, p \in {"a", "b", "zz"}, o \in ReqOrigins, s \in ScriptsCors}
           \cup {R(m, "a", o, FALSE, 5, "plain", "none", FALSE, <<>>) : m \in {"POST", "OPTIONS"}, o \in {<<>>, Oab}}

\* ---- httpx
ErrAll == ErrIds
OkAll == OkIds
Vals == {"obj", "str", "arr", "bad"}
ScriptsHttpx ==
  {<<Er(e, c, f)>> : e \in {"plain", "g5", "g14", "g77"}, c \in BOOLEAN, f \in 0..2}
  \cup {<<OJ(v, c)>> : v \in Vals, c \in BOOLEAN}
  \cup {<<WJ(201, v, FALSE)>> : v \in Vals}
  \cup {<<Okk, Er("plain", FALSE, 0)>>, <<Cd(202), OJ("obj", TRUE)>>, <<Hd, Er("g3", TRUE, 1), OJ("str", FALSE)>>,
        <<WJ(203, "arr", TRUE), Er("plain", TRUE, 0)>>, <<Er("plain", FALSE, 2), Pn("str")>>,
        <<OJ("bad", FALSE), Wr("z")>>, <<Wr("a"), WJ(500, "obj", FALSE)>>, <<Okk>>}
ScriptsGrpc == {<<Er(e, FALSE, 0)>> : e \in ErrKinds}
CfgHttpx == {[Cfg0 EXCEPT !.rec = TRUE]}
ReqHttpx == {R("POST", "b", <<>>, FALSE, 3, "plain", "none", FALSE, s) : s \in ScriptsHttpx \cup ScriptsGrpc}

\* ---- registrations racing with helper calls
ErrRace == {"none", "p1", "c1"}
OkRace == {"none", "o1"}
ReqRace == {R("POST", "b", <<>>, FALSE, 3, "plain", "none", FALSE, s) :
              s \in {<<Er("plain", TRUE, 0)>>, <<OJ("str", FALSE)>>, <<Er("g5", FALSE, 1), OJ("obj", TRUE)>>}}

\* ---- small products for the documented wrong variants
CfgBugCors == {c \in CfgCors : c.cors = "plain"}
ReqBugCors == {R(m, p, o, FALSE, 3, "plain", "none", FALSE, <<>>) : m \in {"POST", "OPTIONS"}, p \in {"a", "zz"}, o \in {<<>>, Oab, Oxa}}
CfgBugBody == {c \in CfgBody : c.cors = "off" /\ c.rec /\ c.gz}
ReqBugBody == {R("POST", "b", <<>>, FALSE, b[2], b[1], e, FALSE, s) :
                 b \in {<<"plain", 4>>, <<"plain", 5>>, <<"gz", 4>>}, e \in {"none", "gzip"}, s \in {<<Rd>>, <<Pn("str")>>}}
ReqBugHttpx == {R("POST", "b", <<>>, FALSE, 3, "plain", "none", FALSE, s) :
                  s \in {<<Er("plain", FALSE, 1)>>, <<Er("g5", TRUE, 0)>>, <<OJ("obj", FALSE)>>}}

\* ---- generation: smaller products (every case becomes a real request)
CfgGenBody == {[Cfg0 EXCEPT !.rec = r, !.mb = lim[1], !.n = lim[2], !.rmb = lim[3], !.gz = gz] :
                 r \in BOOLEAN, gz \in BOOLEAN, lim \in {<<TRUE, 0, 0>>, <<TRUE, 4, 0>>, <<TRUE, 24, 2>>}}
ReqGenBody == {R("POST", p, <<>>, ch, b[2], b[1], e[1], e[2], s) :
                 p \in {"a", "b"}, ch \in BOOLEAN, b \in Bodies, e \in Encs, s \in {<<Rd>>, <<Rd, Rd, Pn("str")>>}}
              \cup {R("POST", "b", <<>>, FALSE, 3, "plain", "none", FALSE, s) : s \in ScriptsBody}
              \cup {R("GET", "a", <<>>, FALSE, 0, "empty", e, FALSE, <<Rd>>) : e \in {"none", "gzip"}}
CfgGenCors == {c \in CfgCors : c.cors # "custom" \/ (c.mfn = (c.nfn \in {"hdr", "write"}))}
ReqGenCors == {R(m, p, o, FALSE, 5, "plain", "none", FALSE, s) :
                 m \in {"POST", "OPTIONS", "PUT"}, p \in {"a", "zz"}, o \in ReqOrigins, s \in {<<Hd, Wr("hi")>>}}
              \cup {R("GET", "b", o, FALSE, 0, "empty", "none", FALSE, <<>>) : o \in {<<>>, Oab}}
              \cup {R("POST", "b", Oxab, FALSE, 3, "plain", "none", FALSE, <<Pn("str")>>)}
=============================================================================
