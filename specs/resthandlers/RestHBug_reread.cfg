\* wrong variant (expect a violation): Error reads the registered handler again when calling it
SPECIFICATION ISpec
CONSTANTS
  CfgSet <- CfgHttpx
  ReqSet <- ReqBugHttpx
  ErrSet <- ErrRace
  OkSet <- OkRace
  MaxReqs = 1
  MaxInflight = 1
  MaxSets = 2
  Variant = "reread"
  Emit = FALSE
INVARIANTS Refines
VIEW View
CHECK_DEADLOCK FALSE
