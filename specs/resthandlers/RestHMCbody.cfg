\* exhaustive: Recover -> MaxBytes -> Gunzip -> handler against the law; bodies at and around the limit, chunked, gzip kinds
SPECIFICATION ISpec
CONSTANTS
  CfgSet <- CfgBody
  ReqSet <- ReqBody
  ErrSet <- ErrRace
  OkSet <- OkRace
  MaxReqs = 1
  MaxInflight = 1
  MaxSets = 0
  Variant = "asis"
  Emit = FALSE
INVARIANTS Refines TypeOK RegRefines Explained EnteredAdmitted RegistryOK NoCredentialsWithStar GrantOnlyAllowed PreflightNotRouted OverLimitNotEntered WithinLimitEntered BadGzipRefused PanicContained PanicIs500 CorsOnEveryAnswer
VIEW View
CHECK_DEADLOCK FALSE
