\* generation: CORS cases
SPECIFICATION ISpec
CONSTANTS
  CfgSet <- CfgGenCors
  ReqSet <- ReqGenCors
  ErrSet <- ErrRace
  OkSet <- OkRace
  MaxReqs = 1
  MaxInflight = 1
  MaxSets = 0
  Variant = "asis"
  Emit = TRUE
INVARIANTS Refines PrintHist
VIEW View
CHECK_DEADLOCK FALSE
