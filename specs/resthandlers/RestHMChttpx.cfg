\* exhaustive: httpx helpers under every registered error / ok handler (up to 2 registrations)
SPECIFICATION ISpec
CONSTANTS
  CfgSet <- CfgHttpx
  ReqSet <- ReqHttpx
  ErrSet <- ErrAll
  OkSet <- OkAll
  MaxReqs = 1
  MaxInflight = 1
  MaxSets = 2
  Variant = "asis"
  Emit = FALSE
INVARIANTS Refines TypeOK RegRefines Explained EnteredAdmitted RegistryOK NoCredentialsWithStar GrantOnlyAllowed PreflightNotRouted OverLimitNotEntered WithinLimitEntered BadGzipRefused PanicContained PanicIs500 CorsOnEveryAnswer
VIEW View
CHECK_DEADLOCK FALSE
