----------------------------- MODULE RestHTrace -----------------------------
(* Extension "resthandlers" (host C04): trace validation.  Events recorded from a real rest.Server
   (NewServer + WithCors / WithCorsHeaders / WithCustomCors, AddRoutes + WithMaxBytes, StartWithOpts on
   a loopback port), from the harness handler of its routes and from a real net/http client must be
   a behaviour of RestH.tla.

     reset    cors origins xh mfn nfn rec mb n rmb gz     a server with this configuration is up, no httpx handler
     seteh.s / seteh.e   h        httpx.SetErrorHandler[Ctx] is called / has returned
     setok.s / setok.e   h        httpx.SetOkHandler
     req      id m p o cl sz psz bk enc script            the client is about to send request id
     h        id op=enter | read n eqp eqw err | hs k | he used n ctxok      the harness handler
     resp     id st body ct acao acam acah acac aceh acma vary allow xh xm xn what the client got (st 0: nothing)
                                                                                           *)
EXTENDS RestH, TraceKit

VARIABLE l
tvars == <<cfg, eh, okh, ex, l>>

E == Trace[l]
IsEvent(e) == l <= Len(Trace) /\ E.e = e /\ l' = l + 1
IsH(op) == IsEvent("h") /\ E.op = op

TReset == /\ IsEvent("reset")
          /\ PReset([cors |-> E.cors, origins |-> E.origins, xh |-> E.xh, mfn |-> E.mfn, nfn |-> E.nfn,
                     rec |-> E.rec, mb |-> E.mb, n |-> E.n, rmb |-> E.rmb, gz |-> E.gz])
TSetErrS == IsEvent("seteh.s") /\ PSetErrS(E.h)
TSetErrE == IsEvent("seteh.e") /\ PSetErrE(E.h)
TSetOkS  == IsEvent("setok.s") /\ PSetOkS(E.h)
TSetOkE  == IsEvent("setok.e") /\ PSetOkE(E.h)
TReq == /\ IsEvent("req")
        /\ PReq(E.id, [id |-> E.id, m |-> E.m, p |-> E.p, o |-> E.o, cl |-> E.cl, sz |-> E.sz, psz |-> E.psz,
                       bk |-> E.bk, enc |-> E.enc, script |-> E.script])
TEnter == IsH("enter") /\ PEnter(E.id)
TRead  == IsH("read")  /\ PRead(E.id, [n |-> E.n, eqp |-> E.eqp, eqw |-> E.eqw, err |-> E.err])
THelpS == IsH("hs")    /\ PHelpS(E.id, E.k)
THelpE == IsH("he")    /\ PHelpE(E.id, [used |-> E.used, n |-> E.n, ctxok |-> E.ctxok])
TResp  == /\ IsEvent("resp")
          /\ PResp(E.id, [st |-> E.st, body |-> E.body, ct |-> E.ct, acao |-> E.acao, acam |-> E.acam,
                          acah |-> E.acah, acac |-> E.acac, aceh |-> E.aceh, acma |-> E.acma, vary |-> E.vary,
                          allow |-> E.allow, xh |-> E.xh, xm |-> E.xm, xn |-> E.xn])

TInit == PInit /\ l = 1
TNext == TReset \/ TSetErrS \/ TSetErrE \/ TSetOkS \/ TSetOkE \/ TReq \/ TEnter \/ TRead \/ THelpS \/ THelpE \/ TResp
TSpec == TInit /\ [][TNext]_tvars

HW == HighWater(l)
=============================================================================
