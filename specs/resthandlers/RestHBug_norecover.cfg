\* wrong variant (expect a violation): recover without writing 500
SPECIFICATION ISpec
CONSTANTS
  CfgSet <- CfgBugBody
  ReqSet <- ReqBugBody
  ErrSet <- ErrRace
  OkSet <- OkRace
  MaxReqs = 1
  MaxInflight = 1
  MaxSets = 0
  Variant = "norecover"
  Emit = FALSE
INVARIANTS PanicIs500 Refines
VIEW View
CHECK_DEADLOCK FALSE
