\* wrong variant (expect a violation): CORS per route instead of around the router
SPECIFICATION ISpec
CONSTANTS
  CfgSet <- CfgBugCors
  ReqSet <- ReqBugCors
  ErrSet <- ErrRace
  OkSet <- OkRace
  MaxReqs = 1
  MaxInflight = 1
  MaxSets = 0
  Variant = "corsinside"
  Emit = FALSE
INVARIANTS PreflightNotRouted Refines
VIEW View
CHECK_DEADLOCK FALSE
