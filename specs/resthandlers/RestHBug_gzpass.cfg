\* wrong variant (expect a violation): a body that is no gzip stream is passed on to the handler
SPECIFICATION ISpec
CONSTANTS
  CfgSet <- CfgBugBody
  ReqSet <- ReqBugBody
  ErrSet <- ErrRace
  OkSet <- OkRace
  MaxReqs = 1
  MaxInflight = 1
  MaxSets = 0
  Variant = "gzpass"
  Emit = FALSE
INVARIANTS Refines BadGzipRefused
VIEW View
CHECK_DEADLOCK FALSE
