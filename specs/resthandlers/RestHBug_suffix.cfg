\* wrong variant (expect a violation): sub-domain test without the dot (xa.b passes for a.b)
SPECIFICATION ISpec
CONSTANTS
  CfgSet <- CfgBugCors
  ReqSet <- ReqBugCors
  ErrSet <- ErrRace
  OkSet <- OkRace
  MaxReqs = 1
  MaxInflight = 1
  MaxSets = 0
  Variant = "suffix"
  Emit = FALSE
INVARIANTS GrantOnlyAllowed Refines
VIEW View
CHECK_DEADLOCK FALSE
