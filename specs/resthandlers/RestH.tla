------------------------------- MODULE RestH -------------------------------
(* Extension "resthandlers" (host C04; advisory).  Layer P: what a client of a go-zero REST
   server may observe of the middlewares the listed properties do not name --

     rest/internal/cors   (WithCors / WithCorsHeaders / WithCustomCors): which origins are
                          granted (exact, case-insensitive, sub-domain, "*"), the Allow-*/Expose/
                          Max-Age/Vary headers, credentials never together with "*", every
                          OPTIONS request answered 204 before routing, the not-allowed handler;
     rest/handler         MaxBytesHandler (declared length > limit: 413, handler not run; limit
                          <= 0: disabled; the route's WithMaxBytes overrides the server's),
                          GunzipHandler (Content-Encoding: gzip: the handler reads the plaintext;
                          not a gzip stream: 400, handler not run; a stream that breaks later:
                          the handler gets a prefix and an error),
                          RecoverHandler (a panic of the handler becomes 500 -- or leaves what
                          was already committed --, without it the exchange is aborted; the
                          server keeps serving);
     rest/httpx           Ok, WriteJson[Ctx], OkJson[Ctx] + SetOkHandler, Error[Ctx] +
                          SetErrorHandler[Ctx] + per-call error functions: status, content type
                          and body of what they write, "first commit wins" when a handler
                          combines them, which registered handler a call uses when registrations
                          race with calls (one that was current during the call), called once,
                          with the caller's context for the Ctx variants.

   The law is a function of (configuration, request, the script the harness handler executes,
   the registered handlers used) up to a few documented FREEDOMS, resolved by a record fr:
     chunk     a body without declared length that is larger than the limit is passed through
               ("pass", the code today: only Content-Length is looked at) or cut off while read
               ("limit"; "limit400": so early that the gunzip middleware cannot read the gzip header)
     fuzzy     Content-Encoding values other than exactly "gzip" that mention gzip ("x-gzip",
               "GZIP", "deflate, gzip") are decoded or not
     empty     Content-Encoding: gzip with an empty body is a bad request or an empty body
     abort     panic(http.ErrAbortHandler) is answered 500 like any panic, or re-raised
     noorigin  no Origin header while the allowed list contains "*": the grant echoes the
               (empty) origin, says "*", or is omitted

   State machine: the server configuration, the registered httpx handlers (as the SET of
   handlers that may be current, because a Set call is observed as an interval), and the
   exchanges in flight; one action per observable event.                                *)
EXTENDS HttpW, TLC

VARIABLES
  cfg,   \* [cors, origins, xh, mfn, nfn, rec, mb, n, rmb, gz]
  eh,    \* set of error-handler ids that may be the registered one right now ("none": no handler)
  okh,   \* same for the ok handler
  ex     \* exchange id |-> [q, cands, ent, nread, rerr, used, hc, hcand]

pvars == <<cfg, eh, okh, ex>>

\* ---------------------------------------------------------------- configuration and requests
Cfg0 == [cors |-> "off", origins |-> <<>>, xh |-> <<>>, mfn |-> FALSE, nfn |-> "none",
         rec |-> FALSE, mb |-> FALSE, n |-> 0, rmb |-> 0, gz |-> FALSE]

Routes == {<<"GET", "a">>, <<"POST", "a">>, <<"POST", "b">>}
AllowOf(p) == {r[1] : r \in {x \in Routes : x[2] = p}}
Class(q) == IF <<q.m, q.p>> \in Routes THEN "ok" ELSE IF AllowOf(q.p) # {} THEN "na" ELSE "nf"

CorsOn(c) == c.cors # "off"
Preflight(c, q) == CorsOn(c) /\ q.m = "OPTIONS"

Free == [chunk : {"pass", "limit", "limit400"}, fuzzy : BOOLEAN, empty : BOOLEAN, abort : BOOLEAN,
         noorigin : {"echo", "star", "none"}]
Free0 == [chunk |-> "pass", fuzzy |-> FALSE, empty |-> FALSE, abort |-> FALSE, noorigin |-> "echo"]

\* ---------------------------------------------------------------- origins
UC == <<"A","B","C","D","E","F","G","H","I","J","K","L","M","N","O","P","Q","R","S","T","U","V","W","X","Y","Z">>
LC == <<"a","b","c","d","e","f","g","h","i","j","k","l","m","n","o","p","q","r","s","t","u","v","w","x","y","z">>
LowerC(ch) == IF \E i \in 1..26 : UC[i] = ch THEN LC[CHOOSE i \in 1..26 : UC[i] = ch] ELSE ch
Lower(s) == [i \in 1..Len(s) |-> LowerC(s[i])]
EndsWith(s, t) == Len(s) >= Len(t) /\ SubSeq(s, Len(s) - Len(t) + 1, Len(s)) = t
Star == <<"*">>
\* an allowed entry matches: the wildcard; the same origin up to case; any sub-domain of it
Match(allow, o) == \/ allow = Star
                   \/ Lower(o) = Lower(allow)
                   \/ EndsWith(Lower(o), <<".">> \o Lower(allow))
Allowed(list, o) == \E i \in 1..Len(list) : Match(list[i], o)

\* WithCorsHeaders grants every origin: its list is the single entry "*"
OriginList(c) == IF c.cors = "hdrs" THEN <<Star>> ELSE c.origins
\* the values of Access-Control-Allow-Origin (no value: not granted)
Grant(c, o, fr) ==
  LET L == OriginList(c) IN
  IF L = <<>> THEN <<Star>>                       \* no list: everybody, as "*"
  ELSE IF ~Allowed(L, o) THEN <<>>
  ELSE IF o = <<>> THEN (CASE fr.noorigin = "echo" -> << <<>> >>
                           [] fr.noorigin = "star" -> <<Star>>
                           [] OTHER -> <<>>)
  ELSE <<o>>                                      \* the request's origin, verbatim

MethodsVal == "GET, HEAD, POST, PATCH, PUT, DELETE"
ExposeVal  == "Content-Length, Access-Control-Allow-Origin, Access-Control-Allow-Headers"
MaxAgeVal  == "86400"
BaseAllowHeaders == <<"Content-Type", "Origin", "X-CSRF-Token", "Authorization", "AccessToken", "Token", "Range">>
ExtraAllowHeaders(c) == IF c.cors = "hdrs" THEN c.xh ELSE <<>>
VaryOf(q) == {"Origin"} \cup (IF q.m = "OPTIONS" THEN {"Access-Control-Request-Method", "Access-Control-Request-Headers"} ELSE {})

\* the CORS part of a response: independent of what the route did
CorsLaw(c, q, fr, obs) ==
  IF ~CorsOn(c)
    THEN /\ obs.acao = <<>> /\ obs.acam = <<>> /\ obs.acah = <<>> /\ obs.acac = <<>>
         /\ obs.aceh = <<>> /\ obs.acma = <<>> /\ obs.vary = <<>> /\ obs.xm = <<>> /\ obs.xn = <<>>
    ELSE LET g     == Grant(c, q.o, fr)
             base  == IF g = <<>> THEN {} ELSE SeqToSetW(BaseAllowHeaders)
             extra == SeqToSetW(ExtraAllowHeaders(c))
             na    == Class(q) = "na" /\ ~Preflight(c, q)
         IN /\ obs.acao = g
            \* credentials exactly when one particular origin is named -- never with "*"
            /\ obs.acac = (IF g # <<>> /\ g[1] # Star THEN <<"true">> ELSE <<>>)
            /\ obs.acam = (IF g = <<>> THEN <<>> ELSE <<MethodsVal>>)
            /\ obs.aceh = (IF g = <<>> THEN <<>> ELSE <<ExposeVal>>)
            /\ obs.acma = (IF g = <<>> THEN <<>> ELSE <<MaxAgeVal>>)
            \* the not-allowed answer may or may not repeat the extra headers of WithCorsHeaders
            /\ IF na THEN base \subseteq SeqToSetW(obs.acah) /\ SeqToSetW(obs.acah) \subseteq base \cup extra
                     ELSE SeqToSetW(obs.acah) = base \cup extra
            /\ SeqToSetW(obs.vary) = VaryOf(q)
            /\ obs.xm = (IF c.cors = "custom" /\ c.mfn THEN <<"m">> ELSE <<>>)
            /\ obs.xn = (IF na /\ c.cors = "custom" /\ c.nfn = "hdr" THEN <<"n">> ELSE <<>>)

\* ---------------------------------------------------------------- body limits and gunzip
NEff(c, q) == IF ~c.mb THEN 0 ELSE IF q.p = "a" /\ c.rmb > 0 THEN c.rmb ELSE c.n
TooLarge(c, q) == NEff(c, q) > 0 /\ q.cl > NEff(c, q)
OverChunked(c, q) == NEff(c, q) > 0 /\ q.cl < 0 /\ q.sz > NEff(c, q)
GzOn(c, q, fr) == c.gz /\ (q.enc = "gzip" \/ (q.enc = "fuzzy" /\ fr.fuzzy))
BadGz(c, q, fr) == GzOn(c, q, fr) /\ (\/ q.bk = "plain"
                                      \/ q.bk = "empty" /\ fr.empty
                                      \/ OverChunked(c, q) /\ fr.chunk = "limit400")

\* the harness handler runs exactly in this case
EnterOK(c, q, fr) == ~Preflight(c, q) /\ Class(q) = "ok" /\ ~TooLarge(c, q) /\ ~BadGz(c, q, fr)

\* the nth io.ReadAll(r.Body) of the handler: o = [n, eqp, eqw, err]
ReadOK(c, q, fr, nth, first, o) ==
  LET limited == OverChunked(c, q) /\ fr.chunk \in {"limit", "limit400"} IN
  IF nth > 1 THEN o.n = 0 /\ o.err = first                     \* drained; a broken stream stays broken
  ELSE IF GzOn(c, q, fr) THEN
         \/ q.bk = "gz" /\ o.n = q.psz /\ o.eqp /\ ~o.err        \* the plaintext, all of it
         \/ q.bk \in {"gztrunc", "gzcrc"} /\ o.n <= q.psz /\ o.eqp /\ o.err
         \/ q.bk = "empty" /\ o.n = 0 /\ ~o.err
         \/ limited /\ o.n <= q.psz /\ o.eqp /\ o.err
  ELSE IF limited THEN o.n <= NEff(c, q) /\ o.eqw /\ o.err
  ELSE o.n = q.sz /\ o.eqw /\ ~o.err                            \* the bytes as sent

\* the resolutions of the freedoms that can make a difference for request q (the others are fixed)
FreeFor(c, q) ==
  {fr \in Free :
     /\ (fr.chunk # Free0.chunk => OverChunked(c, q))
     /\ (fr.fuzzy # Free0.fuzzy => c.gz /\ q.enc = "fuzzy")
     /\ (fr.empty # Free0.empty => c.gz /\ q.bk = "empty" /\ q.enc \in {"gzip", "fuzzy"})
     /\ (fr.abort # Free0.abort => \E i \in 1..Len(q.script) : q.script[i].op = "panic" /\ q.script[i].w = "abort")
     /\ (fr.noorigin # Free0.noorigin => q.o = <<>> /\ CorsOn(c))}

\* ---------------------------------------------------------------- httpx
J(s) == [ok |-> TRUE, s |-> s]
JBad == [ok |-> FALSE, s |-> ""]
Quote(s) == "\"" \o s \o "\""
ValJson(v, id) == CASE v = "obj" -> J("{\"name\":" \o Quote(id) \o "}")
                    [] v = "str" -> J(Quote(id))
                    [] v = "arr" -> J("[" \o Quote(id) \o "]")
                    [] OTHER     -> JBad
OkIds  == {"none", "o1", "o2", "o3"}
OkApply(h, v, id) == CASE h = "o1" -> (IF ValJson(v, id).ok THEN J("{\"data\":" \o ValJson(v, id).s \o "}") ELSE JBad)
                       [] h = "o2" -> J(Quote("ok2"))
                       [] h = "o3" -> J("null")
                       [] OTHER    -> ValJson(v, id)
MarshalMsg == "json: unsupported type: chan int"
\* WriteJson: content type, status, body -- or 500 + the marshal error as text
JsonWrite(w, c, j) == IF j.ok THEN WWrite(WHeader(HSet(w, "ct", JsonCT), c), j.s)
                              ELSE HttpError(w, 500, MarshalMsg)

\* gRPC status code -> HTTP status (rest/internal/errcode)
Grpc == [g1  |-> [name |-> "Canceled", http |-> 408],          g2  |-> [name |-> "Unknown", http |-> 500],
         g3  |-> [name |-> "InvalidArgument", http |-> 400],   g4  |-> [name |-> "DeadlineExceeded", http |-> 504],
         g5  |-> [name |-> "NotFound", http |-> 404],          g6  |-> [name |-> "AlreadyExists", http |-> 409],
         g7  |-> [name |-> "PermissionDenied", http |-> 403],  g8  |-> [name |-> "ResourceExhausted", http |-> 429],
         g9  |-> [name |-> "FailedPrecondition", http |-> 400], g10 |-> [name |-> "Aborted", http |-> 409],
         g11 |-> [name |-> "OutOfRange", http |-> 400],        g12 |-> [name |-> "Unimplemented", http |-> 501],
         g13 |-> [name |-> "Internal", http |-> 500],          g14 |-> [name |-> "Unavailable", http |-> 503],
         g15 |-> [name |-> "DataLoss", http |-> 500],          g16 |-> [name |-> "Unauthenticated", http |-> 401],
         g77 |-> [name |-> "Code(77)", http |-> 500]]
ErrKinds == {"plain"} \cup DOMAIN Grpc
ErrMsg(e, id) == IF e = "plain" THEN "e-" \o id
                 ELSE "rpc error: code = " \o Grpc[e].name \o " desc = g-" \o id

\* the registered error handlers of the harness: what they return
EH == [p1 |-> [c |-> 403, b |-> "str"], p2 |-> [c |-> 409, b |-> "err"], p3 |-> [c |-> 502, b |-> "nil"],
       c1 |-> [c |-> 422, b |-> "map"], c2 |-> [c |-> 500, b |-> "bad"], c3 |-> [c |-> 200, b |-> "arr"]]
ErrIds == {"none"} \cup DOMAIN EH
IsCtxId(h) == h \in {"c1", "c2", "c3"}

\* httpx.Error / ErrorCtx with handler h in force (s: the script step)
ErrorWrite(w, h, s, id) ==
  LET msg == ErrMsg(s.err, id) IN
  IF h = "none" THEN
       IF s.fns > 0 THEN      \* the per-call functions, in order, and nothing else
            LET w1 == HttpError(HSet(w, "xh", "f"), 499, msg) IN
            IF s.fns > 1 THEN WWrite(w1, "f2") ELSE w1
       ELSE IF s.err # "plain" THEN HttpError(w, Grpc[s.err].http, msg)
       ELSE HttpError(w, 400, msg)
  ELSE LET r == EH[h] IN      \* a registered handler decides; per-call functions are not consulted
       CASE r.b = "nil" -> WHeader(w, r.c)
         [] r.b = "err" -> HttpError(w, r.c, msg)
         [] r.b = "str" -> JsonWrite(w, r.c, J(Quote(msg)))
         [] r.b = "map" -> JsonWrite(w, r.c, J("{\"msg\":" \o Quote(msg) \o "}"))
         [] r.b = "arr" -> JsonWrite(w, r.c, J("[" \o Quote(msg) \o "]"))
         [] OTHER       -> JsonWrite(w, r.c, JBad)

IsHelper(s) == s.op \in {"okjson", "error"}
\* one step of the harness handler on the writer; used = the handlers the helper calls so far used
StepW(s, st, id, used) ==
  CASE s.op = "hdr"    -> [st EXCEPT !.w = HSet(@, "xh", "1")]
    [] s.op = "code"   -> [st EXCEPT !.w = WHeader(@, s.c)]
    [] s.op = "write"  -> [st EXCEPT !.w = WWrite(@, s.s)]
    [] s.op = "ok"     -> [st EXCEPT !.w = WHeader(@, 200)]
    [] s.op = "wjson"  -> [st EXCEPT !.w = JsonWrite(@, s.c, ValJson(s.v, id))]
    [] s.op = "okjson" -> [st EXCEPT !.w = JsonWrite(@, 200, OkApply(used[st.k + 1].h, s.v, id)), !.k = @ + 1]
    [] s.op = "error"  -> [st EXCEPT !.w = ErrorWrite(@, used[st.k + 1].h, s, id), !.k = @ + 1]
    [] s.op = "panic"  -> [st EXCEPT !.pan = s.w]
    [] OTHER           -> st                        \* read: nothing written
RECURSIVE RunW(_, _, _, _, _)
RunW(script, i, st, id, used) ==
  IF i > Len(script) \/ st.pan # "none" THEN st
  ELSE RunW(script, i + 1, StepW(script[i], st, id, used), id, used)

\* the part of the script that is executed: up to and including the first panic
RECURSIVE CutAt(_, _)
CutAt(script, i) == IF i > Len(script) THEN Len(script) ELSE IF script[i].op = "panic" THEN i ELSE CutAt(script, i + 1)
Executed(script) == SubSeq(script, 1, CutAt(script, 1))
CountOps(script, P(_)) == Cardinality({i \in 1..Len(script) : P(script[i])})
IsRead(s) == s.op = "read"
Helpers(script) == LET e == Executed(script) IN
                   [j \in 1..CountOps(e, IsHelper) |->
                      e[CHOOSE i \in 1..Len(e) : IsHelper(e[i]) /\ Cardinality({x \in 1..i : IsHelper(e[x])}) = j]]

\* a helper call that used handler h saw the caller's context exactly in these cases
CtxSeen(s, h) == s.ctx /\ h # "none" /\ (s.op = "okjson" \/ IsCtxId(h))

\* ---------------------------------------------------------------- the response
NotAllowedW(c) == CASE c.cors = "custom" /\ c.nfn = "code"  -> WHeader(W0, 418)
                    [] c.cors = "custom" /\ c.nfn = "write" -> WWrite(W0, "n")
                    [] OTHER -> WHeader(W0, 404)
SetToSeq(S) == IF S = {} THEN <<>> ELSE LET RECURSIVE F(_) F(T) == IF T = {} THEN <<>> ELSE LET x == CHOOSE y \in T : TRUE IN <<x>> \o F(T \ {x}) IN F(S)

\* everything but the CORS headers: [ab |-> the exchange is aborted, w |-> the writer at the end]
Core(c, q, fr, used) ==
  IF Preflight(c, q) THEN [ab |-> FALSE, w |-> WHeader(W0, 204)]
  ELSE IF Class(q) = "nf" THEN [ab |-> FALSE, w |-> HttpError(W0, 404, "404 page not found")]
  ELSE IF Class(q) = "na" THEN
         [ab |-> FALSE, w |-> IF CorsOn(c) THEN NotAllowedW(c)
                              ELSE WHeader(HSetSeq(W0, "allow", SetToSeq(AllowOf(q.p))), 405)]
  ELSE IF TooLarge(c, q) THEN [ab |-> FALSE, w |-> WHeader(W0, 413)]
  ELSE IF BadGz(c, q, fr) THEN [ab |-> FALSE, w |-> WHeader(W0, 400)]
  ELSE LET r == RunW(q.script, 1, [w |-> W0, k |-> 0, pan |-> "none"], q.id, used) IN
       IF r.pan = "none" THEN [ab |-> FALSE, w |-> r.w]
       ELSE IF c.rec /\ ~(r.pan = "abort" /\ fr.abort)
              THEN [ab |-> FALSE, w |-> WHeader(r.w, 500)]     \* 500, unless something was committed before
              ELSE [ab |-> TRUE, w |-> r.w]

\* obs = what the client got; st = 0: no response (connection dropped)
RespOK(c, q, fr, used, obs) ==
  LET r == Core(c, q, fr, used) IN
  IF r.ab THEN obs.st = 0
  ELSE LET w == WClose(r.w) IN
       /\ obs.st = w.code
       /\ obs.body = (IF BodyAllowed(w.code) THEN w.body ELSE "")
       /\ (w.sent.ct # <<>> => obs.ct = w.sent.ct)              \* else: whatever net/http sniffs
       /\ obs.xh = w.sent.xh
       /\ SeqToSetW(obs.allow) = SeqToSetW(w.sent.allow)
       /\ CorsLaw(c, q, fr, obs)

\* ---------------------------------------------------------------- state machine
Live == DOMAIN ex
Put(f, k, v) == [x \in DOMAIN f \cup {k} |-> IF x = k THEN v ELSE f[x]]
Drop(f, k) == [x \in DOMAIN f \ {k} |-> f[x]]

PInit == cfg = Cfg0 /\ eh = {"none"} /\ okh = {"none"} /\ ex = <<>>

\* a server with configuration c is started; no handler is registered
PReset(c) == cfg' = c /\ eh' = {"none"} /\ okh' = {"none"} /\ ex' = <<>>

\* SetErrorHandler / SetErrorHandlerCtx is called ... and has returned
PSetErrS(h) == /\ eh' = eh \cup {h}
               /\ ex' = [i \in Live |-> IF ex[i].hc = "error" THEN [ex[i] EXCEPT !.hcand = @ \cup {h}] ELSE ex[i]]
               /\ UNCHANGED <<cfg, okh>>
PSetErrE(h) == eh' = {h} /\ UNCHANGED <<cfg, okh, ex>>
PSetOkS(h) == /\ okh' = okh \cup {h}
              /\ ex' = [i \in Live |-> IF ex[i].hc = "okjson" THEN [ex[i] EXCEPT !.hcand = @ \cup {h}] ELSE ex[i]]
              /\ UNCHANGED <<cfg, eh>>
PSetOkE(h) == okh' = {h} /\ UNCHANGED <<cfg, eh, ex>>

\* request q is sent
PReqG(id, q) == id \notin Live /\ q.id = id
PReq(id, q) == /\ PReqG(id, q)
               /\ ex' = Put(ex, id, [q |-> q, cands |-> FreeFor(cfg, q), ent |-> FALSE, nread |-> 0, rerr |-> FALSE,
                                     used |-> <<>>, hc |-> "none", hcand |-> {}])
               /\ UNCHANGED <<cfg, eh, okh>>

\* the handler of the route is entered
EnterC(id) == {fr \in ex[id].cands : EnterOK(cfg, ex[id].q, fr)}
PEnterG(id) == id \in Live /\ ~ex[id].ent /\ EnterC(id) # {}
PEnter(id) == /\ PEnterG(id)
              /\ ex' = [ex EXCEPT ![id].ent = TRUE, ![id].cands = EnterC(id)]
              /\ UNCHANGED <<cfg, eh, okh>>

\* it reads the body
ReadC(id, o) == {fr \in ex[id].cands : ReadOK(cfg, ex[id].q, fr, ex[id].nread + 1, ex[id].rerr, o)}
PReadG(id, o) == id \in Live /\ ex[id].ent /\ ex[id].hc = "none" /\ ReadC(id, o) # {}
PRead(id, o) == /\ PReadG(id, o)
                /\ ex' = [ex EXCEPT ![id].cands = ReadC(id, o), ![id].nread = @ + 1,
                                    ![id].rerr = IF ex[id].nread = 0 THEN o.err ELSE @]
                /\ UNCHANGED <<cfg, eh, okh>>

\* it calls OkJson[Ctx] / Error[Ctx]: from now on the call may pick up any handler that is or becomes current
NextHelper(id) == Helpers(ex[id].q.script)[Len(ex[id].used) + 1]
PHelpSG(id, k) == /\ id \in Live /\ ex[id].ent /\ ex[id].hc = "none"
                  /\ Len(ex[id].used) < Len(Helpers(ex[id].q.script)) /\ NextHelper(id).op = k
PHelpS(id, k) == /\ PHelpSG(id, k)
                 /\ ex' = [ex EXCEPT ![id].hc = k, ![id].hcand = IF k = "error" THEN eh ELSE okh]
                 /\ UNCHANGED <<cfg, eh, okh>>
\* ... and the call has returned: it used handler u.used (n calls of it), which saw the caller's context or not
PHelpEG(id, u) == /\ id \in Live /\ ex[id].hc # "none"
                  /\ u.used \in ex[id].hcand
                  /\ u.n = (IF u.used = "none" THEN 0 ELSE 1)
                  /\ u.ctxok = CtxSeen(NextHelper(id), u.used)
PHelpE(id, u) == /\ PHelpEG(id, u)
                 /\ ex' = [ex EXCEPT ![id].hc = "none", ![id].hcand = {},
                                     ![id].used = Append(@, [h |-> u.used])]
                 /\ UNCHANGED <<cfg, eh, okh>>

\* the client has the response (or lost the connection)
RespC(id, obs) ==
  LET x == ex[id] IN
  {fr \in x.cands :
     /\ x.ent = EnterOK(cfg, x.q, fr)
     /\ x.ent => /\ x.nread = CountOps(Executed(x.q.script), IsRead)
                 /\ Len(x.used) = Len(Helpers(x.q.script))
     /\ RespOK(cfg, x.q, fr, x.used, obs)}
PRespG(id, obs) == id \in Live /\ ex[id].hc = "none" /\ RespC(id, obs) # {}
PResp(id, obs) == /\ PRespG(id, obs)
                  /\ ex' = Drop(ex, id)
                  /\ UNCHANGED <<cfg, eh, okh>>

\* ---------------------------------------------------------------- invariants of the machine
\* every exchange in flight is still explained by some resolution of the freedoms
Explained == \A id \in Live : ex[id].cands # {}
\* a handler is only ever running for a request the law admits
EnteredAdmitted == \A id \in Live : ex[id].ent => \E fr \in ex[id].cands : EnterOK(cfg, ex[id].q, fr)
\* some handler is always current, and a helper call in progress has a candidate
RegistryOK == eh # {} /\ okh # {} /\ \A id \in Live : ex[id].hc # "none" => ex[id].hcand # {}
=============================================================================
