SPECIFICATION TSpec
CONSTANTS
  LogIv = 60000
  InitSucc = 1000
  LagScale = 1000
  RootOK <- RootReal
CONSTRAINT HW
INVARIANTS CountsOK
POSTCONDITION Accepted
CHECK_DEADLOCK FALSE
