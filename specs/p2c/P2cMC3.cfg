SPECIFICATION MSpec
CONSTANTS
  FP = 2
  LogIv = 4
  InitSucc = 2
  Thr = 1
  Penalty = 99
  PickTimes = 2
  LagScale = 1
  MixOK <- MixSmall
  RootOK <- RootSmall
  Advs = {3}
  LagVals = {0, 3}
  RootVals = {1, 2}
  TokIds = {1}
  Ns = {3}
  T0 = 3
  MaxNow = 6
INVARIANTS TypeOK Conservation SuccRange LagRange Stamps ReqCounts LineAtStamp ReqConservation LineLoads OverdueFirst NeverWorse ForcedOnlyOverdue SingleAlways
VIEW MView
CHECK_DEADLOCK FALSE
