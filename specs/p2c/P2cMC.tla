------------------------------- MODULE P2cMC -------------------------------
(* Model checking of Layer P (P2c.tla) under an arbitrary bounded environment:
   any interleaving of clock advances, picks over any admissible candidates and
   completions of any outstanding request with any admissible new averages.
   Two observer variables make the pick rule checkable as state invariants:
   out  -- facts about the last step (candidates, who was overdue, loads)
   skip -- per connection: [n: the number of consecutive picks in which it was an
           overdue candidate and was not chosen, w: the same counting only
           pass-overs at most FP after the previous one, at: instant of the last].  *)
EXTENDS P2c

CONSTANTS N, T0, MaxNow

VARIABLES out, skip
mvars == <<n, now, cs, stamp, toks, out, skip>>

\* a convex combination, the old value itself when no time has passed (w = 1)
MixSmall(old, sample, td, new) ==
  IF td = 0 THEN new = old ELSE new \in Min(old, sample)..Max(old, sample)
ISqrtSmall(x) == CHOOSE r \in 0..x : r * r <= x /\ (r + 1) * (r + 1) > x

NoSkip == [n |-> 0, w |-> 0, at |-> 0]
PassedOver(s) == [n |-> Min(s.n + 1, 3),
                  w |-> IF s.n > 0 /\ now - s.at <= FP THEN Min(s.w + 1, 3) ELSE 1,
                  at |-> now]

MInit == PInitWith(N, T0) /\ out = [op |-> "init"] /\ skip = [c \in 1..N |-> NoSkip]

MAdvance(d) == now + d <= MaxNow /\ PAdvance(d) /\ out' = [op |-> "adv"] /\ UNCHANGED skip

MPick(a, b, ch, id) ==
  /\ PPick(a, b, ch, id)
  /\ LET o == IF ch = a THEN b ELSE a IN
     out' = [op |-> "pick", a |-> a, b |-> b, ch |-> ch,
             od |-> {c \in {a, b} : Overdue(c)}, lch |-> Load(ch), lo |-> Load(o)]
  /\ skip' = [c \in Conns |-> IF c = ch THEN NoSkip
                              ELSE IF c \in {a, b} /\ Overdue(c) THEN PassedOver(skip[c]) ELSE skip[c]]

MDone(id, ok, nl, ns) == PDone(id, ok, nl, ns) /\ out' = [op |-> "done"] /\ UNCHANGED skip

MNext ==
  \/ \E d \in Advs : MAdvance(d)
  \/ PPickNone /\ out' = [op |-> "none"] /\ UNCHANGED skip
  \/ \E id \in TokIds, ch \in Conns :
       \/ n \in {1, 2} /\ \E a \in Conns, b \in Conns : MPick(a, b, ch, id)
       \/ n >= 3 /\ \E ds \in Seqs({<<a, b>> : a \in Conns, b \in Conns}, PickTimes) :
                      DrawsOK(ds) /\ MPick(ds[Len(ds)][1], ds[Len(ds)][2], ch, id)
  \/ \E id \in TokIds, ok \in BOOLEAN, nl \in LagVals, ns \in 0..InitSucc : MDone(id, ok, nl, ns)

MSpec == MInit /\ [][MNext]_mvars

\* ---- the pick rule as invariants over the observer ----
\* a pick never prefers a recently picked candidate over an overdue one
OverdueFirst == out.op = "pick" => (out.od # {} => out.ch \in out.od)
\* the chosen one is never strictly worse on load unless it was overdue (forced)
NeverWorse   == out.op = "pick" => (out.lch <= out.lo \/ out.ch \in out.od)
\* a forced pick happens only for an overdue connection
ForcedOnlyOverdue == out.op = "pick" /\ out.lch > out.lo => out.ch \in out.od
\* a single connection is always chosen
SingleAlways == out.op = "pick" /\ n = 1 => out.ch = 1
\* two connections: an overdue connection is passed over at most once per forcePick window
\* (the one preferred to it was overdue itself and is fresh for the next FP)
NoStarveWindow == n = 2 => \A c \in Conns : skip[c].w <= 1
\* ... but NOT at most once altogether: when the picks are more than FP apart both are
\* overdue every time (documented counterexample, P2cMCStarve.cfg; P2cImplStarve.cfg shows
\* that the code then returns the MORE loaded connection every time)
NoStarveEver   == n = 2 => \A c \in Conns : skip[c].n <= 1

\* the request counter does not influence anything else: hidden from the state space
MView == <<n, now, [c \in Conns |-> [cs[c] EXCEPT !.req = 0]], stamp, toks, out, skip>>
=============================================================================
