------------------------------- MODULE P2cMC -------------------------------
(* Model checking of Layer P (P2c.tla) under an arbitrary bounded environment:
   any interleaving of clock advances, picks over any admissible candidates and
   completions of any outstanding request with any admissible new averages.
   Two observer variables make the pick rule checkable as state invariants:
   out  -- facts about the last step (candidates, who was overdue, loads)
   bal  -- per connection: picks so far minus requests reported in statistics lines
   skip -- per connection: [n: the number of consecutive picks in which it was an
           overdue candidate and was not chosen, w: the same counting only
           pass-overs at most FP after the previous one, at: instant of the last].  *)
EXTENDS P2c

CONSTANTS Ns, T0, MaxNow      \* Ns: the numbers of ready connections to start from

VARIABLES out, skip, bal
mvars == <<n, now, cs, stamp, toks, line, out, skip, bal>>

\* a convex combination, the old value itself when no time has passed (w = 1)
MixSmall(old, sample, td, new) ==
  IF td = 0 THEN new = old ELSE new \in Min(old, sample)..Max(old, sample)
ISqrtSmall(x) == CHOOSE r \in 0..x : r * r <= x /\ (r + 1) * (r + 1) > x
RootSmall(l, r) == r = ISqrtSmall(l + 1)

NoSkip == [n |-> 0, w |-> 0, at |-> 0]
PassedOver(s) == [n |-> Min(s.n + 1, 3),
                  w |-> IF s.n > 0 /\ now - s.at <= FP THEN Min(s.w + 1, 3) ELSE 1,
                  at |-> now]

MInit == \E k \in Ns : PInitWith(k, T0) /\ out = [op |-> "init"] /\ skip = [c \in 1..k |-> NoSkip] /\ bal = [c \in 1..k |-> 0]

MAdvance(d) == now + d <= MaxNow /\ PAdvance(d) /\ out' = [op |-> "adv"] /\ UNCHANGED <<skip, bal>>

MPick(a, b, ch, id) ==
  /\ PPick(a, b, ch, id)
  /\ LET o == IF ch = a THEN b ELSE a IN
     out' = [op |-> "pick", a |-> a, b |-> b, ch |-> ch,
             od |-> {c \in {a, b} : Overdue(c)}, lch |-> Load(ch), lo |-> Load(o)]
  /\ skip' = [c \in Conns |-> IF c = ch THEN NoSkip
                              ELSE IF c \in {a, b} /\ Overdue(c) THEN PassedOver(skip[c]) ELSE skip[c]]
  /\ bal' = [bal EXCEPT ![ch] = @ + 1]

MDone(id, ok, nl, nr, ns) ==
  /\ PDone(id, ok, nl, nr, ns) /\ out' = [op |-> "done"] /\ UNCHANGED skip
  /\ bal' = IF line' = <<>> THEN bal ELSE [c \in Conns |-> bal[c] - line'[c][2]]

MNext ==
  \/ \E d \in Advs : MAdvance(d)
  \/ PPickNone /\ out' = [op |-> "none"] /\ UNCHANGED <<skip, bal>>
  \/ \E id \in TokIds, ch \in Conns :
       \E a \in Conns, b \in Conns : MPick(a, b, ch, id)
  \/ \E id \in TokIds, ok \in BOOLEAN, nl \in LagVals, nr \in RootVals, ns \in 0..InitSucc : MDone(id, ok, nl, nr, ns)

MSpec == MInit /\ [][MNext]_mvars

\* ---- the pick rule as invariants over the observer ----
\* a pick never prefers a recently picked candidate over an overdue one
OverdueFirst == out.op = "pick" => (out.od # {} => out.ch \in out.od)
\* the chosen one is never strictly worse on load unless it was overdue (forced)
NeverWorse   == out.op = "pick" => (out.lch <= out.lo \/ out.ch \in out.od)
\* a forced pick happens only for an overdue connection
ForcedOnlyOverdue == out.op = "pick" /\ out.lch > out.lo => out.ch \in out.od
\* a single connection is always chosen
SingleAlways == out.op = "pick" /\ n = 1 => out.ch = 1
\* two connections: an overdue connection is passed over at most once per forcePick window
\* (the one preferred to it was overdue itself and is fresh for the next FP)
NoStarveWindow == n = 2 => \A c \in Conns : skip[c].w <= 1
\* ... but NOT at most once altogether: when the picks are more than FP apart both are
\* overdue every time (documented counterexample, P2cMCStarve.cfg; P2cImplStarve.cfg shows
\* that the code then returns the MORE loaded connection every time)
NoStarveEver   == n = 2 => \A c \in Conns : skip[c].n <= 1

\* every pick is reported in exactly one statistics line: the counter is what was picked and not yet reported
ReqConservation == \A c \in Conns : cs[c].req = bal[c]
\* a statistics line reports the load as of the completion that wrote it
LineLoads == line # <<>> => \A c \in Conns : line[c][1] = Load(c) /\ line[c][2] >= 0

\* the request counter does not influence anything else: hidden from the state space (with its observer)
MView == <<n, now, [c \in Conns |-> [cs[c] EXCEPT !.req = 0]], stamp, toks, line # <<>>, out, skip>>
=============================================================================
