SPECIFICATION TSpec
CONSTANTS
  FP = 1000
  LogIv = 60000
  InitSucc = 1000
  Thr = 500
  Penalty = 2147483647
  PickTimes = 3
  LagScale = 1000
  MixOK <- MixReal
  RootOK <- RootReal
  Advs = {}
  LagVals = {}
  RootVals = {}
  TokIds = {}
CONSTRAINT HW
INVARIANTS Conservation SuccRange LagRange Stamps ReqCounts LineAtStamp
POSTCONDITION Accepted
CHECK_DEADLOCK FALSE
