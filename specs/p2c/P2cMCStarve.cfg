SPECIFICATION MSpec
CONSTANTS
  FP = 2
  LogIv = 4
  InitSucc = 2
  Thr = 1
  Penalty = 99
  PickTimes = 3
  LagScale = 1
  MixOK <- MixSmall
  Root <- ISqrtSmall
  Advs = {1, 3}
  LagVals = {0, 1, 2, 3, 4, 5}
  TokIds = {1, 2}
  N = 2
  T0 = 3
  MaxNow = 8
INVARIANTS TypeOK Conservation SuccRange LagRange Stamps ReqCounts OverdueFirst NeverWorse ForcedOnlyOverdue SingleAlways NoStarveEver
VIEW MView
CHECK_DEADLOCK FALSE
