SPECIFICATION MSpec
CONSTANTS
  FP = 2
  LogIv = 4
  InitSucc = 2
  Thr = 1
  Penalty = 99
  PickTimes = 3
  LagScale = 1
  MixOK <- MixSmall
  RootOK <- RootSmall
  Advs = {1, 3}
  LagVals = {0, 1, 3}
  RootVals = {1, 2}
  TokIds = {1, 2}
  Ns = {2}
  T0 = 3
  MaxNow = 6
INVARIANTS TypeOK Conservation SuccRange LagRange Stamps ReqCounts LineAtStamp ReqConservation LineLoads OverdueFirst NeverWorse ForcedOnlyOverdue SingleAlways NoStarveEver
VIEW MView
CHECK_DEADLOCK FALSE
