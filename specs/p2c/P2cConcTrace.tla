---------------------------- MODULE P2cConcTrace ----------------------------
(* Trace validation of concurrent recordings against P2cConc.tla.  Units as in P2cTrace.tla. *)
EXTENDS P2cConc, P2cExp, TraceKit

VARIABLE l
tvars == <<n, now, pend, cnt, tk, rep, lastlog, rest, hull, ndone, osn, l>>

E == Trace[l]
IsEvent(e) == l <= Len(Trace) /\ E.e = e /\ l' = l + 1

Unacceptable == {"DeadlineExceeded", "Internal", "Unavailable", "DataLoss", "Unimplemented", "ResourceExhausted"}
ConnOf(s) == [inf |-> s[1], lag |-> s[2], rt |-> s[3], succ |-> s[4], last |-> s[5], pick |-> s[6], req |-> s[7]]

TReset == IsEvent("reset") /\ CReset(E.n, E.t)
TAdv   == IsEvent("adv") /\ CAdv(E.d)
TPs    == IsEvent("ps") /\ CPickStart(E.g)
TPe    == IsEvent("pe") /\ CPickEnd(E.g, E.c, E.tok)
TPn    == IsEvent("pnone") /\ CPickNone(E.g) /\ E.err = TRUE
TDs    == IsEvent("ds") /\ CDoneStart(E.tok, E.err \notin Unacceptable)
TDe    == IsEvent("de") /\ CDoneEnd(E.tok)
TStat  == IsEvent("stat") /\ CStat(E.line)
TOs    == IsEvent("os") /\ CObsStart
TOe    == IsEvent("oe") /\ CObsEnd(E.inf)
TQuiet == IsEvent("quiet") /\ CQuiet([c \in 1..Len(E.st) |-> ConnOf(E.st[c])], E.stamp)

TInit == CInit /\ l = 1
TNext == TReset \/ TAdv \/ TPs \/ TPe \/ TPn \/ TDs \/ TDe \/ TStat \/ TOs \/ TOe \/ TQuiet
TSpec == TInit /\ [][TNext]_tvars

\* kept as invariants of every accepted prefix
CountsOK == \A c \in Conns : cnt[c].de <= cnt[c].ds /\ cnt[c].ds <= cnt[c].pe /\ rep[c] >= 0

HW == HighWater(l)
=============================================================================
