------------------------------ MODULE P2cImpl ------------------------------
(* Layer I: p2cPicker.Pick / choose / the done-callback of p2c.go, statement by
   statement.  Procs goroutines each loop { Pick ; ... ; done(err) }.  Pick runs
   under the picker's mutex; the done-callback is lock-free (a sequence of
   atomic operations on the fields of one subConn) and only takes the mutex to
   log statistics.  Shared words are the per-connection atomics and the stamp.

   Conc = FALSE: operations do not overlap (the schedule of the sequential
     drivers).  TLC checks that every completed operation is a step of Layer P
     (PROPERTY AbsSpec: refinement through the snapshot `snap` taken when an
     operation completes) and prints one operation history per reachable state.
   Conc = TRUE: every interleaving of the atomic steps.  The choice rule is then
     not linearisable (loads are read at different instants) and is not
     demanded; what must survive is conservation of the in-flight counter, the
     envelope law that P2cConc.tla demands from concurrent recordings, value
     ranges and absence of deadlock.

   Variant = "code"       the statements of p2c.go
             "worse"      choose swaps when c1 is LESS loaded (returns the worse one)
             "nostamp"    a forced pick does not stamp the connection
             "nonatomic"  inflight-- as load;store (lost update)
             "nocas"      statistics logged by every completion past the interval

   Configs: P2cImplMC / MC1 / MC3 (Conc = FALSE, 2 / 1 / 3 connections: PROPERTY AbsSpec + invariants),
   P2cImplConc (Conc = TRUE), P2cImplBug* and P2cImplStarve (documented counterexamples),
   P2cImplGen2 (one history per reachable state), P2cImplSim2 / Sim3 (-simulate: long histories;
   model time unit 1 s: FP = 1, LogIv = 60).  Every action is taken in some config (Sel: 3
   connections, DInfW: "nonatomic").                                                          *)
EXTENDS Integers, Sequences, FiniteSets, TLC, Json

CONSTANTS
  FP, LogIv, InitSucc, Thr, Penalty, PickTimes, LagScale,
  MixOK(_, _, _, _), Advs, LagVals, RootVals, TokIds,    \* as in P2c.tla
  Root(_),    \* floor(sqrt(x)): c.load() computes it from the lag
  N,          \* ready connections (>= 1)
  T0,         \* clock at Build
  MaxNow,     \* bound of the clock
  MaxOps,     \* bound of the number of operations started
  Procs,      \* goroutines
  Conc, Variant, Emit

VARIABLES
  inow,    \* the clock (timex.Now)
  sc,      \* sc[c] = [inf, lag, succ, last, pick, req]: the atomics of subConn c
  istamp,  \* p.stamp
  lock,    \* p.lock: 0 or the holder
  pc,      \* pc[p]: control point of goroutine p
  loc,     \* loc[p]: its locals
  snap,    \* [now, cs, stamp, toks, line]: Layer-P state as of the last completed operation
  lg,      \* lg[c]: requests of c reported in statistics lines so far (observer)
  cnt,     \* cnt[c] = [pe, ds, de]: picks ended / done-callbacks started / ended (observer)
  nops,    \* operations started
  pass,    \* pass[c]: consecutive picks that passed over c while it was an overdue candidate
  hist     \* completed operations (generation)

ivars == <<inow, sc, istamp, lock, pc, loc, snap, lg, cnt, nops, pass, hist>>

Conns == 1..N
Max(a, b) == IF a >= b THEN a ELSE b
Min(a, b) == IF a <= b THEN a ELSE b
FreshConn == [inf |-> 0, lag |-> 0, succ |-> InitSucc, last |-> 0, pick |-> 0, req |-> 0]
NoLoc == [c1 |-> 0, c2 |-> 0, att |-> 0, draws |-> <<>>, start |-> 0, l1 |-> 0, l2 |-> 0,
          ch |-> 0, tstart |-> 0, dnow |-> 0, td |-> 0, old |-> 0, ok |-> TRUE, st |-> 0, tmp |-> 0]

LoadOf(c) == LET l == Root(sc[c].lag + 1) * (sc[c].inf + 1) IN IF l = 0 THEN Penalty ELSE l
HealthyC(c) == sc[c].succ > Thr

PickStates == {"want", "sel", "c_start", "c_l1", "c_l2", "c_pick", "i_inf", "i_req", "build"}
DoneStates == {"d_inf", "d_inf_w", "d_last", "d_olag", "d_lag", "d_osucc", "d_succ", "d_stamp",
               "d_cas", "ls_lock", "ls_do"}
Quiet == \A q \in Procs : pc[q] \in {"idle", "hold"}
MayStart == (Conc \/ Quiet) /\ nops < MaxOps

\* tokens outstanding in the sense of Layer P: handed out and callback not yet returned
TokOf(p) == [id |-> p, c |-> loc[p].ch, start |-> loc[p].tstart]
\* Layer P caches the root of the lag next to it
WithRoot(scv) == [c \in Conns |-> [inf |-> scv[c].inf, lag |-> scv[c].lag, rt |-> Root(scv[c].lag + 1), succ |-> scv[c].succ,
                                   last |-> scv[c].last, pick |-> scv[c].pick, req |-> scv[c].req]]
Capture(scv, stv, tk, ln) == [now |-> inow, cs |-> WithRoot(scv), stamp |-> stv, toks |-> tk, line |-> ln]

IInit ==
  /\ inow = T0 /\ istamp = 0 /\ lock = 0
  /\ sc = [c \in Conns |-> FreshConn]
  /\ pc = [p \in Procs |-> "idle"]
  /\ loc = [p \in Procs |-> NoLoc]
  /\ snap = [now |-> T0, cs |-> WithRoot([c \in Conns |-> FreshConn]), stamp |-> 0, toks |-> {}, line |-> <<>>]
  /\ lg = [c \in Conns |-> 0]
  /\ cnt = [c \in Conns |-> [pe |-> 0, ds |-> 0, de |-> 0]]
  /\ nops = 0 /\ hist = <<>> /\ pass = [c \in Conns |-> 0]

Goto(p, l) == pc' = [pc EXCEPT ![p] = l]
SetLoc(p, r) == loc' = [loc EXCEPT ![p] = r]

\* ---- the clock ----
Advance(d) ==
  /\ MayStart /\ inow + d <= MaxNow
  /\ inow' = inow + d
  /\ snap' = [snap EXCEPT !.now = inow + d, !.line = <<>>]
  /\ nops' = nops + 1
  /\ hist' = IF Emit THEN Append(hist, [op |-> "adv", d |-> d]) ELSE hist
  /\ UNCHANGED <<lg, sc, istamp, lock, pc, loc, cnt, pass>>

\* ---- Pick ----
Call(p) ==        \* the goroutine is about to call Pick (the drivers log "ps" here)
  /\ pc[p] = "idle" /\ MayStart
  /\ Goto(p, "want") /\ SetLoc(p, NoLoc) /\ nops' = nops + 1
  /\ UNCHANGED <<lg, inow, sc, istamp, lock, snap, cnt, pass, hist>>

LockPick(p) ==    \* p.lock.Lock(); switch len(p.conns)
  /\ pc[p] = "want" /\ lock = 0
  /\ lock' = p
  /\ IF N = 1 THEN Goto(p, "c_start") /\ SetLoc(p, [loc[p] EXCEPT !.c1 = 1, !.c2 = 0])
     ELSE IF N = 2 THEN Goto(p, "c_start") /\ SetLoc(p, [loc[p] EXCEPT !.c1 = 1, !.c2 = 2])
     ELSE Goto(p, "sel") /\ UNCHANGED loc
  /\ UNCHANGED <<lg, inow, sc, istamp, snap, cnt, nops, pass, hist>>

Sel(p) ==         \* one round of: a := Intn(n); b := Intn(n-1) (+1); healthy && healthy -> break
  /\ pc[p] = "sel"
  /\ \E a \in Conns : \E b \in Conns \ {a} :
       LET att == loc[p].att + 1 IN
       /\ SetLoc(p, [loc[p] EXCEPT !.att = att, !.c1 = a, !.c2 = b, !.draws = Append(@, <<a, b>>)])
       /\ IF (HealthyC(a) /\ HealthyC(b)) \/ att = PickTimes THEN Goto(p, "c_start") ELSE UNCHANGED pc
  /\ UNCHANGED <<lg, inow, sc, istamp, lock, snap, cnt, nops, pass, hist>>

CStart(p) ==      \* choose: start := timex.Now(); c2 == nil -> stamp c1, return it
  /\ pc[p] = "c_start"
  /\ IF loc[p].c2 = 0
       THEN /\ sc' = [sc EXCEPT ![loc[p].c1].pick = inow]
            /\ SetLoc(p, [loc[p] EXCEPT !.start = inow, !.ch = loc[p].c1])
            /\ Goto(p, "i_inf")
       ELSE /\ SetLoc(p, [loc[p] EXCEPT !.start = inow])
            /\ Goto(p, "c_l1") /\ UNCHANGED sc
  /\ UNCHANGED <<lg, inow, istamp, lock, snap, cnt, nops, pass, hist>>

CL1(p) == /\ pc[p] = "c_l1"
          /\ SetLoc(p, [loc[p] EXCEPT !.l1 = LoadOf(loc[p].c1)]) /\ Goto(p, "c_l2")
          /\ UNCHANGED <<lg, inow, sc, istamp, lock, snap, cnt, nops, pass, hist>>

CL2(p) ==         \* if c1.load() > c2.load() { c1, c2 = c2, c1 }
  /\ pc[p] = "c_l2"
  /\ LET l2 == LoadOf(loc[p].c2)
         swap == IF Variant = "worse" THEN loc[p].l1 < l2 ELSE loc[p].l1 > l2
     IN SetLoc(p, IF swap THEN [loc[p] EXCEPT !.l2 = l2, !.c1 = loc[p].c2, !.c2 = loc[p].c1]
                  ELSE [loc[p] EXCEPT !.l2 = l2])
  /\ Goto(p, "c_pick")
  /\ UNCHANGED <<lg, inow, sc, istamp, lock, snap, cnt, nops, pass, hist>>

CPick(p) ==       \* pick := c2.pick; if start-pick > forcePick && CAS(c2.pick, pick, start) return c2
  /\ pc[p] = "c_pick"                           \* (only Pick writes pick, under the mutex: the CAS succeeds)
  /\ LET c1 == loc[p].c1  c2 == loc[p].c2 IN
     IF loc[p].start - sc[c2].pick > FP
       THEN /\ sc' = IF Variant = "nostamp" THEN sc ELSE [sc EXCEPT ![c2].pick = loc[p].start]
            /\ SetLoc(p, [loc[p] EXCEPT !.ch = c2])
       ELSE /\ sc' = [sc EXCEPT ![c1].pick = loc[p].start]
            /\ SetLoc(p, [loc[p] EXCEPT !.ch = c1])
  /\ pass' = [c \in Conns |-> IF c = loc'[p].ch THEN 0
                              ELSE IF c \in {loc[p].c1, loc[p].c2} /\ loc[p].start - sc[c].pick > FP
                                     THEN Min(pass[c] + 1, 2) ELSE pass[c]]
  /\ Goto(p, "i_inf")
  /\ UNCHANGED <<lg, inow, istamp, lock, snap, cnt, nops, hist>>

IInf(p) == /\ pc[p] = "i_inf"
           /\ sc' = [sc EXCEPT ![loc[p].ch].inf = @ + 1] /\ Goto(p, "i_req")
           /\ UNCHANGED <<lg, inow, istamp, lock, loc, snap, cnt, nops, pass, hist>>

IReq(p) == /\ pc[p] = "i_req"
           /\ sc' = [sc EXCEPT ![loc[p].ch].req = @ + 1] /\ Goto(p, "build")
           /\ UNCHANGED <<lg, inow, istamp, lock, loc, snap, cnt, nops, pass, hist>>

Build(p) ==       \* buildDoneFunc: start := timex.Now(); deferred Unlock; return
  /\ pc[p] = "build"
  /\ SetLoc(p, [loc[p] EXCEPT !.tstart = inow])
  /\ lock' = 0 /\ Goto(p, "hold")
  /\ cnt' = [cnt EXCEPT ![loc[p].ch].pe = @ + 1]
  /\ snap' = Capture(sc, istamp, snap.toks \cup {[id |-> p, c |-> loc[p].ch, start |-> inow]}, <<>>)
  /\ hist' = IF Emit THEN Append(hist, [op |-> "pick", tok |-> p, draws |-> loc[p].draws]) ELSE hist
  /\ UNCHANGED <<lg, inow, sc, istamp, nops, pass>>

\* ---- the done-callback of the token held by p ----
DoneCall(p, ok) ==
  /\ pc[p] = "hold" /\ MayStart
  /\ SetLoc(p, [loc[p] EXCEPT !.ok = ok]) /\ Goto(p, "d_inf")
  /\ cnt' = [cnt EXCEPT ![loc[p].ch].ds = @ + 1]
  /\ nops' = nops + 1
  /\ UNCHANGED <<lg, inow, sc, istamp, lock, snap, pass, hist>>

DInf(p) ==        \* atomic.AddInt64(&c.inflight, -1)
  /\ pc[p] = "d_inf"
  /\ IF Variant = "nonatomic"
       THEN SetLoc(p, [loc[p] EXCEPT !.tmp = sc[loc[p].ch].inf]) /\ Goto(p, "d_inf_w") /\ UNCHANGED sc
       ELSE sc' = [sc EXCEPT ![loc[p].ch].inf = @ - 1] /\ Goto(p, "d_last") /\ UNCHANGED loc
  /\ UNCHANGED <<lg, inow, istamp, lock, snap, cnt, nops, pass, hist>>

DInfW(p) == /\ pc[p] = "d_inf_w"
            /\ sc' = [sc EXCEPT ![loc[p].ch].inf = loc[p].tmp - 1] /\ Goto(p, "d_last")
            /\ UNCHANGED <<lg, inow, istamp, lock, loc, snap, cnt, nops, pass, hist>>

DLast(p) ==       \* now := timex.Now(); last := Swap(&c.last, now); td := max(now-last, 0)
  /\ pc[p] = "d_last"
  /\ LET c == loc[p].ch IN
     /\ SetLoc(p, [loc[p] EXCEPT !.dnow = inow, !.td = Max(0, inow - sc[c].last)])
     /\ sc' = [sc EXCEPT ![c].last = inow]
  /\ Goto(p, "d_olag")
  /\ UNCHANGED <<lg, inow, istamp, lock, snap, cnt, nops, pass, hist>>

DOlag(p) ==       \* olag := Load(&c.lag)   (olag == 0 -> w = 0, remembered in loc.old)
  /\ pc[p] = "d_olag"
  /\ SetLoc(p, [loc[p] EXCEPT !.old = sc[loc[p].ch].lag]) /\ Goto(p, "d_lag")
  /\ UNCHANGED <<lg, inow, sc, istamp, lock, snap, cnt, nops, pass, hist>>

DLag(p) ==        \* Store(&c.lag, olag*w + lag*(1-w))
  /\ pc[p] = "d_lag"
  /\ LET sl == Max(0, loc[p].dnow - loc[p].tstart) * LagScale IN
     \E nl \in LagVals :
       /\ IF loc[p].old = 0 THEN nl = sl ELSE MixOK(loc[p].old, sl, loc[p].td, nl)
       /\ sc' = [sc EXCEPT ![loc[p].ch].lag = nl]
  /\ Goto(p, "d_osucc")
  /\ UNCHANGED <<lg, inow, istamp, lock, loc, snap, cnt, nops, pass, hist>>

DOsucc(p) ==      \* osucc := Load(&c.success)  (w still 0 if olag was 0: kept in loc.old)
  /\ pc[p] = "d_osucc"
  /\ SetLoc(p, [loc[p] EXCEPT !.tmp = sc[loc[p].ch].succ]) /\ Goto(p, "d_succ")
  /\ UNCHANGED <<lg, inow, sc, istamp, lock, snap, cnt, nops, pass, hist>>

DSucc(p) ==       \* Store(&c.success, osucc*w + success*(1-w))
  /\ pc[p] = "d_succ"
  /\ LET ss == IF loc[p].ok THEN InitSucc ELSE 0 IN
     \E ns \in 0..InitSucc :
       /\ IF loc[p].old = 0 THEN ns = ss ELSE MixOK(loc[p].tmp, ss, loc[p].td, ns)
       /\ sc' = [sc EXCEPT ![loc[p].ch].succ = ns]
  /\ Goto(p, "d_stamp")
  /\ UNCHANGED <<lg, inow, istamp, lock, loc, snap, cnt, nops, pass, hist>>

\* the callback returns
Finish(p, scv, ln) ==
  /\ Goto(p, "idle")
  /\ cnt' = [cnt EXCEPT ![loc[p].ch].de = @ + 1]
  /\ snap' = Capture(scv, istamp, snap.toks \ {t \in snap.toks : t.id = p}, ln)
  /\ hist' = IF Emit THEN Append(hist, [op |-> "done", tok |-> p, ok |-> loc[p].ok]) ELSE hist

DStamp(p) ==      \* stamp := p.stamp.Load(); if now-stamp >= logInterval ...
  /\ pc[p] = "d_stamp"
  /\ IF loc[p].dnow - istamp >= LogIv
       THEN /\ SetLoc(p, [loc[p] EXCEPT !.st = istamp]) /\ Goto(p, "d_cas")
            /\ UNCHANGED <<snap, cnt, hist>>
       ELSE Finish(p, sc, <<>>) /\ UNCHANGED loc
  /\ UNCHANGED <<lg, inow, sc, istamp, lock, nops, pass>>

DCas(p) ==        \* ... if p.stamp.CompareAndSwap(stamp, now) { p.logStats() }
  /\ pc[p] = "d_cas"
  /\ IF istamp = loc[p].st \/ Variant = "nocas"
       THEN istamp' = loc[p].dnow /\ Goto(p, "ls_lock") /\ UNCHANGED <<snap, cnt, hist>>
       ELSE Finish(p, sc, <<>>) /\ UNCHANGED istamp
  /\ UNCHANGED <<lg, inow, sc, lock, loc, nops, pass>>

LsLock(p) == /\ pc[p] = "ls_lock" /\ lock = 0
             /\ lock' = p /\ Goto(p, "ls_do")
             /\ UNCHANGED <<lg, inow, sc, istamp, loc, snap, cnt, nops, pass, hist>>

LsDo(p) ==        \* for every conn: "conn, load(), Swap(&conn.requests, 0)"; Statf; Unlock
  /\ pc[p] = "ls_do"
  /\ sc' = [c \in Conns |-> [sc[c] EXCEPT !.req = 0]]
  /\ lg' = [c \in Conns |-> lg[c] + sc[c].req]
  /\ lock' = 0
  /\ Finish(p, [c \in Conns |-> [sc[c] EXCEPT !.req = 0]], [c \in Conns |-> <<LoadOf(c), sc[c].req>>])
  /\ UNCHANGED <<inow, istamp, loc, nops, pass>>

Step(p) ==
  \/ Call(p) \/ LockPick(p) \/ Sel(p) \/ CStart(p) \/ CL1(p) \/ CL2(p) \/ CPick(p)
  \/ IInf(p) \/ IReq(p) \/ Build(p)
  \/ \E ok \in BOOLEAN : DoneCall(p, ok)
  \/ DInf(p) \/ DInfW(p) \/ DLast(p) \/ DOlag(p) \/ DLag(p) \/ DOsucc(p) \/ DSucc(p)
  \/ DStamp(p) \/ DCas(p) \/ LsLock(p) \/ LsDo(p)

\* the bounded run is over (so that TLC's deadlock check means "somebody is stuck")
Over == nops >= MaxOps /\ Quiet /\ UNCHANGED ivars

INext == (\E d \in Advs : Advance(d)) \/ (\E p \in Procs : Step(p)) \/ Over
ISpec == IInit /\ [][INext]_ivars

\* ---- refinement: every completed operation is a step of Layer P (Conc = FALSE) ----
RootEq(l, r) == r = Root(l + 1)
Abs == INSTANCE P2c WITH n <- N, now <- snap.now, cs <- snap.cs, stamp <- snap.stamp, toks <- snap.toks,
                         line <- snap.line, RootOK <- RootEq
AbsSpec == Abs!PInitWith(N, T0) /\ [][Abs!PNextR]_<<snap>>

\* ---- invariants of the interleaved algorithm (Conc = TRUE) ----
\* what goroutine p contributes to the in-flight counter of c
Flying(p, c) == IF loc[p].ch = c /\ pc[p] \in {"i_req", "build", "hold", "d_inf", "d_inf_w"} THEN 1 ELSE 0
RECURSIVE SumOver(_, _)
SumOver(S, c) == IF S = {} THEN 0 ELSE LET p == CHOOSE x \in S : TRUE IN Flying(p, c) + SumOver(S \ {p}, c)
\* conservation: the counter is exactly the number of requests between increment and decrement
IConservation == \A c \in Conns : sc[c].inf = SumOver(Procs, c)
\* hence never negative, and zero at rest
INonNegative == \A c \in Conns : sc[c].inf >= 0
IZeroAtRest == (\A p \in Procs : pc[p] = "idle") => \A c \in Conns : sc[c].inf = 0
\* the envelope an outside observer may rely on (this is what P2cConc.tla demands of
\* concurrent recordings): picks ended - callbacks started <= inflight <= picks ended
\* + picks in progress - callbacks ended
Pending == Cardinality({p \in Procs : pc[p] \in PickStates})
Envelope == \A c \in Conns :
  /\ sc[c].inf >= cnt[c].pe - cnt[c].ds
  /\ sc[c].inf <= cnt[c].pe + Pending - cnt[c].de
IRanges == \A c \in Conns :
  /\ sc[c].succ \in 0..InitSucc
  /\ sc[c].lag \in LagVals
  /\ sc[c].pick <= inow /\ sc[c].last <= inow
  /\ sc[c].req >= 0
\* every pick is reported in exactly one statistics line (Pick and logStats exclude each other)
IReqConservation == \A c \in Conns :
  sc[c].req + lg[c] = cnt[c].pe + Cardinality({p \in Procs : pc[p] = "build" /\ loc[p].ch = c})
\* the draws of a Pick over >= 3 connections stop at the first pair of healthy candidates (Conc = FALSE:
\* health does not change while the picker's mutex is held)
IDrawsLaw == (~Conc /\ N >= 3) => \A p \in Procs : pc[p] = "c_start" =>
  LET ds == loc[p].draws
      H(d) == HealthyC(d[1]) /\ HealthyC(d[2]) IN
  /\ Len(ds) \in 1..PickTimes
  /\ \A i \in 1..Len(ds) : ds[i][1] # ds[i][2]
  /\ \A i \in 1..(Len(ds) - 1) : ~H(ds[i])
  /\ Len(ds) < PickTimes => H(ds[Len(ds)])
  /\ <<loc[p].c1, loc[p].c2>> = ds[Len(ds)]
LockOK == lock \in {0} \cup Procs /\ (lock # 0 => pc[lock] \in PickStates \cup {"ls_do"})
\* statistics are logged by one completion per interval (CompareAndSwap on the stamp)
OneLogger == Cardinality({p \in Procs : pc[p] \in {"ls_lock", "ls_do"}}) <= 1

\* NOT an invariant (P2cImplStarve.cfg, documented counterexample): an overdue candidate
\* is passed over at most once.  With picks more than FP apart both connections are
\* overdue at every Pick and choose() returns c2, the MORE loaded one, every time.
NoStarveEver == \A c \in Conns : pass[c] <= 1

\* ---- small-number stand-ins for the floating point (cfg: MixOK <- MixSmall, Root <- ISqrtSmall) ----
\* any convex combination; the old value when no time has passed (w = 1)
MixSmall(old, sample, td, new) ==
  IF td = 0 THEN new = old ELSE new \in Min(old, sample)..Max(old, sample)
\* one deterministic representative (generation: only the operation sequence is used)
MixGen(old, sample, td, new) ==
  IF td = 0 THEN new = old ELSE new = (old + sample) \div 2
ISqrtSmall(x) == CHOOSE r \in 0..x : r * r <= x /\ (r + 1) * (r + 1) > x
GenLags == 0..130      \* cfg: LagVals <- GenLags, RootVals <- GenRoots (generation configs)
GenRoots == 1..12

\* ---- generation ----
IView == <<inow, sc, istamp, lock, pc, loc, snap, pass>>     \* lg, cnt, nops: observers
PrintHist == (Emit /\ Quiet /\ Len(hist) > 0) => PrintT("TRACE " \o ToJson(hist))
\* simulation (-simulate): behaviours end when the operation budget is used up; only whole histories are printed
GSpec == IInit /\ [][(\E d \in Advs : Advance(d)) \/ (\E p \in Procs : Step(p))]_ivars
PrintFinal == (Emit /\ Quiet /\ nops >= MaxOps) => PrintT("TRACE " \o ToJson(hist))
=============================================================================
