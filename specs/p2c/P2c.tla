-------------------------------- MODULE P2c --------------------------------
(* Extension specification (host property C02): the zRPC client-side balancer
   "p2c_ewma" (zrpc/internal/balancer/p2c/p2c.go), Layer P.

   A picker is built over the n READY sub-connections 1..n.  Per connection it
   keeps the number of requests in flight, two exponentially weighted moving
   averages (latency "lag" and "success"), the instant of the last completion,
   the instant it was last picked and the number of requests since the last
   statistics line.  Pick looks at two candidates and returns the less loaded
   one (load = sqrt(lag+1) * (inflight+1)) -- unless the other one has not been
   picked for more than forcePick, then that one is "forcibly selected" (comment
   in p2c.go).  Every successful Pick hands out a done-callback; calling it ends
   the request: in-flight is decremented and both averages move towards the new
   sample with weight w = exp(-td/decayTime) for the old value (td = time since
   the previous completion on that connection; no history -> the sample itself).
   A completion at least logInterval after the previous statistics line writes
   one line "conn, load, reqs" per connection and resets the request counters.

   Time is integer (the drivers run the virtual clock timex.VerifNow in whole
   milliseconds); lag is kept in LagScale sub-units of the time unit.  The
   floating point of the code is a parameter: MixOK(old, sample, td, new) says
   which new averages are acceptable, RootOK(lag, r) which r is an acceptable
   integer square root of lag+1 (the field rt caches it: the code computes the
   load from the lag in nanoseconds, the recorded traces carry the lag in
   microseconds together with the root).                                       *)
EXTENDS Integers, Sequences, FiniteSets, TLC

CONSTANTS
  FP,          \* forcePick
  LogIv,       \* logInterval: statistics are logged and the request counters reset
  InitSucc,    \* initial / full success value (1000)
  Thr,         \* throttleSuccess: healthy iff success > Thr
  Penalty,     \* load reported for a zero product
  PickTimes,   \* number of pick attempts (n >= 3)
  LagScale,
  MixOK(_, _, _, _),   \* MixOK(old, sample, td, new)
  RootOK(_, _),        \* RootOK(lag, r): r = floor(sqrt(lag + 1)) up to the resolution of lag
  \* bounds of the environment, used only by PNextB (model checking / refinement)
  Advs, LagVals, RootVals, TokIds

VARIABLES
  n,      \* number of ready connections the picker was built over (0: none)
  now,    \* the clock
  cs,     \* cs[c] = [inf, lag, rt, succ, last, pick, req]
  stamp,  \* instant of the last statistics line
  toks,   \* done-callbacks handed out and not yet called: [id, c, start]
  line    \* the statistics line written by the last step: <<load, reqs>> per connection, <<>> if none

pvars == <<n, now, cs, stamp, toks, line>>

Conns == 1..n
FreshConn == [inf |-> 0, lag |-> 0, rt |-> 1, succ |-> InitSucc, last |-> 0, pick |-> 0, req |-> 0]
Max(a, b) == IF a >= b THEN a ELSE b
Min(a, b) == IF a <= b THEN a ELSE b

LoadOf(rt, inf) == LET l == rt * (inf + 1) IN IF l = 0 THEN Penalty ELSE l
Load(c)    == LoadOf(cs[c].rt, cs[c].inf)
Healthy(c) == cs[c].succ > Thr
Overdue(c) == now - cs[c].pick > FP
Held(c)    == {t \in toks : t.c = c}

PInitWith(k, t0) ==
  /\ n = k /\ now = t0 /\ stamp = 0 /\ toks = {} /\ line = <<>>
  /\ cs = [c \in 1..k |-> FreshConn]

\* Build(info) over k ready connections at clock t0 (also used as the trace "reset")
PBuild(k, t0) ==
  /\ k >= 0 /\ t0 >= 0
  /\ n' = k /\ now' = t0 /\ stamp' = 0 /\ toks' = {} /\ line' = <<>>
  /\ cs' = [c \in 1..k |-> FreshConn]

PAdvance(d) == d >= 0 /\ now' = now + d /\ line' = <<>> /\ UNCHANGED <<n, cs, stamp, toks>>

\* Pick on a picker without connections: ErrNoSubConnAvailable, nothing changes
PPickNone == n = 0 /\ line' = <<>> /\ UNCHANGED <<n, now, cs, stamp, toks>>

\* the rule of choose(c1, c2), as far as the comments in p2c.go fix it: the less loaded
\* candidate is returned, except that a candidate that was "not selected for a period
\* of time (forcePick) is forcibly selected".  When both candidates are overdue the
\* comment does not say which one is forced: either may be returned (the code returns
\* the more loaded one, see P2cImpl.tla); on equal loads either may be returned.
Chooses(a, b, ch) ==
  LET o == IF ch = a THEN b ELSE a IN
  /\ ch \in {a, b}
  /\ Overdue(o) => Overdue(ch)                                  \* never a fresh one before an overdue one
  /\ ~Overdue(o) => (Load(ch) <= Load(o) \/ Overdue(ch))        \* never the worse one unless forced

\* the candidate draws of a Pick over n >= 3 connections: up to PickTimes pairs of
\* distinct connections, stopping at the first pair with both members healthy
PairOK(d) == Len(d) = 2 /\ d[1] \in Conns /\ d[2] \in Conns /\ d[1] # d[2]
BothHealthy(d) == Healthy(d[1]) /\ Healthy(d[2])
DrawsOK(ds) ==
  /\ Len(ds) \in 1..PickTimes
  /\ \A i \in 1..Len(ds) : PairOK(ds[i])
  /\ \A i \in 1..(Len(ds) - 1) : ~BothHealthy(ds[i])
  /\ Len(ds) < PickTimes => BothHealthy(ds[Len(ds)])

\* Pick with candidates a, b (a = b = 1 for a single connection) returning ch and
\* the done-callback id
PPick(a, b, ch, id) ==
  /\ n >= 1
  /\ IF n = 1 THEN a = 1 /\ b = 1 /\ ch = 1
     ELSE a \in Conns /\ b \in Conns /\ a # b /\ Chooses(a, b, ch)
  /\ n = 2 => {a, b} = Conns
  /\ \A t \in toks : t.id # id
  /\ cs' = [cs EXCEPT ![ch].pick = now, ![ch].inf = @ + 1, ![ch].req = @ + 1]
  /\ toks' = toks \cup {[id |-> id, c |-> ch, start |-> now]}
  /\ line' = <<>>
  /\ UNCHANGED <<n, now, stamp>>

PPickDrawn(ds, ch, id) ==
  /\ n >= 3
  /\ DrawsOK(ds)
  /\ PPick(ds[Len(ds)][1], ds[Len(ds)][2], ch, id)

\* the statistics line over connection states csv: load and requests since the last line
StatLine(csv) == [c \in Conns |-> <<LoadOf(csv[c].rt, csv[c].inf), csv[c].req>>]

\* the done-callback id is called; ok = the RPC error is nil or acceptable
PDone(id, ok, nl, nr, ns) ==
  \E t \in toks :
    /\ t.id = id
    /\ LET c  == t.c
           td == Max(0, now - cs[c].last)
           sl == Max(0, now - t.start) * LagScale
           ss == IF ok THEN InitSucc ELSE 0
           ol == cs[c].lag
           cs1 == [cs EXCEPT ![c].inf = @ - 1, ![c].last = now, ![c].lag = nl, ![c].rt = nr, ![c].succ = ns]
       IN /\ IF ol = 0 THEN nl = sl /\ ns = ss        \* no history: w = 0
             ELSE MixOK(ol, sl, td, nl) /\ MixOK(cs[c].succ, ss, td, ns)
          /\ RootOK(nl, nr)
          /\ IF now - stamp >= LogIv
               THEN /\ stamp' = now /\ line' = StatLine(cs1)
                    /\ cs' = [x \in Conns |-> [cs1[x] EXCEPT !.req = 0]]
               ELSE stamp' = stamp /\ cs' = cs1 /\ line' = <<>>
    /\ toks' = toks \ {t}
    /\ UNCHANGED <<n, now>>

\* ---- bounded environment (model checking, refinement target) ----
PNextB ==
  \/ \E d \in Advs : PAdvance(d)
  \/ PPickNone
  \/ \E id \in TokIds, ch \in Conns :
       \/ n \in {1, 2} /\ \E a \in Conns, b \in Conns : PPick(a, b, ch, id)
       \* n >= 3: any two distinct connections can be the last draw (both healthy: drawn first;
       \* otherwise: drawn PickTimes times), so \E ds : PPickDrawn(ds, ch, id) is just
       \/ n >= 3 /\ \E a \in Conns, b \in Conns : PPick(a, b, ch, id)
  \/ \E id \in TokIds, ok \in BOOLEAN, nl \in LagVals, nr \in RootVals, ns \in 0..InitSucc :
       PDone(id, ok, nl, nr, ns)

\* the same relation with the free values read off the next state (cheap to evaluate on a given
\* pair of states: used as the refinement target of P2cImpl.tla)
PNextR ==
  \/ \E d \in Advs : PAdvance(d)
  \/ PPickNone
  \/ \E id \in TokIds, ch \in Conns, a \in Conns, b \in Conns : PPick(a, b, ch, id)
  \/ \E t \in toks, ok \in BOOLEAN :
       /\ cs'[t.c].lag \in LagVals /\ cs'[t.c].rt \in RootVals /\ cs'[t.c].succ \in 0..InitSucc
       /\ PDone(t.id, ok, cs'[t.c].lag, cs'[t.c].rt, cs'[t.c].succ)

\* ---- properties ----
TypeOK ==
  /\ n \in Nat /\ now \in Nat /\ stamp \in Nat
  /\ DOMAIN cs = Conns
  /\ \A t \in toks : t.c \in Conns
  /\ line = <<>> \/ DOMAIN line = Conns

\* in-flight conservation: the counter is exactly the number of callbacks not yet
\* called (never negative, back to zero when every request has ended)
Conservation == \A c \in Conns : cs[c].inf = Cardinality(Held(c))
SuccRange    == \A c \in Conns : cs[c].succ \in 0..InitSucc
LagRange     == \A c \in Conns : cs[c].lag >= 0 /\ cs[c].rt >= 1
Stamps       == /\ stamp <= now
                /\ \A c \in Conns : cs[c].pick <= now /\ cs[c].last <= now
                /\ \A t \in toks : t.start <= now /\ cs[t.c].pick >= t.start
ReqCounts    == \A c \in Conns : cs[c].req >= 0
\* a statistics line is written at the instant of the stamp, and the counters it reports are reset
LineAtStamp  == line # <<>> => stamp = now /\ \A c \in Conns : cs[c].req = 0
=============================================================================
