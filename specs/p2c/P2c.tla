-------------------------------- MODULE P2c --------------------------------
(* Extension specification (host property C02): the zRPC client-side balancer
   "p2c_ewma" (zrpc/internal/balancer/p2c/p2c.go), Layer P.

   A picker is built over the n READY sub-connections 1..n.  Per connection it
   keeps the number of requests in flight, two exponentially weighted moving
   averages (latency "lag" and "success"), the instant of the last completion
   and the instant it was last picked.  Pick looks at two candidates and returns
   the less loaded one -- unless the other one has not been picked for more than
   forcePick, then that one is "forcibly selected" (comment in p2c.go).  Every
   successful Pick hands out a done-callback; calling it ends the request:
   in-flight is decremented and both averages move towards the new sample with
   weight w = exp(-td/decayTime) for the old value (td = time since the previous
   completion on that connection; no history -> the sample itself).

   Time is integer (the drivers run the virtual clock timex.VerifNow in whole
   milliseconds); lag is kept in LagScale sub-units of the time unit (ns in the
   real code: LagScale = 1000000).  The floating point of the decay formula is a
   parameter: MixOK(old, sample, td, new) says which new values are acceptable.  *)
EXTENDS Integers, Sequences, FiniteSets, TLC

CONSTANTS
  FP,          \* forcePick
  LogIv,       \* logInterval: statistics are logged and the request counters reset
  InitSucc,    \* initial / full success value (1000)
  Thr,         \* throttleSuccess: healthy iff success > Thr
  Penalty,     \* load reported for a zero product
  PickTimes,   \* number of pick attempts (n >= 3)
  LagScale,
  MixOK(_, _, _, _),   \* MixOK(old, sample, td, new)
  Root(_),             \* floor(sqrt(x))
  \* bounds of the environment, used only by PNextB (model checking / refinement)
  Advs, LagVals, TokIds

VARIABLES
  n,      \* number of ready connections the picker was built over (0: none)
  now,    \* the clock
  cs,     \* cs[c] = [inf, lag, succ, last, pick, req]
  stamp,  \* instant of the last statistics line
  toks    \* done-callbacks handed out and not yet called: [id, c, start]

pvars == <<n, now, cs, stamp, toks>>

Conns == 1..n
FreshConn == [inf |-> 0, lag |-> 0, succ |-> InitSucc, last |-> 0, pick |-> 0, req |-> 0]
Max(a, b) == IF a >= b THEN a ELSE b
Min(a, b) == IF a <= b THEN a ELSE b

LoadOf(lag, inf) == LET l == Root(lag + 1) * (inf + 1) IN IF l = 0 THEN Penalty ELSE l
Load(c)    == LoadOf(cs[c].lag, cs[c].inf)
Healthy(c) == cs[c].succ > Thr
Overdue(c) == now - cs[c].pick > FP
Held(c)    == {t \in toks : t.c = c}

PInitWith(k, t0) ==
  /\ n = k /\ now = t0 /\ stamp = 0 /\ toks = {}
  /\ cs = [c \in 1..k |-> FreshConn]

\* Build(info) over k ready connections at clock t0 (also used as the trace "reset")
PBuild(k, t0) ==
  /\ k >= 0 /\ t0 >= 0
  /\ n' = k /\ now' = t0 /\ stamp' = 0 /\ toks' = {}
  /\ cs' = [c \in 1..k |-> FreshConn]

PAdvance(d) == d >= 0 /\ now' = now + d /\ UNCHANGED <<n, cs, stamp, toks>>

\* Pick on a picker without connections: ErrNoSubConnAvailable, nothing changes
PPickNone == n = 0 /\ UNCHANGED pvars

\* the rule of choose(c1, c2), as far as the comments in p2c.go fix it: the less loaded
\* candidate is returned, except that a candidate that was "not selected for a period
\* of time (forcePick) is forcibly selected".  When both candidates are overdue the
\* comment does not say which one is forced: either may be returned (the code returns
\* the more loaded one, see P2cImpl.tla); on equal loads either may be returned.
Chooses(a, b, ch) ==
  LET o == IF ch = a THEN b ELSE a IN
  /\ ch \in {a, b}
  /\ Overdue(o) => Overdue(ch)                                  \* never a fresh one before an overdue one
  /\ ~Overdue(o) => (Load(ch) <= Load(o) \/ Overdue(ch))        \* never the worse one unless forced

\* the candidate draws of a Pick over n >= 3 connections: up to PickTimes pairs of
\* distinct connections, stopping at the first pair with both members healthy
PairOK(d) == Len(d) = 2 /\ d[1] \in Conns /\ d[2] \in Conns /\ d[1] # d[2]
BothHealthy(d) == Healthy(d[1]) /\ Healthy(d[2])
DrawsOK(ds) ==
  /\ Len(ds) \in 1..PickTimes
  /\ \A i \in 1..Len(ds) : PairOK(ds[i])
  /\ \A i \in 1..(Len(ds) - 1) : ~BothHealthy(ds[i])
  /\ Len(ds) < PickTimes => BothHealthy(ds[Len(ds)])

\* Pick with candidates a, b (a = b = 1 for a single connection) returning ch and
\* the done-callback id
PPick(a, b, ch, id) ==
  /\ n >= 1
  /\ IF n = 1 THEN a = 1 /\ b = 1 /\ ch = 1
     ELSE a \in Conns /\ b \in Conns /\ a # b /\ Chooses(a, b, ch)
  /\ n = 2 => {a, b} = Conns
  /\ \A t \in toks : t.id # id
  /\ cs' = [cs EXCEPT ![ch].pick = now, ![ch].inf = @ + 1, ![ch].req = @ + 1]
  /\ toks' = toks \cup {[id |-> id, c |-> ch, start |-> now]}
  /\ UNCHANGED <<n, now, stamp>>

PPickDrawn(ds, ch, id) ==
  /\ n >= 3
  /\ DrawsOK(ds)
  /\ PPick(ds[Len(ds)][1], ds[Len(ds)][2], ch, id)

\* the done-callback id is called; ok = the RPC error is nil or acceptable
PDone(id, ok, nl, ns) ==
  \E t \in toks :
    /\ t.id = id
    /\ LET c  == t.c
           td == Max(0, now - cs[c].last)
           sl == Max(0, now - t.start) * LagScale
           ss == IF ok THEN InitSucc ELSE 0
           ol == cs[c].lag
           cs1 == [cs EXCEPT ![c].inf = @ - 1, ![c].last = now, ![c].lag = nl, ![c].succ = ns]
       IN /\ IF ol = 0 THEN nl = sl /\ ns = ss        \* no history: w = 0
             ELSE MixOK(ol, sl, td, nl) /\ MixOK(cs[c].succ, ss, td, ns)
          /\ IF now - stamp >= LogIv
               THEN stamp' = now /\ cs' = [x \in Conns |-> [cs1[x] EXCEPT !.req = 0]]
               ELSE stamp' = stamp /\ cs' = cs1
    /\ toks' = toks \ {t}
    /\ UNCHANGED <<n, now>>

\* ---- bounded environment (model checking, refinement target) ----
Seqs(S, k) == UNION {[1..m -> S] : m \in 1..k}
PNextB ==
  \/ \E d \in Advs : PAdvance(d)
  \/ PPickNone
  \/ \E id \in TokIds, ch \in Conns :
       \/ n \in {1, 2} /\ \E a \in Conns, b \in Conns : PPick(a, b, ch, id)
       \/ n >= 3 /\ \E ds \in Seqs({<<a, b>> : a \in Conns, b \in Conns}, PickTimes) : PPickDrawn(ds, ch, id)
  \/ \E id \in TokIds, ok \in BOOLEAN, nl \in LagVals, ns \in 0..InitSucc : PDone(id, ok, nl, ns)

\* ---- properties ----
TypeOK ==
  /\ n \in Nat /\ now \in Nat /\ stamp \in Nat
  /\ DOMAIN cs = Conns
  /\ \A t \in toks : t.c \in Conns

\* in-flight conservation: the counter is exactly the number of callbacks not yet
\* called (never negative, back to zero when every request has ended)
Conservation == \A c \in Conns : cs[c].inf = Cardinality(Held(c))
SuccRange    == \A c \in Conns : cs[c].succ \in 0..InitSucc
LagRange     == \A c \in Conns : cs[c].lag >= 0
Stamps       == /\ stamp <= now
                /\ \A c \in Conns : cs[c].pick <= now /\ cs[c].last <= now
                /\ \A t \in toks : t.start <= now /\ cs[t.c].pick >= t.start
ReqCounts    == \A c \in Conns : cs[c].req >= 0
=============================================================================
