------------------------------ MODULE P2cTrace ------------------------------
(* Trace validation for the extension p2c (sequential recordings): events recorded from the
   real p2cPicker under the virtual clock (whole milliseconds) must be a behaviour of P2c.tla.

   Connections are numbered by their position in p.conns (the order of "case 2" and of the
   statistics line).  Every pick / done event carries the state of every connection as read
   after the call returned:  st[c] = <<inflight, lag, rt, success, last, pick, requests>>
   with lag in microseconds rounded up, rt = floor(sqrt(lag_ns + 1)), last / pick / stamp in ms.

   Randomness: the drivers install their own rand.Source in p.r and log the values it handed
   out during the call ("raw", Int31 values).  Binding assumption: Intn(k) of a value v is
   v mod k (math/rand, v far below 2^31), and a Pick over n >= 3 connections draws a pair of
   distinct candidates as  a = Intn(n), b = Intn(n - 1) skipping a.                          *)
EXTENDS P2c, P2cExp, TraceKit

VARIABLE l
tvars == <<n, now, cs, stamp, toks, line, l>>

E == Trace[l]
IsEvent(e) == l <= Len(Trace) /\ E.e = e /\ l' = l + 1

\* gRPC status codes that count as failures of the connection (zrpc/internal/codes.Acceptable);
\* every other outcome -- no error, any other code, a non-status error -- is a success
Unacceptable == {"DeadlineExceeded", "Internal", "Unavailable", "DataLoss", "Unimplemented", "ResourceExhausted"}

ConnOf(s) == [inf |-> s[1], lag |-> s[2], rt |-> s[3], succ |-> s[4], last |-> s[5], pick |-> s[6], req |-> s[7]]
StOf(ev) == [c \in 1..Len(ev.st) |-> ConnOf(ev.st[c])]
Observed == /\ Len(E.st) = n' /\ cs' = StOf(E) /\ stamp' = E.stamp

\* the pair of candidates drawn from two values of the random source
PairOf(v1, v2) ==
  LET a == (v1 % n) + 1
      x == v2 % (n - 1)
  IN <<a, IF x >= a - 1 THEN x + 2 ELSE x + 1>>
DrawsOf(raw) == [i \in 1..(Len(raw) \div 2) |-> PairOf(raw[2 * i - 1], raw[2 * i])]

TReset == IsEvent("reset") /\ PBuild(E.n, E.t) /\ Observed
TAdv   == IsEvent("adv") /\ PAdvance(E.d)
TNone  == IsEvent("none") /\ PPickNone /\ E.err = TRUE
TPick  ==
  /\ IsEvent("pick")
  /\ E.c \in Conns
  /\ CASE n = 1 -> E.raw = <<>> /\ PPick(1, 1, E.c, E.tok)
       [] n = 2 -> E.raw = <<>> /\ PPick(1, 2, E.c, E.tok)
       [] OTHER -> /\ Len(E.raw) > 0 /\ Len(E.raw) % 2 = 0
                   /\ PPickDrawn(DrawsOf(E.raw), E.c, E.tok)
  /\ Observed
TDone  ==
  /\ IsEvent("done")
  /\ \E t \in toks :
       /\ t.id = E.tok
       /\ Len(E.st) = n
       /\ LET s == ConnOf(E.st[t.c]) IN PDone(E.tok, E.err \notin Unacceptable, s.lag, s.rt, s.succ)
  /\ Observed
  /\ Len(E.line) = (IF line' = <<>> THEN 0 ELSE n)
  /\ \A c \in 1..Len(E.line) : E.line[c] = line'[c]

TInit == PInitWith(0, 0) /\ l = 1
TNext == TReset \/ TAdv \/ TNone \/ TPick \/ TDone
TSpec == TInit /\ [][TNext]_tvars

HW == HighWater(l)
=============================================================================
