SPECIFICATION ISpec
CONSTANTS
  FP = 2
  LogIv = 4
  InitSucc = 2
  Thr = 1
  Penalty = 99
  PickTimes = 3
  LagScale = 1
  MixOK <- MixSmall
  Root <- ISqrtSmall
  Advs = {2}
  LagVals = {0, 1, 2}
  RootVals = {1, 2}
  TokIds = {1, 2}
  N = 2
  T0 = 3
  MaxNow = 5
  MaxOps = 5
  Procs = {1, 2}
  Conc = TRUE
  Variant = "code"
  Emit = FALSE
INVARIANTS IConservation INonNegative IZeroAtRest Envelope IRanges LockOK OneLogger IReqConservation IDrawsLaw
CHECK_DEADLOCK TRUE
