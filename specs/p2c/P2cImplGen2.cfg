SPECIFICATION ISpec
CONSTANTS
  FP = 1
  LogIv = 60
  InitSucc = 1000
  Thr = 500
  Penalty = 99999
  PickTimes = 3
  LagScale = 1
  MixOK <- MixGen
  Root <- ISqrtSmall
  LagVals <- GenLags
  RootVals <- GenRoots
  Advs = {1, 2, 58}
  TokIds = {1, 2}
  N = 2
  T0 = 1
  MaxNow = 66
  MaxOps = 5
  Procs = {1, 2}
  Conc = FALSE
  Variant = "code"
  Emit = TRUE
INVARIANTS PrintHist
VIEW IView
CHECK_DEADLOCK FALSE
