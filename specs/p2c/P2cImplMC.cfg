SPECIFICATION ISpec
CONSTANTS
  FP = 2
  LogIv = 4
  InitSucc = 2
  Thr = 1
  Penalty = 99
  PickTimes = 3
  LagScale = 1
  MixOK <- MixSmall
  Root <- ISqrtSmall
  Advs = {1, 3}
  LagVals = {0, 1, 3}
  RootVals = {1, 2}
  TokIds = {1, 2}
  N = 2
  T0 = 3
  MaxNow = 7
  MaxOps = 6
  Procs = {1, 2}
  Conc = FALSE
  Variant = "code"
  Emit = FALSE
INVARIANTS IConservation INonNegative IZeroAtRest Envelope IRanges LockOK OneLogger IReqConservation IDrawsLaw
PROPERTY AbsSpec
VIEW IView
CHECK_DEADLOCK FALSE
