SPECIFICATION ISpec
CONSTANTS
  FP = 2
  LogIv = 4
  InitSucc = 2
  Thr = 1
  Penalty = 99
  PickTimes = 2
  LagScale = 1
  MixOK <- MixSmall
  Root <- ISqrtSmall
  Advs = {3}
  LagVals = {0, 3}
  RootVals = {1, 2}
  TokIds = {1, 2}
  N = 3
  T0 = 3
  MaxNow = 6
  MaxOps = 5
  Procs = {1}
  Conc = FALSE
  Variant = "code"
  Emit = FALSE
INVARIANTS IConservation INonNegative IZeroAtRest Envelope IRanges LockOK OneLogger IReqConservation IDrawsLaw
PROPERTY AbsSpec
VIEW IView
CHECK_DEADLOCK FALSE
