SPECIFICATION GSpec
CONSTANTS
  FP = 1
  LogIv = 60
  InitSucc = 1000
  Thr = 500
  Penalty = 99999
  PickTimes = 3
  LagScale = 1
  MixOK <- MixGen
  Root <- ISqrtSmall
  LagVals <- GenLags
  RootVals <- GenRoots
  Advs = {1, 2, 30}
  TokIds = {1, 2, 3}
  N = 2
  T0 = 1
  MaxNow = 130
  MaxOps = 14
  Procs = {1, 2, 3}
  Conc = FALSE
  Variant = "code"
  Emit = TRUE
INVARIANTS PrintFinal
CHECK_DEADLOCK FALSE
