------------------------------- MODULE P2cConc -------------------------------
(* What concurrent recordings of the p2c balancer must satisfy (extension p2c, host C02).

   Goroutines call Pick and the done-callbacks in parallel; the drivers log "ps" before
   calling Pick and "pe" after it returned, "ds" before calling a done-callback and "de"
   after it returned; a statistics line is logged by the log writer while logStats still
   holds the picker's mutex; an observer goroutine logs "os", reads the in-flight counters
   one by one, and logs them with "oe".  The clock only moves while nothing is running
   (the drivers advance it between rounds), so every operation of a round sees one instant.

   The choice rule is not linearisable (Pick reads the loads while done-callbacks change
   them) and is not demanded here.  Demanded -- each of these is an invariant of the
   interleaved algorithm in P2cImpl.tla (Conc = TRUE): Envelope, IConservation, IZeroAtRest,
   IReqConservation, OneLogger, IRanges:
     * the in-flight counter of a connection stays inside the envelope of the calls logged
       around the read, and is exactly the number of outstanding requests at rest;
     * every pick is counted in exactly one statistics line or in the counter at rest;
     * statistics lines are at least logInterval apart (one logger per interval), are
       written by a completing request, and a round that completes a request does not end
       more than logInterval after the last line;
     * at rest both averages lie between their previous value and the samples of the round,
       a connection picked (completed) in the round carries the round's instant as its pick
       (last) stamp, the others keep theirs.                                              *)
EXTENDS Integers, Sequences, FiniteSets, TLC

CONSTANTS LogIv, InitSucc, LagScale, RootOK(_, _)

VARIABLES
  n, now,
  pend,     \* goroutines inside Pick
  cnt,      \* cnt[c] = [pe, ds, de]: picks ended / done-callbacks started / ended
  tk,       \* outstanding requests: [id, c, start, closing]
  rep,      \* rep[c]: requests reported in statistics lines
  lastlog,  \* instant of the last statistics line (p.stamp)
  rest,     \* rest[c] = [lag, succ, pick, last]: the connection at the last rest
  hull,     \* hull[c] = [llo, lhi, slo, shi, picked, done, nd]: the round so far (nd: completions started)
  ndone,    \* done-callbacks ended in this round
  osn       \* counters as of the observer's "os" (<<>>: not observing)

cvars == <<n, now, pend, cnt, tk, rep, lastlog, rest, hull, ndone, osn>>

Conns == 1..n
Max(a, b) == IF a >= b THEN a ELSE b
Min(a, b) == IF a <= b THEN a ELSE b
Closing == {t \in tk : t.closing}
AtRest == pend = {} /\ Closing = {}
HullAt(r) == [llo |-> r.lag, lhi |-> r.lag, slo |-> r.succ, shi |-> r.succ, picked |-> FALSE, done |-> FALSE, nd |-> 0]
Fresh == [lag |-> 0, succ |-> InitSucc, pick |-> 0, last |-> 0]

CReset(k, t0) ==
  /\ n' = k /\ now' = t0 /\ pend' = {} /\ tk' = {} /\ lastlog' = 0 /\ ndone' = 0 /\ osn' = <<>>
  /\ cnt' = [c \in 1..k |-> [pe |-> 0, ds |-> 0, de |-> 0]]
  /\ rep' = [c \in 1..k |-> 0]
  /\ rest' = [c \in 1..k |-> Fresh]
  /\ hull' = [c \in 1..k |-> HullAt(Fresh)]

CInit == n = 0 /\ now = 0 /\ pend = {} /\ tk = {} /\ lastlog = 0 /\ ndone = 0 /\ osn = <<>>
         /\ cnt = <<>> /\ rep = <<>> /\ rest = <<>> /\ hull = <<>>

\* the clock moves only at rest
CAdv(d) == AtRest /\ d >= 0 /\ now' = now + d
           /\ UNCHANGED <<n, pend, cnt, tk, rep, lastlog, rest, hull, ndone, osn>>

CPickStart(g) == g \notin pend /\ pend' = pend \cup {g}
                 /\ UNCHANGED <<n, now, cnt, tk, rep, lastlog, rest, hull, ndone, osn>>

CPickEnd(g, c, id) ==
  /\ g \in pend /\ c \in Conns /\ \A t \in tk : t.id # id
  /\ pend' = pend \ {g}
  /\ cnt' = [cnt EXCEPT ![c].pe = @ + 1]
  /\ tk' = tk \cup {[id |-> id, c |-> c, start |-> now, closing |-> FALSE]}
  /\ hull' = [hull EXCEPT ![c].picked = TRUE]
  /\ UNCHANGED <<n, now, rep, lastlog, rest, ndone, osn>>

\* Pick on an empty picker: fails, nothing handed out
CPickNone(g) == g \in pend /\ n = 0 /\ pend' = pend \ {g}
                /\ UNCHANGED <<n, now, cnt, tk, rep, lastlog, rest, hull, ndone, osn>>

CDoneStart(id, ok) ==
  \E t \in tk :
    /\ t.id = id /\ ~t.closing
    /\ tk' = (tk \ {t}) \cup {[t EXCEPT !.closing = TRUE]}
    /\ cnt' = [cnt EXCEPT ![t.c].ds = @ + 1]
    /\ LET sl == Max(0, now - t.start) * LagScale
           ss == IF ok THEN InitSucc ELSE 0
           h == hull[t.c]
       IN hull' = [hull EXCEPT ![t.c] = [h EXCEPT !.llo = Min(@, sl), !.lhi = Max(@, sl),
                                                   !.slo = Min(@, ss), !.shi = Max(@, ss), !.done = TRUE,
                                                   !.nd = @ + 1]]
    /\ UNCHANGED <<n, now, pend, rep, lastlog, rest, ndone, osn>>

CDoneEnd(id) ==
  \E t \in tk :
    /\ t.id = id /\ t.closing
    /\ tk' = tk \ {t}
    /\ cnt' = [cnt EXCEPT ![t.c].de = @ + 1]
    /\ ndone' = ndone + 1
    /\ UNCHANGED <<n, now, pend, rep, lastlog, rest, hull, osn>>

\* a statistics line: ln[c] = <<load, reqs>>
CStat(ln) ==
  /\ now - lastlog >= LogIv            \* at most one line per interval
  /\ Closing # {}                      \* written by a completing request
  /\ Len(ln) = n
  /\ lastlog' = now
  /\ rep' = [c \in Conns |-> rep[c] + ln[c][2]]
  /\ \A c \in Conns :
       /\ ln[c][1] >= 1 /\ ln[c][2] >= 0
       /\ rep'[c] >= cnt[c].pe                          \* a pick that returned before the line is in this or an earlier line
       /\ rep'[c] <= cnt[c].pe + Cardinality(pend)      \* nothing is reported twice
  /\ UNCHANGED <<n, now, pend, cnt, tk, rest, hull, ndone, osn>>

CObsStart == osn = <<>> /\ osn' = cnt
             /\ UNCHANGED <<n, now, pend, cnt, tk, rep, lastlog, rest, hull, ndone>>

\* the observer read infs[c] somewhere between "os" and now
CObsEnd(infs) ==
  /\ osn # <<>> \/ n = 0
  /\ Len(infs) = n
  /\ \A c \in Conns :
       /\ infs[c] >= osn[c].pe - cnt[c].ds
       /\ infs[c] <= cnt[c].pe + Cardinality(pend) - osn[c].de
  /\ osn' = <<>>
  /\ UNCHANGED <<n, now, pend, cnt, tk, rep, lastlog, rest, hull, ndone>>

\* everything has returned; st[c] = [inf, lag, rt, succ, last, pick, req], stp = p.stamp
CQuiet(st, stp) ==
  /\ AtRest /\ osn = <<>>
  /\ DOMAIN st = Conns
  /\ stp = lastlog
  /\ ndone > 0 => now - lastlog < LogIv              \* some completion of the round saw the interval expire
  /\ \A c \in Conns :
       /\ st[c].inf = cnt[c].pe - cnt[c].de                                   \* conservation
       /\ st[c].inf = Cardinality({t \in tk : t.c = c})
       /\ st[c].req + rep[c] = cnt[c].pe                                      \* every pick counted once
       \* every completion stores a convex combination truncated to an integer: up to one unit lost each
       \* (1000 * w + 1000 * (1 - w) may come out as 999.99..)
       /\ st[c].lag >= hull[c].llo - Min(1, hull[c].nd) /\ st[c].lag <= hull[c].lhi
       /\ st[c].succ >= Max(0, hull[c].slo - hull[c].nd) /\ st[c].succ <= hull[c].shi
       /\ RootOK(st[c].lag, st[c].rt)
       /\ st[c].pick = (IF hull[c].picked THEN now ELSE rest[c].pick)
       /\ st[c].last = (IF hull[c].done THEN now ELSE rest[c].last)
       /\ ~hull[c].done => st[c].lag = rest[c].lag /\ st[c].succ = rest[c].succ
  /\ rest' = [c \in Conns |-> [lag |-> st[c].lag, succ |-> st[c].succ, pick |-> st[c].pick, last |-> st[c].last]]
  /\ hull' = [c \in Conns |-> HullAt(rest'[c])]
  /\ ndone' = 0
  /\ UNCHANGED <<n, now, pend, cnt, tk, rep, lastlog, osn>>
=============================================================================
