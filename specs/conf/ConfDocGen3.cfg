SPECIFICATION MCSpec
CONSTANTS
  MaxSize = 3
  ChainSize = 3
  MaxFields = 2
  Schemes = {"U", "L", "M"}
  Leaves = {"int", "i32", "u8", "float", "string", "bool"}
  Emit = TRUE
  KeyMode = "plain"
INVARIANTS PrintCase
CHECK_DEADLOCK FALSE
