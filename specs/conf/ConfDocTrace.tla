---------------------------- MODULE ConfDocTrace ----------------------------
(* Trace validation for C17: what the real loaders answered must be a behaviour of
   ConfDoc.tla.

   reset {ty, env}                     a new case: configuration type, value of $VERIF_C17_VAR
   loads {d, useenv, outs, r}          document d rendered as JSON, YAML and TOML and loaded
                                       (conf.LoadFrom*Bytes, conf.Load on files; with useenv:
                                       conf.Load(..., conf.UseEnv())).  outs = the distinct
                                       answers, r = <<[f, via, o |-> index into outs]>>; a document
                                       TOML cannot express (integer above maxint64) is loaded as
                                       JSON and YAML only (mapt = [v |-> "na"] below)
   mapfmt {d, map, mapy, mapt}         mapping.UnmarshalJsonBytes / YamlBytes / TomlBytes on the
                                       three renderings of d
   plain {d, map, mapy, mapt, std}     the same, plus encoding/json on the JSON rendering   *)
EXTENDS ConfDoc, TraceKit

VARIABLE l
tvars == <<ty, envv, memo, l>>

E == Trace[l]
IsEvent(e) == l <= Len(Trace) /\ E.e = e /\ l' = l + 1

\* every logged result refers to one of the distinct answers, and each answer is used
\* and the document went through exactly the formats that can express it
WellFormed == /\ \A i \in DOMAIN E.r : E.r[i].o \in DOMAIN E.outs
              /\ \A j \in DOMAIN E.outs : \E i \in DOMAIN E.r : E.r[i].o = j
              /\ {E.r[i].f : i \in DOMAIN E.r} = Formats(E.d)

TReset == IsEvent("reset") /\ Reset(E.ty, E.env)
TLoads == IsEvent("loads") /\ WellFormed /\ Loads(E.d, E.useenv, E.outs)
TMapFmt == IsEvent("mapfmt") /\ MapFormats(E.d, E.map, E.mapy, E.mapt)
TPlain == IsEvent("plain") /\ MapFormats(E.d, E.map, E.mapy, E.mapt) /\ Plain(E.d, E.map, E.std)

\* ---- known findings (enabled by the runner only to explain a rejected trace)
Open(id) == id \in OpenFindings
Skip == UNCHANGED <<ty, envv, memo>>
\* which of two spellings of one key is loaded depends on Go's map iteration order
KF_CaseDupKeys ==
  /\ Open("KF_CaseDupKeys") /\ IsEvent("loads") /\ WellFormed
  /\ AnyCollision(ty, Effective(E.d, E.useenv))
  /\ \A i \in DOMAIN E.outs : \/ E.outs[i].v \in {"ok", "err"}
                               \/ (Open("KF_PtrContainer") /\ HasPtrContainer(ty))   \* both at once
  /\ Skip
\* *map[..], *[]T and map[string]*scalar fields cannot be loaded: the unmarshaler panics
\* (reflect) or reports a type mismatch for a document that fits
KF_PtrContainer ==
  /\ Open("KF_PtrContainer") /\ IsEvent("loads") /\ WellFormed
  /\ HasPtrContainer(ty)
  /\ \A i \in DOMAIN E.outs : E.outs[i].v \in {"panic", "err"}
  /\ Skip
\* conf.toLowerCaseKeyMap loses the element type below a nested map: keys of structs in a
\* slice under a map under another container are matched only if already lower-case
KF_NestedContainerCase ==
  /\ Open("KF_NestedContainerCase") /\ IsEvent("loads") /\ WellFormed
  /\ HasBadChain(ty)
  /\ \A i \in DOMAIN E.outs : E.outs[i].v \in {"ok", "err"}
  /\ Skip
\* conf.buildFieldsInfo describes a map below another map or a slice by the field table of
\* the struct its elements reach: a user-chosen key spelled like one of those fields is
\* taken for the field (lower-cased, the entry below it not canonicalised)
KF_DeepMapFieldKey ==
  /\ Open("KF_DeepMapFieldKey") /\ IsEvent("loads") /\ WellFormed
  /\ DeepKeyClash(ty, Effective(E.d, E.useenv))
  /\ \A i \in DOMAIN E.outs : E.outs[i].v \in {"ok", "err"}
  /\ Skip
\* a field key spelled twice: encoding/json folds case and takes the last spelling,
\* mapping.UnmarshalJsonBytes takes the exact one
KF_PlainKeyCase ==
  /\ Open("KF_PlainKeyCase") /\ IsEvent("plain")
  /\ PlainType(ty) /\ AnyCollision(ty, E.d)
  /\ MapFormats(E.d, E.map, E.mapy, E.mapt)
\* mapping.UnmarshalJsonBytes fills a missing map field with an empty map, encoding/json leaves nil
KF_PlainMissingMap ==
  /\ Open("KF_PlainMissingMap") /\ IsEvent("plain")
  /\ PlainType(ty) /\ MissingMapField(ty, E.d)
  /\ MapFormats(E.d, E.map, E.mapy, E.mapt)

TInit == Init /\ l = 1
TNext == TReset \/ TLoads \/ TMapFmt \/ TPlain
         \/ KF_CaseDupKeys \/ KF_PtrContainer \/ KF_NestedContainerCase
         \/ KF_PlainKeyCase \/ KF_PlainMissingMap \/ KF_DeepMapFieldKey
TSpec == TInit /\ [][TNext]_tvars

HW == HighWater(l)
\* position only: events are too wide for the one line the runner parses
CAccepted == IF TLCGet(1) > Len(Trace) THEN TRUE ELSE Print(<<"HW", TLCGet(1)>>, FALSE)
=============================================================================
