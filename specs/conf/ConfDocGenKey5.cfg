SPECIFICATION MCSpec
CONSTANTS
  MaxSize = 2
  ChainSize = 5
  MaxFields = 1
  Schemes = {"M"}
  Leaves = {"int"}
  Emit = TRUE
  KeyMode = "field"
INVARIANTS
  PrintCase RespellLemma NormIdempotent NormKeepsMeaning ExpandLemma RekeyLemma FormatsLemma LoggedLemma GoodFits BadMisfits Loadable
CHECK_DEADLOCK FALSE
