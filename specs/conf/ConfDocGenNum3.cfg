SPECIFICATION MCSpec
CONSTANTS
  MaxSize = 3
  ChainSize = 3
  MaxFields = 2
  Schemes = {"M"}
  Leaves = {"u64", "i64", "u32", "float"}
  Emit = TRUE
  KeyMode = "plain"
INVARIANTS
  PrintCase RespellLemma NormIdempotent NormKeepsMeaning ExpandLemma RekeyLemma FormatsLemma LoggedLemma GoodFits BadMisfits Loadable
CHECK_DEADLOCK FALSE
