SPECIFICATION WSpec
CONSTANTS
  MaxSize = 2
  ChainSize = 1
  MaxFields = 1
  Schemes = {"U"}
  Leaves = {"int"}
  Emit = TRUE
  KeyMode = "plain"
INVARIANTS PrintWitness
CHECK_DEADLOCK FALSE
