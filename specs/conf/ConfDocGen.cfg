SPECIFICATION MCSpec
CONSTANTS
  MaxSize = 3
  ChainSize = 2
  MaxFields = 2
  Schemes = {"U", "L", "M"}
  Leaves = {"int", "float", "string", "bool"}
  Emit = TRUE
  KeyMode = "plain"
INVARIANTS PrintCase
CHECK_DEADLOCK FALSE
