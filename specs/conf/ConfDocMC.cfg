SPECIFICATION MCSpec
CONSTANTS
  MaxSize = 3
  ChainSize = 2
  MaxFields = 2
  Schemes = {"M"}
  Leaves = {"int", "float", "string", "bool"}
  Emit = FALSE
INVARIANTS
  Loadable MemoFunctional RespellLemma NormIdempotent NormKeepsMeaning ExpandLemma LoggedLemma GoodFits BadMisfits
CHECK_DEADLOCK FALSE
