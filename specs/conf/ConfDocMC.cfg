SPECIFICATION MCSpec
CONSTANTS
  MaxSize = 3
  ChainSize = 2
  MaxFields = 2
  Schemes = {"M"}
  Leaves = {"int", "float", "string", "bool"}
  Emit = FALSE
  KeyMode = "plain"
INVARIANTS
  Loadable MemoFunctional RespellLemma NormIdempotent NormKeepsMeaning ExpandLemma RekeyLemma FormatsLemma LoggedLemma GoodFits BadMisfits
CHECK_DEADLOCK FALSE
