SPECIFICATION MCSpec
CONSTANTS
  MaxSize = 2
  ChainSize = 5
  MaxFields = 1
  Schemes = {"M"}
  Leaves = {"int", "string"}
  Emit = TRUE
  KeyMode = "plain"
INVARIANTS PrintCase
CHECK_DEADLOCK FALSE
