SPECIFICATION TSpec
CONSTRAINT HW
POSTCONDITION CAccepted
CHECK_DEADLOCK FALSE
