SPECIFICATION MCSpec
CONSTANTS
  MaxSize = 2
  ChainSize = 2
  MaxFields = 1
  Schemes = {"M"}
  Leaves = {"u64", "i64", "u32"}
  Emit = TRUE
  KeyMode = "plain"
INVARIANTS
  PrintCase RespellLemma NormIdempotent NormKeepsMeaning ExpandLemma RekeyLemma FormatsLemma LoggedLemma GoodFits BadMisfits Loadable
CHECK_DEADLOCK FALSE
