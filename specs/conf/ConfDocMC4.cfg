SPECIFICATION MCSpec
CONSTANTS
  MaxSize = 4
  ChainSize = 4
  MaxFields = 3
  Schemes = {"M"}
  Leaves = {"int", "float", "string", "bool"}
  Emit = TRUE
  KeyMode = "plain"
INVARIANTS
  RespellLemma NormIdempotent NormKeepsMeaning ExpandLemma RekeyLemma FormatsLemma LoggedLemma GoodFits BadMisfits Loadable
CHECK_DEADLOCK FALSE
