------------------------------ MODULE ConfDocMC ------------------------------
(* Bounded family for C17, enumerated exhaustively by TLC:
     * every top-level struct type with at most MaxSize nodes (a node = a leaf, a
       slice/map/pointer constructor or a struct; up to MaxFields fields per struct,
       embedded structs included), plus every single-field struct whose field type has
       at most ChainSize nodes, under each naming scheme (U: no tags, Go names Ab Cd Ef;
       L: lower-case json tags; M: mixed-case json tags aB cD eF);
     * for every type: three covering documents that fit it and every document with
       exactly ONE fault (wrong kind / number out of range / numeric string at a leaf,
       scalar where a container is declared, missing key, unknown key, the same key in
       a second spelling);
     * for every document its lower-case and upper-case respellings and, if it refers
       to ${VAR}, the document with the value written out;
     * KeyMode "field"/"both": the same documents with the user-chosen keys of every map
       renamed to spellings of struct field keys (Rekey: ka -> aB, KA -> AB, Kb -> cD);
     * leaf kinds i64/u32/u64 carry the 64-bit boundary numbers (minint64, maxint64,
       maxint64+1, maxuint64 — decimal strings, TLC integers are 32-bit).
   Used three ways: (1) model checking — the reference meaning is consistent (a loader
   can always answer: Loadable), Norm/Respell/Expand/Decode lemmas; (2) generation — one
   "TRACE {ty, env, docs}" line per (type, document) for the Go driver; (3) the same
   definitions are what ConfDocTrace evaluates on the recorded answers.            *)
EXTENDS ConfDoc, Json

CONSTANTS MaxSize, ChainSize, MaxFields, Schemes, Leaves, Emit, KeyMode
EnvVal == "Zed"

VARIABLES doc,        \* the base document of this case
          wkf         \* witness generation only: the finding a witness stands for
mcvars == <<ty, envv, memo, doc, wkf>>

\* ------------------------------------------------------------------ types by size
Ctors == {"slice", "map", "ptr"}
RECURSIVE RawT(_), RawS(_), RawF(_), FieldSeqs(_, _)
RawT(n) == IF n = 1 THEN {[k |-> lf] : lf \in Leaves}
           ELSE {[k |-> c, t |-> x] : c \in {"slice", "map"}, x \in RawT(n - 1)}
                \cup {[k |-> "ptr", t |-> x] : x \in {y \in RawT(n - 1) : y.k # "ptr"}}
                \cup RawS(n)
RawF(s) == {[e |-> FALSE, t |-> x] : x \in RawT(s)}
           \cup (IF s >= 2 THEN {[e |-> TRUE, t |-> x] : x \in RawS(s)} ELSE {})
FieldSeqs(total, maxlen) ==
  IF maxlen = 0 \/ total <= 0 THEN {}
  ELSE {<<fld>> : fld \in RawF(total)}
       \cup UNION {{<<fld>> \o rest : fld \in RawF(s), rest \in FieldSeqs(total - s, maxlen - 1)} : s \in 1..(total - 1)}
RawS(n) == IF n < 2 THEN {} ELSE {[k |-> "struct", f |-> fs] : fs \in FieldSeqs(n - 1, MaxFields)}

GoNames == <<"Ab", "Cd", "Ef">>
Mixed == ("Ab" :> "aB" @@ "Cd" :> "cD" @@ "Ef" :> "eF")
TagFor(sch, n) == CASE sch = "U" -> "" [] sch = "L" -> Lower(n) [] sch = "M" -> Mixed[n]

\* names by position; the fields of an embedded struct continue the numbering of the
\* embedding field so that promoted names need not clash with the siblings
RECURSIVE NameT(_, _, _)
NameT(T, off, sch) ==
  CASE T.k = "struct" ->
         [k |-> "struct", f |-> [i \in DOMAIN T.f |->
            LET n == GoNames[((off + i - 1) % 3) + 1] IN
            [n |-> n, tag |-> IF T.f[i].e THEN "" ELSE TagFor(sch, n), e |-> T.f[i].e,
             t |-> IF T.f[i].e THEN NameT(T.f[i].t, off + i - 1, sch) ELSE NameT(T.f[i].t, 0, sch)]]]
    [] T.k \in Ctors -> [k |-> T.k, t |-> NameT(T.t, 0, sch)]
    [] OTHER -> T

RECURSIVE AllUnambiguous(_)
AllUnambiguous(T) ==
  CASE T.k = "struct" -> Unambiguous(T) /\ \A i \in DOMAIN T.f : AllUnambiguous(T.f[i].t)
    [] T.k \in Ctors -> AllUnambiguous(T.t)
    [] OTHER -> TRUE

RawTop == UNION {RawS(n) : n \in 2..MaxSize}
          \cup {[k |-> "struct", f |-> <<fld>>] : fld \in UNION {RawF(s) : s \in 1..ChainSize}}
TopTypes == {T \in {NameT(R, 0, sch) : R \in RawTop, sch \in Schemes} : AllUnambiguous(T)}

\* ------------------------------------------------------------------ documents
Num(s) == [k |-> "num", v |-> s]
Str(s) == [k |-> "str", v |-> s]
Boo(b) == [k |-> "bool", b |-> b]
Lst(l) == [k |-> "list", l |-> l]
Map(m) == [k |-> "map", m |-> m]

GoodLeaf(kind) ==
  CASE kind = "int"    -> <<Num("0"), Num("-3"), Num("9007199254740993")>>
    [] kind = "i32"    -> <<Num("7"), Num("-3"), Num("300")>>
    [] kind = "u8"     -> <<Num("0"), Num("7")>>
    [] kind = "u32"    -> <<Num("3000000000"), Num("7"), Num("300")>>
    [] kind = "i64"    -> <<Num("-9223372036854775808"), Num("9223372036854775807"), Num("-3")>>
    [] kind = "u64"    -> <<Num("9223372036854775808"), Num("18446744073709551615"), Num("9223372036854775807"), Num("7")>>
    [] kind = "float"  -> <<Num("1.5"), Num("-3"), Num("0.1")>>
    [] kind = "string" -> <<Str("abc"), Str(EnvRef), Str("12")>>
    [] kind = "bool"   -> <<Boo(TRUE), Boo(FALSE)>>
WrongLeaf(kind) ==
  CASE kind = "int"    -> {Num("-0.25"), Str("12"), Boo(TRUE)}
    [] kind = "i32"    -> {Num("1.5"), Str("12"), Num("3000000000")}
    [] kind = "u8"     -> {Num("300"), Num("-3"), Str("12")}
    [] kind = "u32"    -> {Num("9007199254740993"), Num("-3"), Num("1.5")}
    [] kind = "i64"    -> {Num("9223372036854775808"), Num("0.1"), Str("12")}
    [] kind = "u64"    -> {Num("-3"), Num("1.5"), Str("12")}
    [] kind = "float"  -> {Str("12"), Boo(TRUE), Num("9007199254740993")}
    [] kind = "string" -> {Num("7"), Boo(TRUE)}
    [] kind = "bool"   -> {Str("true"), Num("0")}

RECURSIVE Good(_, _), FlatDoc(_, _)
Good(T, j) ==
  CASE T.k \in LeafKinds -> LET s == GoodLeaf(T.k) IN s[(j % Len(s)) + 1]
    [] T.k = "ptr"   -> Good(T.t, j)
    [] T.k = "slice" -> CASE j % 3 = 0 -> Lst(<<Good(T.t, 0), Good(T.t, 1)>>)
                          [] j % 3 = 1 -> Lst(<<Good(T.t, 2)>>)
                          [] OTHER     -> Lst(<<>>)
    [] T.k = "map"   -> CASE j % 3 = 0 -> Map(<<[key |-> "ka", v |-> Good(T.t, 0)], [key |-> "Kb", v |-> Good(T.t, 1)]>>)
                          [] j % 3 = 1 -> Map(<<[key |-> "ka", v |-> Good(T.t, 1)], [key |-> "KA", v |-> Good(T.t, 2)]>>)
                          [] OTHER     -> Map(<<>>)
    [] T.k = "struct" -> Map(FlatDoc(T, j))
FlatDoc(T, j) == Concat([i \in DOMAIN T.f |->
                   IF T.f[i].e THEN FlatDoc(T.f[i].t, j + i - 1)
                   ELSE << [key |-> KeyOf(T.f[i]), v |-> Good(T.f[i].t, j + i - 1)] >>])

RemoveAt(s, i) == SubSeq(s, 1, i - 1) \o SubSeq(s, i + 1, Len(s))
AltSpelling(key) == IF Upper(key) # key THEN Upper(key) ELSE Lower(key)

RECURSIVE Bad(_), StructBad(_)
StructBad(T) ==
  LET m == FlatDoc(T, 0) IN
       {Map(RemoveAt(m, i)) : i \in DOMAIN m}
  \cup {Map(Append(m, [key |-> "zz", v |-> Num("7")]))}
  \cup {Map(Append(m, [key |-> AltSpelling(m[i].key), v |-> Good(FieldType(T, Lower(m[i].key)), 1)])) : i \in DOMAIN m}
  \cup UNION {{Map([m EXCEPT ![i].v = b]) : b \in Bad(FieldType(T, Lower(m[i].key)))} : i \in DOMAIN m}
Bad(T) ==
  CASE T.k \in LeafKinds -> WrongLeaf(T.k)
    [] T.k = "ptr"    -> Bad(T.t)
    [] T.k = "slice"  -> {Num("7"), Map(<<[key |-> "ka", v |-> Num("7")]>>)}
                         \cup {Lst(<<Good(T.t, 0), b>>) : b \in Bad(T.t)}
    [] T.k = "map"    -> {Num("7"), Lst(<<Num("7")>>)}
                         \cup {Map(<<[key |-> "ka", v |-> b]>>) : b \in Bad(T.t)}
    [] T.k = "struct" -> {Num("7"), Lst(<<Num("7")>>)} \cup StructBad(T)

\* Keys of a map[string]T are data chosen by the user: any string, in particular one that
\* spells (in whatever case) a field of the element struct or of an enclosing struct.
\* Rekey renames the user keys of every map-typed position to strings from the pool of
\* field keys (distinct keys stay distinct; keys that name struct fields are untouched).
KeyAlt == ("ka" :> "aB" @@ "KA" :> "AB" @@ "Kb" :> "cD")
RECURSIVE Rekey(_, _)
Rekey(T, D) ==
  CASE T.k = "struct" /\ D.k = "map" ->
         IF ~Unambiguous(T) THEN D
         ELSE Map([i \in DOMAIN D.m |->
                 LET lk == Lower(D.m[i].key) IN
                 IF lk \in LKeys(T) THEN [key |-> D.m[i].key, v |-> Rekey(FieldType(T, lk), D.m[i].v)]
                 ELSE D.m[i]])
    [] T.k = "slice" /\ D.k = "list" -> Lst([i \in DOMAIN D.l |-> Rekey(T.t, D.l[i])])
    [] T.k = "map" /\ D.k = "map" ->
         Map([i \in DOMAIN D.m |->
                [key |-> IF D.m[i].key \in DOMAIN KeyAlt THEN KeyAlt[D.m[i].key] ELSE D.m[i].key,
                 v |-> Rekey(T.t, D.m[i].v)]])
    [] T.k = "ptr" -> Rekey(T.t, D)
    [] OTHER -> D
\* the same renaming on a value tree in reference form (maps are sets of entries)
RECURSIVE RekeyVal(_)
RekeyVal(V) ==
  CASE V.k = "ptr"    -> IF V.nil THEN V ELSE [k |-> "ptr", nil |-> FALSE, v |-> RekeyVal(V.v)]
    [] V.k = "slice"  -> [k |-> "slice", l |-> [i \in DOMAIN V.l |-> RekeyVal(V.l[i])]]
    [] V.k = "map"    -> [k |-> "map", m |-> {[key |-> IF e.key \in DOMAIN KeyAlt THEN KeyAlt[e.key] ELSE e.key,
                                                v |-> RekeyVal(e.v)] : e \in V.m}]
    [] V.k = "struct" -> [k |-> "struct", f |-> [i \in DOMAIN V.f |-> [n |-> V.f[i].n, v |-> RekeyVal(V.f[i].v)]]]
    [] OTHER -> V

\* top level is always a table (TOML).  KeyMode: "plain" = user map keys from their own
\* pool (ka, Kb, KA), "field" = only the documents whose user map keys were renamed to
\* field-key spellings, "both".
PlainDocs(T) == {Good(T, j) : j \in 0..2} \cup StructBad(T)
FieldKeyDocs(T) == {Rekey(T, D) : D \in PlainDocs(T)} \ PlainDocs(T)
BaseDocs(T) == CASE KeyMode = "plain" -> PlainDocs(T)
                 [] KeyMode = "field" -> FieldKeyDocs(T)
                 [] KeyMode = "both"  -> PlainDocs(T) \cup FieldKeyDocs(T)

RECURSIVE Dedup(_)
Dedup(s) == IF s = <<>> THEN <<>>
            ELSE LET r == Dedup(Tail(s)) IN IF Head(s) \in Range(r) THEN r ELSE <<Head(s)>> \o r
Variants(T, D) ==
  Dedup(<<D, Respell(T, D, "lower"), Respell(T, D, "upper")>>
        \o (IF HasRef(D) THEN <<Expand(D, EnvVal)>> ELSE <<>>))

\* ------------------------------------------------------------------ the machine on the family
\* a value in the logged shape for a fitting document (map entries in document order)
RECURSIVE Logged(_, _)
Logged(T, D) ==
  CASE T.k \in IntKinds -> [k |-> "int", v |-> D.v]
    [] T.k = "float"  -> [k |-> "float", v |-> NumTab[D.v].fx]
    [] T.k = "string" -> [k |-> "str", v |-> D.v]
    [] T.k = "bool"   -> [k |-> "bool", b |-> D.b]
    [] T.k = "ptr"    -> [k |-> "ptr", nil |-> FALSE, v |-> Logged(T.t, D)]   \* (RefForm forgets pointers to nothing)
    [] T.k = "slice"  -> [k |-> "slice", nil |-> FALSE, l |-> [i \in DOMAIN D.l |-> Logged(T.t, D.l[i])]]
    [] T.k = "map"    -> [k |-> "map", nil |-> FALSE, m |-> [i \in DOMAIN D.m |-> [key |-> D.m[i].key, v |-> Logged(T.t, D.m[i].v)]]]
    [] T.k = "struct" ->
         [k |-> "struct", f |-> [i \in DOMAIN T.f |->
            [n |-> T.f[i].n,
             v |-> IF T.f[i].e THEN Logged(T.f[i].t, D)
                   ELSE LET j == CHOOSE j \in Spelled(D.m, Lower(KeyOf(T.f[i]))) : TRUE
                        IN Logged(T.f[i].t, D.m[j].v)]]]

TokA == [k |-> "str", v |-> "?a"]
TokB == [k |-> "str", v |-> "?b"]
Cand(ED) == {[v |-> "err"], [v |-> "ok", val |-> TokA], [v |-> "ok", val |-> TokB]}
            \cup (IF Fits(ty, ED) THEN {[v |-> "ok", val |-> Logged(ty, ED)]} ELSE {})

MCInit == \E T \in TopTypes : \E D \in BaseDocs(T) : ty = T /\ envv = EnvVal /\ memo = {} /\ doc = D /\ wkf = ""
MCNext == /\ ~Emit
          /\ \E V \in Range(Variants(ty, doc)), u \in BOOLEAN :
               \E o \in Cand(Effective(V, u)) : Loads(V, u, <<o, o>>)
          /\ UNCHANGED <<doc, wkf>>
MCSpec == MCInit /\ [][MCNext]_mcvars

\* --- design-level properties
\* whatever has been answered so far, every document of the case can still be answered:
\* the fixed meaning and the agreement requirement never contradict each other
Loadable == \A V \in Range(Variants(ty, doc)), u \in BOOLEAN :
              \E o \in Cand(Effective(V, u)) : Admissible(Effective(V, u), o)
\* (answers are independent constraints: consistency is a pairwise matter, so the quick
\*  configuration stops after the first answer of a case)
OneAnswer == Cardinality(memo) <= 1
MemoFunctional == \A p, q \in memo : p[1] = q[1] => p[2] = q[2]
\* respelling does not change the normal form, whether the document fits, or what it decodes to
RespellLemma == memo = {} => \A mode \in {"lower", "upper"} :
                  LET R == Respell(ty, doc, mode) IN
                  /\ Norm(ty, R) = Norm(ty, doc)
                  /\ Fits(ty, R) = Fits(ty, doc)
                  /\ Fits(ty, doc) => Decode(ty, R) = Decode(ty, doc)
NormIdempotent == memo = {} => Norm(ty, Norm(ty, doc)) = Norm(ty, doc)
NormKeepsMeaning == memo = {} => /\ Fits(ty, Norm(ty, doc)) = Fits(ty, doc)
                                 /\ Fits(ty, doc) => Decode(ty, Norm(ty, doc)) = Decode(ty, doc)
ExpandLemma == memo = {} => /\ ~HasRef(doc) => Expand(doc, EnvVal) = doc
                            /\ ~HasRef(Expand(doc, EnvVal))
                            /\ Fits(ty, Expand(doc, EnvVal)) = Fits(ty, doc)
\* user map keys are data: renaming them commutes with normalisation, does not change
\* whether the document fits, and shows in the decoded value as exactly that renaming
RekeyLemma == memo = {} => LET R == Rekey(ty, doc) IN
                /\ Norm(ty, R) = Rekey(ty, Norm(ty, doc))
                /\ Fits(ty, R) = Fits(ty, doc)
                /\ Fits(ty, doc) => Decode(ty, R) = RekeyVal(Decode(ty, doc))
\* a document is loaded in at least JSON and YAML; one that fits a type without 64-bit
\* unsigned leaves is expressible in all three formats
FormatsLemma == memo = {} => /\ {"json", "yaml"} \subseteq Formats(doc)
                             /\ TomlOK(Expand(doc, EnvVal)) = TomlOK(doc)
                             /\ \A mode \in {"lower", "upper"} : TomlOK(Respell(ty, doc, mode)) = TomlOK(doc)
LoggedLemma == memo = {} /\ Fits(ty, doc) => RefForm(Logged(ty, doc)) = Decode(ty, doc)
\* the family is not degenerate
GoodFits == memo = {} => \A j \in 0..2 : Fits(ty, Good(ty, j))
BadMisfits == memo = {} => \A D \in StructBad(ty) : ~Fits(ty, D)

\* --- generation: one line per (type, document); every document is labelled with the
\* known-finding shapes it has (the runner keeps the shapes of OPEN findings out of the
\* bulk and validates a few of them separately, so that the finding stays visible)
Shapes(T, D) ==
       (IF HasPtrContainer(T) THEN {"KF_PtrContainer"} ELSE {})
  \cup (IF HasBadChain(T) THEN {"KF_NestedContainerCase"} ELSE {})
  \cup (IF AnyCollision(T, D) THEN {"KF_CaseDupKeys"} ELSE {})
  \cup (IF DeepKeyClash(T, D) THEN {"KF_DeepMapFieldKey"} ELSE {})
  \cup (IF PlainType(T) /\ AnyCollision(T, D) THEN {"KF_PlainKeyCase"} ELSE {})
  \cup (IF PlainType(T) /\ MissingMapField(T, D) THEN {"KF_PlainMissingMap"} ELSE {})
Labelled(T, ds) == [i \in DOMAIN ds |-> [d |-> ds[i], s |-> Shapes(T, ds[i])]]
PrintCase == (Emit /\ memo = {}) =>
               PrintT("TRACE " \o ToJson([ty |-> ty, env |-> envv, docs |-> Labelled(ty, Variants(ty, doc))]))

\* --- witnesses of the known findings: concrete members of the family on which each
\* finding is known to show (printed by ConfDocWit.cfg; the runner validates those whose
\* finding is open on their own, so that the finding is reported and bounded in cost)
Fld(n, tag, t) == [n |-> n, tag |-> tag, e |-> FALSE, t |-> t]
S1(tag, t) == [k |-> "struct", f |-> <<Fld("Ab", tag, t)>>]
Lf(k) == [k |-> k]
Of(c, t) == [k |-> c, t |-> t]
Ent(key, v) == [key |-> key, v |-> v]
WitnessSet ==
  { \* *map, map of *scalar, *slice
    [kf |-> "KF_PtrContainer", ty |-> S1("ab", Of("ptr", Of("map", Lf("int")))),
     doc |-> Map(<<Ent("ab", Map(<<Ent("ka", Num("0"))>>))>>)],
    [kf |-> "KF_PtrContainer", ty |-> S1("ab", Of("map", Of("ptr", Lf("int")))),
     doc |-> Map(<<Ent("ab", Map(<<Ent("ka", Num("0"))>>))>>)],
    [kf |-> "KF_PtrContainer", ty |-> S1("ab", Of("ptr", Of("slice", Lf("int")))),
     doc |-> Map(<<Ent("ab", Lst(<<Num("7")>>))>>)],
    \* which spelling wins depends on map iteration order (shows at random)
    [kf |-> "KF_CaseDupKeys", ty |-> S1("aB", Lf("int")),
     doc |-> Map(<<Ent("aB", Num("0")), Ent("AB", Num("-3"))>>)],
    [kf |-> "KF_CaseDupKeys", ty |-> S1("", Lf("string")),
     doc |-> Map(<<Ent("Ab", Str("abc")), Ent("AB", Str("12"))>>)],
    \* map of map of slice of struct: the exactly spelled document is refused
    [kf |-> "KF_NestedContainerCase",
     ty |-> S1("aB", Of("map", Of("map", Of("slice", S1("aB", Lf("int")))))),
     doc |-> Map(<<Ent("aB", Map(<<Ent("ka", Map(<<Ent("ka", Lst(<<Map(<<Ent("aB", Num("0"))>>)>>))>>))>>))>>)],
    \* map of map of struct, slice of map of struct: an entry keyed like a field of the struct
    [kf |-> "KF_DeepMapFieldKey",
     ty |-> S1("aB", Of("map", Of("map", S1("aB", Lf("int"))))),
     doc |-> Map(<<Ent("aB", Map(<<Ent("ka", Map(<<Ent("aB", Map(<<Ent("aB", Num("0"))>>))>>))>>))>>)],
    [kf |-> "KF_DeepMapFieldKey",
     ty |-> S1("", Of("slice", Of("map", S1("", Lf("int"))))),
     doc |-> Map(<<Ent("Ab", Lst(<<Map(<<Ent("AB", Map(<<Ent("Ab", Num("7"))>>))>>)>>))>>)],
    \* a missing map field: empty map (mapping) against nil (encoding/json)
    [kf |-> "KF_PlainMissingMap", ty |-> S1("ab", Of("map", Lf("int"))), doc |-> Map(<<>>)],
    [kf |-> "KF_PlainMissingMap", ty |-> S1("aB", Of("map", Lf("int"))),
     doc |-> Map(<<Ent("ab", Map(<<Ent("ka", Num("0"))>>))>>)],
    \* a second, folded spelling after the exact key: encoding/json takes the last one
    [kf |-> "KF_PlainKeyCase", ty |-> S1("aB", Lf("int")),
     doc |-> Map(<<Ent("aB", Num("0")), Ent("ab", Num("-3"))>>)] }
WInit == \E w \in WitnessSet : ty = w.ty /\ envv = EnvVal /\ memo = {} /\ doc = w.doc /\ wkf = w.kf
WSpec == WInit /\ [][FALSE]_mcvars
PrintWitness == PrintT("TRACE " \o ToJson([kf |-> wkf, ty |-> ty, env |-> envv, docs |-> Labelled(ty, <<doc>>)]))
=============================================================================
