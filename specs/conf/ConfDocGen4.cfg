SPECIFICATION MCSpec
CONSTANTS
  MaxSize = 4
  ChainSize = 4
  MaxFields = 3
  Schemes = {"U", "M"}
  Leaves = {"int", "float", "string", "bool"}
  Emit = TRUE
  KeyMode = "plain"
INVARIANTS PrintCase
CHECK_DEADLOCK FALSE
