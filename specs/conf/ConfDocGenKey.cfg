SPECIFICATION MCSpec
CONSTANTS
  MaxSize = 3
  ChainSize = 4
  MaxFields = 2
  Schemes = {"U", "M"}
  Leaves = {"int"}
  Emit = TRUE
  KeyMode = "field"
INVARIANTS
  PrintCase RespellLemma NormIdempotent NormKeepsMeaning ExpandLemma RekeyLemma FormatsLemma LoggedLemma GoodFits BadMisfits Loadable
CHECK_DEADLOCK FALSE
