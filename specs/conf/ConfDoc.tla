------------------------------- MODULE ConfDoc -------------------------------
(* C17 — configuration loading is format-independent, matches keys without regard to
   case, expands environment variables only on request, and (plain-tag types) agrees
   with encoding/json whenever both accept.

   The property is RELATIONAL.  This module therefore contains
     * an abstract syntax of configuration TYPES and DOCUMENTS (the family the property
       quantifies over) — records, so that TLC can enumerate them and read them from a
       recorded trace;
     * the little meaning the statement fixes:
         - Norm:    two documents that differ only in the spelling (case) of keys that
                    name struct fields are the same document;
         - Expand:  with UseEnv the reference ${VAR} denotes the value of VAR, without
                    it the text stays as written;
         - Fits/Decode: a document that supplies exactly one value of exactly the
                    declared kind for every field (keys compared without case) loads,
                    and the loaded value holds the document's values;
         - map keys: the keys of a map[string]T are data chosen by the user; whatever they
                    spell (a field key of the element or of an enclosing struct included)
                    they are kept exactly as written (Norm and Decode never touch them);
         - Formats: a document is loaded in exactly the formats that can express it (an
                    integer above maxint64 has no TOML form: JSON and YAML only);
       everything else (wrong kinds, missing / unknown / doubly-spelled keys, numbers
       out of range, numeric strings ...) is left OPEN: the statement only demands that
       every format gives the same answer;
     * the state machine: a memo of answers already given; action Loads admits an
       answer only if it is the one fixed above (when fixed) and equals every earlier
       answer to the same normalised effective document, in whatever format, through
       whatever entry point; action Plain compares mapping.UnmarshalJsonBytes with
       encoding/json; action MapFormats (beyond the listed property) makes the mapping
       package's own JSON / YAML / TOML entry points agree.

   Shapes (also the JSON the Go driver logs):
     type   [k |-> "int"|"i64"|"i32"|"u8"|"u32"|"u64"|"float"|"string"|"bool"]
            [k |-> "slice"|"map"|"ptr", t |-> type]
            [k |-> "struct", f |-> << [n |-> GoName, tag |-> jsonTagOr"", e |-> embedded?, t |-> type] ... >>]
     doc    [k |-> "num", v |-> decimal string]   [k |-> "str", v |-> string]   [k |-> "bool", b |-> BOOLEAN]
            [k |-> "list", l |-> <<doc...>>]      [k |-> "map", m |-> << [key |-> string, v |-> doc] ... >>]  (keys distinct)
     value  [k |-> "int"|"float"|"str", v |-> string]  [k |-> "bool", b |-> BOOLEAN]
            [k |-> "ptr", nil |-> TRUE]  [k |-> "ptr", nil |-> FALSE, v |-> value]
            [k |-> "slice", nil |-> BOOLEAN, l |-> <<value...>>]
            [k |-> "map", nil |-> BOOLEAN, m |-> << [key, v] ... >>]   (sorted by key by the driver)
            [k |-> "struct", f |-> << [n |-> GoName, v |-> value] ... >>]
     outcome [v |-> "ok", val |-> value]  or  [v |-> "err"]  (a "panic" is not a verdict)     *)
EXTENDS Integers, Sequences, FiniteSets, TLC

\* ------------------------------------------------------------------ string tables
\* TLC has no case conversion on strings: every key that may occur is listed here.
LowerTab ==
  ( "ab" :> "ab" @@ "Ab" :> "ab" @@ "aB" :> "ab" @@ "AB" :> "ab" @@
    "cd" :> "cd" @@ "Cd" :> "cd" @@ "cD" :> "cd" @@ "CD" :> "cd" @@
    "ef" :> "ef" @@ "Ef" :> "ef" @@ "eF" :> "ef" @@ "EF" :> "ef" @@
    "zz" :> "zz" @@ "Zz" :> "zz" @@ "ZZ" :> "zz" @@
    "ka" :> "ka" @@ "KA" :> "ka" @@ "Ka" :> "ka" @@
    "kb" :> "kb" @@ "KB" :> "kb" @@ "Kb" :> "kb" )
UpperTab ==
  ( "ab" :> "AB" @@ "cd" :> "CD" @@ "ef" :> "EF" @@ "zz" :> "ZZ" @@ "ka" :> "KA" @@ "kb" :> "KB" )
Lower(s) == LowerTab[s]          \* strict: an unknown key is a broken harness, not a verdict
Upper(s) == UpperTab[LowerTab[s]]

\* the reference to the environment variable the driver sets, as written in documents
EnvRef == "${VERIF_C17_VAR}"

\* numbers that occur in documents: which integer kinds hold them, the decimal spelling
\* of the float64 they denote exactly ("" = not exactly representable), and whether TOML
\* can express them (TOML integers are 64-bit signed).  TLC integers are 32-bit: numbers
\* are decimal STRINGS everywhere (the driver renders the literal); the 64-bit boundary
\* classes are  minint64 = -9223372036854775808, maxint64 = 9223372036854775807,
\* over_maxint64 = 9223372036854775808 (= 2^63), maxuint64 = 18446744073709551615
NumRow(int, i32, u8, u32, u64, fx, toml) ==
  [int |-> int, i64 |-> int, i32 |-> i32, u8 |-> u8, u32 |-> u32, u64 |-> u64, fx |-> fx, toml |-> toml]
NumTab ==
  ( "0"                    :> NumRow(TRUE,  TRUE,  TRUE,  TRUE,  TRUE,  "0", TRUE) @@
    "7"                    :> NumRow(TRUE,  TRUE,  TRUE,  TRUE,  TRUE,  "7", TRUE) @@
    "-3"                   :> NumRow(TRUE,  TRUE,  FALSE, FALSE, FALSE, "-3", TRUE) @@
    "300"                  :> NumRow(TRUE,  TRUE,  FALSE, TRUE,  TRUE,  "300", TRUE) @@
    "3000000000"           :> NumRow(TRUE,  FALSE, FALSE, TRUE,  TRUE,  "3000000000", TRUE) @@
    "9007199254740993"     :> NumRow(TRUE,  FALSE, FALSE, FALSE, TRUE,  "", TRUE) @@
    "-9223372036854775808" :> NumRow(TRUE,  FALSE, FALSE, FALSE, FALSE, "-9223372036854775808", TRUE) @@
    "9223372036854775807"  :> NumRow(TRUE,  FALSE, FALSE, FALSE, TRUE,  "", TRUE) @@
    "9223372036854775808"  :> NumRow(FALSE, FALSE, FALSE, FALSE, TRUE,  "9223372036854775808", FALSE) @@
    "18446744073709551615" :> NumRow(FALSE, FALSE, FALSE, FALSE, TRUE,  "", FALSE) @@
    "1.5"                  :> NumRow(FALSE, FALSE, FALSE, FALSE, FALSE, "1.5", TRUE) @@
    "-0.25"                :> NumRow(FALSE, FALSE, FALSE, FALSE, FALSE, "-0.25", TRUE) @@
    "0.1"                  :> NumRow(FALSE, FALSE, FALSE, FALSE, FALSE, "0.1", TRUE) )      \* shortest decimal of the float64

IntKinds  == {"int", "i64", "i32", "u8", "u32", "u64"}
LeafKinds == IntKinds \cup {"float", "string", "bool"}

\* ------------------------------------------------------------------ helpers
Range(s) == {s[i] : i \in DOMAIN s}

RECURSIVE Concat(_)
Concat(ss) == IF ss = <<>> THEN <<>> ELSE Head(ss) \o Concat(Tail(ss))

KeyOf(fld) == IF fld.tag # "" THEN fld.tag ELSE fld.n

\* the fields a struct is matched against: embedded structs are flattened
RECURSIVE Flat(_)
Flat(T) == Concat([i \in DOMAIN T.f |->
              IF T.f[i].e THEN Flat(T.f[i].t)
              ELSE << [lk |-> Lower(KeyOf(T.f[i])), key |-> KeyOf(T.f[i]), t |-> T.f[i].t] >>])

LKeys(T) == {x.lk : x \in Range(Flat(T))}
\* no two (promoted) fields answer to the same key
Unambiguous(T) == Cardinality(LKeys(T)) = Len(Flat(T))
FieldType(T, lk) == (CHOOSE x \in Range(Flat(T)) : x.lk = lk).t

\* document map m: entries whose key spells lk
Spelled(m, lk) == {i \in DOMAIN m : Lower(m[i].key) = lk}
\* two spellings of one field key in the same map: which one counts is nowhere stated
Collides(T, D) == \E lk \in LKeys(T) : Cardinality(Spelled(D.m, lk)) > 1

\* ------------------------------------------------------------------ Norm: key case is immaterial
RECURSIVE Norm(_, _)
Norm(T, D) ==
  CASE T.k = "struct" /\ D.k = "map" ->
         IF ~Unambiguous(T) \/ Collides(T, D) THEN D
         ELSE [k |-> "map", m |-> [i \in DOMAIN D.m |->
                 LET lk == Lower(D.m[i].key) IN
                 IF lk \in LKeys(T) THEN [key |-> lk, v |-> Norm(FieldType(T, lk), D.m[i].v)]
                 ELSE D.m[i]]]
    [] T.k = "slice" /\ D.k = "list" -> [k |-> "list", l |-> [i \in DOMAIN D.l |-> Norm(T.t, D.l[i])]]
    [] T.k = "map" /\ D.k = "map" ->
         [k |-> "map", m |-> [i \in DOMAIN D.m |-> [key |-> D.m[i].key, v |-> Norm(T.t, D.m[i].v)]]]
    [] T.k = "ptr" -> Norm(T.t, D)
    [] OTHER -> D

\* the same document with field keys spelled otherwise (used by the generator and by lemmas)
RECURSIVE Respell(_, _, _)
Respell(T, D, mode) ==
  CASE T.k = "struct" /\ D.k = "map" ->
         IF ~Unambiguous(T) \/ Collides(T, D) THEN D
         ELSE [k |-> "map", m |-> [i \in DOMAIN D.m |->
                 LET lk == Lower(D.m[i].key) IN
                 IF lk \in LKeys(T)
                   THEN [key |-> IF mode = "upper" THEN Upper(lk) ELSE lk,
                         v |-> Respell(FieldType(T, lk), D.m[i].v, mode)]
                 ELSE D.m[i]]]
    [] T.k = "slice" /\ D.k = "list" -> [k |-> "list", l |-> [i \in DOMAIN D.l |-> Respell(T.t, D.l[i], mode)]]
    [] T.k = "map" /\ D.k = "map" ->
         [k |-> "map", m |-> [i \in DOMAIN D.m |-> [key |-> D.m[i].key, v |-> Respell(T.t, D.m[i].v, mode)]]]
    [] T.k = "ptr" -> Respell(T.t, D, mode)
    [] OTHER -> D

\* ------------------------------------------------------------------ Expand: ${VAR} with UseEnv
RECURSIVE Expand(_, _)
Expand(D, val) ==
  CASE D.k = "str"  -> IF D.v = EnvRef THEN [k |-> "str", v |-> val] ELSE D
    [] D.k = "list" -> [k |-> "list", l |-> [i \in DOMAIN D.l |-> Expand(D.l[i], val)]]
    [] D.k = "map"  -> [k |-> "map", m |-> [i \in DOMAIN D.m |-> [key |-> D.m[i].key, v |-> Expand(D.m[i].v, val)]]]
    [] OTHER -> D

RECURSIVE HasRef(_)
HasRef(D) ==
  CASE D.k = "str"  -> D.v = EnvRef
    [] D.k = "list" -> \E i \in DOMAIN D.l : HasRef(D.l[i])
    [] D.k = "map"  -> \E i \in DOMAIN D.m : HasRef(D.m[i].v)
    [] OTHER -> FALSE

\* ------------------------------------------------------------------ which formats can express a document
\* JSON and YAML (yaml.v2) express every document of the family; TOML has no integer
\* above maxint64.  A document is loaded in exactly the formats that can express it (the
\* statement quantifies over "the same document rendered as JSON, YAML or TOML").
RECURSIVE TomlOK(_)
TomlOK(D) ==
  CASE D.k = "num"  -> NumTab[D.v].toml
    [] D.k = "list" -> \A i \in DOMAIN D.l : TomlOK(D.l[i])
    [] D.k = "map"  -> \A i \in DOMAIN D.m : TomlOK(D.m[i].v)
    [] OTHER -> TRUE
Formats(D) == IF TomlOK(D) THEN {"json", "yaml", "toml"} ELSE {"json", "yaml"}

\* ------------------------------------------------------------------ Fits / Decode: where the meaning is fixed
RECURSIVE Fits(_, _)
Fits(T, D) ==
  CASE T.k \in IntKinds -> D.k = "num" /\ NumTab[D.v][T.k]
    [] T.k = "float"  -> D.k = "num" /\ NumTab[D.v].fx # ""
    [] T.k = "string" -> D.k = "str"
    [] T.k = "bool"   -> D.k = "bool"
    [] T.k = "ptr"    -> Fits(T.t, D)
    [] T.k = "slice"  -> D.k = "list" /\ \A i \in DOMAIN D.l : Fits(T.t, D.l[i])
    [] T.k = "map"    -> D.k = "map" /\ \A i \in DOMAIN D.m : Fits(T.t, D.m[i].v)
    [] T.k = "struct" ->
         /\ D.k = "map"
         /\ Unambiguous(T)
         /\ \A lk \in LKeys(T) : Cardinality(Spelled(D.m, lk)) = 1            \* every field, one spelling
         /\ \A i \in DOMAIN D.m : Lower(D.m[i].key) \in LKeys(T)               \* nothing else
         /\ \A i \in DOMAIN D.m : Fits(FieldType(T, Lower(D.m[i].key)), D.m[i].v)

\* value trees are compared with map entries as a set and without distinguishing the
\* ways of holding nothing (the statement does not say whether an empty list or table
\* loads as an empty or a nil slice / map, or as a nil pointer to one)
EmptyVal(V) == \/ V.k = "slice" /\ V.l = <<>>
               \/ V.k = "map" /\ V.m = {}
               \/ V.k = "ptr" /\ V.nil
PtrTo(V) == IF EmptyVal(V) THEN [k |-> "ptr", nil |-> TRUE] ELSE [k |-> "ptr", nil |-> FALSE, v |-> V]

RECURSIVE Decode(_, _)
Decode(T, D) ==
  CASE T.k \in IntKinds -> [k |-> "int", v |-> D.v]
    [] T.k = "float"  -> [k |-> "float", v |-> NumTab[D.v].fx]
    [] T.k = "string" -> [k |-> "str", v |-> D.v]
    [] T.k = "bool"   -> [k |-> "bool", b |-> D.b]
    [] T.k = "ptr"    -> PtrTo(Decode(T.t, D))
    [] T.k = "slice"  -> [k |-> "slice", l |-> [i \in DOMAIN D.l |-> Decode(T.t, D.l[i])]]
    [] T.k = "map"    -> [k |-> "map", m |-> {[key |-> D.m[i].key, v |-> Decode(T.t, D.m[i].v)] : i \in DOMAIN D.m}]
    [] T.k = "struct" ->
         [k |-> "struct", f |-> [i \in DOMAIN T.f |->
            [n |-> T.f[i].n,
             v |-> IF T.f[i].e THEN Decode(T.f[i].t, D)
                   ELSE LET lk == Lower(KeyOf(T.f[i]))
                            j  == CHOOSE j \in Spelled(D.m, lk) : TRUE
                        IN Decode(T.f[i].t, D.m[j].v)]]]

\* a logged value tree brought to the shape Decode produces
RECURSIVE RefForm(_)
RefForm(V) ==
  CASE V.k = "ptr"    -> IF V.nil THEN [k |-> "ptr", nil |-> TRUE] ELSE PtrTo(RefForm(V.v))
    [] V.k = "slice"  -> [k |-> "slice", l |-> [i \in DOMAIN V.l |-> RefForm(V.l[i])]]
    [] V.k = "map"    -> [k |-> "map", m |-> {[key |-> V.m[i].key, v |-> RefForm(V.m[i].v)] : i \in DOMAIN V.m}]
    [] V.k = "struct" -> [k |-> "struct", f |-> [i \in DOMAIN V.f |-> [n |-> V.f[i].n, v |-> RefForm(V.f[i].v)]]]
    [] OTHER -> V

\* ------------------------------------------------------------------ (b): the plain-tag subfamily
RECURSIVE PlainType(_)
PlainType(T) ==
  CASE T.k = "struct" -> \A i \in DOMAIN T.f : T.f[i].tag # "" /\ ~T.f[i].e /\ PlainType(T.f[i].t)
    [] T.k \in {"slice", "map", "ptr"} -> PlainType(T.t)
    [] OTHER -> TRUE

\* ------------------------------------------------------------------ shapes of the known findings
\* (each known-finding deviation of ConfDocTrace is enabled only on its shape; the
\*  generator keeps these shapes out of the bulk family while the finding is open)

\* a struct field's key spelled twice somewhere in the document
RECURSIVE AnyCollision(_, _)
AnyCollision(T, D) ==
  CASE T.k = "struct" /\ D.k = "map" ->
         /\ Unambiguous(T)
         /\ \/ Collides(T, D)
            \/ \E i \in DOMAIN D.m : /\ Lower(D.m[i].key) \in LKeys(T)
                                      /\ AnyCollision(FieldType(T, Lower(D.m[i].key)), D.m[i].v)
    [] T.k = "slice" /\ D.k = "list" -> \E i \in DOMAIN D.l : AnyCollision(T.t, D.l[i])
    [] T.k = "map" /\ D.k = "map"    -> \E i \in DOMAIN D.m : AnyCollision(T.t, D.m[i].v)
    [] T.k = "ptr" -> AnyCollision(T.t, D)
    [] OTHER -> FALSE

\* pointer to map, pointer to slice, map of pointers to scalars
RECURSIVE HasPtrContainer(_)
HasPtrContainer(T) ==
  CASE T.k = "ptr"    -> T.t.k \in {"map", "slice"} \/ HasPtrContainer(T.t)
    [] T.k = "map"    -> (T.t.k = "ptr" /\ T.t.t.k \in LeafKinds) \/ HasPtrContainer(T.t)
    [] T.k = "slice"  -> HasPtrContainer(T.t)
    [] T.k = "struct" -> \E i \in DOMAIN T.f : HasPtrContainer(T.f[i].t)
    [] OTHER -> FALSE

RECURSIVE DerefT(_)
DerefT(T) == IF T.k = "ptr" THEN DerefT(T.t) ELSE T

\* a struct inside a slice inside a map that is itself inside another container
\* (map[string]map[string][]S, []map[string][]S, ...): depth = position in the chain
\* of containers of one struct field (1 = the field's own type)
RECURSIVE ReachesStruct(_), BadChain(_, _)
ReachesStruct(T) ==
  LET U == DerefT(T) IN
  CASE U.k = "struct" -> TRUE
    [] U.k \in {"slice", "map"} -> ReachesStruct(U.t)
    [] OTHER -> FALSE
BadChain(T, depth) ==
  LET U == DerefT(T) IN
  CASE U.k = "map"    -> \/ depth >= 2 /\ DerefT(U.t).k = "slice" /\ ReachesStruct(U.t)
                         \/ BadChain(U.t, depth + 1)
    [] U.k = "slice"  -> BadChain(U.t, depth + 1)
    [] U.k = "struct" -> \E i \in DOMAIN U.f : BadChain(U.f[i].t, 1)
    [] OTHER -> FALSE
HasBadChain(T) == BadChain(T, 1)

\* a map that lies below another map or a slice (position >= 2 in the chain of containers
\* of one struct field), whose elements reach a struct S, holding an entry whose
\* user-chosen key spells (in whatever case) a field of S
RECURSIVE TargetStruct(_), DeepKeyClashAt(_, _, _)
TargetStruct(T) == LET U == DerefT(T) IN IF U.k = "struct" THEN U ELSE TargetStruct(U.t)   \* given ReachesStruct(T)
DeepKeyClashAt(T, D, depth) ==
  LET U == DerefT(T) IN
  CASE U.k = "map" /\ D.k = "map" ->
         \/ /\ depth >= 2 /\ ReachesStruct(U.t)
            /\ \E i \in DOMAIN D.m : Lower(D.m[i].key) \in LKeys(TargetStruct(U.t))
         \/ \E i \in DOMAIN D.m : DeepKeyClashAt(U.t, D.m[i].v, depth + 1)
    [] U.k = "slice" /\ D.k = "list" -> \E i \in DOMAIN D.l : DeepKeyClashAt(U.t, D.l[i], depth + 1)
    [] U.k = "struct" /\ D.k = "map" ->
         /\ Unambiguous(U)
         /\ \E i \in DOMAIN D.m : /\ Lower(D.m[i].key) \in LKeys(U)
                                   /\ DeepKeyClashAt(FieldType(U, Lower(D.m[i].key)), D.m[i].v, 1)
    [] OTHER -> FALSE
DeepKeyClash(T, D) == DeepKeyClashAt(T, D, 1)

\* a map-typed struct field for which the document has no exactly spelled key
RECURSIVE MissingMapField(_, _)
MissingMapField(T, D) ==
  CASE T.k = "struct" /\ D.k = "map" ->
         \/ \E x \in Range(Flat(T)) : DerefT(x.t).k = "map" /\ \A i \in DOMAIN D.m : D.m[i].key # x.key
         \/ \E x \in Range(Flat(T)) : \E i \in DOMAIN D.m : D.m[i].key = x.key /\ MissingMapField(x.t, D.m[i].v)
    [] T.k = "slice" /\ D.k = "list" -> \E i \in DOMAIN D.l : MissingMapField(T.t, D.l[i])
    [] T.k = "map" /\ D.k = "map"    -> \E i \in DOMAIN D.m : MissingMapField(T.t, D.m[i].v)
    [] T.k = "ptr" -> MissingMapField(T.t, D)
    [] OTHER -> FALSE

\* ------------------------------------------------------------------ the state machine
VARIABLES ty,     \* the configuration type of the current case
          envv,   \* value of the environment variable
          memo    \* answers given so far: set of <<normalised effective document, outcome>>
vars == <<ty, envv, memo>>

Verdict(o) == IF o.v = "ok" THEN [v |-> "ok", val |-> o.val] ELSE [v |-> o.v]   \* error texts are not compared

Effective(D, useenv) == IF useenv THEN Expand(D, envv) ELSE D

\* may the loaders answer o for effective document ED ?
Admissible(ED, o) ==
  /\ o.v \in {"ok", "err"}
  /\ Fits(ty, ED) => o.v = "ok" /\ RefForm(o.val) = Decode(ty, ED)
  /\ \A p \in memo : p[1] = Norm(ty, ED) => p[2] = Verdict(o)

Init == ty = [k |-> "struct", f |-> <<>>] /\ envv = "" /\ memo = {}

Reset(T, val) == ty' = T /\ envv' = val /\ memo' = {}

\* one document through several loaders (formats x entry points): outs = their answers
Loads(D, useenv, outs) ==
  LET ED == Effective(D, useenv) IN
  /\ \A i \in DOMAIN outs : Admissible(ED, outs[i]) /\ Verdict(outs[i]) = Verdict(outs[1])
  /\ memo' = IF outs = <<>> THEN memo ELSE memo \cup {<<Norm(ty, ED), Verdict(outs[1])>>}
  /\ UNCHANGED <<ty, envv>>

\* mapping.UnmarshalJsonBytes (om) and encoding/json (os) on the JSON rendering of D
Plain(D, om, os) ==
  /\ PlainType(ty) /\ om.v = "ok" /\ os.v = "ok" => om.val = os.val
  /\ UNCHANGED vars

\* beyond the listed property, same subsystem: the mapping package's own three entry
\* points (UnmarshalJsonBytes / UnmarshalYamlBytes / UnmarshalTomlBytes; exact keys, no
\* normalisation) agree with each other on the three renderings of D
MapFormats(D, om, oy, ot) ==
  /\ Verdict(om) = Verdict(oy)
  /\ IF TomlOK(D) THEN Verdict(om) = Verdict(ot) ELSE ot.v = "na"      \* not expressible: not loaded
  /\ UNCHANGED vars
=============================================================================
