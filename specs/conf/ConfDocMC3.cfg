SPECIFICATION MCSpec
CONSTANTS
  MaxSize = 3
  ChainSize = 3
  MaxFields = 2
  Schemes = {"U", "L", "M"}
  Leaves = {"int", "float", "string", "bool"}
  Emit = FALSE
  KeyMode = "plain"
INVARIANTS
  Loadable MemoFunctional RespellLemma NormIdempotent NormKeepsMeaning ExpandLemma RekeyLemma FormatsLemma LoggedLemma GoodFits BadMisfits
CHECK_DEADLOCK FALSE
