SPECIFICATION BSpec
CONSTANTS
  MaxMaps = 2
  Elems = {1, 2}
  Geos = {3}
  Variant = "extra"
INVARIANTS Okay
CHECK_DEADLOCK FALSE
