------------------------------ MODULE BloomImpl ------------------------------
(* Layer I: core/bloom/bloom.go + setscript.lua / testscript.lua as they are written, running in
   lock-step with the law of Bloom.tla.

     loc[<<x, g>>]   getLocations: the bit positions of element x in a filter of g bits (1..Maps
                     positions below g; a table chosen once, arbitrarily: the law has to hold
                     for EVERY hash function, LocAll enumerates them)
     bitsOf[k]       the bits that are 1 in the string under key k ({} = the key does not exist)
     ittl[k]         its remaining life in ms (0 = none)
     ist[c]          where call c is in the client code:
                       "args"  buildOffsetArgs: an offset >= bits ends the call with
                               ErrTooLargeOffset before anything is sent
                       "send"  ScriptRunCtx: the store runs the whole script atomically
                               (setscript: SETBIT every offset; testscript: false at the first 0 bit,
                               which go-redis reports as redis.Nil and check() turns into (false, nil))
                               or refuses it; after a fault the reply of a script that ran may be lost
                     and returns what it computed (the return is taken together with the store's step:
                     nothing happens in between)
   Del / Expire are the two helper methods of redisBitSet (one command each).

   Every store step is conjoined with the atomic step PLin of the law; `law` remembers whether
   each of them was legal (LinOK).  TLC checks Law (refinement of Layer P by the answers given),
   Correspondence (the bits are exactly the positions of the set's elements, the expiry is the
   set's expiry) and the range / size invariants, for every interleaving of Conc calls, clock
   advances and faults.

   Variant (documented wrong variants; "" = the code as it is):
     "pipeline"   Add sends its SETBITs one by one instead of one script: a Del in between
                  leaves an element that was added, acknowledged, and is not there
     "offbyone"   buildOffsetArgs refuses offset > bits instead of >= bits
     "swallow"    check() reports every store error as (false, nil)
     "cacheyes"   the Filter remembers positive answers and serves them without the store  *)
EXTENDS Bloom

CONSTANTS Elems, Filters, NKeys, SecsVals, BadOn, MaxCalls, MaxEnv, Conc, Maps, LocChoices, Variant

VARIABLES loc, bitsOf, ittl, ist, cache, law, nc, ne
ivars == <<loc, bitsOf, ittl, ist, cache, law, nc, ne>>
vars == <<flt, mem, ttl, memo, dirty, down, calls, taint, loc, bitsOf, ittl, ist, cache, law, nc, ne>>

Geos == {Filters[f].g : f \in DOMAIN Filters}
MaxGeo == CHOOSE g \in Geos : \A h \in Geos : h <= g
Pairs == Elems \X Geos

\* hash tables
LocAll == {t \in [Pairs -> SUBSET (0..(MaxGeo - 1))] :
             \A p \in Pairs : t[p] # {} /\ t[p] \subseteq 0..(p[2] - 1) /\ Cardinality(t[p]) <= Maps}
\* a table with collisions: in 3 bits element 2's position is one of element 1's (adding 1 makes 2
\* test positive), in 2 bits the other way round; every other element gets position x mod g
LocTight == {[p \in Pairs |-> CASE p = <<1, 3>> -> {0, 1} [] p = <<2, 3>> -> {1}
                                [] p = <<1, 2>> -> {0}    [] p = <<2, 2>> -> {0, 1}
                                [] OTHER -> {p[1] % p[2]}]}

Recs == RecsOf(Elems, Filters, SecsVals, BadOn)

IInit ==
  /\ PInit(Filters, NKeys)
  /\ loc \in LocChoices
  /\ bitsOf = [k \in 1..NKeys |-> {}]
  /\ ittl = [k \in 1..NKeys |-> 0]
  /\ ist = <<>> /\ cache = [f \in DOMAIN Filters |-> {}]
  /\ law = TRUE /\ nc = 0 /\ ne = 0

\* the offsets a call hands to the bit set; a bad call sends one offset equal to bits along
Offs(cl) == LET L == loc[<<cl.x, GeoOf(cl.f)>>] IN IF cl.bad THEN L \cup {GeoOf(cl.f)} ELSE L
Refused(cl) == \E o \in Offs(cl) : IF Variant = "offbyone" THEN o > GeoOf(cl.f) ELSE o >= GeoOf(cl.f)

\* the atomic step of the law, taken together with an implementation step
Step(c, r, err, applied) ==
  /\ PLinEnd(c, r, err, applied)
  /\ law' = (law /\ LinOK(c, r, err, applied))
  /\ ist' = Without(ist, c)
  /\ cache' = IF Variant = "cacheyes" /\ calls[c].op = "exists" /\ r /\ ~err
                THEN [cache EXCEPT ![calls[c].f] = @ \cup {calls[c].x}] ELSE cache
Quiet == UNCHANGED <<flt, mem, ttl, memo, dirty, down, calls, taint, law>>
Goto(c, pc) == ist' = [ist EXCEPT ![c].pc = pc]

IStart ==
  /\ nc < MaxCalls /\ Cardinality(DOMAIN calls) < Conc
  /\ LET c == CHOOSE i \in 1..Conc : i \notin DOMAIN calls /\ \A j \in 1..Conc : j \notin DOMAIN calls => i <= j IN
       /\ \E rec \in Recs : PStart(c, rec)
       /\ ist' = (c :> [pc |-> "args", left |-> {}]) @@ ist
  /\ nc' = nc + 1
  /\ UNCHANGED <<loc, bitsOf, ittl, cache, law, ne>>

\* buildOffsetArgs (and, in the "cacheyes" variant, the look-up in the Filter's own memory)
IArgs(c) ==
  /\ ist[c].pc = "args"
  /\ LET cl == calls[c] IN
       IF cl.op \in {"del", "expire"} THEN Goto(c, "send") /\ Quiet /\ UNCHANGED cache
       ELSE IF Refused(cl) THEN Step(c, FALSE, TRUE, FALSE)
       ELSE IF Variant = "cacheyes" /\ cl.op = "exists" /\ cl.x \in cache[cl.f] THEN Step(c, TRUE, FALSE, TRUE)
       ELSE /\ ist' = [ist EXCEPT ![c].pc = "send", ![c].left = Offs(cl)]
            /\ Quiet /\ UNCHANGED cache
  /\ UNCHANGED <<loc, bitsOf, ittl, nc, ne>>

Outcomes == IF down THEN {"refuse"} ELSE IF dirty THEN {"refuse", "lost", "run"} ELSE {"run"}

\* the store executes one command (a script, DEL, EXPIRE) atomically -- or refuses it
IStore(c) ==
  /\ ist[c].pc = "send"
  /\ ~(Variant = "pipeline" /\ calls[c].op = "add")
  /\ \E out \in Outcomes :
       LET cl   == calls[c]
           k    == KeyOf(cl.f)
           ran  == out \in {"lost", "run"}
           serr == out # "run"
           r    == cl.op = "exists" /\ ~serr /\ Offs(cl) \subseteq bitsOf[k]
           cerr == serr /\ ~(Variant = "swallow" /\ cl.op = "exists")
       IN /\ CASE ~ran -> UNCHANGED <<bitsOf, ittl>>
               [] ran /\ cl.op = "add" -> bitsOf' = [bitsOf EXCEPT ![k] = @ \cup Offs(cl)] /\ UNCHANGED ittl
               [] ran /\ cl.op = "exists" -> UNCHANGED <<bitsOf, ittl>>
               [] ran /\ cl.op = "del" -> bitsOf' = [bitsOf EXCEPT ![k] = {}] /\ ittl' = [ittl EXCEPT ![k] = 0]
               [] ran /\ cl.op = "expire" ->
                    IF bitsOf[k] = {} THEN UNCHANGED <<bitsOf, ittl>>
                    ELSE IF cl.s <= 0 THEN bitsOf' = [bitsOf EXCEPT ![k] = {}] /\ ittl' = [ittl EXCEPT ![k] = 0]
                    ELSE ittl' = [ittl EXCEPT ![k] = cl.s * 1000] /\ UNCHANGED bitsOf
          /\ Step(c, r, cerr, ran)
  /\ UNCHANGED <<loc, nc, ne>>

\* "pipeline" variant of Add: one SETBIT per step, lowest offset first
IPipe(c) ==
  /\ Variant = "pipeline" /\ calls[c].op = "add" /\ ist[c].pc = "send"
  /\ IF down THEN Step(c, FALSE, TRUE, FALSE) /\ UNCHANGED bitsOf
     ELSE LET o == CHOOSE p \in ist[c].left : \A q \in ist[c].left : p <= q
              k == KeyOf(calls[c].f)
          IN /\ bitsOf' = [bitsOf EXCEPT ![k] = @ \cup {o}]
             /\ IF ist[c].left = {o}
                  THEN Step(c, FALSE, FALSE, TRUE)
                  ELSE /\ ist' = [ist EXCEPT ![c].left = @ \ {o}]
                       /\ Quiet /\ UNCHANGED cache
  /\ UNCHANGED <<loc, ittl, nc, ne>>

AdvChoices == {d \in {500} \cup UNION {{ittl[k] - 1, ittl[k], ittl[k] + 1} : k \in DOMAIN ittl} : d >= 1}

IAdvance ==
  /\ ne < MaxEnv /\ ne' = ne + 1
  /\ \E d \in AdvChoices :
       /\ PAdvance(d)
       /\ bitsOf' = [k \in DOMAIN bitsOf |-> IF ittl[k] > 0 /\ ittl[k] <= d THEN {} ELSE bitsOf[k]]
       /\ ittl' = [k \in DOMAIN ittl |-> IF ittl[k] > d THEN ittl[k] - d ELSE 0]
  /\ UNCHANGED <<loc, ist, cache, law, nc>>

IFault ==
  /\ ne < MaxEnv /\ ne' = ne + 1
  /\ \E m \in {"up", "err", "flaky"} : PFault(m)
  /\ UNCHANGED <<loc, bitsOf, ittl, ist, cache, law, nc>>

IArgsAny  == \E c \in DOMAIN ist : IArgs(c)
IStoreAny == \E c \in DOMAIN ist : IStore(c)
IPipeAny  == \E c \in DOMAIN ist : IPipe(c)
INext == IStart \/ IAdvance \/ IFault \/ IArgsAny \/ IStoreAny \/ IPipeAny
ISpec == IInit /\ [][INext]_vars

\* ---------------------------------------------------------------- refinement and invariants
Law == law
Correspondence ==
  \A k \in DOMAIN mem : /\ bitsOf[k] = UNION {loc[p] : p \in mem[k]}
                        /\ ittl[k] = ttl[k]
\* every element whose Add was acknowledged has all its bits (one half of Correspondence; it does not
\* depend on where inside the call the Add is taken to happen)
AckedPresent == \A k \in DOMAIN mem : UNION {loc[p] : p \in mem[k]} \subseteq bitsOf[k]
InRange == \A k \in DOMAIN bitsOf : bitsOf[k] \subseteq 0..(MaxGeo - 1)
KeyLiveIffSet == \A k \in DOMAIN mem : (bitsOf[k] = {}) <=> (mem[k] = {})
\* what the Layer-P memo says about an answer is what the bits say
AnswersAreBits == \A e \in memo : e.r <=> (loc[<<e.x, e.g>>] \subseteq UNION {loc[p] : p \in e.S})
ITypeOK == \A c \in DOMAIN ist : c \in DOMAIN calls /\ ist[c].pc \in {"args", "send"}
=============================================================================
