SPECIFICATION TSpec
CONSTANTS
  MaxMaps = 14
  MaxGeo = 256
CONSTRAINT HW
INVARIANTS KnSane
POSTCONDITION Accepted
CHECK_DEADLOCK FALSE
