SPECIFICATION TSpec
CONSTANTS
  KeepMemo = TRUE
CONSTRAINT HW
INVARIANTS TtlOnlyOnLive
POSTCONDITION Accepted
CHECK_DEADLOCK FALSE
