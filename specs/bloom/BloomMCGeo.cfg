SPECIFICATION MSpec
CONSTANTS
  KeepMemo = TRUE
  Elems = {1, 2}
  Filters <- FT3
  NKeys = 1
  SecsVals = {0, 1}
  BadOn = {1}
  MaxCalls = 2
  MaxEnv = 2
  Conc = 2
  Emit = FALSE
  MaxOps = 0
  ViewOps = 0
INVARIANTS AnswersOK Progress TtlOnlyOnLive SameGeometry TypeOK NeverTainted
PROPERTIES ErrorsChangeNothing OnlyClearShrinks AddKeepsTtl
VIEW MView
CHECK_DEADLOCK FALSE
