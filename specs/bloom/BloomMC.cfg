SPECIFICATION MSpec
CONSTANTS
  KeepMemo = TRUE
  Elems = {1, 2}
  MaxCalls = 4
  MaxEnv = 2
  Conc = 2
INVARIANTS AnswersOK Progress TtlOnlyOnLive SameGeometry TypeOK
CHECK_DEADLOCK FALSE
