SPECIFICATION ISpec
CONSTANTS
  KeepMemo = TRUE
  Elems = {1, 2}
  Filters <- FT3
  NKeys = 1
  SecsVals = {0, 1}
  BadOn = {1}
  MaxCalls = 3
  MaxEnv = 1
  Conc = 2
  Maps = 2
  LocChoices <- LocTight
  Variant = "swallow"
INVARIANTS Law
CHECK_DEADLOCK FALSE
