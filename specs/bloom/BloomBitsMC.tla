----------------------------- MODULE BloomBitsMC -----------------------------
(* The observer of BloomBits.tla against bit-level filters on one key, for EVERY hash table
   (loc is chosen arbitrarily at the start) and histories of any length: Add / Exists of every
   <<element, geometry>> pair, Del.  The filter is what BloomImpl.tla was shown to be
   (Correspondence, AnswersAreBits): the bits are the union of the rows of the set's elements, an
   answer is "the row is inside the bits".

     okay    the observer accepted every step so far        (it never rejects a correct filter)
     Sound   what it learnt brackets the table's row         (kn[p].lo \subseteq loc[p] \subseteq kn[p].hi)

   Variant (wrong filters the observer must reject; "" = correct):
     "firstbit"  Exists looks at the lowest position of the row only
     "extra"     Add also turns on position 0                                          *)
EXTENDS BloomBits, TLC

CONSTANTS Elems, Geos, Variant

VARIABLES loc, B, kn, okay
bvars == <<loc, B, kn, okay>>

Pairs == Elems \X Geos
MaxGeo == CHOOSE g \in Geos : \A h \in Geos : h <= g
LocAll == {t \in [Pairs -> SUBSET (0..(MaxGeo - 1))] :
             \A p \in Pairs : t[p] # {} /\ t[p] \subseteq Full(p[2]) /\ Cardinality(t[p]) <= MaxMaps}
Min(S) == CHOOSE a \in S : \A b \in S : a <= b

BInit == loc \in LocAll /\ B = {} /\ kn = <<>> /\ okay = TRUE

BAdd(p) ==
  LET B2 == B \cup loc[p] \cup (IF Variant = "extra" THEN {0} ELSE {}) IN
    /\ okay' = (okay /\ AddOK(kn, p, B, B2))
    /\ kn' = AddKn(kn, p, B, B2)
    /\ B' = B2 /\ UNCHANGED loc

BExists(p) ==
  LET r == IF Variant = "firstbit" THEN Min(loc[p]) \in B ELSE loc[p] \subseteq B IN
    /\ IF r THEN okay' = (okay /\ YesOK(kn, p, B)) /\ kn' = YesKn(kn, p, B)
            ELSE okay' = (okay /\ NoOK(kn, p, B)) /\ kn' = NoKn(kn, p, B)
    /\ UNCHANGED <<loc, B>>

BDel == B' = {} /\ UNCHANGED <<loc, kn, okay>>

BNext == BDel \/ \E p \in Pairs : BAdd(p) \/ BExists(p)
BSpec == BInit /\ [][BNext]_bvars

Okay == okay
Sound == \A p \in DOMAIN kn : kn[p].lo \subseteq loc[p] /\ loc[p] \subseteq kn[p].hi
KnSane == KnOK(kn)
\* the observer is not blind: after an Add into an empty key the row is known exactly
LearnsExactly == [][(B = {} /\ B' # {} /\ okay') =>
                       \E p \in DOMAIN kn' : loc[p] = B' /\ kn'[p].lo = B' /\ kn'[p].hi = B']_bvars
=============================================================================
