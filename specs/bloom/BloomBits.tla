------------------------------ MODULE BloomBits ------------------------------
(* Extension "bloom", the bits of a key seen from outside (white-box companion of Bloom.tla).

   bloom.New documents the shape of the data structure: `bits` is how many bits are used, `maps`
   (= 14) how many hashes each addition takes.  So every <<element, bits>> pair p owns a set L(p) of
   1..MaxMaps positions below bits, always the same ones, and
        Add(p)     turns exactly L(p) on          B' = B \cup L(p)
        Exists(p)  is "all of L(p) are on"        r  = (L(p) \subseteq B)
        Del / an elapsed expiry leave no bit on, nothing else changes a key.
   The hash function itself is NOT part of the specification.  An observer who sees the bits of a key
   before and after every call learns about L(p) as it goes:   kn[p].lo \subseteq L(p) \subseteq kn[p].hi
   (lo: positions an Add of p turned on; hi: positions still possible - inside the bits that were on
   after an Add of p or at a positive answer).  A step is legal iff SOME L(p) inside the bracket explains
   it; after an Add into an empty key the bracket is a point and every later answer for p is determined.

   This module is the observer as pure operators; BloomBitsMC.tla checks it against bit-level filters
   for every hash table (it never rejects one, and the bracket always holds the table's row),
   BloomBitsTrace.tla runs it on the obs events recorded from miniredis.                       *)
EXTENDS Integers, FiniteSets

CONSTANT MaxMaps

Full(g) == 0..(g - 1)
Lo(kn, p) == IF p \in DOMAIN kn THEN kn[p].lo ELSE {}
Hi(kn, p) == IF p \in DOMAIN kn THEN kn[p].hi ELSE Full(p[2])
Learn(kn, p, lo, hi) == [q \in DOMAIN kn \cup {p} |-> IF q = p THEN [lo |-> lo, hi |-> hi] ELSE kn[q]]
In(S, T) == {b \in S : b \in T}          \* S \cap T, enumerating S (T may be a long interval)

\* Add of p took the key from B to B2
AddOK(kn, p, B, B2) ==
  LET D == B2 \ B IN
  /\ B \subseteq B2
  /\ \A b \in D : b \in Hi(kn, p)                  \* only positions p may own are new
  /\ Lo(kn, p) \subseteq B2                        \* the positions p is known to own are on
  /\ Cardinality(Lo(kn, p) \cup D) <= MaxMaps      \* never more than `maps` positions per element
  /\ In(B2, Hi(kn, p)) # {}                        \* an element owns at least one position
AddKn(kn, p, B, B2) == Learn(kn, p, Lo(kn, p) \cup (B2 \ B), In(B2, Hi(kn, p)))

\* Exists of p answered yes / no on the bits B
YesOK(kn, p, B) == Lo(kn, p) \subseteq B /\ In(B, Hi(kn, p)) # {}
YesKn(kn, p, B) == Learn(kn, p, Lo(kn, p), In(B, Hi(kn, p)))
NoOK(kn, p, B)  == \E b \in Hi(kn, p) : b \notin B
\* (a single possible position outside B is one p owns - only worth computing for small brackets)
NoKn(kn, p, B)  ==
  IF p \in DOMAIN kn /\ Cardinality(kn[p].hi \ B) = 1
    THEN Learn(kn, p, kn[p].lo \cup (kn[p].hi \ B), kn[p].hi) ELSE kn

\* the bracket of every pair is sane
KnOK(kn) == \A p \in DOMAIN kn : /\ kn[p].lo \subseteq kn[p].hi
                                 /\ kn[p].hi \subseteq Full(p[2])
                                 /\ Cardinality(kn[p].lo) <= MaxMaps
=============================================================================
