SPECIFICATION ISpec
CONSTANTS
  KeepMemo = TRUE
  Elems = {1}
  Filters <- FT1
  NKeys = 1
  SecsVals = {0, 1}
  BadOn = {}
  MaxCalls = 4
  MaxEnv = 0
  Conc = 1
  Maps = 2
  LocChoices <- LocTight
  Variant = "cacheyes"
INVARIANTS Law
CHECK_DEADLOCK FALSE
