------------------------------ MODULE BloomMC ------------------------------
(* Layer P on its own: the most permissive machine whose every answer obeys the law of
   Bloom.tla (the answers of Exists are chosen freely among those LinOK allows), with
   up to Conc overlapping calls.  TLC checks that the law is satisfiable in every
   reachable state (no call is ever left without a legal answer: Progress), that the
   recorded answers stay mutually consistent (AnswersOK) and the bookkeeping invariants. *)
EXTENDS Bloom

CONSTANTS Elems, MaxCalls, MaxEnv, Conc

VARIABLES nc, ne
mvars == <<flt, mem, ttl, memo, dirty, down, calls, nc, ne>>

Filters == <<[key |-> 1, g |-> 3], [key |-> 1, g |-> 3], [key |-> 1, g |-> 2], [key |-> 2, g |-> 3]>>

Rec(op, f, x, s, bad) == [op |-> op, f |-> f, x |-> x, s |-> s, bad |-> bad, raw |-> bad,
                          st |-> "pend", r |-> FALSE, err |-> FALSE]

MInit == PInit(Filters, 2) /\ nc = 0 /\ ne = 0

MStart ==
  /\ nc < MaxCalls /\ Cardinality(DOMAIN calls) < Conc
  /\ \E f \in DOMAIN Filters :
       \/ \E x \in Elems, op \in {"add", "exists"}, bad \in BOOLEAN :
            (bad => x = CHOOSE y \in Elems : TRUE) /\ PStart(nc + 1, Rec(op, f, x, 0, bad))
       \/ PStart(nc + 1, Rec("del", f, 0, 0, FALSE))
       \/ \E s \in {0, 1} : PStart(nc + 1, Rec("expire", f, 0, s, FALSE))
  /\ nc' = nc + 1 /\ UNCHANGED ne

MLin ==
  /\ \E c \in DOMAIN calls, r, err, applied \in BOOLEAN :
       /\ (calls[c].op # "exists" => ~r)
       /\ LinOK(c, r, err, applied)
       /\ PLin(c, r, err, applied)
  /\ UNCHANGED <<nc, ne>>

MEnd == /\ \E c \in DOMAIN calls : PEnd(c, calls[c].r, calls[c].err)
        /\ UNCHANGED <<nc, ne>>

MEnv ==
  /\ ne < MaxEnv /\ ne' = ne + 1 /\ UNCHANGED nc
  /\ \/ PAdvance(1000)
     \/ \E m \in {"up", "err", "flaky"} : PFault(m)

MNext == MStart \/ MLin \/ MEnd \/ MEnv
MSpec == MInit /\ [][MNext]_mvars

\* every pending call has at least one legal atomic step (the law never paints itself into a corner)
Progress == \A c \in DOMAIN calls : calls[c].st = "pend" =>
              \E r, err, applied \in BOOLEAN : LinOK(c, r, err, applied)
TypeOK == /\ \A k \in DOMAIN mem : ttl[k] >= 0
          /\ \A c \in DOMAIN calls : calls[c].st \in {"pend", "lin"}
=============================================================================
