------------------------------ MODULE BloomMC ------------------------------
(* Layer P on its own.

   Model checking (MSpec): the most permissive machine whose every answer obeys the law of
   Bloom.tla (the answers of Exists are chosen freely among those LinOK allows), with up
   to Conc overlapping calls, store faults and clock advances.  TLC checks that the law is
   satisfiable in every reachable state (no call is ever left without a legal answer:
   Progress), that the recorded answers stay mutually consistent (AnswersOK), the
   bookkeeping invariants, and the action properties below (errors change nothing, only
   Del / Expire / the clock shrink a set, adding never touches the expiry).

   Generation (GSpec, Emit = TRUE): the same machine restricted to one call at a time with
   the least answer the law allows, a history variable hidden by the VIEW: one shortest
   operation history per distinct TRANSITION (state, last ViewOps operations, state) is
   printed ("TRACE <json>") and replayed on real Filters over miniredis.            *)
EXTENDS Bloom, Json

CONSTANTS Elems, Filters, NKeys, SecsVals, BadOn, MaxCalls, MaxEnv, Conc, Emit, MaxOps, ViewOps

VARIABLES nc, ne, hist, prev
mvars == <<flt, mem, ttl, memo, dirty, down, calls, taint, nc, ne, hist, prev>>

MInit == PInit(Filters, NKeys) /\ nc = 0 /\ ne = 0 /\ hist = <<>> /\ prev = 0

Recs == RecsOf(Elems, Filters, SecsVals, BadOn)

\* ---------------------------------------------------------------- model checking
MStart ==
  /\ nc < MaxCalls /\ Cardinality(DOMAIN calls) < Conc
  /\ LET c == CHOOSE i \in 1..Conc : i \notin DOMAIN calls /\ \A j \in 1..Conc : j \notin DOMAIN calls => i <= j
     IN \E rec \in Recs : PStart(c, rec)
  /\ nc' = nc + 1 /\ UNCHANGED <<ne, hist, prev>>

MLin ==
  /\ \E c \in DOMAIN calls, r, err, applied \in BOOLEAN :
       /\ (calls[c].op # "exists" => ~r)
       /\ LinOK(c, r, err, applied)
       /\ PLin(c, r, err, applied)
  /\ UNCHANGED <<nc, ne, hist, prev>>

MEnd == /\ \E c \in DOMAIN calls : PEnd(c, calls[c].r, calls[c].err)
        /\ UNCHANGED <<nc, ne, hist, prev>>

AdvChoices == {d \in {500} \cup UNION {{ttl[k] - 1, ttl[k], ttl[k] + 1} : k \in DOMAIN ttl} : d >= 1}

MEnv ==
  /\ ne < MaxEnv /\ ne' = ne + 1 /\ UNCHANGED <<nc, hist, prev>>
  /\ \/ \E d \in AdvChoices : PAdvance(d)
     \/ \E m \in {"up", "err", "flaky"} : PFault(m)

MNext == MStart \/ MLin \/ MEnd \/ MEnv
MSpec == MInit /\ [][MNext]_mvars

\* every pending call has at least one legal atomic step (the law never paints itself into a corner)
Progress == \A c \in DOMAIN calls : calls[c].st = "pend" =>
              \E r, err, applied \in BOOLEAN : LinOK(c, r, err, applied)
TypeOK == /\ \A k \in DOMAIN mem : ttl[k] >= 0
          /\ \A c \in DOMAIN calls : calls[c].st \in {"pend", "lin"}
          /\ \A e \in memo : e.S \subseteq (Elems \X {3, 2})

\* action properties (over the named actions)
ErrorsChangeNothing == [][down => (mem' = mem /\ ttl' = ttl) \/ (\E d \in AdvChoices : PAdvance(d))]_mvars
Shrinks(k) == ~(mem[k] \subseteq mem'[k])
OnlyClearShrinks ==
  [][\A k \in DOMAIN mem : Shrinks(k) =>
        /\ mem'[k] = {}                                      \* a set is never partly forgotten
        /\ \/ \E d \in AdvChoices : PAdvance(d)
           \/ \E c \in DOMAIN calls : calls[c].op \in {"del", "expire"} /\ KeyOf(calls[c].f) = k]_mvars
AddKeepsTtl == [][(\E c \in DOMAIN calls : /\ calls[c].op = "add" /\ calls[c].st = "pend"
                                              /\ c \in DOMAIN calls' /\ calls'[c].st = "lin")
                    => ttl' = ttl]_mvars

\* ---------------------------------------------------------------- generation (sequential)
Log(r) == hist' = Append(hist, r)
StateView == <<mem, ttl, down, dirty>>

GCall ==
  \E rec \in Recs :
    LET err == down \/ rec.bad
        r   == rec.op = "exists" /\ ~err /\ <<rec.x, GeoOf(rec.f)>> \in mem[KeyOf(rec.f)]
    IN /\ LinOKr(rec, r, err, ~err)
       /\ PCall(rec, r, err, ~err)
       /\ Log([op |-> rec.op, f |-> rec.f, x |-> rec.x, s |-> rec.s, bad |-> rec.bad])
GAdvance == \E d \in AdvChoices : PAdvance(d) /\ Log([op |-> "advance", f |-> 0, x |-> 0, s |-> d, bad |-> FALSE])
GFault ==
  /\ PFault(IF down THEN "up" ELSE "err")
  /\ Log([op |-> "fault", f |-> 0, x |-> 0, s |-> IF down THEN 0 ELSE 1, bad |-> FALSE])

GNext ==
  /\ Len(hist) < MaxOps
  /\ prev' = StateView
  /\ UNCHANGED <<nc, ne>>
  /\ (GCall \/ GAdvance \/ GFault)
GSpec == MInit /\ [][GNext]_mvars

LastN(h, n) == IF Len(h) <= n THEN h ELSE SubSeq(h, Len(h) - n + 1, Len(h))
View == <<StateView, LastN(hist, ViewOps), prev>>
MView == <<flt, mem, ttl, memo, dirty, down, calls, taint, nc, ne>>
PrintHist == (Emit /\ Len(hist) > 0) => PrintT("TRACE " \o ToJson(hist))
=============================================================================
