SPECIFICATION BSpec
CONSTANTS
  MaxMaps = 2
  Elems = {1, 2, 3}
  Geos = {3}
  Variant = ""
INVARIANTS Okay Sound KnSane
PROPERTIES LearnsExactly
CHECK_DEADLOCK FALSE
