----------------------------- MODULE BloomTrace -----------------------------
(* Trace validation for the extension "bloom": events recorded from real bloom.Filter objects on
   keys of a miniredis store (clock = FastForward) must be a behaviour of Bloom.tla.

   Sequential events are one call each (start, atomic step and return at once):
     reset{flt, nk}     flt = [[key, bits], ...]: the Filter objects of this trace, nk keys
     add{f,x,..} exists{f,x,..} del{f,..} expire{f,s,..}   with bad, r, err, clob, spare:
                        bad   the call was made on the bit set with the element's positions plus
                              one offset that is out of range
                        r     the answer of Exists;  err  an error was returned
                        clob  the driver saw the argument's backing array change (for a buffer shared
                              by overlapping calls: reported with the first call after they returned)
                        spare the argument had spare capacity behind its length
     advance{d}  fault{mode}
     obs{k, live, ttl}  white-box look at key k between calls: does it exist, remaining life in ms
                        (the field bits of obs belongs to BloomBitsTrace.tla)
   Concurrent calls are logged as callStart{c,op,f,x,s,bad,buf} before the library (or FastForward)
   is invoked and callEnd{c,r,err,clob,spare} after it returned; the atomic step of call c is the
   silent action Lin(c), which TLC places anywhere between the two - it finds the linearisation, if
   there is one.  The answer a call will log is known from the trace, so Lin(c) only tries that one.
   An overlapping Exists is judged against the answers remembered so far (and the set it saw under the
   linearisation tried) but is not itself remembered: the sequential events between rounds are.
   buf > 0 names a buffer whose sub-slices several overlapping calls were given as arguments.

   Known finding of this extension (enabled by the runner only for a trace the specification proper
   rejected): KF_ArgClobbered - getLocations appends to the caller's slice, so (1) the byte behind
   the argument is overwritten when there is spare capacity and (2) calls that share the buffer
   compute positions from each other's scribbling: from such a call on the trace is not judged.  *)
EXTENDS Bloom, TraceKit

VARIABLE l
tvars == <<flt, mem, ttl, memo, dirty, down, calls, taint, l>>

E == Trace[l]
IsEvent(e) == l <= Len(Trace) /\ E.e = e /\ l' = l + 1
KF == "KF_ArgClobbered" \in OpenFindings

FiltersOf(a) == [i \in 1..Len(a) |-> [key |-> a[i][1], g |-> a[i][2]]]

TReset == IsEvent("reset") /\ PReset(FiltersOf(E.flt), E.nk)

\* the caller's buffer: intact - or the known finding, which needs spare capacity to show
ArgOK(e) == ArgIntact(e.clob) \/ (KF /\ e.spare)

TOp ==
  /\ l <= Len(Trace) /\ E.e \in {"add", "exists", "del", "expire"} /\ l' = l + 1
  /\ LET rec == Rec(E.e, E.f, E.x, E.s, E.bad) IN
       \E applied \in BOOLEAN :
         /\ (E.e = "exists" => applied = ~E.err)
         /\ LinOKr(rec, E.r, E.err, applied)
         /\ PCall(rec, E.r, E.err, applied)
  /\ ArgOK(E)

TAdvance == IsEvent("advance") /\ PAdvance(E.d)
TFault   == IsEvent("fault") /\ PFault(E.mode)

TObs ==
  /\ IsEvent("obs")
  /\ NoCalls
  /\ E.live <=> (mem[E.k] # {})
  /\ E.ttl = ttl[E.k]
  /\ UNCHANGED pvars

\* ---- concurrent calls
Window == 64    \* a call returns within this many log lines of any point at which it is pending
EndIdx(c) ==
  LET hi == IF l + Window < Len(Trace) THEN l + Window ELSE Len(Trace)
      S  == {j \in l..hi : Trace[j].e = "callEnd" /\ Trace[j].c = c}
  IN IF S = {} THEN 0 ELSE CHOOSE j \in S : \A k \in S : j <= k

TCallStart ==
  /\ IsEvent("callStart")
  /\ PStart(E.c, Rec(E.op, E.f, E.x, E.s, E.bad) @@ [buf |-> E.buf])

\* silent: the atomic step of a pending call; the answer is the one the call will log
Lin(c) ==
  /\ calls[c].st = "pend"
  /\ LET j == EndIdx(c) IN
       /\ j # 0
       /\ IF calls[c].op = "advance"
            THEN /\ AdvEffect(calls[c].s)
                 /\ calls' = [calls EXCEPT ![c].st = "lin"]
                 /\ UNCHANGED <<flt, memo, dirty, down, taint>>
            ELSE \E applied \in BOOLEAN :
                   /\ (calls[c].op = "exists" => applied = ~Trace[j].err)
                   /\ LinOK(c, Trace[j].r, Trace[j].err, applied)
                   /\ PLinQuiet(c, Trace[j].r, Trace[j].err, applied)
  /\ UNCHANGED l

\* the known finding: a call whose argument buffer another running call shares computed its positions
\* from scribbled bytes - what it did to the key is anybody's guess: the rest of the trace is not judged
LinKF(c) ==
  /\ KF
  /\ calls[c].st = "pend" /\ calls[c].op \in {"add", "exists"} /\ calls[c].buf # 0
  /\ \E d \in DOMAIN calls \ {c} : calls[d].buf = calls[c].buf
  /\ taint' = TRUE
  /\ l' = Len(Trace) + 1
  /\ UNCHANGED <<flt, mem, ttl, memo, dirty, down, calls>>

TCallEnd ==
  /\ IsEvent("callEnd")
  /\ E.c \in DOMAIN calls
  /\ IF calls[E.c].op = "advance"
       THEN calls[E.c].st = "lin" /\ calls' = Without(calls, E.c)
                                  /\ UNCHANGED <<flt, mem, ttl, memo, dirty, down, taint>>
       ELSE PEnd(E.c, E.r, E.err) /\ ArgOK(E)

(* Search reduction (sound: it only removes redundant orders): a callStart does not touch the
   sets, and a "flaky" fault only widens what later steps may do, so while the next logged event is
   one of those it is simply consumed before any silent step is tried.                        *)
Passive == l <= Len(Trace) /\ (E.e = "callStart" \/ (E.e = "fault" /\ E.mode = "flaky"))

TInit == PInit(<<>>, 0) /\ l = 1
TNext ==
  IF Passive THEN TCallStart \/ TFault
  ELSE \/ TReset \/ TOp \/ TAdvance \/ TFault \/ TObs \/ TCallEnd
       \/ \E c \in DOMAIN calls : Lin(c) \/ LinKF(c)
TSpec == TInit /\ [][TNext]_tvars

HW == HighWater(l)
=============================================================================
