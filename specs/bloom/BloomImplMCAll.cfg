SPECIFICATION ISpec
CONSTANTS
  KeepMemo = FALSE
  Elems = {1, 2}
  Filters <- FT1
  NKeys = 1
  SecsVals = {0, 1}
  BadOn = {1}
  MaxCalls = 3
  MaxEnv = 1
  Conc = 1
  Maps = 2
  LocChoices <- LocAll
  Variant = ""
INVARIANTS Law Correspondence InRange KeyLiveIffSet AnswersAreBits AnswersOK TtlOnlyOnLive ITypeOK NeverTainted
CHECK_DEADLOCK FALSE
