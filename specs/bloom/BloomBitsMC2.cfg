SPECIFICATION BSpec
CONSTANTS
  MaxMaps = 2
  Elems = {1}
  Geos = {2, 3, 4}
  Variant = ""
INVARIANTS Okay Sound KnSane
PROPERTIES LearnsExactly
CHECK_DEADLOCK FALSE
