--------------------------- MODULE BloomBitsTrace ---------------------------
(* Trace validation of the sequential traces of the extension "bloom" against the observer of
   BloomBits.tla: the obs events carry the bits of a key as miniredis has them (seen = FALSE when the
   string is longer than 32 bytes: the key is then not followed until it is seen again).

   The drivers look at every key after every call.  A call names the key it may have touched (todo);
   at the obs of that key the step from the bits before to the bits after must be one the call can
   explain; the obs of any other key must show the same bits as before ("a call touches one key").
   A clock advance may empty any key.  Geometries above MaxGeo bits are only checked for shape
   (Add adds, Exists / Expire change nothing, Del empties).  After a fault an errored call may or may
   not have taken effect.  Which answer / error is legal at all is Bloom.tla's business, not this
   module's.                                                                                   *)
EXTENDS BloomBits, TraceKit

CONSTANT MaxGeo

VARIABLES l, flt, bits, known, kn, pend, todo, dirty
tvars == <<l, flt, bits, known, kn, pend, todo, dirty>>

E == Trace[l]
IsEvent(e) == l <= Len(Trace) /\ E.e = e /\ l' = l + 1
None == [op |-> "none"]

TReset ==
  /\ IsEvent("reset")
  /\ flt' = E.flt
  /\ bits' = [k \in 1..E.nk |-> {}]
  /\ known' = [k \in 1..E.nk |-> TRUE]
  /\ kn' = <<>> /\ pend' = None /\ todo' = {} /\ dirty' = FALSE

\* a key whose last call was never looked at is not followed until the next look
Current(k) == known[k] /\ (k \notin todo \/ pend.op = "same")
Forget == [k \in DOMAIN known |-> Current(k)]

\* an Exists on a key whose bits are current is judged at once (it changes nothing: the next look at the
\* key must show the same bits); every other call is judged at the next look at its key
TOp ==
  /\ l <= Len(Trace) /\ E.e \in {"add", "exists", "del", "expire"} /\ l' = l + 1
  /\ LET k == flt[E.f][1]
         p == <<E.x, flt[E.f][2]>>
     IN /\ todo' = {k}
        /\ known' = Forget
        /\ IF E.e = "exists" /\ ~E.err /\ Current(k) /\ p[2] <= MaxGeo
             THEN /\ pend' = [op |-> "same"]
                  /\ IF E.r THEN YesOK(kn, p, bits[k]) /\ kn' = YesKn(kn, p, bits[k])
                            ELSE NoOK(kn, p, bits[k]) /\ kn' = NoKn(kn, p, bits[k])
             ELSE /\ pend' = [op |-> E.e, p |-> p, s |-> E.s, bad |-> E.bad, r |-> E.r, err |-> E.err]
                  /\ kn' = kn
  /\ UNCHANGED <<flt, bits, dirty>>

TAdvance ==
  /\ IsEvent("advance")
  /\ pend' = [op |-> "advance"] /\ todo' = DOMAIN bits
  /\ known' = Forget
  /\ UNCHANGED <<flt, bits, kn, dirty>>

TFault ==
  /\ IsEvent("fault")
  /\ dirty' = (dirty \/ E.mode # "up")
  /\ UNCHANGED <<flt, bits, known, kn, pend, todo>>

\* overlapping calls are not followed at all
TConc ==
  /\ l <= Len(Trace) /\ E.e \in {"callStart", "callEnd"} /\ l' = l + 1
  /\ known' = [k \in DOMAIN known |-> FALSE] /\ pend' = None /\ todo' = {}
  /\ UNCHANGED <<flt, bits, kn, dirty>>

Small == pend.p[2] <= MaxGeo
\* the step B -> B2 of key k is one the pending call explains; kn2 = what is known afterwards
Explains(B, B2, kn2) ==
  CASE pend.op = "advance" -> B2 \in {B, {}} /\ kn2 = kn
    [] pend.op = "same" -> B2 = B /\ kn2 = kn
    [] pend.op = "add" ->
         \/ /\ pend.err /\ B2 = B /\ kn2 = kn
         \/ /\ ~pend.bad /\ (~pend.err \/ dirty)
            /\ IF Small THEN AddOK(kn, pend.p, B, B2) /\ kn2 = AddKn(kn, pend.p, B, B2)
                        ELSE B \subseteq B2 /\ kn2 = kn
    [] pend.op = "exists" ->
         /\ B2 = B
         /\ \/ pend.err /\ kn2 = kn
            \/ ~pend.err /\ ~Small /\ kn2 = kn
            \/ ~pend.err /\ Small /\ pend.r /\ YesOK(kn, pend.p, B) /\ kn2 = YesKn(kn, pend.p, B)
            \/ ~pend.err /\ Small /\ ~pend.r /\ NoOK(kn, pend.p, B) /\ kn2 = NoKn(kn, pend.p, B)
    [] pend.op = "del" ->
         /\ kn2 = kn
         /\ \/ pend.err /\ B2 = B
            \/ (~pend.err \/ dirty) /\ B2 = {}
    [] pend.op = "expire" ->
         /\ kn2 = kn
         /\ \/ pend.err /\ B2 = B
            \/ (~pend.err \/ dirty) /\ B2 = (IF pend.s <= 0 THEN {} ELSE B)

TObs ==
  /\ IsEvent("obs")
  /\ LET k  == E.k
         B2 == SeqToSet(E.bits)
     IN /\ todo' = todo \ {k}
        /\ IF ~E.seen THEN known' = [known EXCEPT ![k] = FALSE] /\ UNCHANGED <<bits, kn>>
           ELSE /\ known' = [known EXCEPT ![k] = TRUE]
                /\ bits' = [bits EXCEPT ![k] = B2]
                /\ IF ~known[k] THEN kn' = kn
                   ELSE IF k \in todo THEN Explains(bits[k], B2, kn')
                   ELSE B2 = bits[k] /\ kn' = kn
        /\ E.live <=> (~E.seen \/ B2 # {})
  /\ UNCHANGED <<flt, pend, dirty>>

TInit == l = 1 /\ flt = <<>> /\ bits = <<>> /\ known = <<>> /\ kn = <<>> /\ pend = None /\ todo = {} /\ dirty = FALSE
TNext == TReset \/ TOp \/ TAdvance \/ TFault \/ TConc \/ TObs
TSpec == TInit /\ [][TNext]_tvars

KnSane == KnOK(kn)
HW == HighWater(l)
=============================================================================
