SPECIFICATION GSpec
CONSTANTS
  KeepMemo = FALSE
  Elems = {1, 2}
  Filters <- FT4
  NKeys = 2
  SecsVals = {0, 1}
  BadOn = {1, 3}
  MaxCalls = 0
  MaxEnv = 0
  Conc = 1
  Emit = TRUE
  MaxOps = 4
  ViewOps = 1
INVARIANTS PrintHist
VIEW View
CHECK_DEADLOCK FALSE
