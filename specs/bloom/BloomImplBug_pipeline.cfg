SPECIFICATION ISpec
CONSTANTS
  KeepMemo = TRUE
  Elems = {1}
  Filters <- FT1
  NKeys = 1
  SecsVals = {0, 1}
  BadOn = {}
  MaxCalls = 3
  MaxEnv = 1
  Conc = 2
  Maps = 2
  LocChoices <- LocTight
  Variant = "pipeline"
INVARIANTS AckedPresent
CHECK_DEADLOCK FALSE
