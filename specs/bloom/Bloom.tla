------------------------------- MODULE Bloom -------------------------------
(* Extension "bloom" (host C19), Layer P: what core/bloom promises, without bits.

   A bloom filter is a SET OF ELEMENTS WITH AN OVER-APPROXIMATING MEMBERSHIP TEST,
   kept under a key of a shared store.  A Filter object is a (key, geometry) pair --
   geometry = the `bits` argument of bloom.New: two filters agree on where an element
   lives only if they have the same geometry -- and every Filter on a key works on the
   key's one set ("two filters sharing a key see each other's adds").

     mem[k]   the set of <<element, geometry>> pairs added to key k since k was last
              cleared (deleted, or expired through Expire + the store's clock)
     ttl[k]   remaining life of key k in ms, 0 = no expiry.  Adding does not refresh it.
     memo     the answers Exists has given: [k, x, g, S, r] = "asked for x through a
              filter of geometry g on key k while mem[k] = S, the answer was r"

   The law of an answer r (AnswerOK):
     * no false negative:        <<x, g>> \in S  =>  r
     * an empty filter is empty: S = {}          =>  ~r
     * the answer is a monotone FUNCTION OF THE SET: it does not depend on the order or
       multiplicity of the adds, on which Filter object asks, or on how often the key
       was cleared and refilled; more elements never turn a yes into a no.
   Everything else (which non-members test positive) is the implementation's freedom.

   Errors (LinOK): an out-of-range offset handed to the bit set is refused with an error
   and changes nothing; while the store is down every call reports an error -- never a
   silent "not there" -- and changes nothing; on a store that never failed no call errs;
   a call that reported no error took effect.  After a fault an error is legal at any
   time (circuit breaker, dead pooled connection) and leaves open whether the call took
   effect.

   Calls are intervals: PStart, then the atomic step PLin somewhere inside, then PEnd
   (PLinEnd = both at once).  Sequential histories are the special case of one call at
   a time.                                                                           *)
EXTENDS Integers, FiniteSets, Sequences, TLC

CONSTANT KeepMemo     \* TRUE: memo accumulates (trace validation, small MC); FALSE: last answer only

VARIABLES flt, mem, ttl, memo, dirty, down, calls
pvars == <<flt, mem, ttl, memo, dirty, down, calls>>

KeyOf(f) == flt[f].key
GeoOf(f) == flt[f].g
NoCalls == DOMAIN calls = {}
Without(fn, c) == [d \in DOMAIN fn \ {c} |-> fn[d]]

\* flt: sequence of [key |-> 1..nk, g |-> bits]
PInit(filters, nk) ==
  /\ flt = filters
  /\ mem = [k \in 1..nk |-> {}]
  /\ ttl = [k \in 1..nk |-> 0]
  /\ memo = {} /\ dirty = FALSE /\ down = FALSE /\ calls = <<>>

PReset(filters, nk) ==
  /\ flt' = filters
  /\ mem' = [k \in 1..nk |-> {}]
  /\ ttl' = [k \in 1..nk |-> 0]
  /\ memo' = {} /\ dirty' = FALSE /\ down' = FALSE /\ calls' = <<>>

\* ---------------------------------------------------------------- the law of answers
AnswerOK(k, x, g, S, r, M) ==
  /\ (<<x, g>> \in S => r)
  /\ (S = {} => ~r)
  /\ \A e \in M : (e.k = k /\ e.x = x /\ e.g = g) =>
        /\ ((e.S \subseteq S /\ e.r) => r)
        /\ ((S \subseteq e.S /\ ~e.r) => ~r)

\* is the atomic step of call c with answer r / error err / effect applied legal?
LinOK(c, r, err, applied) ==
  LET cl == calls[c] IN
  /\ (cl.bad => (err /\ ~applied))
  /\ (down => (err /\ ~applied))
  /\ ((~dirty /\ ~cl.bad) => ~err)
  /\ (~err => applied)
  /\ ((cl.op = "exists" /\ ~err) =>
        AnswerOK(KeyOf(cl.f), cl.x, GeoOf(cl.f), mem[KeyOf(cl.f)], r, memo))

\* the argument buffer belongs to the caller: neither its bytes nor the spare capacity behind
\* them are written (clob = the driver saw a byte of the backing array change)
ArgIntact(clob) == ~clob

\* ---------------------------------------------------------------- effects (unguarded)
Clear(k) == mem' = [mem EXCEPT ![k] = {}] /\ ttl' = [ttl EXCEPT ![k] = 0]

PEffect(c, r, err, applied) ==
  LET cl == calls[c]
      k  == KeyOf(cl.f)
      g  == GeoOf(cl.f)
  IN CASE cl.op = "add" ->
            /\ mem' = IF applied THEN [mem EXCEPT ![k] = @ \cup {<<cl.x, g>>}] ELSE mem
            /\ UNCHANGED <<ttl, memo>>
       [] cl.op = "exists" ->
            /\ memo' = IF err THEN memo
                       ELSE (IF KeepMemo THEN memo ELSE {}) \cup
                            {[k |-> k, x |-> cl.x, g |-> g, S |-> mem[k], r |-> r]}
            /\ UNCHANGED <<mem, ttl>>
       [] cl.op = "del" ->
            /\ IF applied THEN Clear(k) ELSE UNCHANGED <<mem, ttl>>
            /\ UNCHANGED memo
       [] cl.op = "expire" ->
            /\ IF applied /\ mem[k] # {}
                 THEN IF cl.s <= 0 THEN Clear(k)
                      ELSE ttl' = [ttl EXCEPT ![k] = cl.s * 1000] /\ UNCHANGED mem
                 ELSE UNCHANGED <<mem, ttl>>
            /\ UNCHANGED memo

\* rec = [op, f, x, s, bad, raw, st |-> "pend", r |-> FALSE, err |-> FALSE]
PStart(c, rec) ==
  /\ c \notin DOMAIN calls
  /\ calls' = (c :> rec) @@ calls
  /\ UNCHANGED <<flt, mem, ttl, memo, dirty, down>>

PLin(c, r, err, applied) ==
  /\ c \in DOMAIN calls /\ calls[c].st = "pend"
  /\ PEffect(c, r, err, applied)
  /\ calls' = [calls EXCEPT ![c] = [@ EXCEPT !.st = "lin", !.r = r, !.err = err]]
  /\ UNCHANGED <<flt, dirty, down>>

PEnd(c, r, err) ==
  /\ c \in DOMAIN calls /\ calls[c].st = "lin"
  /\ calls[c].err = err
  /\ ((calls[c].op = "exists" /\ ~err) => calls[c].r = r)
  /\ calls' = Without(calls, c)
  /\ UNCHANGED <<flt, mem, ttl, memo, dirty, down>>

PLinEnd(c, r, err, applied) ==
  /\ c \in DOMAIN calls /\ calls[c].st = "pend"
  /\ PEffect(c, r, err, applied)
  /\ calls' = Without(calls, c)
  /\ UNCHANGED <<flt, dirty, down>>

\* the store's clock moves by d ms: keys whose life ends are gone, with everything in them
PAdvance(d) ==
  /\ d > 0
  /\ mem' = [k \in DOMAIN mem |-> IF ttl[k] > 0 /\ ttl[k] <= d THEN {} ELSE mem[k]]
  /\ ttl' = [k \in DOMAIN ttl |-> IF ttl[k] > d THEN ttl[k] - d ELSE 0]
  /\ UNCHANGED <<flt, memo, dirty, down, calls>>

\* "up" | "err" (every command refused) | "closed" (store gone) between calls;
\* "flaky" (single commands may be refused from now on) at any time
PFault(m) ==
  /\ (m # "flaky" => NoCalls)
  /\ dirty' = (dirty \/ m # "up")
  /\ down' = IF m = "flaky" THEN down ELSE m \in {"err", "closed"}
  /\ UNCHANGED <<flt, mem, ttl, memo, calls>>

\* ---------------------------------------------------------------- properties
AnswersOK == \A e \in memo : AnswerOK(e.k, e.x, e.g, e.S, e.r, memo)
TtlOnlyOnLive == \A k \in DOMAIN mem : ttl[k] > 0 => mem[k] # {}
SameGeometry == \A k \in DOMAIN mem : \A p \in mem[k] : \E f \in DOMAIN flt : flt[f].key = k /\ flt[f].g = p[2]
=============================================================================
