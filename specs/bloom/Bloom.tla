------------------------------- MODULE Bloom -------------------------------
(* Extension "bloom" (host C19), Layer P: what core/bloom promises, without bits.

   A bloom filter is a SET OF ELEMENTS WITH AN OVER-APPROXIMATING MEMBERSHIP TEST,
   kept under a key of a shared store.  A Filter object is a (key, geometry) pair --
   geometry = the `bits` argument of bloom.New: two filters agree on where an element
   lives only if they have the same geometry -- and every Filter on a key works on the
   key's one set ("two filters sharing a key see each other's adds").

     mem[k]   the set of <<element, geometry>> pairs added to key k since k was last
              cleared (deleted, or expired through Expire + the store's clock)
     ttl[k]   remaining life of key k in ms, 0 = no expiry.  Adding does not refresh it.
     memo     the answers Exists has given: [k, x, g, S, r] = "asked for x through a
              filter of geometry g on key k while mem[k] = S, the answer was r"

   The law of an answer r (AnswerOK):
     * no false negative:        <<x, g>> \in S  =>  r
     * an empty filter is empty: S = {}          =>  ~r
     * the answer is a monotone FUNCTION OF THE SET: it does not depend on the order or
       multiplicity of the adds, on which Filter object asks, or on how often the key
       was cleared and refilled; more elements never turn a yes into a no.
   Everything else (which non-members test positive) is the implementation's freedom.

   Errors (LinOK): an out-of-range offset handed to the bit set is refused with an error
   and changes nothing; while the store is down every call reports an error -- never a
   silent "not there" -- and changes nothing; on a store that never failed no call errs;
   a call that reported no error took effect.  After a fault an error is legal at any
   time (circuit breaker, dead pooled connection) and leaves open whether the call took
   effect.

   The argument (ArgIntact): Add/Exists READ the caller's byte slice: neither its bytes
   nor the spare capacity behind them are written, so the same slice (or slices cut from
   one buffer) may be handed to any number of concurrent calls.

   Calls are intervals: PStart, then the atomic step PLin somewhere inside, then PEnd
   (PLinEnd = both at once).  Sequential histories are the special case of one call at
   a time (PCall = all three at once).

   taint is FALSE in every behaviour of this specification proper; only the known-finding
   deviation of BloomTrace.tla (a call that computed its bit positions from a buffer
   another call was writing to) sets it, after which answers are no longer judged.   *)
EXTENDS Integers, FiniteSets, Sequences, TLC

CONSTANT KeepMemo     \* TRUE: memo accumulates (trace validation, small MC); FALSE: last answer only

VARIABLES flt, mem, ttl, memo, dirty, down, calls, taint
pvars == <<flt, mem, ttl, memo, dirty, down, calls, taint>>

KeyOf(f) == flt[f].key
GeoOf(f) == flt[f].g
NoCalls == DOMAIN calls = {}
Without(fn, c) == [d \in DOMAIN fn \ {c} |-> fn[d]]

\* flt: sequence of [key |-> 1..nk, g |-> bits]
PInit(filters, nk) ==
  /\ flt = filters
  /\ mem = [k \in 1..nk |-> {}]
  /\ ttl = [k \in 1..nk |-> 0]
  /\ memo = {} /\ dirty = FALSE /\ down = FALSE /\ calls = <<>> /\ taint = FALSE

PReset(filters, nk) ==
  /\ flt' = filters
  /\ mem' = [k \in 1..nk |-> {}]
  /\ ttl' = [k \in 1..nk |-> 0]
  /\ memo' = {} /\ dirty' = FALSE /\ down' = FALSE /\ calls' = <<>> /\ taint' = FALSE

\* ---------------------------------------------------------------- the law of answers
NoFalseNegative(x, g, S, r) == <<x, g>> \in S => r
EmptyIsEmpty(S, r) == S = {} => ~r
FunctionOfSet(k, x, g, S, r, M) ==
  \A e \in M : (e.k = k /\ e.x = x /\ e.g = g) =>
        /\ ((e.S \subseteq S /\ e.r) => r)
        /\ ((S \subseteq e.S /\ ~e.r) => ~r)

AnswerOK(k, x, g, S, r, M) ==
  /\ NoFalseNegative(x, g, S, r)
  /\ EmptyIsEmpty(S, r)
  /\ FunctionOfSet(k, x, g, S, r, M)

\* is the atomic step of a call cl with answer r / error err / effect applied legal?
\* cl = [op, f, x, s, bad, ...]: op in add | exists | del | expire; bad = an out-of-range offset
LinOKr(cl, r, err, applied) ==
  /\ (cl.bad => (err /\ ~applied))
  /\ (down => (err /\ ~applied))
  /\ ((~dirty /\ ~cl.bad) => ~err)
  /\ (~err => applied)
  /\ ((cl.op = "exists" /\ ~err /\ ~taint) =>
        AnswerOK(KeyOf(cl.f), cl.x, GeoOf(cl.f), mem[KeyOf(cl.f)], r, memo))
LinOK(c, r, err, applied) == LinOKr(calls[c], r, err, applied)

\* the argument buffer belongs to the caller (clob = the driver saw a byte of the backing
\* array change: the len(data) bytes or the spare capacity behind them)
ArgIntact(clob) == ~clob

\* ---------------------------------------------------------------- effects (unguarded)
Clear(k) == mem' = [mem EXCEPT ![k] = {}] /\ ttl' = [ttl EXCEPT ![k] = 0]

\* note = the answer of an Exists goes into memo
PEffectN(cl, r, err, applied, note) ==
  LET k  == KeyOf(cl.f)
      g  == GeoOf(cl.f)
  IN CASE cl.op = "add" ->
            /\ mem' = IF applied THEN [mem EXCEPT ![k] = @ \cup {<<cl.x, g>>}] ELSE mem
            /\ UNCHANGED <<ttl, memo>>
       [] cl.op = "exists" ->
            /\ memo' = IF err \/ taint \/ ~note THEN memo
                       ELSE (IF KeepMemo THEN memo ELSE {}) \cup
                            {[k |-> k, x |-> cl.x, g |-> g, S |-> mem[k], r |-> r]}
            /\ UNCHANGED <<mem, ttl>>
       [] cl.op = "del" ->
            /\ IF applied THEN Clear(k) ELSE UNCHANGED <<mem, ttl>>
            /\ UNCHANGED memo
       [] cl.op = "expire" ->
            /\ IF applied /\ mem[k] # {}
                 THEN IF cl.s <= 0 THEN Clear(k)
                      ELSE ttl' = [ttl EXCEPT ![k] = cl.s * 1000] /\ UNCHANGED mem
                 ELSE UNCHANGED <<mem, ttl>>
            /\ UNCHANGED memo
PEffectR(cl, r, err, applied) == PEffectN(cl, r, err, applied, TRUE)
PEffect(c, r, err, applied) == PEffectR(calls[c], r, err, applied)

\* rec = [op, f, x, s, bad, st |-> "pend", r |-> FALSE, err |-> FALSE, ...]
PStart(c, rec) ==
  /\ c \notin DOMAIN calls
  /\ calls' = (c :> rec) @@ calls
  /\ UNCHANGED <<flt, mem, ttl, memo, dirty, down, taint>>

PLin(c, r, err, applied) ==
  /\ c \in DOMAIN calls /\ calls[c].st = "pend"
  /\ PEffect(c, r, err, applied)
  /\ calls' = [calls EXCEPT ![c] = [@ EXCEPT !.st = "lin", !.r = r, !.err = err]]
  /\ UNCHANGED <<flt, dirty, down, taint>>

\* the same step judged against memo but not noted in it (trace validation of overlapping calls: which
\* set an overlapping Exists saw depends on the linearisation TLC is still searching for; the answers
\* given between rounds are the ones remembered)
PLinQuiet(c, r, err, applied) ==
  /\ c \in DOMAIN calls /\ calls[c].st = "pend"
  /\ PEffectN(calls[c], r, err, applied, FALSE)
  /\ calls' = [calls EXCEPT ![c] = [@ EXCEPT !.st = "lin", !.r = r, !.err = err]]
  /\ UNCHANGED <<flt, dirty, down, taint>>

PEnd(c, r, err) ==
  /\ c \in DOMAIN calls /\ calls[c].st = "lin"
  /\ calls[c].err = err
  /\ ((calls[c].op = "exists" /\ ~err) => calls[c].r = r)
  /\ calls' = Without(calls, c)
  /\ UNCHANGED <<flt, mem, ttl, memo, dirty, down, taint>>

PLinEnd(c, r, err, applied) ==
  /\ c \in DOMAIN calls /\ calls[c].st = "pend"
  /\ PEffect(c, r, err, applied)
  /\ calls' = Without(calls, c)
  /\ UNCHANGED <<flt, dirty, down, taint>>

\* a call that overlaps no other: start, atomic step and return at once
PCall(rec, r, err, applied) ==
  /\ NoCalls
  /\ PEffectR(rec, r, err, applied)
  /\ UNCHANGED <<flt, dirty, down, calls, taint>>

\* the store's clock moves by d ms: keys whose life ends are gone, with everything in them
AdvEffect(d) ==
  /\ d > 0
  /\ mem' = [k \in DOMAIN mem |-> IF ttl[k] > 0 /\ ttl[k] <= d THEN {} ELSE mem[k]]
  /\ ttl' = [k \in DOMAIN ttl |-> IF ttl[k] > d THEN ttl[k] - d ELSE 0]
PAdvance(d) == AdvEffect(d) /\ UNCHANGED <<flt, memo, dirty, down, calls, taint>>

\* "up" | "err" (every command refused) | "closed" (store gone) between calls;
\* "flaky" (single commands may be refused from now on) at any time
PFault(m) ==
  /\ (m # "flaky" => NoCalls)
  /\ dirty' = (dirty \/ m # "up")
  /\ down' = IF m = "flaky" THEN down ELSE m \in {"err", "closed"}
  /\ UNCHANGED <<flt, mem, ttl, memo, calls, taint>>

\* ---------------------------------------------------------------- shared by the bounded models
\* filter tables (chosen in a cfg: Filters <- FT3 ...): f1, f2 are two Filter objects on one key with
\* one geometry, f3 the same key through another geometry, f4 another key
FT1 == <<[key |-> 1, g |-> 3]>>
FT2 == <<[key |-> 1, g |-> 3], [key |-> 1, g |-> 3]>>
FT3 == <<[key |-> 1, g |-> 3], [key |-> 1, g |-> 3], [key |-> 1, g |-> 2]>>
FT4 == <<[key |-> 1, g |-> 3], [key |-> 1, g |-> 3], [key |-> 1, g |-> 2], [key |-> 2, g |-> 3]>>

Rec(op, f, x, s, bad) == [op |-> op, f |-> f, x |-> x, s |-> s, bad |-> bad,
                          st |-> "pend", r |-> FALSE, err |-> FALSE]
\* the calls of a bounded model: Add/Exists of every element through every filter, the same with an
\* out-of-range offset (one element, filters BadOn), Del and Expire through every filter
RecsOf(elems, filters, secs, badOn) ==
  LET be == CHOOSE y \in elems : TRUE IN
        {Rec(op, f, x, 0, FALSE) : op \in {"add", "exists"}, f \in DOMAIN filters, x \in elems}
  \cup {Rec(op, f, be, 0, TRUE) : op \in {"add", "exists"}, f \in badOn}
  \cup {Rec("del", f, 0, 0, FALSE) : f \in DOMAIN filters}
  \cup {Rec("expire", f, 0, s, FALSE) : f \in DOMAIN filters, s \in secs}

\* ---------------------------------------------------------------- properties
AnswersOK == ~taint => \A e \in memo : AnswerOK(e.k, e.x, e.g, e.S, e.r, memo)
TtlOnlyOnLive == \A k \in DOMAIN mem : ttl[k] > 0 => mem[k] # {}
SameGeometry == \A k \in DOMAIN mem : \A p \in mem[k] : \E f \in DOMAIN flt : flt[f].key = k /\ flt[f].g = p[2]
NeverTainted == ~taint
=============================================================================
