------------------------------ MODULE WheelCb ------------------------------
(* Layer P with asynchronous delivery (property C12).

   Wheel.tla describes WHICH timers fire at a tick.  The real wheel hands the fired
   timers to the execute callback in other goroutines, so between the tick that fires
   <<k, v>> and the end of its callback the world goes on: other goroutines, and the
   callbacks themselves (cache cleaner retries re-arm their own key), keep calling
   SetTimer / MoveTimer / RemoveTimer, and further ticks arrive.  The statement makes
   no exception for that window: a key whose timer has fired is simply not pending any
   more, a SetTimer for it arms a new timer that fires exactly once at its own due
   tick, a MoveTimer/RemoveTimer for it does nothing to the firing already decided.

     owed    fired by a tick (or Drain), callback not entered yet
     active  callbacks entered and not yet returned

   Every operation has an actor: <<>> for a goroutine outside the wheel, or the
   <<k, v>> of an active callback that issues it.  The actor does not change what the
   operation means; it exists so that model checking and generated behaviours reach
   the operations issued from inside callbacks.  When a callback is entered is not
   constrained (the implementation may run the callbacks of one tick one after the
   other or in parallel), only that each owed one is entered exactly once.          *)
EXTENDS Wheel

VARIABLES
  owed,     \* set of <<key, value>>
  active    \* set of <<key, value>>

cbvars == <<tick, due, out, owed, active>>

CInit == WInit /\ owed = {} /\ active = {}

Outside == <<>>
IsActor(a) == a = Outside \/ a \in active

CSet(a, k, v, s) == IsActor(a) /\ WSet(k, v, s) /\ UNCHANGED <<owed, active>>
CMove(a, k, s)   == IsActor(a) /\ WMove(k, s)   /\ UNCHANGED <<owed, active>>
CRemove(a, k)    == IsActor(a) /\ WRemove(k)    /\ UNCHANGED <<owed, active>>

\* the firing decision of Wheel.tla; delivery is owed from now on
CTick  == WTick  /\ owed' = owed \cup out' /\ UNCHANGED active
CDrain == WDrain /\ owed' = owed \cup out' /\ UNCHANGED active

\* the callback for p is entered: only a firing that is owed, and it is owed no longer
CBegin(p) ==
  /\ p \in owed
  /\ owed' = owed \ {p}
  /\ active' = active \cup {p}
  /\ out' = {}
  /\ UNCHANGED <<tick, due>>

CEnd(p) ==
  /\ p \in active
  /\ active' = active \ {p}
  /\ out' = {}
  /\ UNCHANGED <<tick, due, owed>>

\* ---- sanity (hold by construction when values are unique per SetTimer) ----
OwedOnce == owed \cap active = {}
\* a firing in flight never is the pending timer of its key
InFlightNotPending == \A p \in owed \cup active : p[1] \in Pending => due[p[1]].val # p[2]
=============================================================================
