SPECIFICATION TSpec
CONSTRAINT HW
INVARIANTS NeverOverdue
POSTCONDITION Accepted
CHECK_DEADLOCK FALSE
