SPECIFICATION CbISpec
CONSTANTS
  N = 3
  Keys = {1, 2}
  MaxSteps = 7
  MaxOps = 6
  DelAt = "tick"
  Actors = "any"
  Emit = FALSE
INVARIANTS CbRefines CbWellFormed OwedOnce InFlightNotPending NeverOverdue FiresOnlyDue
VIEW GenView
CHECK_DEADLOCK FALSE
