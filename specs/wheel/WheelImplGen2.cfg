SPECIFICATION ISpec
CONSTANTS
  N = 2
  Keys = {1,2}
  MaxSteps = 5
  MaxOps = 5
  Variant = "distance"
  Emit = TRUE
INVARIANTS Refines PrintHist
VIEW View
CHECK_DEADLOCK FALSE
