SPECIFICATION CbISpec
CONSTANTS
  N = 2
  Keys = {1, 2}
  MaxSteps = 4
  MaxOps = 7
  DelAt = "tick"
  Actors = "any"
  Emit = TRUE
INVARIANTS CbRefines CbWellFormed OwedOnce InFlightNotPending NeverOverdue FiresOnlyDue CbPrintHist
VIEW GenView
CHECK_DEADLOCK FALSE
