SPECIFICATION ISpec
CONSTANTS
  N = 2
  Keys = {1, 2, 3}
  MaxSteps = 5
  MaxOps = 6
  Variant = "distance"
  Emit = FALSE
INVARIANTS Refines WellFormed NeverOverdue FiresOnlyDue
VIEW View
CHECK_DEADLOCK FALSE
