SPECIFICATION CbISpec
CONSTANTS
  N = 2
  Keys = {1, 2}
  MaxSteps = 5
  MaxOps = 6
  DelAt = "cbbegin"
  Actors = "any"
  Emit = FALSE
INVARIANTS Observable
VIEW CbView
CHECK_DEADLOCK FALSE
