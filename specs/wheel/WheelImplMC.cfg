SPECIFICATION ISpec
CONSTANTS
  N = 3
  Keys = {1, 2}
  MaxSteps = 7
  MaxOps = 6
  Variant = "distance"
  Emit = FALSE
INVARIANTS Refines WellFormed NeverOverdue FiresOnlyDue
VIEW View
CHECK_DEADLOCK FALSE
