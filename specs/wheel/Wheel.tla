------------------------------- MODULE Wheel -------------------------------
(* Layer P: what a timing wheel is, without slots or circles (property C12).
   A timer is a key with a value and the absolute tick at which it must fire.
   Delays are given in whole ticks (steps = floor(delay / interval) >= 1).      *)
EXTENDS Integers, FiniteSets, Sequences, TLC

VARIABLES
  tick,   \* number of ticks so far
  due,    \* partial function: pending key |-> [at |-> absolute due tick, val |-> value]
  out     \* observable effect of the last step: set of <<key, value>> delivered to the callback

wvars == <<tick, due, out>>

Pending == DOMAIN due
Restrict(f, S) == [x \in S |-> f[x]]

WInit == tick = 0 /\ due = <<>> /\ out = {}

\* SetTimer(k, v, steps * interval): (re)arms k with the new value
WSet(k, v, s) ==
  /\ s >= 1
  /\ due' = [x \in Pending \cup {k} |-> IF x = k THEN [at |-> tick + s, val |-> v] ELSE due[x]]
  /\ out' = {}
  /\ UNCHANGED tick

\* MoveTimer(k, steps * interval): new due tick, value kept; unknown key: no effect
WMove(k, s) ==
  /\ s >= 1
  /\ due' = IF k \in Pending THEN [due EXCEPT ![k].at = tick + s] ELSE due
  /\ out' = {}
  /\ UNCHANGED tick

WRemove(k) ==
  /\ due' = Restrict(due, Pending \ {k})
  /\ out' = {}
  /\ UNCHANGED tick

\* one tick: exactly the timers due now fire, with their latest value, and are gone
WTick ==
  /\ tick' = tick + 1
  /\ LET f == {k \in Pending : due[k].at = tick + 1} IN
       /\ out' = {<<k, due[k].val>> : k \in f}
       /\ due' = Restrict(due, Pending \ f)

\* Drain: every pending timer delivered once, nothing left
WDrain ==
  /\ out' = {<<k, due[k].val>> : k \in Pending}
  /\ due' = <<>>
  /\ UNCHANGED tick

\* ---- properties of the abstract machine (sanity; they hold by construction) ----
NeverOverdue == \A k \in Pending : due[k].at > tick
FiresOnlyDue == \A p \in out : p[1] \notin Pending
=============================================================================
