----------------------------- MODULE WheelTrace -----------------------------
(* Trace validation for C12: events recorded from the real collection.TimingWheel
   (driven by a harness-owned ticker) must be a behaviour of Wheel.tla.
   Every event carries "fired": the <<key, value>> callbacks observed between this
   operation and the next one (sorted, duplicates kept).                          *)
EXTENDS Wheel, TraceKit

VARIABLE l
tvars == <<tick, due, out, l>>

E == Trace[l]
IsEvent(e) == l <= Len(Trace) /\ E.e = e /\ l' = l + 1

\* what the real code delivered must be exactly what the spec delivers, once each
Delivered == /\ SeqToSet(E.fired) = {<<p[1], p[2]>> : p \in out'}
             /\ Len(E.fired) = Cardinality(out')

TReset  == IsEvent("reset") /\ tick' = 0 /\ due' = <<>> /\ out' = {}
TSet    == IsEvent("set")    /\ WSet(E.k, E.v, E.s) /\ Delivered
TMove   == IsEvent("move")   /\ WMove(E.k, E.s)     /\ Delivered
TRemove == IsEvent("remove") /\ WRemove(E.k)        /\ Delivered
TTick   == IsEvent("tick")   /\ WTick               /\ Delivered
TDrain  == IsEvent("drain")  /\ WDrain              /\ Delivered
\* end of a history: late callbacks (none allowed)
TEnd    == IsEvent("end")    /\ out' = {} /\ UNCHANGED <<tick, due>> /\ Delivered

TInit == WInit /\ l = 1
TNext == TReset \/ TSet \/ TMove \/ TRemove \/ TTick \/ TDrain \/ TEnd
TSpec == TInit /\ [][TNext]_tvars

HW == HighWater(l)
=============================================================================
