---------------------------- MODULE WheelCbImpl ----------------------------
(* Layer I with the data structures of core/collection/timingwheel.go kept apart:

     slots[p]   the list of timingEntry of slot p, in list order (PushBack order)
     ent[id]    a timingEntry: key, value, circle, diff, removed (tombstone)
     idx[key]   the timers map: key -> positionEntry{pos, item}
     batches    one goroutine per tick that fired something (runTasks): the tasks
                it still has to hand to execute, one after the other; run = the
                callback of its first task is executing right now

   and with the callback window of WheelCb.tla: operations are issued by goroutines
   outside the wheel or from inside an executing callback, at any point between a
   tick and the end of the callbacks it caused.  WheelImpl.tla merges map and entry
   into one function, so it cannot say "the map still has the key of a timer that is
   no longer in any slot" -- here that is a state.

   DelAt says where the map entry of a fired timer is deleted:
     "tick"    on the tick path, in scanAndRunTasks (go-zero)
     "cbend"   by the firing goroutine after the callback returned   (counterexample)
     "cbbegin" by the firing goroutine just before it calls execute  (counterexample)

   TLC checks CbRefines (every reachable implementation state maps onto WheelCb) and
   prints one operation history per distinct state for the Go driver.               *)
EXTENDS WheelCb, Json

CONSTANTS N, Keys, MaxSteps, MaxOps, DelAt, Emit, Actors

VARIABLES pos, slots, ent, idx, batches, hist

cbivars == <<tick, due, out, owed, active, pos, slots, ent, idx, batches, hist>>

Range(s) == {s[i] : i \in DOMAIN s}
Without(f, x) == Restrict(f, DOMAIN f \ {x})

Dist(p) == ((p - pos + N - 1) % N) + 1          \* ticks until slot p is scanned: 1..N
PosCircle(s) == [slot |-> (pos + s) % N, circle |-> (s - 1) \div N]

\* the three structures an operation of the run loop works on, as one value
Cur == [slots |-> slots, ent |-> ent, idx |-> idx]
InSlots(sl) == UNION {Range(sl[p]) : p \in DOMAIN sl}
\* entries that are neither in a slot nor referenced by the map are garbage
Apply(st) ==
  /\ slots' = st.slots
  /\ idx' = st.idx
  /\ ent' = Restrict(st.ent, InSlots(st.slots) \cup {st.idx[k].id : k \in DOMAIN st.idx})

NewId(e) == CHOOSE i \in 1..(Cardinality(DOMAIN e) + 1) : i \notin DOMAIN e

\* setTimerPosition
SetPos(ix, k, p, id) ==
  [x \in DOMAIN ix \cup {k} |-> IF x = k THEN [pos |-> p, id |-> id] ELSE ix[x]]

\* moveTask (delay >= interval)
MoveTask(st, k, s) ==
  IF k \notin DOMAIN st.idx THEN st
  ELSE LET t  == st.idx[k]
           pc == PosCircle(s)
           d  == Dist(pc.slot) - Dist(t.pos)
       IN IF d >= 0 THEN [st EXCEPT !.ent[t.id].circle = pc.circle, !.ent[t.id].diff = d]
          ELSE IF pc.circle > 0
            THEN [st EXCEPT !.ent[t.id].circle = pc.circle - 1, !.ent[t.id].diff = N + d]
          ELSE LET nid == NewId(st.ent)
                   new == [key |-> k, val |-> st.ent[t.id].val, circle |-> 0, diff |-> 0, removed |-> FALSE]
               IN [slots |-> [st.slots EXCEPT ![pc.slot] = Append(@, nid)],
                   ent   |-> [i \in DOMAIN st.ent \cup {nid} |->
                                IF i = nid THEN new
                                ELSE IF i = t.id THEN [st.ent[i] EXCEPT !.removed = TRUE]
                                ELSE st.ent[i]],
                   idx   |-> SetPos(st.idx, k, pc.slot, nid)]

\* setTask
SetTask(st, k, v, s) ==
  IF k \in DOMAIN st.idx
    THEN MoveTask([st EXCEPT !.ent[st.idx[k].id].val = v], k, s)
    ELSE LET nid == NewId(st.ent)
             pc  == PosCircle(s)
             new == [key |-> k, val |-> v, circle |-> pc.circle, diff |-> 0, removed |-> FALSE]
         IN [slots |-> [st.slots EXCEPT ![pc.slot] = Append(@, nid)],
             ent   |-> [i \in DOMAIN st.ent \cup {nid} |-> IF i = nid THEN new ELSE st.ent[i]],
             idx   |-> SetPos(st.idx, k, pc.slot, nid)]

\* removeTask
RemoveTask(st, k) ==
  IF k \notin DOMAIN st.idx THEN st
  ELSE [st EXCEPT !.ent[st.idx[k].id].removed = TRUE, !.idx = Without(@, k)]

\* scanAndRunTasks over the list L of slot p, front to back
RECURSIVE Scan(_, _, _, _, _)
Scan(p, L, keep, st, fired) ==
  IF L = <<>> THEN [keep |-> keep, st |-> st, fired |-> fired]
  ELSE LET id == Head(L)
           e  == st.ent[id]
       IN IF e.removed THEN Scan(p, Tail(L), keep, st, fired)
          ELSE IF e.circle > 0
            THEN Scan(p, Tail(L), Append(keep, id), [st EXCEPT !.ent[id].circle = @ - 1], fired)
          ELSE IF e.diff > 0
            THEN LET np == (p + e.diff) % N
                 IN Scan(p, Tail(L), keep,
                         [slots |-> [st.slots EXCEPT ![np] = Append(@, id)],
                          ent   |-> [st.ent EXCEPT ![id].diff = 0],
                          idx   |-> SetPos(st.idx, e.key, np, id)],
                         fired)
          ELSE Scan(p, Tail(L), keep,
                    IF DelAt = "tick" THEN [st EXCEPT !.idx = Without(@, e.key)] ELSE st,
                    Append(fired, <<e.key, e.val>>))

CbIInit ==
  /\ CInit
  /\ pos = N - 1
  /\ slots = [p \in 0..(N-1) |-> <<>>]
  /\ ent = <<>>
  /\ idx = <<>>
  /\ batches = <<>>
  /\ hist = <<>>

\* ---- operations (actor a: Outside or an executing callback) ----
JA(a) == IF a = Outside THEN <<>> ELSE a

ISet(a, k, v, s) ==
  /\ CSet(a, k, v, s)
  /\ Apply(SetTask(Cur, k, v, s))
  /\ UNCHANGED <<pos, batches>>
  /\ hist' = Append(hist, [op |-> "set", k |-> k, v |-> v, s |-> s, a |-> JA(a)])

IMove(a, k, s) ==
  /\ CMove(a, k, s)
  /\ Apply(MoveTask(Cur, k, s))
  /\ UNCHANGED <<pos, batches>>
  /\ hist' = Append(hist, [op |-> "move", k |-> k, v |-> 0, s |-> s, a |-> JA(a)])

IRemove(a, k) ==
  /\ CRemove(a, k)
  /\ Apply(RemoveTask(Cur, k))
  /\ UNCHANGED <<pos, batches>>
  /\ hist' = Append(hist, [op |-> "remove", k |-> k, v |-> 0, s |-> 0, a |-> JA(a)])

\* onTick; the fired tasks go to a new goroutine
ITick ==
  LET p == (pos + 1) % N
      r == Scan(p, slots[p], <<>>, Cur, <<>>)
  IN /\ pos' = p
     /\ Apply([r.st EXCEPT !.slots[p] = r.keep])
     /\ batches' = IF r.fired = <<>> THEN batches ELSE Append(batches, [tasks |-> r.fired, run |-> FALSE])
     /\ CTick
     /\ hist' = Append(hist, [op |-> "tick", k |-> 0, v |-> 0, s |-> 0, a |-> <<>>])

DropEmpty(bs) == SelectSeq(bs, LAMBDA b : b.tasks # <<>>)

\* the goroutine of batch b calls execute for its next task ...
ICbBegin(b) ==
  LET t == Head(batches[b].tasks) IN
  /\ ~batches[b].run
  /\ batches' = [batches EXCEPT ![b].run = TRUE]
  /\ CBegin(t)
  /\ IF DelAt = "cbbegin" THEN Apply([Cur EXCEPT !.idx = Without(@, t[1])]) ELSE UNCHANGED <<slots, ent, idx>>
  /\ UNCHANGED pos
  /\ hist' = Append(hist, [op |-> "begin", k |-> t[1], v |-> t[2], s |-> 0, a |-> <<>>])

\* ... and execute returns
ICbEnd(b) ==
  LET t == Head(batches[b].tasks) IN
  /\ batches[b].run
  /\ batches' = DropEmpty([batches EXCEPT ![b] = [tasks |-> Tail(@.tasks), run |-> FALSE]])
  /\ CEnd(t)
  /\ IF DelAt = "cbend" THEN Apply([Cur EXCEPT !.idx = Without(@, t[1])]) ELSE UNCHANGED <<slots, ent, idx>>
  /\ UNCHANGED pos
  /\ hist' = Append(hist, [op |-> "end", k |-> t[1], v |-> t[2], s |-> 0, a |-> <<>>])

\* Actors = "outside": only goroutines outside the wheel issue operations;
\* Actors = "any": an executing callback issues them as well
ActorSet == IF Actors = "any" THEN {Outside} \cup active ELSE {Outside}

\* TLC only: with a VIEW the state variables themselves are never fingerprinted, so function values
\* built by [x \in S |-> e] stay unevaluated in the queued states and TLC cannot spill its queue to
\* disk.  Comparing them forces their evaluation; the conjunct is TRUE.
Evaluated == slots' = slots' /\ ent' = ent' /\ idx' = idx' /\ due' = due' /\ batches' = batches'

CbINext ==
  /\ Len(hist) < MaxOps
  /\ \/ \E a \in ActorSet, k \in Keys, s \in 1..MaxSteps : ISet(a, k, Len(hist) + 1, s)
     \/ \E a \in ActorSet, k \in Keys, s \in 1..MaxSteps : IMove(a, k, s)
     \/ \E a \in ActorSet, k \in Keys : IRemove(a, k)
     \/ ITick
     \/ \E b \in DOMAIN batches : ICbBegin(b) \/ ICbEnd(b)
  /\ Evaluated

CbISpec == CbIInit /\ [][CbINext]_cbivars

\* ---- refinement ----
Live == {id \in InSlots(slots) : ~ent[id].removed}
LiveOf(k) == {id \in Live : ent[id].key = k}
SlotOf(id) == CHOOSE p \in 0..(N-1) : id \in Range(slots[p])
Remaining(id) == Dist(SlotOf(id)) + ent[id].circle * N + ent[id].diff

\* what is pending in the slots is what is pending in the abstract wheel, due at the same tick,
\* with the same value
SlotsRefine ==
  /\ \A k \in Keys : Cardinality(LiveOf(k)) = IF k \in Pending THEN 1 ELSE 0
  /\ \A k \in Pending : \A id \in LiveOf(k) :
       /\ ent[id].val = due[k].val
       /\ Remaining(id) = due[k].at - tick
\* the map knows exactly the pending keys and points at their live entry
MapRefines ==
  /\ DOMAIN idx = Pending
  /\ \A k \in Pending : \A id \in LiveOf(k) : idx[k].id = id /\ idx[k].pos = SlotOf(id)
\* what the firing goroutines hold is what the abstract wheel owes
AllTasks == UNION {Range(batches[b].tasks) : b \in DOMAIN batches}
Running == {Head(batches[b].tasks) : b \in {x \in DOMAIN batches : batches[x].run}}
FiresRefine == AllTasks = owed \cup active /\ Running = active

CbRefines == SlotsRefine /\ MapRefines /\ FiresRefine
\* the observable part only (used by the counterexample configs: the first state in which the
\* implementation fires something else than the abstract wheel, or holds a different pending set)
Observable == SlotsRefine /\ FiresRefine

CbWellFormed ==
  /\ \A id \in DOMAIN ent : ent[id].circle >= 0 /\ ent[id].diff \in 0..(N-1)
  /\ \A p \in 0..(N-1) : \A i, j \in DOMAIN slots[p] : i # j => slots[p][i] # slots[p][j]
  /\ \A p, q \in 0..(N-1) : p # q => Range(slots[p]) \cap Range(slots[q]) = {}

\* ---- test generation ----
\* Values only matter up to equality; they are replaced by their rank among the values present,
\* so that two states that differ in WHEN (at which operation number) a value was set are one state.
Vals == {ent[i].val : i \in DOMAIN ent} \cup {due[k].val : k \in Pending}
        \cup {p[2] : p \in owed \cup active}
Rank(v) == Cardinality({w \in Vals : w < v})
RTask(t) == <<t[1], Rank(t[2])>>
\* the actor of the last operation is part of the view when callbacks issue operations, so that
\* "the same state reached by an operation from inside a callback" is a behaviour of its own
LastActor == IF Actors = "any" /\ hist # <<>> /\ hist[Len(hist)].a # <<>>
               THEN <<hist[Len(hist)].a[1]>> ELSE <<>>
CbView ==
  <<pos, slots,
    [i \in DOMAIN ent |-> [ent[i] EXCEPT !.val = Rank(@)]],
    idx,
    [b \in DOMAIN batches |-> [tasks |-> [j \in DOMAIN batches[b].tasks |-> RTask(batches[b].tasks[j])],
                               run |-> batches[b].run]],
    [k \in Pending |-> <<due[k].at - tick, Rank(due[k].val)>>],
    {RTask(p) : p \in owed}, {RTask(p) : p \in active}, LastActor>>

\* Coarser view for test generation: entry identities and tombstones are dropped (a tombstone is
\* only ever skipped by the scan and nothing points at it), the map is reduced to "where does it
\* say the key is, and is that the live entry".
LiveSeq(p) == SelectSeq(slots[p], LAMBDA id : ~ent[id].removed)
GenView ==
  <<pos,
    [p \in 0..(N-1) |-> [j \in DOMAIN LiveSeq(p) |->
        LET e == ent[LiveSeq(p)[j]] IN <<e.key, Rank(e.val), e.circle, e.diff>>]],
    [k \in DOMAIN idx |-> <<idx[k].pos, idx[k].id \in Live>>],
    [b \in DOMAIN batches |-> [tasks |-> [j \in DOMAIN batches[b].tasks |-> RTask(batches[b].tasks[j])],
                               run |-> batches[b].run]],
    {RTask(p) : p \in owed}, {RTask(p) : p \in active}, LastActor>>

\* only behaviours in which some callback window was open are printed: the others are the
\* business of WheelImpl.tla
HasWindow == \E i \in DOMAIN hist : hist[i].op = "begin"
CbPrintHist == (Emit /\ HasWindow) => PrintT("TRACE " \o ToJson(hist))
=============================================================================
