SPECIFICATION CbISpec
CONSTANTS
  N = 2
  Keys = {1, 2}
  MaxSteps = 5
  MaxOps = 6
  DelAt = "tick"
  Actors = "any"
  Emit = FALSE
INVARIANTS CbRefines CbWellFormed OwedOnce InFlightNotPending NeverOverdue FiresOnlyDue
VIEW CbView
CHECK_DEADLOCK FALSE
