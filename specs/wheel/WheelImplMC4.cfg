SPECIFICATION ISpec
CONSTANTS
  N = 4
  Keys = {1, 2}
  MaxSteps = 9
  MaxOps = 7
  Variant = "distance"
  Emit = FALSE
INVARIANTS Refines WellFormed NeverOverdue FiresOnlyDue
VIEW View
CHECK_DEADLOCK FALSE
