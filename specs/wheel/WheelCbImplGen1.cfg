SPECIFICATION CbISpec
CONSTANTS
  N = 1
  Keys = {1, 2}
  MaxSteps = 3
  MaxOps = 6
  DelAt = "tick"
  Actors = "any"
  Emit = TRUE
INVARIANTS CbRefines CbWellFormed OwedOnce InFlightNotPending NeverOverdue FiresOnlyDue CbPrintHist
VIEW GenView
CHECK_DEADLOCK FALSE
