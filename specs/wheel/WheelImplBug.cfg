SPECIFICATION ISpec
CONSTANTS
  N = 3
  Keys = {1}
  MaxSteps = 7
  MaxOps = 6
  Variant = "index"
  Emit = FALSE
INVARIANTS Refines
VIEW View
CHECK_DEADLOCK FALSE
