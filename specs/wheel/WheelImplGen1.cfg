SPECIFICATION ISpec
CONSTANTS
  N = 1
  Keys = {1,2}
  MaxSteps = 3
  MaxOps = 5
  Variant = "distance"
  Emit = TRUE
INVARIANTS Refines PrintHist
VIEW View
CHECK_DEADLOCK FALSE
