SPECIFICATION ISpec
CONSTANTS
  N = 4
  Keys = {1,2}
  MaxSteps = 9
  MaxOps = 5
  Variant = "distance"
  Emit = TRUE
INVARIANTS Refines PrintHist
VIEW View
CHECK_DEADLOCK FALSE
