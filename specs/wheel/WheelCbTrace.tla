---------------------------- MODULE WheelCbTrace ----------------------------
(* Trace validation for C12 with callback windows: events recorded from the real
   collection.TimingWheel while its execute callbacks are held at gates, issue wheel
   operations themselves, or are overtaken by operations of other goroutines, must be
   a behaviour of WheelCb.tla.

   Every operation line is written BEFORE the call is made (one call is in flight at
   a time, the run loop of the wheel serialises them, so file order = effect order);
   "cb" is written by the execute callback as its first statement, "cbend" as its
   last.  "settled" is written by the driver when every firing the wheel announced has
   entered its callback (all callbacks of the ticks so far could start and did):
   nothing may be owed then -- this is what pins a firing to its tick.              *)
EXTENDS WheelCb, TraceKit

VARIABLE l
tvars == <<tick, due, out, owed, active, l>>

E == Trace[l]
IsEvent(e) == l <= Len(Trace) /\ E.e = e /\ l' = l + 1

\* actor as recorded: [] or [key, value] of the callback that makes the call
Act == IF Len(E.a) = 0 THEN Outside ELSE <<E.a[1], E.a[2]>>

TReset   == IsEvent("reset") /\ tick' = 0 /\ due' = <<>> /\ out' = {} /\ owed' = {} /\ active' = {}
TSet     == IsEvent("set")     /\ CSet(Act, E.k, E.v, E.s)
TMove    == IsEvent("move")    /\ CMove(Act, E.k, E.s)
TRemove  == IsEvent("remove")  /\ CRemove(Act, E.k)
TTick    == IsEvent("tick")    /\ CTick
TDrain   == IsEvent("drain")   /\ CDrain
TCb      == IsEvent("cb")      /\ CBegin(<<E.k, E.v>>)
TCbEnd   == IsEvent("cbend")   /\ CEnd(<<E.k, E.v>>)
TSettled == IsEvent("settled") /\ owed = {} /\ UNCHANGED cbvars
\* end of a history: every firing was delivered, every callback returned
TEnd     == IsEvent("end")     /\ owed = {} /\ active = {} /\ UNCHANGED cbvars

TInit == CInit /\ l = 1
TNext == TReset \/ TSet \/ TMove \/ TRemove \/ TTick \/ TDrain \/ TCb \/ TCbEnd \/ TSettled \/ TEnd
TSpec == TInit /\ [][TNext]_tvars

HW == HighWater(l)
=============================================================================
