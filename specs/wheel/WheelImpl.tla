----------------------------- MODULE WheelImpl -----------------------------
(* Layer I: the algorithm of core/collection/timingwheel.go -- N slots, a position
   that advances by one per tick, and per timer (slot, circle, diff) with lazy
   relocation -- running in lock-step with the abstract machine of Wheel.tla.
   TLC checks that the implementation fires exactly what Wheel says (Refines) and
   that the remaining-ticks mapping is an invariant.  The same run prints one
   operation history per distinct implementation state (shortest path, BFS), which
   the Go driver replays on the real TimingWheel ("one test per reachable state").

   Variant = "index"    : moveTask as in go-zero before the fix (compares slot indices)
   Variant = "distance" : compares distances from the current position (the fix)      *)
EXTENDS Wheel, Json

CONSTANTS N, Keys, MaxSteps, MaxOps, Variant, Emit

VARIABLES
  pos,     \* tickedPos
  tm,      \* key |-> [slot, circle, diff]  (the live timingEntry of the key)
  hist     \* operation history (for test generation; hidden by the VIEW)

ivars == <<pos, tm>>
vars == <<tick, due, out, pos, tm, hist>>

Dist(p) == ((p - pos + N - 1) % N) + 1          \* ticks until slot p is scanned: 1..N
PosCircle(s) == [slot |-> (pos + s) % N, circle |-> (s - 1) \div N]

IInit == WInit /\ pos = N - 1 /\ tm = <<>> /\ hist = <<>>

MoveEntry(t, s) ==
  LET pc == PosCircle(s)
      d  == IF Variant = "distance" THEN Dist(pc.slot) - Dist(t.slot) ELSE pc.slot - t.slot
  IN IF d >= 0 THEN [slot |-> t.slot, circle |-> pc.circle, diff |-> d]
     ELSE IF pc.circle > 0 THEN [slot |-> t.slot, circle |-> pc.circle - 1, diff |-> N + d]
     ELSE [slot |-> pc.slot, circle |-> 0, diff |-> 0]    \* old entry marked removed, new one pushed

ISet(k, v, s) ==
  /\ WSet(k, v, s)
  /\ tm' = IF k \in DOMAIN tm
             THEN [tm EXCEPT ![k] = MoveEntry(tm[k], s)]
             ELSE [x \in DOMAIN tm \cup {k} |->
                     IF x = k THEN [slot |-> PosCircle(s).slot, circle |-> PosCircle(s).circle, diff |-> 0]
                     ELSE tm[x]]
  /\ UNCHANGED pos
  /\ hist' = Append(hist, [op |-> "set", k |-> k, v |-> v, s |-> s])

IMove(k, s) ==
  /\ WMove(k, s)
  /\ tm' = IF k \in DOMAIN tm THEN [tm EXCEPT ![k] = MoveEntry(tm[k], s)] ELSE tm
  /\ UNCHANGED pos
  /\ hist' = Append(hist, [op |-> "move", k |-> k, s |-> s])

IRemove(k) ==
  /\ WRemove(k)
  /\ tm' = Restrict(tm, DOMAIN tm \ {k})
  /\ UNCHANGED pos
  /\ hist' = Append(hist, [op |-> "remove", k |-> k])

\* onTick / scanAndRunTasks.  The implementation's fire set must be what Wheel fires.
ScanFire(p) == {k \in DOMAIN tm : tm[k].slot = p /\ tm[k].circle = 0 /\ tm[k].diff = 0}
ITick ==
  LET p == (pos + 1) % N
      fire == ScanFire(p)
  IN /\ pos' = p
     /\ tm' = [k \in DOMAIN tm \ fire |->
                 IF tm[k].slot # p THEN tm[k]
                 ELSE IF tm[k].circle > 0 THEN [tm[k] EXCEPT !.circle = @ - 1]
                 ELSE [slot |-> (p + tm[k].diff) % N, circle |-> 0, diff |-> 0]]
     /\ WTick
     /\ hist' = Append(hist, [op |-> "tick"])

INext ==
  /\ Len(hist) < MaxOps
  /\ \/ \E k \in Keys, s \in 1..MaxSteps : ISet(k, Len(hist) + 1, s)
     \/ \E k \in Keys, s \in 1..MaxSteps : IMove(k, s)
     \/ \E k \in Keys : IRemove(k)
     \/ ITick

ISpec == IInit /\ [][INext]_vars

\* ---- refinement: implementation state maps onto the abstract due ticks ----
Remaining(k) == Dist(tm[k].slot) + tm[k].circle * N + tm[k].diff
Refines ==
  /\ DOMAIN tm = Pending
  /\ \A k \in Pending : Remaining(k) = due[k].at - tick
WellFormed == \A k \in DOMAIN tm : tm[k].slot \in 0..(N-1) /\ tm[k].circle >= 0 /\ tm[k].diff \in 0..(N-1)

\* ---- test generation: print the history once per distinct implementation state ----
View == <<pos, tm, [k \in Pending |-> due[k].at - tick]>>
PrintHist == (Emit /\ Len(hist) > 0) => PrintT("TRACE " \o ToJson(hist))
=============================================================================
