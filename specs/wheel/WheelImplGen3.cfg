SPECIFICATION ISpec
CONSTANTS
  N = 3
  Keys = {1,2}
  MaxSteps = 7
  MaxOps = 5
  Variant = "distance"
  Emit = TRUE
INVARIANTS Refines PrintHist
VIEW View
CHECK_DEADLOCK FALSE
