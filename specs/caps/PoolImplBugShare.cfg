SPECIFICATION ISpec
CONSTANTS
  Procs = {1, 2}
  Cap = 2
  Rounds = 1
  MaxAge = 0
  MaxClock = 0
  Variant = "get_nopop"
INVARIANTS Refines CapSafe PermitSafe CreatedCap ExclusiveRes DeadEndsAreProbed
VIEW View
CHECK_DEADLOCK FALSE
