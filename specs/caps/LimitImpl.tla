------------------------------ MODULE LimitImpl ------------------------------
(* Layer I for C05: syncx.Limit as it is written (core/syncx/limit.go) -- a buffered
   channel of capacity n; Borrow = blocking send, TryBorrow = select{send; default},
   Return = select{receive; default: ErrLimitReturn} -- used by goroutines that log the
   Layer-P events the way the Go drivers do: every log line is its own step, strictly
   before / after the channel operation it brackets, so TLC explores every interleaving
   of library steps and logging.  A prober runs the NoLeak probe once everybody is done.

   TLC checks that every published event satisfies its Layer-P guard (Refines) and the
   Layer-P invariants, i.e. (1) the algorithm has the property and (2) Semaphore.tla never
   rejects the correct algorithm, whatever the interleaving (no false alarm by design).

   Variant # "ok" are seeded design errors (documented counterexample configs).          *)
EXTENDS Semaphore

CONSTANTS Procs, Cap, Rounds, Over, Variant

Ticket(p, r) == p * 10 + r
Ev(e, p) == [e |-> e, p |-> p]

(* --algorithm LimitImpl {
  variables ch = 0,                 \* len(l.pool)
            capx = 0,               \* seeded error "over_grows" only: capacity gained by over-returns
            evn = 0, ev = [e |-> "none"];
  macro emit(r) { ev := r; evn := evn + 1; }

  \* a user goroutine: Rounds times { Borrow | TryBorrow ; region ; Return }, optionally panicking
  \* in the region (the deferred Return still runs)
  process (u \in Procs)
    variables rnd = 0, got = FALSE, err = FALSE, mode = "try";
  {
  u0: while (rnd < Rounds) {
        rnd := rnd + 1;
        with (m \in {"block", "try"}) { mode := m; };
        emit([e |-> "acqStart", p |-> Ticket(self, rnd), mode |-> mode]);
  u1:   if (mode = "block") {
          await ch < Cap + capx \/ Variant = "borrow_nowait";
          ch := ch + 1; got := TRUE;
        } else {
          if (ch < Cap + capx \/ (Variant = "try_offbyone" /\ ch <= Cap)) { ch := ch + 1; got := TRUE; }
          else { got := FALSE; };
        };
  u2:   emit([e |-> "acqEnd", p |-> Ticket(self, rnd), ok |-> got, r |-> 0, code |-> 0]);
        if (got) {
  u3:     emit(Ev("enter", Ticket(self, rnd)));
  u4:     with (h \in {"ret", "panic"}) { emit([e |-> "exit", p |-> Ticket(self, rnd), how |-> h]); };
  u5:     emit(Ev("relStart", Ticket(self, rnd)));
  u6:     if (ch > 0) { if (Variant # "ret_noop") { ch := ch - 1; }; err := FALSE; }
          else { err := TRUE; };
  u7:     emit([e |-> "relEnd", p |-> Ticket(self, rnd), err |-> err]);
        };
      };
  }

  \* somebody returns without having borrowed (only while nothing is out, see Semaphore.tla)
  process (o \in Over)
    variables oerr = FALSE;
  {
  o0: await \A p \in Procs : pc[p] = "Done";
      emit(Ev("relStart", Ticket(self, 0)));
  o1: if (ch > 0) { ch := ch - 1; oerr := FALSE; }
      else { oerr := TRUE; if (Variant = "over_grows") { capx := capx + 1; }; };
  o2: emit([e |-> "relEnd", p |-> Ticket(self, 0), err |-> oerr]);
  }

  \* NoLeak probe: n+1 TryBorrow with nothing else going on
  process (prober = 0)
    variables i = 0, pgot = FALSE;
  {
  q0: await (\A p \in Procs : pc[p] = "Done") /\ (\A p \in Over : pc[p] = "Done");
      emit([e |-> "end", pending |-> <<>>]);
  q1: while (i <= Cap) {
        i := i + 1;
        emit([e |-> "acqStart", p |-> Ticket(0, i), mode |-> "try"]);
  q2:   if (ch < Cap + capx) { ch := ch + 1; pgot := TRUE; } else { pgot := FALSE; };
  q3:   emit([e |-> "acqEnd", p |-> Ticket(0, i), ok |-> pgot, r |-> 0, code |-> 0]);
        if (pgot) {
  q4:     emit(Ev("enter", Ticket(0, i)));
        };
      };
  q5: emit([e |-> "probe"]);
  }
} *)
\* BEGIN TRANSLATION
VARIABLES pc, ch, capx, evn, ev, rnd, got, err, mode, oerr, i, pgot

vars == << pc, ch, capx, evn, ev, rnd, got, err, mode, oerr, i, pgot >>

ProcSet == (Procs) \cup (Over) \cup {0}

Init == (* Global variables *)
        /\ ch = 0
        /\ capx = 0
        /\ evn = 0
        /\ ev = [e |-> "none"]
        (* Process u *)
        /\ rnd = [self \in Procs |-> 0]
        /\ got = [self \in Procs |-> FALSE]
        /\ err = [self \in Procs |-> FALSE]
        /\ mode = [self \in Procs |-> "try"]
        (* Process o *)
        /\ oerr = [self \in Over |-> FALSE]
        (* Process prober *)
        /\ i = 0
        /\ pgot = FALSE
        /\ pc = [self \in ProcSet |-> CASE self \in Procs -> "u0"
                                        [] self \in Over -> "o0"
                                        [] self = 0 -> "q0"]

u0(self) == /\ pc[self] = "u0"
            /\ IF rnd[self] < Rounds
                  THEN /\ rnd' = [rnd EXCEPT ![self] = rnd[self] + 1]
                       /\ \E m \in {"block", "try"}:
                            mode' = [mode EXCEPT ![self] = m]
                       /\ ev' = [e |-> "acqStart", p |-> Ticket(self, rnd'[self]), mode |-> mode'[self]]
                       /\ evn' = evn + 1
                       /\ pc' = [pc EXCEPT ![self] = "u1"]
                  ELSE /\ pc' = [pc EXCEPT ![self] = "Done"]
                       /\ UNCHANGED << evn, ev, rnd, mode >>
            /\ UNCHANGED << ch, capx, got, err, oerr, i, pgot >>

u1(self) == /\ pc[self] = "u1"
            /\ IF mode[self] = "block"
                  THEN /\ ch < Cap + capx \/ Variant = "borrow_nowait"
                       /\ ch' = ch + 1
                       /\ got' = [got EXCEPT ![self] = TRUE]
                  ELSE /\ IF ch < Cap + capx \/ (Variant = "try_offbyone" /\ ch <= Cap)
                             THEN /\ ch' = ch + 1
                                  /\ got' = [got EXCEPT ![self] = TRUE]
                             ELSE /\ got' = [got EXCEPT ![self] = FALSE]
                                  /\ ch' = ch
            /\ pc' = [pc EXCEPT ![self] = "u2"]
            /\ UNCHANGED << capx, evn, ev, rnd, err, mode, oerr, i, pgot >>

u2(self) == /\ pc[self] = "u2"
            /\ ev' = [e |-> "acqEnd", p |-> Ticket(self, rnd[self]), ok |-> got[self], r |-> 0, code |-> 0]
            /\ evn' = evn + 1
            /\ IF got[self]
                  THEN /\ pc' = [pc EXCEPT ![self] = "u3"]
                  ELSE /\ pc' = [pc EXCEPT ![self] = "u0"]
            /\ UNCHANGED << ch, capx, rnd, got, err, mode, oerr, i, pgot >>

u3(self) == /\ pc[self] = "u3"
            /\ ev' = Ev("enter", Ticket(self, rnd[self]))
            /\ evn' = evn + 1
            /\ pc' = [pc EXCEPT ![self] = "u4"]
            /\ UNCHANGED << ch, capx, rnd, got, err, mode, oerr, i, pgot >>

u4(self) == /\ pc[self] = "u4"
            /\ \E h \in {"ret", "panic"}:
                 /\ ev' = [e |-> "exit", p |-> Ticket(self, rnd[self]), how |-> h]
                 /\ evn' = evn + 1
            /\ pc' = [pc EXCEPT ![self] = "u5"]
            /\ UNCHANGED << ch, capx, rnd, got, err, mode, oerr, i, pgot >>

u5(self) == /\ pc[self] = "u5"
            /\ ev' = Ev("relStart", Ticket(self, rnd[self]))
            /\ evn' = evn + 1
            /\ pc' = [pc EXCEPT ![self] = "u6"]
            /\ UNCHANGED << ch, capx, rnd, got, err, mode, oerr, i, pgot >>

u6(self) == /\ pc[self] = "u6"
            /\ IF ch > 0
                  THEN /\ IF Variant # "ret_noop"
                             THEN /\ ch' = ch - 1
                             ELSE /\ TRUE
                                  /\ ch' = ch
                       /\ err' = [err EXCEPT ![self] = FALSE]
                  ELSE /\ err' = [err EXCEPT ![self] = TRUE]
                       /\ ch' = ch
            /\ pc' = [pc EXCEPT ![self] = "u7"]
            /\ UNCHANGED << capx, evn, ev, rnd, got, mode, oerr, i, pgot >>

u7(self) == /\ pc[self] = "u7"
            /\ ev' = [e |-> "relEnd", p |-> Ticket(self, rnd[self]), err |-> err[self]]
            /\ evn' = evn + 1
            /\ pc' = [pc EXCEPT ![self] = "u0"]
            /\ UNCHANGED << ch, capx, rnd, got, err, mode, oerr, i, pgot >>

u(self) == u0(self) \/ u1(self) \/ u2(self) \/ u3(self) \/ u4(self)
              \/ u5(self) \/ u6(self) \/ u7(self)

o0(self) == /\ pc[self] = "o0"
            /\ \A p \in Procs : pc[p] = "Done"
            /\ ev' = Ev("relStart", Ticket(self, 0))
            /\ evn' = evn + 1
            /\ pc' = [pc EXCEPT ![self] = "o1"]
            /\ UNCHANGED << ch, capx, rnd, got, err, mode, oerr, i, pgot >>

o1(self) == /\ pc[self] = "o1"
            /\ IF ch > 0
                  THEN /\ ch' = ch - 1
                       /\ oerr' = [oerr EXCEPT ![self] = FALSE]
                       /\ capx' = capx
                  ELSE /\ oerr' = [oerr EXCEPT ![self] = TRUE]
                       /\ IF Variant = "over_grows"
                             THEN /\ capx' = capx + 1
                             ELSE /\ TRUE
                                  /\ capx' = capx
                       /\ ch' = ch
            /\ pc' = [pc EXCEPT ![self] = "o2"]
            /\ UNCHANGED << evn, ev, rnd, got, err, mode, i, pgot >>

o2(self) == /\ pc[self] = "o2"
            /\ ev' = [e |-> "relEnd", p |-> Ticket(self, 0), err |-> oerr[self]]
            /\ evn' = evn + 1
            /\ pc' = [pc EXCEPT ![self] = "Done"]
            /\ UNCHANGED << ch, capx, rnd, got, err, mode, oerr, i, pgot >>

o(self) == o0(self) \/ o1(self) \/ o2(self)

q0 == /\ pc[0] = "q0"
      /\ (\A p \in Procs : pc[p] = "Done") /\ (\A p \in Over : pc[p] = "Done")
      /\ ev' = [e |-> "end", pending |-> <<>>]
      /\ evn' = evn + 1
      /\ pc' = [pc EXCEPT ![0] = "q1"]
      /\ UNCHANGED << ch, capx, rnd, got, err, mode, oerr, i, pgot >>

q1 == /\ pc[0] = "q1"
      /\ IF i <= Cap
            THEN /\ i' = i + 1
                 /\ ev' = [e |-> "acqStart", p |-> Ticket(0, i'), mode |-> "try"]
                 /\ evn' = evn + 1
                 /\ pc' = [pc EXCEPT ![0] = "q2"]
            ELSE /\ pc' = [pc EXCEPT ![0] = "q5"]
                 /\ UNCHANGED << evn, ev, i >>
      /\ UNCHANGED << ch, capx, rnd, got, err, mode, oerr, pgot >>

q2 == /\ pc[0] = "q2"
      /\ IF ch < Cap + capx
            THEN /\ ch' = ch + 1
                 /\ pgot' = TRUE
            ELSE /\ pgot' = FALSE
                 /\ ch' = ch
      /\ pc' = [pc EXCEPT ![0] = "q3"]
      /\ UNCHANGED << capx, evn, ev, rnd, got, err, mode, oerr, i >>

q3 == /\ pc[0] = "q3"
      /\ ev' = [e |-> "acqEnd", p |-> Ticket(0, i), ok |-> pgot, r |-> 0, code |-> 0]
      /\ evn' = evn + 1
      /\ IF pgot
            THEN /\ pc' = [pc EXCEPT ![0] = "q4"]
            ELSE /\ pc' = [pc EXCEPT ![0] = "q1"]
      /\ UNCHANGED << ch, capx, rnd, got, err, mode, oerr, i, pgot >>

q4 == /\ pc[0] = "q4"
      /\ ev' = Ev("enter", Ticket(0, i))
      /\ evn' = evn + 1
      /\ pc' = [pc EXCEPT ![0] = "q1"]
      /\ UNCHANGED << ch, capx, rnd, got, err, mode, oerr, i, pgot >>

q5 == /\ pc[0] = "q5"
      /\ ev' = [e |-> "probe"]
      /\ evn' = evn + 1
      /\ pc' = [pc EXCEPT ![0] = "Done"]
      /\ UNCHANGED << ch, capx, rnd, got, err, mode, oerr, i, pgot >>

prober == q0 \/ q1 \/ q2 \/ q3 \/ q4 \/ q5

(* Allow infinite stuttering to prevent deadlock on termination. *)
Terminating == /\ \A self \in ProcSet: pc[self] = "Done"
               /\ UNCHANGED vars

Next == prober
           \/ (\E self \in Procs: u(self))
           \/ (\E self \in Over: o(self))
           \/ Terminating

Spec == Init /\ [][Next]_vars

Termination == <>(\A self \in ProcSet: pc[self] = "Done")

\* END TRANSLATION

VARIABLE bad
Observe ==
  IF evn' # evn
    THEN IF bad = <<>> /\ EvOK(ev')
           THEN EvEff(ev') /\ bad' = bad
           ELSE UNCHANGED svars /\ bad' = IF bad = <<>> THEN <<ev'>> ELSE bad
    ELSE UNCHANGED svars /\ bad' = bad
IInit == Init /\ SStart("limit", Cap) /\ bad = <<>>
INext == Next /\ Observe
ISpec == IInit /\ [][INext]_<<vars, svars, bad>>

Refines == bad = <<>>
DeadEndsAreProbed == (~ENABLED Next) => phase = "probed"
View == <<ch, capx, pc, rnd, got, err, mode, oerr, i, pgot, svars, bad>>
=============================================================================
