SPECIFICATION PSpec
CONSTANTS
  Ns = {1, 2}
  D = 5
  MaxAge = 1
  Ticks = {1, 2}
  Hows = {"ret"}
  MaxBlk = 1
INVARIANTS PrintPool PTypeOK
CHECK_DEADLOCK FALSE
