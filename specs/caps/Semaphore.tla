------------------------------ MODULE Semaphore ------------------------------
(* Layer P (property C05): what a concurrency cap of capacity n owes its users,
   phrased over observable events only.  One spec serves every primitive (field
   `kind` of the reset event): syncx.Limit, syncx.TimeoutLimit, syncx.Pool,
   threading.TaskRunner, threading.WorkerGroup, rest/handler.MaxConnsHandler,
   mr (WithWorkers) and fx.Stream.Walk/Parallel workers.

   A *ticket* p is one attempt to get into the guarded region.

     acqStart(p,mode)   logged BEFORE the library is asked (Borrow / TryBorrow / Get / Schedule /
                        ScheduleImmediately / ServeHTTP / item offered to the worker pool);
                        mode: "block" | "try" | "timeout"
     acqEnd(p,ok,r,code)logged AFTER the library admitted p (ok, first statement of the guarded
                        region) or refused it (~ok: false / ErrTaskRunnerBusy / 503 / ErrTimeout)
     enter(p), exit(p,how)   the guarded region (harness callback), how: "ret" | "panic"
     relStart(p)        logged BEFORE the permit/resource is given back (last statement of the region,
                        or before Return / Put is called)
     relEnd(p,err)      logged AFTER the library is known to have completed the release
                        (Return returned / Put returned / ServeHTTP returned / TaskRunner.Wait returned);
                        err: Return reported ErrLimitReturn
     create(r), destroy(r)   Pool's create / destroy callbacks (called while the pool lock is held)
     end(pending)       driver: every gate was opened and it waited for every call to return
     probe              driver: it asked for n+1 admissions with nothing else going on and waited
                        until no further admission happened (NoLeak probe)

   Because an event is logged strictly before / after the library's own step, the log only
   yields bounds on the number o of permits really outstanding at an instant:

          A - Rs  <=  o  <=  As - R          (and 0 <= o <= n in a correct implementation)

     A   acquisitions known to have succeeded          As  acquisitions that may have succeeded
     R   releases known to have completed              Rs  releases that may have completed

   Every answer of the library must be explainable by SOME instant inside its call interval
   (flags full/room/some/zero, refreshed after every event).  For a sequential driver the bounds
   are tight and the guards are exact; for racing goroutines they are necessary conditions, so a
   correct implementation is never rejected whatever the interleaving of library steps and
   logging (checked exhaustively on the Layer-I models LimitImpl, TimeoutLimitImpl, PoolImpl,
   TaskRunnerImpl).

   Nothing here mentions channels, mutexes, condition variables, wait groups, who is woken
   first, or whether a timeout was "really" due: all of that is the implementation's freedom.  *)
EXTENDS Integers, Sequences, FiniteSets, TLC

VARIABLES
  kind,     \* which primitive produced the trace (a string)
  n,        \* configured capacity
  A, As,    \* acquisitions: certainly / possibly succeeded
  R, Rs,    \* releases: certainly / possibly completed
  acq,      \* pending acquire calls:  ticket |-> [mode, full, room]
  rel,      \* pending release calls:  ticket |-> [some, zero]
  holding,  \* tickets certainly holding a permit (acqEnd ok .. relStart)
  inside,   \* tickets inside the guarded region (enter .. exit)
  resOf,    \* Pool: holding ticket |-> resource
  live,     \* Pool: resources created and not destroyed
  dead,     \* Pool: resources destroyed
  phase     \* "run" | "ended" | "probed"

svars == <<kind, n, A, As, R, Rs, acq, rel, holding, inside, resOf, live, dead, phase>>

Drop(f, x) == [y \in DOMAIN f \ {x} |-> f[y]]
EmptyFn == [x \in {} |-> 0]
Modes == {"block", "try", "timeout"}

SInit ==
  /\ kind = "none" /\ n = 1
  /\ A = 0 /\ As = 0 /\ R = 0 /\ Rs = 0
  /\ acq = EmptyFn /\ rel = EmptyFn
  /\ holding = {} /\ inside = {} /\ resOf = EmptyFn /\ live = {} /\ dead = {}
  /\ phase = "run"

\* initial condition of a Layer-I model: an object of kind k and capacity cap
SStart(k, cap) ==
  /\ kind = k /\ n = cap
  /\ A = 0 /\ As = 0 /\ R = 0 /\ Rs = 0
  /\ acq = EmptyFn /\ rel = EmptyFn
  /\ holding = {} /\ inside = {} /\ resOf = EmptyFn /\ live = {} /\ dead = {}
  /\ phase = "run"

\* a new history on a new object (trace validation: many traces per TLC run)
SReset(k, cap) ==
  /\ cap >= 1
  /\ kind' = k /\ n' = cap
  /\ A' = 0 /\ As' = 0 /\ R' = 0 /\ Rs' = 0
  /\ acq' = EmptyFn /\ rel' = EmptyFn
  /\ holding' = {} /\ inside' = {} /\ resOf' = EmptyFn /\ live' = {} /\ dead' = {}
  /\ phase' = "run"

\* ---- what an instant with counters (a, as, r, rs) can explain ------------------------------
Full(as, r) == as - 1 - r >= n        \* all n permits may be out, not counting the asking ticket
Room(a, rs) == a - rs <= n - 1        \* fewer than n permits may be out
Some(as, r) == as - r >= 1            \* at least one permit may be out
Zero(a, rs) == a - (rs - 1) <= 0      \* no permit may be out, not counting the returning call itself

\* new counters + refreshed flags of the calls that are pending afterwards
Upd(a, as, r, rs, acq2, rel2) ==
  /\ A' = a /\ As' = as /\ R' = r /\ Rs' = rs
  /\ acq' = [p \in DOMAIN acq2 |->
               [acq2[p] EXCEPT !.full = @ \/ Full(as, r), !.room = @ \/ Room(a, rs)]]
  /\ rel' = [p \in DOMAIN rel2 |->
               [rel2[p] EXCEPT !.some = @ \/ Some(as, r), !.zero = @ \/ Zero(a, rs)]]

Known(p) == p \in DOMAIN acq \/ p \in holding \/ p \in DOMAIN rel

\* ---------------------------------------------------------------- acquire
AcqStartOK(p, mode) == mode \in Modes /\ ~Known(p) /\ phase # "probed"
AcqStartEff(p, mode) ==
  /\ Upd(A, As + 1, R, Rs, (p :> [mode |-> mode, full |-> FALSE, room |-> FALSE]) @@ acq, rel)
  /\ UNCHANGED <<kind, n, holding, inside, resOf, live, dead, phase>>

\* ADMISSION: "requests beyond the cap are ... never admitted": at some instant of the call fewer
\* than n permits were out.  Pool: the resource exists and no other user certainly has it.
AcqOkOK(p, r) ==
  /\ p \in DOMAIN acq
  /\ acq[p].room
  /\ kind = "pool" => /\ r \in live
                      /\ \A q \in holding : resOf[q] # r
AcqOkEff(p, r) ==
  /\ Upd(A + 1, As, R, Rs, Drop(acq, p), rel)
  /\ holding' = holding \cup {p}
  /\ resOf' = (p :> r) @@ resOf
  /\ UNCHANGED <<kind, n, inside, live, dead, phase>>

\* REFUSAL: only a request beyond the cap is refused (otherwise capacity has leaked): at some
\* instant of the call all n permits may have been out.  A borrow with a timeout may also give
\* up for no other reason than time (the property does not forbid a spurious ErrTimeout); a
\* blocking acquire never fails.  The REST middleware refuses with 503.
AcqFailOK(p, code) ==
  /\ p \in DOMAIN acq
  /\ acq[p].mode # "block"
  /\ acq[p].mode = "try" => acq[p].full
  /\ kind = "maxconns" => code = 503
AcqFailEff(p) ==
  /\ Upd(A, As - 1, R, Rs, Drop(acq, p), rel)
  /\ UNCHANGED <<kind, n, holding, inside, resOf, live, dead, phase>>

\* ---------------------------------------------------------------- guarded region
EnterOK(p) == p \in holding /\ p \notin inside
EnterEff(p) == inside' = inside \cup {p} /\ UNCHANGED <<kind, n, A, As, R, Rs, acq, rel, holding, resOf, live, dead, phase>>

\* leaving by panic is leaving
ExitOK(p, how) == p \in inside /\ how \in {"ret", "panic"}
ExitEff(p) == inside' = inside \ {p} /\ UNCHANGED <<kind, n, A, As, R, Rs, acq, rel, holding, resOf, live, dead, phase>>

\* ---------------------------------------------------------------- release
\* (a release by a ticket that holds nothing is an over-return; the driver only does that on purpose)
RelStartOK(p) == p \notin inside /\ p \notin DOMAIN rel /\ p \notin DOMAIN acq
RelStartEff(p) ==
  /\ Upd(A, As, R, Rs + 1, acq, (p :> [some |-> FALSE, zero |-> FALSE]) @@ rel)
  /\ holding' = holding \ {p}
  /\ resOf' = IF p \in DOMAIN resOf THEN Drop(resOf, p) ELSE resOf
  /\ UNCHANGED <<kind, n, inside, live, dead, phase>>

\* a release is accepted only if something may have been out
RelOkOK(p) == p \in DOMAIN rel /\ rel[p].some
RelOkEff(p) ==
  /\ Upd(A, As, R + 1, Rs, acq, Drop(rel, p))
  /\ UNCHANGED <<kind, n, holding, inside, resOf, live, dead, phase>>

\* OVER-RETURN: an error is reported only if nothing may have been out; it changes nothing
\* (that it "never raises the capacity" is then judged by the admission guard: the (n+1)-th
\* request of the probe must still be refused / stay blocked)
RelErrOK(p) == p \in DOMAIN rel /\ rel[p].zero /\ kind \in {"limit", "tlimit"}
RelErrEff(p) ==
  /\ Upd(A, As, R, Rs - 1, acq, Drop(rel, p))
  /\ UNCHANGED <<kind, n, holding, inside, resOf, live, dead, phase>>

\* ---------------------------------------------------------------- Pool resources
CreateOK(r) == kind = "pool" /\ r \notin live /\ r \notin dead
CreateEff(r) == live' = live \cup {r} /\ UNCHANGED <<kind, n, A, As, R, Rs, acq, rel, holding, inside, resOf, dead, phase>>

\* only a resource nobody certainly holds is destroyed (expiry of idle resources is the pool's freedom)
DestroyOK(r) == kind = "pool" /\ r \in live /\ \A q \in holding : resOf[q] # r
DestroyEff(r) == live' = live \ {r} /\ dead' = dead \cup {r}
                 /\ UNCHANGED <<kind, n, A, As, R, Rs, acq, rel, holding, inside, resOf, phase>>

\* ---------------------------------------------------------------- quiescence and the NoLeak probe
\* primitives whose release happens inside the library some time after the holder's callback
\* returned and is never reported back (worker pools private to one call): their relEnd events
\* are only logged once the whole library call has returned, i.e. after the probe
AsyncRel == kind \in {"fx", "mr", "mrfe", "wgroup"}
\* every gate was opened: every call has returned, nobody is left inside, the books balance
EndOK(pending) ==
  /\ pending = <<>>
  /\ acq = EmptyFn /\ holding = {} /\ inside = {}
  /\ A - Rs = 0
  /\ AsyncRel \/ (rel = EmptyFn /\ As - R = 0)
EndEff == phase' = "ended" /\ UNCHANGED <<kind, n, A, As, R, Rs, acq, rel, holding, inside, resOf, live, dead>>

\* NoLeak: after an `end`, the driver asked for n+1 admissions one after the other and nothing
\* else; exactly n tickets are inside (the refusal / blocking of the extra one is judged by
\* AcqOkOK / AcqFailOK, which are exact here)
ProbeOK ==
  /\ phase = "ended"
  /\ Cardinality(inside) = n /\ holding = inside
  /\ AsyncRel \/ rel = EmptyFn
  /\ A - Rs = n
  /\ \A p \in DOMAIN acq : acq[p].mode = "block"
ProbeEff == phase' = "probed" /\ UNCHANGED <<kind, n, A, As, R, Rs, acq, rel, holding, inside, resOf, live, dead>>

\* ---------------------------------------------------------------- invariants (the property)
CapSafe      == Cardinality(inside) <= n            \* never more than n holders inside
PermitSafe   == A - Rs <= n                         \* never more than n permits certainly out
CreatedCap   == Cardinality(live) <= n              \* Pool: created <= limit
ExclusiveRes == \A p, q \in holding : p # q /\ kind = "pool" => resOf[p] # resOf[q]
InsideHolds  == inside \subseteq holding
STypeOK ==
  /\ n \in Nat \ {0} /\ A \in Nat /\ As \in Nat /\ R \in Nat
  /\ phase \in {"run", "ended", "probed"}
  /\ DOMAIN resOf = holding

\* ---------------------------------------------------------------- dispatch on an event record
\* (used by the Layer-I models: they publish the same records the Go drivers log)
EvOK(e) ==
  CASE e.e = "acqStart" -> AcqStartOK(e.p, e.mode)
    [] e.e = "acqEnd"   -> IF e.ok THEN AcqOkOK(e.p, e.r) ELSE AcqFailOK(e.p, e.code)
    [] e.e = "enter"    -> EnterOK(e.p)
    [] e.e = "exit"     -> ExitOK(e.p, e.how)
    [] e.e = "relStart" -> RelStartOK(e.p)
    [] e.e = "relEnd"   -> IF e.err THEN RelErrOK(e.p) ELSE RelOkOK(e.p)
    [] e.e = "create"   -> CreateOK(e.r)
    [] e.e = "destroy"  -> DestroyOK(e.r)
    [] e.e = "end"      -> EndOK(e.pending)
    [] e.e = "probe"    -> ProbeOK
    [] OTHER            -> FALSE

EvEff(e) ==
  CASE e.e = "acqStart" -> AcqStartEff(e.p, e.mode)
    [] e.e = "acqEnd"   -> IF e.ok THEN AcqOkEff(e.p, e.r) ELSE AcqFailEff(e.p)
    [] e.e = "enter"    -> EnterEff(e.p)
    [] e.e = "exit"     -> ExitEff(e.p)
    [] e.e = "relStart" -> RelStartEff(e.p)
    [] e.e = "relEnd"   -> IF e.err THEN RelErrEff(e.p) ELSE RelOkEff(e.p)
    [] e.e = "create"   -> CreateEff(e.r)
    [] e.e = "destroy"  -> DestroyEff(e.r)
    [] e.e = "end"      -> EndEff
    [] e.e = "probe"    -> ProbeEff
    [] OTHER            -> UNCHANGED svars
=============================================================================
