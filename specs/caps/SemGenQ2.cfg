SPECIFICATION GSpec
CONSTANTS
  N = 2
  D = 4
  MaxBlk = 1
  Modes = {"try", "block", "timeout"}
  Hows = {"ret", "panic"}
  WithOver = TRUE
INVARIANTS PrintHist
CHECK_DEADLOCK FALSE
