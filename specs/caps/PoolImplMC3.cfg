SPECIFICATION ISpec
CONSTANTS
  Procs = {1, 2, 3}
  Cap = 2
  Rounds = 1
  MaxAge = 1
  MaxClock = 2
  Variant = "ok"
INVARIANTS Refines CreatedIsLive CapSafe PermitSafe CreatedCap ExclusiveRes InsideHolds STypeOK DeadEndsAreProbed
VIEW View
CHECK_DEADLOCK FALSE
