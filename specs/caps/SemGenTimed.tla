---------------------------- MODULE SemGenTimed ----------------------------
(* Generation for C05 (spec -> code), extension of SemGen by TIME: an abstract semaphore of
   capacity N whose acquire may carry a deadline, a clock that the environment advances, and
   the two things that can happen between a release and the woken waiter's second attempt
   (the permit is still there / a third party took it).

   SemGen only knows timed acquires that give up at once (x = "ref").  Here a timed acquire at
   full capacity may also PARK (x = "park") with deadline now + T.  The clock is the
   implementation's clock (hook H1, timex.VerifNow), advanced only by `tick` steps -- the real
   timer that would end the wait runs on wall-clock time and is much longer than a schedule, so
   "the deadline has passed on the clock, but the waiter has not been given the CPU yet" is an
   ordinary reachable state here (it is scheduling latency in production).  When a holder
   leaves, the release signals the parked waiter, which then computes rem = deadline - now:

       rem > 0   woken in time                      ("early")
       rem = 0   woken exactly at the deadline      ("edge")
       rem < 0   woken after the deadline           ("late")

   and, before it retries, a third party may take the permit (steal = 1: a try-acquire is
   admitted in the gap; the engine holds the waiter inside the clock hook meanwhile).  The
   abstract semaphore's prediction (steering only, never the verdict):

       steal = 0            the waiter is admitted, whatever rem is     (h unchanged)
       steal = 1, rem > 0   the thief is admitted, the waiter parks again with the same deadline
       steal = 1, rem <= 0  the thief is admitted, the waiter gives up

   What the property demands of all of these is judged by TLC on the recorded events against
   Semaphore.tla: a waiter that reports ErrTimeout holds nothing (the books must balance at
   `end`, and the probe must find n free permits), one that is admitted counts against n.

     [op |-> "acq", mode |-> "timeout", x |-> "park"]
     [op |-> "tick", d |-> clock units]
     [op |-> "exit", k, how, w, steal |-> 0 | 1, rem |-> deadline - now]                          *)
EXTENDS SemGen

CONSTANTS MaxTW,    \* timed waiters parked at the same time
          T,        \* their timeout, in clock units
          Ticks     \* amounts by which one tick step may advance the clock

VARIABLES now,      \* the clock
          tw        \* deadlines of the parked timed waiters, in parking order

tvars == <<h, b, hist, now, tw>>

TGInit == GInit /\ now = 0 /\ tw = <<>>

Last == hist[Len(hist)]

\* everything SemGen does, while nobody is parked with a deadline
Untimed ==
  /\ tw = <<>>
  /\ \/ \E m \in Modes : Acq(m)
     \/ \E k \in {0, h - 1}, how \in Hows : k >= 0 /\ Exit(k, how)
     \/ OverRet
  /\ UNCHANGED <<now, tw>>

\* with a timed waiter parked: further non-blocking acquires are refused as before
AcqWhileParked(m) ==
  /\ tw # <<>> /\ m # "block" /\ h >= N
  /\ hist' = Append(hist, [op |-> "acq", mode |-> m, x |-> "ref"])
  /\ UNCHANGED <<h, b, now, tw>>

Park ==
  /\ "timeout" \in Modes /\ h >= N /\ b = 0 /\ Len(tw) < MaxTW
  /\ tw' = Append(tw, now + T)
  /\ hist' = Append(hist, [op |-> "acq", mode |-> "timeout", x |-> "park"])
  /\ UNCHANGED <<h, b, now>>

\* the clock moves while somebody is parked (at most one unit past the earliest deadline,
\* consecutive ticks are one tick)
Tick(d) ==
  /\ tw # <<>> /\ Last.op # "tick"
  /\ now + d <= tw[1] + 1
  /\ now' = now + d
  /\ hist' = Append(hist, [op |-> "tick", d |-> d])
  /\ UNCHANGED <<h, b, tw>>

\* a holder leaves and its release wakes the parked waiter
ExitWake(k, how, steal) ==
  /\ tw # <<>> /\ k < h
  /\ LET rem == tw[1] - now IN
       /\ hist' = Append(hist, [op |-> "exit", k |-> k, how |-> how, w |-> 1 - steal,
                                steal |-> steal, rem |-> rem])
       /\ tw' = IF steal = 1 /\ rem > 0 THEN tw ELSE Tail(tw)
  /\ UNCHANGED <<h, b, now>>

TGNext ==
  /\ Len(hist) < D
  /\ \/ Untimed
     \/ Park
     \/ \E m \in Modes : AcqWhileParked(m)
     \/ \E d \in Ticks : Tick(d)
     \/ \E k \in {0, h - 1}, how \in Hows, steal \in {0, 1} : k >= 0 /\ ExitWake(k, how, steal)
TGSpec == TGInit /\ [][TGNext]_tvars

\* design-level sanity of the abstract semaphore (model-checked by the generation run itself)
TGTypeOK == /\ h \in 0..N
            /\ (b = 0 \/ tw = <<>>)
            /\ now \in Nat /\ Len(tw) <= MaxTW
            /\ tw # <<>> => h = N                  \* somebody waits only while the cap is reached
            /\ \A i \in 1..Len(tw) : now <= tw[i] + 1

\* one schedule per history that contains a wake-up of a timed waiter and does not end in a
\* step that only sets the scene
HasWake == \E i \in 1..Len(hist) : hist[i].op = "exit" /\ "steal" \in DOMAIN hist[i]
PrintTimed == (Len(hist) > 0 /\ HasWake /\ Last.op # "tick" /\ ~(Last.op = "acq" /\ Last.x = "park"))
                => PrintT("TRACE " \o ToJson(hist))
=============================================================================
