------------------------------- MODULE PoolImpl -------------------------------
(* Layer I for C05: syncx.Pool as it is written (core/syncx/pool.go): a mutex, a sync.Cond,
   the counter `created`, the idle list `head` (LIFO, each node stamped with lastUsed) and an
   optional maxAge read from the relative clock (timex.Now, hook H1 in the driver).

     Get:  lock; loop { idle list not empty -> pop; expired -> created--, destroy(item), continue
                                                    else    -> return item
                        created < limit     -> created++, return create()
                        otherwise           -> cond.Wait() }                       ; unlock
     Put:  lock; push [item, now]; cond.Signal(); unlock

   create / destroy are harness callbacks and publish their event while the lock is held: a Get
   that arrives while a callback is running waits for the lock (driven on the real code by the
   schedules of PoolGen, where a second Get is started from inside the callback).  Variant
   "destroy_unlocked" (PoolImplBugUnlocked.cfg, expected counterexample) is the class of defect
   in which a slow callback is run with the lock released and the list / counter are updated
   afterwards: two Gets destroy the same resource, `created` goes below the truth.
   After all users are done a prober asks for n+1 resources one after the other and keeps
   them: the first n must be handed out without parking, the last one must park (NoLeak).   *)
EXTENDS Semaphore

CONSTANTS Procs, Cap, Rounds, MaxAge, MaxClock, Variant

Ticket(p, r) == p * 10 + r
Ev(e, p) == [e |-> e, p |-> p]
PU == 101 .. (101 + Cap)          \* probe users, one Get each, in turn
Last == 101 + Cap

(* --algorithm PoolImpl {
  variables lock = 0, waitq = {}, signaled = {},
            created = 0, idle = <<>>, now = 0, nextRes = 1,
            probing = FALSE, turn = 101,
            evn = 0, ev = [e |-> "none"];
  macro emit(r) { ev := r; evn := evn + 1; }

  process (u \in Procs \cup PU)
    variables rnd = 0, item = [id |-> 0, used |-> 0], rest = <<>>;
  {
  g0: while (rnd < (IF self \in PU THEN 1 ELSE Rounds)) {
        await self \in Procs \/ (probing /\ turn = self);
        rnd := rnd + 1;
        emit([e |-> "acqStart", p |-> Ticket(self, rnd), mode |-> "block"]);
  g1:   await lock = 0; lock := self;
  g2:   if (idle # <<>> /\ Variant = "destroy_unlocked" /\ MaxAge > 0 /\ Head(idle).used + MaxAge < now) {
          \* the class "a callback runs with the lock released and the books are done afterwards"
          item := Head(idle); rest := Tail(idle); lock := 0; goto gd1;
        } else if (idle # <<>>) {
          item := Head(idle);
          if (Variant # "get_nopop") { idle := Tail(idle); };
          if (MaxAge > 0 /\ item.used + MaxAge < now) {
            if (Variant # "expire_nodec") { created := created - 1; };
            emit([e |-> "destroy", r |-> item.id]);
            goto g2;
          } else { goto g5; };
        } else if (created < Cap) {
          created := created + 1;
          item := [id |-> nextRes, used |-> now];
          nextRes := nextRes + 1;
          emit([e |-> "create", r |-> item.id]);
          goto g5;
        } else {
          lock := 0; waitq := waitq \cup {self};       \* cond.Wait: unlock + park, atomically
          if (self \in PU) { turn := turn + 1; };
        };
  g3:   await self \in signaled; signaled := signaled \ {self};
  g4:   await lock = 0; lock := self; goto g2;
  gd1:  emit([e |-> "destroy", r |-> item.id]);
  gd2:  await lock = 0; lock := self; idle := rest; created := created - 1; goto g2;
  g5:   lock := 0;
  g6:   emit([e |-> "acqEnd", p |-> Ticket(self, rnd), ok |-> TRUE, r |-> item.id, code |-> 0]);
  g7:   emit(Ev("enter", Ticket(self, rnd)));
        if (self \in PU) { turn := turn + 1; goto Done; };
  g8:   with (h \in {"ret", "panic"}) { emit([e |-> "exit", p |-> Ticket(self, rnd), how |-> h]); };
  g9:   emit(Ev("relStart", Ticket(self, rnd)));
  p1:   await lock = 0; lock := self;
  p2:   idle := <<[id |-> item.id, used |-> now]>> \o idle;
        if (waitq # {} /\ Variant # "put_nosignal") {
          with (w \in waitq) { waitq := waitq \ {w}; signaled := signaled \cup {w}; };
        };
        lock := 0;
  p3:   emit([e |-> "relEnd", p |-> Ticket(self, rnd), err |-> FALSE]);
      };
  }

  process (clk = 0)
  {
  c0: while (now < MaxClock) { now := now + 1; };
  }

  process (prober = 100)
  {
  q0: await \A p \in Procs : pc[p] = "Done";
      emit([e |-> "end", pending |-> <<>>]);
      probing := TRUE;
  q1: await turn > Last;
      emit([e |-> "probe"]);
  }
} *)
\* BEGIN TRANSLATION
VARIABLES pc, lock, waitq, signaled, created, idle, now, nextRes, probing, 
          turn, evn, ev, rnd, item, rest

vars == << pc, lock, waitq, signaled, created, idle, now, nextRes, probing, 
           turn, evn, ev, rnd, item, rest >>

ProcSet == (Procs \cup PU) \cup {0} \cup {100}

Init == (* Global variables *)
        /\ lock = 0
        /\ waitq = {}
        /\ signaled = {}
        /\ created = 0
        /\ idle = <<>>
        /\ now = 0
        /\ nextRes = 1
        /\ probing = FALSE
        /\ turn = 101
        /\ evn = 0
        /\ ev = [e |-> "none"]
        (* Process u *)
        /\ rnd = [self \in Procs \cup PU |-> 0]
        /\ item = [self \in Procs \cup PU |-> [id |-> 0, used |-> 0]]
        /\ rest = [self \in Procs \cup PU |-> <<>>]
        /\ pc = [self \in ProcSet |-> CASE self \in Procs \cup PU -> "g0"
                                        [] self = 0 -> "c0"
                                        [] self = 100 -> "q0"]

g0(self) == /\ pc[self] = "g0"
            /\ IF rnd[self] < (IF self \in PU THEN 1 ELSE Rounds)
                  THEN /\ self \in Procs \/ (probing /\ turn = self)
                       /\ rnd' = [rnd EXCEPT ![self] = rnd[self] + 1]
                       /\ ev' = [e |-> "acqStart", p |-> Ticket(self, rnd'[self]), mode |-> "block"]
                       /\ evn' = evn + 1
                       /\ pc' = [pc EXCEPT ![self] = "g1"]
                  ELSE /\ pc' = [pc EXCEPT ![self] = "Done"]
                       /\ UNCHANGED << evn, ev, rnd >>
            /\ UNCHANGED << lock, waitq, signaled, created, idle, now, nextRes, 
                            probing, turn, item, rest >>

g1(self) == /\ pc[self] = "g1"
            /\ lock = 0
            /\ lock' = self
            /\ pc' = [pc EXCEPT ![self] = "g2"]
            /\ UNCHANGED << waitq, signaled, created, idle, now, nextRes, 
                            probing, turn, evn, ev, rnd, item, rest >>

g2(self) == /\ pc[self] = "g2"
            /\ IF idle # <<>> /\ Variant = "destroy_unlocked" /\ MaxAge > 0 /\ Head(idle).used + MaxAge < now
                  THEN /\ item' = [item EXCEPT ![self] = Head(idle)]
                       /\ rest' = [rest EXCEPT ![self] = Tail(idle)]
                       /\ lock' = 0
                       /\ pc' = [pc EXCEPT ![self] = "gd1"]
                       /\ UNCHANGED << waitq, created, idle, nextRes, turn, 
                                       evn, ev >>
                  ELSE /\ IF idle # <<>>
                             THEN /\ item' = [item EXCEPT ![self] = Head(idle)]
                                  /\ IF Variant # "get_nopop"
                                        THEN /\ idle' = Tail(idle)
                                        ELSE /\ TRUE
                                             /\ idle' = idle
                                  /\ IF MaxAge > 0 /\ item'[self].used + MaxAge < now
                                        THEN /\ IF Variant # "expire_nodec"
                                                   THEN /\ created' = created - 1
                                                   ELSE /\ TRUE
                                                        /\ UNCHANGED created
                                             /\ ev' = [e |-> "destroy", r |-> item'[self].id]
                                             /\ evn' = evn + 1
                                             /\ pc' = [pc EXCEPT ![self] = "g2"]
                                        ELSE /\ pc' = [pc EXCEPT ![self] = "g5"]
                                             /\ UNCHANGED << created, evn, ev >>
                                  /\ UNCHANGED << lock, waitq, nextRes, turn >>
                             ELSE /\ IF created < Cap
                                        THEN /\ created' = created + 1
                                             /\ item' = [item EXCEPT ![self] = [id |-> nextRes, used |-> now]]
                                             /\ nextRes' = nextRes + 1
                                             /\ ev' = [e |-> "create", r |-> item'[self].id]
                                             /\ evn' = evn + 1
                                             /\ pc' = [pc EXCEPT ![self] = "g5"]
                                             /\ UNCHANGED << lock, waitq, turn >>
                                        ELSE /\ lock' = 0
                                             /\ waitq' = (waitq \cup {self})
                                             /\ IF self \in PU
                                                   THEN /\ turn' = turn + 1
                                                   ELSE /\ TRUE
                                                        /\ turn' = turn
                                             /\ pc' = [pc EXCEPT ![self] = "g3"]
                                             /\ UNCHANGED << created, nextRes, 
                                                             evn, ev, item >>
                                  /\ idle' = idle
                       /\ rest' = rest
            /\ UNCHANGED << signaled, now, probing, rnd >>

g3(self) == /\ pc[self] = "g3"
            /\ self \in signaled
            /\ signaled' = signaled \ {self}
            /\ pc' = [pc EXCEPT ![self] = "g4"]
            /\ UNCHANGED << lock, waitq, created, idle, now, nextRes, probing, 
                            turn, evn, ev, rnd, item, rest >>

g4(self) == /\ pc[self] = "g4"
            /\ lock = 0
            /\ lock' = self
            /\ pc' = [pc EXCEPT ![self] = "g2"]
            /\ UNCHANGED << waitq, signaled, created, idle, now, nextRes, 
                            probing, turn, evn, ev, rnd, item, rest >>

gd1(self) == /\ pc[self] = "gd1"
             /\ ev' = [e |-> "destroy", r |-> item[self].id]
             /\ evn' = evn + 1
             /\ pc' = [pc EXCEPT ![self] = "gd2"]
             /\ UNCHANGED << lock, waitq, signaled, created, idle, now, 
                             nextRes, probing, turn, rnd, item, rest >>

gd2(self) == /\ pc[self] = "gd2"
             /\ lock = 0
             /\ lock' = self
             /\ idle' = rest[self]
             /\ created' = created - 1
             /\ pc' = [pc EXCEPT ![self] = "g2"]
             /\ UNCHANGED << waitq, signaled, now, nextRes, probing, turn, evn, 
                             ev, rnd, item, rest >>

g5(self) == /\ pc[self] = "g5"
            /\ lock' = 0
            /\ pc' = [pc EXCEPT ![self] = "g6"]
            /\ UNCHANGED << waitq, signaled, created, idle, now, nextRes, 
                            probing, turn, evn, ev, rnd, item, rest >>

g6(self) == /\ pc[self] = "g6"
            /\ ev' = [e |-> "acqEnd", p |-> Ticket(self, rnd[self]), ok |-> TRUE, r |-> item[self].id, code |-> 0]
            /\ evn' = evn + 1
            /\ pc' = [pc EXCEPT ![self] = "g7"]
            /\ UNCHANGED << lock, waitq, signaled, created, idle, now, nextRes, 
                            probing, turn, rnd, item, rest >>

g7(self) == /\ pc[self] = "g7"
            /\ ev' = Ev("enter", Ticket(self, rnd[self]))
            /\ evn' = evn + 1
            /\ IF self \in PU
                  THEN /\ turn' = turn + 1
                       /\ pc' = [pc EXCEPT ![self] = "Done"]
                  ELSE /\ pc' = [pc EXCEPT ![self] = "g8"]
                       /\ turn' = turn
            /\ UNCHANGED << lock, waitq, signaled, created, idle, now, nextRes, 
                            probing, rnd, item, rest >>

g8(self) == /\ pc[self] = "g8"
            /\ \E h \in {"ret", "panic"}:
                 /\ ev' = [e |-> "exit", p |-> Ticket(self, rnd[self]), how |-> h]
                 /\ evn' = evn + 1
            /\ pc' = [pc EXCEPT ![self] = "g9"]
            /\ UNCHANGED << lock, waitq, signaled, created, idle, now, nextRes, 
                            probing, turn, rnd, item, rest >>

g9(self) == /\ pc[self] = "g9"
            /\ ev' = Ev("relStart", Ticket(self, rnd[self]))
            /\ evn' = evn + 1
            /\ pc' = [pc EXCEPT ![self] = "p1"]
            /\ UNCHANGED << lock, waitq, signaled, created, idle, now, nextRes, 
                            probing, turn, rnd, item, rest >>

p1(self) == /\ pc[self] = "p1"
            /\ lock = 0
            /\ lock' = self
            /\ pc' = [pc EXCEPT ![self] = "p2"]
            /\ UNCHANGED << waitq, signaled, created, idle, now, nextRes, 
                            probing, turn, evn, ev, rnd, item, rest >>

p2(self) == /\ pc[self] = "p2"
            /\ idle' = <<[id |-> item[self].id, used |-> now]>> \o idle
            /\ IF waitq # {} /\ Variant # "put_nosignal"
                  THEN /\ \E w \in waitq:
                            /\ waitq' = waitq \ {w}
                            /\ signaled' = (signaled \cup {w})
                  ELSE /\ TRUE
                       /\ UNCHANGED << waitq, signaled >>
            /\ lock' = 0
            /\ pc' = [pc EXCEPT ![self] = "p3"]
            /\ UNCHANGED << created, now, nextRes, probing, turn, evn, ev, rnd, 
                            item, rest >>

p3(self) == /\ pc[self] = "p3"
            /\ ev' = [e |-> "relEnd", p |-> Ticket(self, rnd[self]), err |-> FALSE]
            /\ evn' = evn + 1
            /\ pc' = [pc EXCEPT ![self] = "g0"]
            /\ UNCHANGED << lock, waitq, signaled, created, idle, now, nextRes, 
                            probing, turn, rnd, item, rest >>

u(self) == g0(self) \/ g1(self) \/ g2(self) \/ g3(self) \/ g4(self)
              \/ gd1(self) \/ gd2(self) \/ g5(self) \/ g6(self) \/ g7(self)
              \/ g8(self) \/ g9(self) \/ p1(self) \/ p2(self) \/ p3(self)

c0 == /\ pc[0] = "c0"
      /\ IF now < MaxClock
            THEN /\ now' = now + 1
                 /\ pc' = [pc EXCEPT ![0] = "c0"]
            ELSE /\ pc' = [pc EXCEPT ![0] = "Done"]
                 /\ now' = now
      /\ UNCHANGED << lock, waitq, signaled, created, idle, nextRes, probing, 
                      turn, evn, ev, rnd, item, rest >>

clk == c0

q0 == /\ pc[100] = "q0"
      /\ \A p \in Procs : pc[p] = "Done"
      /\ ev' = [e |-> "end", pending |-> <<>>]
      /\ evn' = evn + 1
      /\ probing' = TRUE
      /\ pc' = [pc EXCEPT ![100] = "q1"]
      /\ UNCHANGED << lock, waitq, signaled, created, idle, now, nextRes, turn, 
                      rnd, item, rest >>

q1 == /\ pc[100] = "q1"
      /\ turn > Last
      /\ ev' = [e |-> "probe"]
      /\ evn' = evn + 1
      /\ pc' = [pc EXCEPT ![100] = "Done"]
      /\ UNCHANGED << lock, waitq, signaled, created, idle, now, nextRes, 
                      probing, turn, rnd, item, rest >>

prober == q0 \/ q1

(* Allow infinite stuttering to prevent deadlock on termination. *)
Terminating == /\ \A self \in ProcSet: pc[self] = "Done"
               /\ UNCHANGED vars

Next == clk \/ prober
           \/ (\E self \in Procs \cup PU: u(self))
           \/ Terminating

Spec == Init /\ [][Next]_vars

Termination == <>(\A self \in ProcSet: pc[self] = "Done")

\* END TRANSLATION

VARIABLE bad
Observe ==
  IF evn' # evn
    THEN IF bad = <<>> /\ EvOK(ev')
           THEN EvEff(ev') /\ bad' = bad
           ELSE UNCHANGED svars /\ bad' = IF bad = <<>> THEN <<ev'>> ELSE bad
    ELSE UNCHANGED svars /\ bad' = bad
IInit == Init /\ SStart("pool", Cap) /\ bad = <<>>
INext == Next /\ Observe
ISpec == IInit /\ [][INext]_<<vars, svars, bad>>

Refines == bad = <<>>
\* created is exactly the number of live resources
CreatedIsLive == created = Cardinality(live)
\* NoLeak, design level: a run never gets stuck before the probe is complete (a user or one of
\* the first n probe users parked for good = capacity lost)
DeadEndsAreProbed == (~ENABLED Next) => phase = "probed"
View == <<lock, waitq, signaled, created, idle, now, nextRes, probing, turn, pc, rnd, item, rest, svars, bad>>
=============================================================================
