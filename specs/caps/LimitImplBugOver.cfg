SPECIFICATION ISpec
CONSTANTS
  Procs = {1}
  Over = {7}
  Cap = 1
  Rounds = 1
  Variant = "over_grows"
INVARIANTS Refines CapSafe PermitSafe
VIEW View
CHECK_DEADLOCK FALSE
