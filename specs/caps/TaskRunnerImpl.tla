---------------------------- MODULE TaskRunnerImpl ----------------------------
(* Layer I for C05: threading.TaskRunner as it is written (core/threading/taskrunner.go):
   limitChan (buffered channel of n) + waitGroup.

     Schedule(task):             wg.Add(1); limitChan <- x;                      go run(task)
     ScheduleImmediately(task):  wg.Add(1); select { limitChan <- x: ; default: wg.Done(); return Busy }; go run(task)
     run(task):                  defer rescue.Recover(func() { <-limitChan; wg.Done() }); task()
     Wait():                     wg.Wait()

   The task is the harness callback (acqEnd ok, enter, exit by return or panic, relStart).
   The slot is given back by the library after the callback is gone, so the driver learns that
   releases are complete only from Wait(): the drainer waits until every callback has returned,
   calls Wait, then publishes relEnd for every pending release, `end`, and runs the NoLeak probe
   with n+1 ScheduleImmediately whose tasks stay inside.                                    *)
EXTENDS Semaphore

CONSTANTS Procs, Cap, Rounds, Variant

Ticket(p, r) == p * 10 + r
Ev(e, p) == [e |-> e, p |-> p]

(* --algorithm TaskRunnerImpl {
  variables ch = 0, wg = 0, rnd = [p \in Procs |-> 0],
            evn = 0, ev = [e |-> "none"];
  macro emit(r) { ev := r; evn := evn + 1; }

  process (u \in Procs)
    variables mode = "try", got = FALSE, how = "ret";
  {
  s0: while (rnd[self] < Rounds) {
        rnd[self] := rnd[self] + 1;
        with (m \in {"block", "try"}) { mode := m; };
        emit([e |-> "acqStart", p |-> Ticket(self, rnd[self]), mode |-> mode]);
  s1:   wg := wg + 1;
  s2:   if (mode = "block") { await ch < Cap; ch := ch + 1; got := TRUE; }
        else if (ch < Cap) { ch := ch + 1; got := TRUE; }
        else { wg := wg - 1; got := FALSE; };
  s3:   if (~got) {
          emit([e |-> "acqEnd", p |-> Ticket(self, rnd[self]), ok |-> FALSE, r |-> 0, code |-> 0]);
        } else {
          \* the task goroutine
          emit([e |-> "acqEnd", p |-> Ticket(self, rnd[self]), ok |-> TRUE, r |-> 0, code |-> 0]);
  k2:     emit(Ev("enter", Ticket(self, rnd[self])));
  k3:     with (h \in {"ret", "panic"}) { how := h; emit([e |-> "exit", p |-> Ticket(self, rnd[self]), how |-> h]); };
  k4:     emit(Ev("relStart", Ticket(self, rnd[self])));
          \* deferred cleanup (runs for a panic as well)
  k5:     if (~(Variant = "panic_leak" /\ how = "panic")) { ch := ch - 1; };
  k6:     wg := wg - 1;
        };
      };
  }

  process (prober = 0)
    variables i = 0, pgot = FALSE;
  {
  q0: await \A p \in Procs : pc[p] \in {"k5", "k6", "Done"} /\ (pc[p] # "Done" => rnd[p] = Rounds);
  qw: await wg = 0;                                       \* Wait() returned
  qr: while (rel # EmptyFn) {
        with (p \in DOMAIN rel) { emit([e |-> "relEnd", p |-> p, err |-> FALSE]); };
      };
  qe: emit([e |-> "end", pending |-> <<>>]);
  q1: while (i <= Cap) {
        i := i + 1;
        emit([e |-> "acqStart", p |-> Ticket(0, i), mode |-> "try"]);
  q2:   if (ch < Cap) { wg := wg + 1; ch := ch + 1; pgot := TRUE; } else { pgot := FALSE; };
  q3:   emit([e |-> "acqEnd", p |-> Ticket(0, i), ok |-> pgot, r |-> 0, code |-> 0]);
        if (pgot) {
  q4:     emit(Ev("enter", Ticket(0, i)));
        };
      };
  q5: emit([e |-> "probe"]);
  }
} *)
\* BEGIN TRANSLATION
VARIABLES pc, ch, wg, rnd, evn, ev, mode, got, how, i, pgot

vars == << pc, ch, wg, rnd, evn, ev, mode, got, how, i, pgot >>

ProcSet == (Procs) \cup {0}

Init == (* Global variables *)
        /\ ch = 0
        /\ wg = 0
        /\ rnd = [p \in Procs |-> 0]
        /\ evn = 0
        /\ ev = [e |-> "none"]
        (* Process u *)
        /\ mode = [self \in Procs |-> "try"]
        /\ got = [self \in Procs |-> FALSE]
        /\ how = [self \in Procs |-> "ret"]
        (* Process prober *)
        /\ i = 0
        /\ pgot = FALSE
        /\ pc = [self \in ProcSet |-> CASE self \in Procs -> "s0"
                                        [] self = 0 -> "q0"]

s0(self) == /\ pc[self] = "s0"
            /\ IF rnd[self] < Rounds
                  THEN /\ rnd' = [rnd EXCEPT ![self] = rnd[self] + 1]
                       /\ \E m \in {"block", "try"}:
                            mode' = [mode EXCEPT ![self] = m]
                       /\ ev' = [e |-> "acqStart", p |-> Ticket(self, rnd'[self]), mode |-> mode'[self]]
                       /\ evn' = evn + 1
                       /\ pc' = [pc EXCEPT ![self] = "s1"]
                  ELSE /\ pc' = [pc EXCEPT ![self] = "Done"]
                       /\ UNCHANGED << rnd, evn, ev, mode >>
            /\ UNCHANGED << ch, wg, got, how, i, pgot >>

s1(self) == /\ pc[self] = "s1"
            /\ wg' = wg + 1
            /\ pc' = [pc EXCEPT ![self] = "s2"]
            /\ UNCHANGED << ch, rnd, evn, ev, mode, got, how, i, pgot >>

s2(self) == /\ pc[self] = "s2"
            /\ IF mode[self] = "block"
                  THEN /\ ch < Cap
                       /\ ch' = ch + 1
                       /\ got' = [got EXCEPT ![self] = TRUE]
                       /\ wg' = wg
                  ELSE /\ IF ch < Cap
                             THEN /\ ch' = ch + 1
                                  /\ got' = [got EXCEPT ![self] = TRUE]
                                  /\ wg' = wg
                             ELSE /\ wg' = wg - 1
                                  /\ got' = [got EXCEPT ![self] = FALSE]
                                  /\ ch' = ch
            /\ pc' = [pc EXCEPT ![self] = "s3"]
            /\ UNCHANGED << rnd, evn, ev, mode, how, i, pgot >>

s3(self) == /\ pc[self] = "s3"
            /\ IF ~got[self]
                  THEN /\ ev' = [e |-> "acqEnd", p |-> Ticket(self, rnd[self]), ok |-> FALSE, r |-> 0, code |-> 0]
                       /\ evn' = evn + 1
                       /\ pc' = [pc EXCEPT ![self] = "s0"]
                  ELSE /\ ev' = [e |-> "acqEnd", p |-> Ticket(self, rnd[self]), ok |-> TRUE, r |-> 0, code |-> 0]
                       /\ evn' = evn + 1
                       /\ pc' = [pc EXCEPT ![self] = "k2"]
            /\ UNCHANGED << ch, wg, rnd, mode, got, how, i, pgot >>

k2(self) == /\ pc[self] = "k2"
            /\ ev' = Ev("enter", Ticket(self, rnd[self]))
            /\ evn' = evn + 1
            /\ pc' = [pc EXCEPT ![self] = "k3"]
            /\ UNCHANGED << ch, wg, rnd, mode, got, how, i, pgot >>

k3(self) == /\ pc[self] = "k3"
            /\ \E h \in {"ret", "panic"}:
                 /\ how' = [how EXCEPT ![self] = h]
                 /\ ev' = [e |-> "exit", p |-> Ticket(self, rnd[self]), how |-> h]
                 /\ evn' = evn + 1
            /\ pc' = [pc EXCEPT ![self] = "k4"]
            /\ UNCHANGED << ch, wg, rnd, mode, got, i, pgot >>

k4(self) == /\ pc[self] = "k4"
            /\ ev' = Ev("relStart", Ticket(self, rnd[self]))
            /\ evn' = evn + 1
            /\ pc' = [pc EXCEPT ![self] = "k5"]
            /\ UNCHANGED << ch, wg, rnd, mode, got, how, i, pgot >>

k5(self) == /\ pc[self] = "k5"
            /\ IF ~(Variant = "panic_leak" /\ how[self] = "panic")
                  THEN /\ ch' = ch - 1
                  ELSE /\ TRUE
                       /\ ch' = ch
            /\ pc' = [pc EXCEPT ![self] = "k6"]
            /\ UNCHANGED << wg, rnd, evn, ev, mode, got, how, i, pgot >>

k6(self) == /\ pc[self] = "k6"
            /\ wg' = wg - 1
            /\ pc' = [pc EXCEPT ![self] = "s0"]
            /\ UNCHANGED << ch, rnd, evn, ev, mode, got, how, i, pgot >>

u(self) == s0(self) \/ s1(self) \/ s2(self) \/ s3(self) \/ k2(self)
              \/ k3(self) \/ k4(self) \/ k5(self) \/ k6(self)

q0 == /\ pc[0] = "q0"
      /\ \A p \in Procs : pc[p] \in {"k5", "k6", "Done"} /\ (pc[p] # "Done" => rnd[p] = Rounds)
      /\ pc' = [pc EXCEPT ![0] = "qw"]
      /\ UNCHANGED << ch, wg, rnd, evn, ev, mode, got, how, i, pgot >>

qw == /\ pc[0] = "qw"
      /\ wg = 0
      /\ pc' = [pc EXCEPT ![0] = "qr"]
      /\ UNCHANGED << ch, wg, rnd, evn, ev, mode, got, how, i, pgot >>

qr == /\ pc[0] = "qr"
      /\ IF rel # EmptyFn
            THEN /\ \E p \in DOMAIN rel:
                      /\ ev' = [e |-> "relEnd", p |-> p, err |-> FALSE]
                      /\ evn' = evn + 1
                 /\ pc' = [pc EXCEPT ![0] = "qr"]
            ELSE /\ pc' = [pc EXCEPT ![0] = "qe"]
                 /\ UNCHANGED << evn, ev >>
      /\ UNCHANGED << ch, wg, rnd, mode, got, how, i, pgot >>

qe == /\ pc[0] = "qe"
      /\ ev' = [e |-> "end", pending |-> <<>>]
      /\ evn' = evn + 1
      /\ pc' = [pc EXCEPT ![0] = "q1"]
      /\ UNCHANGED << ch, wg, rnd, mode, got, how, i, pgot >>

q1 == /\ pc[0] = "q1"
      /\ IF i <= Cap
            THEN /\ i' = i + 1
                 /\ ev' = [e |-> "acqStart", p |-> Ticket(0, i'), mode |-> "try"]
                 /\ evn' = evn + 1
                 /\ pc' = [pc EXCEPT ![0] = "q2"]
            ELSE /\ pc' = [pc EXCEPT ![0] = "q5"]
                 /\ UNCHANGED << evn, ev, i >>
      /\ UNCHANGED << ch, wg, rnd, mode, got, how, pgot >>

q2 == /\ pc[0] = "q2"
      /\ IF ch < Cap
            THEN /\ wg' = wg + 1
                 /\ ch' = ch + 1
                 /\ pgot' = TRUE
            ELSE /\ pgot' = FALSE
                 /\ UNCHANGED << ch, wg >>
      /\ pc' = [pc EXCEPT ![0] = "q3"]
      /\ UNCHANGED << rnd, evn, ev, mode, got, how, i >>

q3 == /\ pc[0] = "q3"
      /\ ev' = [e |-> "acqEnd", p |-> Ticket(0, i), ok |-> pgot, r |-> 0, code |-> 0]
      /\ evn' = evn + 1
      /\ IF pgot
            THEN /\ pc' = [pc EXCEPT ![0] = "q4"]
            ELSE /\ pc' = [pc EXCEPT ![0] = "q1"]
      /\ UNCHANGED << ch, wg, rnd, mode, got, how, i, pgot >>

q4 == /\ pc[0] = "q4"
      /\ ev' = Ev("enter", Ticket(0, i))
      /\ evn' = evn + 1
      /\ pc' = [pc EXCEPT ![0] = "q1"]
      /\ UNCHANGED << ch, wg, rnd, mode, got, how, i, pgot >>

q5 == /\ pc[0] = "q5"
      /\ ev' = [e |-> "probe"]
      /\ evn' = evn + 1
      /\ pc' = [pc EXCEPT ![0] = "Done"]
      /\ UNCHANGED << ch, wg, rnd, mode, got, how, i, pgot >>

prober == q0 \/ qw \/ qr \/ qe \/ q1 \/ q2 \/ q3 \/ q4 \/ q5

(* Allow infinite stuttering to prevent deadlock on termination. *)
Terminating == /\ \A self \in ProcSet: pc[self] = "Done"
               /\ UNCHANGED vars

Next == prober
           \/ (\E self \in Procs: u(self))
           \/ Terminating

Spec == Init /\ [][Next]_vars

Termination == <>(\A self \in ProcSet: pc[self] = "Done")

\* END TRANSLATION

VARIABLE bad
Observe ==
  IF evn' # evn
    THEN IF bad = <<>> /\ EvOK(ev')
           THEN EvEff(ev') /\ bad' = bad
           ELSE UNCHANGED svars /\ bad' = IF bad = <<>> THEN <<ev'>> ELSE bad
    ELSE UNCHANGED svars /\ bad' = bad
IInit == Init /\ SStart("taskrunner", Cap) /\ bad = <<>>
INext == Next /\ Observe
ISpec == IInit /\ [][INext]_<<vars, svars, bad>>

Refines == bad = <<>>
DeadEndsAreProbed == (~ENABLED Next) => phase = "probed"
View == <<ch, wg, pc, rnd, mode, got, how, i, pgot, svars, bad>>
=============================================================================
