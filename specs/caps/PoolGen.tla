------------------------------- MODULE PoolGen -------------------------------
(* Generation for C05 (spec -> code), syncx.Pool with TIME and SLOW CALLBACKS: an abstract pool
   of capacity N whose idle resources carry the time they were put back, a clock that the
   environment advances (hook H1, timex.VerifNow, owned by the driver), expiry after MaxAge, and
   the one interleaving a sequential schedule cannot express: a second Get that arrives WHILE
   the create / destroy callback of the first one is running (callbacks are user code and may
   take long; the pool calls them in the middle of Get).

   SemGen's schedules are replayed on the Pool with a clock that moves by a fixed pattern; here
   the clock and the ages are part of the model, so "put back, still fresh / exactly MaxAge old
   / expired when the next Get looks at it" and "how many idle resources a Get destroys before
   it is served" are enumerated, and every Get that runs a callback comes in two flavours:

     intr = 0   nothing else happens during the callback
     intr = 1   the engine starts another Get from inside the first callback of this Get and
                gives it a moment before the callback returns.  What the abstract pool
                predicts (steering only): both Gets are served as if they had come one after
                the other (x for the first, x2 for the intruder).

   The verdict never comes from these predictions: the recorded create / destroy / acquire /
   release events are validated by TLC against Semaphore.tla (a resource is destroyed once and
   only while nobody holds it, at most N live, never two holders of one resource, NoLeak probe).

     [op |-> "acq", mode |-> "block", x |-> "in" | "blk", nd |-> resources destroyed, cr |-> 0 | 1,
      intr |-> 0 | 1, x2 |-> "in" | "blk" | "none"]
     [op |-> "exit", k, how, w]      as in SemGen (Put)
     [op |-> "tick", d |-> clock units]                                                        *)
EXTENDS Integers, Sequences, TLC, Json

CONSTANTS Ns, D, MaxAge, Ticks, Hows, MaxBlk      \* Ns: the capacities to enumerate

VARIABLES N,      \* capacity of this pool (chosen initially, then constant)
          h,      \* resources handed out
          b,      \* Gets parked because the cap is reached
          idle,   \* time stamps of the idle resources, most recently put back first
          now, hist
pvars == <<N, h, b, idle, now, hist>>

PInit == N \in Ns /\ h = 0 /\ b = 0 /\ idle = <<>> /\ now = 0 /\ hist = <<>>

Expired(u) == MaxAge > 0 /\ u + MaxAge < now

RECURSIVE Fresh(_)
Fresh(ii) == IF ii # <<>> /\ Expired(Head(ii)) THEN Fresh(Tail(ii)) ELSE ii

\* one Get on a pool with hh handed out, idle list ii, bb parked
GetRes(hh, ii, bb) ==
  LET jj == Fresh(ii)
      nd == Len(ii) - Len(jj)
  IN  IF jj # <<>>
        THEN [h |-> hh + 1, idle |-> Tail(jj), b |-> bb, x |-> "in", nd |-> nd, cr |-> 0]
        ELSE IF hh < N
          THEN [h |-> hh + 1, idle |-> <<>>, b |-> bb, x |-> "in", nd |-> nd, cr |-> 1]
          ELSE [h |-> hh, idle |-> <<>>, b |-> bb + 1, x |-> "blk", nd |-> nd, cr |-> 0]

Get(intr) ==
  LET r1 == GetRes(h, idle, b) IN
  /\ r1.b <= MaxBlk
  /\ IF intr = 0
       THEN /\ h' = r1.h /\ idle' = r1.idle /\ b' = r1.b
            /\ hist' = Append(hist, [op |-> "acq", mode |-> "block", x |-> r1.x, nd |-> r1.nd, cr |-> r1.cr,
                                     intr |-> 0, x2 |-> "none"])
       ELSE LET r2 == GetRes(r1.h, r1.idle, r1.b) IN
            /\ r1.nd + r1.cr > 0                    \* a callback runs
            /\ r2.b <= MaxBlk
            /\ h' = r2.h /\ idle' = r2.idle /\ b' = r2.b
            /\ hist' = Append(hist, [op |-> "acq", mode |-> "block", x |-> r1.x, nd |-> r1.nd, cr |-> r1.cr,
                                     intr |-> 1, x2 |-> r2.x])
  /\ now' = now

\* Put: a parked Get takes the resource at once, otherwise it becomes idle, stamped now
Exit(k, how) ==
  /\ k < h
  /\ IF b > 0 THEN b' = b - 1 /\ h' = h /\ idle' = idle
              ELSE b' = b /\ h' = h - 1 /\ idle' = <<now>> \o idle
  /\ hist' = Append(hist, [op |-> "exit", k |-> k, how |-> how, w |-> IF b > 0 THEN 1 ELSE 0])
  /\ now' = now

\* the clock moves while something is idle: up to one unit past the expiry of the freshest
Tick(d) ==
  /\ idle # <<>> /\ MaxAge > 0
  /\ hist[Len(hist)].op # "tick"
  /\ now + d <= Head(idle) + MaxAge + 1
  /\ now' = now + d
  /\ hist' = Append(hist, [op |-> "tick", d |-> d])
  /\ UNCHANGED <<h, b, idle>>

PNext ==
  /\ Len(hist) < D /\ N' = N
  /\ \/ \E intr \in {0, 1} : Get(intr)
     \/ \E k \in {0, h - 1}, how \in Hows : k >= 0 /\ Exit(k, how)
     \/ \E d \in Ticks : Tick(d)
PSpec == PInit /\ [][PNext]_pvars

\* the abstract pool itself has the property (checked by the generation run)
PTypeOK == /\ h \in 0..N /\ h + Len(idle) <= N
           /\ b > 0 => (h = N /\ idle = <<>>)
           /\ \A i \in 1..Len(idle) : idle[i] <= now
           /\ \A i, j \in 1..Len(idle) : i < j => idle[i] >= idle[j]

\* one schedule per history in which some Get met an intruder, not ending in a step that only sets the scene
HasIntr == \E i \in 1..Len(hist) : hist[i].op = "acq" /\ hist[i].intr = 1
PrintPool == (Len(hist) > 0 /\ HasIntr /\ hist[Len(hist)].op # "tick") => PrintT("TRACE " \o ToJson([n |-> N, ops |-> hist]))
=============================================================================
