SPECIFICATION ISpec
CONSTANTS
  Procs = {1, 2}
  Cap = 1
  Rounds = 2
  MaxAge = 1
  MaxClock = 2
  Variant = "destroy_unlocked"
INVARIANTS Refines CapSafe PermitSafe CreatedCap ExclusiveRes DeadEndsAreProbed
VIEW View
CHECK_DEADLOCK FALSE
