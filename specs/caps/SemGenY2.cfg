SPECIFICATION GSpec
CONSTANTS
  N = 2
  D = 6
  MaxBlk = 0
  Modes = {"try"}
  Hows = {"ret", "panic"}
  WithOver = FALSE
INVARIANTS PrintHist
CHECK_DEADLOCK FALSE
