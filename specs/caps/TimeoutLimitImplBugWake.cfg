SPECIFICATION ISpec
CONSTANTS
  Procs = {1, 2, 3}
  Cap = 1
  Rounds = 1
  Variant = "wake_admits"
INVARIANTS Refines CapSafe PermitSafe
VIEW View
CHECK_DEADLOCK FALSE
