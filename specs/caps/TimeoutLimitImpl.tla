--------------------------- MODULE TimeoutLimitImpl ---------------------------
(* Layer I for C05: syncx.TimeoutLimit as it is written (core/syncx/timeoutlimit.go +
   cond.go): a Limit (buffered channel) plus a Cond whose Signal is a non-blocking send on
   an unbuffered channel -- it reaches a waiter only if one is parked in WaitWithTimeout's
   select at that very moment, otherwise it is lost.

     Borrow(timeout):  TryBorrow; loop { (timeout, ok) = cond.WaitWithTimeout(timeout);
                                         if ok && TryBorrow -> nil; if timeout <= 0 -> ErrTimeout }
     Return:           limit.Return (error -> returned, no signal); cond.Signal

   The timer may fire at any moment (no wall-clock assumption); after a wake-up the remaining
   timeout is positive or not, nondeterministically (`more`: the waiter may have been given the
   CPU only after its deadline -- the deadline is on the clock, the wake-up is the scheduler's).
   A woken waiter whose TryBorrow succeeds is admitted even if no time remains; one that reports
   ErrTimeout has not taken a permit.  Variant "late_keeps" (TimeoutLimitImplBugLate.cfg, expected
   counterexample) is the class of defect in which the time check comes after the permit was
   taken: ErrTimeout is reported, the permit is kept, the probe finds n-1.  The same region is
   driven on the real code by the schedules of SemGenTimed (clock hook H1).
   Events are published as in LimitImpl.

   Observation (config TimeoutLimitLost.cfg, expected counterexample): because Signal is lossy
   a Return that happens between a Borrow's failed TryBorrow and its select is lost: the waiter
   is parked although a permit is free and leaves only by its timer (a spurious ErrTimeout, or
   a needlessly long wait).  The property does not forbid that, so Layer P accepts it
   (NoStrandedWaiter is NOT part of the property).                                                               *)
EXTENDS Semaphore

CONSTANTS Procs, Cap, Rounds, Variant

Ticket(p, r) == p * 10 + r
Ev(e, p) == [e |-> e, p |-> p]

(* --algorithm TimeoutLimitImpl {
  variables ch = 0,                               \* len(limit.pool)
            ready = [p \in Procs |-> FALSE],      \* parked in select { <-cond.signal ; <-timer.C }
            woken = [p \in Procs |-> FALSE],      \* received the signal
            evn = 0, ev = [e |-> "none"];
  macro emit(r) { ev := r; evn := evn + 1; }

  process (u \in Procs)
    variables rnd = 0, got = FALSE, err = FALSE, ok = FALSE, more = FALSE;
  {
  t0: while (rnd < Rounds) {
        rnd := rnd + 1;
        emit([e |-> "acqStart", p |-> Ticket(self, rnd), mode |-> "timeout"]);
  t1:   if (ch < Cap) { ch := ch + 1; got := TRUE; goto t6; } else { got := FALSE; };
  t2:   ready[self] := TRUE;
  t3:   either { await woken[self]; woken[self] := FALSE; ok := TRUE; with (m \in BOOLEAN) { more := m; }; }
        or     { await ready[self]; ready[self] := FALSE; ok := FALSE; more := FALSE; };
  t4:   if (ok) {
          if (Variant = "wake_admits") { ch := ch + 1; got := TRUE; goto t6; }
          else if (ch < Cap) {
            ch := ch + 1;
            \* "late_keeps": success is only reported while time remains -- after TryBorrow has taken the permit
            if (Variant = "late_keeps" /\ ~more) { got := FALSE; } else { got := TRUE; };
            goto t6;
          };
        };
  t5:   if (more) { goto t2; };
  t6:   emit([e |-> "acqEnd", p |-> Ticket(self, rnd), ok |-> got, r |-> 0, code |-> 0]);
        if (got) {
  t7:     emit(Ev("enter", Ticket(self, rnd)));
  t8:     with (h \in {"ret", "panic"}) { emit([e |-> "exit", p |-> Ticket(self, rnd), how |-> h]); };
  t9:     emit(Ev("relStart", Ticket(self, rnd)));
  r1:     if (ch > 0) { ch := ch - 1; err := FALSE; } else { err := TRUE; goto r3; };
  r2:     if (\E w \in Procs : ready[w]) {
            with (w \in {x \in Procs : ready[x]}) { ready[w] := FALSE; woken[w] := TRUE; };
          };
  r3:     emit([e |-> "relEnd", p |-> Ticket(self, rnd), err |-> err]);
        };
      };
  }

  \* NoLeak probe: n+1 TryBorrow with nothing else going on
  process (prober = 0)
    variables i = 0, pgot = FALSE;
  {
  q0: await \A p \in Procs : pc[p] = "Done";
      emit([e |-> "end", pending |-> <<>>]);
  q1: while (i <= Cap) {
        i := i + 1;
        emit([e |-> "acqStart", p |-> Ticket(0, i), mode |-> "try"]);
  q2:   if (ch < Cap) { ch := ch + 1; pgot := TRUE; } else { pgot := FALSE; };
  q3:   emit([e |-> "acqEnd", p |-> Ticket(0, i), ok |-> pgot, r |-> 0, code |-> 0]);
        if (pgot) {
  q4:     emit(Ev("enter", Ticket(0, i)));
        };
      };
  q5: emit([e |-> "probe"]);
  }
} *)
\* BEGIN TRANSLATION
VARIABLES pc, ch, ready, woken, evn, ev, rnd, got, err, ok, more, i, pgot

vars == << pc, ch, ready, woken, evn, ev, rnd, got, err, ok, more, i, pgot >>

ProcSet == (Procs) \cup {0}

Init == (* Global variables *)
        /\ ch = 0
        /\ ready = [p \in Procs |-> FALSE]
        /\ woken = [p \in Procs |-> FALSE]
        /\ evn = 0
        /\ ev = [e |-> "none"]
        (* Process u *)
        /\ rnd = [self \in Procs |-> 0]
        /\ got = [self \in Procs |-> FALSE]
        /\ err = [self \in Procs |-> FALSE]
        /\ ok = [self \in Procs |-> FALSE]
        /\ more = [self \in Procs |-> FALSE]
        (* Process prober *)
        /\ i = 0
        /\ pgot = FALSE
        /\ pc = [self \in ProcSet |-> CASE self \in Procs -> "t0"
                                        [] self = 0 -> "q0"]

t0(self) == /\ pc[self] = "t0"
            /\ IF rnd[self] < Rounds
                  THEN /\ rnd' = [rnd EXCEPT ![self] = rnd[self] + 1]
                       /\ ev' = [e |-> "acqStart", p |-> Ticket(self, rnd'[self]), mode |-> "timeout"]
                       /\ evn' = evn + 1
                       /\ pc' = [pc EXCEPT ![self] = "t1"]
                  ELSE /\ pc' = [pc EXCEPT ![self] = "Done"]
                       /\ UNCHANGED << evn, ev, rnd >>
            /\ UNCHANGED << ch, ready, woken, got, err, ok, more, i, pgot >>

t1(self) == /\ pc[self] = "t1"
            /\ IF ch < Cap
                  THEN /\ ch' = ch + 1
                       /\ got' = [got EXCEPT ![self] = TRUE]
                       /\ pc' = [pc EXCEPT ![self] = "t6"]
                  ELSE /\ got' = [got EXCEPT ![self] = FALSE]
                       /\ pc' = [pc EXCEPT ![self] = "t2"]
                       /\ ch' = ch
            /\ UNCHANGED << ready, woken, evn, ev, rnd, err, ok, more, i, pgot >>

t2(self) == /\ pc[self] = "t2"
            /\ ready' = [ready EXCEPT ![self] = TRUE]
            /\ pc' = [pc EXCEPT ![self] = "t3"]
            /\ UNCHANGED << ch, woken, evn, ev, rnd, got, err, ok, more, i, 
                            pgot >>

t3(self) == /\ pc[self] = "t3"
            /\ \/ /\ woken[self]
                  /\ woken' = [woken EXCEPT ![self] = FALSE]
                  /\ ok' = [ok EXCEPT ![self] = TRUE]
                  /\ \E m \in BOOLEAN:
                       more' = [more EXCEPT ![self] = m]
                  /\ ready' = ready
               \/ /\ ready[self]
                  /\ ready' = [ready EXCEPT ![self] = FALSE]
                  /\ ok' = [ok EXCEPT ![self] = FALSE]
                  /\ more' = [more EXCEPT ![self] = FALSE]
                  /\ woken' = woken
            /\ pc' = [pc EXCEPT ![self] = "t4"]
            /\ UNCHANGED << ch, evn, ev, rnd, got, err, i, pgot >>

t4(self) == /\ pc[self] = "t4"
            /\ IF ok[self]
                  THEN /\ IF Variant = "wake_admits"
                             THEN /\ ch' = ch + 1
                                  /\ got' = [got EXCEPT ![self] = TRUE]
                                  /\ pc' = [pc EXCEPT ![self] = "t6"]
                             ELSE /\ IF ch < Cap
                                        THEN /\ ch' = ch + 1
                                             /\ IF Variant = "late_keeps" /\ ~more[self]
                                                   THEN /\ got' = [got EXCEPT ![self] = FALSE]
                                                   ELSE /\ got' = [got EXCEPT ![self] = TRUE]
                                             /\ pc' = [pc EXCEPT ![self] = "t6"]
                                        ELSE /\ pc' = [pc EXCEPT ![self] = "t5"]
                                             /\ UNCHANGED << ch, got >>
                  ELSE /\ pc' = [pc EXCEPT ![self] = "t5"]
                       /\ UNCHANGED << ch, got >>
            /\ UNCHANGED << ready, woken, evn, ev, rnd, err, ok, more, i, pgot >>

t5(self) == /\ pc[self] = "t5"
            /\ IF more[self]
                  THEN /\ pc' = [pc EXCEPT ![self] = "t2"]
                  ELSE /\ pc' = [pc EXCEPT ![self] = "t6"]
            /\ UNCHANGED << ch, ready, woken, evn, ev, rnd, got, err, ok, more, 
                            i, pgot >>

t6(self) == /\ pc[self] = "t6"
            /\ ev' = [e |-> "acqEnd", p |-> Ticket(self, rnd[self]), ok |-> got[self], r |-> 0, code |-> 0]
            /\ evn' = evn + 1
            /\ IF got[self]
                  THEN /\ pc' = [pc EXCEPT ![self] = "t7"]
                  ELSE /\ pc' = [pc EXCEPT ![self] = "t0"]
            /\ UNCHANGED << ch, ready, woken, rnd, got, err, ok, more, i, pgot >>

t7(self) == /\ pc[self] = "t7"
            /\ ev' = Ev("enter", Ticket(self, rnd[self]))
            /\ evn' = evn + 1
            /\ pc' = [pc EXCEPT ![self] = "t8"]
            /\ UNCHANGED << ch, ready, woken, rnd, got, err, ok, more, i, pgot >>

t8(self) == /\ pc[self] = "t8"
            /\ \E h \in {"ret", "panic"}:
                 /\ ev' = [e |-> "exit", p |-> Ticket(self, rnd[self]), how |-> h]
                 /\ evn' = evn + 1
            /\ pc' = [pc EXCEPT ![self] = "t9"]
            /\ UNCHANGED << ch, ready, woken, rnd, got, err, ok, more, i, pgot >>

t9(self) == /\ pc[self] = "t9"
            /\ ev' = Ev("relStart", Ticket(self, rnd[self]))
            /\ evn' = evn + 1
            /\ pc' = [pc EXCEPT ![self] = "r1"]
            /\ UNCHANGED << ch, ready, woken, rnd, got, err, ok, more, i, pgot >>

r1(self) == /\ pc[self] = "r1"
            /\ IF ch > 0
                  THEN /\ ch' = ch - 1
                       /\ err' = [err EXCEPT ![self] = FALSE]
                       /\ pc' = [pc EXCEPT ![self] = "r2"]
                  ELSE /\ err' = [err EXCEPT ![self] = TRUE]
                       /\ pc' = [pc EXCEPT ![self] = "r3"]
                       /\ ch' = ch
            /\ UNCHANGED << ready, woken, evn, ev, rnd, got, ok, more, i, pgot >>

r2(self) == /\ pc[self] = "r2"
            /\ IF \E w \in Procs : ready[w]
                  THEN /\ \E w \in {x \in Procs : ready[x]}:
                            /\ ready' = [ready EXCEPT ![w] = FALSE]
                            /\ woken' = [woken EXCEPT ![w] = TRUE]
                  ELSE /\ TRUE
                       /\ UNCHANGED << ready, woken >>
            /\ pc' = [pc EXCEPT ![self] = "r3"]
            /\ UNCHANGED << ch, evn, ev, rnd, got, err, ok, more, i, pgot >>

r3(self) == /\ pc[self] = "r3"
            /\ ev' = [e |-> "relEnd", p |-> Ticket(self, rnd[self]), err |-> err[self]]
            /\ evn' = evn + 1
            /\ pc' = [pc EXCEPT ![self] = "t0"]
            /\ UNCHANGED << ch, ready, woken, rnd, got, err, ok, more, i, pgot >>

u(self) == t0(self) \/ t1(self) \/ t2(self) \/ t3(self) \/ t4(self)
              \/ t5(self) \/ t6(self) \/ t7(self) \/ t8(self) \/ t9(self)
              \/ r1(self) \/ r2(self) \/ r3(self)

q0 == /\ pc[0] = "q0"
      /\ \A p \in Procs : pc[p] = "Done"
      /\ ev' = [e |-> "end", pending |-> <<>>]
      /\ evn' = evn + 1
      /\ pc' = [pc EXCEPT ![0] = "q1"]
      /\ UNCHANGED << ch, ready, woken, rnd, got, err, ok, more, i, pgot >>

q1 == /\ pc[0] = "q1"
      /\ IF i <= Cap
            THEN /\ i' = i + 1
                 /\ ev' = [e |-> "acqStart", p |-> Ticket(0, i'), mode |-> "try"]
                 /\ evn' = evn + 1
                 /\ pc' = [pc EXCEPT ![0] = "q2"]
            ELSE /\ pc' = [pc EXCEPT ![0] = "q5"]
                 /\ UNCHANGED << evn, ev, i >>
      /\ UNCHANGED << ch, ready, woken, rnd, got, err, ok, more, pgot >>

q2 == /\ pc[0] = "q2"
      /\ IF ch < Cap
            THEN /\ ch' = ch + 1
                 /\ pgot' = TRUE
            ELSE /\ pgot' = FALSE
                 /\ ch' = ch
      /\ pc' = [pc EXCEPT ![0] = "q3"]
      /\ UNCHANGED << ready, woken, evn, ev, rnd, got, err, ok, more, i >>

q3 == /\ pc[0] = "q3"
      /\ ev' = [e |-> "acqEnd", p |-> Ticket(0, i), ok |-> pgot, r |-> 0, code |-> 0]
      /\ evn' = evn + 1
      /\ IF pgot
            THEN /\ pc' = [pc EXCEPT ![0] = "q4"]
            ELSE /\ pc' = [pc EXCEPT ![0] = "q1"]
      /\ UNCHANGED << ch, ready, woken, rnd, got, err, ok, more, i, pgot >>

q4 == /\ pc[0] = "q4"
      /\ ev' = Ev("enter", Ticket(0, i))
      /\ evn' = evn + 1
      /\ pc' = [pc EXCEPT ![0] = "q1"]
      /\ UNCHANGED << ch, ready, woken, rnd, got, err, ok, more, i, pgot >>

q5 == /\ pc[0] = "q5"
      /\ ev' = [e |-> "probe"]
      /\ evn' = evn + 1
      /\ pc' = [pc EXCEPT ![0] = "Done"]
      /\ UNCHANGED << ch, ready, woken, rnd, got, err, ok, more, i, pgot >>

prober == q0 \/ q1 \/ q2 \/ q3 \/ q4 \/ q5

(* Allow infinite stuttering to prevent deadlock on termination. *)
Terminating == /\ \A self \in ProcSet: pc[self] = "Done"
               /\ UNCHANGED vars

Next == prober
           \/ (\E self \in Procs: u(self))
           \/ Terminating

Spec == Init /\ [][Next]_vars

Termination == <>(\A self \in ProcSet: pc[self] = "Done")

\* END TRANSLATION

VARIABLE bad
Observe ==
  IF evn' # evn
    THEN IF bad = <<>> /\ EvOK(ev')
           THEN EvEff(ev') /\ bad' = bad
           ELSE UNCHANGED svars /\ bad' = IF bad = <<>> THEN <<ev'>> ELSE bad
    ELSE UNCHANGED svars /\ bad' = bad
IInit == Init /\ SStart("tlimit", Cap) /\ bad = <<>>
INext == Next /\ Observe
ISpec == IInit /\ [][INext]_<<vars, svars, bad>>

Refines == bad = <<>>
DeadEndsAreProbed == (~ENABLED Next) => phase = "probed"
\* NOT demanded by the property (see header): a waiter is parked although a permit is free and
\* no Signal is on its way -- it can only leave by its timer
NoStrandedWaiter == ~(\E p \in Procs : ready[p] /\ ch < Cap /\ \A q \in Procs : pc[q] # "r2")
View == <<ch, ready, woken, pc, rnd, got, err, ok, more, i, pgot, svars, bad>>
=============================================================================
