SPECIFICATION GSpec
CONSTANTS
  N = 3
  D = 5
  MaxBlk = 1
  Modes = {"try", "block", "timeout"}
  Hows = {"ret", "panic"}
  WithOver = TRUE
INVARIANTS PrintHist
CHECK_DEADLOCK FALSE
