--------------------------- MODULE SemaphoreTrace ---------------------------
(* Trace validation for C05: events recorded from the real syncx.Limit / TimeoutLimit / Pool,
   threading.TaskRunner / WorkerGroup, rest/handler.MaxConnsHandler, mr and fx worker pools
   must be a behaviour of Semaphore.tla.  One action per event kind = Layer-P guard /\ effect.
   There are no unlogged steps: validation is deterministic (one successor per line).
   There is deliberately no action for the driver's "stuck" / "odd" events (a call that never
   returned with every gate open, an answer that is neither admission nor refusal): such a
   trace is rejected.                                                                       *)
EXTENDS Semaphore, TraceKit

VARIABLE l
tvars == <<svars, l>>

E == Trace[l]
IsEvent(e) == l <= Len(Trace) /\ E.e = e /\ l' = l + 1

TReset    == IsEvent("reset")    /\ SReset(E.kind, E.n)
TAcqStart == IsEvent("acqStart") /\ AcqStartOK(E.p, E.mode) /\ AcqStartEff(E.p, E.mode)
TAcqOk    == IsEvent("acqEnd")   /\ E.ok  /\ AcqOkOK(E.p, E.r)      /\ AcqOkEff(E.p, E.r)
TAcqFail  == IsEvent("acqEnd")   /\ ~E.ok /\ AcqFailOK(E.p, E.code) /\ AcqFailEff(E.p)
TEnter    == IsEvent("enter")    /\ EnterOK(E.p)        /\ EnterEff(E.p)
TExit     == IsEvent("exit")     /\ E.how = "ret"   /\ ExitOK(E.p, E.how) /\ ExitEff(E.p)
TPanicExit== IsEvent("exit")     /\ E.how = "panic" /\ ExitOK(E.p, E.how) /\ ExitEff(E.p)
TRelStart == IsEvent("relStart") /\ RelStartOK(E.p)     /\ RelStartEff(E.p)
TRelOk    == IsEvent("relEnd")   /\ ~E.err /\ RelOkOK(E.p)  /\ RelOkEff(E.p)
TOverReturn == IsEvent("relEnd") /\ E.err  /\ RelErrOK(E.p) /\ RelErrEff(E.p)
TCreate   == IsEvent("create")   /\ CreateOK(E.r)       /\ CreateEff(E.r)
TDestroy  == IsEvent("destroy")  /\ DestroyOK(E.r)      /\ DestroyEff(E.r)
TEnd      == IsEvent("end")      /\ EndOK(E.pending)    /\ EndEff
TProbe    == IsEvent("probe")    /\ ProbeOK             /\ ProbeEff
TInfo     == IsEvent("info")     /\ UNCHANGED svars
\* time (primitives whose acquire carries a deadline; schedules of SemGenTimed): the driver moved the
\* clock the library reads / a waiter that was woken by a release read it (clk = clock units, held =
\* the engine keeps it there until a third party has taken the permit).  Neither changes what the cap
\* owes: whatever the woken waiter computes, it ends as an admission (judged by AcqOkOK) or as a
\* refusal that holds nothing (judged by EndOK / ProbeOK and every later answer).  The guard is a
\* check of the binding: only a pending timed acquire can be the reader.
TTick     == IsEvent("tick")     /\ E.d \in Nat /\ UNCHANGED svars
TWake     == IsEvent("wake")     /\ E.clk \in Nat /\ E.held \in BOOLEAN
                                 /\ \E p \in DOMAIN acq : acq[p].mode = "timeout"
                                 /\ UNCHANGED svars

\* known finding (genuine gap, not repaired): Pool.Put has no way to report an over-return; a second
\* Put of the same resource (or of a foreign object) is accepted silently.  Only tried by the runner
\* on a rejected trace, and only in exactly that situation: a Pool release that reported no error
\* although nothing can have been out.
KF_PoolDoublePut ==
  /\ "KF_PoolDoublePut" \in OpenFindings
  /\ IsEvent("relEnd") /\ kind = "pool" /\ ~E.err
  /\ E.p \in DOMAIN rel /\ ~rel[E.p].some
  /\ RelErrEff(E.p)

TInit == SInit /\ l = 1
TNext == \/ TReset \/ TAcqStart \/ TAcqOk \/ TAcqFail \/ TEnter \/ TExit \/ TPanicExit
         \/ TRelStart \/ TRelOk \/ TOverReturn \/ TCreate \/ TDestroy \/ TEnd \/ TProbe \/ TInfo
         \/ TTick \/ TWake
         \/ KF_PoolDoublePut
TSpec == TInit /\ [][TNext]_tvars

HW == HighWater(l)
=============================================================================
