SPECIFICATION ISpec
CONSTANTS
  Procs = {1, 2}
  Cap = 1
  Rounds = 1
  Variant = "panic_leak"
INVARIANTS Refines CapSafe PermitSafe InsideHolds STypeOK DeadEndsAreProbed
VIEW View
CHECK_DEADLOCK FALSE
