SPECIFICATION GSpec
CONSTANTS
  N = 2
  D = 5
  MaxBlk = 2
  Modes = {"try", "block", "timeout"}
  Hows = {"ret", "panic"}
  WithOver = TRUE
INVARIANTS PrintHist
CHECK_DEADLOCK FALSE
