SPECIFICATION GSpec
CONSTANTS
  N = 2
  D = 6
  MaxBlk = 2
  Modes = {"block"}
  Hows = {"ret", "panic"}
  WithOver = FALSE
INVARIANTS PrintHist
CHECK_DEADLOCK FALSE
