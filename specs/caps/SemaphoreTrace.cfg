SPECIFICATION TSpec
CONSTRAINT HW
INVARIANTS CapSafe PermitSafe CreatedCap ExclusiveRes InsideHolds
POSTCONDITION Accepted
CHECK_DEADLOCK FALSE
