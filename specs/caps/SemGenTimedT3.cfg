SPECIFICATION TGSpec
CONSTANTS
  N = 3
  D = 7
  MaxBlk = 0
  Modes = {"timeout"}
  Hows = {"ret"}
  WithOver = FALSE
  MaxTW = 1
  T = 2
  Ticks = {1, 2, 3}
INVARIANTS PrintTimed TGTypeOK
CHECK_DEADLOCK FALSE
