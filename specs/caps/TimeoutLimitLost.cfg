SPECIFICATION ISpec
CONSTANTS
  Procs = {1, 2}
  Cap = 1
  Rounds = 1
  Variant = "ok"
INVARIANTS Refines CapSafe NoStrandedWaiter
VIEW View
CHECK_DEADLOCK FALSE
