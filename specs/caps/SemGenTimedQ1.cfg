SPECIFICATION TGSpec
CONSTANTS
  N = 1
  D = 5
  MaxBlk = 0
  Modes = {"timeout"}
  Hows = {"ret", "panic"}
  WithOver = FALSE
  MaxTW = 1
  T = 2
  Ticks = {1, 2, 3}
INVARIANTS PrintTimed TGTypeOK
CHECK_DEADLOCK FALSE
