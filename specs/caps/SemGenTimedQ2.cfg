SPECIFICATION TGSpec
CONSTANTS
  N = 2
  D = 5
  MaxBlk = 0
  Modes = {"try", "timeout"}
  Hows = {"ret"}
  WithOver = FALSE
  MaxTW = 1
  T = 2
  Ticks = {1, 2, 3}
INVARIANTS PrintTimed TGTypeOK
CHECK_DEADLOCK FALSE
