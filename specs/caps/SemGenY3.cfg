SPECIFICATION GSpec
CONSTANTS
  N = 3
  D = 8
  MaxBlk = 0
  Modes = {"try"}
  Hows = {"ret", "panic"}
  WithOver = FALSE
INVARIANTS PrintHist
CHECK_DEADLOCK FALSE
