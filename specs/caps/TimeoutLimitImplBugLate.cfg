SPECIFICATION ISpec
CONSTANTS
  Procs = {1, 2, 3}
  Cap = 1
  Rounds = 1
  Variant = "late_keeps"
INVARIANTS Refines CapSafe PermitSafe DeadEndsAreProbed
VIEW View
CHECK_DEADLOCK FALSE
