SPECIFICATION ISpec
CONSTANTS
  Procs = {1, 2, 3}
  Over = {7}
  Cap = 1
  Rounds = 2
  Variant = "ok"
INVARIANTS Refines CapSafe PermitSafe InsideHolds STypeOK DeadEndsAreProbed
VIEW View
CHECK_DEADLOCK FALSE
