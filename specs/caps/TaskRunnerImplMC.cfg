SPECIFICATION ISpec
CONSTANTS
  Procs = {1, 2, 3}
  Cap = 2
  Rounds = 1
  Variant = "ok"
INVARIANTS Refines CapSafe PermitSafe InsideHolds STypeOK DeadEndsAreProbed
VIEW View
CHECK_DEADLOCK FALSE
