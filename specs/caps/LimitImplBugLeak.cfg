SPECIFICATION ISpec
CONSTANTS
  Procs = {1, 2}
  Over = {}
  Cap = 2
  Rounds = 1
  Variant = "ret_noop"
INVARIANTS Refines CapSafe PermitSafe
VIEW View
CHECK_DEADLOCK FALSE
