SPECIFICATION GSpec
CONSTANTS
  N = 3
  D = 8
  MaxBlk = 2
  Modes = {"block"}
  Hows = {"ret", "panic"}
  WithOver = FALSE
INVARIANTS PrintHist
CHECK_DEADLOCK FALSE
