------------------------------- MODULE SemGen -------------------------------
(* Generation for C05 (spec -> code): every sequential environment schedule of at most D
   steps against an abstract semaphore of capacity N.  The Go engine replays a schedule on a
   real primitive step by step (one goroutine per ticket, the guarded region parked on a gate),
   then opens every gate, waits for quiescence and runs the NoLeak probe.

     [op |-> "acq", mode |-> "try" | "block" | "timeout", x |-> "in" | "ref" | "blk"]
     [op |-> "exit", k |-> index into the current holders (admission order), how |-> "ret" | "panic",
      w |-> 1 if a blocked ticket is expected to be admitted in its place, else 0]
     [op |-> "over"]      a Return without a Borrow, only while nothing is out

   x / w are the abstract semaphore's prediction; the engine uses them only to know what to
   wait for (an admission it is told to expect is awaited under a generous watchdog, a blocked
   ticket is given a short grace period).  The verdict never comes from x / w: the recorded
   events are validated by TLC against Semaphore.tla.                                       *)
EXTENDS Integers, Sequences, TLC, Json

CONSTANTS N, D, MaxBlk, Modes, Hows, WithOver

VARIABLES h, b, hist
gvars == <<h, b, hist>>

GInit == h = 0 /\ b = 0 /\ hist = <<>>

Acq(m) ==
  /\ \/ h < N /\ h' = h + 1 /\ b' = b /\ hist' = Append(hist, [op |-> "acq", mode |-> m, x |-> "in"])
     \/ h >= N /\ m # "block" /\ UNCHANGED <<h, b>>
               /\ hist' = Append(hist, [op |-> "acq", mode |-> m, x |-> "ref"])
     \/ h >= N /\ m = "block" /\ b < MaxBlk /\ b' = b + 1 /\ h' = h
               /\ hist' = Append(hist, [op |-> "acq", mode |-> m, x |-> "blk"])

Exit(k, how) ==
  /\ k < h
  /\ IF b > 0 THEN b' = b - 1 /\ h' = h ELSE b' = b /\ h' = h - 1
  /\ hist' = Append(hist, [op |-> "exit", k |-> k, how |-> how, w |-> IF b > 0 THEN 1 ELSE 0])

OverRet ==
  /\ WithOver /\ h = 0 /\ b = 0
  /\ IF Len(hist) = 0 THEN TRUE ELSE hist[Len(hist)].op # "over"
  /\ UNCHANGED <<h, b>> /\ hist' = Append(hist, [op |-> "over"])

GNext ==
  /\ Len(hist) < D
  /\ \/ \E m \in Modes : Acq(m)
     \/ \E k \in {0, h - 1}, how \in Hows : k >= 0 /\ Exit(k, how)
     \/ OverRet
GSpec == GInit /\ [][GNext]_gvars

PrintHist == Len(hist) = 0 \/ PrintT("TRACE " \o ToJson(hist))
=============================================================================
