---------------------------- MODULE FxWalkTrace ----------------------------
(* Trace validation of the worker law FxWalk.tla.  One trace = one call:
     reset  n w kind      items 0..n-1, the workers option (see CapOf), the kind
     wstart i             the user function was entered for item i
     rel    i             the harness opens the gate of item i
     out    v             the consumer received v
     wend   i             the user function is about to return for item i
     close / ret          the output stream was closed / the call returned
     quiet                snapshot: every goroutine is blocked
     end    leaked        at rest after the last release; goroutines left            *)
EXTENDS FxWalk, TraceKit

VARIABLE l
tvars == <<wvars, l>>

E == Trace[l]
IsEvent(e) == l <= Len(Trace) /\ E.e = e /\ l' = l + 1

TReset   == IsEvent("reset") /\ Setup(E.n, CapFor(E.kind, E.w), E.kind)
TStart   == IsEvent("wstart") /\ WStart(E.i)
TRelease == IsEvent("rel") /\ WRelease(E.i)
TOut     == IsEvent("out") /\ WOut(E.v)
TEnd1    == IsEvent("wend") /\ WEnd(E.i)
TClose   == IsEvent("close") /\ WClose
TRet     == IsEvent("ret") /\ WRet
TQuiet   == IsEvent("quiet") /\ WQuiet
TEnd     == IsEvent("end") /\ closed /\ AtRestW /\ E.leaked = 0 /\ UNCHANGED wvars

TInit == l = 1 /\ n = 0 /\ cap = 0 /\ kind = "walk" /\ started = {} /\ released = {} /\ ended = {}
         /\ outs = <<>> /\ closed = FALSE
TNext == TReset \/ TStart \/ TRelease \/ TOut \/ TEnd1 \/ TClose \/ TRet \/ TQuiet \/ TEnd
TSpec == TInit /\ [][TNext]_tvars

HW == HighWater(l)
=============================================================================
