------------------------------ MODULE FxTrace ------------------------------
(* Trace validation for the extension "fxstream": what the taps / the call goroutine /
   the goroutine snapshots of the driver recorded from the real fx.Stream must be a
   behaviour of FxStream.tla.  One trace = one pipeline:
     reset   src gate ops term      the pipeline (spec variables, not constants)
     item    at v                   an item passed tap `at`
     close   at                     tap `at` was closed
     panic   at                     the constructor of operator `at` panicked
     ret     res                    the terminal operator returned
     quiet   ret                    snapshot: every goroutine blocked; ret = call returned
     release                        the driver opens the source gate
     end     leaked                 source exhausted, everything at rest; goroutines left  *)
EXTENDS FxStream, TraceKit

VARIABLE l
tvars == <<vars, l>>

E == Trace[l]
IsEvent(e) == l <= Len(Trace) /\ E.e = e /\ l' = l + 1

TReset   == IsEvent("reset") /\ StartRun(Items(E.src), E.gate, E.ops, E.term)
TItem    == IsEvent("item") /\ PItem(E.at, E.v)
TClose   == IsEvent("close") /\ PClose(E.at)
TPanic   == IsEvent("panic") /\ PPanic(E.at)
TReturn  == IsEvent("ret") /\ PReturn(E.res)
TQuiet   == IsEvent("quiet") /\ PQuiet /\ E.ret = (call = "returned")
TRelease == IsEvent("release") /\ PRelease
TEnd     == IsEvent("end") /\ PEnd(E.leaked)

TInit == PInit /\ l = 1
TNext == TReset \/ TItem \/ TClose \/ TPanic \/ TReturn \/ TQuiet \/ TRelease \/ TEnd
TSpec == TInit /\ [][TNext]_tvars

HW == HighWater(l)
=============================================================================
