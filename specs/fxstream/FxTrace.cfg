SPECIFICATION TSpec
CONSTANTS
  SrcSet = {}
  GateSet = {}
  OpSet = {}
  TermSet = {}
  MaxOps = 0
  Stream = TRUE
CONSTRAINT HW
INVARIANTS Agree ResStable HeadBound CloseOrder
POSTCONDITION Accepted
CHECK_DEADLOCK FALSE
