SPECIFICATION PSpec
CONSTANTS
  SrcSet <- SrcB2
  GateSet <- GatesB
  OpSet <- OpsBx
  TermSet <- TermsC
  MaxOps = 1
  Stream = TRUE
INVARIANTS Agree ResStable HeadBound Causal CloseOrder NoStuck
CHECK_DEADLOCK TRUE
