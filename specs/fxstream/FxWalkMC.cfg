SPECIFICATION WSpec
CONSTANTS
  NSet = {0, 1, 2, 3, 4}
  CapSet = {0, 1, 2, 3, 16}
  KindSet = {"walk", "map", "filter", "parallel", "fns"}
INVARIANTS CapRespected OnceEach NothingBeforeItsCause ClosedMeansAll Progress RestWaitsForHarness
CHECK_DEADLOCK TRUE
