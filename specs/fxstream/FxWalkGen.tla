------------------------------ MODULE FxWalkGen ------------------------------
(* Test generation from FxWalk: one case per behaviour that ends closed -- the items, the
   workers option, the kind and the order in which the harness opens the gates, written as
   the RANK of the released invocation among those waiting (the real code decides which
   items are in flight, the spec only how many).                                       *)
EXTENDS FxWalk, Json, TLC

CONSTANT OptSet
GenOpts == {0, -1, -2, -3, 1, 2, 3}
VARIABLES wopt, hist
gvars == <<wvars, wopt, hist>>

Rank(i, S) == Cardinality({j \in S : j < i})
GInit == /\ wopt \in OptSet /\ n \in NSet /\ kind \in KindSet /\ cap = CapFor(kind, wopt)
         /\ started = {} /\ released = {} /\ ended = {} /\ outs = <<>> /\ closed = FALSE
         /\ hist = <<>>
GRelease == \E i \in WItems : WRelease(i) /\ hist' = Append(hist, Rank(i, Inflight \ released))
GNext == /\ wopt' = wopt
         /\ \/ GRelease
            \/ (NWStart \/ NWEnd \/ NWOut \/ WClose \/ WRet) /\ hist' = hist
GSpec == GInit /\ [][GNext]_gvars
\* outputs are not part of the case: the order in which they arrive is the code's business
GView == <<n, cap, kind, wopt, started, released, ended, OutSet, closed, hist>>
PrintCase == closed => PrintT("TRACE " \o ToJson([n |-> n, w |-> wopt, kind |-> kind, ranks |-> hist]))
=============================================================================
