SPECIFICATION ISpec
CONSTANTS
  N = 3
  WSet = {2}
  KindSet = {"walk"}
  Bug = "poolOff"
INVARIANTS ITypeOK PInvariants NoCrash AtRestIsQuiet Balanced
PROPERTIES Refines
CHECK_DEADLOCK TRUE
