SPECIFICATION GSpec
CONSTANTS
  NSet = {0, 1, 2, 3, 4}
  CapSet = {}
  KindSet = {"walk", "map", "filter", "parallel", "fns"}
  OptSet <- GenOpts
INVARIANTS PrintCase
VIEW GView
CHECK_DEADLOCK FALSE
