------------------------------- MODULE FxWalk -------------------------------
(* Layer P, second part of the extension "fxstream": the WORKERS of Walk / Map / Filter /
   Stream.Parallel (options WithWorkers(k), UnlimitedWorkers(), none = 16) and of the
   package function fx.Parallel(fns...), as a state machine over the invocations of the
   user function.

   The harness holds every invocation of the user function at a gate of its own, so the
   number of invocations in flight is an observable:
     WStart(i)    the user function is entered for item i     -- only if a worker is free
     WRelease(i)  the harness opens the gate of item i
     WOut(v)      an item written by a released invocation reaches the consumer
     WEnd(i)      the invocation for item i is about to return
     WClose       the output stream is closed  (Walk / Map / Filter)
     WRet         the call returns             (Stream.Parallel, fx.Parallel)
     WQuiet       every goroutine is blocked (an observation): EXACTLY min(cap, items not
                  yet finished) invocations are in flight ("customize the concurrent
                  workers", "use as many workers as the tasks"), everything the released
                  ones wrote has been delivered, and the stream is closed / the call has
                  returned iff every item is finished.
   cap: the effective number of workers, 0 = unlimited.  kind: "walk" (writes its item),
   "map" (writes item + 100), "filter" (passes the odd items), "parallel", "fns".      *)
EXTENDS Integers, Sequences, FiniteSets

CONSTANTS NSet, CapSet, KindSet        \* model checking only (the trace sets them per case)

VARIABLES n, cap, kind, started, released, ended, outs, closed
wvars == <<n, cap, kind, started, released, ended, outs, closed>>

StreamKinds == {"walk", "map", "filter"}
CallKinds == {"parallel", "fns"}
WMin(a, b) == IF a < b THEN a ELSE b
WItems == 0..(n - 1)
Inflight == started \ ended
OutSet == {outs[j] : j \in DOMAIN outs}
\* the item an output came from, and the outputs a set of finished items must have produced
SrcOf(v) == IF kind = "map" THEN v - 100 ELSE v
Emits(i) == IF kind = "filter" THEN i % 2 = 1 ELSE kind \in StreamKinds
OutOf(i) == IF kind = "map" THEN i + 100 ELSE i
Expected(S) == {OutOf(i) : i \in {j \in S : Emits(j)}}
\* the effective cap of an option: w = 0 no option (defaultWorkers), -1 UnlimitedWorkers(),
\* -2 WithWorkers(0) and -3 WithWorkers(-1) (raised to minWorkers), k WithWorkers(k)
CapOf(w) == IF w = 0 THEN 16 ELSE IF w = -1 THEN 0 ELSE IF w < -1 THEN 1 ELSE w
CapFor(k, w) == IF k = "fns" THEN 0 ELSE CapOf(w)      \* fx.Parallel(fns...) has no cap
Room == cap = 0 \/ Cardinality(Inflight) < cap

Setup(nn, c, k) ==
  /\ n' = nn /\ cap' = c /\ kind' = k
  /\ started' = {} /\ released' = {} /\ ended' = {} /\ outs' = <<>> /\ closed' = FALSE

WInit == /\ n \in NSet /\ cap \in CapSet /\ kind \in KindSet
         /\ started = {} /\ released = {} /\ ended = {} /\ outs = <<>> /\ closed = FALSE

WStart(i) ==
  /\ ~closed /\ i \in WItems \ started /\ Room
  /\ started' = started \cup {i}
  /\ UNCHANGED <<n, cap, kind, released, ended, outs, closed>>
WRelease(i) ==
  /\ i \in Inflight \ released
  /\ released' = released \cup {i}
  /\ UNCHANGED <<n, cap, kind, started, ended, outs, closed>>
WOut(v) ==
  /\ ~closed /\ kind \in StreamKinds
  /\ SrcOf(v) \in released /\ Emits(SrcOf(v)) /\ v \notin OutSet
  /\ outs' = Append(outs, v)
  /\ UNCHANGED <<n, cap, kind, started, released, ended, closed>>
WEnd(i) ==
  /\ i \in released \ ended
  /\ ended' = ended \cup {i}
  /\ UNCHANGED <<n, cap, kind, started, released, outs, closed>>
Finished == ended = WItems /\ OutSet = Expected(WItems)
WClose ==
  /\ ~closed /\ kind \in StreamKinds /\ Finished
  /\ closed' = TRUE
  /\ UNCHANGED <<n, cap, kind, started, released, ended, outs>>
WRet ==
  /\ ~closed /\ kind \in CallKinds /\ Finished
  /\ closed' = TRUE
  /\ UNCHANGED <<n, cap, kind, started, released, ended, outs>>
AtRestW ==
  /\ released \subseteq ended
  /\ Cardinality(Inflight) = IF cap = 0 THEN n - Cardinality(ended) ELSE WMin(cap, n - Cardinality(ended))
  /\ OutSet = Expected(ended)
  /\ closed <=> (ended = WItems)
WQuiet == AtRestW /\ UNCHANGED wvars

NWStart == \E i \in WItems : WStart(i)
NWRelease == \E i \in WItems : WRelease(i)
NWEnd == \E i \in WItems : WEnd(i)
NWOut == \E v \in Expected(WItems) : WOut(v)
WNext == NWStart \/ NWRelease \/ NWEnd \/ NWOut \/ WClose \/ WRet \/ WQuiet
WSpec == WInit /\ [][WNext]_wvars

\* ---- properties ----
CapRespected == cap > 0 => Cardinality(Inflight) <= cap
OnceEach == /\ Len(outs) = Cardinality(OutSet)
            /\ ended \subseteq released /\ released \subseteq started /\ started \subseteq WItems
NothingBeforeItsCause == \A v \in OutSet : SrcOf(v) \in released
ClosedMeansAll == closed => Finished
\* the law can always go on: a state that is not at rest has a step, and a state at rest is
\* either over or waits for the harness only
Progress == ~AtRestW => ENABLED (NWStart \/ NWEnd \/ NWOut \/ WClose \/ WRet)
RestWaitsForHarness == (AtRestW /\ ~closed) => \E i \in WItems : ENABLED WRelease(i)
=============================================================================
