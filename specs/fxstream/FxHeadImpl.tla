----------------------------- MODULE FxHeadImpl -----------------------------
(* Layer I for FxStream (laziness / closing): a gated From source, Stream.Head(n) and a
   terminal operator (Count or First) of core/fx/stream.go as they are written, on
   unbuffered channels.

       Head:   for item := range s.source {          h_recv
                   n--
                   if n >= 0 { source <- item }      h_send (rendezvous: put, then taken)
                   if n == 0 {
                       close(source)                 h_close   "let successive method go ASAP"
                       drain(s.source)               h_drain   "if breaks, this former goroutine
                   }                                            will block forever"
               }
               if n > 0 { close(source) }            h_tail
       First:  for item := range s.source { go drain(s.source); return item }; return nil
       Count:  for range s.source { count++ }; return count

   A channel is [val, closed]; a send puts the value and then waits until it was taken, so
   "an item passes tap i" of Layer P is the receive on channel i.  Checked against Layer P
   (FxStream.tla with the pipeline <<Head(n)>>): every step is a step of the law
   (PROPERTY Refines), its invariants, PQuiet's demand whenever only the harness can move,
   and PEnd's demand (all closed, call over, NO goroutine left) when nothing can move.
   Variants (constant Bug): "break" Head leaves its loop instead of draining; "lateClose"
   Head closes its output only when its input ends; "noDrain" First returns without
   `go drain`.                                                                       *)
EXTENDS FxOps

CONSTANTS Src,        \* the source, a sequence of ints
          NSet,       \* Head's n
          GSet,       \* gate positions (-1 none)
          TSet,       \* terminal operators: "count", "first"
          Bug

VARIABLES cf,         \* [n, gate, term]: the case, chosen initially
          ch,         \* ch[0] source -> Head, ch[1] Head -> terminal: [val, closed]
          spc, sent,  \* the source goroutine
          hpc, hn, hv,            \* the goroutine of Head: pc, remaining n, item in hand
          tpc, cnt,   \* the call goroutine (terminal operator)
          dpc,        \* the goroutine of `go drain`
          s0, s1,     \* items received from ch[0], ch[1]
          rel, call, res
ivars == <<cf, ch, spc, sent, hpc, hn, hv, tpc, cnt, dpc, s0, s1, rel, call, res>>

SrcH == <<3, 1, 2>>
GatesH == {-1, 0, 1, 2, 3}
None == [t |-> -1, v |-> <<>>]
L == Len(Src)
HeadOp == [op |-> "head", n |-> cf.n, f |-> "-", w |-> 0, o |-> <<>>]
TermRec == [op |-> cf.term, n |-> 0, f |-> "-"]

P == INSTANCE FxStream WITH
       SrcSet <- {}, GateSet <- {}, OpSet <- {}, TermSet <- {}, MaxOps <- 1, Stream <- TRUE,
       phase <- "run", src <- Items(Src), gate <- cf.gate, ops <- <<HeadOp>>, term <- TermRec,
       seen <- <<s0, s1>>, closed <- <<ch[0].closed, ch[1].closed>>,
       rel <- rel, call <- call, res <- res

IInit ==
  /\ cf \in [n : NSet, gate : GSet, term : TSet] /\ cf.gate <= L
  /\ ch = [i \in 0..1 |-> [val |-> None, closed |-> FALSE]]
  /\ spc = "send" /\ sent = 0
  /\ hpc = "recv" /\ hn = cf.n /\ hv = None
  /\ tpc = "recv" /\ cnt = 0 /\ dpc = "off"
  /\ s0 = <<>> /\ s1 = <<>> /\ rel = FALSE /\ call = "running" /\ res = <<>>

Put(i, v) == ch[i].val = None /\ ch' = [ch EXCEPT ![i].val = v]
Taken(i) == ch[i].val = None
Close(i) == ch' = [ch EXCEPT ![i].closed = TRUE]
CanRecv(i) == ch[i].val # None \/ ch[i].closed

\* ---- the source: From(func(source) { for i, x := range src { if i == gate { <-gate }; source <- x } ... }) ----
SPut ==   /\ spc = "send" /\ sent < L /\ (cf.gate < 0 \/ rel \/ sent < cf.gate)
          /\ Put(0, I(Src[sent + 1])) /\ spc' = "wait"
          /\ UNCHANGED <<cf, sent, hpc, hn, hv, tpc, cnt, dpc, s0, s1, rel, call, res>>
SWait ==  /\ spc = "wait" /\ Taken(0) /\ sent' = sent + 1 /\ spc' = "send"
          /\ UNCHANGED <<cf, ch, hpc, hn, hv, tpc, cnt, dpc, s0, s1, rel, call, res>>
SClose == /\ spc = "send" /\ sent = L /\ (cf.gate < 0 \/ rel)
          /\ Close(0) /\ spc' = "done"
          /\ UNCHANGED <<cf, sent, hpc, hn, hv, tpc, cnt, dpc, s0, s1, rel, call, res>>
ERelease == /\ cf.gate >= 0 /\ ~rel /\ rel' = TRUE
            /\ UNCHANGED <<cf, ch, spc, sent, hpc, hn, hv, tpc, cnt, dpc, s0, s1, call, res>>

\* ---- Head ----
HRecv ==  /\ hpc = "recv" /\ CanRecv(0)
          /\ IF ch[0].val # None
             THEN /\ hv' = ch[0].val /\ s0' = Append(s0, ch[0].val)
                  /\ ch' = [ch EXCEPT ![0].val = None]
                  /\ hn' = hn - 1
                  /\ hpc' = (IF hn - 1 >= 0 THEN "send" ELSE "recv")
             ELSE /\ hpc' = "tail" /\ UNCHANGED <<hv, s0, ch, hn>>
          /\ UNCHANGED <<cf, spc, sent, tpc, cnt, dpc, s1, rel, call, res>>
HSend ==  /\ hpc = "send" /\ Put(1, hv) /\ hpc' = "sent"
          /\ UNCHANGED <<cf, spc, sent, hn, hv, tpc, cnt, dpc, s0, s1, rel, call, res>>
HSent ==  /\ hpc = "sent" /\ Taken(1)
          /\ hpc' = (IF hn = 0 /\ Bug # "lateClose" THEN "close" ELSE "recv")
          /\ UNCHANGED <<cf, ch, spc, sent, hn, hv, tpc, cnt, dpc, s0, s1, rel, call, res>>
HClose == /\ hpc = "close" /\ Close(1)
          /\ hpc' = (IF Bug = "break" THEN "done" ELSE "drain")
          /\ UNCHANGED <<cf, spc, sent, hn, hv, tpc, cnt, dpc, s0, s1, rel, call, res>>
HDrain == /\ hpc = "drain" /\ CanRecv(0)
          /\ IF ch[0].val # None
             THEN /\ s0' = Append(s0, ch[0].val) /\ ch' = [ch EXCEPT ![0].val = None] /\ hpc' = "drain"
             ELSE /\ hpc' = "tail" /\ UNCHANGED <<s0, ch>>
          /\ UNCHANGED <<cf, spc, sent, hn, hv, tpc, cnt, dpc, s1, rel, call, res>>
HTail ==  /\ hpc = "tail"
          /\ IF hn > 0 \/ (Bug = "lateClose" /\ ~ch[1].closed) THEN Close(1) ELSE UNCHANGED ch
          /\ hpc' = "done"
          /\ UNCHANGED <<cf, spc, sent, hn, hv, tpc, cnt, dpc, s0, s1, rel, call, res>>

\* ---- the terminal operator (the call goroutine) and `go drain` ----
TRecv ==  /\ tpc = "recv" /\ CanRecv(1)
          /\ IF ch[1].val # None
             THEN /\ s1' = Append(s1, ch[1].val) /\ ch' = [ch EXCEPT ![1].val = None]
                  /\ IF cf.term = "first" THEN tpc' = "ret" /\ UNCHANGED cnt
                                          ELSE cnt' = cnt + 1 /\ UNCHANGED tpc
             ELSE /\ tpc' = "ret" /\ UNCHANGED <<s1, ch, cnt>>
          /\ UNCHANGED <<cf, spc, sent, hpc, hn, hv, dpc, s0, rel, call, res>>
TRet ==   /\ tpc = "ret"
          /\ res' = (IF cf.term = "first" THEN (IF s1 # <<>> THEN <<s1[1]>> ELSE <<>>) ELSE <<I(cnt)>>)
          /\ dpc' = (IF cf.term = "first" /\ s1 # <<>> /\ Bug # "noDrain" THEN "drain" ELSE "off")
          /\ call' = "returned" /\ tpc' = "done"
          /\ UNCHANGED <<cf, ch, spc, sent, hpc, hn, hv, cnt, s0, s1, rel>>
DDrain == /\ dpc = "drain" /\ CanRecv(1)
          /\ IF ch[1].val # None
             THEN /\ s1' = Append(s1, ch[1].val) /\ ch' = [ch EXCEPT ![1].val = None] /\ dpc' = "drain"
             ELSE /\ dpc' = "done" /\ UNCHANGED <<s1, ch>>
          /\ UNCHANGED <<cf, spc, sent, hpc, hn, hv, tpc, cnt, s0, rel, call, res>>

Code == SPut \/ SWait \/ SClose \/ HRecv \/ HSend \/ HSent \/ HClose \/ HDrain \/ HTail \/ TRecv \/ TRet \/ DDrain
Gone == spc = "done" /\ hpc = "done" /\ tpc = "done" /\ dpc \in {"off", "done"}
Over == Gone /\ UNCHANGED ivars
INext == SPut \/ SWait \/ SClose \/ HRecv \/ HSend \/ HSent \/ HClose \/ HDrain \/ HTail \/ TRecv \/ TRet \/ DDrain
         \/ ERelease \/ Over
ISpec == IInit /\ [][INext]_ivars

\* ---- checked ----
Refines == [][P!PNext]_(P!vars)
PInvariants == P!HeadBound /\ P!Causal /\ P!CloseOrder
\* only the harness can move (or nothing can): what Layer P demands of a pipeline at rest
AtRestIsQuiet == ~ENABLED Code => P!AtRest
\* source exhausted and nothing can move: every goroutine is gone, every channel closed
NoLeak == (~ENABLED Code /\ (cf.gate < 0 \/ rel)) => (Gone /\ ch[0].closed /\ ch[1].closed /\ call = "returned")
ITypeOK == /\ hn \in -L..cf.n /\ sent \in 0..L /\ cnt \in 0..L
           /\ spc \in {"send", "wait", "done"} /\ tpc \in {"recv", "ret", "done"}
=============================================================================
