----------------------------- MODULE FxStreamMC -----------------------------
(* Constant sets for model checking / test generation of FxStream (cfg files cannot
   write records).                                                                  *)
EXTENDS FxStream, Json

O(op, n, f) == [op |-> op, n |-> n, f |-> f, w |-> 0, o |-> <<>>]
OW(op, n, f, w) == [op |-> op, n |-> n, f |-> f, w |-> w, o |-> <<>>]
OC(others) == [op |-> "concat", n |-> 0, f |-> "-", w |-> 0, o |-> others]
T(op, n, f) == [op |-> op, n |-> n, f |-> f]

SrcA == {<<3, 1, 3, 2>>}
GatesA == {-1, 2}
GatesB == {1}
GatesG == {-1, 0, 1, 3, 6}
SrcB == {<<2, 4, 1>>}
SrcG == {<<>>, <<4>>, <<3, 1, 4, 1, 5, 2>>}
\* small: the order-sensitive and the lazy ones, boundary parameters
OpsA == {O("head", 0, "-"), O("head", 1, "-"), O("head", 2, "-"), O("head", 5, "-"),
         O("tail", 1, "-"), O("tail", 5, "-"), O("skip", 0, "-"), O("skip", 1, "-"), O("skip", 5, "-"),
         O("distinct", 0, "mod2"), O("reverse", 0, "-"), O("sort", 0, "ltmod3"),
         O("filter", 0, "odd"), O("map", 0, "sqpe"), O("split", 2, "-"), O("walk", 0, "flat")}
\* pairs of operators: early close (Head) against everything that waits for the end of its input
OpsC == {O("head", 0, "-"), O("head", 1, "-"), O("head", 2, "-"), O("tail", 1, "-"), O("skip", 1, "-"),
         O("distinct", 0, "mod2"), O("reverse", 0, "-"), O("sort", 0, "ltmod3"), O("filter", 0, "odd"),
         O("split", 2, "-"), O("walk", 0, "flat"), O("group", 0, "mod2")}
TermsC == {T("count", 0, "-"), T("first", 0, "-"), T("any", 0, "even"), T("forall", 1, "-"), T("parallel", 0, "-")}
SrcC == {<<3, 1, 2>>}
GatesC == {-1, 1}
TermsA == {T("count", 0, "-"), T("first", 0, "-"), T("last", 0, "-"), T("any", 0, "even"),
           T("all", 0, "odd"), T("forall", 1, "-"), T("max", 0, "ltmod3")}
\* every operator once
OpsB == {O("buffer", 1, "-"), O("head", 2, "-"), O("tail", 2, "-"), O("skip", 1, "-"), O("skip", -1, "-"),
         O("distinct", 0, "mod3"), O("reverse", 0, "-"), O("sort", 0, "gt"), O("filter", 0, "gt2"),
         O("map", 0, "inc"), O("map", 0, "len"), O("map", 0, "sum"), O("walk", 0, "dup"), O("walk", 0, "odd1"),
         O("walk", 0, "flat"), O("split", 0, "-"), O("split", 3, "-"), O("merge", 0, "-"), O("group", 0, "mod2"),
         OC(<<<<7>>, <<>>, <<1, 8>>>>), O("tail", 0, "-"), O("head", 0, "-"), O("head", 5, "-"),
         \* worker options (the law ignores them) and the package-level Concat (n = 1)
         OW("map", 0, "sqpe", 2), OW("walk", 0, "dup", -1), OW("filter", 0, "even", -2), OW("map", 0, "dbl", 1),
         [op |-> "concat", n |-> 1, f |-> "-", w |-> 0, o |-> <<<<4, 4>>>>]}
\* the operators that multiply items (every order of the output bag is a behaviour): checked on a 2-item source
OpsBx == {o \in OpsB : o.op = "concat" \/ (o.op = "walk" /\ o.f = "dup") \/ (o.op = "tail" /\ o.n = 0)}
OpsBs == OpsB \ OpsBx
SrcB2 == {<<2, 1>>}
TermsB == {T("count", 0, "-"), T("first", 0, "-"), T("last", 0, "-"), T("max", 0, "lt"), T("min", 0, "ltmod3"),
           T("any", 0, "gt2"), T("all", 0, "even"), T("none", 0, "odd"), T("done", 0, "-"), T("foreach", 0, "-"),
           T("reduce", 0, "-"), T("forall", 0, "-"), T("forall", 2, "-"), T("parallel", 0, "-")}

\* ---- test generation: one line per pipeline (phase "run" reached, streaming switched off) ----
Case == [src |-> Vals(src), gate |-> gate, ops |-> ops, term |-> term]
PrintCase == (phase = "run") => PrintT("TRACE " \o ToJson(Case))
=============================================================================
