------------------------------- MODULE FxOps -------------------------------
(* Extension specification "fxstream" (host C05): the operators of core/fx.Stream as
   functions / relations on sequences and bags.  Pure definitions, no state.

   An ITEM is a record [t, v]: t = 0 is an int x (v = <<x>>), t = 1 is a slice of ints
   (v = the ints) as produced by Split / Merge / Group.  An OPERATOR is a record
   [op, n, f, w, o]: name, integer parameter, name of the user function (table below),
   workers option (ignored by the law: 0 default, -1 UnlimitedWorkers, -2 WithWorkers(0),
   k WithWorkers(k)), o = the other streams of Concat (sequence of int sequences).

   A STREAM under observation is a pair (s, c): the items that have passed so far and
   whether it has been closed.  Every operator is given three ways:
     Possible(o, in, c, new)  the output prefix `new` can have been emitted after the
                              input prefix (in, c)                       (causality, order)
     CanClose(o, in, c, out)  the output may be closed with exactly `out` emitted
     Maximal(o, in, c, out, oc)  nothing more can be emitted / closed: what an operator
                              at rest must have delivered               (laziness)
   and, written independently, as a relation on complete sequences:
     FullRel(o, in, out)      `out` is a result of the operator on the finite input `in`.
   Order is demanded where the API promises it (Buffer Head Tail Skip Distinct Split
   Reverse Sort), only the multiset where it does not (Walk/Map/Filter with workers,
   Concat, the members of a Group, the slice of Merge, the order of the groups).     *)
EXTENDS Integers, Sequences, FiniteSets, TLC

Range(s) == {s[j] : j \in DOMAIN s}
Min2(a, b) == IF a < b THEN a ELSE b
Max2(a, b) == IF a > b THEN a ELSE b

I(x) == [t |-> 0, v |-> <<x>>]
C(s) == [t |-> 1, v |-> s]
Val(it) == it.v[1]
Vals(s) == [j \in 1..Len(s) |-> Val(s[j])]
Items(s) == [j \in 1..Len(s) |-> I(s[j])]
BoolItem(b) == <<I(IF b THEN 1 ELSE 0)>>

\* ---- bags and sequences ----
Cnt(s, x) == Cardinality({j \in DOMAIN s : s[j] = x})
SubBag(a, b) == \A x \in Range(a) : Cnt(a, x) <= Cnt(b, x)
SameBag(a, b) == Len(a) = Len(b) /\ SubBag(a, b)
IsPrefix(a, b) == Len(a) <= Len(b) /\ \A j \in 1..Len(a) : a[j] = b[j]
Take(s, n) == SubSeq(s, 1, Min2(Max2(n, 0), Len(s)))
Drop(s, n) == SubSeq(s, Min2(Max2(n, 0), Len(s)) + 1, Len(s))
LastN(s, n) == SubSeq(s, Max2(1, Len(s) - Max2(n, 0) + 1), Len(s))
Rev(s) == [j \in 1..Len(s) |-> s[Len(s) + 1 - j]]
Pick(s, J) == LET F[i \in 0..Len(s)] == IF i = 0 THEN <<>>
                                        ELSE IF i \in J THEN Append(F[i-1], s[i]) ELSE F[i-1]
              IN F[Len(s)]
Flat(ss) == LET F[i \in 0..Len(ss)] == IF i = 0 THEN <<>> ELSE F[i-1] \o ss[i] IN F[Len(ss)]
SumSeq(s) == LET F[i \in 0..Len(s)] == IF i = 0 THEN 0 ELSE F[i-1] + s[i] IN F[Len(s)]

\* ---- the user functions the drivers pass in (same tables in the Go driver) ----
IntFns == {"inc", "dbl", "mod3", "sq", "sqpe"}     \* sqpe: square, PANICS on even items
SliceFns == {"len", "sum"}
Preds == {"even", "odd", "gt2", "all", "none"}
Keys == {"id", "mod2", "mod3"}
Lesses == {"lt", "gt", "ltmod3"}
MapF(f, x) == CASE f = "inc" -> x + 1 [] f = "dbl" -> 2 * x [] f = "mod3" -> x % 3
                [] f = "sq" -> x * x [] f = "sqpe" -> x * x
Pred(p, x) == CASE p = "even" -> x % 2 = 0 [] p = "odd" -> x % 2 = 1 [] p = "gt2" -> x > 2
                [] p = "all" -> TRUE [] p = "none" -> FALSE
KeyF(k, x) == CASE k = "id" -> x [] k = "mod2" -> x % 2 [] k = "mod3" -> x % 3
Less(l, a, b) == CASE l = "lt" -> a < b [] l = "gt" -> a > b [] l = "ltmod3" -> (a % 3) < (b % 3)

\* what the WalkFunc of the operator writes for one item (Map and Filter are Walks).
\* A panicking MapFunc is recovered by threading.GoSafe: the item is dropped (TestMap).
Expand(o, it) ==
  CASE o.op = "map" ->
         IF it.t = 1 THEN (IF o.f = "len" THEN <<I(Len(it.v))>> ELSE <<I(SumSeq(it.v))>>)
         ELSE IF o.f = "sqpe" /\ Val(it) % 2 = 0 THEN <<>> ELSE <<I(MapF(o.f, Val(it)))>>
    [] o.op = "filter" -> IF Pred(o.f, Val(it)) THEN <<it>> ELSE <<>>
    [] o.op = "walk" ->
         CASE o.f = "dup" -> <<it, I(Val(it) + 10)>>
           [] o.f = "odd1" -> IF Val(it) % 2 = 1 THEN <<it>> ELSE <<>>
           [] o.f = "flat" -> Items(it.v)
FlatExp(o, in) == Flat([j \in 1..Len(in) |-> Expand(o, in[j])])

\* ---- typing of pipelines (what the generator may build; level 0 ints, 1 slices) ----
OpOK(o, lvl) ==
  CASE o.op \in {"buffer", "head", "tail", "skip", "reverse"} -> TRUE
    [] o.op = "map" -> IF lvl = 0 THEN o.f \in IntFns ELSE o.f \in SliceFns
    [] o.op = "walk" -> IF lvl = 0 THEN o.f \in {"dup", "odd1"} ELSE o.f = "flat"
    [] o.op = "filter" -> lvl = 0 /\ o.f \in Preds
    [] o.op \in {"distinct", "group"} -> lvl = 0 /\ o.f \in Keys
    [] o.op = "sort" -> lvl = 0 /\ o.f \in Lesses
    [] o.op \in {"split", "merge", "concat"} -> lvl = 0
    [] OTHER -> FALSE
LvlOut(o, lvl) ==
  CASE o.op \in {"split", "merge", "group"} -> 1
    [] o.op = "map" /\ lvl = 1 -> 0
    [] o.op = "walk" /\ o.f = "flat" -> 0
    [] OTHER -> lvl
TermOKAt(t, lvl) ==
  \/ t.op \in {"count", "first", "last", "done", "foreach", "reduce", "forall", "parallel"}
  \/ lvl = 0 /\ t.op \in {"max", "min"} /\ t.f \in Lesses
  \/ lvl = 0 /\ t.op \in {"any", "all", "none"} /\ t.f \in Preds

\* Sort / Reverse / Merge / Group read their whole input inside the constructor call (the
\* method itself blocks, the rest of the chain is not built until the input is closed); the
\* API does not promise either way, so the law only RELAXES its at-rest demands behind them
Blocking == {"sort", "reverse", "merge", "group"}

\* Head(n<1), Tail(n<1), Split(n<1), Skip(n<0) panic in the constructor (TestHeadZero, ...)
PanicsOn(o) == (o.op \in {"head", "tail", "split"} /\ o.n < 1) \/ (o.op = "skip" /\ o.n < 0)

\* ---- deterministic, order-preserving operators as prefix transducers ----
SeqOps == {"buffer", "head", "skip", "distinct", "split", "tail", "reverse"}
DistinctBy(k, in) ==
  Pick(in, {j \in 1..Len(in) : \A i \in 1..(j-1) : KeyF(k, Val(in[i])) # KeyF(k, Val(in[j]))})
Chunks(in, n, c) ==
  LET full == Len(in) \div Max2(n, 1)
      part == IF c /\ Len(in) % Max2(n, 1) # 0 THEN 1 ELSE 0
  IN [j \in 1..(full + part) |-> C(Vals(SubSeq(in, (j-1)*n + 1, Min2(j*n, Len(in)))))]
DetOut(o, in, c) ==
  CASE o.op = "buffer" -> in
    [] o.op = "head" -> Take(in, o.n)
    [] o.op = "skip" -> Drop(in, o.n)
    [] o.op = "distinct" -> DistinctBy(o.f, in)
    [] o.op = "split" -> Chunks(in, o.n, c)
    [] o.op = "tail" -> IF c THEN LastN(in, o.n) ELSE <<>>
    [] o.op = "reverse" -> IF c THEN Rev(in) ELSE <<>>
\* Head closes its output after the n-th item "to let successive method go ASAP"
DetClosed(o, in, c) == IF o.op = "head" THEN c \/ Len(in) >= o.n ELSE c

SortedBy(l, s) == \A i, j \in 1..Len(s) : i < j => ~Less(l, Val(s[j]), Val(s[i]))
Others(o) == Items(Flat(o.o))
BagTarget(o, in) == IF o.op = "concat" THEN in \o Others(o) ELSE FlatExp(o, in)
GroupOK(k, in, g) ==
  /\ g.t = 1 /\ Len(g.v) > 0
  /\ LET key == KeyF(k, g.v[1])
         Same(x) == KeyF(k, x) = key
     IN SameBag(g.v, SelectSeq(Vals(in), Same))
GroupKeys(k, out) == {KeyF(k, out[j].v[1]) : j \in 1..Len(out)}

Possible(o, in, c, new) ==
  CASE o.op \in SeqOps -> IsPrefix(new, DetOut(o, in, c))
    [] o.op \in {"map", "filter", "walk", "concat"} -> SubBag(new, BagTarget(o, in))
    \* Sort / Merge / Group read the whole input before they emit anything
    [] o.op = "sort" -> new = <<>> \/ (/\ c /\ SubBag(new, in) /\ SortedBy(o.f, new)
                                       /\ \A x \in Range(in) : Cnt(in, x) > Cnt(new, x) =>
                                             ~Less(o.f, Val(x), Val(new[Len(new)])))
    [] o.op = "merge" -> new = <<>> \/ (c /\ Len(new) = 1 /\ new[1].t = 1 /\ SameBag(new[1].v, Vals(in)))
    [] o.op = "group" -> new = <<>> \/ (/\ c
                                        /\ \A j \in 1..Len(new) : GroupOK(o.f, in, new[j])
                                        /\ Cardinality(GroupKeys(o.f, new)) = Len(new))

Complete(o, in, out) ==       \* the whole output for a CLOSED input
  CASE o.op \in SeqOps -> out = DetOut(o, in, TRUE)
    [] o.op \in {"map", "filter", "walk", "concat"} -> SameBag(out, BagTarget(o, in))
    [] o.op = "sort" -> SameBag(out, in) /\ SortedBy(o.f, out)
    [] o.op = "merge" -> Len(out) = 1 /\ Possible(o, in, TRUE, out)
    [] o.op = "group" -> /\ Possible(o, in, TRUE, out)
                         /\ GroupKeys(o.f, out) = {KeyF(o.f, x) : x \in Range(Vals(in))}

CanClose(o, in, c, out) ==
  IF o.op = "head" THEN DetClosed(o, in, c) /\ out = DetOut(o, in, c)
  ELSE c /\ Complete(o, in, out)

Maximal(o, in, c, out, oc) ==
  CASE o.op \in SeqOps -> out = DetOut(o, in, c) /\ oc = DetClosed(o, in, c)
    [] o.op \in {"map", "filter", "walk", "concat"} -> SameBag(out, BagTarget(o, in)) /\ oc = c
    [] OTHER -> IF c THEN Complete(o, in, out) /\ oc ELSE out = <<>> /\ ~oc

\* candidates for the next emitted item (model checking of Layer P only)
NextCands(o, in, c, out) ==
  CASE o.op \in SeqOps -> LET d == DetOut(o, in, c) IN IF Len(out) < Len(d) THEN {d[Len(out) + 1]} ELSE {}
    [] o.op \in {"map", "filter", "walk", "concat"} -> Range(BagTarget(o, in))
    [] o.op = "sort" -> Range(in)
    [] o.op = "merge" -> {C(Vals(in)), C(Vals(Rev(in)))}
    [] o.op = "group" -> {C(SelectSeq(Vals(in), LAMBDA x : KeyF(o.f, x) = kk)) : kk \in {KeyF(o.f, x) : x \in Range(Vals(in))}}

\* ---- the same operators once more, as relations on complete finite sequences ----
FullRel(o, in, out) ==
  LET n == Len(in) m == Len(out) IN
  CASE o.op = "buffer" -> out = in
    [] o.op = "head" -> m = Min2(o.n, n) /\ \A j \in 1..m : out[j] = in[j]
    [] o.op = "tail" -> m = Min2(o.n, n) /\ \A j \in 1..m : out[j] = in[n - m + j]
    [] o.op = "skip" -> m = Max2(n - o.n, 0) /\ \A j \in 1..m : out[j] = in[o.n + j]
    [] o.op = "reverse" -> m = n /\ \A j \in 1..m : out[j] = in[n + 1 - j]
    [] o.op = "distinct" ->
         \* a subsequence of the input, one item per key, each the first of its key
         LET FirstPos(x) == CHOOSE p \in 1..n : /\ KeyF(o.f, Val(in[p])) = KeyF(o.f, Val(x))
                                                /\ \A q \in 1..(p-1) : KeyF(o.f, Val(in[q])) # KeyF(o.f, Val(x))
         IN /\ {KeyF(o.f, Val(out[j])) : j \in 1..m} = {KeyF(o.f, Val(in[j])) : j \in 1..n}
            /\ \A j \in 1..m : in[FirstPos(out[j])] = out[j]
            /\ \A i, j \in 1..m : i < j => FirstPos(out[i]) < FirstPos(out[j])
    [] o.op = "split" ->
         /\ \A j \in 1..m : out[j].t = 1 /\ Len(out[j].v) \in 1..o.n
         /\ \A j \in 1..(m-1) : Len(out[j].v) = o.n
         /\ Flat([j \in 1..m |-> out[j].v]) = Vals(in)
    [] o.op = "map" -> SameBag(out, FlatExp(o, in))
    [] o.op = "filter" -> SameBag(out, SelectSeq(in, LAMBDA it : Pred(o.f, Val(it))))
    [] o.op = "walk" -> SameBag(out, FlatExp(o, in))
    [] o.op = "concat" -> SameBag(out, in \o Others(o))
    [] o.op = "sort" -> SameBag(out, in) /\ \A j \in 1..(m-1) : ~Less(o.f, Val(out[j+1]), Val(out[j]))
    [] o.op = "merge" -> m = 1 /\ out[1].t = 1 /\ SameBag(out[1].v, Vals(in))
    [] o.op = "group" ->
         /\ \A j \in 1..m : out[j].t = 1 /\ Len(out[j].v) > 0
         /\ SameBag(Flat([j \in 1..m |-> out[j].v]), Vals(in))
         /\ \A i, j \in 1..m : \A x \in Range(out[i].v), y \in Range(out[j].v) :
               (KeyF(o.f, x) = KeyF(o.f, y)) <=> (i = j)

\* ---- terminal operators ----
Matches(p, s) == {j \in 1..Len(s) : Pred(p, Val(s[j]))}
\* the result is determined by the prefix (s, c): the terminal operator can return
Determined(t, s, c) ==
  CASE t.op = "first" -> c \/ Len(s) >= 1
    [] t.op \in {"any", "none"} -> c \/ Matches(t.f, s) # {}
    [] t.op = "all" -> c \/ Matches(t.f, s) # DOMAIN s
    [] t.op = "forall" -> c \/ Len(s) >= t.n       \* ForAllFunc that reads t.n items
    [] OTHER -> c
\* results are sequences of items: <<>> is Go's nil / no value, booleans are I(0)/I(1)
TermOK(t, s, c, r) ==
  CASE t.op = "count" -> c /\ r = <<I(Len(s))>>
    [] t.op = "first" -> (Len(s) >= 1 /\ r = <<s[1]>>) \/ (c /\ s = <<>> /\ r = <<>>)
    [] t.op = "last" -> c /\ r = (IF s = <<>> THEN <<>> ELSE <<s[Len(s)]>>)
    [] t.op = "max" -> c /\ IF s = <<>> THEN r = <<>>
                           ELSE Len(r) = 1 /\ r[1] \in Range(s) /\ \A x \in Range(s) : ~Less(t.f, Val(r[1]), Val(x))
    [] t.op = "min" -> c /\ IF s = <<>> THEN r = <<>>
                           ELSE Len(r) = 1 /\ r[1] \in Range(s) /\ \A x \in Range(s) : ~Less(t.f, Val(x), Val(r[1]))
    [] t.op = "any" -> (r = BoolItem(TRUE) /\ Matches(t.f, s) # {}) \/ (r = BoolItem(FALSE) /\ c /\ Matches(t.f, s) = {})
    [] t.op = "none" -> (r = BoolItem(FALSE) /\ Matches(t.f, s) # {}) \/ (r = BoolItem(TRUE) /\ c /\ Matches(t.f, s) = {})
    [] t.op = "all" -> (r = BoolItem(FALSE) /\ Matches(t.f, s) # DOMAIN s) \/ (r = BoolItem(TRUE) /\ c /\ Matches(t.f, s) = DOMAIN s)
    [] t.op = "done" -> c /\ r = <<>>
    [] t.op \in {"foreach", "reduce"} -> c /\ r = s             \* the items the callback received, in order
    [] t.op = "forall" -> IsPrefix(r, s) /\ (Len(r) = t.n \/ (c /\ r = s /\ Len(s) < t.n))
    [] t.op = "parallel" -> c /\ SameBag(r, s)                  \* ParallelFunc calls, any order
ResCands(s) == {SubSeq(s, 1, k) : k \in 0..Len(s)} \cup {<<x>> : x \in Range(s)}
               \cup {<<I(k)>> : k \in 0..Len(s)} \cup {<<I(1)>>}
=============================================================================
