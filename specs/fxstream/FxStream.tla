------------------------------ MODULE FxStream ------------------------------
(* Layer P of the extension "fxstream": a pipeline of core/fx.Stream operators as a
   state machine over what can be OBSERVED of it.

   Building:  PSource (Just / From / Range), POp (one chained operator), PTerm (the
   terminal operator: First Last Count Max Min AllMatch AnyMatch NoneMatch ForEach
   ForAll Done Reduce Parallel).
   Running:   tap i (0..K) is the stream between operator i and i+1 (tap 0 = the source,
   tap K feeds the terminal operator); seen[i+1] / closed[i+1] are the items that passed
   tap i and whether it was closed.
     PItem(i, v)   an item passes tap i   -- only if operator i can have emitted it now
     PClose(i)     tap i is closed        -- only if operator i has emitted everything
     PRelease      the gated source is allowed to go on (harness gate)
     PPanic(i)     the constructor of operator i panics (Head(0), Tail(0), Split(0), Skip(-1))
     PReturn(r)    the terminal operator returns r
     PQuiet        every goroutine of the pipeline is blocked (an observation): each
                   operator has delivered everything its input so far determines, and the
                   terminal operator has returned IF AND ONLY IF its result is determined
                   (laziness: Head(n) lets its successor go after n items, First/AnyMatch/...
                   do not wait for the source; termination: nothing else is stuck).
                   Sort / Reverse / Merge / Group read their whole input inside the method
                   call: the API promises neither that nor the opposite, so behind such an
                   operator whose input is still open the demands are relaxed (MayBlock):
                   the later stages may not exist yet, the call need not have returned
     PEnd(leaked)  source exhausted, call over, everything at rest: every tap is closed
                   and complete (every upstream was drained) and no goroutine is left.   *)
EXTENDS FxOps

CONSTANTS SrcSet,      \* sources the generator may choose (sequences of ints)
          GateSet,     \* gate positions: -1 none, g >= 0: the source blocks after g items
          OpSet,       \* operator records the generator may chain
          TermSet,     \* terminal operator records
          MaxOps,      \* pipeline length bound
          Stream       \* FALSE: only build pipelines (test generation)

VARIABLES phase,   \* "build" | "run" | "done"
          src, gate, ops, term,
          seen, closed,      \* per tap (index tap+1)
          rel,               \* gate released
          call,              \* "running" | "returned" | "panicked"
          res

vars == <<phase, src, gate, ops, term, seen, closed, rel, call, res>>
cfgv == <<src, gate, ops, term>>

K == Len(ops)
Lvl(n) == LET F[i \in 0..n] == IF i = 0 THEN 0 ELSE LvlOut(ops[i], F[i-1]) IN F[n]
Live(i) == \A j \in 1..i : ~PanicsOn(ops[j])        \* tap i exists
NoTerm == [op |-> "-", n |-> 0, f |-> "-"]

PInit == /\ phase = "build" /\ src = <<>> /\ gate = -1 /\ ops = <<>> /\ term = NoTerm
         /\ seen = <<>> /\ closed = <<>> /\ rel = FALSE /\ call = "running" /\ res = <<>>

\* ---- building ----
PSource(s, g) ==
  /\ phase = "build" /\ ops = <<>> /\ src = <<>> /\ gate = -1 /\ (s # <<>> \/ g # -1)
  /\ g <= Len(s)
  /\ src' = Items(s) /\ gate' = g
  /\ UNCHANGED <<phase, ops, term, seen, closed, rel, call, res>>
POp(o) ==
  /\ phase = "build" /\ K < MaxOps /\ Live(K) /\ OpOK(o, Lvl(K))
  /\ ops' = Append(ops, o)
  /\ UNCHANGED <<phase, src, gate, term, seen, closed, rel, call, res>>
StartRun(s, g, os, t) ==
  /\ src' = s /\ gate' = g /\ ops' = os /\ term' = t /\ phase' = "run"
  /\ seen' = [i \in 1..(Len(os) + 1) |-> <<>>]
  /\ closed' = [i \in 1..(Len(os) + 1) |-> FALSE]
  /\ rel' = FALSE /\ call' = "running" /\ res' = <<>>
PTerm(t) ==
  /\ phase = "build" /\ (Live(K) => TermOKAt(t, Lvl(K)))
  /\ StartRun(src, gate, ops, t)

\* ---- running ----
SourceMay(n) == gate < 0 \/ rel \/ n <= gate      \* the n-th item may leave the source
PItem(i, v) ==
  /\ phase = "run" /\ i \in 0..K /\ Live(i) /\ ~closed[i+1]
  /\ IF i = 0 THEN /\ Len(seen[1]) < Len(src) /\ v = src[Len(seen[1]) + 1]
                   /\ SourceMay(Len(seen[1]) + 1)
     ELSE Possible(ops[i], seen[i], closed[i], Append(seen[i+1], v))
  /\ seen' = [seen EXCEPT ![i+1] = Append(@, v)]
  /\ UNCHANGED <<phase, src, gate, ops, term, closed, rel, call, res>>
PClose(i) ==
  /\ phase = "run" /\ i \in 0..K /\ Live(i) /\ ~closed[i+1]
  /\ IF i = 0 THEN seen[1] = src /\ (gate < 0 \/ rel)
     ELSE CanClose(ops[i], seen[i], closed[i], seen[i+1])
  /\ closed' = [closed EXCEPT ![i+1] = TRUE]
  /\ UNCHANGED <<phase, src, gate, ops, term, seen, rel, call, res>>
PRelease ==
  /\ phase = "run" /\ gate >= 0 /\ ~rel /\ rel' = TRUE
  /\ UNCHANGED <<phase, src, gate, ops, term, seen, closed, call, res>>
PPanic(i) ==
  /\ phase = "run" /\ call = "running" /\ i \in 1..K /\ Live(i-1) /\ PanicsOn(ops[i])
  /\ call' = "panicked"
  /\ UNCHANGED <<phase, src, gate, ops, term, seen, closed, rel, res>>
PReturn(r) ==
  /\ phase = "run" /\ call = "running" /\ Live(K)
  /\ TermOK(term, seen[K+1], closed[K+1], r)
  /\ call' = "returned" /\ res' = r
  /\ UNCHANGED <<phase, src, gate, ops, term, seen, closed, rel>>

SourceAtRest == IF gate < 0 \/ rel THEN seen[1] = src /\ closed[1]
                ELSE seen[1] = Take(src, gate) /\ ~closed[1]
\* an operator behind a constructor that may still be blocked may not exist yet
MayBlock(n) == \E j \in 1..n : ops[j].op \in Blocking /\ ~closed[j]
FirstPanic == CHOOSE i \in 1..K : PanicsOn(ops[i]) /\ Live(i-1)
StagesAtRest == \A i \in 1..K : Live(i) =>
                  \/ Maximal(ops[i], seen[i], closed[i], seen[i+1], closed[i+1])
                  \/ MayBlock(i-1) /\ seen[i+1] = <<>> /\ ~closed[i+1]
CallAtRest == IF Live(K)
              THEN /\ call = "returned" => Determined(term, seen[K+1], closed[K+1])
                   /\ (Determined(term, seen[K+1], closed[K+1]) /\ ~MayBlock(K)) => call = "returned"
              ELSE /\ call # "returned"
                   /\ ~MayBlock(FirstPanic - 1) => call = "panicked"
AtRest == SourceAtRest /\ StagesAtRest /\ CallAtRest
PQuiet == phase = "run" /\ AtRest /\ UNCHANGED vars
PEnd(leaked) ==
  /\ phase = "run" /\ (gate < 0 \/ rel) /\ call # "running" /\ AtRest
  /\ \A i \in 0..K : Live(i) => closed[i+1]
  /\ leaked = 0
  /\ phase' = "done"
  /\ UNCHANGED <<src, gate, ops, term, seen, closed, rel, call, res>>

\* guards once more, for the model checker (candidates instead of logged values)
ItemCands(i) == IF i = 0 THEN {src[j] : j \in {Len(seen[1]) + 1} \cap DOMAIN src}
                ELSE NextCands(ops[i], seen[i], closed[i], seen[i+1])
NSource == \E s \in SrcSet, g \in GateSet : PSource(s, g)
NOp == \E o \in OpSet : POp(o)
NTerm == \E t \in TermSet : PTerm(t)
NItem == Stream /\ phase = "run" /\ \E i \in 0..K : \E v \in ItemCands(i) : PItem(i, v)
NClose == Stream /\ phase = "run" /\ \E i \in 0..K : PClose(i)
NPanic == Stream /\ phase = "run" /\ \E i \in 0..K : PPanic(i)
NRelease == Stream /\ PRelease
NReturn == Stream /\ phase = "run" /\ Live(K) /\ \E r \in ResCands(seen[K+1]) : PReturn(r)
NQuiet == Stream /\ PQuiet
NEnd == Stream /\ PEnd(0)
NIdle == (phase = "done" \/ (~Stream /\ phase = "run")) /\ UNCHANGED vars
PNext == NSource \/ NOp \/ NTerm \/ NItem \/ NClose \/ NPanic \/ NRelease \/ NReturn \/ NQuiet \/ NEnd \/ NIdle
PSpec == PInit /\ [][PNext]_vars

\* ---- properties ----
\* the two formulations of every operator agree: a pipeline that has run to the end has
\* computed, stage by stage, a result of the operator as a function on complete sequences
Agree == phase = "done" => \A i \in 1..K : Live(i) => FullRel(ops[i], seen[i], seen[i+1])
\* an early result (First, AnyMatch, ForAll, ... under Head) is still right at the end
ResStable == (phase = "done" /\ call = "returned") =>
               \/ TermOK(term, seen[K+1], TRUE, res)
               \/ term.op = "forall"
HeadBound == phase # "build" => \A i \in 1..K : (Live(i) /\ ops[i].op = "head") => Len(seen[i+1]) <= ops[i].n
\* nothing is invented: whatever passed a tap can still be completed to a full result
Causal == phase = "run" => \A i \in 1..K : Live(i) => Possible(ops[i], seen[i], closed[i], seen[i+1])
\* an operator that closed its output had emitted a complete output at that time, and
\* only Head closes before its input
CloseOrder == phase # "build" => \A i \in 1..K : (Live(i) /\ closed[i+1] /\ ~closed[i]) => ops[i].op = "head"
\* the law never paints itself into a corner: a running pipeline that is not at rest can
\* take a step (an item, a close, the panic, the return) -- PQuiet/PRelease/PEnd cover the rest
NoStuck == (phase = "run" /\ ~AtRest) => ENABLED (NItem \/ NClose \/ NPanic \/ NReturn)
\* the generator prints one test case per distinct pipeline
View == <<phase, src, gate, ops, term, seen, closed, rel, call, res>>
=============================================================================
