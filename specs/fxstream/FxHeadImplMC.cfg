SPECIFICATION ISpec
CONSTANTS
  Src <- SrcH
  NSet = {1, 2, 3, 4}
  GSet <- GatesH
  TSet = {"count", "first"}
  Bug = "none"
INVARIANTS ITypeOK PInvariants AtRestIsQuiet NoLeak
PROPERTIES Refines
CHECK_DEADLOCK TRUE
