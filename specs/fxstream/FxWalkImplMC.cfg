SPECIFICATION ISpec
CONSTANTS
  N = 3
  WSet = {0, 1, 2}
  KindSet = {"walk", "filter", "parallel"}
  Bug = "none"
INVARIANTS ITypeOK PInvariants NoCrash AtRestIsQuiet Balanced
PROPERTIES Refines
CHECK_DEADLOCK TRUE
