SPECIFICATION PSpec
CONSTANTS
  SrcSet <- SrcB
  GateSet <- GatesB
  OpSet <- OpsB
  TermSet <- TermsB
  MaxOps = 2
  Stream = TRUE
INVARIANTS Agree ResStable HeadBound Causal CloseOrder NoStuck
CHECK_DEADLOCK TRUE
