SPECIFICATION PSpec
CONSTANTS
  SrcSet <- SrcC
  GateSet <- GatesC
  OpSet <- OpsC
  TermSet <- TermsC
  MaxOps = 2
  Stream = TRUE
INVARIANTS Agree ResStable HeadBound Causal CloseOrder NoStuck
CHECK_DEADLOCK TRUE
