SPECIFICATION PSpec
CONSTANTS
  SrcSet <- SrcA
  GateSet <- GatesA
  OpSet <- OpsA
  TermSet <- TermsA
  MaxOps = 2
  Stream = TRUE
INVARIANTS Agree ResStable HeadBound Causal CloseOrder NoStuck
CHECK_DEADLOCK TRUE
