----------------------------- MODULE FxWalkImpl -----------------------------
(* Layer I for FxWalk: Stream.walkLimited / walkUnlimited of core/fx/stream.go as they are
   written -- the goroutine that ranges over the source, the `pool` channel used as a
   counting semaphore, the WaitGroup, one goroutine per item started through
   threading.GoSafe, the buffered `pipe`, close(pipe) after wg.Wait() -- together with the
   environment of the harness (a gate per invocation, a consumer that always reads).

       for item := range s.source {            p_recv
           pool <- lang.Placeholder            p_acq      (walkLimited only)
           wg.Add(1)                           p_add
           threading.GoSafe(func() {           p_go
               defer func() { wg.Done(); <-pool }()        w_done, w_unpool
               fn(val, pipe)                   w_enter (user function entered), w_gate
           })                                  (harness gate), w_send, w_exit
       }
       wg.Wait(); close(pipe)                  p_wait, p_close

   Checked against Layer P: FxWalk's WSpec under the refinement mapping below (PROPERTY
   Refines: every step is a step of the law or leaves its variables alone), its
   invariants, and WQuiet's demand in every state in which only the harness can move.
   Variants (constant Bug): "addInWorker" wg.Add moved into the goroutine; "unpoolEarly"
   the pool slot given back before fn runs; "noWait" close(pipe) without wg.Wait();
   "poolOff" a pool of workers-1 slots.                                              *)
EXTENDS Integers, Sequences, FiniteSets

CONSTANTS N,          \* items in the source
          WSet,       \* workers: 0 = walkUnlimited, k > 0 walkLimited with k workers
          KindSet,    \* "walk" | "map" | "filter" | "parallel"
          Bug         \* "none" or the name of a variant

VARIABLES cf,         \* [w, kind]: the case, chosen initially
          ppc, next, cur, pool, wg, wpc, pipe, pclosed, gate, seen, tclosed, crashed
ivars == <<cf, ppc, next, cur, pool, wg, wpc, pipe, pclosed, gate, seen, tclosed, crashed>>
W == cf.w
Kind == cf.kind

Ids == 0..(N - 1)
PoolSize == IF Bug = "poolOff" THEN W - 1 ELSE W
BufCap == IF W = 0 THEN 16 ELSE W          \* make(chan any, option.workers)

\* ---- refinement mapping ----
Entered == {"gate", "send", "exit", "done", "unpool", "gone"}
Exited == {"done", "unpool", "gone"}
P == INSTANCE FxWalk WITH
       NSet <- {N}, CapSet <- WSet, KindSet <- KindSet,
       n <- N, cap <- W, kind <- Kind,
       started <- {i \in Ids : wpc[i] \in Entered},
       released <- {i \in Ids : gate[i]},
       ended <- {i \in Ids : wpc[i] \in Exited},
       outs <- seen,
       closed <- tclosed

IInit ==
  /\ cf \in [w : WSet, kind : KindSet]
  /\ ppc = "recv" /\ next = 0 /\ cur = -1 /\ pool = 0 /\ wg = 0
  /\ wpc = [i \in Ids |-> "none"] /\ pipe = <<>> /\ pclosed = FALSE
  /\ gate = [i \in Ids |-> FALSE] /\ seen = <<>> /\ tclosed = FALSE /\ crashed = FALSE

\* ---- the goroutine of Walk ----
PRecv == /\ ppc = "recv"
         /\ IF next < N THEN /\ cur' = next /\ next' = next + 1
                             /\ ppc' = (IF W > 0 THEN "acq" ELSE "add")
            ELSE /\ ppc' = (IF Bug = "noWait" THEN "close" ELSE "wait")
                 /\ UNCHANGED <<cur, next>>
         /\ UNCHANGED <<cf, pool, wg, wpc, pipe, pclosed, gate, seen, tclosed, crashed>>
PAcq ==  /\ ppc = "acq" /\ pool < PoolSize
         /\ pool' = pool + 1 /\ ppc' = "add"
         /\ UNCHANGED <<cf, next, cur, wg, wpc, pipe, pclosed, gate, seen, tclosed, crashed>>
PAdd ==  /\ ppc = "add"
         /\ wg' = IF Bug = "addInWorker" THEN wg ELSE wg + 1
         /\ ppc' = "go"
         /\ UNCHANGED <<cf, next, cur, pool, wpc, pipe, pclosed, gate, seen, tclosed, crashed>>
PGo ==   /\ ppc = "go"
         /\ wpc' = [wpc EXCEPT ![cur] = "born"] /\ ppc' = "recv"
         /\ UNCHANGED <<cf, next, cur, pool, wg, pipe, pclosed, gate, seen, tclosed, crashed>>
PWait == /\ ppc = "wait" /\ wg = 0 /\ ppc' = "close"
         /\ UNCHANGED <<cf, next, cur, pool, wg, wpc, pipe, pclosed, gate, seen, tclosed, crashed>>
PClose == /\ ppc = "close" /\ pclosed' = TRUE /\ ppc' = "done"
          /\ UNCHANGED <<cf, next, cur, pool, wg, wpc, pipe, gate, seen, tclosed, crashed>>

\* ---- the goroutine of one item ----
WBorn(i) ==  /\ wpc[i] = "born"
             /\ wg' = IF Bug = "addInWorker" THEN wg + 1 ELSE wg
             /\ IF Bug = "unpoolEarly" /\ W > 0 THEN pool' = pool - 1 ELSE pool' = pool
             /\ wpc' = [wpc EXCEPT ![i] = "enter"]
             /\ UNCHANGED <<cf, ppc, next, cur, pipe, pclosed, gate, seen, tclosed, crashed>>
WEnter(i) == /\ wpc[i] = "enter"                         \* fn(val, pipe) entered: P!WStart
             /\ wpc' = [wpc EXCEPT ![i] = "gate"]
             /\ UNCHANGED <<cf, ppc, next, cur, pool, wg, pipe, pclosed, gate, seen, tclosed, crashed>>
Writes(i) == IF Kind = "filter" THEN i % 2 = 1 ELSE Kind \in {"walk", "map"}
WGate(i) ==  /\ wpc[i] = "gate" /\ gate[i]
             /\ wpc' = [wpc EXCEPT ![i] = IF Writes(i) THEN "send" ELSE "exit"]
             /\ UNCHANGED <<cf, ppc, next, cur, pool, wg, pipe, pclosed, gate, seen, tclosed, crashed>>
WSend(i) ==  /\ wpc[i] = "send"
             /\ IF pclosed THEN /\ crashed' = TRUE /\ UNCHANGED pipe     \* send on closed channel
                ELSE /\ Len(pipe) < BufCap
                     /\ pipe' = Append(pipe, IF Kind = "map" THEN i + 100 ELSE i)
                     /\ UNCHANGED crashed
             /\ wpc' = [wpc EXCEPT ![i] = "exit"]
             /\ UNCHANGED <<cf, ppc, next, cur, pool, wg, pclosed, gate, seen, tclosed>>
WExit(i) ==  /\ wpc[i] = "exit"                          \* fn about to return: P!WEnd
             /\ wpc' = [wpc EXCEPT ![i] = "done"]
             /\ UNCHANGED <<cf, ppc, next, cur, pool, wg, pipe, pclosed, gate, seen, tclosed, crashed>>
WDone(i) ==  /\ wpc[i] = "done" /\ wg' = wg - 1
             /\ wpc' = [wpc EXCEPT ![i] = IF W > 0 /\ Bug # "unpoolEarly" THEN "unpool" ELSE "gone"]
             /\ UNCHANGED <<cf, ppc, next, cur, pool, pipe, pclosed, gate, seen, tclosed, crashed>>
WUnpool(i) == /\ wpc[i] = "unpool" /\ pool' = pool - 1
              /\ wpc' = [wpc EXCEPT ![i] = "gone"]
              /\ UNCHANGED <<cf, ppc, next, cur, wg, pipe, pclosed, gate, seen, tclosed, crashed>>

\* ---- the environment: the harness gates, the consumer ----
ERelease(i) == /\ wpc[i] = "gate" /\ ~gate[i]
               /\ gate' = [gate EXCEPT ![i] = TRUE]
               /\ UNCHANGED <<cf, ppc, next, cur, pool, wg, wpc, pipe, pclosed, seen, tclosed, crashed>>
CRecv ==  /\ ~tclosed
          /\ IF pipe # <<>> THEN /\ seen' = Append(seen, Head(pipe)) /\ pipe' = Tail(pipe)
                                 /\ UNCHANGED tclosed
             ELSE /\ pclosed /\ tclosed' = TRUE /\ UNCHANGED <<seen, pipe>>
          /\ UNCHANGED <<cf, ppc, next, cur, pool, wg, wpc, pclosed, gate, crashed>>

NBorn == \E i \in Ids : WBorn(i)
NEnter == \E i \in Ids : WEnter(i)
NGate == \E i \in Ids : WGate(i)
NSend == \E i \in Ids : WSend(i)
NExit == \E i \in Ids : WExit(i)
NDone == \E i \in Ids : WDone(i)
NUnpool == \E i \in Ids : WUnpool(i)
NRelease == \E i \in Ids : ERelease(i)
Code == \/ PRecv \/ PAcq \/ PAdd \/ PGo \/ PWait \/ PClose \/ CRecv
        \/ NBorn \/ NEnter \/ NGate \/ NSend \/ NExit \/ NDone \/ NUnpool
Over == ppc = "done" /\ tclosed /\ (\A i \in Ids : wpc[i] = "gone") /\ UNCHANGED ivars
INext == \/ PRecv \/ PAcq \/ PAdd \/ PGo \/ PWait \/ PClose \/ CRecv
         \/ NBorn \/ NEnter \/ NGate \/ NSend \/ NExit \/ NDone \/ NUnpool
         \/ NRelease \/ Over
ISpec == IInit /\ [][INext]_ivars

\* ---- checked ----
Refines == P!WInit /\ [][P!WNext]_(P!wvars)          \* as a temporal property
PInvariants == P!CapRespected /\ P!OnceEach /\ P!NothingBeforeItsCause /\ P!ClosedMeansAll
NoCrash == ~crashed
\* only the harness can move: the observation WQuiet of the law must hold
AtRestIsQuiet == ~ENABLED Code => P!AtRestW
\* nothing is left behind at the end, and the semaphore / the WaitGroup are balanced
Balanced == /\ wg >= 0 /\ pool >= 0
            /\ (ppc = "done" /\ tclosed /\ \A i \in Ids : wpc[i] = "gone") => (wg = 0 /\ pool = 0 /\ pipe = <<>>)
ITypeOK == /\ ppc \in {"recv", "acq", "add", "go", "wait", "close", "done"}
           /\ next \in 0..N /\ Len(pipe) <= BufCap
=============================================================================
