SPECIFICATION PSpec
CONSTANTS
  SrcSet <- SrcA
  GateSet <- GatesA
  OpSet <- OpsA
  TermSet <- TermsA
  MaxOps = 2
  Stream = FALSE
INVARIANTS PrintCase
VIEW View
CHECK_DEADLOCK FALSE
