SPECIFICATION PSpec
CONSTANTS
  SrcSet <- SrcG
  GateSet <- GatesG
  OpSet <- OpsB
  TermSet <- TermsB
  MaxOps = 1
  Stream = FALSE
INVARIANTS PrintCase
VIEW View
CHECK_DEADLOCK FALSE
