SPECIFICATION TSpec
CONSTANTS
  NSet = {}
  CapSet = {}
  KindSet = {}
CONSTRAINT HW
INVARIANTS CapRespected OnceEach NothingBeforeItsCause ClosedMeansAll
POSTCONDITION Accepted
CHECK_DEADLOCK FALSE
