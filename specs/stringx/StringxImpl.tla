----------------------------- MODULE StringxImpl -----------------------------
(* Extension "stringx", Layer I: core/stringx/node.go, trie.go, replacer.go as an algorithm, checked
   against the reference semantics of Layer P (StringxRef / Stringx.tla).

   A node of the trie is named by its path (the runes from the root; <<>> is the root), so
   children[r] of node p is the node Append(p, r) if it exists; depth, end and fail are the
   fields of node.go.  pc walks through

     add    node.add, one keyword per step, in ANY order (NewReplacer ranges over a Go map; NewTrie
            over the slice, which may repeat a word or hold the empty one)
     build  node.build: the fail links, breadth first through the queue `nodes`; `range
            nd.children` is a Go map: the keys come in ANY order; the inner loop
            `for cur != nil` is one step per iteration
     call   the environment picks the call and its text: "scan" = node.find and what Trie.Filter /
            FindKeywords make of the scopes (find does not know its caller: one run serves the
            three), or "replace" with the values of the mapping - the build never looks at the
            values, so choosing them late keeps the state space small
     fchar/ffail/fout   node.find: one step per rune, per fail-link hop while looking for a
            transition, per node of the fail chain while collecting the keywords that end here
     rsort/rloop/rtail  replacer.doReplace: sort by (start asc, stop desc), skip what starts
            before index, copy + substitute; Replace runs it replaceTimes times or until nothing
            was found
     done   the call returned `result`

   Invariants: the trie is the prefix tree of the dictionary with depth = length of the path
   (TrieOK); every fail link that is set is the longest proper suffix of the path that is a node,
   and nothing is read before it was set (FailOK, NoNilDeref); while scanning, cur is the longest
   suffix of the text read so far that is a node and the scopes collected are the occurrences ending
   in it (FindInv); find returns exactly Occ, each once (FindOK); every call returns what Layer P
   says (ResultOK).

   Variant selects documented wrong algorithms (counterexample configs):
     "failshort"  build looks at the parent's fail node only (no walk up the chain)
     "nochain"    find reports the node it stands on only (no walk along the fail chain)
     "restart"    find falls back to the root on a mismatch instead of following fail links
     "shortest"   doReplace prefers the shortest keyword at a start
     "lifo"       build takes the newest node of `nodes` (depth first): links are read before
                  they are set                                                              *)
EXTENDS StringxRef, TLC

CONSTANTS Alphabet, MaxWordLen, MaxWords, MaxText, Repls, CallOps, MaskRune, Variant, WithEmpty,
          FixedDicts       \* {} = every dictionary within the bounds; else exactly these

VARIABLES words,           \* the keyword collection handed to the constructor
          todo,            \* keywords not yet added
          nodes, depth, endf, fail,      \* the trie
          queue, bnd, bkeys, bchild, bcur,   \* build: queue `nodes`, node expanded, keys left, child, cur
          pc,
          call,            \* [op, text, map]
          chars, i, cur, child, scopes,  \* find
          pass, sorted, j, buf, index,   \* doReplace / Replace
          result
tvars == <<nodes, depth, endf, fail>>
bvars == <<queue, bnd, bkeys, bchild, bcur>>
fvars == <<chars, i, cur, child, scopes>>
rvars == <<pass, sorted, j, buf, index>>
vars == <<words, todo, tvars, bvars, pc, call, fvars, rvars, result>>

Nil == <<-1>>          \* nil pointer (not a path: runes are positive)
Root == <<>>
SeqsUpTo(n) == UNION {[1..k -> Alphabet] : k \in 0..n}
Words == SeqsUpTo(MaxWordLen) \ {<<>>}
Texts == SeqsUpTo(MaxText)
RECURSIVE SubsetsUpTo(_, _)
SubsetsUpTo(S, k) == IF k = 0 THEN {{}}
                     ELSE LET R == SubsetsUpTo(S, k - 1) IN R \cup {d \cup {w} : d \in R, w \in S}
Dicts == IF FixedDicts = {} THEN SubsetsUpTo(Words, MaxWords) ELSE FixedDicts

Prefixes(w) == {SubSeq(w, 1, k) : k \in 0..Len(w)}
HasChild(n, r) == Append(n, r) \in nodes
Keys(n) == {r \in Alphabet : HasChild(n, r)}
D == Dict(words)

Init ==
  /\ words \in {d \cup x : d \in Dicts, x \in IF WithEmpty THEN {{}, {<<>>}} ELSE {{}}}
  /\ todo = words
  /\ nodes = {Root} /\ depth = [n \in {Root} |-> 0] /\ endf = {} /\ fail = [n \in {Root} |-> Nil]
  /\ queue = <<>> /\ bnd = Nil /\ bkeys = {} /\ bchild = Nil /\ bcur = Nil
  /\ pc = "add"
  /\ call = [op |-> "none"]
  /\ chars = <<>> /\ i = 0 /\ cur = Root /\ child = Nil /\ scopes = <<>>
  /\ pass = 0 /\ sorted = <<>> /\ j = 0 /\ buf = <<>> /\ index = 0
  /\ result = Nil

\* ---------------------------------------------------------------- node.add
Add ==
  /\ pc = "add" /\ todo # {}
  /\ \E w \in todo :
       /\ todo' = todo \ {w}
       /\ IF w = <<>> THEN UNCHANGED tvars          \* if len(chars) == 0 { return }
          ELSE LET new == Prefixes(w) \ nodes IN
                 /\ nodes' = nodes \cup new
                 /\ depth' = [n \in nodes' |-> IF n \in nodes THEN depth[n] ELSE Len(n)]   \* child.depth = i + 1
                 /\ fail' = [n \in nodes' |-> IF n \in nodes THEN fail[n] ELSE Nil]
                 /\ endf' = endf \cup {w}
  /\ UNCHANGED <<words, bvars, pc, call, fvars, rvars, result>>

\* ---------------------------------------------------------------- node.build
\* for _, child := range n.children { child.fail = n; nodes = append(nodes, child) }   (any order)
BStart ==
  /\ pc = "add" /\ todo = {}
  /\ \E q \in {s \in [1..Cardinality(Keys(Root)) -> {<<r>> : r \in Keys(Root)}] :
                 \A a, b \in DOMAIN s : a # b => s[a] # s[b]} :
       /\ queue' = q
       /\ fail' = [n \in nodes |-> IF Len(n) = 1 THEN Root ELSE fail[n]]
  /\ pc' = "bpop"
  /\ UNCHANGED <<words, todo, nodes, depth, endf, bnd, bkeys, bchild, bcur, call, fvars, rvars, result>>

BPop ==
  /\ pc = "bpop"
  /\ IF queue = <<>>            \* build returns (its locals die: keeps the state space canonical)
       THEN pc' = "call" /\ bnd' = Nil /\ bchild' = Nil /\ bcur' = Nil /\ UNCHANGED <<queue, bkeys>>
     ELSE LET k == IF Variant = "lifo" THEN Len(queue) ELSE 1 IN
            /\ bnd' = queue[k]
            /\ queue' = [x \in 1..(Len(queue) - 1) |-> IF x < k THEN queue[x] ELSE queue[x + 1]]
            /\ bkeys' = Keys(queue[k])
            /\ pc' = "bkey"
            /\ UNCHANGED <<bchild, bcur>>
  /\ UNCHANGED <<words, todo, tvars, call, fvars, rvars, result>>

\* for key, child := range nd.children { nodes = append(nodes, child); cur := nd; ...
BKey ==
  /\ pc = "bkey"
  /\ IF bkeys = {} THEN pc' = "bpop" /\ UNCHANGED <<bkeys, bchild, bcur, queue>>
     ELSE \E key \in bkeys :
            /\ bkeys' = bkeys \ {key}
            /\ bchild' = Append(bnd, key)
            /\ queue' = Append(queue, Append(bnd, key))
            /\ bcur' = bnd
            /\ pc' = "bwalk"
  /\ UNCHANGED <<words, todo, tvars, bnd, call, fvars, rvars, result>>

\* for cur != nil { if cur.fail == nil {child.fail = n; break}
\*                  if fail, ok := cur.fail.children[key]; ok {child.fail = fail; break}
\*                  cur = cur.fail }
BWalk ==
  /\ pc = "bwalk"
  /\ LET key == bchild[Len(bchild)] IN
       IF fail[bcur] = Nil
         THEN /\ fail' = [fail EXCEPT ![bchild] = Root] /\ pc' = "bkey" /\ UNCHANGED bcur
       ELSE IF HasChild(fail[bcur], key)
         THEN /\ fail' = [fail EXCEPT ![bchild] = Append(fail[bcur], key)] /\ pc' = "bkey" /\ UNCHANGED bcur
       ELSE IF Variant = "failshort"
         THEN /\ fail' = [fail EXCEPT ![bchild] = Root] /\ pc' = "bkey" /\ UNCHANGED bcur
       ELSE /\ bcur' = fail[bcur] /\ UNCHANGED <<fail, pc>>
  /\ UNCHANGED <<words, todo, nodes, depth, endf, queue, bnd, bkeys, bchild, call, fvars, rvars, result>>

\* ---------------------------------------------------------------- the call
StartFind(t) == chars' = t /\ i' = 0 /\ cur' = Root /\ child' = Nil /\ scopes' = <<>>

Call ==
  /\ pc = "call" /\ call.op = "none"
  /\ \E op \in CallOps, t \in Texts :
       \E f \in IF op = "replace" THEN [words -> Repls] ELSE {<<>>} :
         /\ call' = [op |-> op, text |-> t, map |-> f]
         /\ pc' = "fchar" /\ StartFind(t)
         /\ pass' = IF op = "replace" THEN 1 ELSE 0
  /\ UNCHANGED <<words, todo, tvars, bvars, sorted, j, buf, index, result>>

\* ---------------------------------------------------------------- node.find
FChar ==
  /\ pc = "fchar" /\ i < Len(chars)
  /\ LET c == chars[i + 1] IN
       IF HasChild(cur, c)
         THEN /\ cur' = Append(cur, c) /\ child' = Append(cur, c) /\ pc' = "fout" /\ UNCHANGED i
       ELSE IF Variant = "restart" /\ cur # Root
         THEN /\ cur' = Root /\ child' = Nil /\ i' = i + 1 /\ UNCHANGED pc
       ELSE /\ child' = Nil /\ pc' = "ffail" /\ UNCHANGED <<cur, i>>
  /\ UNCHANGED <<words, todo, tvars, bvars, call, chars, scopes, rvars, result>>

\* for cur != n { cur = cur.fail; if child, ok = cur.children[c]; ok { cur = child; break } }
\* if child == nil { continue }
FFail ==
  /\ pc = "ffail"
  /\ LET c == chars[i + 1] IN
       IF cur = Root
         THEN /\ i' = i + 1 /\ pc' = "fchar" /\ UNCHANGED <<cur, child>>
       ELSE IF fail[cur] = Nil
         THEN /\ pc' = "nilderef" /\ UNCHANGED <<cur, child, i>>
       ELSE IF HasChild(fail[cur], c)
         THEN /\ cur' = Append(fail[cur], c) /\ child' = Append(fail[cur], c) /\ pc' = "fout" /\ UNCHANGED i
       ELSE /\ cur' = fail[cur] /\ UNCHANGED <<child, i, pc>>
  /\ UNCHANGED <<words, todo, tvars, bvars, call, chars, scopes, rvars, result>>

\* for child != n { if child.end { scopes = append(...) }; child = child.fail }
FOut ==
  /\ pc = "fout"
  /\ IF child = Root
       THEN /\ i' = i + 1 /\ pc' = "fchar" /\ UNCHANGED <<child, scopes>>
     ELSE /\ scopes' = IF child \in endf THEN Append(scopes, <<i + 1 - depth[child], i + 1>>) ELSE scopes
          /\ IF Variant = "nochain" THEN child' = Root /\ UNCHANGED <<pc, i>>
             ELSE IF fail[child] = Nil THEN pc' = "nilderef" /\ UNCHANGED <<child, i>>
             ELSE child' = fail[child] /\ UNCHANGED <<pc, i>>
  /\ UNCHANGED <<words, todo, tvars, bvars, call, chars, cur, rvars, result>>

\* find returned: what the caller does with the scopes
Less(a, b) == a[1] < b[1] \/ (a[1] = b[1] /\ IF Variant = "shortest" THEN a[2] < b[2] ELSE a[2] > b[2])
RECURSIVE SortSet(_)
SortSet(S) == IF S = {} THEN <<>>
              ELSE LET m == CHOOSE x \in S : \A y \in S \ {x} : Less(x, y) IN <<m>> \o SortSet(S \ {m})

FReturn ==
  /\ pc = "fchar" /\ i = Len(chars)
  /\ LET sset == Range(scopes) IN
     CASE call.op = "scan" ->
            \* node.find itself (scopes), Trie.FindKeywords / Filter: collectKeywords, then
            \* replaceWithAsterisk for every scope.  (Both return early on an empty text, with the
            \* same answer this gives.)
            /\ result' = [scopes |-> scopes,
                          out |-> Paint(chars, sset, MaskRune),
                          kws |-> {Sub(chars, sc[1], sc[2]) : sc \in sset},
                          found |-> sset # {}]
            /\ pc' = "done" /\ UNCHANGED rvars
       [] call.op = "replace" ->
            IF scopes = <<>>
              THEN /\ result' = chars /\ pc' = "done" /\ UNCHANGED rvars      \* return text, false
              ELSE /\ sorted' = SortSet(sset) /\ j' = 1 /\ buf' = <<>> /\ index' = 0
                   /\ pc' = "rloop" /\ UNCHANGED <<pass, result>>
  /\ UNCHANGED <<words, todo, tvars, bvars, call, fvars>>

\* for i := 0; i < len(scopes); i++ { if scp.start < index {continue}; write gap; write mapping[...]; index = scp.stop }
RLoop ==
  /\ pc = "rloop"
  /\ IF j <= Len(sorted)
       THEN LET scp == sorted[j] IN
              /\ j' = j + 1
              /\ IF scp[1] < index THEN UNCHANGED <<buf, index>>
                 ELSE /\ buf' = buf \o Sub(chars, index, scp[1]) \o call.map[Sub(chars, scp[1], scp[2])]
                      /\ index' = scp[2]
              /\ UNCHANGED <<pc, pass, result, fvars>>
       ELSE \* if index < len(chars) { write tail }; back in Replace: next pass or return
            LET out == buf \o Sub(chars, index, Len(chars)) IN
              IF pass < Times
                THEN /\ pass' = pass + 1 /\ StartFind(out) /\ pc' = "fchar" /\ UNCHANGED <<result, j, buf, index>>
                ELSE /\ result' = out /\ pc' = "done" /\ UNCHANGED <<pass, j, buf, index, fvars>>
  /\ UNCHANGED <<words, todo, tvars, bvars, call, sorted>>

Next == Add \/ BStart \/ BPop \/ BKey \/ BWalk \/ Call \/ FChar \/ FFail \/ FOut \/ FReturn \/ RLoop
Spec == Init /\ [][Next]_vars

\* ================================================================= properties
Built == pc \notin {"add", "bpop", "bkey", "bwalk"}
Scanning == pc \in {"fchar", "ffail", "fout"}

TrieOK ==
  (pc # "add" \/ todo = {}) =>
    /\ nodes = UNION {Prefixes(w) : w \in D} \cup {Root}
    /\ endf = D
    /\ \A n \in nodes : depth[n] = Len(n)

\* the longest proper suffix of path n that is a node
Suffixes(n) == {SubSeq(n, k, Len(n)) : k \in 2..(Len(n) + 1)}
LPS(n) == LET S == Suffixes(n) \cap nodes IN CHOOSE s \in S : \A x \in S : Len(x) <= Len(s)

FailOK ==
  /\ \A n \in nodes \ {Root} : fail[n] # Nil => fail[n] = LPS(n)
  /\ fail[Root] = Nil
  /\ Built => \A n \in nodes \ {Root} : fail[n] # Nil
\* breadth first: whatever waits in the queue, or is being expanded, already has its link
QueueOK == pc \in {"bpop", "bkey", "bwalk"} =>
             /\ \A k \in DOMAIN queue : fail[queue[k]] # Nil \/ queue[k] = bchild
             /\ (pc = "bwalk" => fail[bcur] # Nil \/ bcur = Root)
NoNilDeref == pc # "nilderef"

\* the longest suffix of the text read so far that is a node
LSuf(t) == LET S == {SubSeq(t, k, Len(t)) : k \in 1..(Len(t) + 1)} \cap nodes
           IN CHOOSE s \in S : \A x \in S : Len(x) <= Len(s)
FindInv ==
  pc = "fchar" =>
    /\ cur = LSuf(Sub(chars, 0, i))
    /\ Range(scopes) = {sc \in Occ(D, chars) : sc[2] <= i}
    /\ Len(scopes) = Cardinality(Range(scopes))

FindOK == (pc = "fchar" /\ i = Len(chars)) => Range(scopes) = Occ(D, chars) /\ Len(scopes) = Cardinality(Occ(D, chars))

ResultOK ==
  pc = "done" =>
    CASE call.op = "scan" -> /\ Range(result.scopes) = Occ(D, call.text)
                             /\ Len(result.scopes) = Cardinality(Occ(D, call.text))
                             /\ result.out = Masked(D, call.text, MaskRune)
                             /\ result.kws = Hits(D, call.text)
                             /\ result.found = (Hits(D, call.text) # {})
      [] call.op = "replace" -> result = Replaced(call.map, call.text)

\* the greedy loop of doReplace picks the leftmost-longest parse
GreedyOK ==
  (pc = "rloop" /\ j > Len(sorted)) =>
     buf \o Sub(chars, index, Len(chars)) = Pass(call.map, chars)

\* ---- values for the configs
R2 == {<<>>, <<2, 1>>}
R3 == {<<>>, <<1>>, <<2, 1>>}
R4 == {<<>>, <<1>>, <<2, 1>>, <<3>>}
NoRepl == {<<>>}
NoFixed == {}
LifoDict == {{<<2, 1, 1, 2>>, <<1, 1>>, <<1, 2>>}}
=============================================================================
