------------------------------- MODULE Stringx -------------------------------
(* Extension "stringx" (host C09, advisory), Layer P: the objects of core/stringx text matching
   as a state machine over the package API.

   State: the objects constructed so far (a Trie is its keyword set + mask rune, a Replacer is its
   mapping) and the last call with everything it returned.  Objects never change after their
   constructor returned: every answer is a function of (object, text) alone - no call has an
   effect on a later call, on another object, or depends on the order / duplicates of the
   word list or on the iteration order of the mapping.

   Actions = the API: NewTrie, NewReplacer, Filter, FindKeywords, Replace, and Find (white box:
   node.find of the embedded node, the operation node_test.go / the fuzz tests document).
   The outcomes are computed constructively (StringxRef: paint the occurrences; scan from the left);
   the LAWS below say declaratively what they have to be and are checked as invariants by TLC, on the
   design (StringxMC) and on every state a recorded trace reaches (StringxTrace).                *)
EXTENDS StringxRef, TLC

CONSTANTS Ids                \* object names
VARIABLES objs, last
pvars == <<objs, last>>

DefaultMask == 42            \* '*'
NoObj == [kind |-> "none"]
NoCall == [op |-> "none"]

PInit == objs = [i \in Ids |-> NoObj] /\ last = NoCall

\* m = 0: no WithMask option (the drivers never pass WithMask(0))
NewTrie(id, ws, m) ==
  /\ objs[id] = NoObj
  /\ objs' = [objs EXCEPT ![id] = [kind |-> "trie", words |-> Dict(ws), mask |-> IF m = 0 THEN DefaultMask ELSE m]]
  /\ last' = [op |-> "new", id |-> id]

\* P: set of <<keyword, replacement>> pairs, keywords distinct (a Go map)
NewReplacer(id, P) ==
  /\ objs[id] = NoObj
  /\ \A p, q \in P : p[1] = q[1] => p = q
  /\ objs' = [objs EXCEPT ![id] = [kind |-> "replacer", map |-> MapOf(P)]]
  /\ last' = [op |-> "new", id |-> id]

IsTrie(id) == objs[id].kind = "trie"
IsRepl(id) == objs[id].kind = "replacer"
\* the keywords inside an object (both kinds embed a node)
WordsOf(id) == IF IsTrie(id) THEN objs[id].words ELSE Dict(DOMAIN objs[id].map)

Filter(id, t) ==
  /\ IsTrie(id)
  /\ LET D == objs[id].words IN
       last' = [op |-> "filter", id |-> id, text |-> t, out |-> Masked(D, t, objs[id].mask),
                kws |-> Hits(D, t), found |-> Hits(D, t) # {}]
  /\ UNCHANGED objs

FindKeywords(id, t) ==
  /\ IsTrie(id)
  /\ last' = [op |-> "findkw", id |-> id, text |-> t, kws |-> Hits(objs[id].words, t)]
  /\ UNCHANGED objs

Replace(id, t) ==
  /\ IsRepl(id)
  /\ last' = [op |-> "replace", id |-> id, text |-> t, out |-> Replaced(objs[id].map, t)]
  /\ UNCHANGED objs

Find(id, t) ==
  /\ objs[id] # NoObj
  /\ last' = [op |-> "find", id |-> id, text |-> t, scopes |-> Occ(WordsOf(id), t)]
  /\ UNCHANGED objs

\* ------------------------------------------------------------------ laws (invariants)
\* Filter: same length; a rune is the mask iff some keyword occurrence covers it, else untouched;
\* the keywords are exactly the dictionary words that occur; found iff there is one.
LawFilter ==
  last.op = "filter" =>
    LET o == objs[last.id]  t == last.text IN
      /\ Len(last.out) = Len(t)
      /\ \A i \in 1..Len(t) : last.out[i] = IF Covered(o.words, t, i) THEN o.mask ELSE t[i]
      /\ last.kws = {w \in o.words : Occurs(w, t)}
      /\ last.found <=> (last.kws # {})
      /\ (last.out # t => last.found)
      /\ (t = <<>> => ~last.found)

LawFindKeywords ==
  last.op = "findkw" => last.kws = {w \in objs[last.id].words : Occurs(w, last.text)}

\* Find: exactly the occurrences - each one is a keyword at that place, none is missing
LawFind ==
  last.op = "find" =>
    LET D == WordsOf(last.id)  t == last.text IN
      /\ \A sc \in last.scopes : 0 <= sc[1] /\ sc[1] < sc[2] /\ sc[2] <= Len(t) /\ Sub(t, sc[1], sc[2]) \in D
      /\ \A w \in D : \A s \in 0..(Len(t) - Len(w)) : Sub(t, s, s + Len(w)) = w => <<s, s + Len(w)>> \in last.scopes

\* Replace: each of the two passes rewrites exactly its leftmost-longest parse (cheap form: the parse
\* the scan finds IS leftmost-longest; uniqueness is LawParseUnique below)
PassOK(M, t) ==
  LET D == Dict(DOMAIN M)  S == Chosen(D, t) IN
    /\ IsLL(D, t, S)
    /\ Pass(M, t) = Asm(M, t, S, 0)
    /\ (Occ(D, t) = {} => Pass(M, t) = t)

RECURSIVE SumLen(_, _, _)
SumLen(M, t, S) == IF S = {} THEN 0
                   ELSE LET c == CHOOSE x \in S : TRUE
                        IN Len(M[Sub(t, c[1], c[2])]) - (c[2] - c[1]) + SumLen(M, t, S \ {c})

LawReplace ==
  last.op = "replace" =>
    LET M == objs[last.id].map  t == last.text  t1 == Pass(M, t) IN
      /\ PassOK(M, t) /\ PassOK(M, t1)
      /\ last.out = Pass(M, t1)
      /\ Len(t1) = Len(t) + SumLen(M, t, Chosen(Dict(DOMAIN M), t))
      \* FuzzReplacerReplace: when no replacement can take part in a match (non-empty, runes foreign
      \* to every keyword) the result is free of keywords - already after the first pass
      /\ LET D == Dict(DOMAIN M)
             kr == UNION {Range(w) : w \in D}
             foreign == \A w \in D : M[w] # <<>> /\ Range(M[w]) \cap kr = {}
         IN foreign => Occ(D, t1) = {} /\ last.out = t1

\* expensive form, for small universes only: there is exactly one leftmost-longest parse
LawParseUnique ==
  last.op = "replace" =>
    LET D == Dict(DOMAIN objs[last.id].map)  t == last.text  O == Occ(D, t) IN
      {S \in SUBSET O : IsLLo(O, S)} = {Chosen(D, t)}

\* objects are values: a call changes no object (action property)
Immutable == [][last'.op \notin {"new", "none"} => objs' = objs]_pvars
\* ... and a constructor touches only the object it makes
NewLocal == [][\A i \in Ids : objs'[i] # objs[i] => last'.op = "new" /\ last'.id = i /\ objs[i] = NoObj]_pvars
=============================================================================
