SPECIFICATION Spec
CONSTANTS
  Alphabet = {1, 2}
  MaxWordLen = 4
  MaxWords = 3
  MaxText = 4
  Repls <- NoRepl
  CallOps = {"scan"}
  MaskRune = 9
  Variant = "lifo"
  WithEmpty = FALSE
  FixedDicts <- LifoDict
INVARIANTS TrieOK FailOK QueueOK NoNilDeref FindInv FindOK ResultOK GreedyOK
CHECK_DEADLOCK FALSE
