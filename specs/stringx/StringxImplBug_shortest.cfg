SPECIFICATION Spec
CONSTANTS
  Alphabet = {1, 2}
  MaxWordLen = 2
  MaxWords = 2
  MaxText = 2
  Repls <- R2
  CallOps = {"replace"}
  MaskRune = 9
  Variant = "shortest"
  WithEmpty = FALSE
  FixedDicts <- NoFixed
INVARIANTS TrieOK FailOK QueueOK NoNilDeref FindInv FindOK ResultOK GreedyOK
CHECK_DEADLOCK FALSE
