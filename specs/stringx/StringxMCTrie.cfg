SPECIFICATION MSpec
CONSTANTS
  Ids = {1}
  Alphabet = {1, 2}
  MaxWordLen = 3
  MaxWords = 2
  MaxText = 4
  Masks = {0, 1, 9}
  Repls <- R2
  Kinds = {"trie"}
  Ops = {"filter", "findkw", "find"}
  WithEmpty = TRUE
  MaxCalls = 1
  Emit = FALSE
INVARIANTS LawFilter LawFindKeywords LawFind
PROPERTIES PImmutable PNewLocal
CHECK_DEADLOCK FALSE
