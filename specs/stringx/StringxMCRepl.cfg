SPECIFICATION MSpec
CONSTANTS
  Ids = {1}
  Alphabet = {1, 2}
  MaxWordLen = 2
  MaxWords = 2
  MaxText = 5
  Masks = {0}
  Repls <- R4
  Kinds = {"replacer"}
  Ops = {"replace"}
  WithEmpty = FALSE
  MaxCalls = 1
  Emit = FALSE
INVARIANTS LawReplace LawParseUnique
PROPERTIES PImmutable PNewLocal
CHECK_DEADLOCK FALSE
