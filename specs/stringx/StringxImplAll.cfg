SPECIFICATION Spec
CONSTANTS
  Alphabet = {1, 2}
  MaxWordLen = 2
  MaxWords = 2
  MaxText = 3
  Repls <- R2
  CallOps = {"scan", "replace"}
  MaskRune = 9
  Variant = "go"
  WithEmpty = TRUE
  FixedDicts <- NoFixed
INVARIANTS TrieOK FailOK QueueOK NoNilDeref FindInv FindOK ResultOK GreedyOK
CHECK_DEADLOCK FALSE
