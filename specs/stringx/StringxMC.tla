------------------------------ MODULE StringxMC ------------------------------
(* Layer P of the extension "stringx" over finite universes: exhaustive model checking of the laws
   (every dictionary of at most MaxWords keywords of length <= MaxWordLen over Alphabet, every mapping
   into Repls, every text of length <= MaxText over Alphabet) and generation of the
   (object, call) pairs that are replayed on the real code (history variable hist, hidden by VIEW:
   one shortest history - constructor, call - per distinct state, i.e. per (object, call, text)).   *)
EXTENDS Stringx, Json

CONSTANTS Alphabet,      \* runes of keywords and texts (small integers)
          MaxWordLen, MaxWords, MaxText,
          Masks,         \* WithMask arguments tried (0 = no option)
          Repls,         \* replacement values tried
          Kinds,         \* subset of {"trie", "replacer"}
          Ops,           \* subset of {"filter", "findkw", "find", "replace"}
          WithEmpty,     \* also hand the constructors the empty keyword
          MaxCalls,      \* calls per behaviour
          Emit

VARIABLES hist, ncalls
mvars == <<objs, last, hist, ncalls>>

SeqsUpTo(n) == UNION {[1..k -> Alphabet] : k \in 0..n}
Words == SeqsUpTo(MaxWordLen) \ {<<>>}
Texts == SeqsUpTo(MaxText)

RECURSIVE SubsetsUpTo(_, _)
SubsetsUpTo(S, k) == IF k = 0 THEN {{}}
                     ELSE LET R == SubsetsUpTo(S, k - 1) IN R \cup {d \cup {w} : d \in R, w \in S}
Dicts == SubsetsUpTo(Words, MaxWords)
Extra == IF WithEmpty THEN {{}, {<<>>}} ELSE {{}}

Log(r) == hist' = IF Emit THEN Append(hist, r) ELSE hist

MNewTrie(id) == \E d \in Dicts, x \in Extra, m \in Masks :
  /\ NewTrie(id, d \cup x, m)
  /\ Log([op |-> "newtrie", id |-> id, words |-> d \cup x, mask |-> m])
MNewReplacer(id) == \E d \in Dicts, x \in Extra : \E f \in [d \cup x -> Repls] :
  /\ NewReplacer(id, {<<k, f[k]>> : k \in d \cup x})
  /\ Log([op |-> "newrepl", id |-> id, map |-> {<<k, f[k]>> : k \in d \cup x}])
MFilter(id) == \E t \in Texts : Filter(id, t) /\ Log([op |-> "filter", id |-> id, text |-> t])
MFindKw(id) == \E t \in Texts : FindKeywords(id, t) /\ Log([op |-> "findkw", id |-> id, text |-> t])
MFind(id)   == \E t \in Texts : Find(id, t) /\ Log([op |-> "find", id |-> id, text |-> t])
MReplace(id) == \E t \in Texts : Replace(id, t) /\ Log([op |-> "replace", id |-> id, text |-> t])

MCall(id) == /\ ncalls < MaxCalls /\ ncalls' = ncalls + 1
             /\ \/ "filter" \in Ops /\ MFilter(id)
                \/ "findkw" \in Ops /\ MFindKw(id)
                \/ "find" \in Ops /\ MFind(id)
                \/ "replace" \in Ops /\ MReplace(id)
MNew(id) == /\ UNCHANGED ncalls
            /\ \/ "trie" \in Kinds /\ MNewTrie(id)
               \/ "replacer" \in Kinds /\ MNewReplacer(id)

MInit == PInit /\ hist = <<>> /\ ncalls = 0
MNext == \E id \in Ids : MNew(id) \/ MCall(id)
MSpec == MInit /\ [][MNext]_mvars

PImmutable == [][last'.op \notin {"new", "none"} => objs' = objs]_mvars
PNewLocal == [][\A i \in Ids : objs'[i] # objs[i] => last'.op = "new" /\ last'.id = i /\ objs[i] = NoObj]_mvars

\* the answer to a call is a function of the object and the text: whatever else exists, whatever was
\* called before (two states that agree on the object and the call agree on the answer)
View == <<objs, last, IF hist = <<>> THEN 0 ELSE hist[1]>>
PrintHist == (Emit /\ last.op \notin {"none", "new"}) => PrintT("TRACE " \o ToJson(hist))

\* ---- values for the configs
R2 == {<<>>, <<2, 1>>}
R4 == {<<>>, <<1>>, <<2, 1>>, <<3>>}
R5 == {<<>>, <<1>>, <<2, 1>>, <<3>>, <<1, 2>>}
=============================================================================
