SPECIFICATION Spec
CONSTANTS
  Alphabet = {1, 2}
  MaxWordLen = 3
  MaxWords = 2
  MaxText = 3
  Repls <- NoRepl
  CallOps = {"scan"}
  MaskRune = 9
  Variant = "failshort"
  WithEmpty = FALSE
  FixedDicts <- NoFixed
INVARIANTS TrieOK FailOK QueueOK NoNilDeref FindInv FindOK ResultOK GreedyOK
CHECK_DEADLOCK FALSE
