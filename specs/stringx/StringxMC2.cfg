SPECIFICATION MSpec
CONSTANTS
  Ids = {1, 2}
  Alphabet = {1, 2}
  MaxWordLen = 1
  MaxWords = 1
  MaxText = 1
  Masks = {0}
  Repls <- R2
  Kinds = {"trie", "replacer"}
  Ops = {"filter", "findkw", "find", "replace"}
  WithEmpty = TRUE
  MaxCalls = 2
  Emit = FALSE
INVARIANTS LawFilter LawFindKeywords LawFind LawReplace LawParseUnique
PROPERTIES PImmutable PNewLocal
CHECK_DEADLOCK FALSE
