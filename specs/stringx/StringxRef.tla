----------------------------- MODULE StringxRef -----------------------------
(* Extension "stringx" (host C09, advisory): core/stringx text matching -- reference semantics.

   Texts and keywords are finite sequences of "runes" (any values; the drivers log code
   points).  Positions follow Go: 0-based, half open, <<s, e>> is chars[s:e].

   What the package documents (doc comments + unit tests + the two fuzz tests):
     node.find      returns every occurrence of every keyword, once each, in no promised
                    order (node_fuzz_test.go / node_test.go: ElementsMatch against all
                    occurrences found with strings.Index);
     Trie.Filter    masks every rune that lies inside some occurrence ("we don't care about
                    overlaps"), reports the distinct keywords that occur (ElementsMatch: a
                    set, no order) and found = there is one; an empty keyword does no harm;
                    the default mask is '*', WithMask replaces it;
     Trie.FindKeywords  the same keyword set;
     Replacer.Replace   one pass replaces leftmost-longest, non-overlapping keyword
                    occurrences (replacer_test.go: LongestMatching, SuffixMatch, JumpMatch,
                    JumpToFail*, ...), text outside them is copied; "replace more than once
                    to avoid overlapped keywords after replace, only try 2 times to avoid
                    too many or infinite loops" (replacer.go): the result is the second
                    pass applied to the first (ReplaceOverlap: abcde -> a23de -> a234e).    *)
EXTENDS Integers, Sequences, FiniteSets

Times == 2          \* replaceTimes

Sub(t, s, e) == SubSeq(t, s + 1, e)             \* chars[s:e]
MaxOf(S) == CHOOSE x \in S : \A y \in S : y <= x
Range(f) == {f[i] : i \in DOMAIN f}

\* the dictionary of an object: the keywords it was given, the empty one ignored
Dict(ws) == ws \ {<<>>}

\* every occurrence of every keyword of D in t
Occ(D, t) ==
  UNION {{<<s, s + Len(w)>> : s \in {x \in 0..(Len(t) - Len(w)) : Sub(t, x, x + Len(w)) = w}} : w \in D}

\* ------------------------------------------------------------------ Trie
\* constructive: paint the occurrences one after the other (order immaterial)
RECURSIVE Paint(_, _, _)
Paint(t, S, m) ==
  IF S = {} THEN t
  ELSE LET sc == CHOOSE x \in S : TRUE
       IN Paint([i \in 1..Len(t) |-> IF sc[1] < i /\ i <= sc[2] THEN m ELSE t[i]], S \ {sc}, m)

Masked(D, t, m) == Paint(t, Occ(D, t), m)
Hits(D, t) == {Sub(t, sc[1], sc[2]) : sc \in Occ(D, t)}

\* declarative counterparts (the laws of Stringx.tla compare the two)
Covered(D, t, i) == \E sc \in Occ(D, t) : sc[1] < i /\ i <= sc[2]          \* 1-based position i
Occurs(w, t) == \E s \in 0..(Len(t) - Len(w)) : Sub(t, s, s + Len(w)) = w

\* ------------------------------------------------------------------ Replacer
\* M: function keyword -> replacement.  One pass, operationally: scan from the left; where keywords
\* start take the longest, emit its replacement and continue behind it; otherwise copy one rune.
EndsAt(D, t, i) == {e \in (i + 1)..Len(t) : Sub(t, i, e) \in D}

RECURSIVE ScanFrom(_, _, _)
ScanFrom(D, t, i) ==            \* the occurrences one pass replaces
  IF i >= Len(t) THEN {}
  ELSE LET ends == EndsAt(D, t, i)
       IN IF ends = {} THEN ScanFrom(D, t, i + 1)
          ELSE {<<i, MaxOf(ends)>>} \cup ScanFrom(D, t, MaxOf(ends))
Chosen(D, t) == ScanFrom(D, t, 0)

RECURSIVE PassFrom(_, _, _)
PassFrom(M, t, i) ==
  IF i >= Len(t) THEN <<>>
  ELSE LET ends == EndsAt(Dict(DOMAIN M), t, i)
       IN IF ends = {} THEN <<t[i + 1]>> \o PassFrom(M, t, i + 1)
          ELSE M[Sub(t, i, MaxOf(ends))] \o PassFrom(M, t, MaxOf(ends))
Pass(M, t) == PassFrom(M, t, 0)

RECURSIVE Iter(_, _, _)
Iter(M, t, k) == IF k = 0 THEN t ELSE Iter(M, Pass(M, t), k - 1)
Replaced(M, t) == Iter(M, t, Times)

\* declaratively: THE leftmost-longest parse of t
NonOverlap(S) == \A a, b \in S : a = b \/ a[2] <= b[1] \/ b[2] <= a[1]
IsLLo(O, S) ==          \* O = all occurrences
  /\ S \subseteq O
  /\ NonOverlap(S)
  /\ \A c \in S : \A o \in O : o[1] = c[1] => o[2] <= c[2]              \* longest at its start
  /\ \A o \in O \ S : \E c \in S : c[1] <= o[1] /\ o[1] < c[2]          \* nothing starts in a gap
IsLL(D, t, S) == IsLLo(Occ(D, t), S)

\* the text with the occurrences S (non-overlapping) replaced, everything else copied
RECURSIVE Asm(_, _, _, _)
Asm(M, t, S, i) ==
  IF S = {} THEN Sub(t, i, Len(t))
  ELSE LET c == CHOOSE x \in S : \A y \in S : x[1] <= y[1]
       IN Sub(t, i, c[1]) \o M[Sub(t, c[1], c[2])] \o Asm(M, t, S \ {c}, c[2])

\* mapping given as a set of <<keyword, replacement>> pairs with distinct keywords
MapOf(P) == [k \in {p[1] : p \in P} |-> (CHOOSE p \in P : p[1] = k)[2]]
=============================================================================
