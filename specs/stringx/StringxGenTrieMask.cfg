SPECIFICATION MSpec
CONSTANTS
  Ids = {1}
  Alphabet = {1, 2}
  MaxWordLen = 2
  MaxWords = 2
  MaxText = 3
  Masks = {1, 9}
  Repls <- R2
  Kinds = {"trie"}
  Ops = {"filter"}
  WithEmpty = TRUE
  MaxCalls = 1
  Emit = TRUE
INVARIANTS PrintHist
VIEW View
CHECK_DEADLOCK FALSE
