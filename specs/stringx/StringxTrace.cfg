SPECIFICATION TSpec
CONSTANTS
  Ids <- TIds
CONSTRAINT HW
INVARIANTS LawFilter LawFindKeywords LawFind LawReplace
POSTCONDITION Accepted
CHECK_DEADLOCK FALSE
