SPECIFICATION MSpec
CONSTANTS
  Ids = {1}
  Alphabet = {1, 2}
  MaxWordLen = 3
  MaxWords = 2
  MaxText = 4
  Masks = {0}
  Repls <- R2
  Kinds = {"trie"}
  Ops = {"filter", "findkw", "find"}
  WithEmpty = FALSE
  MaxCalls = 1
  Emit = TRUE
INVARIANTS PrintHist
VIEW View
CHECK_DEADLOCK FALSE
