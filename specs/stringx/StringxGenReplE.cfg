SPECIFICATION MSpec
CONSTANTS
  Ids = {1}
  Alphabet = {1, 2}
  MaxWordLen = 1
  MaxWords = 2
  MaxText = 2
  Masks = {0}
  Repls <- R4
  Kinds = {"replacer"}
  Ops = {"replace", "find"}
  WithEmpty = TRUE
  MaxCalls = 1
  Emit = TRUE
INVARIANTS PrintHist
VIEW View
CHECK_DEADLOCK FALSE
