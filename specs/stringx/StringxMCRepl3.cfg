SPECIFICATION MSpec
CONSTANTS
  Ids = {1}
  Alphabet = {1, 2}
  MaxWordLen = 3
  MaxWords = 2
  MaxText = 4
  Masks = {0}
  Repls <- R2
  Kinds = {"replacer"}
  Ops = {"replace", "find"}
  WithEmpty = FALSE
  MaxCalls = 1
  Emit = FALSE
INVARIANTS LawReplace LawParseUnique LawFind
PROPERTIES PImmutable PNewLocal
CHECK_DEADLOCK FALSE
