---------------------------- MODULE StringxTrace ----------------------------
(* Trace validation for the extension "stringx" (host C09, advisory): what real stringx.Trie /
   stringx.Replacer objects answered must be a behaviour of Stringx.tla.  Runes are logged as
   code points, texts as arrays of code points.

     reset
     newtrie{id, words:[[..],..], mask}      mask 0 = no WithMask option
     newrepl{id, map:[[keyword, replacement], ..]}
     filter{id, text, out, kws:[[..],..], found}
     findkw{id, text, kws}
     replace{id, text, out}
     find{id, text, scopes:[[start, stop], ..]}    white box: node.find of the embedded node
                                                   (absent when the drivers run black-box)
   A call that panicked is logged as panic{...}: no action of the specification takes it.
   Calls of concurrent goroutines are logged when they returned; every answer is a function of
   (object, text), so any order of the lines is judged alike.                                  *)
EXTENDS Stringx, TraceKit

VARIABLE l
tvars == <<objs, last, l>>

TIds == 1..64
E == Trace[l]
IsEvent(e) == l <= Len(Trace) /\ E.e = e /\ l' = l + 1

\* a logged list is the set the specification computed, every member once
SameSet(list, S) == SeqToSet(list) = S /\ Len(list) = Cardinality(S)

TReset   == IsEvent("reset") /\ objs' = [i \in Ids |-> NoObj] /\ last' = NoCall
TNewTrie == IsEvent("newtrie") /\ NewTrie(E.id, SeqToSet(E.words), E.mask)
TNewRepl == IsEvent("newrepl") /\ NewReplacer(E.id, SeqToSet(E.map))
TFilter  == /\ IsEvent("filter") /\ Filter(E.id, E.text)
            /\ last'.out = E.out /\ SameSet(E.kws, last'.kws) /\ last'.found = E.found
TFindKw  == IsEvent("findkw") /\ FindKeywords(E.id, E.text) /\ SameSet(E.kws, last'.kws)
TReplace == IsEvent("replace") /\ Replace(E.id, E.text) /\ last'.out = E.out
TFind    == IsEvent("find") /\ Find(E.id, E.text) /\ SameSet(E.scopes, last'.scopes)

TInit == PInit /\ l = 1
TNext == TReset \/ TNewTrie \/ TNewRepl \/ TFilter \/ TFindKw \/ TReplace \/ TFind
TSpec == TInit /\ [][TNext]_tvars

HW == HighWater(l)
=============================================================================
