SPECIFICATION ISpec
CONSTANTS
  Variant = "rollbackIfStmtFailed"
  MaxStmts = 1
  Kinds = {"exec"}
  ErrKinds = {"plain", "norows"}
  PanicKinds = {"str"}
  Breaker = FALSE
  Emit = FALSE
INVARIANTS NoDeviation
CHECK_DEADLOCK FALSE
