SPECIFICATION ISpec
CONSTANTS
  Variant = "ok"
  MaxStmts = 2
  Kinds = {"exec", "query", "prep"}
  ErrKinds = {"plain", "bad", "deadline"}
  PanicKinds = {"str"}
  Breaker = FALSE
  Emit = TRUE
  BeginOuts = {"ok", "fail", "f:txdone", "f:canceled", "f:norows", "f:eof"}
  StmtErrs = {"plain", "bad", "txdone", "norows", "canceled", "deadline", "eof", "conndone"}
  FinErrs = {"plain", "bad", "txdone", "canceled", "deadline"}
  CtxKinds = {}
INVARIANTS NoDeviation PrintScript
CHECK_DEADLOCK FALSE
