SPECIFICATION ISpec
CONSTANTS
  Variant = "ok"
  MaxStmts = 3
  Kinds = {"exec", "nest"}
  ErrKinds = {"plain", "canceled", "bad"}
  PanicKinds = {"str"}
  Breaker = TRUE
  Emit = FALSE
  BeginOuts = {"ok", "fail", "bad", "noconn"}
  StmtErrs = {"plain", "bad"}
  FinErrs = {"plain", "bad"}
  CtxKinds = {"cancel", "deadline"}
INVARIANTS ImplTypeOK NoDeviation StateInv ImplProperty PropertyHolds CommitsIffNil ExactlyOneEnd NilOnlyAfterCommit PanicNeverNil StateMatchesLog CtxExcusesNothing CtxBlind Done
CHECK_DEADLOCK FALSE
