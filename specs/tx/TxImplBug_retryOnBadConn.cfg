SPECIFICATION ISpec
CONSTANTS
  Variant = "retryOnBadConn"
  MaxStmts = 1
  Kinds = {"exec"}
  ErrKinds = {"plain"}
  PanicKinds = {"str"}
  Breaker = FALSE
  Emit = FALSE
  BeginOuts = {"ok"}
  StmtErrs = {"plain", "bad"}
  FinErrs = {"plain", "bad"}
  CtxKinds = {}
INVARIANTS NoDeviation
CHECK_DEADLOCK FALSE
