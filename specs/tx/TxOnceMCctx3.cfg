SPECIFICATION Spec
CONSTANTS
  Calls = {1}
  MaxStmts = 3
  MaxBeginFails = 1
  MaxLog = 0
  BeginOk = {"ok", "okb"}
  Ctx = TRUE
INVARIANTS TypeOK StateInv PropertyHolds CommitsIffNil ExactlyOneEnd NilOnlyAfterCommit PanicNeverNil StateMatchesLog CtxExcusesNothing
CHECK_DEADLOCK FALSE
