SPECIFICATION ISpec
CONSTANTS
  Variant = "ok"
  MaxStmts = 3
  Kinds = {"exec", "query", "prep", "nest"}
  ErrKinds = {"plain", "norows", "notfound", "canceled", "txdone"}
  PanicKinds = {"str", "err", "rt"}
  Breaker = TRUE
  Emit = FALSE
  BeginOuts = {"ok", "fail", "bad", "noconn"}
  StmtErrs = {"plain"}
  FinErrs = {"plain"}
  CtxKinds = {}
INVARIANTS ImplTypeOK NoDeviation StateInv ImplProperty PropertyHolds CommitsIffNil ExactlyOneEnd NilOnlyAfterCommit PanicNeverNil StateMatchesLog Done
CHECK_DEADLOCK FALSE
