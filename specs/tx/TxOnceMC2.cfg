SPECIFICATION Spec
CONSTANTS
  Calls = {1, 2}
  MaxStmts = 1
  MaxBeginFails = 1
  MaxLog = 0
  BeginOk = {"ok"}
  Ctx = FALSE
INVARIANTS TypeOK StateInv PropertyHolds CommitsIffNil ExactlyOneEnd NilOnlyAfterCommit PanicNeverNil StateMatchesLog CtxExcusesNothing
CHECK_DEADLOCK FALSE
