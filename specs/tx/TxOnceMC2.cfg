SPECIFICATION Spec
CONSTANTS
  Calls = {1, 2}
  MaxStmts = 1
  MaxBeginFails = 1
  MaxLog = 0
INVARIANTS TypeOK StateInv PropertyHolds CommitsIffNil ExactlyOneEnd NilOnlyAfterCommit PanicNeverNil StateMatchesLog
CHECK_DEADLOCK FALSE
