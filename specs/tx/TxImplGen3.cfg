SPECIFICATION ISpec
CONSTANTS
  Variant = "ok"
  MaxStmts = 3
  Kinds = {"exec", "query", "prep", "nest"}
  ErrKinds = {"plain", "norows", "notfound", "canceled", "txdone"}
  PanicKinds = {"str", "err", "rt"}
  Breaker = FALSE
  Emit = TRUE
  BeginOuts = {"ok", "fail", "bad", "noconn"}
  StmtErrs = {"plain"}
  FinErrs = {"plain"}
  CtxKinds = {}
INVARIANTS NoDeviation PrintScript
CHECK_DEADLOCK FALSE
