SPECIFICATION Spec
CONSTANTS
  Calls = {1}
  MaxStmts = 3
  MaxBeginFails = 3
  MaxLog = 0
  BeginOk = {"ok"}
  Ctx = FALSE
INVARIANTS TypeOK StateInv PropertyHolds CommitsIffNil ExactlyOneEnd NilOnlyAfterCommit PanicNeverNil StateMatchesLog CtxExcusesNothing
CHECK_DEADLOCK FALSE
