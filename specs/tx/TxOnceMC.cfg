SPECIFICATION Spec
CONSTANTS
  Calls = {1}
  MaxStmts = 3
  MaxBeginFails = 3
  MaxLog = 0
INVARIANTS TypeOK StateInv PropertyHolds CommitsIffNil ExactlyOneEnd NilOnlyAfterCommit PanicNeverNil StateMatchesLog
CHECK_DEADLOCK FALSE
