------------------------------- MODULE TxImpl -------------------------------
(* Layer I for property C14: the algorithm of go-zero's
       commonSqlConn.TransactCtx  (core/stores/sqlx/sqlconn.go)   breaker -> transact
       transact / transactOnConn  (core/stores/sqlx/tx.go)        connProv; begin; defer{recover..}; fn
   together with the parts of its environment that decide the outcome:
       database/sql   Begin is retried on driver.ErrBadConn (3 attempts in all), a
                      connection that cannot be opened fails Begin without reaching the database;
                      a statement issued with a context that is done is refused before it reaches
                      the database; sql.DB.Begin() does NOT tie the transaction to the caller's
                      context, so Commit/Rollback are unaffected by it
       the body       any sequence of <= MaxStmts statements (each ok or failing WITH SOME ERROR
                      VALUE, of several kinds), then returns nil / returns an error (a value of
                      some kind, ErrKinds) / panics WITH SOME VALUE (PanicKinds: Go lets a body panic
                      with a value of ANY type -- an error, a string, but just as well an int, a
                      struct, a pointer, a slice, false, a typed nil pointer, nil ...; the property
                      says "or panicked", whatever the value) -- independently of whether its
                      statements failed (a body may swallow a statement error)
       the database   Commit / Rollback succeed or fail (with some error value)
       the caller     its context (TransactCtx) may be cancelled or hit its deadline before the
                      call or between any two statements of the body (incl. just before the body
                      returns)
   Every step is recorded with TxOnce!Observe; TLC checks for ALL fault placements (begin fails,
   k-th statement fails, body fails/panics after k statements, commit fails, rollback fails, the
   context ends after k statements, every error identity at every fault point, and every
   combination) that no guard of TxOnce is violated (NoDeviation) and that the declarative
   clauses hold (PropertyHolds).

   The environment choices are collected in `script`; with Emit = TRUE every complete
   behaviour prints its script once -- these fault scripts are replayed on the real code.

   Variant = "ok" is the algorithm as it is in /repo.  Variant = "boundTx" is a different but
   legitimate algorithm (begin with sql.DB.BeginTx(ctx): the transaction is bound to the caller's
   context and database/sql rolls it back asynchronously when that context is done): it must
   satisfy the property too -- this pins down that the allowance Excused() of TxOnce is exactly
   what database/sql does on its own.  The other variants are seeded defects (documented
   counterexamples: TLC must find a violation for each).                                      *)
EXTENDS TxOnce, Json

CONSTANTS
  Variant,     \* "ok" | seeded defects, see Defer
  MaxStmts,    \* body length bound
  Kinds,       \* statement kinds: subset of {"exec", "query", "prep", "nest"}
  ErrKinds,    \* which error a failing body returns: "plain" (its own / the failed statement's),
               \* or one the connection's breaker finds acceptable: "norows" "notfound" "canceled" "txdone",
               \* other sentinels "bad" "deadline", or an error of an unusual SHAPE: "custom" (a struct type
               \* of the caller's), "nilerr" (a nil pointer of a pointer type that implements error: a
               \* non-nil error), "wrap" (fmt.Errorf("%w") around sql.ErrNoRows), "join" (errors.Join)
  PanicKinds,  \* what a panicking body panics with (see AllPanicKinds below)
  Breaker,     \* TRUE: the connection's circuit breaker may reject the call
  Emit,        \* TRUE: print scripts
  BeginOuts,   \* answers to a Begin attempt: "ok", "bad" (driver.ErrBadConn: retried), "noconn", "fail"
               \* (ordinary error), "f:<id>" (fails with the error value <id>, see StmtErrs)
  StmtErrs,    \* error value of a failing statement: "plain" (an ordinary error), "bad" (driver.ErrBadConn),
               \* "txdone" "norows" "canceled" "deadline" "eof" "conndone" (the sentinel errors)
  FinErrs,     \* error value of a failing Commit / Rollback (same names)
  CtxKinds     \* how the caller's context may end: subset of {"cancel", "deadline"}; {}: it never does

VARIABLES
  pc,       \* control point in TransactCtx/transactOnConn
  ierr,     \* the named result `err` of transactOnConn: "nil" | "err" | "panic" (escaping)
  ipanic,   \* the body panicked (recover() will return non-nil in the deferred function)
  irep,     \* which end failures the returned error carries
  att,      \* Begin attempts made by database/sql so far
  icx,      \* the caller's context: "live" | "cancel" | "deadline"
  ibad,     \* errors.Is(err, driver.ErrBadConn) holds for the error transact is returning
  iretried, \* (seeded defect retryOnBadConn only) the transaction was already replayed once
  script    \* environment choices so far

ivars == <<pc, ierr, ipanic, irep, att, icx, ibad, iretried, script>>
vars  == <<cs, dev, pc, ierr, ipanic, irep, att, icx, ibad, iretried, script>>

\* ---- the values a body may panic with (recover() returns the value; any type is legal) ----
\* errors: an ordinary one, a runtime error (nil-map write), sentinels the breaker / database/sql treat
\* specially, a wrapped sentinel, a nil pointer of an error type, panic(nil) (Go >= 1.21, as go.mod says:
\* recover() returns a *runtime.PanicNilError)
ErrorPanics    == {"err", "rt", "e:norows", "e:canceled", "e:txdone", "e:bad", "e:wrap", "nilerr", "nil"}
\* strings (also the empty one) and fmt.Stringers
TextPanics     == {"str", "empty", "stringer"}
\* everything else: no error, no text -- plain data, "falsy" values (0, false), typed nil pointer,
\* reference types
OtherPanics    == {"int", "zero", "code", "bool", "float", "struct", "ptr", "nilptr", "slice", "map", "func", "chan"}
AllPanicKinds  == ErrorPanics \cup TextPanics \cup OtherPanics
\* what a conversion "recovered value -> error" by a type switch WITHOUT default branch handles
\* (seeded defect panicValueLost); the rest it turns into a nil error
ConvertiblePanics == ErrorPanics \cup TextPanics
ASSUME PanicKinds \subseteq AllPanicKinds

T == 1
Rec(ev) == Observe(T, ev)
Quiet   == UNCHANGED <<cs, dev>>
NoCx    == [at |-> "none", k |-> 0, how |-> "none"]
CtxIsDone == icx # "live"

IInit ==
  /\ cs = (T :> NewCall) /\ dev = FALSE
  /\ pc = "transactCtx" /\ ierr = "nil" /\ ipanic = FALSE /\ irep = {} /\ att = 0
  /\ icx = "live" /\ ibad = FALSE /\ iretried = FALSE
  /\ script = [begin |-> <<>>, stmts |-> <<>>, end |-> "none", ek |-> "none", fin |-> "none", fk |-> "none",
               cx |-> NoCx]

\* the caller's context ends before the call ...
CtxDonePre(how) ==
  /\ pc = "transactCtx" /\ ~CtxIsDone /\ how \in CtxKinds
  /\ Rec(Ev("ctxDone", ""))
  /\ icx' = how
  /\ script' = [script EXCEPT !.cx = [at |-> "pre", k |-> 0, how |-> how]]
  /\ UNCHANGED <<pc, ierr, ipanic, irep, att, ibad, iretried>>

\* ... or while the body runs, after k = Len(script.stmts) statements (k = all of them: just
\* before the body returns, i.e. before the deferred commit/rollback)
CtxDoneBody(how) ==
  /\ pc = "body" /\ ~CtxIsDone /\ how \in CtxKinds
  /\ Rec(Ev("ctxDone", ""))
  /\ icx' = how
  /\ script' = [script EXCEPT !.cx = [at |-> "body", k |-> Len(script.stmts), how |-> how]]
  /\ UNCHANGED <<pc, ierr, ipanic, irep, att, ibad, iretried>>

\* db.brk.DoWithAcceptableCtx: ctx is done -> ctx.Err(), nothing runs
CtxReject ==
  /\ pc = "transactCtx" /\ CtxIsDone
  /\ pc' = "return" /\ ierr' = "err"
  /\ Quiet /\ UNCHANGED <<ipanic, irep, att, icx, ibad, iretried, script>>

\* db.brk.DoWithAcceptableCtx: the breaker refuses -> ErrServiceUnavailable, nothing runs
BreakerReject ==
  /\ pc = "transactCtx" /\ Breaker /\ ~CtxIsDone
  /\ pc' = "return" /\ ierr' = "err"
  /\ script' = [script EXCEPT !.begin = <<"reject">>]
  /\ Quiet /\ UNCHANGED <<ipanic, irep, att, icx, ibad, iretried>>

BreakerAccept ==
  /\ pc = "transactCtx" /\ ~CtxIsDone
  /\ pc' = "begin"
  /\ Quiet /\ UNCHANGED <<ierr, ipanic, irep, att, icx, ibad, iretried, script>>

\* conn, err := db.connProv(); tx, err = b(conn)  --  database/sql: db.Begin()
\*   o = "noconn": no connection can be opened (or connProv fails): the database sees nothing
\*   o = "bad"   : the driver answers driver.ErrBadConn: database/sql retries (3 attempts)
\*   o = "fail" / "f:<id>" : Begin fails with an ordinary error / the error value <id>
DbBegin(o) ==
  /\ pc = "begin"
  /\ script' = [script EXCEPT !.begin = Append(@, o)]
  /\ att' = att + 1
  /\ IF o = "noconn" THEN Quiet
     ELSE Rec(Ev("begin", IF o # "ok" THEN "fail" ELSE IF Variant = "boundTx" THEN "okb" ELSE "ok"))
  /\ LET givesUp == o \notin {"ok", "bad"} \/ (o = "bad" /\ att + 1 >= 3) IN
       /\ pc' = IF o = "ok" THEN "fn"
                ELSE IF ~givesUp THEN "begin"
                ELSE IF Variant = "bodyWithoutBegin" THEN "fn" ELSE "return"
       /\ ierr' = IF o = "ok" \/ ~givesUp THEN ierr ELSE "err"
       /\ ibad' = (givesUp /\ o = "bad")
  /\ UNCHANGED <<ipanic, irep, icx, iretried>>

\* return fn(ctx, tx)
Fn ==
  /\ pc = "fn" /\ pc' = "body"
  /\ Rec(Ev("body", ""))
  /\ UNCHANGED <<ierr, ipanic, irep, att, icx, ibad, iretried, script>>

\* one statement of the body; "nest" = NewSqlConnFromSession(tx).Transact(..) -> errCantNestTx.
\* ek = the error value the database answers with ("none": the statement succeeds).
\* A statement issued after the context ended is refused by database/sql (Tx.grabConn) and never
\* reaches the database; the same holds when the (context-bound) transaction is already over.
BodyStmt(kind, ok, ek) ==
  /\ pc = "body" /\ Len(script.stmts) < MaxStmts
  /\ kind = "nest" => ok
  /\ IF ok THEN ek = "none" ELSE ek \in StmtErrs
  /\ LET refused == kind # "nest" /\ (CtxIsDone \/ (Variant = "boundTx" /\ cs[T].tx # "open")) IN
       /\ refused => ok           \* (what the database would have answered is immaterial)
       /\ IF refused THEN Quiet
          ELSE IF kind = "nest" THEN Rec(Ev("nest", "refused")) ELSE Rec(Ev("stmt", OkFail(ok)))
  /\ script' = [script EXCEPT !.stmts = Append(@, [kind |-> kind, ok |-> ok, ek |-> ek])]
  /\ UNCHANGED <<pc, ierr, ipanic, irep, att, icx, ibad, iretried>>

\* the body returns nil / an error (of kind ek), or panics (with a value of kind ek)
EndKinds(how) == IF how = "err" THEN ErrKinds ELSE IF how = "panic" THEN PanicKinds ELSE {"none"}
LastStmtBad == Len(script.stmts) > 0 /\ script.stmts[Len(script.stmts)].ek = "bad"
BodyFinish(how, ek) ==
  /\ pc = "body" /\ pc' = "defer"
  /\ ek \in EndKinds(how)
  /\ Rec(Ev("bodyEnd", how))
  /\ ierr' = IF how = "nil" THEN "nil" ELSE "err"
  /\ ipanic' = (how = "panic")
  \* a "plain" body error is the error of its last statement, if that one failed
  /\ ibad' = (how = "err" /\ (ek = "bad" \/ (ek = "plain" /\ LastStmtBad)))
  /\ script' = [script EXCEPT !.end = how, !.ek = ek]
  /\ UNCHANGED <<irep, att, icx, iretried>>

AnyStmtFailed == \E i \in DOMAIN script.stmts : ~script.stmts[i].ok

\* the deferred function of transactOnConn; fin = does the Commit/Rollback succeed, fk = its error value
Defer(fin, fk) ==
  /\ pc = "defer" /\ pc' = "return"
  /\ IF fin THEN fk = "none" ELSE fk \in FinErrs
  /\ UNCHANGED <<ipanic, att, icx, iretried>>
  /\ LET rollback(res, rep) == /\ Rec(Ev("rollback", OkFail(fin)))
                               /\ ierr' = res /\ irep' = rep
                               /\ ibad' = (IF fin THEN ibad /\ ~ipanic ELSE fk = "bad")   \* "...rollback failed: %w"
                               /\ script' = [script EXCEPT !.fin = OkFail(fin), !.fk = fk]
         commit(res, rep)   == /\ Rec(Ev("commit", OkFail(fin)))
                               /\ ierr' = res /\ irep' = rep
                               /\ ibad' = (fk = "bad")
                               /\ script' = [script EXCEPT !.fin = OkFail(fin), !.fk = fk]
         noEnd(res)         == /\ fin /\ Quiet /\ ierr' = res /\ irep' = {} /\ ibad' = FALSE /\ UNCHANGED script
         rbRep              == IF fin THEN {} ELSE {"rollback"}
     IN
     IF Variant = "boundTx" /\ cs[T].tx # "open" THEN
       \* database/sql already rolled the transaction back: Commit/Rollback answer ErrTxDone
       noEnd("err")
     ELSE IF ipanic THEN       \* if p := recover(); p != nil { tx.Rollback() ... err = fmt.Errorf("recover from ...") }
       CASE Variant = "panicNotRecovered" -> noEnd("panic")
         \* seeded: "err = toError(recover()); if err != nil {Rollback} else {Commit}" where toError knows
         \* errors, strings and Stringers only: any other panic value is swallowed and the half-done
         \* transaction COMMITTED
         [] Variant = "panicValueLost" /\ script.ek \notin ConvertiblePanics
                                          -> commit(IF fin THEN "nil" ELSE "err", IF fin THEN {} ELSE {"commit"})
         \* seeded: rolls back, but re-panics with values that are not errors ("not ours to interpret")
         [] Variant = "panicRethrown" /\ script.ek \notin ErrorPanics
                                          -> rollback("panic", rbRep)
         [] Variant = "panicSwallowed"    -> rollback("nil", rbRep)
         [] Variant = "rollbackErrDropped"-> rollback("err", {})
         [] OTHER                         -> rollback("err", rbRep)
     ELSE IF ierr # "nil" THEN   \* else if err != nil { tx.Rollback() ... "rollback failed: %w" }
       CASE Variant = "commitOnErr"       -> commit("err", IF fin THEN {} ELSE {"commit"})
         [] Variant = "noEndOnErr"        -> noEnd("err")
         [] Variant = "rollbackErrDropped"-> rollback("err", {})
         [] Variant = "commitOnAcceptable" /\ script.ek # "plain"
                                          -> commit("err", IF fin THEN {} ELSE {"commit"})
         [] OTHER                         -> rollback("err", rbRep)
     ELSE                        \* else { err = tx.Commit() }
       CASE Variant = "commitErrDropped"  -> commit("nil", {})
         [] Variant = "rollbackIfStmtFailed" /\ AnyStmtFailed -> rollback("err", rbRep)
         \* seeded: "the caller has given up, don't commit on its behalf" -- and no rollback either
         [] Variant = "ctxDoneNoEnd" /\ CtxIsDone    -> noEnd("err")
         \* seeded: roll back a body that returned nil because the context is done
         [] Variant = "ctxDoneRollback" /\ CtxIsDone -> rollback("err", rbRep)
         \* context-bound transaction: sql.Tx.Commit answers ctx.Err() without reaching the
         \* database; the rollback is database/sql's (EnvRollback), possibly after the return
         [] Variant = "boundTx" /\ CtxIsDone         -> noEnd("err")
         [] OTHER                         -> commit(IF fin THEN "nil" ELSE "err", IF fin THEN {} ELSE {"commit"})

\* Variant "boundTx" only: sql.Tx.awaitDone rolls a context-bound transaction back once the
\* context is done -- at any later moment, also after Transact returned; its outcome is discarded
EnvRollback(fin) ==
  /\ Variant = "boundTx" /\ CtxIsDone /\ cs[T].tx = "open"
  /\ pc \in {"body", "defer", "return", "done"}
  /\ Rec(Ev("rollback", OkFail(fin)))
  /\ UNCHANGED ivars

\* seeded defect retryOnBadConn: TransactCtx replays transact() once when its error matches
\* driver.ErrBadConn ("stale pooled connection")
Retry ==
  /\ Variant = "retryOnBadConn" /\ pc = "return" /\ ibad /\ ~iretried
  /\ pc' = "begin" /\ att' = 0 /\ ierr' = "nil" /\ ipanic' = FALSE /\ irep' = {}
  /\ ibad' = FALSE /\ iretried' = TRUE
  /\ Quiet /\ UNCHANGED <<icx, script>>

IReturn ==
  /\ pc = "return" /\ pc' = "done"
  /\ Rec(RetEv(ierr, irep))
  /\ UNCHANGED <<ierr, ipanic, irep, att, icx, ibad, iretried, script>>

AllErrIds == {"none"} \cup StmtErrs \cup FinErrs

INext ==
  \/ \E how \in CtxKinds : CtxDonePre(how) \/ CtxDoneBody(how)
  \/ CtxReject
  \/ BreakerReject
  \/ BreakerAccept
  \/ \E o \in BeginOuts : DbBegin(o)
  \/ Fn
  \/ \E k \in Kinds, ok \in BOOLEAN, ek \in AllErrIds : BodyStmt(k, ok, ek)
  \/ \E how \in {"nil", "err", "panic"} : \E ek \in EndKinds(how) : BodyFinish(how, ek)
  \/ \E fin \in BOOLEAN, fk \in AllErrIds : Defer(fin, fk)
  \/ \E fin \in BOOLEAN : EnvRollback(fin)
  \/ Retry
  \/ IReturn

ISpec == IInit /\ [][INext]_vars

\* ---- what TLC checks ----
NoDeviation  == ~dev
ImplProperty == HistOK(cs[T].log)
ImplTypeOK   == /\ pc \in {"transactCtx", "begin", "fn", "body", "defer", "return", "done"} /\ att \in 0..3
                /\ icx \in {"live", "cancel", "deadline"} /\ ibad \in BOOLEAN /\ iretried \in BOOLEAN
\* the recorded outcome is the one the algorithm computed
Done == pc = "done" => cs[T].ret = ierr
\* the algorithm in /repo never leaves the decision to the context: once it returned, the begun
\* transaction was ended by exactly one Commit/Rollback of its own, whatever happened to ctx
CtxBlind == pc = "done" /\ Variant = "ok" => CtxExcusesNothing /\ ~Excused(cs[T])

\* "rolls back if the body ... panicked (the panic is reported as an error, not swallowed as success)":
\* whatever VALUE the body panicked with, the call rolled back (never committed) and returned an error
PanicValueBlind == pc = "done" /\ script.end = "panic" =>
     /\ cs[T].ret = "err" /\ HasE(cs[T].log, "rollback") /\ ~HasE(cs[T].log, "commit")
     /\ cs[T].tx \in {"rolledBack", "rollbackFailed"}

\* everything the algorithm's next step depends on (Variant "ok"): hides script and history, so
\* TLC covers bodies of unbounded length with MaxStmts huge (TxImplMCU.cfg)
\* (how the body ended and with which error / panic VALUE stays visible: one state per value)
ImplView == <<pc, ierr, ipanic, irep, att, icx, ibad, iretried, dev, StateView, script.end, script.ek>>

\* ---- test generation: one fault script per complete behaviour ----
\* (with the Layer-P history the model predicts for it: the runner reports how many replays on
\* the real code produced exactly the predicted events -- information, never the verdict)
PrintScript == (Emit /\ pc = "done") =>
     PrintT("TRACE " \o ToJson([script |-> script, log |-> cs[T].log]))
=============================================================================
