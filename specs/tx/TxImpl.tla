------------------------------- MODULE TxImpl -------------------------------
(* Layer I for property C14: the algorithm of go-zero's
       commonSqlConn.TransactCtx  (core/stores/sqlx/sqlconn.go)   breaker -> transact
       transact / transactOnConn  (core/stores/sqlx/tx.go)        connProv; begin; defer{recover..}; fn
   together with the parts of its environment that decide the outcome:
       database/sql   Begin is retried on driver.ErrBadConn (3 attempts in all), a
                      connection that cannot be opened fails Begin without reaching the database
       the body       any sequence of <= MaxStmts statements (each ok or failing, of several
                      kinds), then returns nil / returns an error / panics -- independently of
                      whether its statements failed (a body may swallow a statement error)
       the database   Commit / Rollback succeed or fail
   Every step is recorded with TxOnce!Observe; TLC checks for ALL fault placements (begin fails,
   k-th statement fails, body fails/panics after k statements, commit fails, rollback fails, and
   every combination) that no guard of TxOnce is violated (NoDeviation) and that the declarative
   clauses hold (PropertyHolds).

   The environment choices are collected in `script`; with Emit = TRUE every complete
   behaviour prints its script once -- these fault scripts are replayed on the real code.

   Variant = "ok" is the algorithm as it is in /repo.  The other variants are seeded defects
   (documented counterexamples: TLC must find a violation for each).                         *)
EXTENDS TxOnce, Json

CONSTANTS
  Variant,     \* "ok" | seeded defects, see Defer
  MaxStmts,    \* body length bound
  Kinds,       \* statement kinds: subset of {"exec", "query", "prep", "nest"}
  ErrKinds,    \* which error a failing body returns: "plain" (its own / the failed statement's),
               \* or one the connection's breaker finds acceptable: "norows" "notfound" "canceled" "txdone"
  PanicKinds,  \* what a panicking body panics with: "str" | "err" | "rt" (a runtime error)
  Breaker,     \* TRUE: the connection's circuit breaker may reject the call
  Emit         \* TRUE: print scripts

VARIABLES
  pc,       \* control point in TransactCtx/transactOnConn
  ierr,     \* the named result `err` of transactOnConn: "nil" | "err" | "panic" (escaping)
  ipanic,   \* the body panicked (recover() will return non-nil in the deferred function)
  irep,     \* which end failures the returned error carries
  att,      \* Begin attempts made by database/sql so far
  script    \* environment choices so far

ivars == <<pc, ierr, ipanic, irep, att, script>>
vars  == <<cs, dev, pc, ierr, ipanic, irep, att, script>>

T == 1
Rec(ev) == Observe(T, ev)
Quiet   == UNCHANGED <<cs, dev>>

IInit ==
  /\ cs = (T :> NewCall) /\ dev = FALSE
  /\ pc = "transactCtx" /\ ierr = "nil" /\ ipanic = FALSE /\ irep = {} /\ att = 0
  /\ script = [begin |-> <<>>, stmts |-> <<>>, end |-> "none", ek |-> "none", fin |-> "none"]

\* db.brk.DoWithAcceptableCtx: the breaker refuses -> ErrServiceUnavailable, nothing runs
BreakerReject ==
  /\ pc = "transactCtx" /\ Breaker
  /\ pc' = "return" /\ ierr' = "err"
  /\ script' = [script EXCEPT !.begin = <<"reject">>]
  /\ Quiet /\ UNCHANGED <<ipanic, irep, att>>

BreakerAccept ==
  /\ pc = "transactCtx"
  /\ pc' = "begin"
  /\ Quiet /\ UNCHANGED <<ierr, ipanic, irep, att, script>>

\* conn, err := db.connProv(); tx, err = b(conn)  --  database/sql: db.Begin()
\*   o = "noconn": no connection can be opened (or connProv fails): the database sees nothing
\*   o = "bad"   : the driver answers driver.ErrBadConn: database/sql retries (3 attempts)
\*   o = "fail"  : Begin fails with an ordinary error
DbBegin(o) ==
  /\ pc = "begin"
  /\ script' = [script EXCEPT !.begin = Append(@, o)]
  /\ att' = att + 1
  /\ IF o = "noconn" THEN Quiet ELSE Rec(Ev("begin", IF o = "ok" THEN "ok" ELSE "fail"))
  /\ LET givesUp == o \in {"fail", "noconn"} \/ (o = "bad" /\ att + 1 >= 3) IN
       /\ pc' = IF o = "ok" THEN "fn"
                ELSE IF ~givesUp THEN "begin"
                ELSE IF Variant = "bodyWithoutBegin" THEN "fn" ELSE "return"
       /\ ierr' = IF o = "ok" \/ ~givesUp THEN ierr ELSE "err"
  /\ UNCHANGED <<ipanic, irep>>

\* return fn(ctx, tx)
Fn ==
  /\ pc = "fn" /\ pc' = "body"
  /\ Rec(Ev("body", ""))
  /\ UNCHANGED <<ierr, ipanic, irep, att, script>>

\* one statement of the body; "nest" = NewSqlConnFromSession(tx).Transact(..) -> errCantNestTx
BodyStmt(kind, ok) ==
  /\ pc = "body" /\ Len(script.stmts) < MaxStmts
  /\ kind = "nest" => ok
  /\ IF kind = "nest" THEN Rec(Ev("nest", "refused")) ELSE Rec(Ev("stmt", OkFail(ok)))
  /\ script' = [script EXCEPT !.stmts = Append(@, [kind |-> kind, ok |-> ok])]
  /\ UNCHANGED <<pc, ierr, ipanic, irep, att>>

\* the body returns nil / an error (of kind ek), or panics (with a value of kind ek)
EndKinds(how) == IF how = "err" THEN ErrKinds ELSE IF how = "panic" THEN PanicKinds ELSE {"none"}
BodyFinish(how, ek) ==
  /\ pc = "body" /\ pc' = "defer"
  /\ ek \in EndKinds(how)
  /\ Rec(Ev("bodyEnd", how))
  /\ ierr' = IF how = "nil" THEN "nil" ELSE "err"
  /\ ipanic' = (how = "panic")
  /\ script' = [script EXCEPT !.end = how, !.ek = ek]
  /\ UNCHANGED <<irep, att>>

AnyStmtFailed == \E i \in DOMAIN script.stmts : ~script.stmts[i].ok

\* the deferred function of transactOnConn; fin = does the Commit/Rollback succeed
Defer(fin) ==
  /\ pc = "defer" /\ pc' = "return"
  /\ UNCHANGED <<ipanic, att>>
  /\ LET rollback(res, rep) == /\ Rec(Ev("rollback", OkFail(fin)))
                               /\ ierr' = res /\ irep' = rep
                               /\ script' = [script EXCEPT !.fin = OkFail(fin)]
         commit(res, rep)   == /\ Rec(Ev("commit", OkFail(fin)))
                               /\ ierr' = res /\ irep' = rep
                               /\ script' = [script EXCEPT !.fin = OkFail(fin)]
         noEnd(res)         == /\ fin /\ Quiet /\ ierr' = res /\ irep' = {} /\ UNCHANGED script
         rbRep              == IF fin THEN {} ELSE {"rollback"}
     IN
     IF ipanic THEN       \* if p := recover(); p != nil { tx.Rollback() ... err = fmt.Errorf("recover from ...") }
       CASE Variant = "panicNotRecovered" -> noEnd("panic")
         [] Variant = "panicSwallowed"    -> rollback("nil", rbRep)
         [] Variant = "rollbackErrDropped"-> rollback("err", {})
         [] OTHER                         -> rollback("err", rbRep)
     ELSE IF ierr # "nil" THEN   \* else if err != nil { tx.Rollback() ... "rollback failed: %w" }
       CASE Variant = "commitOnErr"       -> commit("err", IF fin THEN {} ELSE {"commit"})
         [] Variant = "noEndOnErr"        -> noEnd("err")
         [] Variant = "rollbackErrDropped"-> rollback("err", {})
         [] Variant = "commitOnAcceptable" /\ script.ek # "plain"
                                          -> commit("err", IF fin THEN {} ELSE {"commit"})
         [] OTHER                         -> rollback("err", rbRep)
     ELSE                        \* else { err = tx.Commit() }
       CASE Variant = "commitErrDropped"  -> commit("nil", {})
         [] Variant = "rollbackIfStmtFailed" /\ AnyStmtFailed -> rollback("err", rbRep)
         [] OTHER                         -> commit(IF fin THEN "nil" ELSE "err", IF fin THEN {} ELSE {"commit"})

IReturn ==
  /\ pc = "return" /\ pc' = "done"
  /\ Rec(RetEv(ierr, irep))
  /\ UNCHANGED <<ierr, ipanic, irep, att, script>>

INext ==
  \/ BreakerReject
  \/ BreakerAccept
  \/ \E o \in {"ok", "fail", "bad", "noconn"} : DbBegin(o)
  \/ Fn
  \/ \E k \in Kinds, ok \in BOOLEAN : BodyStmt(k, ok)
  \/ \E how \in {"nil", "err", "panic"} : \E ek \in EndKinds(how) : BodyFinish(how, ek)
  \/ \E fin \in BOOLEAN : Defer(fin)
  \/ IReturn

ISpec == IInit /\ [][INext]_vars

\* ---- what TLC checks ----
NoDeviation  == ~dev
ImplProperty == HistOK(cs[T].log)
ImplTypeOK   == pc \in {"transactCtx", "begin", "fn", "body", "defer", "return", "done"} /\ att \in 0..3
\* the recorded outcome is the one the algorithm computed
Done == pc = "done" => cs[T].ret = ierr

\* everything the algorithm's next step depends on (Variant "ok"): hides script and history, so
\* TLC covers bodies of unbounded length with MaxStmts huge (TxImplMCU.cfg)
ImplView == <<pc, ierr, ipanic, irep, att, dev, StateView>>

\* ---- test generation: one fault script per complete behaviour ----
\* (with the Layer-P history the model predicts for it: the runner reports how many replays on
\* the real code produced exactly the predicted events -- information, never the verdict)
PrintScript == (Emit /\ pc = "done") =>
     PrintT("TRACE " \o ToJson([script |-> script, log |-> cs[T].log]))
=============================================================================
