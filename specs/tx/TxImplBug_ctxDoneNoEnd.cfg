SPECIFICATION ISpec
CONSTANTS
  Variant = "ctxDoneNoEnd"
  MaxStmts = 1
  Kinds = {"exec"}
  ErrKinds = {"plain"}
  PanicKinds = {"str"}
  Breaker = FALSE
  Emit = FALSE
  BeginOuts = {"ok"}
  StmtErrs = {"plain"}
  FinErrs = {"plain"}
  CtxKinds = {"cancel"}
INVARIANTS NoDeviation
CHECK_DEADLOCK FALSE
