SPECIFICATION ISpec
CONSTANTS
  Variant = "boundTx"
  MaxStmts = 2
  Kinds = {"exec", "nest"}
  ErrKinds = {"plain", "canceled"}
  PanicKinds = {"str"}
  Breaker = TRUE
  Emit = FALSE
  BeginOuts = {"ok", "fail", "bad", "noconn"}
  StmtErrs = {"plain"}
  FinErrs = {"plain"}
  CtxKinds = {"cancel", "deadline"}
INVARIANTS ImplTypeOK NoDeviation StateInv ImplProperty PropertyHolds CommitsIffNil ExactlyOneEnd NilOnlyAfterCommit PanicNeverNil StateMatchesLog CtxExcusesNothing Done
CHECK_DEADLOCK FALSE
