SPECIFICATION ISpec
CONSTANTS
  Variant = "ok"
  MaxStmts = 3
  Kinds = {"exec", "query", "nest"}
  ErrKinds = {"plain", "canceled"}
  PanicKinds = {"str"}
  Breaker = FALSE
  Emit = TRUE
  BeginOuts = {"ok", "fail"}
  StmtErrs = {"plain"}
  FinErrs = {"plain"}
  CtxKinds = {"cancel", "deadline"}
INVARIANTS NoDeviation PrintScript
CHECK_DEADLOCK FALSE
