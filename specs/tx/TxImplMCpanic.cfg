SPECIFICATION ISpec
CONSTANTS
  Variant = "ok"
  MaxStmts = 2
  Kinds = {"exec", "query", "prep", "nest"}
  ErrKinds = {"plain", "norows", "custom", "nilerr", "wrap", "join"}
  PanicKinds = {"err", "rt", "e:norows", "e:canceled", "e:txdone", "e:bad", "e:wrap", "nilerr", "nil", "str", "empty", "stringer", "int", "zero", "code", "bool", "float", "struct", "ptr", "nilptr", "slice", "map", "func", "chan"}
  Breaker = TRUE
  Emit = FALSE
  BeginOuts = {"ok", "fail", "bad", "noconn"}
  StmtErrs = {"plain", "bad"}
  FinErrs = {"plain", "bad"}
  CtxKinds = {}
INVARIANTS ImplTypeOK NoDeviation StateInv ImplProperty PropertyHolds CommitsIffNil ExactlyOneEnd NilOnlyAfterCommit PanicNeverNil StateMatchesLog PanicValueBlind Done
CHECK_DEADLOCK FALSE
