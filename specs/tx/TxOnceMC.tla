------------------------------ MODULE TxOnceMC ------------------------------
(* Bounded model checking of TxOnce.tla (property C14).
   Spec     : the guarded machine with interleaved calls; the declarative clauses H_* and
              their consequences are invariants.
   FreeSpec : every event of the alphabet at every moment (one or more calls), stopping
              after the first guard violation; AgreeInv says the guards are violated
              exactly when a clause of the property is.                                  *)
EXTENDS TxOnce

CONSTANTS Calls, MaxStmts, MaxBeginFails, MaxLog,
          BeginOk,   \* how a Begin may succeed: {"ok"} or {"ok", "okb"} (okb: bound to the caller's context)
          Ctx        \* TRUE: the caller's context may become done (ctxDone), at any moment

NStmts(L) == Cardinality({i \in DOMAIN L : L[i].e \in {"stmt", "nest"}})
NFails(L) == Cardinality({i \in DOMAIN L : L[i].e = "begin" /\ L[i].a = "fail"})

PNext ==
  \/ \E t \in Calls : Call(t)
  \/ \E t \in DOMAIN cs :
       \/ \E a \in BeginOk : Begin(t, a)
       \/ NFails(cs[t].log) < MaxBeginFails /\ Begin(t, "fail")
       \/ Ctx /\ cs[t].ctx = "live" /\ CtxDone(t)      \* (a second ctxDone changes nothing)
       \/ BodyStart(t)
       \/ \E a \in {"ok", "fail"} : NStmts(cs[t].log) < MaxStmts /\ Stmt(t, a)
       \/ NStmts(cs[t].log) < MaxStmts /\ Nest(t, "refused")
       \/ \E how \in {"nil", "err", "panic"} : BodyEnd(t, how)
       \/ \E ok \in BOOLEAN : Commit(t, ok)
       \/ \E ok \in BOOLEAN : Rollback(t, ok)
       \/ \E a \in {"nil", "err"}, r \in SUBSET {"commit", "rollback"} : Return(t, a, r)
Spec == PInit /\ [][PNext]_pvars

\* every event at every moment, until the first guard violation
FreeEvents == {ev \in AllEvents : /\ ev.e = "begin" /\ ev.a # "fail" => ev.a \in BeginOk
                                  /\ ev.e = "ctxDone" => Ctx}
FreeNext ==
  \/ \E t \in Calls : Call(t)
  \/ \E t \in DOMAIN cs, ev \in FreeEvents : Len(cs[t].log) < MaxLog /\ Observe(t, ev)
FreeSpec == PInit /\ [][FreeNext]_pvars

=============================================================================
