SPECIFICATION ISpec
CONSTANTS
  Variant = "panicNotRecovered"
  MaxStmts = 1
  Kinds = {"exec"}
  ErrKinds = {"plain", "norows"}
  PanicKinds = {"str"}
  Breaker = FALSE
  Emit = FALSE
  BeginOuts = {"ok", "fail", "bad", "noconn"}
  StmtErrs = {"plain"}
  FinErrs = {"plain"}
  CtxKinds = {}
INVARIANTS NoDeviation
CHECK_DEADLOCK FALSE
