SPECIFICATION Spec
CONSTANTS
  Calls = {1, 2}
  MaxStmts = 1000000
  MaxBeginFails = 1000000
  MaxLog = 0
  BeginOk = {"ok", "okb"}
  Ctx = TRUE
INVARIANTS TypeOK StateInv
VIEW StateView
CHECK_DEADLOCK FALSE
