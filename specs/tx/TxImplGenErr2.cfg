SPECIFICATION ISpec
CONSTANTS
  Variant = "ok"
  MaxStmts = 2
  Kinds = {"exec", "prep"}
  ErrKinds = {"plain", "bad"}
  PanicKinds = {"str"}
  Breaker = FALSE
  Emit = TRUE
  BeginOuts = {"ok", "fail", "f:txdone", "f:canceled"}
  StmtErrs = {"plain", "bad", "txdone", "canceled"}
  FinErrs = {"plain", "bad", "txdone", "canceled"}
  CtxKinds = {}
INVARIANTS NoDeviation PrintScript
CHECK_DEADLOCK FALSE
