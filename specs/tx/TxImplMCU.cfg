SPECIFICATION ISpec
CONSTANTS
  Variant = "ok"
  MaxStmts = 1000000
  Kinds = {"exec", "query", "prep", "nest"}
  ErrKinds = {"plain", "norows", "notfound", "canceled", "txdone"}
  PanicKinds = {"str", "err", "rt"}
  Breaker = TRUE
  Emit = FALSE
INVARIANTS ImplTypeOK NoDeviation StateInv Done
VIEW ImplView
CHECK_DEADLOCK FALSE
