SPECIFICATION ISpec
CONSTANTS
  Variant = "ok"
  MaxStmts = 1000000
  Kinds = {"exec", "query", "prep", "nest"}
  ErrKinds = {"plain", "norows", "notfound", "canceled", "txdone", "bad", "deadline"}
  PanicKinds = {"str", "err", "rt"}
  Breaker = TRUE
  Emit = FALSE
  BeginOuts = {"ok", "fail", "bad", "noconn", "f:txdone", "f:canceled", "f:norows"}
  StmtErrs = {"plain", "bad", "txdone", "norows", "canceled", "deadline", "eof", "conndone"}
  FinErrs = {"plain", "bad", "txdone", "norows", "canceled", "deadline", "eof", "conndone"}
  CtxKinds = {"cancel", "deadline"}
INVARIANTS ImplTypeOK NoDeviation StateInv Done
VIEW ImplView
CHECK_DEADLOCK FALSE
