SPECIFICATION ISpec
CONSTANTS
  Variant = "ok"
  MaxStmts = 1000000
  Kinds = {"exec", "query", "prep", "nest"}
  ErrKinds = {"plain", "norows", "notfound", "canceled", "txdone", "bad", "deadline", "custom", "nilerr", "wrap", "join"}
  PanicKinds = {"err", "rt", "e:norows", "e:canceled", "e:txdone", "e:bad", "e:wrap", "nilerr", "nil", "str", "empty", "stringer", "int", "zero", "code", "bool", "float", "struct", "ptr", "nilptr", "slice", "map", "func", "chan"}
  Breaker = TRUE
  Emit = FALSE
  BeginOuts = {"ok", "fail", "bad", "noconn", "f:txdone", "f:canceled", "f:norows"}
  StmtErrs = {"plain", "bad", "txdone", "norows", "canceled", "deadline", "eof", "conndone"}
  FinErrs = {"plain", "bad", "txdone", "norows", "canceled", "deadline", "eof", "conndone"}
  CtxKinds = {"cancel", "deadline"}
INVARIANTS ImplTypeOK NoDeviation StateInv PanicValueBlind Done
VIEW ImplView
CHECK_DEADLOCK FALSE
