SPECIFICATION FreeSpec
CONSTANTS
  Calls = {1}
  MaxStmts = 0
  MaxBeginFails = 0
  MaxLog = 7
  BeginOk = {"ok", "okb"}
  Ctx = TRUE
INVARIANTS TypeOK AgreeInv
CHECK_DEADLOCK FALSE
