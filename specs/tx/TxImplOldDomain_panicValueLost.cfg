SPECIFICATION ISpec
CONSTANTS
  Variant = "panicValueLost"
  MaxStmts = 1
  Kinds = {"exec"}
  ErrKinds = {"plain", "norows"}
  PanicKinds = {"str", "err", "rt"}
  Breaker = FALSE
  Emit = FALSE
  BeginOuts = {"ok", "fail", "bad", "noconn"}
  StmtErrs = {"plain"}
  FinErrs = {"plain"}
  CtxKinds = {}
INVARIANTS NoDeviation
CHECK_DEADLOCK FALSE
