SPECIFICATION TSpec
CONSTRAINT HW
INVARIANTS PropertyHolds NilOnlyAfterCommit
POSTCONDITION TxAccepted
CHECK_DEADLOCK FALSE
