---------------------------- MODULE TxOnceTrace ----------------------------
(* Trace validation for C14: events recorded from the real sqlx.SqlConn /
   sqlc.CachedConn Transact / TransactCtx running on a harness-owned
   database/sql/driver (which logs what the "database" saw and injects the faults of
   a TLC-generated script) must be a behaviour of TxOnce.tla.

   Events (field "t" = call id):
     reset     {api, ctor, mode}             new trace: fresh connection object, no calls
     call      {t}                            harness invokes Transact
     begin     {t, ok, b}                     driver Begin attempt answered; b: begun on a context that
                                              can end (sql.DB.BeginTx(ctx)), i.e. bound to it
     ctxDone   {t, how}                       the harness ends the caller's context of call t (written
                                              before it does so)
     body      {t}                            user function entered
     stmt      {t, x, k, kind, ok}            driver saw a statement of call t on a connection
                                              whose open transaction belongs to call x (0: none)
     nest      {t, ran, nil}                  body tried NewSqlConnFromSession(session).Transact
     bodyEnd   {t, how, v}                    "nil" | "err" | "panic"; v (information, not read here: the
                                              property does not distinguish values) = the kind of error
                                              returned / of VALUE panicked with (TxImpl!AllPanicKinds)
     commit    {t, ok} / rollback {t, ok}     driver Tx.Commit / Tx.Rollback answered
     ret       {t, nil, p, rep}               Transact returned (nil?), or panicked (p); rep = kinds of
                                              injected failures found in the returned error
     end       {open}                         end of trace: transactions the driver still holds open
   A step whose guard fails prints which clause(s) of the property the event violates.  *)
EXTENDS TxOnce, TraceKit

VARIABLE l
tvars == <<cs, dev, l>>

E == Trace[l]
IsEvent(e) == l <= Len(Trace) /\ E.e = e /\ l' = l + 1

\* guarded step; on a guard failure say why (diagnostics only) and block
Step(t, ev) ==
  IF Known(t) /\ Guard(cs[t], ev) THEN Do(t, ev)
  ELSE /\ PrintT(<<"DEVIATION line", l, "call", t, "event", ev.e, ev.a, "violates",
                   IF Known(t) THEN Violated(Append(cs[t].log, ev)) ELSE {"UnknownCall"}>>)
       /\ FALSE

RetKind == IF E.p THEN "panic" ELSE IF E.nil THEN "nil" ELSE "err"

TReset    == IsEvent("reset")    /\ cs' = <<>> /\ dev' = FALSE
TCall     == IsEvent("call")     /\ Call(E.t)
Bound     == "b" \in DOMAIN E /\ E.b
TBegin    == IsEvent("begin")    /\ Step(E.t, Ev("begin", IF ~E.ok THEN "fail" ELSE IF Bound THEN "okb" ELSE "ok"))
TCtxDone  == IsEvent("ctxDone")  /\ Step(E.t, Ev("ctxDone", ""))
TBody     == IsEvent("body")     /\ Step(E.t, Ev("body", ""))
TStmt     == IsEvent("stmt")     /\ Step(E.t, Ev("stmt", IF E.x = E.t THEN OkFail(E.ok) ELSE "foreign"))
TNest     == IsEvent("nest")     /\ Step(E.t, Ev("nest", IF ~E.ran /\ ~E.nil THEN "refused" ELSE "accepted"))
TBodyEnd  == IsEvent("bodyEnd")  /\ Step(E.t, Ev("bodyEnd", E.how))
TCommit   == IsEvent("commit")   /\ Step(E.t, Ev("commit", OkFail(E.ok)))
TRollback == IsEvent("rollback") /\ Step(E.t, Ev("rollback", OkFail(E.ok)))
TRet      == IsEvent("ret")      /\ Step(E.t, RetEv(RetKind, SeqToSet(E.rep)))
\* end of a trace: every call has returned, and the driver's own count of open transactions
\* agrees with the specification's (none: a returned call has ended its transaction -- but for
\* context-bound ones database/sql has not got round to rolling back yet)
TEnd      == /\ IsEvent("end")
             /\ \A t \in DOMAIN cs : cs[t].ret # "pending"
             /\ E.open = Cardinality({t \in DOMAIN cs : cs[t].tx = "open"})
             /\ UNCHANGED <<cs, dev>>

TInit == PInit /\ l = 1
TNext == TReset \/ TCall \/ TBegin \/ TCtxDone \/ TBody \/ TStmt \/ TNest \/ TBodyEnd
         \/ TCommit \/ TRollback \/ TRet \/ TEnd
TSpec == TInit /\ [][TNext]_tvars

HW == HighWater(l)

\* POSTCONDITION (instead of TraceKit!Accepted): the same test, but the high-water mark is
\* printed on a line of its own -- TLC wraps long tuples, and the runner looks for <<"HW", n
TxAccepted ==
  IF TLCGet(1) > Len(Trace) THEN TRUE
  ELSE /\ PrintT(<<"REJECTED", Trace[TLCGet(1)]>>)
       /\ Print(<<"HW", TLCGet(1)>>, FALSE)
=============================================================================
