------------------------------- MODULE TxOnce -------------------------------
(* Layer P for property C14: what a caller of Transact/TransactCtx and the database
   behind it may observe.

   One *call* of Transact is identified by t.  The observable events of a call are
     call                       the harness is about to invoke Transact
     begin(ok|okb|fail)         the database saw a Begin attempt (database/sql may retry
                                a Begin on a broken connection; failed attempts begin nothing);
                                "okb": begun and BOUND to the caller's context (sql.DB.BeginTx
                                with a cancellable context: database/sql itself then rolls the
                                transaction back, asynchronously, once that context is done)
     ctxDone                    the caller's context (TransactCtx) is cancelled / hits its
                                deadline -- an environment event, at any moment of the call
     body                       the user function was entered
     stmt(ok|fail|foreign)      the database saw a statement of this body ("foreign": it
                                arrived outside the transaction of this call)
     nest(refused|accepted)     the body asked the transaction session for a nested
                                transaction (go-zero refuses: errCantNestTx)
     bodyEnd(nil|err|panic)     the user function returned nil / an error / panicked
     commit(ok|fail)            the database saw Commit on the transaction of this call
     rollback(ok|fail)          the database saw Rollback on it
     ret(nil|err|panic, rep)    Transact returned nil / an error (rep = which injected
                                failures the error reports) / let a panic escape

   The module contains the property twice, and TLC checks that both agree:
     * operationally: a state machine per call (tx, body, ret) with one guarded action
       per event (Guard/Effect) -- this is what recorded traces are validated against;
     * declaratively: clauses H_* over the event history of the call, named after the
       clauses of the property statement.
   Spec      = guarded machine, any number of interleaved calls  (H_* are invariants)
   FreeSpec  = any event at any time, recording whether a guard was violated (dev);
               invariant Agree: dev <=> some H_* clause is violated by the history.
   So the guards reject exactly the histories the property forbids: no more, no less.

   The caller's context.  The property statement does not mention it, so a context that is
   done excuses NOTHING by itself: exactly one end, commit iff the body returned nil, nil
   iff committed keep holding (go-zero begins with sql.DB.Begin(), the transaction is not
   tied to the caller's context).  The only allowance -- Excused(c) -- is for a transaction
   that the database layer reports as bound to the caller's context ("okb"): when that
   context is done, database/sql (Tx.awaitDone) rolls the transaction back on its own, at any
   moment -- while the body runs, after it returned nil, even after Transact returned -- its
   Commit then answers with the context error and a failing rollback of that kind is
   discarded by database/sql.  Those are acts of the environment, not of Transact.       *)
EXTENDS Integers, Sequences, FiniteSets, TLC

VARIABLES
  cs,    \* call id |-> [tx, body, ret, log]
  dev    \* FreeSpec / Layer I only: some event so far violated its guard

pvars == <<cs, dev>>

TxStates   == {"none", "open", "committed", "commitFailed", "rolledBack", "rollbackFailed"}
BodyStates == {"notRun", "running", "nil", "err", "panic"}
RetStates  == {"pending", "nil", "err", "panic"}

CtxStates  == {"live", "done"}

NewCall == [tx |-> "none", body |-> "notRun", ret |-> "pending", ctx |-> "live", bound |-> FALSE, log |-> <<>>]

Ev(e, a)       == [e |-> e, a |-> a, rep |-> {}]
RetEv(a, rep)  == [e |-> "ret", a |-> a, rep |-> rep]
OkFail(b)      == IF b THEN "ok" ELSE "fail"

AllEvents ==
       {Ev("begin", a)    : a \in {"ok", "okb", "fail"}}
  \cup {Ev("ctxDone", "")}
  \cup {Ev("body", "")}
  \cup {Ev("stmt", a)     : a \in {"ok", "fail", "foreign"}}
  \cup {Ev("nest", a)     : a \in {"refused", "accepted"}}
  \cup {Ev("bodyEnd", a)  : a \in {"nil", "err", "panic"}}
  \cup {Ev("commit", a)   : a \in {"ok", "fail"}}
  \cup {Ev("rollback", a) : a \in {"ok", "fail"}}
  \cup {RetEv(a, r)       : a \in {"nil", "err", "panic"}, r \in SUBSET {"commit", "rollback"}}

-----------------------------------------------------------------------------
(* ---------------- operational formulation: guards and effects ------------ *)

\* the environment may end this call's transaction on its own: it is bound to the caller's
\* context and that context is done
Excused(c) == c.bound /\ c.ctx = "done"

\* May event ev happen now in a call whose state is c ?
Guard(c, ev) ==
  IF c.ret # "pending"                                  \* nothing happens after the return ...
  THEN ev.e = "rollback" /\ c.tx = "open" /\ Excused(c)  \* ... but database/sql's late rollback
  ELSE
    CASE ev.e = "begin"    -> c.tx = "none"            \* one transaction per call
       [] ev.e = "ctxDone"  -> TRUE                     \* environment, any time during the call
       [] ev.e = "body"     -> c.tx = "open" /\ c.body = "notRun"   \* only inside a begun tx
       [] ev.e = "stmt"     -> c.tx = "open" /\ c.body = "running" /\ ev.a \in {"ok", "fail"}
       [] ev.e = "nest"     -> (c.tx = "open" \/ Excused(c)) /\ c.body = "running" /\ ev.a = "refused"
       [] ev.e = "bodyEnd"  -> c.body = "running"
       [] ev.e = "commit"   -> c.tx = "open" /\ c.body = "nil"      \* commit only if body returned nil
       \* rollback: body failed/panicked (or was never started -- the property does not
       \* forbid giving a begun transaction up before running the body); a context that is
       \* done is no reason to roll back unless the transaction is bound to it
       [] ev.e = "rollback" -> c.tx = "open" /\ (c.body \in {"notRun", "err", "panic"} \/ Excused(c))
       [] ev.e = "ret"      ->
            /\ c.tx # "open" \/ Excused(c)              \* ended (exactly once) before returning
            /\ c.body # "running"
            /\ ev.a # "panic"                           \* a panic is reported as an error
            /\ (ev.a = "nil") <=> (c.tx = "committed")  \* nil iff the commit succeeded
            /\ c.tx = "commitFailed"   => "commit" \in ev.rep     \* failures reach the caller
            /\ c.tx = "rollbackFailed" /\ ~Excused(c) => "rollback" \in ev.rep
       [] OTHER -> FALSE

Effect(c, ev) ==
  LET d == CASE ev.e = "begin" /\ ev.a = "ok"  -> [c EXCEPT !.tx = "open"]
             [] ev.e = "begin" /\ ev.a = "okb" -> [c EXCEPT !.tx = "open", !.bound = TRUE]
             [] ev.e = "ctxDone"              -> [c EXCEPT !.ctx = "done"]
             [] ev.e = "body"                 -> [c EXCEPT !.body = "running"]
             [] ev.e = "bodyEnd"              -> [c EXCEPT !.body = ev.a]
             [] ev.e = "commit"               -> [c EXCEPT !.tx = IF ev.a = "ok" THEN "committed" ELSE "commitFailed"]
             [] ev.e = "rollback"             -> [c EXCEPT !.tx = IF ev.a = "ok" THEN "rolledBack" ELSE "rollbackFailed"]
             [] ev.e = "ret"                  -> [c EXCEPT !.ret = ev.a]
             [] OTHER                         -> c
  IN [d EXCEPT !.log = Append(c.log, ev)]

Known(t) == t \in DOMAIN cs

\* guarded step (Layer P)
Do(t, ev) ==
  /\ Known(t) /\ Guard(cs[t], ev)
  /\ cs' = [cs EXCEPT ![t] = Effect(@, ev)]
  /\ UNCHANGED dev

\* unguarded recorder (FreeSpec, Layer I): remembers whether the guard held
Observe(t, ev) ==
  /\ Known(t) /\ ~dev
  /\ cs' = [cs EXCEPT ![t] = Effect(@, ev)]
  /\ dev' = ~Guard(cs[t], ev)

PInit == cs = <<>> /\ dev = FALSE

Call(t) ==
  /\ ~Known(t)
  /\ cs' = [x \in DOMAIN cs \cup {t} |-> IF x = t THEN NewCall ELSE cs[x]]
  /\ UNCHANGED dev

Begin(t, a)        == Do(t, Ev("begin", a))          \* a \in {"ok", "okb", "fail"}
CtxDone(t)         == Do(t, Ev("ctxDone", ""))
BodyStart(t)       == Do(t, Ev("body", ""))
Stmt(t, a)         == Do(t, Ev("stmt", a))
Nest(t, a)         == Do(t, Ev("nest", a))
BodyEnd(t, how)    == Do(t, Ev("bodyEnd", how))
Commit(t, ok)      == Do(t, Ev("commit", OkFail(ok)))
Rollback(t, ok)    == Do(t, Ev("rollback", OkFail(ok)))
Return(t, a, rep)  == Do(t, RetEv(a, rep))

-----------------------------------------------------------------------------
(* ---------------- declarative formulation: clauses over the history ------- *)

Has(P, e, a)   == \E j \in DOMAIN P : P[j].e = e /\ P[j].a = a
HasE(P, e)     == \E j \in DOMAIN P : P[j].e = e
Begun(P)       == Has(P, "begin", "ok") \/ Has(P, "begin", "okb")
\* the transaction is bound to the caller's context and that context is done
ExcusedH(P)    == Has(P, "begin", "okb") /\ HasE(P, "ctxDone")
Ended(P)       == HasE(P, "commit") \/ HasE(P, "rollback")
BodyRunning(P) == HasE(P, "body") /\ ~HasE(P, "bodyEnd")
Prefix(L, i)   == SubSeq(L, 1, i - 1)

\* Each clause quantifies over the positions of a call's history L; P is what came before.
\* "begins one transaction"
H_OneBegin(L) == \A i \in DOMAIN L : L[i].e = "begin" => ~Begun(Prefix(L, i))
\* "the body is not run if the transaction cannot begin" (and runs inside the open tx, once)
H_BodyOnlyInTx(L) == \A i \in DOMAIN L : L[i].e = "body" =>
     LET P == Prefix(L, i) IN Begun(P) /\ ~Ended(P) /\ ~HasE(P, "body")
\* structural: statements belong to the running body and reach the open tx of this call;
\* a nested Transact on the tx session is refused
H_StmtInTx(L) == \A i \in DOMAIN L : L[i].e \in {"stmt", "nest"} =>
     LET P == Prefix(L, i) IN /\ BodyRunning(P) /\ L[i].a \in {"ok", "fail", "refused"}
                              /\ ~Ended(P) \/ (L[i].e = "nest" /\ ExcusedH(P))
H_BodyEndsOnce(L) == \A i \in DOMAIN L : L[i].e = "bodyEnd" => BodyRunning(Prefix(L, i))
\* "ends it exactly once" (at most once here; at least once: H_EndedAtReturn)
H_EndOnce(L) == \A i \in DOMAIN L : L[i].e \in {"commit", "rollback"} =>
     LET P == Prefix(L, i) IN Begun(P) /\ ~Ended(P)
\* "commits if and only if the body returned nil" -- only-if part
H_CommitOnlyIfNil(L) == \A i \in DOMAIN L : L[i].e = "commit" => Has(Prefix(L, i), "bodyEnd", "nil")
\* -- if part: a rollback never follows a body that returned nil, nor interrupts a running body
\* (whatever the state of the caller's context -- unless the transaction is bound to it)
H_RollbackOnlyIfNotNil(L) == \A i \in DOMAIN L : L[i].e = "rollback" =>
     LET P == Prefix(L, i) IN (~Has(P, "bodyEnd", "nil") /\ ~BodyRunning(P)) \/ ExcusedH(P)
\* at the return the transaction, if begun, has been ended and the body is over
H_EndedAtReturn(L) == \A i \in DOMAIN L : L[i].e = "ret" =>
     LET P == Prefix(L, i) IN (Begun(P) => Ended(P) \/ ExcusedH(P)) /\ ~BodyRunning(P)
\* "the panic is reported as an error" -- it neither escapes nor (H_NilIffCommitted) becomes nil
H_NoPanicEscapes(L) == \A i \in DOMAIN L : L[i].e = "ret" => L[i].a # "panic"
\* "the returned error is nil only when the commit succeeded" (and nil when it did)
H_NilIffCommitted(L) == \A i \in DOMAIN L : L[i].e = "ret" =>
     ((L[i].a = "nil") <=> Has(Prefix(L, i), "commit", "ok"))
\* "commit or rollback failures are reported to the caller"
H_FailuresReported(L) == \A i \in DOMAIN L : L[i].e = "ret" =>
     LET P == Prefix(L, i) IN /\ Has(P, "commit", "fail")   => "commit" \in L[i].rep
                              /\ Has(P, "rollback", "fail") /\ ~ExcusedH(P) => "rollback" \in L[i].rep
\* nothing belongs to a call after it returned
\* (except database/sql's own late rollback of a context-bound transaction)
H_NothingAfterReturn(L) == \A i \in DOMAIN L :
     LET P == Prefix(L, i) IN HasE(P, "ret") => L[i].e = "rollback" /\ ExcusedH(P)

HistOK(L) ==
  /\ H_OneBegin(L) /\ H_BodyOnlyInTx(L) /\ H_StmtInTx(L) /\ H_BodyEndsOnce(L)
  /\ H_EndOnce(L) /\ H_CommitOnlyIfNil(L) /\ H_RollbackOnlyIfNotNil(L)
  /\ H_EndedAtReturn(L) /\ H_NoPanicEscapes(L) /\ H_NilIffCommitted(L)
  /\ H_FailuresReported(L) /\ H_NothingAfterReturn(L)

\* which clauses does history L violate (diagnostics)
Violated(L) ==
  {n \in {"OneBegin", "BodyOnlyInTx", "StmtInTx", "BodyEndsOnce", "EndOnce", "CommitOnlyIfNil",
          "RollbackOnlyIfNotNil", "EndedAtReturn", "NoPanicEscapes", "NilIffCommitted",
          "FailuresReported", "NothingAfterReturn"} :
     ~ CASE n = "OneBegin" -> H_OneBegin(L)
         [] n = "BodyOnlyInTx" -> H_BodyOnlyInTx(L)
         [] n = "StmtInTx" -> H_StmtInTx(L)
         [] n = "BodyEndsOnce" -> H_BodyEndsOnce(L)
         [] n = "EndOnce" -> H_EndOnce(L)
         [] n = "CommitOnlyIfNil" -> H_CommitOnlyIfNil(L)
         [] n = "RollbackOnlyIfNotNil" -> H_RollbackOnlyIfNotNil(L)
         [] n = "EndedAtReturn" -> H_EndedAtReturn(L)
         [] n = "NoPanicEscapes" -> H_NoPanicEscapes(L)
         [] n = "NilIffCommitted" -> H_NilIffCommitted(L)
         [] n = "FailuresReported" -> H_FailuresReported(L)
         [] n = "NothingAfterReturn" -> H_NothingAfterReturn(L)}

-----------------------------------------------------------------------------
(* ---------------- invariants ---------------- *)

TypeOK == \A t \in DOMAIN cs : /\ cs[t].tx \in TxStates /\ cs[t].body \in BodyStates /\ cs[t].ret \in RetStates
                               /\ cs[t].ctx \in CtxStates /\ cs[t].bound \in BOOLEAN

\* the guarded machine only produces histories the property allows
PropertyHolds == \A t \in DOMAIN cs : HistOK(cs[t].log)

\* consequences spelled out in the property statement (theorems of the clauses above)
Returned(c) == c.ret # "pending"
CommitsIffNil == \A t \in DOMAIN cs : Returned(cs[t]) /\ cs[t].tx # "none" /\ ~Excused(cs[t]) =>
     /\ (cs[t].body = "nil") <=> HasE(cs[t].log, "commit")
     /\ (cs[t].body \in {"err", "panic"}) => HasE(cs[t].log, "rollback")
ExactlyOneEnd == \A t \in DOMAIN cs : Returned(cs[t]) /\ ~(Excused(cs[t]) /\ cs[t].tx = "open") =>
     Cardinality({i \in DOMAIN cs[t].log : cs[t].log[i].e \in {"commit", "rollback"}})
       = (IF cs[t].tx = "none" THEN 0 ELSE 1)
NilOnlyAfterCommit == \A t \in DOMAIN cs : cs[t].ret = "nil" => cs[t].tx = "committed" /\ cs[t].body = "nil"
PanicNeverNil == \A t \in DOMAIN cs : cs[t].body = "panic" /\ Returned(cs[t]) => cs[t].ret = "err"
StateMatchesLog == \A t \in DOMAIN cs : LET L == cs[t].log IN
     /\ (cs[t].tx = "none") <=> ~Begun(L)
     /\ (cs[t].tx = "open") <=> (Begun(L) /\ ~Ended(L))
     /\ (cs[t].body = "running") <=> BodyRunning(L)
     /\ (cs[t].ctx = "done") <=> HasE(L, "ctxDone")
     /\ cs[t].bound <=> Has(L, "begin", "okb")
     /\ Excused(cs[t]) <=> ExcusedH(L)
\* The caller's context excuses nothing for a transaction that is not bound to it: whatever
\* happened to the context, a returned call has ended its transaction exactly once, by a
\* commit iff its body returned nil.
CtxExcusesNothing == \A t \in DOMAIN cs : LET c == cs[t] IN Returned(c) /\ ~c.bound /\ c.tx # "none" =>
     /\ c.tx # "open"
     /\ c.tx \in {"committed", "commitFailed"} <=> c.body = "nil"
     /\ Cardinality({i \in DOMAIN c.log : c.log[i].e \in {"commit", "rollback"}}) = 1

\* The same, as far as it can be said about the current state alone (tx, body, ret).  No event
\* changes these three except as Effect says, and statements do not change them at all: checked
\* with the history hidden by a VIEW, this covers bodies of ANY number of statements and any
\* number of failed Begin attempts (TxOnceMCU.cfg, TxImplMCU.cfg).
StateInv == \A t \in DOMAIN cs : LET c == cs[t] IN
     /\ c.body # "notRun" => c.tx # "none"                            \* body only after a successful begin
     /\ c.tx \in {"committed", "commitFailed"} => c.body = "nil"       \* commit only if the body returned nil
     /\ c.tx \in {"rolledBack", "rollbackFailed"} => c.body \in {"notRun", "err", "panic"} \/ Excused(c)
     /\ c.ret # "pending" => (c.tx # "open" \/ Excused(c)) /\ c.body # "running"   \* ended before the return
     /\ c.ret # "pending" /\ c.body = "nil" => c.tx \in {"committed", "commitFailed"} \/ Excused(c)
     /\ c.ret = "nil" <=> (c.ret # "pending" /\ c.tx = "committed")    \* nil iff committed
     /\ c.ret # "panic"                                               \* no panic escapes
StateView == [t \in DOMAIN cs |-> <<cs[t].tx, cs[t].body, cs[t].ret, cs[t].ctx, cs[t].bound>>]

\* FreeSpec: the guards were violated exactly when some clause of the property is
AgreeInv == dev <=> (\E t \in DOMAIN cs : ~HistOK(cs[t].log))

=============================================================================
