SPECIFICATION ISpec
CONSTANTS
  Variant = "ok"
  MaxStmts = 2
  Kinds = {"exec", "query", "nest"}
  ErrKinds = {"custom", "nilerr", "wrap", "join"}
  PanicKinds = {"err", "rt", "e:norows", "e:canceled", "e:txdone", "e:bad", "e:wrap", "nilerr", "nil", "str", "empty", "stringer", "int", "zero", "code", "bool", "float", "struct", "ptr", "nilptr", "slice", "map", "func", "chan"}
  Breaker = FALSE
  Emit = TRUE
  BeginOuts = {"ok"}
  StmtErrs = {"plain"}
  FinErrs = {"plain"}
  CtxKinds = {}
INVARIANTS NoDeviation PrintScript
CHECK_DEADLOCK FALSE
