SPECIFICATION ISpec
CONSTANTS
  Variant = "ok"
  MaxStmts = 3
  Kinds = {"exec", "query"}
  ErrKinds = {"plain", "bad"}
  PanicKinds = {"str"}
  Breaker = FALSE
  Emit = TRUE
  BeginOuts = {"ok", "fail"}
  StmtErrs = {"plain", "bad"}
  FinErrs = {"plain", "bad"}
  CtxKinds = {}
INVARIANTS NoDeviation PrintScript
CHECK_DEADLOCK FALSE
