SPECIFICATION ISpec
CONSTANTS
  Variant = "panicSwallowed"
  MaxStmts = 1
  Kinds = {"exec"}
  ErrKinds = {"plain", "norows"}
  PanicKinds = {"str"}
  Breaker = FALSE
  Emit = FALSE
INVARIANTS NoDeviation
CHECK_DEADLOCK FALSE
