SPECIFICATION ISpec
CONSTANTS
  Variant = "panicValueLost"
  MaxStmts = 1
  Kinds = {"exec"}
  ErrKinds = {"plain", "norows"}
  PanicKinds = {"err", "rt", "e:norows", "e:canceled", "e:txdone", "e:bad", "e:wrap", "nilerr", "nil", "str", "empty", "stringer", "int", "zero", "code", "bool", "float", "struct", "ptr", "nilptr", "slice", "map", "func", "chan"}
  Breaker = FALSE
  Emit = FALSE
  BeginOuts = {"ok", "fail", "bad", "noconn"}
  StmtErrs = {"plain"}
  FinErrs = {"plain"}
  CtxKinds = {}
INVARIANTS NoDeviation
CHECK_DEADLOCK FALSE
