SPECIFICATION ISpec
CONSTANTS
  Variant = "ok"
  MaxStmts = 2
  Kinds = {"exec", "query", "prep", "nest"}
  ErrKinds = {"plain", "norows", "notfound", "canceled", "txdone"}
  PanicKinds = {"str", "err", "rt"}
  Breaker = FALSE
  Emit = TRUE
INVARIANTS NoDeviation PrintScript
CHECK_DEADLOCK FALSE
