------------------------------- MODULE Discov -------------------------------
(* Layer P for property C13: what a discovery subscriber's view is.

   Ground truth is the sequence of registry events as they reach the subscriber:
   a key is put (new, or updated in place to another value, or re-put with the value
   it already has), a key is deleted, or the whole registration table is replaced by
   a snapshot (reload after a reconnect / a compacted watch; late subscription).

     reg    registered key |-> value           (the live registrations)
     last   value |-> the key most recently registered with that value
            (only the exclusive rule looks at it)
     excl   the subscriber was created with Exclusive()

   Values() must be View:
     non-exclusive  { reg[k] : k registered }
     exclusive      { v : the key most recently registered with v is still
                          registered with v }     ("later added value removes the
                          keys associated with the same value previously")

   A snapshot registers the keys that are new or carry a new value "at once": the
   registry has no order among them, so for each value any of its freshly registered
   keys may count as the most recent one (nondeterministic choice ch).  Keys a snapshot
   repeats unchanged are not re-registered.

   Observation predicates (ValuesOK, NotifyOK, PublishedOK) say what the real code's
   answers must be; they are used by the trace modules and by DiscovImpl.           *)
EXTENDS Integers, Sequences, FiniteSets, TLC

VARIABLES excl, reg, last

dvars == <<excl, reg, last>>

Range(f)     == {f[x] : x \in DOMAIN f}
Upd(f, k, v) == [x \in DOMAIN f \cup {k} |-> IF x = k THEN v ELSE f[x]]
Drop(f, k)   == [x \in DOMAIN f \ {k} |-> f[x]]
ToSet(s)     == {s[i] : i \in DOMAIN s}

View ==
  IF excl THEN {v \in DOMAIN last : last[v] \in DOMAIN reg /\ reg[last[v]] = v}
          ELSE Range(reg)

DInit == excl \in BOOLEAN /\ reg = <<>> /\ last = <<>>

\* a subscriber (re)starts empty
DReset(x) == excl' = x /\ reg' = <<>> /\ last' = <<>>

\* PUT k v: new key, update in place, or an identical re-put (k becomes the latest of v)
DPut(k, v) ==
  /\ reg' = Upd(reg, k, v)
  /\ last' = Upd(last, v, k)
  /\ UNCHANGED excl

\* DELETE k (an unknown key: no effect)
DDelete(k) ==
  /\ reg' = Drop(reg, k)
  /\ UNCHANGED <<last, excl>>

\* keys of the snapshot that are (re)registered with value v by it
Fresh(snap, v) == {k \in DOMAIN snap : snap[k] = v /\ (k \notin DOMAIN reg \/ reg[k] # v)}
FreshVals(snap) == {v \in Range(snap) : Fresh(snap, v) # {}}
Choices(snap) == {ch \in [FreshVals(snap) -> DOMAIN snap] : \A v \in FreshVals(snap) : ch[v] \in Fresh(snap, v)}

DReloadWith(snap, ch) ==
  /\ reg' = snap
  /\ last' = [v \in DOMAIN last \cup DOMAIN ch |-> IF v \in DOMAIN ch THEN ch[v] ELSE last[v]]
  /\ UNCHANGED excl

\* RELOAD snapshot (snap: key |-> value)
DReload(snap) ==
  IF excl THEN \E ch \in Choices(snap) : DReloadWith(snap, ch)
          ELSE reg' = snap /\ UNCHANGED <<last, excl>>      \* last is irrelevant

\* ------------------------------------------------------------------ observations
\* Values() as a list: exactly the view, every value once
ValuesOK(vals, view) == ToSet(vals) = view /\ Len(vals) = Cardinality(view)

\* "every listener is notified after each change": calls = the listener invocations
\* made while the event was applied, in order, each with the Values() the listener
\* read inside the call ([l |-> listener, vals |-> set]).  If the view changed, every
\* listener was called; and the last thing a called listener saw is the view after
\* the event (it was notified *after* the change).
NotifyOK(before, after, calls, listeners) ==
  \A i \in listeners :
    LET mine == SelectSeq(calls, LAMBDA c : c.l = i) IN
      /\ before # after => Len(mine) >= 1
      /\ Len(mine) >= 1 => mine[Len(mine)].vals = after

\* the resolver publishes all addresses when there are at most n, else an n-subset
PublishedOK(pub, view, n) ==
  /\ Len(pub) = Cardinality(ToSet(pub))
  /\ IF Cardinality(view) <= n THEN ToSet(pub) = view
     ELSE ToSet(pub) \subseteq view /\ Len(pub) = n

\* the UpdateListener protocol (what the registry layer owes a listener): applying
\* the OnAdd/OnDelete calls in order to a key |-> value table (add = upsert,
\* delete = drop the key) must give the live registrations.
RECURSIVE Fold(_, _)
Fold(m, cs) ==
  IF cs = <<>> THEN m
  ELSE LET c == Head(cs) IN
         Fold(IF c[1] = "add" THEN Upd(m, c[2], c[3]) ELSE Drop(m, c[2]), Tail(cs))
=============================================================================
