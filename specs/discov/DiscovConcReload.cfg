SPECIFICATION Spec
CONSTANTS
  Keys = {"k1", "k2"}
  Vals = {"a", "b"}
  MaxEvents = 2
  Serial = TRUE
  WithReload = TRUE
INVARIANTS NoDeadlock
CHECK_DEADLOCK FALSE
