------------------------------- MODULE KubeEp -------------------------------
(* Layer P for the Kubernetes part of C13: the endpoints handler of the kube resolver
   (zrpc/resolver/internal/kube.EventHandler, fed by an informer that watches the one
   Endpoints object of the target service) always publishes exactly the current endpoint
   addresses.

     cur      ready addresses of the Endpoints object as last reported ({} while it does
              not exist)
     inStore  the informer knows the object (decides which notification comes next)
     started  an informer notification has been delivered (Update(...) is called directly
              only before that: kubeBuilder.Build seeds the handler with a Get)
     pub      address set last handed to the update function ({} before the first call)
     extra    addresses the handler wrongly retains -- stays {} unless a known-finding
              deviation (below) is enabled

   Notifications: Set (direct Update), Add, Update (new resource version), Resync (same
   resource version), Delete with the final object or with a
   cache.DeletedFinalStateUnknown tombstone (the delete was noticed by a re-list), and
   calls with an object of the wrong type (ignored).

   Property (PubOK / PubInv): after every notification pub = cur.                                   *)
EXTENDS Integers, Sequences, FiniteSets, TLC

VARIABLES cur, inStore, started, pub, extra
kvars == <<cur, inStore, started, pub, extra>>

KInit == cur = {} /\ inStore = FALSE /\ started = FALSE /\ pub = {} /\ extra = {}
KReset == cur' = {} /\ inStore' = FALSE /\ started' = FALSE /\ pub' = {} /\ extra' = {}

\* pubs: the address sets passed to the update function during the notification, in order
Published(pubs) == pub' = IF Len(pubs) = 0 THEN pub ELSE pubs[Len(pubs)]

\* THE PROPERTY, as a step predicate (trace validation conjoins it to every notification)
\* and as a state invariant (model checking of KubeEpImpl)
PubOK  == pub' = cur' \cup extra'
PubInv == pub = cur \cup extra

KSet(S, pubs) ==
  /\ ~started
  /\ cur' = S /\ extra' = {} /\ UNCHANGED <<inStore, started>>
  /\ Published(pubs)

KAdd(S, pubs) ==
  /\ ~inStore
  /\ cur' = S /\ extra' = {} /\ inStore' = TRUE /\ started' = TRUE
  /\ Published(pubs)

KUpdate(S, pubs) ==
  /\ inStore
  /\ cur' = S /\ extra' = {} /\ started' = TRUE /\ UNCHANGED inStore
  /\ Published(pubs)

\* periodic resync: old and new are the same object version
KResync(pubs) ==
  /\ inStore
  /\ started' = TRUE /\ UNCHANGED <<cur, extra, inStore>>
  /\ Published(pubs)

\* the object passed (directly or inside the tombstone) is the informer's last state = cur
KDelete(tomb, pubs) ==
  /\ inStore
  /\ cur' = {} /\ extra' = extra \ cur /\ inStore' = FALSE /\ started' = TRUE
  /\ Published(pubs)

KBad(pubs) ==
  /\ UNCHANGED <<cur, extra, inStore, started>>
  /\ Published(pubs)

\* ------------------------------------------------------------ known-finding deviations
\* KF_KubeAddMerges: OnAdd merges the object's addresses into what the handler already
\* holds instead of replacing it; visible when the handler holds addresses the added
\* object does not have (seeded by Update before the informer's first list, or left over
\* by an ignored tombstone).
KFAddMerges(S, pubs) ==
  /\ ~inStore /\ ~((cur \cup extra) \subseteq S)
  /\ extra' = (cur \cup extra) \ S
  /\ cur' = S /\ inStore' = TRUE /\ started' = TRUE
  /\ Published(pubs)

\* KF_KubeTombstoneIgnored: OnDelete ignores a cache.DeletedFinalStateUnknown, the
\* deleted object's addresses stay published.
KFTombstoneIgnored(pubs) ==
  /\ inStore /\ cur # {}
  /\ extra' = extra \cup cur
  /\ cur' = {} /\ inStore' = FALSE /\ started' = TRUE
  /\ Published(pubs)
=============================================================================
