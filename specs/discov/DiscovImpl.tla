----------------------------- MODULE DiscovImpl -----------------------------
(* Layer I: the algorithm of core/discov, running in lock-step with Discov.tla.

     cv       cluster's watchValue.values (key |-> value): the registry layer's copy
     cm, cs   container.mapping (key |-> value) and container.values (value |-> keys;
              a set here: doRemoveKey drops every occurrence, order is never used)
     calls    listener invocations of the last event with the Values() read inside
     prev     Layer-P view before the last event

   Events: PUT / DELETE watch events (cluster.handleWatchEvents -> OnAdd/OnDelete) and a
   reload snapshot (cluster.handleChanges: calculateChanges, then the adds and removes in
   map order = any order).  A late subscriber (Registry.Monitor on an existing watcher)
   is a reload into an empty container.

   Variant (a set of strings) selects the algorithm:
     {}                          go-zero before the fix: addKv never unlinks a key from
                                 its previous value; a key that changed value is both
                                 added (new value) and removed (old value), adds first
     "unlink"                    addKv unlinks the key from its previous value
     "rmvanished"                calculateChanges removes only keys that vanished
     "rmfirst"                   handleChanges delivers removes before adds
   {"unlink","rmvanished"} is the proposed fix; {"unlink","rmfirst"} also refines.

   TLC checks that the container's view is the Layer-P view after every event, that the
   cluster copy is the registration table, that the two container maps stay consistent,
   and the listener obligation.  The same run prints one shortest event history per
   distinct implementation state for replay on the real code.                      *)
EXTENDS Discov, Json

CONSTANTS Keys, Vals, MaxOps, Variant, Emit, ExclModes, Reloads

VARIABLES cv, cm, cs, calls, prev, hist

ivars == <<cv, cm, cs>>
vars  == <<excl, reg, last, cv, cm, cs, calls, prev, hist>>

Has(v) == v \in Variant

\* ---------------------------------------------------------------- container
Cont == [m |-> cm, s |-> cs]
KeysOf(c, v) == IF v \in DOMAIN c.s THEN c.s[v] ELSE {}

\* doRemoveKey
CRemove(c, k) ==
  IF k \notin DOMAIN c.m THEN c
  ELSE LET v == c.m[k]
           remain == KeysOf(c, v) \ {k}
       IN [m |-> Drop(c.m, k),
           s |-> IF remain # {} THEN Upd(c.s, v, remain) ELSE Drop(c.s, v)]

RECURSIVE CRemoveAll(_, _)
CRemoveAll(c, ks) ==
  IF ks = {} THEN c
  ELSE LET k == CHOOSE x \in ks : TRUE IN CRemoveAll(CRemove(c, k), ks \ {k})

\* addKv
CAdd(c, k, v) ==
  LET c0 == IF Has("unlink") /\ k \in DOMAIN c.m /\ c.m[k] # v THEN CRemove(c, k) ELSE c
      c1 == IF excl /\ KeysOf(c0, v) # {} THEN CRemoveAll(c0, KeysOf(c0, v)) ELSE c0
  IN [m |-> Upd(c1.m, k, v), s |-> Upd(c1.s, v, KeysOf(c1, v) \cup {k})]

\* a listener call = OnAdd / OnDelete followed by notifyChange; the listener reads getValues()
\* ops: sequence of <<"add", k, v>> / <<"del", k, v>>; result [c, calls]
RECURSIVE Deliver(_, _, _)
Deliver(c, ops, acc) ==
  IF ops = <<>> THEN [c |-> c, calls |-> acc]
  ELSE LET o == Head(ops)
           c2 == IF o[1] = "add" THEN CAdd(c, o[2], o[3]) ELSE CRemove(c, o[2])
       IN Deliver(c2, Tail(ops), Append(acc, [l |-> 1, vals |-> DOMAIN c2.s]))

Apply(ops) ==
  LET r == Deliver(Cont, ops, <<>>) IN
    /\ cm' = r.c.m
    /\ cs' = r.c.s
    /\ calls' = r.calls
    /\ prev' = View

\* ---------------------------------------------------------------- history (generation)
RECURSIVE Pairs(_)
Pairs(f) == IF DOMAIN f = {} THEN <<>>
            ELSE LET k == CHOOSE x \in DOMAIN f : TRUE IN <<<<k, f[k]>>>> \o Pairs(Drop(f, k))

\* ---------------------------------------------------------------- events
IInit ==
  /\ excl \in ExclModes /\ reg = <<>> /\ last = <<>>
  /\ cv = <<>> /\ cm = <<>> /\ cs = <<>> /\ calls = <<>> /\ prev = {} /\ hist = <<>>

\* handleWatchEvents, EventTypePut
IPut(k, v) ==
  /\ DPut(k, v)
  /\ cv' = Upd(cv, k, v)
  /\ Apply(<<<<"add", k, v>>>>)
  /\ hist' = Append(hist, [op |-> "put", k |-> k, v |-> v])

\* handleWatchEvents, EventTypeDelete (the event of a delete carries no value)
IDelete(k) ==
  /\ DDelete(k)
  /\ cv' = Drop(cv, k)
  /\ Apply(<<<<"del", k, "">>>>)
  /\ hist' = Append(hist, [op |-> "del", k |-> k])

Perms(S) == {s \in [1..Cardinality(S) -> S] : \A i, j \in 1..Cardinality(S) : i # j => s[i] # s[j]}

\* handleChanges / calculateChanges
Adds(snap) == {k \in DOMAIN snap : k \notin DOMAIN cv \/ cv[k] # snap[k]}
Removes(snap) ==
  IF Has("rmvanished") THEN DOMAIN cv \ DOMAIN snap
  ELSE {k \in DOMAIN cv : k \notin DOMAIN snap \/ snap[k] # cv[k]}

\* the choice the implementation's add order makes for Layer P: per value the key added last
ImplChoice(snap, aseq) ==
  [v \in {snap[k] : k \in Adds(snap)} |->
     aseq[CHOOSE i \in DOMAIN aseq : snap[aseq[i]] = v /\ \A j \in DOMAIN aseq : j > i => snap[aseq[j]] # v]]

IReload(snap) ==
  \E aseq \in Perms(Adds(snap)), rseq \in Perms(Removes(snap)) :
    LET adds == [i \in DOMAIN aseq |-> <<"add", aseq[i], snap[aseq[i]]>>]
        rems == [i \in DOMAIN rseq |-> <<"del", rseq[i], cv[rseq[i]]>>]
        ch   == ImplChoice(snap, aseq)
    IN /\ IF excl
            THEN /\ Assert(cv # reg \/ ch \in Choices(snap), "implementation order not allowed by Layer P")
                 /\ DReloadWith(snap, ch)
            ELSE DReload(snap)
       /\ cv' = snap
       /\ Apply(IF Has("rmfirst") THEN rems \o adds ELSE adds \o rems)
       /\ hist' = Append(hist, [op |-> "reload", snap |-> Pairs(snap)])

Snapshots == UNION {[S -> Vals] : S \in SUBSET Keys}

INext ==
  /\ Len(hist) < MaxOps
  /\ \/ \E k \in Keys, v \in Vals : IPut(k, v)
     \/ \E k \in Keys : IDelete(k)
     \/ Reloads /\ \E snap \in Snapshots : IReload(snap)

ISpec == IInit /\ [][INext]_vars

\* ---------------------------------------------------------------- refinement
ViewInv    == DOMAIN cs = View                      \* Values() is the Layer-P view
ClusterInv == cv = reg                              \* the registry copy is the live table
NotifyInv  == NotifyOK(prev, View, calls, {1})
\* mapping and values describe the same links
Consistent ==
  /\ \A k \in DOMAIN cm : cm[k] \in DOMAIN cs /\ k \in cs[cm[k]]
  /\ \A v \in DOMAIN cs : cs[v] # {} /\ \A k \in cs[v] : k \in DOMAIN cm /\ cm[k] = v
\* non-exclusive: the container holds exactly the registrations
MappingInv == ~excl => cm = reg

\* ---------------------------------------------------------------- generation
IView == <<excl, reg, last, cv, cm, cs>>
PrintHist == (Emit /\ Len(hist) > 0) => PrintT("TRACE " \o ToJson([excl |-> excl, ops |-> hist]))
=============================================================================
