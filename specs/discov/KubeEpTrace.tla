---------------------------- MODULE KubeEpTrace ----------------------------
(* Trace validation for the Kubernetes part of C13 (driver in
   zrpc/resolver/internal/kube): notifications delivered to the real EventHandler with
   a recording update function.
     reset
     kset    addrs pubs     Update(endpoints) before the informer started
     kadd    addrs pubs     OnAdd
     kupdate addrs pubs     OnUpdate(old, new), new resource version
     kresync pubs           OnUpdate(obj, obj), same resource version
     kdelete tomb pubs      OnDelete(last object) / OnDelete(DeletedFinalStateUnknown)
     kbad    pubs           a notification with an object of the wrong type
   pubs = the address lists passed to the update function during the call.            *)
EXTENDS KubeEp, TraceKit

VARIABLE l
tvars == <<cur, inStore, started, pub, extra, l>>

E == Trace[l]
IsEvent(e) == l <= Len(Trace) /\ E.e = e /\ l' = l + 1

ToSet(s) == {s[i] : i \in DOMAIN s}
Pubs == IF Len(E.pubs) = 0 THEN <<>> ELSE [i \in 1..Len(E.pubs) |-> ToSet(E.pubs[i])]
\* an address is never handed over twice in one list
NoDup == \A i \in DOMAIN E.pubs : Len(E.pubs[i]) = Cardinality(ToSet(E.pubs[i]))
OK == PubOK /\ NoDup

TReset   == IsEvent("reset") /\ KReset
TSet     == IsEvent("kset")    /\ KSet(ToSet(E.addrs), Pubs)    /\ OK
TAdd     == IsEvent("kadd")    /\ KAdd(ToSet(E.addrs), Pubs)    /\ OK
TUpdate  == IsEvent("kupdate") /\ KUpdate(ToSet(E.addrs), Pubs) /\ OK
TResync  == IsEvent("kresync") /\ KResync(Pubs)                 /\ OK
TDelete  == IsEvent("kdelete") /\ KDelete(E.tomb, Pubs)         /\ OK
TBad     == IsEvent("kbad")    /\ KBad(Pubs)                    /\ OK

\* known-finding deviations (enabled by the runner only when re-trying a rejected trace)
TKFAdd   == /\ "KF_KubeAddMerges" \in OpenFindings
            /\ IsEvent("kadd") /\ KFAddMerges(ToSet(E.addrs), Pubs) /\ OK
TKFTomb  == /\ "KF_KubeTombstoneIgnored" \in OpenFindings
            /\ IsEvent("kdelete") /\ E.tomb /\ KFTombstoneIgnored(Pubs) /\ OK

TInit == KInit /\ l = 1
TNext == TReset \/ TSet \/ TAdd \/ TUpdate \/ TResync \/ TDelete \/ TBad \/ TKFAdd \/ TKFTomb
TSpec == TInit /\ [][TNext]_tvars

HW == HighWater(l)
=============================================================================
