---------------------------- MODULE DiscovTrace ----------------------------
(* Trace validation for C13: events recorded from the real go-zero code must be a
   behaviour of Discov.tla.

   Subscriber traces (drivers in core/discov: the container alone, and the whole stack
   Subscriber -> Registry -> cluster -> fake etcd client):
     reset   excl, nl            a fresh subscriber with listeners 1..nl
     listen                      AddListener (listener nl+1)
     put     k v   obs vals calls    PUT reached the subscriber; vals = Values() afterwards,
     del     k     obs vals calls    calls = listener invocations since the last observation
     reload  snap  obs vals calls    [{l, vals = Values() read inside the call}]
                                 obs = FALSE: the event was sent together with later ones
                                 (one watch response carrying several events, or asynchronous
                                 delivery); the observation comes with a later event
   Resolver traces (driver in zrpc/resolver/internal: discovBuilder.Build against an
   in-process etcd server, recording resolver.ClientConn):
     build   snap  pubs          Build with snap registered; pubs = address lists passed
                                 to ClientConn.UpdateState, in order
     put / del (obs = FALSE)     watch event sent (delivery is asynchronous)
     rsync   snap  pubs          compaction + snapshot: everything sent before has been
                                 applied; pubs = lists published since the last observation
     subset  set n out           subset(set, n) called directly
   The last list published must be the view (all addresses when <= 32, else a
   32-subset).                                                                       *)
EXTENDS Discov, TraceKit

VARIABLES
  nl,     \* listeners 1..nl
  base,   \* view at the last observation
  pub,    \* address list last passed to ClientConn.UpdateState
  l
tvars == <<excl, reg, last, nl, base, pub, l>>

E == Trace[l]
IsEvent(e) == l <= Len(Trace) /\ E.e = e /\ l' = l + 1

SubsetSize == 32

\* JSON [[k, v], ...] -> function
SnapFn(s) == [k \in {s[i][1] : i \in DOMAIN s} |-> s[CHOOSE i \in DOMAIN s : s[i][1] = k][2]]
Calls == IF Len(E.calls) = 0 THEN <<>>
         ELSE [i \in 1..Len(E.calls) |-> [l |-> E.calls[i].l, vals |-> ToSet(E.calls[i].vals)]]

Obs == IF E.obs THEN /\ ValuesOK(E.vals, View')
                     /\ NotifyOK(base, View', Calls, 1..nl)
                     /\ base' = View'
       ELSE base' = base

TReset  == IsEvent("reset") /\ DReset(E.excl) /\ nl' = E.nl /\ pub' = <<>> /\ base' = {}
TListen == IsEvent("listen") /\ nl' = nl + 1 /\ UNCHANGED <<excl, reg, last, pub, base>>
TPut    == IsEvent("put")    /\ DPut(E.k, E.v)         /\ Obs /\ UNCHANGED <<nl, pub>>
TDel    == IsEvent("del")    /\ DDelete(E.k)           /\ Obs /\ UNCHANGED <<nl, pub>>
TReload == IsEvent("reload") /\ DReload(SnapFn(E.snap)) /\ Obs /\ UNCHANGED <<nl, pub>>

\* the resolver: what gRPC was last told
Publish == /\ pub' = IF Len(E.pubs) = 0 THEN pub ELSE E.pubs[Len(E.pubs)]
           /\ PublishedOK(pub', View', SubsetSize)
TBuild == IsEvent("build") /\ DReload(SnapFn(E.snap)) /\ Publish /\ UNCHANGED <<nl, base>>
TRSync == IsEvent("rsync") /\ DReload(SnapFn(E.snap)) /\ Publish /\ UNCHANGED <<nl, base>>
TSubset == IsEvent("subset") /\ PublishedOK(E.out, ToSet(E.set), E.n)
           /\ UNCHANGED <<excl, reg, last, nl, pub, base>>

TInit == excl = FALSE /\ reg = <<>> /\ last = <<>> /\ nl = 0 /\ base = {} /\ pub = <<>> /\ l = 1
TNext == TReset \/ TListen \/ TPut \/ TDel \/ TReload \/ TBuild \/ TRSync \/ TSubset
TSpec == TInit /\ [][TNext]_tvars

HW == HighWater(l)
=============================================================================
