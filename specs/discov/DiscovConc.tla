----------------------------- MODULE DiscovConc -----------------------------
(* Layer I, concurrency of core/discov/internal/registry.go around one watched key:
   one action per critical section of

     watcher   cluster.watchStream / handleWatchEvents: take a response from the watch
               channel; RLock: copy the listener list; per event Lock: update
               watcher.values, then call every listener of the copy (no lock held)
     joiner    Registry.Monitor on the existing watcher: Lock: append the new listener;
               RLock: copy watcher.values (getCurrent); then OnAdd for every copied
               entry (no lock held)
     reloader  cluster.reload (reconnect): Lock; close(done); watchGroup.Wait() WITH
               THE LOCK HELD; ...; Unlock

   running against the Layer-P ground truth `reg` (Discov!DPut / DDelete; every listener
   is an UpdateListener whose calls add up to a table, Discov!Fold).

   Checked: Converges -- when nothing is pending every listener's table is the live
   registration table.  It holds when the joiner runs while no event is in flight
   (Serial = TRUE: the sequential histories property C13 quantifies over) and fails
   otherwise (JoinRace: a replayed entry is applied after the event that superseded it,
   or an event is delivered to a listener copy taken before the joiner was appended
   while the joiner's snapshot was taken before the event was applied).  With the reloader, TLC's deadlock check finds reload holding the lock while it
   waits for a watcher that needs the lock to finish the response it has taken.      *)
EXTENDS Discov

CONSTANTS Keys, Vals, MaxEvents, Serial, WithReload

VARIABLES
  cv,       \* watcher.values
  lsn,      \* watcher.listeners
  tab,      \* listener |-> the table its calls add up to
  evq,      \* events sent by etcd, not yet taken by the watcher
  sent,     \* number of events sent
  wpc, wev, wls, wtodo,     \* watcher: pc, event in hand, listener copy, listeners still to call
  jpc, jkvs,                \* joiner: pc, copied entries still to replay
  rpc, lockedBy             \* reloader: pc; who holds c.lock across a blocking wait

vars == <<excl, reg, last, cv, lsn, tab, evq, sent, wpc, wev, wls, wtodo, jpc, jkvs, rpc, lockedBy>>

J == 2          \* the joining listener; listener 1 is there from the start
Free == lockedBy = "none"

Init ==
  /\ excl = FALSE /\ reg = <<>> /\ last = <<>>
  /\ cv = <<>> /\ lsn = {1} /\ tab = [i \in {1, J} |-> <<>>]
  /\ evq = <<>> /\ sent = 0
  /\ wpc = "idle" /\ wev = <<>> /\ wls = {} /\ wtodo = {}
  /\ jpc = "start" /\ jkvs = {}
  /\ rpc = "idle" /\ lockedBy = "none"

\* ---- environment: etcd sends a watch event (ground truth moves now)
Send ==
  /\ sent < MaxEvents
  /\ \/ \E k \in Keys, v \in Vals : DPut(k, v) /\ evq' = Append(evq, <<"add", k, v>>)
     \/ \E k \in DOMAIN reg : DDelete(k) /\ evq' = Append(evq, <<"del", k, "">>)
  /\ sent' = sent + 1
  /\ UNCHANGED <<cv, lsn, tab, wpc, wev, wls, wtodo, jpc, jkvs, rpc, lockedBy>>

\* ---- watcher
WTake ==        \* <-rch
  /\ wpc = "idle" /\ evq # <<>> /\ (Serial => jpc \in {"start", "joined"})
  /\ wev' = Head(evq) /\ evq' = Tail(evq) /\ wpc' = "copy"
  /\ UNCHANGED <<excl, reg, last, cv, lsn, tab, sent, wls, wtodo, jpc, jkvs, rpc, lockedBy>>
WCopy ==        \* RLock: listeners := copy
  /\ wpc = "copy" /\ Free
  /\ wls' = lsn /\ wpc' = "apply"
  /\ UNCHANGED <<excl, reg, last, cv, lsn, tab, evq, sent, wev, wtodo, jpc, jkvs, rpc, lockedBy>>
WApply ==       \* Lock: watcher.values[k] = v / delete
  /\ wpc = "apply" /\ Free
  /\ cv' = IF wev[1] = "add" THEN Upd(cv, wev[2], wev[3]) ELSE Drop(cv, wev[2])
  /\ wtodo' = wls /\ wpc' = "call"
  /\ UNCHANGED <<excl, reg, last, lsn, tab, evq, sent, wev, wls, jpc, jkvs, rpc, lockedBy>>
WCall ==        \* l.OnAdd / l.OnDelete, one listener per step
  /\ wpc = "call"
  /\ IF wtodo = {} THEN wpc' = "idle" /\ UNCHANGED <<tab, wtodo>>
     ELSE \E i \in wtodo : tab' = [tab EXCEPT ![i] = Fold(@, <<wev>>)] /\ wtodo' = wtodo \ {i} /\ wpc' = wpc
  /\ UNCHANGED <<excl, reg, last, cv, lsn, evq, sent, wev, wls, jpc, jkvs, rpc, lockedBy>>
WQuit ==        \* <-c.done at the select
  /\ wpc = "idle" /\ rpc = "waiting"
  /\ wpc' = "quit"
  /\ UNCHANGED <<excl, reg, last, cv, lsn, tab, evq, sent, wev, wls, wtodo, jpc, jkvs, rpc, lockedBy>>

\* ---- joiner
Quiet == wpc = "idle" /\ evq = <<>>
JAppend ==      \* Lock: watcher.listeners = append(...)
  /\ jpc = "start" /\ Free /\ (Serial => Quiet)
  /\ lsn' = lsn \cup {J} /\ jpc' = "copy"
  /\ UNCHANGED <<excl, reg, last, cv, tab, evq, sent, wpc, wev, wls, wtodo, jkvs, rpc, lockedBy>>
JCopy ==        \* getCurrent under RLock
  /\ jpc = "copy" /\ Free
  /\ jkvs' = {<<"add", k, cv[k]>> : k \in DOMAIN cv} /\ jpc' = "replay"
  /\ UNCHANGED <<excl, reg, last, cv, lsn, tab, evq, sent, wpc, wev, wls, wtodo, rpc, lockedBy>>
JReplay ==      \* l.OnAdd(kv), map order
  /\ jpc = "replay"
  /\ IF jkvs = {} THEN jpc' = "joined" /\ UNCHANGED <<tab, jkvs>>
     ELSE \E c \in jkvs : tab' = [tab EXCEPT ![J] = Fold(@, <<c>>)] /\ jkvs' = jkvs \ {c} /\ jpc' = jpc
  /\ UNCHANGED <<excl, reg, last, cv, lsn, evq, sent, wpc, wev, wls, wtodo, rpc, lockedBy>>

\* ---- reloader (only the part that matters for blocking)
RLock ==        \* c.lock.Lock(); close(c.done)
  /\ WithReload /\ rpc = "idle" /\ Free
  /\ lockedBy' = "reload" /\ rpc' = "waiting"
  /\ UNCHANGED <<excl, reg, last, cv, lsn, tab, evq, sent, wpc, wev, wls, wtodo, jpc, jkvs>>
RWaited ==      \* watchGroup.Wait() returned; ...; Unlock
  /\ rpc = "waiting" /\ wpc = "quit"
  /\ lockedBy' = "none" /\ rpc' = "done"
  /\ UNCHANGED <<excl, reg, last, cv, lsn, tab, evq, sent, wpc, wev, wls, wtodo, jpc, jkvs>>

Next == Send \/ WTake \/ WCopy \/ WApply \/ WCall \/ WQuit \/ JAppend \/ JCopy \/ JReplay \/ RLock \/ RWaited
Spec == Init /\ [][Next]_vars

Quiescent == evq = <<>> /\ wpc \in {"idle", "quit"} /\ jpc \in {"start", "joined"} /\ rpc \in {"idle", "done"}
\* the watcher has quit before taking everything: the reload's own snapshot (not modelled) takes over
Converges == (Quiescent /\ wpc = "idle") => \A i \in lsn : tab[i] = reg /\ cv = reg
\* deadlock check: only these are legitimate final states
NoDeadlock == (~ENABLED Next) => (rpc = "done" \/ (Quiescent /\ jpc = "joined"))
=============================================================================
