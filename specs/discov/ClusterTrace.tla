---------------------------- MODULE ClusterTrace ----------------------------
(* Trace validation for C13 at the registry layer (driver in core/discov/internal):
   the real cluster (handleWatchEvents, handleChanges / calculateChanges, load, watch with
   compaction, reload, Registry.Monitor on an existing watcher) with recording
   UpdateListeners.

     reset   nl                       a fresh cluster watching one key, listeners 1..nl
     put     k v   obs calls cv       calls[i] = the OnAdd/OnDelete calls listener i received
     del     k     obs calls cv       since the last observation, in its own order:
     reload  snap  obs calls cv       ["add"|"del", k, v]; cv = the cluster's own copy
     join          obs calls cv       a new listener (the last one of calls) subscribes to
                                      the existing watcher (Registry.Monitor)
     sync              calls cv       everything issued before has finished (end of a region
                                      in which the driver let calls overlap: obs = FALSE)

   What the registry layer owes every listener (Discov!Fold): applying its calls in order
   (add = upsert of the key, del = drop of the key) gives the live registrations whenever
   nothing is in flight; the cluster's own copy equals them too.                       *)
EXTENDS Discov, TraceKit

VARIABLES
  m,      \* per listener: the table its calls add up to
  reg0,   \* since the last observation: listeners that joined, put/del events issued
  stale,  \* listeners a known-finding deviation has given up on
  l
tvars == <<excl, reg, last, m, reg0, stale, l>>

E == Trace[l]
IsEvent(e) == l <= Len(Trace) /\ E.e = e /\ l' = l + 1

SnapFn(s) == [k \in {s[i][1] : i \in DOMAIN s} |-> s[CHOOSE i \in DOMAIN s : s[i][1] = k][2]]
None == [joins |-> {}, evs |-> 0]

Deliver == m' = [i \in DOMAIN m |-> Fold(m[i], E.calls[i])]
Check == /\ \A i \in DOMAIN m' \ stale : m'[i] = reg'
         /\ SnapFn(E.cv) = reg'
Obs(ev) == IF E.obs THEN Check /\ reg0' = None
           ELSE reg0' = [reg0 EXCEPT !.evs = @ + ev]

TReset  == IsEvent("reset") /\ DReset(FALSE) /\ m' = [i \in 1..E.nl |-> <<>>] /\ reg0' = None /\ stale' = {}
TPut    == IsEvent("put")    /\ DPut(E.k, E.v)          /\ Deliver /\ Obs(1) /\ UNCHANGED stale
TDel    == IsEvent("del")    /\ DDelete(E.k)            /\ Deliver /\ Obs(1) /\ UNCHANGED stale
TReload == IsEvent("reload") /\ DReload(SnapFn(E.snap)) /\ Deliver /\ Obs(1) /\ UNCHANGED stale
TJoin   == /\ IsEvent("join")
           /\ UNCHANGED <<excl, reg, last, stale>>
           /\ Len(E.calls) = Len(m) + 1
           /\ m' = [i \in 1..Len(E.calls) |-> Fold(IF i <= Len(m) THEN m[i] ELSE <<>>, E.calls[i])]
           /\ IF E.obs THEN Check /\ reg0' = None
              ELSE reg0' = [reg0 EXCEPT !.joins = @ \cup {Len(m) + 1}]
TSync   == IsEvent("sync") /\ UNCHANGED <<excl, reg, last, stale>> /\ Deliver /\ Check /\ reg0' = None

\* KF_JoinRace: Registry.Monitor on an existing watcher is not atomic with respect to the
\* delivery of watch events: a listener that joins while an event is being delivered may
\* apply a replayed entry after the event that superseded it, or miss the event. Only
\* the listeners that joined in the region may end up with another table.
TKFJoinRace ==
  /\ "KF_JoinRace" \in OpenFindings
  /\ IsEvent("sync") /\ reg0.joins # {} /\ reg0.evs > 0
  /\ Deliver
  /\ \A i \in DOMAIN m' \ (stale \cup reg0.joins) : m'[i] = reg
  /\ SnapFn(E.cv) = reg
  /\ stale' = stale \cup {i \in reg0.joins : m'[i] # reg}
  /\ reg0' = None
  /\ UNCHANGED <<excl, reg, last>>

TInit == excl = FALSE /\ reg = <<>> /\ last = <<>> /\ m = <<>> /\ reg0 = None /\ stale = {} /\ l = 1
TNext == TReset \/ TPut \/ TDel \/ TReload \/ TJoin \/ TSync \/ TKFJoinRace
TSpec == TInit /\ [][TNext]_tvars

HW == HighWater(l)
=============================================================================
