SPECIFICATION ISpec
CONSTANTS
  Addrs = {"1", "2", "3"}
  Variant = {"replace"}
  MaxOps = 1000
  Emit = FALSE
INVARIANTS PubInv
VIEW IView
CHECK_DEADLOCK FALSE
