SPECIFICATION ISpec
CONSTANTS
  Addrs = {"1", "2", "3"}
  Variant = {"replace", "tomb"}
  MaxOps = 6
  Emit = TRUE
INVARIANTS PubInv PrintHist
VIEW IView
CHECK_DEADLOCK FALSE
