SPECIFICATION ISpec
CONSTANTS
  Keys = {"k1", "k2", "k3"}
  Vals = {"a", "b"}
  MaxOps = 8
  Variant = {"unlink", "rmvanished"}
  Emit = TRUE
  ExclModes = {TRUE, FALSE}
  Reloads = FALSE
INVARIANTS ViewInv PrintHist
VIEW IView
CHECK_DEADLOCK FALSE
