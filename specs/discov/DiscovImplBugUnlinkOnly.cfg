SPECIFICATION ISpec
CONSTANTS
  Keys = {"k1", "k2"}
  Vals = {"a", "b"}
  MaxOps = 1000
  Variant = {"unlink"}
  Emit = FALSE
  ExclModes = {TRUE, FALSE}
  Reloads = TRUE
INVARIANTS ViewInv ClusterInv NotifyInv
VIEW IView
CHECK_DEADLOCK FALSE
