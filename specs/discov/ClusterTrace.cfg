SPECIFICATION TSpec
CONSTRAINT HW
POSTCONDITION Accepted
CHECK_DEADLOCK FALSE
