----------------------------- MODULE KubeEpImpl -----------------------------
(* Layer I: kube.EventHandler as written (endpoints set; OnAdd / OnDelete / OnUpdate /
   Update; notify only on change), in lock-step with KubeEp.

   Variant:  "merge"   OnAdd adds the object's addresses to the set (go-zero as is)
             "replace" OnAdd replaces the set (proposed)
             "tomb"    OnDelete unwraps cache.DeletedFinalStateUnknown (proposed)     *)
EXTENDS KubeEp, Json

CONSTANTS Addrs, Variant, MaxOps, Emit

VARIABLES eps, hist
vars == <<cur, inStore, started, pub, extra, eps, hist>>

Has(v) == v \in Variant

\* Update(endpoints): replace, notify if different
HUpdate(S) == [eps |-> S, pubs |-> IF S # eps THEN <<S>> ELSE <<>>]
HAdd(S) == IF Has("replace") THEN HUpdate(S)
           ELSE [eps |-> eps \cup S, pubs |-> IF ~(S \subseteq eps) THEN <<eps \cup S>> ELSE <<>>]
HDelete(S, tomb) ==
  IF tomb /\ ~Has("tomb") THEN [eps |-> eps, pubs |-> <<>>]
  ELSE [eps |-> eps \ S, pubs |-> IF S \cap eps # {} THEN <<eps \ S>> ELSE <<>>]

RECURSIVE SetToSeq(_)
SetToSeq(S) == IF S = {} THEN <<>> ELSE LET x == CHOOSE y \in S : TRUE IN <<x>> \o SetToSeq(S \ {x})

IInit == KInit /\ eps = {} /\ hist = <<>>

ISet(S) == LET r == HUpdate(S) IN
  KSet(S, r.pubs) /\ eps' = r.eps /\ hist' = Append(hist, [op |-> "kset", addrs |-> SetToSeq(S)])
IAdd(S) == LET r == HAdd(S) IN
  KAdd(S, r.pubs) /\ eps' = r.eps /\ hist' = Append(hist, [op |-> "kadd", addrs |-> SetToSeq(S)])
IUpdate(S) == LET r == HUpdate(S) IN
  KUpdate(S, r.pubs) /\ eps' = r.eps /\ hist' = Append(hist, [op |-> "kupdate", addrs |-> SetToSeq(S)])
IResync ==
  KResync(<<>>) /\ eps' = eps /\ hist' = Append(hist, [op |-> "kresync"])
IDelete(tomb) == LET r == HDelete(cur, tomb) IN
  KDelete(tomb, r.pubs) /\ eps' = r.eps /\ hist' = Append(hist, [op |-> "kdelete", tomb |-> tomb])

INext ==
  /\ Len(hist) < MaxOps
  /\ \/ \E S \in SUBSET Addrs : ISet(S) \/ IAdd(S) \/ IUpdate(S)
     \/ IResync
     \/ \E tomb \in BOOLEAN : IDelete(tomb)

ISpec == IInit /\ [][INext]_vars

\* checked: PubInv (the property) and, without deviations, the handler's set itself
HandlerInv == eps = cur
IView == <<cur, inStore, started, pub, extra, eps>>
PrintHist == (Emit /\ Len(hist) > 0) => PrintT("TRACE " \o ToJson(hist))
=============================================================================
