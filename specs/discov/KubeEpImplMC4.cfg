SPECIFICATION ISpec
CONSTANTS
  Addrs = {"1", "2", "3", "4"}
  Variant = {"replace", "tomb"}
  MaxOps = 1000
  Emit = FALSE
INVARIANTS PubInv HandlerInv
VIEW IView
CHECK_DEADLOCK FALSE
