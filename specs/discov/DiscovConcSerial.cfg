SPECIFICATION Spec
CONSTANTS
  Keys = {"k1", "k2"}
  Vals = {"a", "b"}
  MaxEvents = 3
  Serial = TRUE
  WithReload = FALSE
INVARIANTS Converges NoDeadlock
CHECK_DEADLOCK FALSE
