SPECIFICATION ISpec
CONSTANTS
  Keys = {"k1", "k2"}
  Vals = {"a", "b"}
  MaxOps = 8
  Variant = {}
  Emit = TRUE
  ExclModes = {TRUE, FALSE}
  Reloads = TRUE
INVARIANTS PrintHist
VIEW IView
CHECK_DEADLOCK FALSE
