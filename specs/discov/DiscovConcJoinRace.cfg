SPECIFICATION Spec
CONSTANTS
  Keys = {"k1", "k2"}
  Vals = {"a", "b"}
  MaxEvents = 3
  Serial = FALSE
  WithReload = FALSE
INVARIANTS Converges
CHECK_DEADLOCK FALSE
