SPECIFICATION ISpec
CONSTANTS
  Keys = {"k1", "k2", "k3"}
  Vals = {"a", "b"}
  MaxOps = 1000
  Variant = {"unlink", "rmfirst"}
  Emit = FALSE
  ExclModes = {TRUE, FALSE}
  Reloads = TRUE
INVARIANTS ViewInv ClusterInv NotifyInv Consistent MappingInv
VIEW IView
CHECK_DEADLOCK FALSE
