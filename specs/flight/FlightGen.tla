----------------------------- MODULE FlightGen -----------------------------
(* API-level schedule generator for C07.  The function handed to the library is a gate
   owned by the driver, so a schedule is a sequence of driver moves
       call(k)     start one more caller on key k (and let the system come to rest)
       rel(k,o)    let the execution gated on key k finish with outcome o
       del(k)      drop the cached value / inject(k) put a resource into the manager
   and, when Hooks = TRUE (the optional verifhook points in makeCall's deferred function exist),
       rel(k,o,s)  ... and park the leader at hook s: "del" = before the entry is deleted,
                   "done" = after the deletion, before wg.Done
       cont(k)     let the parked leader run on
   and the real code is deterministic between two moves.  This module only predicts
   which moves are possible (is something gated on k?), so that TLC enumerates every
   feasible schedule up to D moves; each is printed once and replayed on the real code.
   What the real code answers is judged by Flight.tla, not here.                       *)
EXTENDS Integers, Sequences, TLC, Json

CONSTANTS Mode, Keys, D, Outcomes, Hooks

VARIABLES
  run,    \* key |-> an execution is gated on this key
  wait,   \* key |-> number of callers parked behind it
  have,   \* key |-> a value is cached / a resource exists ("rm", "take")
  hooked, \* key |-> "-" | "del" | "done": a leader whose fn returned is parked at that hook
  hwait,  \* key |-> callers parked behind the hooked leader
  hist

gvars == <<run, wait, have, hooked, hwait, hist>>

GInit == /\ run = [k \in Keys |-> FALSE] /\ wait = [k \in Keys |-> 0]
         /\ have = [k \in Keys |-> FALSE] /\ hist = <<>>
         /\ hooked = [k \in Keys |-> "-"] /\ hwait = [k \in Keys |-> 0]

Caching == Mode \in {"rm", "take"}

Op(op, k, o, st) == [op |-> op, k |-> k, o |-> o, s |-> st]

Call(k) ==
  /\ hist' = Append(hist, Op("call", k, "-", "-"))
  /\ IF hooked[k] = "del"                                               \* the entry is still registered: join it
       THEN hwait' = [hwait EXCEPT ![k] = @ + 1] /\ UNCHANGED <<run, wait>>
     ELSE /\ UNCHANGED hwait
          /\ IF Caching /\ have[k] /\ ~run[k] THEN UNCHANGED <<run, wait>>   \* served from the cache at once
             ELSE IF run[k] THEN wait' = [wait EXCEPT ![k] = @ + 1] /\ UNCHANGED run
             ELSE run' = [run EXCEPT ![k] = TRUE] /\ UNCHANGED wait
  /\ UNCHANGED <<have, hooked>>

Rel(k, o) ==
  /\ run[k]
  /\ hist' = Append(hist, Op("rel", k, o, "-"))
  /\ IF Mode = "lc" /\ wait[k] > 0
       THEN wait' = [wait EXCEPT ![k] = @ - 1] /\ UNCHANGED run        \* one waiter becomes the runner
       ELSE run' = [run EXCEPT ![k] = FALSE] /\ wait' = [wait EXCEPT ![k] = 0]
  /\ have' = IF Caching /\ o = "ok" THEN [have EXCEPT ![k] = TRUE] ELSE have
  /\ UNCHANGED <<hooked, hwait>>

\* fn returns and the leader is parked inside makeCall's deferred function (a panicking fn gets there too)
RelStop(k, o, st) ==
  /\ Hooks /\ Mode \in {"sf", "lc"} /\ run[k] /\ hooked[k] = "-"
  /\ hist' = Append(hist, Op("rel", k, o, st))
  /\ hooked' = [hooked EXCEPT ![k] = st]
  /\ hwait' = [hwait EXCEPT ![k] = wait[k]]
  /\ run' = [run EXCEPT ![k] = FALSE] /\ wait' = [wait EXCEPT ![k] = 0]
  /\ UNCHANGED have

Cont(k) ==
  /\ hooked[k] # "-"
  /\ hist' = Append(hist, Op("cont", k, "-", "-"))
  /\ hooked' = [hooked EXCEPT ![k] = "-"] /\ hwait' = [hwait EXCEPT ![k] = 0]
  /\ IF Mode = "lc" /\ hwait[k] > 0          \* the woken waiters look again
       THEN IF run[k] THEN wait' = [wait EXCEPT ![k] = @ + hwait[k]] /\ UNCHANGED run
            ELSE run' = [run EXCEPT ![k] = TRUE] /\ wait' = [wait EXCEPT ![k] = hwait[k] - 1]
       ELSE UNCHANGED <<run, wait>>
  /\ UNCHANGED have

Del(k) ==
  /\ Mode = "take" /\ have[k] /\ ~run[k]
  /\ hist' = Append(hist, Op("del", k, "-", "-"))
  /\ have' = [have EXCEPT ![k] = FALSE]
  /\ UNCHANGED <<run, wait, hooked, hwait>>

Inject(k) ==
  /\ Mode = "rm" /\ ~run[k] /\ ~have[k]
  /\ hist' = Append(hist, Op("inject", k, "-", "-"))
  /\ have' = [have EXCEPT ![k] = TRUE]
  /\ UNCHANGED <<run, wait, hooked, hwait>>

GNext == /\ Len(hist) < D
         /\ \E k \in Keys : \/ Call(k) \/ Del(k) \/ Inject(k) \/ Cont(k)
                            \/ \E o \in Outcomes : Rel(k, o) \/ \E st \in {"del", "done"} : RelStop(k, o, st)
GSpec == GInit /\ [][GNext]_gvars

\* one line per complete schedule (every shorter schedule is a prefix of one of them); with hooks only
\* the schedules that use one (the others are covered by the hook-free configs)
UsesHook == \E i \in 1..Len(hist) : hist[i].s # "-"
PrintHist == (Len(hist) = D /\ (Hooks => UsesHook)) => PrintT("TRACE " \o ToJson(hist))
=============================================================================
