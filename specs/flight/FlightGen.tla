----------------------------- MODULE FlightGen -----------------------------
(* API-level schedule generator for C07.  The function handed to the library is a gate
   owned by the driver, so a schedule is a sequence of driver moves
       call(k)     start one more caller on key k (and let the system come to rest)
       rel(k,o)    let the execution gated on key k finish with outcome o
       del(k)      drop the cached value / inject(k) put a resource into the manager
   and, when Hooks = TRUE (the optional verifhook points in makeCall's deferred function exist),
       rel(k,o,s)  ... and park the leader at hook s: "del" = before the entry is deleted,
                   "done" = after the deletion, before wg.Done
       cont(k)     let the parked leader run on
   and the real code is deterministic between two moves.  This module only predicts
   which moves are possible (is something gated on k?), so that TLC enumerates every
   feasible schedule up to D moves; each is printed once and replayed on the real code.
   What the real code answers is judged by Flight.tla, not here.

   Objects.  Every move names the object it is made on (field "ob": the driver creates one
   SingleFlight / LockedCalls / ResourceManager per element of Objs and hands all of them the
   SAME key strings).  Objects are independent, so the prediction keeps its state per slot
   <<object, key>>.  Objects are interchangeable: object n+1 is touched only after object n has
   been.  With more than one object only schedules that touch at least two are printed (the
   others are the single-object schedules of the other configs).
   Mode = "all" generates for "sf", "lc" and "rm" in one run; a behaviour is then printed as
   [mode |-> m, ops |-> hist] instead of the bare list of moves.                       *)
EXTENDS Integers, Sequences, FiniteSets, TLC, Json

CONSTANTS Mode, Objs, Keys, D, Outcomes, Hooks

VARIABLES
  gm,     \* the component this behaviour is for (= Mode, or one of sf / lc / rm when Mode = "all")
  run,    \* slot |-> an execution is gated on this slot           (slot = <<object, key>>)
  wait,   \* slot |-> number of callers parked behind it
  have,   \* slot |-> a value is cached / a resource exists ("rm", "take")
  hooked, \* slot |-> "-" | "del" | "done": a leader whose fn returned is parked at that hook
  hwait,  \* slot |-> callers parked behind the hooked leader
  hist

gvars == <<gm, run, wait, have, hooked, hwait, hist>>

Slots == Objs \X Keys
Modes == IF Mode = "all" THEN {"sf", "lc", "rm"} ELSE {Mode}

GInit == /\ gm \in Modes
         /\ run = [k \in Slots |-> FALSE] /\ wait = [k \in Slots |-> 0]
         /\ have = [k \in Slots |-> FALSE] /\ hist = <<>>
         /\ hooked = [k \in Slots |-> "-"] /\ hwait = [k \in Slots |-> 0]

Caching == gm \in {"rm", "take"}

Op(op, k, o, st) == [op |-> op, ob |-> k[1], k |-> k[2], o |-> o, s |-> st]

\* objects are interchangeable: the next untouched object is the smallest one
Touched == {hist[i].ob : i \in 1..Len(hist)}
InOrder(k) == \A x \in Objs : x < k[1] => x \in Touched

Call(k) ==
  /\ hist' = Append(hist, Op("call", k, "-", "-"))
  /\ IF hooked[k] = "del"                                               \* the entry is still registered: join it
       THEN hwait' = [hwait EXCEPT ![k] = @ + 1] /\ UNCHANGED <<run, wait>>
     ELSE /\ UNCHANGED hwait
          /\ IF Caching /\ have[k] /\ ~run[k] THEN UNCHANGED <<run, wait>>   \* served from the cache at once
             ELSE IF run[k] THEN wait' = [wait EXCEPT ![k] = @ + 1] /\ UNCHANGED run
             ELSE run' = [run EXCEPT ![k] = TRUE] /\ UNCHANGED wait
  /\ UNCHANGED <<gm, have, hooked>>

\* a panicking create is outside the ResourceManager clause
OutOK(o) == o = "panic" => gm \in {"sf", "lc"}

Rel(k, o) ==
  /\ run[k] /\ OutOK(o)
  /\ hist' = Append(hist, Op("rel", k, o, "-"))
  /\ IF gm = "lc" /\ wait[k] > 0
       THEN wait' = [wait EXCEPT ![k] = @ - 1] /\ UNCHANGED run        \* one waiter becomes the runner
       ELSE run' = [run EXCEPT ![k] = FALSE] /\ wait' = [wait EXCEPT ![k] = 0]
  /\ have' = IF Caching /\ o = "ok" THEN [have EXCEPT ![k] = TRUE] ELSE have
  /\ UNCHANGED <<gm, hooked, hwait>>

\* fn returns and the leader is parked inside makeCall's deferred function (a panicking fn gets there too)
RelStop(k, o, st) ==
  /\ Hooks /\ gm \in {"sf", "lc"} /\ run[k] /\ hooked[k] = "-" /\ OutOK(o)
  /\ hist' = Append(hist, Op("rel", k, o, st))
  /\ hooked' = [hooked EXCEPT ![k] = st]
  /\ hwait' = [hwait EXCEPT ![k] = wait[k]]
  /\ run' = [run EXCEPT ![k] = FALSE] /\ wait' = [wait EXCEPT ![k] = 0]
  /\ UNCHANGED <<gm, have>>

Cont(k) ==
  /\ hooked[k] # "-"
  /\ hist' = Append(hist, Op("cont", k, "-", "-"))
  /\ hooked' = [hooked EXCEPT ![k] = "-"] /\ hwait' = [hwait EXCEPT ![k] = 0]
  /\ IF gm = "lc" /\ hwait[k] > 0          \* the woken waiters look again
       THEN IF run[k] THEN wait' = [wait EXCEPT ![k] = @ + hwait[k]] /\ UNCHANGED run
            ELSE run' = [run EXCEPT ![k] = TRUE] /\ wait' = [wait EXCEPT ![k] = hwait[k] - 1]
       ELSE UNCHANGED <<run, wait>>
  /\ UNCHANGED <<gm, have>>

Del(k) ==
  /\ gm = "take" /\ have[k] /\ ~run[k]
  /\ hist' = Append(hist, Op("del", k, "-", "-"))
  /\ have' = [have EXCEPT ![k] = FALSE]
  /\ UNCHANGED <<gm, run, wait, hooked, hwait>>

Inject(k) ==
  /\ gm = "rm" /\ ~run[k] /\ ~have[k]
  /\ hist' = Append(hist, Op("inject", k, "-", "-"))
  /\ have' = [have EXCEPT ![k] = TRUE]
  /\ UNCHANGED <<gm, run, wait, hooked, hwait>>

GNext == /\ Len(hist) < D
         /\ \E k \in Slots : /\ InOrder(k)
                             /\ \/ Call(k) \/ Del(k) \/ Inject(k) \/ Cont(k)
                                \/ \E o \in Outcomes : Rel(k, o) \/ \E st \in {"del", "done"} : RelStop(k, o, st)
GSpec == GInit /\ [][GNext]_gvars

\* one line per complete schedule (every shorter schedule is a prefix of one of them); with hooks only
\* the schedules that use one (the others are covered by the hook-free configs)
UsesHook == \E i \in 1..Len(hist) : hist[i].s # "-"
Several == Cardinality(Objs) > 1 => Cardinality(Touched) > 1
PrintHist == (Len(hist) = D /\ (Hooks => UsesHook) /\ Several) =>
               PrintT("TRACE " \o (IF Mode = "all" THEN ToJson([mode |-> gm, ops |-> hist]) ELSE ToJson(hist)))
=============================================================================
