SPECIFICATION ISpec
CONSTANTS
  Procs = {1,2}
  Objs = {1}
  Keys = {1}
  MaxCalls = 2
  Variant = "keeperr"
  Algo = "sf"
INVARIANTS CallEndOK
CHECK_DEADLOCK TRUE
