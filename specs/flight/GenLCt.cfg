SPECIFICATION GSpec
CONSTANTS
  Mode = "lc"
  Objs = {1}
  Keys = {1,2}
  D = 7
  Outcomes = {"ok","err","panic"}
  Hooks = FALSE
INVARIANTS PrintHist
CHECK_DEADLOCK FALSE
