SPECIFICATION ISpec
CONSTANTS
  Procs = {1,2}
  Keys = {1}
  MaxCalls = 2
  Variant = "nocheck"
  Algo = "rm"
INVARIANTS FnEndOK
CHECK_DEADLOCK TRUE
