------------------------------- MODULE Flight -------------------------------
(* Layer P for property C07: what callers of syncx.SingleFlight / LockedCalls /
   ResourceManager (and of the consumers collection.Cache.Take, cacheNode.Take) may
   observe, phrased only over harness-visible events:

     callStart(c,o,k) logged before the library is invoked   (c = unique call id, o = the object -
                      SingleFlight / LockedCalls / ResourceManager / cache instance - it is invoked on)
     fnStart(c)       first statement of the function supplied by call c
     fnEnd(c,v,err)   last statement of that function (v = value, err = error code, 0 = nil)
     fnPanic(c)       the supplied function panics
     callEnd(c,v,err,fresh) / callPanic(c)   logged after the library returned / panicked
     blocked(c)       the harness saw call c parked inside the library (not in its fn)
                      at a moment when no goroutine of the experiment could run

   An execution is identified by the call that runs it (its leading call).  A call runs
   its function at most once.

   Objects.  Every clause of the property is a promise of ONE object about the keys handed to
   that object: "the key" of a call is the pair <<object, key string>> (KeyOf).  Two objects that
   are given the same key string are as unrelated as two different keys of one object: their
   executions may overlap, their calls never wait for each other (CanBlocked), a caller is never
   handed the result of an execution that was started through another object (Shared), and a
   ResourceManager's "same instance for everyone" / "created successfully at most once" is
   about the resources of that manager (cached is indexed by <<object, key>>; Inject / Del act
   on one object).  `mode` selects the component:
     "sf"   SingleFlight.Do/DoEx     "lc"  LockedCalls.Do
     "rm"   ResourceManager.GetResource (fn = create)
     "take" a cache in front of a SingleFlight (fn = fetch/query; successful results are cached)

   The property, clause by clause:
     * at most one execution per key at a time            -> guard of PFnStart (sf, lc, take)
     * a caller gets its own execution's (v,err) or that of an execution whose leading
       call overlaps its own call; never one retained from a call that had returned
                                                          -> eligible[c] and CanCallEnd
     * exactly one caller per execution is reported fresh -> fresh <=> the call executed
     * LockedCalls: own function exactly once, own result -> CanCallEnd, mode "lc"
     * calls on different keys never wait for each other  -> CanBlocked
     * ResourceManager: at most one successful create per key, same instance to everyone
                                                          -> CanFnEnd / CanCallEnd, mode "rm" *)
EXTENDS Integers, FiniteSets, Sequences, TLC

VARIABLES
  mode,      \* "sf" | "lc" | "rm" | "take"
  open,      \* open call |-> [o |-> object, k |-> key, c0 |-> value cached for <<o,k>> when the call started (0 = none)]
  ran,       \* open calls that have started their function
  running,   \* calls whose function is executing now
  result,    \* finished execution (= leading call) still of interest |-> [r |-> [v, err], k |-> its key]
  eligible,  \* open call c |-> executions whose leading call was open at some moment of c's call
  cached     \* <<object, key>> |-> value held by that object's cache / resource map ("rm", "take")

pvars == <<mode, open, ran, running, result, eligible, cached>>

Res(v, e) == [v |-> v, err |-> e]
Panic == Res(-1, -1)                       \* "result" of an execution that panicked
Calls == DOMAIN open
KeyOf(c) == <<open[c].o, open[c].k>>       \* the key of a call: per object
Restrict(f, S) == [x \in S |-> f[x]]
Excl == mode \in {"sf", "lc", "take"}      \* components that promise per-key exclusion of executions

PInit(m) ==
  /\ mode = m /\ open = <<>> /\ ran = {} /\ running = {}
  /\ result = <<>> /\ eligible = <<>> /\ cached = <<>>

PReset(m) ==
  /\ mode' = m /\ open' = <<>> /\ ran' = {} /\ running' = {}
  /\ result' = <<>> /\ eligible' = <<>> /\ cached' = <<>>

---------------------------------------------------------------------------
CanCallStart(c, o, k) == c \notin Calls /\ c \notin DOMAIN result
PCallStart(c, o, k) ==
  /\ open' = (c :> [o |-> o, k |-> k, c0 |-> IF <<o, k>> \in DOMAIN cached THEN cached[<<o, k>>] ELSE 0]) @@ open
  /\ eligible' = (c :> ran) @@ eligible          \* ran \subseteq Calls: executions led by calls open now
  /\ UNCHANGED <<mode, ran, running, result, cached>>

\* at most one execution of the supplied function per key at any time
CanFnStart(c) ==
  /\ c \in Calls /\ c \notin ran
  /\ Excl => \A x \in running : KeyOf(x) # KeyOf(c)
PFnStart(c) ==
  /\ ran' = ran \cup {c}
  /\ running' = running \cup {c}
  /\ eligible' = [d \in Calls |-> eligible[d] \cup {c}]   \* its leader c is open now: eligible for every open call
  /\ UNCHANGED <<mode, open, result, cached>>

\* ResourceManager: a key is created successfully at most once
CanFnEnd(c, v, e) ==
  /\ c \in running
  /\ (mode = "rm" /\ e = 0) => KeyOf(c) \notin DOMAIN cached
PFnEnd(c, v, e) ==
  /\ running' = running \ {c}
  /\ result' = (c :> [r |-> Res(v, e), k |-> KeyOf(c)]) @@ result
  /\ cached' = IF mode \in {"rm", "take"} /\ e = 0 THEN (KeyOf(c) :> v) @@ cached ELSE cached
  /\ UNCHANGED <<mode, open, ran, eligible>>

CanFnPanic(c) == c \in running
PFnPanic(c) ==
  /\ running' = running \ {c}
  /\ result' = (c :> [r |-> Panic, k |-> KeyOf(c)]) @@ result
  /\ UNCHANGED <<mode, open, ran, eligible, cached>>

\* the result of some finished execution FOR THE SAME KEY, other than c's own, whose leading call
\* overlapped c's call (what the joiner of a panicked execution receives is not constrained)
Shared(c, r) == \E x \in eligible[c] \ {c} :
                   /\ x \in DOMAIN result /\ result[x].k = KeyOf(c)
                   /\ (result[x].r = r \/ result[x].r = Panic)
Own(c, r) == c \in ran /\ c \in DOMAIN result /\ result[c].r = r

\* fresh: 1 = reported fresh, 0 = reported not fresh, 2 = not reported (Do, GetResource, Take)
CanCallEnd(c, v, e, fresh) ==
  /\ c \in Calls /\ c \notin running
  /\ LET r == Res(v, e) IN
     CASE mode = "sf"   -> IF c \in ran THEN Own(c, r) /\ fresh \in {1, 2}
                                        ELSE Shared(c, r) /\ fresh \in {0, 2}
       [] mode = "lc"   -> Own(c, r)
       [] mode = "rm"   -> IF e = 0 THEN KeyOf(c) \in DOMAIN cached /\ cached[KeyOf(c)] = v
                           ELSE IF c \in ran THEN Own(c, r) ELSE Shared(c, r)
       [] mode = "take" -> IF c \in ran THEN Own(c, r)
                           ELSE Shared(c, r) \/ (e = 0 /\ v # 0 /\ v = open[c].c0)

PClose(c) ==
  LET rest == Calls \ {c} IN
  /\ open' = Restrict(open, rest)
  /\ ran' = ran \ {c}
  /\ eligible' = Restrict(eligible, rest)
  /\ result' = Restrict(result, {x \in DOMAIN result : x \in rest \/ \E d \in rest : x \in eligible[d]})
  /\ UNCHANGED <<mode, running, cached>>
PCallEnd(c) == PClose(c)

CanCallPanic(c) == c \in Calls /\ c \notin running /\ Own(c, Panic)
PCallPanic(c) == PClose(c)

\* a call may be parked inside the library only behind an execution for the SAME key OF THE SAME OBJECT whose leading
\* call is still open (at rest that execution is running - unless the harness holds its leader at
\* a hook point between fn's return and wg.Done)
CanBlocked(c) ==
  /\ c \in Calls /\ c \notin running
  /\ \E x \in ran : x # c /\ KeyOf(x) = KeyOf(c)

\* cache / resource-map maintenance of object o, performed by the harness only while no call on
\* <<o,k>> is open (calls on the same key string of ANOTHER object may be open: they are unaffected)
CanDel(o, k) == \A c \in Calls : KeyOf(c) # <<o, k>>
PDel(o, k) == /\ cached' = Restrict(cached, DOMAIN cached \ {<<o, k>>})
              /\ UNCHANGED <<mode, open, ran, running, result, eligible>>
PInject(o, k, v) == /\ cached' = (<<o, k>> :> v) @@ cached
                    /\ UNCHANGED <<mode, open, ran, running, result, eligible>>

---------------------------------------------------------------------------
\* sanity invariants of the abstract machine (hold by construction)
OneExecPerKey == Excl => \A x, y \in running : x # y => KeyOf(x) # KeyOf(y)
WellFormed == /\ running \subseteq ran /\ ran \subseteq Calls
              /\ DOMAIN eligible = Calls
              /\ \A c \in Calls \ running : c \in ran => c \in DOMAIN result
=============================================================================
