-------------------------- MODULE LockedCallsImpl ---------------------------
(* Layer I: core/syncx/lockedcalls.go (lockedGroup: mutex, map key -> *WaitGroup of the
   running call; Do loops "wait for the running call, then look again"; makeCall
   registers under the lock, runs fn, deletes the entry under the lock, then wg.Done).
   One action per critical section / blocking point; every process performs MaxCalls
   calls in sequence on freely chosen keys.  Checked against Layer P (Flight.tla, mode
   "lc"): executions of one key never overlap, every call runs its own fn exactly once
   and returns its own result, a waiter only waits for its own key, nobody waits forever.

   Variant = "ok"      the code as it is
             "swap"    wg.Done before delete(m,key): waiters spin through the loop until the
                       entry is gone - wasteful but still satisfies C07
             "nogoto"  after wg.Wait the caller registers itself without looking again
                       (two waiters of one runner then execute together)
             "shared"  all objects (Objs: the LockedCalls instances the callers use) are backed by one
                       map indexed by the key string alone: a call on object B waits for object A's
                       execution of the same key string

   Objects: every call is made on one object of Objs; the map m of the code as it is belongs to
   the object (index <<object, key>>).                                           *)
EXTENDS Flight

CONSTANTS Procs, Objs, Keys, MaxCalls, Variant

VARIABLES
  pc, n, key, obj, rv,
  mgr,     \* the object the current call of a process is made on
  m,       \* lockedGroup.m: <<object, key>> |-> wait group (identified by the call that created it)
  wg       \* wait group |-> counter

ivars == <<pc, n, key, obj, rv, mgr, m, wg>>
vars == <<pvars, ivars>>

Cid(p) == p * 10 + n[p]
None == [v |-> 0, err |-> 0]
FKey(p) == IF Variant = "shared" THEN key[p] ELSE <<mgr[p], key[p]>>   \* index into m

IInit ==
  /\ PInit("lc")
  /\ pc = [p \in Procs |-> "idle"] /\ n = [p \in Procs |-> 0]
  /\ key = [p \in Procs |-> 0] /\ obj = [p \in Procs |-> 0] /\ rv = [p \in Procs |-> None]
  /\ m = <<>> /\ wg = <<>> /\ mgr = [p \in Procs |-> 0]

Goto(p, lbl) == pc' = [pc EXCEPT ![p] = lbl]

Begin(p) ==
  /\ pc[p] = "idle" /\ n[p] < MaxCalls
  /\ \E o \in Objs, k \in Keys : /\ key' = [key EXCEPT ![p] = k] /\ mgr' = [mgr EXCEPT ![p] = o]
                                /\ PCallStart(Cid(p), o, k)
  /\ Goto(p, "check")
  /\ UNCHANGED <<n, obj, rv, m, wg>>

Register(p) ==
  /\ m' = (FKey(p) :> Cid(p)) @@ m
  /\ wg' = (Cid(p) :> 1) @@ wg
  /\ obj' = [obj EXCEPT ![p] = Cid(p)]
  /\ Goto(p, "exec")

\* begin: lock; someone running for the key -> unlock and wait; else makeCall registers and unlocks
Check(p) ==
  /\ pc[p] = "check"
  /\ IF FKey(p) \in DOMAIN m
       THEN obj' = [obj EXCEPT ![p] = m[FKey(p)]] /\ Goto(p, "wait") /\ UNCHANGED <<m, wg>>
       ELSE Register(p)
  /\ UNCHANGED <<mgr, pvars, n, key, rv>>

\* wg.Wait() returned; goto begin
Wait(p) ==
  /\ pc[p] = "wait" /\ wg[obj[p]] = 0
  /\ Goto(p, IF Variant = "nogoto" THEN "force" ELSE "check")
  /\ UNCHANGED <<mgr, pvars, n, key, obj, rv, m, wg>>

Force(p) ==       \* only in the "nogoto" variant: lock; makeCall
  /\ pc[p] = "force" /\ Register(p)
  /\ UNCHANGED <<mgr, pvars, n, key, rv>>

FnStart(p) ==
  /\ pc[p] = "exec"
  /\ PFnStart(Cid(p))
  /\ Goto(p, "fn")
  /\ UNCHANGED <<mgr, n, key, obj, rv, m, wg>>

FnEnd(p) ==
  /\ pc[p] = "fn"
  /\ \E ok \in BOOLEAN :
       LET v == IF ok THEN Cid(p) ELSE 0
           e == IF ok THEN 0 ELSE Cid(p) IN
       /\ PFnEnd(Cid(p), v, e)
       /\ rv' = [rv EXCEPT ![p] = [v |-> v, err |-> e]]
  /\ Goto(p, "del")
  /\ UNCHANGED <<mgr, n, key, obj, m, wg>>

\* deferred: delete under lock, then Done ("swap": the other way round)
Del(p) ==
  /\ pc[p] = "del"
  /\ IF Variant = "swap"
       THEN wg' = [wg EXCEPT ![obj[p]] = 0] /\ UNCHANGED m
       ELSE m' = Restrict(m, DOMAIN m \ {FKey(p)}) /\ UNCHANGED wg
  /\ Goto(p, "done")
  /\ UNCHANGED <<mgr, pvars, n, key, obj, rv>>

Done(p) ==
  /\ pc[p] = "done"
  /\ IF Variant = "swap"
       THEN m' = Restrict(m, DOMAIN m \ {FKey(p)}) /\ UNCHANGED wg
       ELSE wg' = [wg EXCEPT ![obj[p]] = 0] /\ UNCHANGED m
  /\ Goto(p, "ret")
  /\ UNCHANGED <<mgr, pvars, n, key, obj, rv>>

Ret(p) ==
  /\ pc[p] = "ret"
  /\ PCallEnd(Cid(p))
  /\ n' = [n EXCEPT ![p] = @ + 1]
  /\ rv' = [rv EXCEPT ![p] = None]
  /\ Goto(p, "idle")
  /\ UNCHANGED <<mgr, key, obj, m, wg>>

Terminated == \A p \in Procs : pc[p] = "idle" /\ n[p] = MaxCalls
INext == \/ \E p \in Procs : \/ Begin(p) \/ Check(p) \/ Wait(p) \/ Force(p)
                             \/ FnStart(p) \/ FnEnd(p) \/ Del(p) \/ Done(p) \/ Ret(p)
         \/ Terminated /\ UNCHANGED vars
ISpec == IInit /\ [][INext]_vars

---------------------------------------------------------------------------
FnStartOK == \A p \in Procs : pc[p] = "exec" => CanFnStart(Cid(p))
CallEndOK == \A p \in Procs : pc[p] = "ret" => CanCallEnd(Cid(p), rv[p].v, rv[p].err, 2)
\* a caller is parked only behind a registered call of its own key
WaitOK    == \A p \in Procs : (pc[p] = "wait" /\ wg[obj[p]] > 0) =>
               \E q \in Procs : q # p /\ key[q] = key[p] /\ mgr[q] = mgr[p] /\ obj[q] = obj[p]
                                /\ pc[q] \in {"exec", "fn", "del", "done"}
=============================================================================
