SPECIFICATION GSpec
CONSTANTS
  Mode = "sf"
  Objs = {1}
  Keys = {1,2}
  D = 6
  Outcomes = {"ok","err","panic"}
  Hooks = FALSE
INVARIANTS PrintHist
CHECK_DEADLOCK FALSE
