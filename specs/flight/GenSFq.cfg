SPECIFICATION GSpec
CONSTANTS
  Mode = "sf"
  Keys = {1,2}
  D = 6
  Outcomes = {"ok","err","panic"}
  Hooks = FALSE
INVARIANTS PrintHist
CHECK_DEADLOCK FALSE
