SPECIFICATION TSpec
CONSTRAINT HW
INVARIANTS OneExecPerKey WellFormed
POSTCONDITION Accepted
CHECK_DEADLOCK FALSE
