SPECIFICATION ISpec
CONSTANTS
  Procs = {1,2}
  Objs = {1,2}
  Keys = {1}
  MaxCalls = 2
  Variant = "shared"
  Algo = "rm"
INVARIANTS CallEndOK
CHECK_DEADLOCK TRUE
