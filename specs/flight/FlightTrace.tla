---------------------------- MODULE FlightTrace ----------------------------
(* Trace validation for C07: the events a driver recorded from the real
   syncx.SingleFlight / LockedCalls / ResourceManager, collection.Cache.Take or
   cache.cacheNode.Take must be a behaviour of Flight.tla.  Every event is one
   deterministic Layer-P action; an event whose guard (Can...) is false is where the
   real code left the property.                                                    *)
EXTENDS Flight, TraceKit

VARIABLE l
tvars == <<mode, open, ran, running, result, eligible, cached, l>>

E == Trace[l]
\* the object an event is about; drivers that exercise a single object may omit the field
ObjOf(ev) == IF "o" \in DOMAIN ev THEN ev.o ELSE 1
IsEvent(e) == l <= Len(Trace) /\ E.e = e /\ l' = l + 1

TReset     == IsEvent("reset")     /\ PReset(E.mode)
TCallStart == IsEvent("callStart") /\ CanCallStart(E.c, ObjOf(E), E.k) /\ PCallStart(E.c, ObjOf(E), E.k)
TFnStart   == IsEvent("fnStart")   /\ CanFnStart(E.c)        /\ PFnStart(E.c)
TFnEnd     == IsEvent("fnEnd")     /\ CanFnEnd(E.c, E.v, E.err) /\ PFnEnd(E.c, E.v, E.err)
TFnPanic   == IsEvent("fnPanic")   /\ CanFnPanic(E.c)        /\ PFnPanic(E.c)
TCallEnd   == IsEvent("callEnd")   /\ CanCallEnd(E.c, E.v, E.err, E.fresh) /\ PCallEnd(E.c)
TCallPanic == IsEvent("callPanic") /\ CanCallPanic(E.c)      /\ PCallPanic(E.c)
TBlocked   == IsEvent("blocked")   /\ CanBlocked(E.c)        /\ UNCHANGED pvars
TDel       == IsEvent("del")       /\ CanDel(ObjOf(E), E.k) /\ PDel(ObjOf(E), E.k)
TInject    == IsEvent("inject")    /\ CanDel(ObjOf(E), E.k) /\ PInject(ObjOf(E), E.k, E.v)

TInit == PInit("sf") /\ l = 1
TNext == \/ TReset \/ TCallStart \/ TFnStart \/ TFnEnd \/ TFnPanic
         \/ TCallEnd \/ TCallPanic \/ TBlocked \/ TDel \/ TInject
TSpec == TInit /\ [][TNext]_tvars

HW == HighWater(l)
=============================================================================
