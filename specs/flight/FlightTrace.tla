---------------------------- MODULE FlightTrace ----------------------------
(* Trace validation for C07: the events a driver recorded from the real
   syncx.SingleFlight / LockedCalls / ResourceManager, collection.Cache.Take or
   cache.cacheNode.Take must be a behaviour of Flight.tla.  Every event is one
   deterministic Layer-P action; an event whose guard (Can...) is false is where the
   real code left the property.                                                    *)
EXTENDS Flight, TraceKit

VARIABLE l
tvars == <<mode, open, ran, running, result, eligible, cached, l>>

E == Trace[l]
IsEvent(e) == l <= Len(Trace) /\ E.e = e /\ l' = l + 1

TReset     == IsEvent("reset")     /\ PReset(E.mode)
TCallStart == IsEvent("callStart") /\ CanCallStart(E.c, E.k) /\ PCallStart(E.c, E.k)
TFnStart   == IsEvent("fnStart")   /\ CanFnStart(E.c)        /\ PFnStart(E.c)
TFnEnd     == IsEvent("fnEnd")     /\ CanFnEnd(E.c, E.v, E.err) /\ PFnEnd(E.c, E.v, E.err)
TFnPanic   == IsEvent("fnPanic")   /\ CanFnPanic(E.c)        /\ PFnPanic(E.c)
TCallEnd   == IsEvent("callEnd")   /\ CanCallEnd(E.c, E.v, E.err, E.fresh) /\ PCallEnd(E.c)
TCallPanic == IsEvent("callPanic") /\ CanCallPanic(E.c)      /\ PCallPanic(E.c)
TBlocked   == IsEvent("blocked")   /\ CanBlocked(E.c)        /\ UNCHANGED pvars
TDel       == IsEvent("del")       /\ CanDel(E.k)            /\ PDel(E.k)
TInject    == IsEvent("inject")    /\ CanDel(E.k)            /\ PInject(E.k, E.v)

TInit == PInit("sf") /\ l = 1
TNext == \/ TReset \/ TCallStart \/ TFnStart \/ TFnEnd \/ TFnPanic
         \/ TCallEnd \/ TCallPanic \/ TBlocked \/ TDel \/ TInject
TSpec == TInit /\ [][TNext]_tvars

HW == HighWater(l)
=============================================================================
