SPECIFICATION GSpec
CONSTANTS
  Mode = "take"
  Objs = {1,2}
  Keys = {1}
  D = 5
  Outcomes = {"ok","err"}
  Hooks = FALSE
INVARIANTS PrintHist
CHECK_DEADLOCK FALSE
