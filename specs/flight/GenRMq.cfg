SPECIFICATION GSpec
CONSTANTS
  Mode = "rm"
  Objs = {1}
  Keys = {1,2}
  D = 6
  Outcomes = {"ok","err"}
  Hooks = FALSE
INVARIANTS PrintHist
CHECK_DEADLOCK FALSE
