-------------------------- MODULE SingleFlightImpl --------------------------
(* Layer I: core/syncx/singleflight.go (flightGroup: mutex, calls map, per-call
   WaitGroup; createCall / makeCall with delete-under-lock before wg.Done) and, with
   Algo = "rm", core/syncx/resourcemanager.go on top of it (double-checked resource
   map, create only on a miss).  One action per critical section / blocking point.
   Every process performs MaxCalls calls one after the other on freely chosen keys.
   The implementation steps emit the Layer-P events of Flight.tla; TLC checks that the
   Layer-P guard of every emitted event holds (FnStartOK, FnEndOK, CallEndOK), i.e. that
   the algorithm satisfies C07, and that nobody waits forever (deadlock check).

   Variant = "ok"        the code as it is
             "swap"      wg.Done before delete(calls,key)   (still satisfies C07: the
                         leading call is open while a late joiner finds the entry)
             "keeperr"   entry not deleted when fn returned an error  (stale result)
             "racy"      createCall looks up and registers in two critical sections
             "nocheck"   (rm) create without consulting the resource map first
             "outercheck" (rm) the map is consulted before entering the flight instead of inside
                         it: a caller that missed while the first create ran creates again
             "shared"    all objects (Objs: the SingleFlight groups / ResourceManagers the callers use)
                         are backed by ONE calls map indexed by the key string alone, e.g. a
                         package-level flight group handed to every NewResourceManager(): a call on
                         object B joins the execution object A runs for the same key string, waits for
                         it and is handed A's value (for "rm": an instance B never stored)

   Objects: every call is made on one object of Objs with a key of Keys.  The calls map of the code
   as it is belongs to the object (index <<object, key>>), as does the resource map.                *)
EXTENDS Flight

CONSTANTS Procs, Objs, Keys, MaxCalls, Variant, Algo

VARIABLES
  pc, n, key, obj, rv, tmp,
  mgr,     \* the object (group / manager) the current call of a process is made on
  calls,   \* flightGroup.calls: <<object, key>> |-> call object (identified by the call that created it)
  wg,      \* call object |-> WaitGroup counter
  cval,    \* call object |-> [v, err] stored by makeCall
  res      \* ResourceManager.resources: <<object, key>> |-> instance

ivars == <<pc, n, key, obj, rv, tmp, mgr, calls, wg, cval, res>>
vars == <<pvars, ivars>>

Cid(p) == p * 10 + n[p]                  \* id of p's current call; also the value / error code it produces
None == [v |-> 0, err |-> 0, fresh |-> 2]
FKey(p) == IF Variant = "shared" THEN key[p] ELSE <<mgr[p], key[p]>>   \* index into the calls map
RKey(p) == <<mgr[p], key[p]>>                                          \* index into the resource map

IInit ==
  /\ PInit(IF Algo = "rm" THEN "rm" ELSE "sf")
  /\ pc = [p \in Procs |-> "idle"] /\ n = [p \in Procs |-> 0]
  /\ key = [p \in Procs |-> 0] /\ obj = [p \in Procs |-> 0]
  /\ rv = [p \in Procs |-> None] /\ tmp = [p \in Procs |-> 0] /\ mgr = [p \in Procs |-> 0]
  /\ calls = <<>> /\ wg = <<>> /\ cval = <<>> /\ res = <<>>

Goto(p, lbl) == pc' = [pc EXCEPT ![p] = lbl]

\* Do / DoEx / GetResource invoked
Begin(p) ==
  /\ pc[p] = "idle" /\ n[p] < MaxCalls
  /\ \E o \in Objs, k \in Keys : /\ key' = [key EXCEPT ![p] = k] /\ mgr' = [mgr EXCEPT ![p] = o]
                                /\ PCallStart(Cid(p), o, k)
  /\ Goto(p, IF Algo = "rm" /\ Variant = "outercheck" THEN "pre" ELSE "create")
  /\ UNCHANGED <<n, obj, rv, tmp, calls, wg, cval, res>>

PreCheck(p) ==     \* only in the "outercheck" variant
  /\ pc[p] = "pre"
  /\ IF RKey(p) \in DOMAIN res
       THEN rv' = [rv EXCEPT ![p] = [v |-> res[RKey(p)], err |-> 0, fresh |-> 2]] /\ Goto(p, "ret")
       ELSE Goto(p, "create") /\ UNCHANGED rv
  /\ UNCHANGED <<mgr, pvars, n, key, obj, tmp, calls, wg, cval, res>>

Register(p) ==
  /\ calls' = (FKey(p) :> Cid(p)) @@ calls
  /\ wg' = (Cid(p) :> 1) @@ wg
  /\ obj' = [obj EXCEPT ![p] = Cid(p)]
  /\ Goto(p, "exec")

\* createCall: one critical section under g.lock
CreateCall(p) ==
  /\ pc[p] = "create"
  /\ IF FKey(p) \in DOMAIN calls
       THEN /\ obj' = [obj EXCEPT ![p] = calls[FKey(p)]]
            /\ Goto(p, "wait")
            /\ UNCHANGED <<calls, wg>>
       ELSE IF Variant = "racy"
         THEN Goto(p, "insert") /\ UNCHANGED <<obj, calls, wg>>
         ELSE Register(p)
  /\ UNCHANGED <<mgr, pvars, n, key, rv, tmp, cval, res>>

Insert(p) ==      \* only in the "racy" variant: second critical section
  /\ pc[p] = "insert" /\ Register(p)
  /\ UNCHANGED <<mgr, pvars, n, key, rv, tmp, cval, res>>

\* c.wg.Wait() returned: the joiner reads c.val, c.err
Wait(p) ==
  /\ pc[p] = "wait" /\ wg[obj[p]] = 0
  /\ rv' = [rv EXCEPT ![p] = IF obj[p] \in DOMAIN cval
                              THEN [v |-> cval[obj[p]].v, err |-> cval[obj[p]].err, fresh |-> 0]
                              ELSE [v |-> 0, err |-> 0, fresh |-> 0]]
  /\ Goto(p, "ret")
  /\ UNCHANGED <<mgr, pvars, n, key, obj, tmp, calls, wg, cval, res>>

\* ResourceManager: the fn given to the flight first looks the key up under RLock
RmCheck(p) ==
  /\ pc[p] = "exec" /\ Algo = "rm"
  /\ IF RKey(p) \in DOMAIN res /\ Variant \notin {"nocheck", "outercheck"}
       THEN /\ cval' = (obj[p] :> Res(res[RKey(p)], 0)) @@ cval
            /\ Goto(p, "del")
       ELSE Goto(p, "fnstart") /\ UNCHANGED cval
  /\ UNCHANGED <<mgr, pvars, n, key, obj, rv, tmp, calls, wg, res>>

\* the supplied function (fn / create) starts
FnStart(p) ==
  /\ \/ pc[p] = "exec" /\ Algo = "sf"
     \/ pc[p] = "fnstart"
  /\ PFnStart(Cid(p))
  /\ Goto(p, "fn")
  /\ UNCHANGED <<mgr, n, key, obj, rv, tmp, calls, wg, cval, res>>

\* ... and returns a value or an error, distinct per execution;  c.val, c.err = fn()
FnEnd(p) ==
  /\ pc[p] = "fn"
  /\ \E ok \in BOOLEAN :
       LET v == IF ok THEN Cid(p) ELSE 0
           e == IF ok THEN 0 ELSE Cid(p) IN
       /\ PFnEnd(Cid(p), v, e)
       /\ IF Algo = "rm" /\ ok
            THEN /\ tmp' = [tmp EXCEPT ![p] = v] /\ Goto(p, "store") /\ UNCHANGED cval
            ELSE /\ cval' = (obj[p] :> Res(v, e)) @@ cval /\ Goto(p, "del") /\ UNCHANGED tmp
  /\ UNCHANGED <<mgr, n, key, obj, rv, calls, wg, res>>

\* ResourceManager: manager.resources[key] = resource under the write lock
Store(p) ==
  /\ pc[p] = "store"
  /\ res' = (RKey(p) :> tmp[p]) @@ res
  /\ cval' = (obj[p] :> Res(tmp[p], 0)) @@ cval
  /\ Goto(p, "del")
  /\ UNCHANGED <<mgr, pvars, n, key, obj, rv, tmp, calls, wg>>

Keep(p) == Variant = "keeperr" /\ cval[obj[p]].err # 0

\* makeCall's deferred function: delete under lock, then Done  ("swap": the other way round)
Del(p) ==
  /\ pc[p] = "del"
  /\ IF Variant = "swap"
       THEN wg' = [wg EXCEPT ![obj[p]] = 0] /\ UNCHANGED calls
       ELSE calls' = (IF Keep(p) THEN calls ELSE Restrict(calls, DOMAIN calls \ {FKey(p)})) /\ UNCHANGED wg
  /\ Goto(p, "done")
  /\ UNCHANGED <<mgr, pvars, n, key, obj, rv, tmp, cval, res>>

Done(p) ==
  /\ pc[p] = "done"
  /\ IF Variant = "swap"
       THEN calls' = Restrict(calls, DOMAIN calls \ {FKey(p)}) /\ UNCHANGED wg
       ELSE wg' = [wg EXCEPT ![obj[p]] = 0] /\ UNCHANGED calls
  /\ rv' = [rv EXCEPT ![p] = [v |-> cval[obj[p]].v, err |-> cval[obj[p]].err, fresh |-> 1]]
  /\ Goto(p, "ret")
  /\ UNCHANGED <<mgr, pvars, n, key, obj, tmp, cval, res>>

\* the call returns to its caller
Ret(p) ==
  /\ pc[p] = "ret"
  /\ PCallEnd(Cid(p))
  /\ n' = [n EXCEPT ![p] = @ + 1]
  /\ rv' = [rv EXCEPT ![p] = None]
  /\ Goto(p, "idle")
  /\ UNCHANGED <<mgr, key, obj, tmp, calls, wg, cval, res>>

Terminated == \A p \in Procs : pc[p] = "idle" /\ n[p] = MaxCalls
INext == \/ \E p \in Procs : \/ Begin(p) \/ PreCheck(p) \/ CreateCall(p) \/ Insert(p) \/ Wait(p) \/ RmCheck(p)
                             \/ FnStart(p) \/ FnEnd(p) \/ Store(p) \/ Del(p) \/ Done(p) \/ Ret(p)
         \/ Terminated /\ UNCHANGED vars
ISpec == IInit /\ [][INext]_vars

---------------------------------------------------------------------------
\* the implementation satisfies Layer P: every event it is about to emit is allowed there
FnStartOK == \A p \in Procs :
  (pc[p] = "fnstart" \/ (pc[p] = "exec" /\ Algo = "sf")) => CanFnStart(Cid(p))
FnEndOK   == \A p \in Procs : pc[p] = "fn" => CanFnEnd(Cid(p), Cid(p), 0)
CallEndOK == \A p \in Procs : pc[p] = "ret" => CanCallEnd(Cid(p), rv[p].v, rv[p].err, rv[p].fresh)
\* a joiner is parked only while an execution for its own key on its own object is registered
WaitOK    == \A p \in Procs : (pc[p] = "wait" /\ wg[obj[p]] > 0) =>
               \E q \in Procs : q # p /\ key[q] = key[p] /\ mgr[q] = mgr[p] /\ obj[q] = obj[p]
                                /\ pc[q] \in {"exec", "fnstart", "fn", "store", "del", "done"}
=============================================================================
