SPECIFICATION GSpec
CONSTANTS
  Mode = "all"
  Objs = {1,2}
  Keys = {1}
  D = 6
  Outcomes = {"ok","err","panic"}
  Hooks = FALSE
INVARIANTS PrintHist
CHECK_DEADLOCK FALSE
