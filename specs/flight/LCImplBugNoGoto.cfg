SPECIFICATION ISpec
CONSTANTS
  Procs = {1,2,3}
  Keys = {1}
  MaxCalls = 1
  Variant = "nogoto"
INVARIANTS FnStartOK
CHECK_DEADLOCK TRUE
