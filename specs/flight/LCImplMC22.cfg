SPECIFICATION ISpec
CONSTANTS
  Procs = {1,2}
  Objs = {1,2}
  Keys = {1,2}
  MaxCalls = 2
  Variant = "ok"
INVARIANTS FnStartOK CallEndOK WaitOK OneExecPerKey WellFormed
CHECK_DEADLOCK TRUE
