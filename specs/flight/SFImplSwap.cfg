SPECIFICATION ISpec
CONSTANTS
  Procs = {1,2,3}
  Objs = {1}
  Keys = {1}
  MaxCalls = 2
  Variant = "swap"
  Algo = "sf"
INVARIANTS FnStartOK FnEndOK CallEndOK OneExecPerKey WellFormed
CHECK_DEADLOCK TRUE
