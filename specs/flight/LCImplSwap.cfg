SPECIFICATION ISpec
CONSTANTS
  Procs = {1,2,3}
  Objs = {1}
  Keys = {1}
  MaxCalls = 1
  Variant = "swap"
INVARIANTS FnStartOK CallEndOK OneExecPerKey WellFormed
CHECK_DEADLOCK TRUE
