SPECIFICATION ISpec
CONSTANTS
  Procs = {1,2}
  Objs = {1}
  Keys = {1}
  MaxCalls = 2
  Variant = "outercheck"
  Algo = "rm"
INVARIANTS FnEndOK
CHECK_DEADLOCK TRUE
