SPECIFICATION ISpec
CONSTANTS
  Procs = {1,2}
  Objs = {1,2}
  Keys = {1}
  MaxCalls = 1
  Variant = "shared"
INVARIANTS WaitOK
CHECK_DEADLOCK TRUE
