SPECIFICATION ISpec
CONSTANTS
  Procs = {1,2}
  Keys = {1}
  MaxCalls = 1
  Variant = "racy"
  Algo = "sf"
INVARIANTS FnStartOK
CHECK_DEADLOCK TRUE
