SPECIFICATION GSpec
CONSTANTS
  Mode = "lc"
  Objs = {1}
  Keys = {1,2}
  D = 5
  Outcomes = {"ok","err","panic"}
  Hooks = TRUE
INVARIANTS PrintHist
CHECK_DEADLOCK FALSE
