SPECIFICATION GSpec
CONSTANTS
  Mode = "take"
  Objs = {1}
  Keys = {1,2}
  D = 7
  Outcomes = {"ok","err"}
  Hooks = FALSE
INVARIANTS PrintHist
CHECK_DEADLOCK FALSE
