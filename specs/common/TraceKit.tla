------------------------------ MODULE TraceKit ------------------------------
(* Plumbing shared by every *Trace.tla module: the recorded ndjson trace, the
   line cursor, the high-water mark used by the acceptance postcondition, and the
   set of known-finding deviations the runner enabled for this validation run.   *)
EXTENDS Integers, Sequences, FiniteSets, TLC, Json, IOUtils

Trace == ndJsonDeserialize(IOEnv.TRACE)

\* ids of the known-finding deviation actions the runner enabled for this run
\* (file written by the runner: {"open": ["KF_x", ...]}; empty on the first pass)
SeqToSet(s) == {s[i] : i \in DOMAIN s}
OpenFindings == SeqToSet(JsonDeserialize(IOEnv.FINDINGS).open)

ASSUME TLCSet(1, 0)

\* CONSTRAINT: remembers the largest cursor value reached by any explored state
HighWater(l) == TLCSet(1, IF TLCGet(1) < l THEN l ELSE TLCGet(1))

\* POSTCONDITION: every line was consumed on some path
Accepted ==
  IF TLCGet(1) > Len(Trace) THEN TRUE
  ELSE Print(<<"HW", TLCGet(1), Trace[TLCGet(1)]>>, FALSE)

=============================================================================
