----------------------------- MODULE MQueueImpl -----------------------------
(* Layer I: core/queue/queue.go as written, against the guards of MQueue.tla.

     Start():   startProducers(P); startConsumers(C); producerRoutineGroup.Wait(); close(channel);
                consumerRoutineGroup.Wait()
     produce(): producer := factory() (retried); atomic.AddInt32(&active, 1); producer.AddListener(..);
                for { select { case <-quit: return; default: if v, ok := produceOne(producer); ok { channel <- v } } }
     consume(): consumer := factory() (retried);
                for { select { case m, ok := <-channel: if ok { consumeOne(m) } else { return }
                               case ev := <-eventChan: consumer.OnEvent(ev) } }
     Stop():    close(quit)
     Broadcast(m): go func() { eventLock.Lock(); for each eventChan { eventChan <- m }; eventLock.Unlock() }()
     OnProducerPause():  if atomic.AddInt32(&active, -1) <= 0 { for each listener { OnPause() } }
     OnProducerResume(): if atomic.AddInt32(&active, 1) == 1 { for each listener { OnResume() } }

   channel and the event channels are unbuffered: a send and a receive are one joint step (LHandoff, LBSend).
   A select with several ready cases takes any of them.  Producer / consumer i is the goroutine that the factory's
   i-th ... (ids are simply the goroutine numbers); event channel i belongs to consumer i.

   Environment (harness): Start, Stop, Broadcast, the pause / resume calls, and the moments at which the gated
   callbacks Produce / Consume / OnEvent finish and with which outcome.  Bounds: MaxProd Produce calls in all
   (a producer that finds the budget used up idles in front of its select until quit is closed -- it stands for
   Produce calls that keep returning ok = false), NB broadcasts, MaxTog pause / resume calls, MaxFail factory errors.

   Mode = "free": everything interleaves (model checking).
   Mode = "rtc":  the environment moves only when the library cannot (generation of environment schedules; hist).
   SeqCalls:      pause / resume calls come one at a time and only once all producers have been created.
   Variant = "ok" | "nodrain" (Start does not wait for the consumers) | "nowaitp" (Start closes the channel without
             waiting for the producers) | "nolock" (Broadcast without the event lock) | "resumecmp" (resume
             tells the listeners whenever the counter is >= 1 afterwards)
   A step whose Layer-P guard fails is recorded in viol (invariant Refines) and the run is not continued.        *)
EXTENDS MQueue, Json

CONSTANTS P, C, L, MaxProd, NB, MaxTog, MaxFail, Variant, Mode, SeqCalls, Emit, MinCmd

VARIABLES
  spc,            \* Start: "idle" | "spawn" | "waitp" | "close" | "waitc" | "ret" | "end"
  quit, closed,   \* close(quit) / close(channel) happened
  ppc, pval,      \* producer: "none" | "fac" | "inc" | "reg" | "loop" | "call" | "busy" | "send" | "end"; message to send
  cpc, cval,      \* consumer: "none" | "fac" | "sel" | "gotmsg" | "busy" | "gotev" | "inev" | "end"; message / event held
  iact,           \* q.active
  tpc, tk, ipaused,  \* pause / resume call of producer p: "idle" | "add" | "notify" | "ret"; next listener; paused flag
  tkind,
  elock, bpc, bidx,  \* event lock holder (0 = free); broadcast goroutine: "idle" | "lock" | "send" | "end"; next channel
  stpc,           \* Stop: "idle" | "close" | "ret" | "end"
  nprod, nmsg, nfail, ntog,
  viol, hist, ncmd

ivars == <<spc, quit, closed, ppc, pval, cpc, cval, iact, tpc, tk, ipaused, tkind, elock, bpc, bidx, stpc,
           nprod, nmsg, nfail, ntog>>
vars == <<qvars, ivars, viol, hist, ncmd>>
Ps == 1..P
Cs == 1..C
Bs == 1..NB

IInit ==
  /\ QStartWith(P, C, L)
  /\ spc = "idle" /\ quit = FALSE /\ closed = FALSE
  /\ ppc = [p \in Ps |-> "none"] /\ pval = [p \in Ps |-> 0]
  /\ cpc = [c \in Cs |-> "none"] /\ cval = [c \in Cs |-> 0]
  /\ iact = 0 /\ tpc = [p \in Ps |-> "idle"] /\ tk = [p \in Ps |-> 0] /\ ipaused = [p \in Ps |-> FALSE]
  /\ tkind = [p \in Ps |-> "pause"]
  /\ elock = 0 /\ bpc = [b \in Bs |-> "idle"] /\ bidx = [b \in Bs |-> 0]
  /\ stpc = "idle" /\ nprod = 0 /\ nmsg = 0 /\ nfail = 0 /\ ntog = 0
  /\ viol = "" /\ hist = <<>> /\ ncmd = 0

Obs(name, ok) == viol' = IF viol = "" /\ ~ok THEN name ELSE viol
\* an observable step: the Layer-P guard is recorded, the Layer-P effect applied (when the guard holds)
Step(name, ok, eff) == Obs(name, ok) /\ IF ok THEN eff ELSE UNCHANGED qvars
Silent == UNCHANGED <<qvars, viol>>
Log(r) == hist' = IF Mode = "rtc" THEN Append(hist, r) ELSE hist
NoLog == UNCHANGED hist
Cmd == ncmd' = ncmd + 1
NoCmd == UNCHANGED ncmd
Lib == NoLog /\ NoCmd

\* ------------------------------------------------------------------ Start
EStartCall ==
  /\ spc = "idle" /\ spc' = "spawn"
  /\ Step("startCall", StartCallOK, StartCallEff)
  /\ Log([cmd |-> "start"]) /\ Cmd
  /\ UNCHANGED <<quit, closed, ppc, pval, cpc, cval, iact, tpc, tk, ipaused, tkind, elock, bpc, bidx, stpc,
                 nprod, nmsg, nfail, ntog>>

LSpawn ==
  /\ spc = "spawn" /\ spc' = "waitp"
  /\ ppc' = [p \in Ps |-> "fac"] /\ cpc' = [c \in Cs |-> "fac"]
  /\ Silent /\ Lib
  /\ UNCHANGED <<quit, closed, pval, cval, iact, tpc, tk, ipaused, tkind, elock, bpc, bidx, stpc,
                 nprod, nmsg, nfail, ntog>>

LWaitP ==
  /\ spc = "waitp" /\ spc' = "close"
  /\ Variant = "nowaitp" \/ \A p \in Ps : ppc[p] = "end"
  /\ Silent /\ Lib
  /\ UNCHANGED <<quit, closed, ppc, pval, cpc, cval, iact, tpc, tk, ipaused, tkind, elock, bpc, bidx, stpc,
                 nprod, nmsg, nfail, ntog>>

LClose ==
  /\ spc = "close" /\ spc' = "waitc" /\ closed' = TRUE
  /\ Silent /\ Lib
  /\ UNCHANGED <<quit, ppc, pval, cpc, cval, iact, tpc, tk, ipaused, tkind, elock, bpc, bidx, stpc,
                 nprod, nmsg, nfail, ntog>>

LWaitC ==
  /\ spc = "waitc" /\ spc' = "ret"
  /\ Variant = "nodrain" \/ \A c \in Cs : cpc[c] = "end"
  /\ Silent /\ Lib
  /\ UNCHANGED <<quit, closed, ppc, pval, cpc, cval, iact, tpc, tk, ipaused, tkind, elock, bpc, bidx, stpc,
                 nprod, nmsg, nfail, ntog>>

LStartRet ==
  /\ spc = "ret" /\ spc' = "end"
  /\ Step("startRet", StartRetOK, StartRetEff)
  /\ Lib
  /\ UNCHANGED <<quit, closed, ppc, pval, cpc, cval, iact, tpc, tk, ipaused, tkind, elock, bpc, bidx, stpc,
                 nprod, nmsg, nfail, ntog>>

\* ------------------------------------------------------------------ Stop
AllConsumersUp == \A c \in Cs : cpc[c] \notin {"none", "fac"}
EStopStart ==
  /\ stpc = "idle" /\ stpc' = "close"
  /\ AllDelivered /\ \A b \in Bs : bpc[b] \in {"idle", "end"}                   \* premise of the harness
  /\ Step("stopStart", StopStartOK, StopStartEff)
  /\ Log([cmd |-> "stop"]) /\ Cmd
  /\ UNCHANGED <<spc, quit, closed, ppc, pval, cpc, cval, iact, tpc, tk, ipaused, tkind, elock, bpc, bidx,
                 nprod, nmsg, nfail, ntog>>

LStopClose ==
  /\ stpc = "close" /\ stpc' = "ret" /\ quit' = TRUE
  /\ Silent /\ Lib
  /\ UNCHANGED <<spc, closed, ppc, pval, cpc, cval, iact, tpc, tk, ipaused, tkind, elock, bpc, bidx,
                 nprod, nmsg, nfail, ntog>>

LStopEnd ==
  /\ stpc = "ret" /\ stpc' = "end"
  /\ Step("stopEnd", StopEndOK, StopEndEff)
  /\ Lib
  /\ UNCHANGED <<spc, quit, closed, ppc, pval, cpc, cval, iact, tpc, tk, ipaused, tkind, elock, bpc, bidx,
                 nprod, nmsg, nfail, ntog>>

\* ------------------------------------------------------------------ producers
LPFac(p, ok) ==
  /\ ppc[p] = "fac"
  /\ IF ok THEN /\ ppc' = [ppc EXCEPT ![p] = "inc"] /\ Step("pNew", PNewOK(p), PNewEff(p)) /\ UNCHANGED nfail
           ELSE /\ nfail < MaxFail /\ nfail' = nfail + 1 /\ Step("pfail", PFailOK, FailEff) /\ UNCHANGED ppc
  /\ Lib
  /\ UNCHANGED <<spc, quit, closed, pval, cpc, cval, iact, tpc, tk, ipaused, tkind, elock, bpc, bidx, stpc,
                 nprod, nmsg, ntog>>

LPInc(p) ==
  /\ ppc[p] = "inc" /\ ppc' = [ppc EXCEPT ![p] = "reg"] /\ iact' = iact + 1
  /\ Step("pInc", PIncOK(p), PIncEff(p))
  /\ Lib
  /\ UNCHANGED <<spc, quit, closed, pval, cpc, cval, tpc, tk, ipaused, tkind, elock, bpc, bidx, stpc,
                 nprod, nmsg, nfail, ntog>>

LPReg(p) ==
  /\ ppc[p] = "reg" /\ ppc' = [ppc EXCEPT ![p] = "loop"]
  /\ Step("pReg", PRegOK(p), PRegEff(p))
  /\ Lib
  /\ UNCHANGED <<spc, quit, closed, pval, cpc, cval, iact, tpc, tk, ipaused, tkind, elock, bpc, bidx, stpc,
                 nprod, nmsg, nfail, ntog>>

\* select { case <-quit: return; default: ... }
LPLoop(p) ==
  /\ ppc[p] = "loop"
  /\ IF quit THEN ppc' = [ppc EXCEPT ![p] = "end"] /\ UNCHANGED nprod
             ELSE nprod < MaxProd /\ nprod' = nprod + 1 /\ ppc' = [ppc EXCEPT ![p] = "call"]
  /\ Silent /\ Lib
  /\ UNCHANGED <<spc, quit, closed, pval, cpc, cval, iact, tpc, tk, ipaused, tkind, elock, bpc, bidx, stpc,
                 nmsg, nfail, ntog>>

LPCall(p) ==
  /\ ppc[p] = "call" /\ ppc' = [ppc EXCEPT ![p] = "busy"]
  /\ Step("prodStart", ProdStartOK(p), ProdStartEff(p))
  /\ Lib
  /\ UNCHANGED <<spc, quit, closed, pval, cpc, cval, iact, tpc, tk, ipaused, tkind, elock, bpc, bidx, stpc,
                 nprod, nmsg, nfail, ntog>>

EProdEnd(p, out) ==
  /\ ppc[p] = "busy"
  /\ LET m == IF out = "msg" THEN nmsg + 1 ELSE 0 IN
       /\ nmsg' = IF out = "msg" THEN nmsg + 1 ELSE nmsg
       /\ pval' = [pval EXCEPT ![p] = m]
       /\ ppc' = [ppc EXCEPT ![p] = IF out = "msg" THEN "send" ELSE "loop"]
       /\ Step("prodEnd", ProdEndOK(p, out, m), ProdEndEff(p, out, m))
       /\ Log([cmd |-> "prodEnd", p |-> p, out |-> out]) /\ Cmd
  /\ UNCHANGED <<spc, quit, closed, cpc, cval, iact, tpc, tk, ipaused, tkind, elock, bpc, bidx, stpc,
                 nprod, nfail, ntog>>

\* channel <- v meets case m := <-channel
LHandoff(p, c) ==
  /\ ppc[p] = "send" /\ cpc[c] = "sel" /\ ~closed
  /\ ppc' = [ppc EXCEPT ![p] = "loop"] /\ cpc' = [cpc EXCEPT ![c] = "gotmsg"] /\ cval' = [cval EXCEPT ![c] = pval[p]]
  /\ Silent /\ Lib
  /\ UNCHANGED <<spc, quit, closed, pval, iact, tpc, tk, ipaused, tkind, elock, bpc, bidx, stpc,
                 nprod, nmsg, nfail, ntog>>

\* a send on the closed channel panics (only reachable in variant "nowaitp")
LSendClosed(p) ==
  /\ ppc[p] = "send" /\ closed /\ ppc' = [ppc EXCEPT ![p] = "end"]
  /\ Obs("sendOnClosedChannel", FALSE) /\ UNCHANGED qvars
  /\ Lib
  /\ UNCHANGED <<spc, quit, closed, pval, cpc, cval, iact, tpc, tk, ipaused, tkind, elock, bpc, bidx, stpc,
                 nprod, nmsg, nfail, ntog>>

\* ------------------------------------------------------------------ consumers
LCFac(c, ok) ==
  /\ cpc[c] = "fac"
  /\ IF ok THEN /\ cpc' = [cpc EXCEPT ![c] = "sel"] /\ Step("cNew", CNewOK(c), CNewEff(c)) /\ UNCHANGED nfail
           ELSE /\ nfail < MaxFail /\ nfail' = nfail + 1 /\ Step("cfail", CFailOK, FailEff) /\ UNCHANGED cpc
  /\ Lib
  /\ UNCHANGED <<spc, quit, closed, ppc, pval, cval, iact, tpc, tk, ipaused, tkind, elock, bpc, bidx, stpc,
                 nprod, nmsg, ntog>>

LConsStart(c) ==
  /\ cpc[c] = "gotmsg" /\ cpc' = [cpc EXCEPT ![c] = "busy"]
  /\ Step("consStart", ConsStartOK(c, cval[c]), ConsStartEff(c, cval[c]))
  /\ Lib
  /\ UNCHANGED <<spc, quit, closed, ppc, pval, cval, iact, tpc, tk, ipaused, tkind, elock, bpc, bidx, stpc,
                 nprod, nmsg, nfail, ntog>>

EConsEnd(c, out) ==
  /\ cpc[c] = "busy" /\ cpc' = [cpc EXCEPT ![c] = "sel"]
  /\ Step("consEnd", ConsEndOK(c, cval[c], out), ConsEndEff(c, cval[c]))
  /\ Log([cmd |-> "consEnd", m |-> cval[c], out |-> out]) /\ Cmd
  /\ UNCHANGED <<spc, quit, closed, ppc, pval, cval, iact, tpc, tk, ipaused, tkind, elock, bpc, bidx, stpc,
                 nprod, nmsg, nfail, ntog>>

\* case m, ok := <-channel with ok = false
LCClosed(c) ==
  /\ cpc[c] = "sel" /\ closed /\ cpc' = [cpc EXCEPT ![c] = "end"]
  /\ Silent /\ Lib
  /\ UNCHANGED <<spc, quit, closed, ppc, pval, cval, iact, tpc, tk, ipaused, tkind, elock, bpc, bidx, stpc,
                 nprod, nmsg, nfail, ntog>>

LOnEvent(c) ==
  /\ cpc[c] = "gotev" /\ cpc' = [cpc EXCEPT ![c] = "inev"]
  /\ Step("onEvent", OnEventOK(c, cval[c]), OnEventEff(c, cval[c]))
  /\ Lib
  /\ UNCHANGED <<spc, quit, closed, ppc, pval, cval, iact, tpc, tk, ipaused, tkind, elock, bpc, bidx, stpc,
                 nprod, nmsg, nfail, ntog>>

EEventEnd(c) ==
  /\ cpc[c] = "inev" /\ cpc' = [cpc EXCEPT ![c] = "sel"]
  /\ Step("eventEnd", EventEndOK(c, cval[c]), EventEndEff(c))
  /\ Log([cmd |-> "eventEnd", c |-> c]) /\ Cmd
  /\ UNCHANGED <<spc, quit, closed, ppc, pval, cval, iact, tpc, tk, ipaused, tkind, elock, bpc, bidx, stpc,
                 nprod, nmsg, nfail, ntog>>

\* ------------------------------------------------------------------ Broadcast
EBcast(b) ==
  /\ bpc[b] = "idle" /\ (b > 1 => bpc[b - 1] # "idle")
  /\ spc \notin {"idle", "spawn"} /\ AllConsumersUp /\ stpc = "idle"            \* premise of the harness
  /\ bpc' = [bpc EXCEPT ![b] = "lock"]
  /\ Step("bcast", BcastOK(b), BcastEff(b))
  /\ Log([cmd |-> "bcast", b |-> b]) /\ Cmd
  /\ UNCHANGED <<spc, quit, closed, ppc, pval, cpc, cval, iact, tpc, tk, ipaused, tkind, elock, bidx, stpc,
                 nprod, nmsg, nfail, ntog>>

LBLock(b) ==
  /\ bpc[b] = "lock" /\ (Variant = "nolock" \/ elock = 0)
  /\ bpc' = [bpc EXCEPT ![b] = IF C = 0 THEN "end" ELSE "send"] /\ bidx' = [bidx EXCEPT ![b] = 1]
  /\ elock' = IF Variant = "nolock" \/ C = 0 THEN elock ELSE b
  /\ Silent /\ Lib
  /\ UNCHANGED <<spc, quit, closed, ppc, pval, cpc, cval, iact, tpc, tk, ipaused, tkind, stpc,
                 nprod, nmsg, nfail, ntog>>

\* eventChan <- m meets case ev := <-eventChan ; after the last one the lock is released
LBSend(b) ==
  /\ bpc[b] = "send" /\ cpc[bidx[b]] = "sel"
  /\ cpc' = [cpc EXCEPT ![bidx[b]] = "gotev"] /\ cval' = [cval EXCEPT ![bidx[b]] = b]
  /\ IF bidx[b] = C THEN /\ bpc' = [bpc EXCEPT ![b] = "end"] /\ elock' = (IF Variant = "nolock" THEN elock ELSE 0)
                          /\ UNCHANGED bidx
                    ELSE /\ bidx' = [bidx EXCEPT ![b] = @ + 1] /\ UNCHANGED <<bpc, elock>>
  /\ Silent /\ Lib
  /\ UNCHANGED <<spc, quit, closed, ppc, pval, iact, tpc, tk, ipaused, tkind, stpc, nprod, nmsg, nfail, ntog>>

\* ------------------------------------------------------------------ pause / resume
AllCreated == \A q \in Ps : ppc[q] \notin {"none", "fac", "inc", "reg"}
EToggle(p) ==
  /\ tpc[p] = "idle" /\ ntog < MaxTog /\ ppc[p] \notin {"none", "fac", "inc", "reg"}
  /\ SeqCalls => (AllCreated /\ \A q \in Ps : tpc[q] = "idle")
  /\ LET kind == IF ipaused[p] THEN "resume" ELSE "pause" IN
       /\ tkind' = [tkind EXCEPT ![p] = kind]
       /\ Step(kind \o "Start", ToggleStartOK(p, kind), ToggleStartEff(p, kind))
       /\ Log([cmd |-> kind, p |-> p]) /\ Cmd
  /\ tpc' = [tpc EXCEPT ![p] = "add"] /\ ntog' = ntog + 1
  /\ UNCHANGED <<spc, quit, closed, ppc, pval, cpc, cval, iact, tk, ipaused, elock, bpc, bidx, stpc,
                 nprod, nmsg, nfail>>

LTogAdd(p) ==
  /\ tpc[p] = "add"
  /\ LET a == IF tkind[p] = "pause" THEN iact - 1 ELSE iact + 1
         trig == IF tkind[p] = "pause" THEN a <= 0
                 ELSE IF Variant = "resumecmp" THEN a >= 1 ELSE a = 1 IN
       /\ iact' = a
       /\ tpc' = [tpc EXCEPT ![p] = IF trig /\ L > 0 THEN "notify" ELSE "ret"] /\ tk' = [tk EXCEPT ![p] = 1]
  /\ Step("lin", LinOK(p), LinEff(p))
  /\ Lib
  /\ UNCHANGED <<spc, quit, closed, ppc, pval, cpc, cval, ipaused, tkind, elock, bpc, bidx, stpc,
                 nprod, nmsg, nfail, ntog>>

LTogNotify(p) ==
  /\ tpc[p] = "notify"
  /\ tk' = [tk EXCEPT ![p] = @ + 1] /\ tpc' = [tpc EXCEPT ![p] = IF tk[p] = L THEN "ret" ELSE "notify"]
  /\ Step("on" \o tkind[p], NotifyOK(p, tkind[p], tk[p]), NotifyEff(p, tkind[p], tk[p]))
  /\ Lib
  /\ UNCHANGED <<spc, quit, closed, ppc, pval, cpc, cval, iact, ipaused, tkind, elock, bpc, bidx, stpc,
                 nprod, nmsg, nfail, ntog>>

LTogEnd(p) ==
  /\ tpc[p] = "ret" /\ tpc' = [tpc EXCEPT ![p] = "idle"] /\ ipaused' = [ipaused EXCEPT ![p] = (tkind[p] = "pause")]
  /\ Step(tkind[p] \o "End", ToggleEndOK(p, tkind[p]), ToggleEndEff(p, tkind[p]))
  /\ Lib
  /\ UNCHANGED <<spc, quit, closed, ppc, pval, cpc, cval, iact, tk, tkind, elock, bpc, bidx, stpc,
                 nprod, nmsg, nfail, ntog>>

\* ------------------------------------------------------------------ next-state relation
LibNext ==
  \/ LSpawn \/ LWaitP \/ LClose \/ LWaitC \/ LStartRet \/ LStopClose \/ LStopEnd
  \/ \E p \in Ps : \/ LPFac(p, TRUE) \/ LPFac(p, FALSE) \/ LPInc(p) \/ LPReg(p) \/ LPLoop(p) \/ LPCall(p)
                   \/ LSendClosed(p) \/ LTogAdd(p) \/ LTogNotify(p) \/ LTogEnd(p)
                   \/ \E c \in Cs : LHandoff(p, c)
  \/ \E c \in Cs : LCFac(c, TRUE) \/ LCFac(c, FALSE) \/ LConsStart(c) \/ LCClosed(c) \/ LOnEvent(c)
  \/ \E b \in Bs : LBLock(b) \/ LBSend(b)
EnvNext ==
  \/ EStartCall \/ EStopStart
  \/ \E p \in Ps : EToggle(p) \/ \E out \in {"msg", "none", "panic"} : EProdEnd(p, out)
  \/ \E c \in Cs : EEventEnd(c) \/ \E out \in {"ok", "err", "panic"} : EConsEnd(c, out)
  \/ \E b \in Bs : EBcast(b)
Quiescent == ~ENABLED LibNext
INext == viol = "" /\ (LibNext \/ ((Mode = "free" \/ Quiescent) /\ EnvNext))
ISpec == IInit /\ [][INext]_vars

Refines == viol = ""

\* no successor, Start and Stop were called: the run is complete (Start returned, every goroutine ended)
DeadEndsAreComplete ==
  (viol = "" /\ ~ENABLED INext /\ spc # "idle" /\ stpc # "idle") =>
    /\ spc = "end" /\ stpc = "end"
    /\ \A p \in Ps : ppc[p] = "end"
    /\ \A c \in Cs : cpc[c] = "end"
    /\ \A b \in Bs : bpc[b] \in {"idle", "end"}
    /\ \A p \in Ps : tpc[p] = "idle"

\* the implementation counter is the abstract one
CounterAgrees == iact = active

View == <<qvars, ivars, viol, ncmd>>
PrintHist == (Emit /\ Mode = "rtc" /\ Quiescent /\ ncmd >= MinCmd) => PrintT("TRACE " \o ToJson(hist))
=============================================================================
