SPECIFICATION ISpec
CONSTANTS
  P = 2
  C = 1
  L = 2
  MaxProd = 0
  NB = 0
  MaxTog = 3
  MaxFail = 0
  Variant = "ok"
  Mode = "free"
  SeqCalls = FALSE
  Emit = FALSE
  MinCmd = 0
INVARIANTS Refines DeadEndsAreComplete QTypeOK ActiveOK OneConsumer Returned CounterAgrees
VIEW View
CHECK_DEADLOCK FALSE
