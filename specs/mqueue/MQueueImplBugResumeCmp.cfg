SPECIFICATION ISpec
CONSTANTS
  P = 2
  C = 1
  L = 1
  MaxProd = 0
  NB = 0
  MaxTog = 3
  MaxFail = 0
  Variant = "resumecmp"
  Mode = "free"
  SeqCalls = TRUE
  Emit = FALSE
  MinCmd = 0
INVARIANTS Refines
VIEW View
CHECK_DEADLOCK FALSE
