SPECIFICATION ISpec
CONSTANTS
  P = 1
  C = 2
  L = 2
  MaxProd = 2
  NB = 2
  MaxTog = 1
  MaxFail = 0
  Variant = "ok"
  Mode = "rtc"
  SeqCalls = FALSE
  Emit = TRUE
  MinCmd = 4
INVARIANTS Refines PrintHist
VIEW View
CHECK_DEADLOCK FALSE
