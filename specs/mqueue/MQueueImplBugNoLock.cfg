SPECIFICATION ISpec
CONSTANTS
  P = 1
  C = 2
  L = 0
  MaxProd = 0
  NB = 2
  MaxTog = 0
  MaxFail = 0
  Variant = "nolock"
  Mode = "free"
  SeqCalls = FALSE
  Emit = FALSE
  MinCmd = 0
INVARIANTS Refines
VIEW View
CHECK_DEADLOCK FALSE
