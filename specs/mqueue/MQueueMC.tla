------------------------------- MODULE MQueueMC -------------------------------
(* Layer P on its own: the most liberal queue -- every event whose guard in MQueue.tla holds may happen, with any
   identifiers below the bounds -- composed with the most liberal harness.  Checks that the state invariants and
   the action properties follow from the guards alone (not from the way queue.go happens to be written, which is
   MQueueImpl.tla's job), and with -coverage that no guard is unsatisfiable (no dead action).                   *)
EXTENDS MQueue

CONSTANTS NP, NC, NL, NM, NBc     \* producers, consumers, listeners; message ids 1..NM, broadcast ids 1..NBc

Kinds == {"pause", "resume"}

MStartCall == StartCallOK /\ StartCallEff
MStartRet  == StartRetOK /\ StartRetEff
MStopStart == StopStartOK /\ StopStartEff
MStopEnd   == StopEndOK /\ StopEndEff
MPFail     == PFailOK /\ FailEff
MCFail     == CFailOK /\ FailEff
MPNew(p)   == PNewOK(p) /\ PNewEff(p)
MPInc(p)   == PIncOK(p) /\ PIncEff(p)
MPReg(p)   == PRegOK(p) /\ PRegEff(p)
MProdStart(p) == ProdStartOK(p) /\ ProdStartEff(p)
MProdEnd(p, out, m) == ProdEndOK(p, out, m) /\ ProdEndEff(p, out, m)
MCNew(c)   == CNewOK(c) /\ CNewEff(c)
MConsStart(c, m) == ConsStartOK(c, m) /\ ConsStartEff(c, m)
MConsEnd(c, m, out) == ConsEndOK(c, m, out) /\ ConsEndEff(c, m)
MBcast(b)  == BcastOK(b) /\ BcastEff(b)
MOnEvent(c, b) == OnEventOK(c, b) /\ OnEventEff(c, b)
MEventEnd(c, b) == EventEndOK(c, b) /\ EventEndEff(c)
MToggleStart(p, k) == ToggleStartOK(p, k) /\ ToggleStartEff(p, k)
MLin(p)    == LinOK(p) /\ LinEff(p)
MNotify(p, k, i) == NotifyOK(p, k, i) /\ NotifyEff(p, k, i)
MToggleEnd(p, k) == ToggleEndOK(p, k) /\ ToggleEndEff(p, k)

MInit == QStartWith(NP, NC, NL)
MNext ==
  \/ MStartCall \/ MStartRet \/ MStopStart \/ MStopEnd \/ MPFail \/ MCFail
  \/ \E p \in 1..NP :
       \/ MPNew(p) \/ MPInc(p) \/ MPReg(p) \/ MProdStart(p) \/ MLin(p)
       \/ MProdEnd(p, "none", 0) \/ MProdEnd(p, "panic", 0) \/ \E m \in 1..NM : MProdEnd(p, "msg", m)
       \/ \E k \in Kinds : MToggleStart(p, k) \/ MToggleEnd(p, k) \/ \E i \in 1..NL : MNotify(p, k, i)
  \/ \E c \in 1..NC :
       \/ MCNew(c)
       \/ \E m \in 1..NM : MConsStart(c, m) \/ \E out \in {"ok", "err", "panic"} : MConsEnd(c, m, out)
       \/ \E b \in 1..NBc : MOnEvent(c, b) \/ MEventEnd(c, b)
  \/ \E b \in 1..NBc : MBcast(b)
MSpec == MInit /\ [][MNext]_qvars

\* ---- action properties -------------------------------------------------------------------------------------
Rank(s) == CASE s = "ready" -> 1 [] s = "taken" -> 2 [] s = "done" -> 3
\* AtMostOnce: a message only moves forward: produced -> handed to one Consume call -> consumed; never forgotten
MsgForward == [][/\ DOMAIN msg \subseteq DOMAIN msg'
                 /\ \A m \in DOMAIN msg : Rank(msg'[m]) \in {Rank(msg[m]), Rank(msg[m]) + 1}]_qvars
\* Quiet: once Start has returned nothing moves except the harness's own Stop / pause / resume calls
QuietAfterReturn == [][phase = "returned" => (phase' = "returned" /\ UNCHANGED <<cside, bside>>
                                               /\ \A p \in DOMAIN prod : prod'[p].busy = prod[p].busy
                                               /\ DOMAIN prod' = DOMAIN prod)]_qvars
\* SameOrder: the common delivery order only grows, a consumer's position only moves by one
OrderGrows == [][/\ Len(bseq') >= Len(bseq) /\ SubSeq(bseq', 1, Len(bseq)) = bseq
                 /\ \A c \in DOMAIN bpos : bpos'[c] \in {bpos[c], bpos[c] + 1}]_qvars
\* Active: listeners are only told by the call that crossed zero / reached one; the counter moves by one
CounterByOne == [][active' \in {active - 1, active, active + 1}]_qvars
\* StartCovers as a state predicate over the instant of return
ReturnCovers == [][(phase = "running" /\ phase' = "returned") =>
                     (stop # "no" /\ \A m \in DOMAIN msg : msg[m] = "done")]_qvars
=============================================================================
