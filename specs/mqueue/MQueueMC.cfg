SPECIFICATION MSpec
CONSTANTS
  NP = 1
  NC = 2
  NL = 1
  NM = 2
  NBc = 1
INVARIANTS QTypeOK ActiveOK OneConsumer Returned
PROPERTIES MsgForward QuietAfterReturn OrderGrows CounterByOne ReturnCovers
CHECK_DEADLOCK FALSE
