SPECIFICATION ISpec
CONSTANTS
  P = 1
  C = 2
  L = 0
  MaxProd = 1
  NB = 2
  MaxTog = 0
  MaxFail = 0
  Variant = "ok"
  Mode = "free"
  SeqCalls = FALSE
  Emit = FALSE
  MinCmd = 0
INVARIANTS Refines DeadEndsAreComplete QTypeOK ActiveOK OneConsumer Returned CounterAgrees
VIEW View
CHECK_DEADLOCK FALSE
