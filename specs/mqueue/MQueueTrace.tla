----------------------------- MODULE MQueueTrace -----------------------------
(* Trace validation (extension "mqueue", host C11): events recorded from a real core/queue.Queue whose
   factories, producers, consumers and listeners are harness callbacks must be a behaviour of MQueue.tla.
   One action per event kind = Layer-P guard /\ effect (the event list is in the header of MQueue.tla).

   Two steps of the library are not observable and are left to TLC (silent actions, l unchanged):
     TInc   the queue counts a new producer as active -- once per producer, between pNew and pReg;
     TLin   the atomic add inside OnProducerPause / OnProducerResume -- once per call, between its
            pauseStart / resumeStart and its first listener notification or its pauseEnd / resumeEnd.
   Both are bounded (a flag per producer / per pending call), so a line has at most
   2^(new producers + pending calls) successors.

   There is deliberately no action for the driver's "stuck" event (something the queue owes -- a delivery of
   a broadcast to every consumer, the return of Start after Stop once every callback was released -- did not
   show up under a generous watchdog): such a trace is rejected.                                              *)
EXTENDS MQueue, TraceKit

VARIABLE l
tvars == <<qvars, l>>

E == Trace[l]
IsEvent(e) == l <= Len(Trace) /\ E.e = e /\ l' = l + 1

TReset      == IsEvent("reset") /\ E.P \in Nat /\ E.C \in Nat /\ E.L \in Nat /\ QReset(E.P, E.C, E.L)

TStartCall  == IsEvent("startCall") /\ StartCallOK /\ StartCallEff
TStartRet   == IsEvent("startRet")  /\ StartRetOK  /\ StartRetEff
TStopStart  == IsEvent("stopStart") /\ StopStartOK /\ StopStartEff
TStopEnd    == IsEvent("stopEnd")   /\ StopEndOK   /\ StopEndEff

TPFail      == IsEvent("pfail")     /\ PFailOK /\ FailEff
TCFail      == IsEvent("cfail")     /\ CFailOK /\ FailEff
TPNew       == IsEvent("pNew")      /\ PNewOK(E.p) /\ PNewEff(E.p)
TPReg       == IsEvent("pReg")      /\ PRegOK(E.p) /\ PRegEff(E.p)
TProdStart  == IsEvent("prodStart") /\ ProdStartOK(E.p) /\ ProdStartEff(E.p)
TProdEnd    == IsEvent("prodEnd")   /\ ProdEndOK(E.p, E.out, E.m) /\ ProdEndEff(E.p, E.out, E.m)

TCNew       == IsEvent("cNew")      /\ CNewOK(E.c) /\ CNewEff(E.c)
TConsStart  == IsEvent("consStart") /\ ConsStartOK(E.c, E.m) /\ ConsStartEff(E.c, E.m)
TConsEnd    == IsEvent("consEnd")   /\ ConsEndOK(E.c, E.m, E.out) /\ ConsEndEff(E.c, E.m)

TBcast      == IsEvent("bcast")     /\ BcastOK(E.b) /\ BcastEff(E.b)
TOnEvent    == IsEvent("onEvent")   /\ OnEventOK(E.c, E.b) /\ OnEventEff(E.c, E.b)
TEventEnd   == IsEvent("eventEnd")  /\ EventEndOK(E.c, E.b) /\ EventEndEff(E.c)

TPauseStart  == IsEvent("pauseStart")  /\ ToggleStartOK(E.p, "pause")  /\ ToggleStartEff(E.p, "pause")
TResumeStart == IsEvent("resumeStart") /\ ToggleStartOK(E.p, "resume") /\ ToggleStartEff(E.p, "resume")
TPauseEnd    == IsEvent("pauseEnd")    /\ ToggleEndOK(E.p, "pause")    /\ ToggleEndEff(E.p, "pause")
TResumeEnd   == IsEvent("resumeEnd")   /\ ToggleEndOK(E.p, "resume")   /\ ToggleEndEff(E.p, "resume")
\* a listener is told: by some pending call that owes it this notification next
TOnPause     == IsEvent("onPause")  /\ \E p \in DOMAIN call : NotifyOK(p, "pause", E.k)  /\ NotifyEff(p, "pause", E.k)
TOnResume    == IsEvent("onResume") /\ \E p \in DOMAIN call : NotifyOK(p, "resume", E.k) /\ NotifyEff(p, "resume", E.k)

\* silent steps
TInc == l <= Len(Trace) /\ UNCHANGED l /\ \E p \in DOMAIN prod : PIncOK(p) /\ PIncEff(p)
TLin == l <= Len(Trace) /\ UNCHANGED l /\ \E p \in DOMAIN call : LinOK(p) /\ LinEff(p)

TInit == QStart /\ l = 1
TNext == \/ TReset \/ TStartCall \/ TStartRet \/ TStopStart \/ TStopEnd
         \/ TPFail \/ TCFail \/ TPNew \/ TPReg \/ TProdStart \/ TProdEnd
         \/ TCNew \/ TConsStart \/ TConsEnd \/ TBcast \/ TOnEvent \/ TEventEnd
         \/ TPauseStart \/ TResumeStart \/ TPauseEnd \/ TResumeEnd \/ TOnPause \/ TOnResume
         \/ TInc \/ TLin
TSpec == TInit /\ [][TNext]_tvars

HW == HighWater(l)
=============================================================================
