\* The earlier, full-size configuration: 6,364,063 distinct states, 10 min 24 s with 4 workers and -coverage 1
\* (passed, 2026-09-30).  Too large for the check; props/ext_mqueue.py runs the MQueueImplMC*.cfg slices instead.
SPECIFICATION ISpec
CONSTANTS
  P = 2
  C = 2
  L = 1
  MaxProd = 3
  NB = 1
  MaxTog = 2
  MaxFail = 0
  Variant = "ok"
  Mode = "free"
  SeqCalls = FALSE
  Emit = FALSE
  MinCmd = 0
INVARIANTS Refines DeadEndsAreComplete QTypeOK ActiveOK OneConsumer Returned CounterAgrees
VIEW View
CHECK_DEADLOCK FALSE
