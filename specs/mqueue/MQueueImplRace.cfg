SPECIFICATION ISpec
CONSTANTS
  P = 2
  C = 1
  L = 2
  MaxProd = 0
  NB = 0
  MaxTog = 4
  MaxFail = 0
  Variant = "ok"
  Mode = "free"
  SeqCalls = FALSE
  Emit = FALSE
  MinCmd = 0
INVARIANTS Refines ListenersAgree PausedIffNoneActive
VIEW View
CHECK_DEADLOCK FALSE
