SPECIFICATION TSpec
CONSTRAINT HW
INVARIANTS QTypeOK ActiveOK OneConsumer Returned
POSTCONDITION Accepted
CHECK_DEADLOCK FALSE
