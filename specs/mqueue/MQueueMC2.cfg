SPECIFICATION MSpec
CONSTANTS
  NP = 2
  NC = 1
  NL = 1
  NM = 1
  NBc = 0
INVARIANTS QTypeOK ActiveOK OneConsumer Returned
PROPERTIES MsgForward QuietAfterReturn OrderGrows CounterByOne ReturnCovers
CHECK_DEADLOCK FALSE
