SPECIFICATION ISpec
CONSTANTS
  P = 1
  C = 1
  L = 1
  MaxProd = 2
  NB = 1
  MaxTog = 2
  MaxFail = 1
  Variant = "ok"
  Mode = "free"
  SeqCalls = FALSE
  Emit = FALSE
  MinCmd = 0
INVARIANTS Refines DeadEndsAreComplete QTypeOK ActiveOK OneConsumer Returned CounterAgrees
VIEW View
CHECK_DEADLOCK FALSE
