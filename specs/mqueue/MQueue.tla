------------------------------- MODULE MQueue -------------------------------
(* Layer P (extension "mqueue", host C11): life cycle of core/queue.Queue.

     "A Queue is a message queue."  NewQueue(producerFactory, consumerFactory); SetNumProducer / SetNumConsumer;
     AddListener(Listener{OnPause, OnResume}); Start() "starts q" and blocks; Stop() "stops q";
     Broadcast(message) "broadcasts the message to all event channels" (-> Consumer.OnEvent of every consumer);
     produceOne: "avoid panic quit the producer, log it and continue"; consumeOne runs under threading.RunSafe;
     routineListener: the queue's listeners are told OnPause when the count of active producers drops to zero
     and OnResume when it comes back to one (queue_test.go: TestQueue, TestQueue_PauseResume,
     TestQueue_Broadcast, TestQueue_ConsumeError).

   Events (factories, producers, consumers, listeners are harness callbacks; ids are handed out by the harness):
     startCall / startRet                      around Queue.Start
     stopStart / stopEnd                       around Queue.Stop
     pNew(p)  / pfail                          the producer factory returned producer p / an error
     pReg(p)                                   Producer.AddListener was called on p (the queue counts p as active
                                               from a moment between pNew and pReg: silent step PInc)
     prodStart(p) / prodEnd(p, out, m)         first / last statement of p.Produce; out = "msg" (message m, fresh),
                                               "none" (ok = false) or "panic"
     cNew(c)  / cfail                          consumer factory
     consStart(c, m) / consEnd(c, m, out)      first / last statement of c.Consume(m); out = "ok" | "err" | "panic"
     bcast(b)                                  BEFORE Queue.Broadcast(b) is called (the call is asynchronous)
     onEvent(c, b) / eventEnd(c, b)            first / last statement of c.OnEvent(b)
     pauseStart(p) / pauseEnd(p)               around the ProduceListener's OnProducerPause handed to p
     resumeStart(p) / resumeEnd(p)             around OnProducerResume
     onPause(k) / onResume(k)                  the k-th listener registered with AddListener is called

   What is demanded (each clause is a guard below; nothing mentions channels, wait groups or goroutines):
     Counts          Start creates exactly P producers and C consumers (a failing factory is retried), before it returns
     ProducerSerial  the Produce calls of one producer never overlap, and start only after AddListener
     ConsumerSerial  the Consume / OnEvent calls of one consumer never overlap
     AtMostOnce      a message is handed to Consume only after Produce returned it, and at most once
     StartCovers     Start returns only after Stop was called, when no callback is running and every message
                     any Produce call returned has been consumed (Consume finished: by return, error or panic)
     Quiet           after Start returned: no factory, Produce, Consume or OnEvent call
     StopStops       of every producer at most one Produce call starts after Stop returned, and only as that
                     producer's first step after Stop returned
     Contained       a panic in Produce / Consume does not end anything: whatever the trace shows afterwards must
                     still satisfy all clauses (in particular StartCovers still needs every message consumed)
     Active          the counter of active producers moves by one at one instant inside each OnProducerPause /
                     OnProducerResume call (silent step Lin); the call that takes it to <= 0 (pause) / to exactly 1
                     (resume) tells every listener, in AddListener order, before it returns; no other call tells anyone
     SameOrder       every consumer sees every broadcast at most once, and all consumers see the broadcasts
                     in one common order (the event lock serialises Broadcast)
     Progress        (not a guard: the drivers wait for these under a generous watchdog and record an event "stuck",
                     for which there is no action, if one does not come)  while the queue has not been stopped
                     every producer is asked again after each Produce call, however that call ended ("avoid panic
                     quit the producer, log it and continue"); every broadcast reaches every consumer; once Stop
                     was called and every callback has returned, Start returns
   Premises of the harness (also guards, so a driver that breaks them is rejected, not the library):
     Start and Stop are called once; Broadcast is called while the queue runs, all consumers exist and Stop has not
     been called, and Stop is only called when every broadcast has reached every consumer (a Broadcast that
     races with the shutdown may block for ever: the queue gives no guarantee); a producer alternates pause
     and resume.                                                                                               *)
EXTENDS Integers, Sequences, FiniteSets, TLC

VARIABLES
  par,     \* [P, C, L]: producers, consumers, listeners of this queue
  phase,   \* "new" | "running" (Start called) | "returned"
  stop,    \* "no" | "calling" | "done"
  prod,    \* producer id |-> [reg: 0 created, 1 counted, 2 AddListener called; busy; paused; late]
  active,  \* the queue's count of active producers
  call,    \* producer id |-> [kind: "pause" | "resume", lin: BOOLEAN, owe: listeners still to be told] (pending calls)
  lst,     \* listener k |-> "resumed" | "paused": what it was told last
  cons,    \* consumer id |-> [st: "idle" | "consume" | "event", x: message / broadcast id]
  msg,     \* message id |-> "ready" | "taken" | "done"
  bc,      \* broadcast ids issued
  bseq,    \* the common delivery order, as far as any consumer has revealed it
  bpos     \* consumer id |-> how many broadcasts it has seen

life  == <<par, phase, stop>>
pside == <<prod, active, call, lst>>
cside == <<cons, msg>>
bside == <<bc, bseq, bpos>>
qvars == <<par, phase, stop, prod, active, call, lst, cons, msg, bc, bseq, bpos>>

EmptyFn == [x \in {} |-> 0]
Put(f, x, y) == [z \in DOMAIN f \cup {x} |-> IF z = x THEN y ELSE f[z]]
Drop(f, x) == [z \in DOMAIN f \ {x} |-> f[z]]
Range(s) == {s[i] : i \in DOMAIN s}
Card(S) == Cardinality(S)

QStartWith(P, C, L) ==
  /\ par = [P |-> P, C |-> C, L |-> L] /\ phase = "new" /\ stop = "no"
  /\ prod = EmptyFn /\ active = 0 /\ call = EmptyFn /\ lst = [k \in 1..L |-> "resumed"]
  /\ cons = EmptyFn /\ msg = EmptyFn /\ bc = {} /\ bseq = <<>> /\ bpos = EmptyFn
QStart == QStartWith(0, 0, 0)
QReset(P, C, L) ==
  /\ par' = [P |-> P, C |-> C, L |-> L] /\ phase' = "new" /\ stop' = "no"
  /\ prod' = EmptyFn /\ active' = 0 /\ call' = EmptyFn /\ lst' = [k \in 1..L |-> "resumed"]
  /\ cons' = EmptyFn /\ msg' = EmptyFn /\ bc' = {} /\ bseq' = <<>> /\ bpos' = EmptyFn

Running == phase = "running"
Late == stop = "done"

\* ------------------------------------------------------------------ Start / Stop
StartCallOK == phase = "new"
StartCallEff == phase' = "running" /\ UNCHANGED <<par, stop, pside, cside, bside>>

AllDelivered == \A c \in DOMAIN cons : bpos[c] = Card(bc)
StopStartOK == stop = "no" /\ AllDelivered                                     \* premise
StopStartEff == stop' = "calling" /\ UNCHANGED <<par, phase, pside, cside, bside>>
StopEndOK == stop = "calling"
StopEndEff == stop' = "done" /\ UNCHANGED <<par, phase, pside, cside, bside>>

StartRetOK ==
  /\ phase = "running"
  /\ stop # "no"                                                                \* StartCovers: not before Stop
  /\ Card(DOMAIN prod) = par.P /\ Card(DOMAIN cons) = par.C                      \* Counts
  /\ \A p \in DOMAIN prod : prod[p].reg = 2 /\ ~prod[p].busy                     \* StartCovers: nothing running
  /\ \A c \in DOMAIN cons : cons[c].st = "idle"
  /\ \A m \in DOMAIN msg : msg[m] = "done"                                       \* StartCovers: everything consumed
StartRetEff == phase' = "returned" /\ UNCHANGED <<par, stop, pside, cside, bside>>

\* ------------------------------------------------------------------ producers
PFailOK == Running
CFailOK == Running
FailEff == UNCHANGED qvars

PNewOK(p) == Running /\ p \notin DOMAIN prod /\ Card(DOMAIN prod) < par.P      \* Counts, Quiet
PNewEff(p) ==
  /\ prod' = Put(prod, p, [reg |-> 0, busy |-> FALSE, paused |-> FALSE, late |-> FALSE])
  /\ UNCHANGED <<life, active, call, lst, cside, bside>>

\* silent: the queue counts the new producer as active (atomic.AddInt32(&q.active, 1))
PIncOK(p) == p \in DOMAIN prod /\ prod[p].reg = 0
PIncEff(p) ==
  /\ prod' = [prod EXCEPT ![p].reg = 1] /\ active' = active + 1
  /\ UNCHANGED <<life, call, lst, cside, bside>>

PRegOK(p) == Running /\ p \in DOMAIN prod /\ prod[p].reg = 1
PRegEff(p) ==
  /\ prod' = [prod EXCEPT ![p].reg = 2, ![p].late = Late]
  /\ UNCHANGED <<life, active, call, lst, cside, bside>>

ProdStartOK(p) ==
  /\ Running                                                                    \* Quiet
  /\ p \in DOMAIN prod /\ prod[p].reg = 2 /\ ~prod[p].busy                       \* ProducerSerial
  /\ Late => ~prod[p].late                                                      \* StopStops
ProdStartEff(p) ==
  /\ prod' = [prod EXCEPT ![p].busy = TRUE, ![p].late = Late]
  /\ UNCHANGED <<life, active, call, lst, cside, bside>>

ProdEndOK(p, out, m) ==
  /\ p \in DOMAIN prod /\ prod[p].busy /\ out \in {"msg", "none", "panic"}
  /\ out = "msg" => m \notin DOMAIN msg                                          \* premise: fresh message ids
ProdEndEff(p, out, m) ==
  /\ prod' = [prod EXCEPT ![p].busy = FALSE, ![p].late = Late]
  /\ msg' = IF out = "msg" THEN Put(msg, m, "ready") ELSE msg
  /\ UNCHANGED <<life, active, call, lst, cons, bside>>

\* ------------------------------------------------------------------ consumers
CNewOK(c) == Running /\ c \notin DOMAIN cons /\ Card(DOMAIN cons) < par.C       \* Counts, Quiet
CNewEff(c) ==
  /\ cons' = Put(cons, c, [st |-> "idle", x |-> 0]) /\ bpos' = Put(bpos, c, 0)
  /\ UNCHANGED <<life, pside, msg, bc, bseq>>

ConsStartOK(c, m) ==
  /\ Running                                                                    \* Quiet
  /\ c \in DOMAIN cons /\ cons[c].st = "idle"                                    \* ConsumerSerial
  /\ m \in DOMAIN msg /\ msg[m] = "ready"                                        \* AtMostOnce
ConsStartEff(c, m) ==
  /\ cons' = [cons EXCEPT ![c] = [st |-> "consume", x |-> m]] /\ msg' = [msg EXCEPT ![m] = "taken"]
  /\ UNCHANGED <<life, pside, bside>>

ConsEndOK(c, m, out) ==
  /\ c \in DOMAIN cons /\ cons[c] = [st |-> "consume", x |-> m] /\ out \in {"ok", "err", "panic"}
ConsEndEff(c, m) ==
  /\ cons' = [cons EXCEPT ![c] = [st |-> "idle", x |-> 0]] /\ msg' = [msg EXCEPT ![m] = "done"]
  /\ UNCHANGED <<life, pside, bside>>

\* ------------------------------------------------------------------ Broadcast -> OnEvent
BcastOK(b) ==
  /\ Running /\ stop = "no" /\ Card(DOMAIN cons) = par.C /\ b \notin bc          \* premise
BcastEff(b) == bc' = bc \cup {b} /\ UNCHANGED <<life, pside, cside, bseq, bpos>>

OnEventOK(c, b) ==
  /\ Running                                                                    \* Quiet
  /\ c \in DOMAIN cons /\ cons[c].st = "idle"                                    \* ConsumerSerial
  /\ IF bpos[c] < Len(bseq) THEN b = bseq[bpos[c] + 1]                           \* SameOrder
                            ELSE b \in bc \ Range(bseq)                          \* issued, new to everybody
OnEventEff(c, b) ==
  /\ bseq' = IF bpos[c] < Len(bseq) THEN bseq ELSE Append(bseq, b)
  /\ bpos' = [bpos EXCEPT ![c] = @ + 1]
  /\ cons' = [cons EXCEPT ![c] = [st |-> "event", x |-> b]]
  /\ UNCHANGED <<life, pside, msg, bc>>

EventEndOK(c, b) == c \in DOMAIN cons /\ cons[c] = [st |-> "event", x |-> b]
EventEndEff(c) ==
  /\ cons' = [cons EXCEPT ![c] = [st |-> "idle", x |-> 0]]
  /\ UNCHANGED <<life, pside, msg, bside>>

\* ------------------------------------------------------------------ pause / resume
ToggleStartOK(p, kind) ==
  /\ p \in DOMAIN prod /\ prod[p].reg = 2 /\ p \notin DOMAIN call
  /\ prod[p].paused = (kind = "resume")                                         \* premise: alternate
ToggleStartEff(p, kind) ==
  /\ call' = Put(call, p, [kind |-> kind, lin |-> FALSE, owe |-> <<>>])
  /\ UNCHANGED <<life, prod, active, lst, cside, bside>>

\* silent: the atomic add inside the call; decides whether this call tells the listeners
LinOK(p) == p \in DOMAIN call /\ ~call[p].lin
LinEff(p) ==
  LET a == IF call[p].kind = "pause" THEN active - 1 ELSE active + 1
      trig == IF call[p].kind = "pause" THEN a <= 0 ELSE a = 1
  IN /\ active' = a
     /\ call' = [call EXCEPT ![p].lin = TRUE, ![p].owe = IF trig THEN [i \in 1..par.L |-> i] ELSE <<>>]
     /\ UNCHANGED <<life, prod, lst, cside, bside>>

NotifyOK(p, kind, k) ==
  /\ p \in DOMAIN call /\ call[p].kind = kind /\ call[p].lin
  /\ call[p].owe # <<>> /\ Head(call[p].owe) = k                                 \* Active: in AddListener order
NotifyEff(p, kind, k) ==
  /\ call' = [call EXCEPT ![p].owe = Tail(@)]
  /\ lst' = [lst EXCEPT ![k] = IF kind = "pause" THEN "paused" ELSE "resumed"]
  /\ UNCHANGED <<life, prod, active, cside, bside>>

ToggleEndOK(p, kind) ==
  /\ p \in DOMAIN call /\ call[p].kind = kind /\ call[p].lin /\ call[p].owe = <<>>   \* Active: all told
ToggleEndEff(p, kind) ==
  /\ call' = Drop(call, p) /\ prod' = [prod EXCEPT ![p].paused = (kind = "pause")]
  /\ UNCHANGED <<life, active, lst, cside, bside>>

\* ------------------------------------------------------------------ state invariants
QTypeOK ==
  /\ phase \in {"new", "running", "returned"} /\ stop \in {"no", "calling", "done"}
  /\ \A p \in DOMAIN prod : prod[p].reg \in 0..2 /\ (prod[p].busy => prod[p].reg = 2)
  /\ DOMAIN call \subseteq DOMAIN prod /\ DOMAIN bpos = DOMAIN cons
  /\ Card(DOMAIN prod) <= par.P /\ Card(DOMAIN cons) <= par.C
  /\ Range(bseq) \subseteq bc /\ Len(bseq) = Card(Range(bseq))
  /\ \A c \in DOMAIN cons : bpos[c] <= Len(bseq)
  /\ phase = "new" => (prod = EmptyFn /\ cons = EmptyFn /\ msg = EmptyFn)

\* the counter is the number of created, not paused producers (corrected by the calls that are half way)
ActiveOK ==
  active = Card({p \in DOMAIN prod : prod[p].reg >= 1 /\ ~prod[p].paused})
           - Card({p \in DOMAIN call : call[p].lin /\ call[p].kind = "pause"})
           + Card({p \in DOMAIN call : call[p].lin /\ call[p].kind = "resume"})

\* each message is with at most one consumer
OneConsumer ==
  /\ \A m \in DOMAIN msg : msg[m] = "taken" <=> (\E c \in DOMAIN cons : cons[c] = [st |-> "consume", x |-> m])
  /\ \A c, d \in DOMAIN cons : (c # d /\ cons[c].st = "consume" /\ cons[d].st = "consume") => cons[c].x # cons[d].x

Returned == phase = "returned" =>
  /\ stop # "no" /\ \A m \in DOMAIN msg : msg[m] = "done"
  /\ \A p \in DOMAIN prod : ~prod[p].busy
  /\ \A c \in DOMAIN cons : cons[c].st = "idle"

\* What the listeners believe.  These two do NOT hold for every use of the queue (see MQueueImplRace*.cfg):
\* they need the pause / resume calls to come one at a time and only once every producer has been created.
NoCall == call = EmptyFn
ListenersAgree == NoCall => \A j, k \in DOMAIN lst : lst[j] = lst[k]
PausedIffNoneActive ==
  (NoCall /\ par.L > 0 /\ \A p \in DOMAIN prod : prod[p].reg # 0) =>
     \A k \in DOMAIN lst : (lst[k] = "paused") <=> (active <= 0 /\ \E p \in DOMAIN prod : prod[p].paused)
=============================================================================
