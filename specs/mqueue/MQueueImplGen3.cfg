SPECIFICATION ISpec
CONSTANTS
  P = 2
  C = 2
  L = 0
  MaxProd = 2
  NB = 1
  MaxTog = 0
  MaxFail = 0
  Variant = "ok"
  Mode = "rtc"
  SeqCalls = FALSE
  Emit = TRUE
  MinCmd = 4
INVARIANTS Refines PrintHist
VIEW View
CHECK_DEADLOCK FALSE
