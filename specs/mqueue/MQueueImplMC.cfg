SPECIFICATION ISpec
CONSTANTS
  P = 2
  C = 2
  L = 1
  MaxProd = 3
  NB = 1
  MaxTog = 2
  MaxFail = 0
  Variant = "ok"
  Mode = "free"
  SeqCalls = FALSE
  Emit = FALSE
  MinCmd = 0
INVARIANTS Refines DeadEndsAreComplete QTypeOK ActiveOK OneConsumer Returned CounterAgrees
VIEW View
CHECK_DEADLOCK FALSE
