SPECIFICATION ISpec
CONSTANTS
  P = 2
  C = 1
  L = 1
  MaxProd = 2
  NB = 0
  MaxTog = 3
  MaxFail = 0
  Variant = "ok"
  Mode = "rtc"
  SeqCalls = FALSE
  Emit = TRUE
  MinCmd = 4
INVARIANTS Refines PrintHist
VIEW View
CHECK_DEADLOCK FALSE
