SPECIFICATION ISpec
CONSTANTS
  P = 1
  C = 1
  L = 0
  MaxProd = 1
  NB = 0
  MaxTog = 0
  MaxFail = 0
  Variant = "nodrain"
  Mode = "free"
  SeqCalls = FALSE
  Emit = FALSE
  MinCmd = 0
INVARIANTS Refines
VIEW View
CHECK_DEADLOCK FALSE
