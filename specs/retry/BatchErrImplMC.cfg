SPECIFICATION ISpec
CONSTANTS
  Variant = "code"
  Procs = {1, 2, 3}
  Lists <- MCLists
INVARIANTS Refines MutualExclusion
CHECK_DEADLOCK FALSE
