--------------------------- MODULE ValueCtxTrace ---------------------------
(* Trace validation for the extension fxretry (contextx.ValueOnlyFrom part): the driver
   builds a tree of real contexts and reads every node after every step.
     reset
     mk      kind par key val dl       node Len+1 made from node par (0 = Background)
     cancel  n                         the cancel function of node n was called
     obs     errs dls donenil closed vals      per node: Err() ("none"|"canceled"|"deadline"),
                                       Deadline() as a rank (-1: none), Done() == nil,
                                       Done() closed, Value(k) for k = 1.. (0: absent)
     cause   n c                       context.Cause(node n)                             *)
EXTENDS ValueCtx, TraceKit

VARIABLE l
tvars == <<cvars, l>>

E == Trace[l]
IsEvent(e) == l <= Len(Trace) /\ E.e = e /\ l' = l + 1

TReset == IsEvent("reset") /\ nodes' = <<>> /\ cancelled' = {}
TMk == /\ IsEvent("mk")
       /\ \/ E.kind = "cancel" /\ MkCancel(E.par)
          \/ E.kind = "deadline" /\ MkDeadline(E.par, E.dl)
          \/ E.kind = "value" /\ MkValue(E.par, E.key, E.val)
          \/ E.kind = "vonly" /\ MkVOnly(E.par)
TCancel == IsEvent("cancel") /\ CancelNode(E.n)
TObs == /\ IsEvent("obs")
        /\ Len(E.errs) = N /\ Len(E.dls) = N /\ Len(E.donenil) = N /\ Len(E.closed) = N /\ Len(E.vals) = N
        /\ \A n \in 1..N :
             /\ E.errs[n] = ErrOf(n)
             /\ E.dls[n] = DeadlineOf(n)
             /\ E.donenil[n] = DoneNil(n)
             /\ E.closed[n] = (ErrOf(n) # "none")
             /\ \A k \in DOMAIN E.vals[n] : E.vals[n][k] = ValueOf(n, k)
        /\ UNCHANGED cvars
\* context.Cause: "If c has not been canceled yet, Cause returns nil"; without explicit causes it is Err()
TCause == /\ IsEvent("cause") /\ E.n \in 1..N
          /\ \/ E.c = ErrOf(E.n)
             \* known finding: the lookup of the cancellation state goes through ValueOnlyFrom, so the
             \* cause of a context ABOVE it shows although Err() is nil
             \/ /\ "KF_ValueOnlyCauseLeak" \in OpenFindings
                /\ Crosses(E.n) /\ E.c = LookupCancel(E.n) /\ E.c # ErrOf(E.n)
          /\ UNCHANGED cvars

TInit == CInit /\ l = 1
TNext == TReset \/ TMk \/ TCancel \/ TObs \/ TCause
TSpec == TInit /\ [][TNext]_tvars

TInv == CTypeOK /\ Detached /\ ParentEndsChild /\ DeadlineShrinks /\ PassedMeansEnded /\ EndedForAReason
HW == HighWater(l)
=============================================================================
