------------------------------ MODULE ValueCtx ------------------------------
(* Layer P (extension fxretry): core/contextx ValueOnlyFrom inside trees of standard
   contexts.  "ValueOnlyFrom takes all values from the given ctx, without deadline and
   error control": the context it returns never ends and has no deadline whatever
   happens to the one it was made from, every value is still visible through it, and
   contexts derived from it start a new cancellation scope (TestContextCancel,
   TestContextDeadline).

   A tree of contexts: node 0 is context.Background(); node n was made from an earlier
   node by WithCancel, WithDeadline, WithValue or ValueOnlyFrom.  Deadlines are ranks:
   0 = already passed when given, 1.. = far in the future (later rank = later time; they
   do not pass during a run).                                                          *)
EXTENDS Integers, Sequences, FiniteSets, TLC

CONSTANT VOnlyMode   \* "detach": ValueOnlyFrom as documented; the other values are wrong variants used by
                     \* the counterexample configs: "keepdone" (Done/Err delegated), "keepdeadline"

VARIABLES
  nodes,       \* sequence of [kind, par, key, val, dl, err]
               \* err: own state of a cancel/deadline node: "none" | "canceled" | "deadline"
  cancelled    \* history: nodes whose cancel function has been called
cvars == <<nodes, cancelled>>

Kinds == {"cancel", "deadline", "value", "vonly"}
N == Len(nodes)
Node(n) == nodes[n]

RECURSIVE ErrOf(_), DeadlineOf(_), DoneNil(_), ValueOf(_, _), Scope(_), LookupCancel(_), Up(_)

\* ctx.Err()
ErrOf(n) ==
  IF n = 0 THEN "none"
  ELSE CASE Node(n).kind = "vonly" -> IF VOnlyMode = "keepdone" THEN ErrOf(Node(n).par) ELSE "none"
         [] Node(n).kind = "value" -> ErrOf(Node(n).par)
         [] OTHER -> Node(n).err

Min(a, b) == IF a = -1 THEN b ELSE IF b = -1 THEN a ELSE IF a < b THEN a ELSE b

\* ctx.Deadline(): -1 = none
DeadlineOf(n) ==
  IF n = 0 THEN -1
  ELSE CASE Node(n).kind = "vonly" -> IF VOnlyMode = "keepdeadline" THEN DeadlineOf(Node(n).par) ELSE -1
         [] Node(n).kind = "deadline" -> Min(Node(n).dl, DeadlineOf(Node(n).par))
         [] OTHER -> DeadlineOf(Node(n).par)

\* ctx.Done() == nil: nothing can end this context
DoneNil(n) ==
  IF n = 0 THEN TRUE
  ELSE CASE Node(n).kind = "vonly" -> IF VOnlyMode = "keepdone" THEN DoneNil(Node(n).par) ELSE TRUE
         [] Node(n).kind = "value" -> DoneNil(Node(n).par)
         [] OTHER -> FALSE

\* ctx.Value(k): 0 = absent
ValueOf(n, k) ==
  IF n = 0 THEN 0
  ELSE IF Node(n).kind = "value" /\ Node(n).key = k THEN Node(n).val
  ELSE ValueOf(Node(n).par, k)

\* the nodes whose end ends n too: n itself and its ancestors, up to (not across) a ValueOnlyFrom
Scope(n) ==
  IF n = 0 THEN {}
  ELSE IF Node(n).kind = "vonly" /\ VOnlyMode # "keepdone" THEN {}
  ELSE {n} \cup Scope(Node(n).par)

\* the cancellation state reachable by a Value lookup (what context.Cause consults): the nearest
\* cancel/deadline node upwards, ValueOnlyFrom not stopping the lookup
LookupCancel(n) ==
  IF n = 0 THEN "none"
  ELSE IF Node(n).kind \in {"cancel", "deadline"} THEN Node(n).err
  ELSE LookupCancel(Node(n).par)

Up(x) == IF x = 0 THEN {} ELSE {x} \cup Up(Node(x).par)
Crosses(n) == \E m \in Up(n) : Node(m).kind = "vonly"

CInit == nodes = <<>> /\ cancelled = {}

Mk(rec) == nodes' = Append(nodes, rec) /\ UNCHANGED cancelled
Blank == [kind |-> "cancel", par |-> 0, key |-> 0, val |-> 0, dl |-> -1, err |-> "none"]

\* context.WithCancel(p): a child of an ended context is born ended, with the same error
MkCancel(p) == p \in 0..N /\ Mk([Blank EXCEPT !.par = p, !.err = ErrOf(p)])
\* context.WithDeadline(p, d): a passed deadline ends it at once (unless the parent's end came first)
MkDeadline(p, d) ==
  /\ p \in 0..N /\ d >= 0
  /\ Mk([Blank EXCEPT !.kind = "deadline", !.par = p, !.dl = d,
                      !.err = IF ErrOf(p) # "none" THEN ErrOf(p) ELSE IF d = 0 THEN "deadline" ELSE "none"])
MkValue(p, k, v) == p \in 0..N /\ k >= 1 /\ v >= 1 /\ Mk([Blank EXCEPT !.kind = "value", !.par = p, !.key = k, !.val = v])
\* contextx.ValueOnlyFrom(p)
MkVOnly(p) == p \in 0..N /\ Mk([Blank EXCEPT !.kind = "vonly", !.par = p])

\* the cancel function of node n: ends n and everything in whose scope n is, unless ended already
CancelNode(n) ==
  /\ n \in 1..N /\ Node(n).kind \in {"cancel", "deadline"}
  /\ nodes' = [m \in 1..N |->
       IF Node(m).kind \in {"cancel", "deadline"} /\ Node(m).err = "none" /\ n \in Scope(m) /\ Node(n).err = "none"
         THEN [Node(m) EXCEPT !.err = "canceled"] ELSE Node(m)]
  /\ cancelled' = cancelled \cup {n}

(* ---- properties ---- *)
VOnlyNodes == {n \in 1..N : Node(n).kind = "vonly"}
\* "without deadline and error control"
Detached == \A n \in VOnlyNodes : ErrOf(n) = "none" /\ DeadlineOf(n) = -1 /\ DoneNil(n)
\* "takes all values from the given ctx"
ValuesKept(Keys) == \A n \in VOnlyNodes : \A k \in Keys : ValueOf(n, k) = ValueOf(Node(n).par, k)
\* standard contexts: an ended parent means an ended child; a deadline never later than the parent's
ParentEndsChild == \A n \in 1..N : (Node(n).kind # "vonly" /\ ErrOf(Node(n).par) # "none") => ErrOf(n) # "none"
DeadlineShrinks == \A n \in 1..N : (Node(n).kind # "vonly" /\ DeadlineOf(Node(n).par) # -1) =>
                       (DeadlineOf(n) # -1 /\ DeadlineOf(n) <= DeadlineOf(Node(n).par))
PassedMeansEnded == \A n \in 1..N : DeadlineOf(n) = 0 => ErrOf(n) # "none"
\* a new scope: a context ends only because of something in its own scope -- its cancel function or
\* that of an ancestor up to (not across) the nearest ValueOnlyFrom, or a passed deadline there
EndedForAReason == \A m \in 1..N : (Node(m).kind \in {"cancel", "deadline"} /\ Node(m).err # "none") =>
   \E x \in Scope(m) : x \in cancelled \/ (Node(x).kind = "deadline" /\ Node(x).dl = 0)
CTypeOK == /\ \A n \in 1..N : Node(n).kind \in Kinds /\ Node(n).par \in 0..(n - 1)
                              /\ Node(n).err \in {"none", "canceled", "deadline"}
           /\ cancelled \subseteq 1..N
=============================================================================
