SPECIFICATION GSpec
CONSTANTS
  GTimes = {0, 1, 2, 4}
  GOuts = {"nil", "E1", "E2", "IG1", "WIG1", "hang"}
  Emit = FALSE
INVARIANTS Sane
VIEW View
CHECK_DEADLOCK FALSE
