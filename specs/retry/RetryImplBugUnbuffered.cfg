SPECIFICATION ISpec
CONSTANTS
  Variant = "unbuffered"
  Cfgs <- CfgsSmall
  Outs <- OutsSmall
INVARIANTS Refines NoLeak
CHECK_DEADLOCK FALSE
