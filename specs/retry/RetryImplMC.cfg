SPECIFICATION ISpec
CONSTANTS
  Variant = "code"
  Cfgs <- CfgsFull
  Outs <- OutsAll
INVARIANTS ITypeOK Refines NoLeak ChanBounded OneOutstanding
CHECK_DEADLOCK FALSE
