----------------------------- MODULE RetryImpl -----------------------------
(* Layer I (extension fxretry): core/fx/retry.go as it is written -- the for loop with
   `go fn(errChan, i)`, the select on errChan / ctx.Done(), the interval select on
   ctx.Done() / time.After, one buffered error channel shared by all attempts, the
   goroutines of the attempts, and an environment that cancels / lets the timeout
   expire / lets the interval elapse whenever it likes.

   The observable part (cfg, st, outs, ended, res, late of Retry.tla) is RECORDED here
   without Layer P's guards; TLC checks that every reachable state satisfies the
   Layer-P state predicates AttemptsOK / ResultOK / LateOK / ... and, on top, that no
   attempt goroutine is left blocked for ever on errChan (NoLeak).

   Variant:  "code"        retry.go
             "nobreak"     `case <-ctx.Done(): berr.Add(ctx.Err())` without the return
                           (a `break` that only leaves the select)
             "ignoreretry" an ignored error is skipped (next attempt) instead of ending the call
             "unbuffered"  errChan := make(chan error) -- the abandoned attempt can never deliver
             "extra"       `i <= options.times`                                          *)
EXTENDS Retry

CONSTANTS
  Variant,     \* see above
  Cfgs,        \* configurations explored
  Outs         \* outcomes fn may choose

VARIABLES
  pc,      \* main: "idle" | "loop" | "spawn" | "sel" | "sleep" | "done"
  i,       \* loop counter
  berr,    \* errors collected (BatchError)
  ch,      \* errChan (capacity 1)
  g,       \* attempt goroutines: index |-> [s: "spawned"|"run"|"hung"|"exit", out]
  ctx      \* the context retry selects on: "live" | "canceled" | "deadline"

ivars == <<pc, i, berr, ch, g, ctx>>
vars  == <<rvars, ivars>>

\* configuration sets for the model-checking configs (CONSTANT Cfgs <- ...)
CfgsOf(T, I, M, G) == {c \in [variant : Variants, times : T, ivl : I, tmo : M, ign : G, pre : Pres] : CfgOK(c)}
CfgsFull  == CfgsOf({0, 1, 2}, Durations, Durations, {{}, {"IG1"}, {"IG1", "IG2"}})
CfgsSmall == CfgsOf({1, 2}, Durations, {"none", "short"}, {{}, {"IG1"}})
CfgsLive  == CfgsOf({0, 1, 2}, {"none", "short"}, Durations, {{}, {"IG1"}})
OutsAll   == Outcomes
OutsSmall == {"nil", "E1", "IG1", "WIG1", "hang"}

Cap == IF Variant = "unbuffered" THEN 0 ELSE 1
Limit == IF Variant = "extra" THEN Times(cfg) + 1 ELSE Times(cfg)

IInit ==
  /\ RInit
  /\ pc = "idle" /\ i = 0 /\ berr = <<>> /\ ch = <<>> /\ g = <<>> /\ ctx = "live"

IStart(c) ==
  /\ pc = "idle"
  /\ cfg' = c /\ st' = "run" /\ outs' = <<>> /\ ended' = Ended0(c) /\ res' = NoRes /\ late' = FALSE
  /\ ctx' = IF c.pre \in {"canceled", "deadline"} THEN c.pre ELSE "live"
  /\ pc' = "loop" /\ i' = 0 /\ berr' = <<>> /\ ch' = <<>> /\ g' = <<>>

\* `return x`: record what Layer P calls Return, without its guard
Ret(r) == ReturnEff(r) /\ pc' = "done"

\* for i := 0; i < options.times; i++ { ... }  return berr.Err()
ILoop ==
  /\ pc = "loop"
  /\ IF i < Limit
       THEN pc' = "spawn" /\ UNCHANGED <<rvars, i, berr, ch, g, ctx>>
       ELSE Ret(berr) /\ UNCHANGED <<cfg, outs, ended, i, berr, ch, g, ctx>>

\* go fn(errChan, i)
ISpawn ==
  /\ pc = "spawn"
  /\ g' = [j \in DOMAIN g \cup {i + 1} |-> IF j = i + 1 THEN [s |-> "spawned", out |-> "nil"] ELSE g[j]]
  /\ pc' = "sel"
  /\ UNCHANGED <<rvars, i, berr, ch, ctx>>

AfterAttempt == IF cfg.ivl # "none" THEN "sleep" ELSE "loop"
AfterI       == IF cfg.ivl # "none" THEN i ELSE i + 1

\* case err := <-errChan
ISelChan ==
  /\ pc = "sel" /\ ch # <<>>
  /\ ch' = Tail(ch)
  /\ LET v == Head(ch) IN
       IF v = "nil" THEN Ret(<<>>) /\ UNCHANGED <<cfg, outs, ended, i, berr, g, ctx>>
       ELSE IF Ignored(cfg, v)
         THEN IF Variant = "ignoreretry"
                THEN pc' = AfterAttempt /\ i' = AfterI
                     /\ UNCHANGED <<rvars, berr, g, ctx>>
                ELSE Ret(<<>>) /\ UNCHANGED <<cfg, outs, ended, i, berr, g, ctx>>
         ELSE /\ berr' = Append(berr, v)
              /\ pc' = AfterAttempt /\ i' = AfterI
              /\ UNCHANGED <<rvars, g, ctx>>

\* case <-ctx.Done(): berr.Add(ctx.Err()); return berr.Err()
ISelDone ==
  /\ pc = "sel" /\ ctx # "live"
  /\ berr' = Append(berr, CtxText(ctx))
  /\ IF Variant = "nobreak"
       THEN pc' = AfterAttempt /\ i' = AfterI
            /\ UNCHANGED <<rvars, ch, g, ctx>>
       ELSE Ret(berr') /\ UNCHANGED <<cfg, outs, ended, i, ch, g, ctx>>

\* the interval: select { case <-ctx.Done(): ...return; case <-time.After(interval): }
ISleepDone ==
  /\ pc = "sleep" /\ ctx # "live"
  /\ berr' = Append(berr, CtxText(ctx))
  /\ Ret(berr') /\ UNCHANGED <<cfg, outs, ended, i, ch, g, ctx>>
ISleepTimer ==
  /\ pc = "sleep" /\ cfg.ivl = "short"
  /\ pc' = "loop" /\ i' = i + 1
  /\ UNCHANGED <<rvars, berr, ch, g, ctx>>

\* ---- the goroutine of attempt j: errChan <- fn(...)
GEnter(j, o) ==
  /\ j \in DOMAIN g /\ g[j].s = "spawned"
  /\ AttemptEff(IF cfg.variant = "ctx" THEN j - 1 ELSE -1, o)
  /\ late' = IF st = "ret" THEN FALSE ELSE late
  /\ g' = [g EXCEPT ![j] = [s |-> IF o = "hang" THEN "hung" ELSE "run", out |-> o]]
  /\ UNCHANGED <<cfg, st, ended, res, pc, i, berr, ch, ctx>>

\* fn returned; the send needs room in the channel (capacity 0: a receiver in the select)
GSend(j) ==
  /\ j \in DOMAIN g /\ g[j].s = "run"
  /\ IF Cap = 0 THEN pc = "sel" /\ ch = <<>> ELSE Len(ch) < Cap
  /\ ch' = Append(ch, g[j].out)
  /\ g' = [g EXCEPT ![j].s = "exit"]
  /\ UNCHANGED <<rvars, pc, i, berr, ctx>>

\* a hanging fn is let go by the harness once the call has returned; it answers E1
GRelease(j) ==
  /\ j \in DOMAIN g /\ g[j].s = "hung" /\ pc = "done"
  /\ g' = [g EXCEPT ![j] = [s |-> "run", out |-> "E1"]]
  /\ UNCHANGED <<rvars, pc, i, berr, ch, ctx>>

\* ---- environment
EnvCancel ==                                   \* the caller cancels its context
  /\ pc \notin {"idle"} /\ cfg.pre = "live" /\ "canceled" \notin ended
  /\ ended' = ended \cup {"canceled"}
  /\ ctx' = IF ctx = "live" THEN "canceled" ELSE ctx
  /\ UNCHANGED <<cfg, st, outs, res, late, pc, i, berr, ch, g>>
EnvTimeout ==                                  \* WithTimeout's timer fires
  /\ pc \notin {"idle", "done"} /\ cfg.tmo = "short" /\ ctx = "live"
  /\ ctx' = "deadline"
  /\ UNCHANGED <<rvars, pc, i, berr, ch, g>>

IStartAny   == \E c \in Cfgs : IStart(c)
GEnterAny   == \E j \in DOMAIN g, o \in Outs : GEnter(j, o)
GSendAny    == \E j \in DOMAIN g : GSend(j)
GReleaseAny == \E j \in DOMAIN g : GRelease(j)

INext ==
  \/ IStartAny
  \/ ILoop \/ ISpawn \/ ISelChan \/ ISelDone \/ ISleepDone \/ ISleepTimer
  \/ GEnterAny \/ GSendAny \/ GReleaseAny
  \/ EnvCancel \/ EnvTimeout

ISpec == IInit /\ [][INext]_vars

\* with fairness: the call returns unless fn hangs while nothing can end the context
FairSpec == ISpec /\ WF_vars(ILoop \/ ISpawn \/ ISelChan \/ ISelDone \/ ISleepDone \/ ISleepTimer)
                  /\ WF_vars(GEnterAny \/ GSendAny \/ GReleaseAny)
                  /\ WF_vars(EnvTimeout)

(* ---- properties --------------------------------------------------------------- *)
\* Layer P's predicates hold (Refines)
Refines == AttemptsOK /\ ResultOK /\ LateOK /\ NoCtxErrorWithoutCause /\ NilMeansSuccess

\* no attempt goroutine is blocked for ever: once the call has returned nobody receives
NoLeak == ~(pc = "done" /\ \E j \in DOMAIN g : g[j].s = "run" /\ (Cap = 0 \/ Len(ch) >= Cap))

ChanBounded == Len(ch) <= 1
OneOutstanding == Cardinality({j \in DOMAIN g : g[j].s \in {"spawned", "run", "hung"}}) <= 1

ITypeOK ==
  /\ RTypeOK
  /\ pc \in {"idle", "loop", "spawn", "sel", "sleep", "done"}
  /\ i \in 0..(Times(cfg) + 1)
  /\ ctx \in {"live", "canceled", "deadline"}
  /\ (pc = "done") = (st = "ret")

\* liveness: a call whose fn never hangs returns; a hanging fn needs a context that ends
Hangs == \E j \in DOMAIN g : g[j].s = "hung"
Returns == (pc # "idle" /\ ~Hangs) ~> (pc = "done" \/ Hangs)
ReturnsWhenEnded == (pc # "idle" /\ ctx # "live") ~> (pc = "done")
=============================================================================
