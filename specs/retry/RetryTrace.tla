----------------------------- MODULE RetryTrace -----------------------------
(* Trace validation for the extension fxretry (retry part): one trace = one call of the
   real fx.DoWithRetry / fx.DoWithRetryCtx with a harness-owned fn.

     reset
     start   variant times ivl tmo ign pre      logged before the call is made
     att     i rc out                           logged by fn when it is entered: i = number of
                                                earlier entries of fn in this call, rc = the
                                                retryCount fn was given (-1: DoWithRetry),
                                                out = what the script makes fn answer
     cancel                                     logged before the caller's cancel() is invoked
     ret     isnil parts lines is               the call returned: parts = messages of the
                                                joined errors (Unwrap() []error), lines = the
                                                message split at newlines, is = which of the
                                                known errors errors.Is reports
     stuck                                      the call had not returned when the watchdog expired
                                                (the harness only makes calls that can return)
     end     leaked                             every goroutine the call started is gone, or is
                                                blocked for good sending on errChan (leaked of them;
                                                -1: not observed by this driver)
     quiesce leaked                             the same, for a whole run of concurrent calls     *)
EXTENDS Retry, TraceKit

VARIABLE l
tvars == <<rvars, l>>

E == Trace[l]
IsEvent(e) == l <= Len(Trace) /\ E.e = e /\ l' = l + 1

Known == {"E1", "E2", "IG1", "IG2", "WIG1", CtxText("canceled"), CtxText("deadline")}

TReset == IsEvent("reset") /\ cfg' = NoCfg /\ st' = "idle" /\ outs' = <<>> /\ ended' = {}
                           /\ res' = NoRes /\ late' = FALSE
TStart == IsEvent("start")
          /\ Start([variant |-> E.variant, times |-> E.times, ivl |-> E.ivl, tmo |-> E.tmo,
                    ign |-> SeqToSet(E.ign), pre |-> E.pre])
TAtt   == IsEvent("att") /\ E.i = Len(outs)
          /\ (Attempt(E.rc, E.out) \/ LateAttempt(E.rc, E.out))
TCancel == IsEvent("cancel") /\ Cancel
TRet   == IsEvent("ret")
          /\ Return(E.parts)
          /\ E.lines = E.parts                       \* Error() is the messages joined by newlines
          /\ E.isnil = (E.parts = <<>>)              \* nil exactly when nothing was collected
          /\ SeqToSet(E.is) = IsSet(E.parts) \cap Known
TStuck == IsEvent("stuck") /\ Stuck
TEnd   == IsEvent("end") /\ End /\ E.leaked \in {0, -1}
TQuiesce == IsEvent("quiesce") /\ st = "idle" /\ E.leaked = 0 /\ UNCHANGED rvars

TInit == RInit /\ l = 1
TNext == TReset \/ TStart \/ TAtt \/ TCancel \/ TRet \/ TStuck \/ TEnd \/ TQuiesce
TSpec == TInit /\ [][TNext]_tvars

TInv == RTypeOK /\ AttemptsOK /\ ResultOK /\ LateOK /\ NoCtxErrorWithoutCause /\ NilMeansSuccess
HW == HighWater(l)
=============================================================================
